(* translate/r2c tie, round 4 (5): MockDisplay::draw_pixel (src/mock_display/mod.rs:374-391).  The generated definition is
   option-valued: None is a Rust panic (`panic!` out of bounds / overdraw, or a panic of get_pixel / set_pixel_unchecked); on
   representing displays it panics exactly when the model's draw_pixel does and otherwise yields a representing display. *)
From EG Require Import Base.Prelude Base.Casts Model.Geometry Gen.MockConsts Model.Mockdisplay Gen.SrcGeometry Gen.SrcMock Gen.SrcMock2.
From EG Require Import Proofs.SrcGeometry Proofs.SrcMock.
Set Default Timeout 60.
(* the generated definitions that cast to usize (`as usize`, `usize::try_from`) take the width of usize as Casts.UsizeW; the model
   of this property works with 64-bit usize (exact integers in range): taken at that width *)
#[local] Existing Instance Casts.usize64_w.

Lemma src_display_area_eq : src_DISPLAY_AREA = DISPLAY_AREA.
Proof. reflexivity. Qed.

Lemma opt_eta {A} (o : option A) : match o with Some t => Some t | None => None end = o.
Proof. destruct o; reflexivity. Qed.

(* the model's get_pixel never panics (the index is in range after its bounds test) *)
Lemma get_pixel_total d p : exists v, get_pixel d p = Ok v.
Proof.
  unfold get_pixel. change SIZE with 64. rewrite !Z.geb_leb.
  destruct (Z.ltb_spec (px p) 0); [eexists; reflexivity|]. destruct (Z.ltb_spec (py p) 0); [eexists; reflexivity|].
  destruct (Z.leb_spec 64 (px p)); [eexists; reflexivity|]. destruct (Z.leb_spec 64 (py p)); [eexists; reflexivity|]. cbn [orb].
  unfold arr_get, in_array, NCELLS. change SIZE with 64.
  rewrite (proj2 (Z.leb_le 0 _)) by lia. rewrite (proj2 (Z.ltb_lt _ (64 * 64))) by lia. eexists; reflexivity.
Qed.

Lemma src_draw_pixel_rel s d p c : drepr s d ->
  i32_min <= px p <= i32_max -> i32_min <= py p <= i32_max ->
  res_rel drepr (src_MockDisplay_draw_pixel s p c) (draw_pixel d p c).
Proof.
  intros Hr Hx Hy. unfold draw_pixel, src_MockDisplay_draw_pixel. cbv zeta.
  rewrite src_display_area_eq.
  rewrite src_Rectangle_contains_eq by (unfold size_i32, DISPLAY_AREA, i32_max; cbn; change SIZE with 64; lia).
  pose proof Hr as [HR [Ho Hb]].
  destruct (contains DISPLAY_AREA p) eqn:EC; cbn [negb].
  - assert (HI : i32_min <= px p + py p * SIZE <= i32_max).
    { unfold contains, DISPLAY_AREA in EC. cbn in EC. change SIZE with 64 in *. unfold i32_min, i32_max.
      repeat (apply andb_prop in EC; destruct EC as [EC ?]).
      repeat match goal with H : (_ <=? _) = true |- _ => apply Z.leb_le in H | H : (_ <? _) = true |- _ => apply Z.ltb_lt in H end. lia. }
    pose proof (src_mock_get_pixel_eq s d p Hr) as G.
    pose proof (src_mock_set_pixel_unchecked_rel s d p (Some c) Hr HI) as U.
    destruct (get_pixel_total d p) as [cur EG]. rewrite EG in *. cbn [bind].
    rewrite !opt_eta. rewrite Ho. destruct (allow_overdraw d); cbn [negb andb]; [exact U|].
    destruct (src_MockDisplay_get_pixel s p) as [cur'|]; cbn in G; [|contradiction]. subst cur'.
    destruct cur as [x|]; cbn [is_some]; [exact I|exact U].
  - rewrite Hb. destruct (negb (allow_oob d)); cbn; [exact I|exact Hr].
Qed.

(* ---- affected_area: `bounding_box().points().zip(self.pixels.iter()).filter_map(..).fold(..)` ---- *)
From EG Require Import Base.Lemmas Proofs.Geometry Gen.SrcRectPoints Proofs.SrcRectPoints.

Section Collect.
Variables xs xe ye : Z.
Hypothesis Hw : xs < xe.

Lemma collect_rows : forall m b, Z.of_nat m = ye - b -> (1 <= m)%nat ->
  forall n a, Z.of_nat n = Z.max 0 (xe - a) -> xs <= a ->
  forall K, (length (rest xs xe ye a b) < K)%nat ->
  src_MockDisplay_affected_area_collect1 K rp_fuel (st a xe b ye xs) = Some (rest xs xe ye a b).
Proof.
  induction m as [|m IHm]; [lia|]. intros b Hm _.
  induction n as [|n IHn]; intros a Hn Ha K HK.
  - destruct K; [lia|]. cbn [src_MockDisplay_affected_area_collect1].
    destruct m as [|m'].
    + destruct (next_end a xe b ye xs) as [s' E]; try lia. rewrite E.
      unfold rest. rewrite (range_nil a xe) by lia. rewrite (range_nil (b + 1) ye) by lia. reflexivity.
    + rewrite next_new_row by lia.
      assert (ER : rest xs xe ye a b = P xs (b + 1) :: rest xs xe ye (xs + 1) (b + 1)).
      { unfold rest at 1. rewrite (range_nil a xe) by lia. rewrite (range_cons (b + 1) ye) by lia.
        cbn [map app flat_map]. unfold row at 1. rewrite (range_cons xs xe) by lia. reflexivity. }
      rewrite ER in *. cbn [length] in HK.
      rewrite (IHm (b + 1) ltac:(lia) ltac:(lia) (Z.to_nat (xe - (xs + 1))) (xs + 1) ltac:(lia) ltac:(lia) K ltac:(lia)).
      reflexivity.
  - destruct K; [lia|]. cbn [src_MockDisplay_affected_area_collect1].
    rewrite next_in_row by lia.
    assert (ER : rest xs xe ye a b = P a b :: rest xs xe ye (a + 1) b).
    { unfold rest at 1. rewrite (range_cons a xe) by lia. reflexivity. }
    rewrite ER in *. cbn [length] in HK.
    rewrite (IHn (a + 1) ltac:(lia) ltac:(lia) K ltac:(lia)). reflexivity.
Qed.
End Collect.

Lemma collect_display_points K : (4096 < K)%nat ->
  src_MockDisplay_affected_area_collect1 K 3 (src_Rectangle_points (R (P 0 0) (Geometry.S 64 64))) = Some (points bounding_box).
Proof.
  intros HK.
  change (src_Rectangle_points (R (P 0 0) (Geometry.S 64 64))) with (st 0 64 0 64 0). change 3%nat with rp_fuel.
  rewrite (collect_rows 0 64 64 ltac:(lia) 64 0 ltac:(reflexivity) ltac:(lia) 64 0 ltac:(reflexivity) ltac:(lia) K).
  - f_equal; try (vm_compute; reflexivity).
  - assert (L : length (rest 0 64 64 0 0) = 4096%nat) by (vm_compute; reflexivity). lia.
Qed.

Lemma zip_combine {A B} (l1 : list A) (l2 : list B) : zip l1 l2 = List.combine l1 l2.
Proof. revert l2. induction l1 as [|x t IH]; intros [|y u]; cbn; try reflexivity. rewrite IH. reflexivity. Qed.

Lemma repr_cells_list l c : repr l c -> l = map (cell c) (range 0 NCELLS).
Proof.
  intros [HL HR]. assert (HN : NCELLS = 4096) by reflexivity.
  apply (nth_ext l (map (cell c) (range 0 NCELLS)) None (cell c 0)).
  - rewrite map_length. unfold range. rewrite length_range_from. lia.
  - intros n Hn.
    rewrite (map_nth (cell c) (range 0 NCELLS) 0 n).
    assert (Hn' : 0 <= Z.of_nat n < NCELLS) by lia.
    unfold range. rewrite nth_range_from by lia. rewrite Z.add_0_l.
    rewrite <- (HR (Z.of_nat n) Hn'). rewrite Nat2Z.id. reflexivity.
Qed.

Lemma fold_left_ext {A B} (f g : A -> B -> A) l : (forall a x, f a x = g a x) -> forall a, fold_left f l a = fold_left g l a.
Proof. intros H. induction l as [|x t IH]; intros a; [reflexivity|]. cbn [fold_left]. rewrite H. apply IH. Qed.

Theorem src_affected_area_eq F s d : drepr s d -> (4096 < F)%nat ->
  src_MockDisplay_affected_area F s = Some (affected_area d).
Proof.
  intros [HR _] HF. unfold src_MockDisplay_affected_area.
  change (src_MockDisplay_bounding_box s) with (R (P 0 0) (Geometry.S 64 64)).
  rewrite (collect_display_points F HF).
  rewrite (repr_cells_list _ _ HR).
  unfold affected_area, touched_points. rewrite zip_combine. fold (cells_list d).
  set (pts := flat_map _ (List.combine (points bounding_box) (cells_list d))).
  set (pts' := flat_map _ (List.combine (points bounding_box) (cells_list d))).
  assert (EP : pts = pts').
  { unfold pts, pts'. apply flat_map_ext. intros [p [c|]]; reflexivity. }
  rewrite EP.
  rewrite (fold_left_ext _ aa_step pts').
  - destruct (fold_left aa_step pts' (None, None)) as [[tl|] [br|]]; reflexivity.
  - intros [[t|] [b|]] x; reflexivity.
Qed.
