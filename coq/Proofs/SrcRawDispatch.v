(* translate/r2c tie, round 5 (2): the members of `impl_raw_data!` that no lemma used (audit3 E1, E4, E5): `From<storage>::from`,
   `from_u32`, `new_unmasked`, `into_inner` of the seven raw types; the sub-byte `LoadStore` impls once per invocation of
   `impl_load_store_bits!` (they call the real `From<u8>` / into_inner / MASK / BITS_PER_PIXEL of RawU1 / RawU2 / RawU4, where the
   template of Gen/SrcLoadStore.v abstracts them); and `RawData::load / store` (raw/mod.rs), whose body
   `load_store::LoadStore::<O>::load(buffer, index)` the translator resolves to the LoadStore impl of the same type.  *)
From EG Require Import Base.Prelude Base.Casts Model.Rawdata Gen.SrcRaw Gen.SrcRawData Gen.SrcLoadStore Gen.SrcLoadStoreBitsInst Gen.SrcLoadStoreBytes Gen.SrcRawDispatch.
From EG Require Import Proofs.SrcLoadStore Proofs.SrcLoadStoreBytes.
Set Default Timeout 60.

(* `impl From<$storage_type> for $type`: from(value) = new(value) *)
Lemma src_raw_from_eq v :
  src_RawU1_from v = raw_new U1 v /\ src_RawU2_from v = raw_new U2 v /\ src_RawU4_from v = raw_new U4 v /\
  src_RawU8_from v = raw_new U8 v /\ src_RawU16_from v = raw_new U16 v /\ src_RawU24_from v = raw_new U24 v /\
  src_RawU32_from v = raw_new U32 v.
Proof. repeat split; reflexivity. Qed.

Lemma land_low8 v m : 0 <= m < 256 -> Z.land (v mod 2 ^ 8) m = Z.land v m.
Proof.
  intros Hm. rewrite <- Z.land_ones by lia. rewrite <- Z.land_assoc. f_equal.
  rewrite Z.land_comm. change (Z.ones 8) with 255. apply land_255_id. lia.
Qed.
Lemma land_low16 v m : 0 <= m < 65536 -> Z.land (v mod 2 ^ 16) m = Z.land v m.
Proof.
  intros Hm. rewrite <- Z.land_ones by lia. rewrite <- Z.land_assoc. f_equal.
  rewrite Z.land_comm. rewrite Z.land_ones by lia. apply Z.mod_small. cbn. lia.
Qed.

(* `from_u32(value) = Self::new(value as $storage_type)`: the cast keeps the bits that `new` keeps *)
Lemma src_raw_from_u32_eq v : 0 <= v <= 4294967295 ->
  src_RawU1_from_u32 v = raw_new U1 v /\ src_RawU2_from_u32 v = raw_new U2 v /\ src_RawU4_from_u32 v = raw_new U4 v /\
  src_RawU8_from_u32 v = raw_new U8 v /\ src_RawU16_from_u32 v = raw_new U16 v /\ src_RawU24_from_u32 v = raw_new U24 v /\
  src_RawU32_from_u32 v = raw_new U32 v.
Proof.
  intros Hv.
  unfold src_RawU1_from_u32, src_RawU2_from_u32, src_RawU4_from_u32, src_RawU8_from_u32, src_RawU16_from_u32, src_RawU24_from_u32, src_RawU32_from_u32.
  unfold src_RawU1_new, src_RawU2_new, src_RawU4_new, src_RawU8_new, src_RawU16_new, src_RawU24_new, src_RawU32_new, raw_new.
  unfold Casts.cast_u32_u8, Casts.cast_u32_u16, Casts.wrap_u8, Casts.wrap_u16, Casts.wrap_unsigned.
  repeat split; try (apply land_low8; cbv; split; [discriminate|reflexivity]); try (apply land_low16; cbv; split; [discriminate|reflexivity]); reflexivity.
Qed.

(* new_unmasked / into_inner: the stored integer itself *)
Lemma src_raw_unmasked_inner_eq v :
  src_RawU1_new_unmasked v = v /\ src_RawU2_new_unmasked v = v /\ src_RawU4_new_unmasked v = v /\ src_RawU8_new_unmasked v = v /\
  src_RawU16_new_unmasked v = v /\ src_RawU24_new_unmasked v = v /\ src_RawU32_new_unmasked v = v /\
  src_RawU1_into_inner v = v /\ src_RawU2_into_inner v = v /\ src_RawU4_into_inner v = v /\ src_RawU8_into_inner v = v /\
  src_RawU16_into_inner v = v /\ src_RawU24_into_inner v = v /\ src_RawU32_into_inner v = v.
Proof. repeat split; reflexivity. Qed.

(* the instances of impl_load_store_bits! are the template at their raw type *)
Lemma src_bits_inst_load alt buf index :
  src_RawU1_load_O alt buf index = src_load_bits U1 alt buf index /\
  src_RawU2_load_O alt buf index = src_load_bits U2 alt buf index /\
  src_RawU4_load_O alt buf index = src_load_bits U4 alt buf index.
Proof. repeat split; reflexivity. Qed.
Lemma src_bits_inst_store alt v buf index :
  src_RawU1_store_O alt v buf index = src_store_bits U1 alt v buf index /\
  src_RawU2_store_O alt v buf index = src_store_bits U2 alt v buf index /\
  src_RawU4_store_O alt v buf index = src_store_bits U4 alt v buf index.
Proof. repeat split; reflexivity. Qed.

Lemma src_RawU1_load_eq alt buf index : 0 <= index -> src_RawU1_load_O alt buf index = load_bits U1 alt buf index.
Proof. intros H. rewrite (proj1 (src_bits_inst_load alt buf index)). apply src_load_bits_eq; [exact H|cbn; lia]. Qed.
Lemma src_RawU2_load_eq alt buf index : 0 <= index -> src_RawU2_load_O alt buf index = load_bits U2 alt buf index.
Proof. intros H. rewrite (proj1 (proj2 (src_bits_inst_load alt buf index))). apply src_load_bits_eq; [exact H|cbn; lia]. Qed.
Lemma src_RawU4_load_eq alt buf index : 0 <= index -> src_RawU4_load_O alt buf index = load_bits U4 alt buf index.
Proof. intros H. rewrite (proj2 (proj2 (src_bits_inst_load alt buf index))). apply src_load_bits_eq; [exact H|cbn; lia]. Qed.

Lemma src_RawU1_store_eq alt v buf index : 0 <= index -> 0 <= v <= mask U1 ->
  (fst (src_RawU1_store_O alt v buf index), res_ok (snd (src_RawU1_store_O alt v buf index))) = store_bits U1 alt v buf index.
Proof. intros H Hv. rewrite (proj1 (src_bits_inst_store alt v buf index)). apply src_store_bits_eq; [exact H|cbn; lia|exact Hv]. Qed.
Lemma src_RawU2_store_eq alt v buf index : 0 <= index -> 0 <= v <= mask U2 ->
  (fst (src_RawU2_store_O alt v buf index), res_ok (snd (src_RawU2_store_O alt v buf index))) = store_bits U2 alt v buf index.
Proof. intros H Hv. rewrite (proj1 (proj2 (src_bits_inst_store alt v buf index))). apply src_store_bits_eq; [exact H|cbn; lia|exact Hv]. Qed.
Lemma src_RawU4_store_eq alt v buf index : 0 <= index -> 0 <= v <= mask U4 ->
  (fst (src_RawU4_store_O alt v buf index), res_ok (snd (src_RawU4_store_O alt v buf index))) = store_bits U4 alt v buf index.
Proof. intros H Hv. rewrite (proj2 (proj2 (src_bits_inst_store alt v buf index))). apply src_store_bits_eq; [exact H|cbn; lia|exact Hv]. Qed.

(* RawData::load::<O> = Rawdata.load at the raw type (the data order of RawU8 is irrelevant: its LoadStore impl ignores O) *)
Lemma src_raw_dispatch_load_eq {U : Usize} alt buf index : 0 <= index ->
  src_RawU1_RawData_load alt buf index = load U1 alt buf index /\
  src_RawU2_RawData_load alt buf index = load U2 alt buf index /\
  src_RawU4_RawData_load alt buf index = load U4 alt buf index /\
  src_RawU8_RawData_load buf index = load U8 alt buf index /\
  src_RawU16_RawData_load alt buf index = load U16 alt buf index /\
  src_RawU24_RawData_load alt buf index = load U24 alt buf index /\
  src_RawU32_RawData_load alt buf index = load U32 alt buf index.
Proof.
  intros H. unfold load.
  repeat split.
  - exact (src_RawU1_load_eq alt buf index H).
  - exact (src_RawU2_load_eq alt buf index H).
  - exact (src_RawU4_load_eq alt buf index H).
  - exact (src_RawU8_load_eq buf index H).
  - exact (src_RawU16_load_eq alt buf index H).
  - exact (src_RawU24_load_eq alt buf index H).
  - exact (src_RawU32_load_eq alt buf index H).
Qed.

Definition pair_ok (r : list Z * (unit + OutOfBoundsError)) : list Z * bool := (fst r, res_ok (snd r)).

Lemma pair_ok_eta (r : list Z * (unit + OutOfBoundsError)) : pair_ok (let '(a, b) := r in (a, b)) = (fst r, res_ok (snd r)).
Proof. destruct r; reflexivity. Qed.

Lemma src_raw_dispatch_store_sub {U : Usize} alt v buf index : 0 <= index ->
  (0 <= v <= mask U1 -> pair_ok (src_RawU1_RawData_store alt v buf index) = store U1 alt v buf index) /\
  (0 <= v <= mask U2 -> pair_ok (src_RawU2_RawData_store alt v buf index) = store U2 alt v buf index) /\
  (0 <= v <= mask U4 -> pair_ok (src_RawU4_RawData_store alt v buf index) = store U4 alt v buf index).
Proof.
  intros H. unfold store.
  repeat split; intros Hv.
  - unfold src_RawU1_RawData_store. rewrite pair_ok_eta. exact (src_RawU1_store_eq alt v buf index H Hv).
  - unfold src_RawU2_RawData_store. rewrite pair_ok_eta. exact (src_RawU2_store_eq alt v buf index H Hv).
  - unfold src_RawU4_RawData_store. rewrite pair_ok_eta. exact (src_RawU4_store_eq alt v buf index H Hv).
Qed.

Lemma src_raw_dispatch_store_bytes {U : Usize} alt v buf index : 0 <= index ->
  pair_ok (src_RawU8_RawData_store v buf index) = store U8 alt v buf index /\
  pair_ok (src_RawU16_RawData_store alt v buf index) = store U16 alt v buf index /\
  pair_ok (src_RawU24_RawData_store alt v buf index) = store U24 alt v buf index /\
  pair_ok (src_RawU32_RawData_store alt v buf index) = store U32 alt v buf index.
Proof.
  intros H. unfold store.
  repeat split.
  - unfold src_RawU8_RawData_store. rewrite pair_ok_eta. exact (src_RawU8_store_eq v buf index H).
  - unfold src_RawU16_RawData_store. rewrite pair_ok_eta. exact (src_RawU16_store_eq alt v buf index H).
  - unfold src_RawU24_RawData_store. rewrite pair_ok_eta. exact (src_RawU24_store_eq alt v buf index H).
  - unfold src_RawU32_RawData_store. rewrite pair_ok_eta. exact (src_RawU32_store_eq alt v buf index H).
Qed.
