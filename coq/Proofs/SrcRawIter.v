(* translate/r2c tie, round 3 (2): RawDataIterator (src/iterator/raw.rs).  The generic raw type R is its stored integer;
   `R::load::<O>` - a trait call dispatched on R and O - is a FUNCTION PARAMETER of the generated definitions; instantiated
   with the model's dispatch `Rawdata.load t alt` (whose branches are tied to the LoadStore impls by Proofs/SrcLoadStore.v
   and Proofs/SrcLoadStoreBytes.v) the generated next / nth / size_hint equal Rawdata.iter_next / iter_nth / size_hint. *)
From EG Require Import Base.Prelude Base.Casts Model.Rawdata Gen.SrcRawIter.
From EG Require Export Proofs.SrcUsize.
Set Default Timeout 60.

Lemma src_rawiter_new_eq data : src_RawDataIterator_new data = iter_new data.
Proof. reflexivity. Qed.

Lemma src_rawiter_next_eq {U : Usize} t alt s :
  src_RawDataIterator_next (load t alt) s = (snd (iter_next t alt s), fst (iter_next t alt s)).
Proof.
  unfold src_RawDataIterator_next, iter_next. destruct (load t alt (it_data s) (it_index s)); [reflexivity|].
  destruct s; reflexivity.
Qed.

Lemma src_rawiter_nth_eq {U : Usize} t alt s n : 0 <= it_index s -> 0 <= n ->
  src_RawDataIterator_nth (load t alt) s n = (snd (iter_nth t alt s n), fst (iter_nth t alt s n)).
Proof.
  intros Hi Hn. unfold src_RawDataIterator_nth, iter_nth. rewrite src_rawiter_next_eq.
  assert (E : Casts.sat_add_usize (it_index s) n = sat_add_usize (it_index s) n).
  { unfold Casts.sat_add_usize, Casts.clamp, sat_add_usize, Casts.min_usize. cbn [Casts.usize_max_w usize_w_of]. pose proof usize_at_least_16. lia. }
  rewrite E. destruct (iter_next t alt _); reflexivity.
Qed.

Lemma src_rawiter_size_hint_eq {U : Usize} t s :
  0 <= it_index s -> Z.of_nat (length (it_data s)) * 8 <= usize_max ->
  src_RawDataIterator_size_hint (bits t) s = size_hint t s.
Proof.
  intros Hi Hl. unfold src_RawDataIterator_size_hint, size_hint, pixels_total, buf_len.
  set (p := if 8 <=? bits t then _ else _).
  assert (Hp : 0 <= p <= usize_max).
  { unfold p. destruct t; cbn; try lia;
      (split; [apply Z.div_pos; lia | apply Z.le_trans with (Z.of_nat (length (it_data s))); [apply Z.div_le_upper_bound; lia | lia]]). }
  assert (E : Casts.sat_sub_usize p (it_index s) = sat_sub_usize p (it_index s)).
  { unfold Casts.sat_sub_usize, Casts.clamp, sat_sub_usize, Casts.min_usize in *. cbn [Casts.usize_max_w usize_w_of]. lia. }
  cbv zeta. rewrite E. reflexivity.
Qed.
