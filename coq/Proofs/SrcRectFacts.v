(* translate/r2c tie, round 5 (4): facts about Geometry.intersection that the src theorems used to take as hypotheses: the
   intersection of two rectangles with i32 extents has i32 extents, and the intersection of an origin rectangle with any such
   rectangle has a corner in 0 .. i32_max (Cropped::new, C03_src). *)
From EG Require Import Base.Prelude Base.Casts Model.Geometry Proofs.SrcGeometry.
Set Default Timeout 60.
Ltac bool_hyps :=
  repeat match goal with
  | H : (_ && _)%bool = true |- _ => apply andb_prop in H; destruct H
  | H : (_ || _)%bool = true |- _ => apply Bool.orb_prop in H; destruct H
  | H : (_ && _)%bool = false |- _ => apply Bool.andb_false_iff in H; destruct H
  | H : (_ || _)%bool = false |- _ => apply Bool.orb_false_iff in H; destruct H
  | H : (_ <=? _) = true |- _ => apply Z.leb_le in H
  | H : (_ <=? _) = false |- _ => apply Z.leb_gt in H
  | H : (_ <? _) = true |- _ => apply Z.ltb_lt in H
  | H : (_ <? _) = false |- _ => apply Z.ltb_ge in H
  | H : Some _ = Some _ |- _ => injection H as H; try subst
  | H : Some _ = None |- _ => discriminate H
  | H : None = Some _ |- _ => discriminate H
  | H : false = true |- _ => discriminate H
  | H : true = false |- _ => discriminate H
  end.
Ltac ifs :=
  repeat (match goal with
          | |- context [if ?c then _ else _] => destruct c eqn:?
          | H : context [if ?c then _ else _] |- _ => destruct c eqn:?
          end; cbn [sz sw sh tl px py] in * ).
Lemma origin_intersection_facts size crop : size_i32 size -> size_i32 (sz crop) ->
  let ca := intersection (R (P 0 0) size) crop in
  0 <= px (tl ca) <= i32_max /\ 0 <= py (tl ca) <= i32_max /\ 0 <= sw (sz ca).
Proof.
  intros [Hw Hh] [Cw Ch]. destruct crop as [[cx cy] [cw ch]], size as [w h]. cbn [sz sw sh tl px py] in *.
  unfold intersection, contains, overlaps, with_corners, component_max, component_min, size_from_bounding_box, rect_zero, i32_max in *.
  unfold bottom_right in *. cbn [sz sw sh tl px py].
  ifs; bool_hyps; cbn [px py] in *; lia.
Qed.
Lemma intersection_size_i32 a b : size_i32 (sz a) -> size_i32 (sz b) -> size_i32 (sz (intersection a b)).
Proof.
  intros [Hw Hh] [Cw Ch]. destruct a as [[ax ay] [aw ah]], b as [[bx by_] [bw bh]]. cbn [sz sw sh tl px py] in *.
  unfold size_i32, intersection, contains, overlaps, with_corners, component_max, component_min, size_from_bounding_box, rect_zero, i32_max in *.
  unfold bottom_right in *. cbn [sz sw sh tl px py].
  ifs; bool_hyps; cbn [px py] in *; lia.
Qed.
