(* translate/r2c tie for core/src/primitives/rectangle/points.rs (the Points iterator, whose `next` contains a `while`
   loop and is therefore generated with explicit fuel) and src/primitives/common/distance_iterator.rs.
   Main result: driving the translated `next` (fuel 3 per call is always enough) from `Points::new(r)` yields exactly
   the list Geometry.points r of the hand-written model, for every rectangle in the modelled range. *)
From EG Require Import Base.Prelude Base.Lemmas Base.Casts Model.Geometry Proofs.Geometry.
From EG Require Import Gen.SrcGeometry Gen.SrcCircle Gen.SrcRectPoints Proofs.SrcGeometry.
Set Default Timeout 60.

Definition rp_fuel : nat := 3.

(* the iterator driven until its first None.  None = the step budget n ran out before the iterator finished (or `next` itself
   ran out of its fuel); Some l = the iterator yielded l and then None *)
Fixpoint src_rect_points_collect (n : nat) (s : rectangle_Points) : option (list point) :=
  match n with
  | O => None
  | Datatypes.S k =>
      match src_rectangle_Points_next rp_fuel s with
      | Some (s', Some p) => option_map (cons p) (src_rect_points_collect k s')
      | Some (_, None) => Some []
      | None => None
      end
  end.

Definition st (a xe b ye xs : Z) : rectangle_Points := Build_rectangle_Points (a, xe) (b, ye) xs.

Ltac step :=
  unfold src_rectangle_Points_next, rp_fuel, st;
  cbn [src_rectangle_Points_next_loop1 rectangle_Points_x rectangle_Points_y rectangle_Points_x_start fst snd negb].

Ltac cmp :=
  repeat (match goal with
          | |- context [?x <? ?y] =>
              first [ rewrite (proj2 (Z.ltb_lt x y)) by lia | rewrite (proj2 (Z.ltb_ge x y)) by lia ]
          end;
          cbn [rectangle_Points_x rectangle_Points_y rectangle_Points_x_start fst snd negb]).

Lemma next_in_row a xe b ye xs : a < xe -> b < ye ->
  src_rectangle_Points_next rp_fuel (st a xe b ye xs) = Some (st (a + 1) xe b ye xs, Some (P a b)).
Proof. intros Ha Hb. step. cmp. reflexivity. Qed.

Lemma next_new_row a xe b ye xs : xe <= a -> b + 1 < ye -> xs < xe ->
  src_rectangle_Points_next rp_fuel (st a xe b ye xs) = Some (st (xs + 1) xe (b + 1) ye xs, Some (P xs (b + 1))).
Proof. intros Ha Hb Hx. step. cmp. reflexivity. Qed.

Lemma next_end a xe b ye xs : xe <= a -> b < ye -> ye <= b + 1 ->
  exists s', src_rectangle_Points_next rp_fuel (st a xe b ye xs) = Some (s', None).
Proof. intros Ha Hb Hy. step. cmp. eexists. reflexivity. Qed.

Lemma next_empty a xe b ye xs : ye <= b ->
  src_rectangle_Points_next rp_fuel (st a xe b ye xs) = Some (st a xe b ye xs, None).
Proof. intros Hy. step. cmp. reflexivity. Qed.

Section Run.
Variables xs xe ye : Z.
Hypothesis Hw : xs < xe.

Definition row (y : Z) : list point := map (fun x => P x y) (range xs xe).
Definition rest (a b : Z) : list point := map (fun x => P x b) (range a xe) ++ flat_map row (range (b + 1) ye).

Lemma run_rows : forall m b, Z.of_nat m = ye - b -> (1 <= m)%nat ->
  forall n a, Z.of_nat n = Z.max 0 (xe - a) -> xs <= a ->
  forall K, src_rect_points_collect K (st a xe b ye xs) = if (length (rest a b) <? K)%nat then Some (rest a b) else None.
Proof.
  induction m as [|m IHm]; [lia|]. intros b Hm _.
  induction n as [|n IHn]; intros a Hn Ha K.
  - destruct K; [reflexivity|]. cbn [src_rect_points_collect].
    destruct m as [|m'].
    + destruct (next_end a xe b ye xs) as [s' E]; try lia. rewrite E.
      unfold rest. rewrite (range_nil a xe) by lia. rewrite (range_nil (b + 1) ye) by lia. reflexivity.
    + rewrite next_new_row by lia.
      assert (ER : rest a b = P xs (b + 1) :: rest (xs + 1) (b + 1)).
      { unfold rest at 1. rewrite (range_nil a xe) by lia. rewrite (range_cons (b + 1) ye) by lia.
        cbn [map app flat_map]. unfold row at 1. rewrite (range_cons xs xe) by lia. reflexivity. }
      rewrite ER. cbn [length].
      rewrite (IHm (b + 1) ltac:(lia) ltac:(lia) (Z.to_nat (xe - (xs + 1))) (xs + 1) ltac:(lia) ltac:(lia) K).
      change (Datatypes.S (length (rest (xs + 1) (b + 1))) <? Datatypes.S K)%nat with (length (rest (xs + 1) (b + 1)) <? K)%nat.
      destruct (length (rest (xs + 1) (b + 1)) <? K)%nat; reflexivity.
  - destruct K; [reflexivity|]. cbn [src_rect_points_collect].
    rewrite next_in_row by lia.
    assert (ER : rest a b = P a b :: rest (a + 1) b).
    { unfold rest at 1. rewrite (range_cons a xe) by lia. reflexivity. }
    rewrite ER. cbn [length].
    rewrite (IHn (a + 1) ltac:(lia) ltac:(lia) K).
    change (Datatypes.S (length (rest (a + 1) b)) <? Datatypes.S K)%nat with (length (rest (a + 1) b) <? K)%nat.
    destruct (length (rest (a + 1) b) <? K)%nat; reflexivity.
Qed.
End Run.

(* both directions: with a budget above the number of points the run finishes with exactly the points of the model; with a smaller
   budget it does not finish (None) *)
Theorem src_rect_points_eq r n :
  rect_ok r ->
  src_rect_points_collect n (src_rectangle_Points_new r) = if (length (points r) <? n)%nat then Some (points r) else None.
Proof.
  intros H. rewrite (points_row_major r H).
  unfold src_rectangle_Points_new.
  change (src_Rectangle_is_zero_sized r) with (is_zero_sized r). change (src_Rectangle_columns r) with (columns r).
  change (src_Rectangle_rows r) with (rows r).
  destruct (rows_columns_spec r H) as [Er Ec]. rewrite Ec, Er. cbv zeta. cbn [fst].
  destruct (is_zero_sized r) eqn:Ez.
  - cbn [length]. destruct n; [reflexivity|]. cbn [src_rect_points_collect].
    change src_rectangle_Points_empty with (st 0 0 0 0 0). rewrite next_empty by lia. reflexivity.
  - unfold is_zero_sized in Ez. apply Bool.orb_false_iff in Ez. destruct Ez as [Eh Ew].
    apply Z.eqb_neq in Eh. apply Z.eqb_neq in Ew.
    assert (Hw : 0 < sw (sz r)) by (unfold rect_ok, size_ok in H; lia).
    assert (Hh : 0 < sh (sz r)) by (unfold rect_ok, size_ok in H; lia).
    set (x0 := px (tl r)) in *. set (y0 := py (tl r)) in *. set (w := sw (sz r)) in *. set (h := sh (sz r)) in *.
    change (Build_rectangle_Points (x0, x0 + w) (y0, y0 + h) x0) with (st x0 (x0 + w) y0 (y0 + h) x0).
    rewrite (run_rows x0 (x0 + w) (y0 + h) ltac:(lia) (Z.to_nat h) y0 ltac:(lia) ltac:(lia) (Z.to_nat w) x0 ltac:(lia) ltac:(lia)).
    assert (E : rest x0 (x0 + w) (y0 + h) x0 y0 = row_major x0 (x0 + w) y0 (y0 + h)).
    { unfold rest, row_major. rewrite (range_cons y0 (y0 + h)) by lia. reflexivity. }
    rewrite E. reflexivity.
Qed.

(* ---- DistanceIterator: the translated `next` maps the rectangle iterator through the distance computation ---- *)
From EG Require Import Model.Sectormodel.

Definition src_dist_item (c2x p : point) : point * point * Z :=
  let delta := src_Point_sub (src_Point_mul_i32 p 2) c2x in
  (p, delta, Casts.cast_i32_u32 (src_Point_length_squared delta)).

Fixpoint src_distances_collect (n : nat) (d : DistanceIterator) : option (list (point * point * Z)) :=
  match n with
  | O => None
  | Datatypes.S k =>
      match src_DistanceIterator_next rp_fuel d with
      | Some (d', Some t) => option_map (cons t) (src_distances_collect k d')
      | Some (_, None) => Some []
      | None => None
      end
  end.

Lemma src_distances_collect_eq n : forall c2x s,
  src_distances_collect n (Build_DistanceIterator c2x s) = option_map (map (src_dist_item c2x)) (src_rect_points_collect n s).
Proof.
  induction n as [|n IH]; intros c2x s; [reflexivity|].
  cbn [src_distances_collect src_rect_points_collect]. unfold src_DistanceIterator_next.
  cbn [DistanceIterator_points DistanceIterator_center_2x]. change 3%nat with rp_fuel.
  destruct (src_rectangle_Points_next rp_fuel s) as [[s' [p|]]|]; cbn [map option_map]; try reflexivity.
  cbn [DistanceIterator_center_2x]. rewrite IH. destruct (src_rect_points_collect n s'); reflexivity.
Qed.

(* the cast of the squared distance is the identity when it is a value of u32 *)
Lemma src_dist_item_eq c2x p :
  sm_len2 (psub (sm_twice p) c2x) <= u32_max -> src_dist_item c2x p = sm_dist_item c2x p.
Proof.
  intros H. unfold src_dist_item, sm_dist_item. cbv zeta.
  change (src_Point_sub (src_Point_mul_i32 p 2) c2x) with (psub (sm_twice p) c2x).
  set (d := psub (sm_twice p) c2x) in *.
  assert (E : src_Point_length_squared d = sm_len2 d).
  { unfold src_Point_length_squared, sm_len2. rewrite !Z.pow_2_r. reflexivity. }
  rewrite E. rewrite cast_i32_u32_id; [reflexivity|]. unfold u32_max in H. split; [|exact H].
  unfold sm_len2. nia.
Qed.

Theorem src_distances_eq c2x r n :
  rect_ok r ->
  (forall p, In p (points r) -> sm_len2 (psub (sm_twice p) c2x) <= u32_max) ->
  src_distances_collect n (src_DistanceIterator_new c2x r)
  = if (length (points r) <? n)%nat then Some (map (sm_dist_item c2x) (points r)) else None.
Proof.
  intros H Hd. unfold src_DistanceIterator_new, src_Rectangle_points.
  rewrite src_distances_collect_eq, src_rect_points_eq by exact H.
  destruct (length (points r) <? n)%nat; [|reflexivity]. cbn [option_map]. f_equal.
  apply map_ext_in. intros p Hp. apply src_dist_item_eq. apply Hd. exact Hp.
Qed.
