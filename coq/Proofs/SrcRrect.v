(* translate/r2c tie for src/primitives/rounded_rectangle/corner_radii.rs: CornerRadii::new and CornerRadii::confine
   (its `for (radii, side) in [..4 sides..]` loop over an array literal is unrolled by the translator; the model folds
   confine_step over the same list).  No range hypotheses (the u64 widening in the comparison is lossless). *)
From EG Require Import Base.Prelude Base.Casts Model.Geometry Model.Rrect.
From EG Require Import Gen.SrcGeometry Gen.SrcRrect.
Set Default Timeout 60.

Lemma src_CornerRadii_new_eq s : src_CornerRadii_new s = radii_equal s.
Proof. reflexivity. Qed.

Lemma src_size_scale_eq s num den : src_Size_div_op_u32 (src_Size_mul_u32 s num) den = size_scale s num den.
Proof. reflexivity. Qed.

Lemma src_CornerRadii_confine_eq c bb : src_CornerRadii_confine c bb = confine c bb.
Proof.
  unfold src_CornerRadii_confine, confine. cbv zeta. cbn [fold_left]. unfold confine_step.
  repeat match goal with
  | |- context [if ?b then _ else _] =>
      match b with
      | (_ && _)%bool => destruct b
      end
  end; reflexivity.
Qed.
