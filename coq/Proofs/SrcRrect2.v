(* translate/r2c tie, round 2 group 4 (rounded rectangle): EllipseQuadrant (ellipse_quadrant.rs), RoundedRectangle
   get_confined_corner_quadrant / offset / translate / contains and RoundedRectangleContains::new / contains
   (rounded_rectangle/mod.rs): the regenerated definitions (coq/Gen/SrcRrect2.v) equal Model/Rrect.v.
   The generated EllipseQuadrant / RoundedRectangleContains records mirror the Rust structs; eq_of / rrc_of convert them
   field by field (the EllipseContains field is the record of Model/Ellipse.v; Model/Rrect.v has its own copy).
   Hypotheses: extents that the code casts to i32 are values of i32 (radius_ok: <= 2^30-1 because the code doubles a
   radius before `Point + Size`), probes are such that the doubled offset from a quadrant centre is a value of i32. *)
From EG Require Import Base.Prelude Base.Casts Model.Geometry Model.Style Model.Circle Model.Ellipse Model.Rrect.
From EG Require Import Gen.SrcGeometry Gen.SrcCircle Gen.SrcRrect Gen.SrcRrect2 Proofs.SrcGeometry Proofs.SrcCircle Proofs.SrcRrect.
Set Default Timeout 60.

Definition ec_of (t : ellipse_test) : ellipse_contains := Rrect.EC (et_a t) (et_b t) (et_thr t).
Definition eq_of (q : EllipseQuadrant) : equad :=
  EQ (EllipseQuadrant_bounding_box q) (EllipseQuadrant_center_2x q) (ec_of (EllipseQuadrant_ellipse q)).
Definition rrc_of (c : RoundedRectangleContains) : rrc :=
  RRC (RoundedRectangleContains_rows c) (RoundedRectangleContains_columns c)
      (RoundedRectangleContains_straight_rows_left c) (RoundedRectangleContains_straight_rows_right c)
      (eq_of (RoundedRectangleContains_top_left c)) (eq_of (RoundedRectangleContains_top_right c))
      (eq_of (RoundedRectangleContains_bottom_left c)) (eq_of (RoundedRectangleContains_bottom_right c)).

Definition radius_ok (s : size) : Prop := 0 <= sw s <= 1073741823 /\ 0 <= sh s <= 1073741823.

Lemma ec_of_new s : size_u32 s -> ec_of (src_EllipseContains_new s) = ec_new s.
Proof. intros H. rewrite src_EllipseContains_new_eq by exact H. reflexivity. Qed.

Lemma ec_contains_eq t p :
  i32_min <= px p <= i32_max -> i32_min <= py p <= i32_max ->
  src_EllipseContains_contains t p = ec_contains (ec_of t) p.
Proof. intros Hx Hy. rewrite src_EllipseContains_contains_eq by assumption. reflexivity. Qed.

Lemma src_eq_new_eq tl0 radius q :
  radius_ok radius -> eq_of (src_EllipseQuadrant_new tl0 radius q) = eq_new tl0 radius q.
Proof.
  intros [Hw Hh]. unfold src_EllipseQuadrant_new, eq_new, eq_of. cbv zeta.
  cbn [EllipseQuadrant_bounding_box EllipseQuadrant_center_2x EllipseQuadrant_ellipse].
  assert (Hi : size_i32 radius) by (unfold size_i32, i32_max; lia).
  assert (Hx : size_i32 (src_Size_x_axis radius)) by (unfold size_i32, src_Size_x_axis, i32_max; cbn [sw sh]; lia).
  assert (Hy : size_i32 (src_Size_y_axis radius)) by (unfold size_i32, src_Size_y_axis, i32_max; cbn [sw sh]; lia).
  set (d := src_Size_mul_u32 radius 2).
  assert (Hd : size_u32 d) by (unfold d, size_u32, src_Size_mul_u32, src_Size_new, u32_max; cbn [sw sh]; lia).
  rewrite ec_of_new by exact Hd.
  assert (E : forall etl, src_center_2x etl d = rr_center_2x etl d).
  { intros etl. unfold src_center_2x, rr_center_2x. cbv zeta. rewrite src_Point_add_Size_eq; [reflexivity|].
    unfold d, size_i32, src_Size_saturating_sub, src_Size_mul_u32, src_Size_new, sat_sub_u32, i32_max. cbn [sw sh]. lia. }
  rewrite E.
  destruct q; unfold src_Point_sub_Size; rewrite ?src_Point_sub_size_eq by assumption; reflexivity.
Qed.

Definition src_probe_ok (c2x p : point) : Prop :=
  i32_min <= px p * 2 - px c2x <= i32_max /\ i32_min <= py p * 2 - py c2x <= i32_max.

Lemma src_eq_contains_eq q p :
  src_probe_ok (EllipseQuadrant_center_2x q) p -> src_EllipseQuadrant_contains q p = eq_contains (eq_of q) p.
Proof.
  intros [Hx Hy]. unfold src_EllipseQuadrant_contains, eq_contains.
  rewrite ec_contains_eq; [reflexivity| |]; unfold src_Point_sub, src_Point_mul_i32, src_Point_new; cbn [px py]; assumption.
Qed.

(* the confined radii and the rectangle's extents are values the code may cast to i32 *)
Definition src_rr_ok (r : rrect) : Prop :=
  size_i32 (sz (rr_rect r)) /\
  let c := confine (rr_corners r) (sz (rr_rect r)) in
  radius_ok (r_tl c) /\ radius_ok (r_tr c) /\ radius_ok (r_br c) /\ radius_ok (r_bl c).

Lemma src_corner_quadrant_eq r q :
  src_rr_ok r -> eq_of (src_RoundedRectangle_get_confined_corner_quadrant r q) = corner_quadrant r q.
Proof.
  intros (Hs & Htl & Htr & Hbr & Hbl). destruct r as [[tl0 s] c]. cbn [rr_rect rr_corners sz] in *.
  unfold src_RoundedRectangle_get_confined_corner_quadrant, corner_quadrant. cbn [rr_rect rr_corners sz tl].
  rewrite src_CornerRadii_confine_eq.
  assert (Hxa : size_i32 (src_Size_x_axis s)) by (destruct Hs; unfold size_i32, src_Size_x_axis, i32_max in *; cbn [sw sh]; lia).
  assert (Hya : size_i32 (src_Size_y_axis s)) by (destruct Hs; unfold size_i32, src_Size_y_axis, i32_max in *; cbn [sw sh]; lia).
  assert (I : forall x, radius_ok x -> size_i32 x /\ size_i32 (src_Size_x_axis x) /\ size_i32 (src_Size_y_axis x)).
  { intros x [Hw Hh]. unfold size_i32, src_Size_x_axis, src_Size_y_axis, i32_max. cbn [sw sh]. lia. }
  destruct q; rewrite src_eq_new_eq by assumption; try reflexivity;
    unfold src_Point_sub_Size;
    [ destruct (I _ Htr) as (? & ? & ?) | destruct (I _ Hbr) as (? & ? & ?) | destruct (I _ Hbl) as (? & ? & ?) ];
    rewrite src_Point_sub_size_eq, src_Point_add_Size_eq by assumption; reflexivity.
Qed.

Lemma src_rrc_new_eq r : src_rr_ok r -> rrc_of (src_RoundedRectangleContains_new r) = rrc_new r.
Proof.
  intros H. unfold src_RoundedRectangleContains_new, rrc_new, rrc_of. cbv zeta.
  cbn [RoundedRectangleContains_rows RoundedRectangleContains_columns RoundedRectangleContains_straight_rows_left
       RoundedRectangleContains_straight_rows_right RoundedRectangleContains_top_left RoundedRectangleContains_top_right
       RoundedRectangleContains_bottom_left RoundedRectangleContains_bottom_right].
  rewrite !src_corner_quadrant_eq by exact H.
  change (src_Rectangle_rows (rr_rect r)) with (rows (rr_rect r)). change (src_Rectangle_columns (rr_rect r)) with (columns (rr_rect r)).
  assert (B : forall q, sh (sz (src_EllipseQuadrant_bounding_box (src_RoundedRectangle_get_confined_corner_quadrant r q)))
                        = sh (sz (eq_bbox (corner_quadrant r q)))).
  { intros q. rewrite <- (src_corner_quadrant_eq r q H). reflexivity. }
  rewrite !B.
  assert (R : forall q, 0 <= sh (sz (eq_bbox (corner_quadrant r q))) <= i32_max).
  { intros q. destruct H as (Hs & Htl & Htr & Hbr & Hbl). unfold corner_quadrant, eq_new. cbv zeta.
    destruct q; cbn [eq_bbox sz sh]; unfold radius_ok, i32_max in *; lia. }
  pose proof (R QTopLeft). pose proof (R QTopRight). pose proof (R QBottomLeft). pose proof (R QBottomRight).
  unfold i32_max in *. rewrite !cast_u32_i32_id by lia. reflexivity.
Qed.

Lemma src_rrc_contains_eq c p :
  src_probe_ok (EllipseQuadrant_center_2x (RoundedRectangleContains_top_left c)) p ->
  src_probe_ok (EllipseQuadrant_center_2x (RoundedRectangleContains_top_right c)) p ->
  src_probe_ok (EllipseQuadrant_center_2x (RoundedRectangleContains_bottom_left c)) p ->
  src_probe_ok (EllipseQuadrant_center_2x (RoundedRectangleContains_bottom_right c)) p ->
  src_RoundedRectangleContains_contains c p = rrc_contains (rrc_of c) p.
Proof.
  intros H1 H2 H3 H4. unfold src_RoundedRectangleContains_contains, rrc_contains.
  rewrite !src_eq_contains_eq by assumption. reflexivity.
Qed.

Lemma src_rr_offset_eq r n :
  size_u32 (sz (rr_rect r)) -> i32_min <= n <= i32_max -> src_RoundedRectangle_offset r n = rr_offset r n.
Proof.
  intros Hs Hn. unfold src_RoundedRectangle_offset, rr_offset. cbv zeta.
  rewrite src_Rectangle_offset_eq by assumption. unfold i32_min, i32_max in Hn.
  destruct (Z.leb_spec 0 n); rewrite cast_i32_u32_id by lia; reflexivity.
Qed.

Lemma src_rr_translate_eq r d : src_RoundedRectangle_translate r d = rr_translate r d.
Proof. reflexivity. Qed.
Lemma src_rr_bounding_box_eq r : src_RoundedRectangle_bounding_box r = rr_bounding_box r.
Proof. reflexivity. Qed.
