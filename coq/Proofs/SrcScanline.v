(* translate/r2c tie for src/primitives/common/scanline.rs: the regenerated definitions (coq/Gen/SrcScanline.v, on a
   generated Record mirroring the Rust struct { y: i32, x: Range<i32> }) equal the scanline functions of Model/Join.v
   through the field-by-field conversion sl_of.  `&mut self` methods return the new self (paired with the result). *)
From EG Require Import Base.Prelude Base.Casts Model.Geometry Model.Line Model.Thickline Model.Join.
From EG Require Import Gen.SrcGeometry Gen.SrcJoin Gen.SrcScanline.
Set Default Timeout 60.

Definition sl_of (s : Scanline) : Join.scanline := Join.SL (Scanline_y s) (fst (Scanline_x s)) (snd (Scanline_x s)).

Lemma src_sl_new_empty_eq y : sl_of (src_Scanline_new_empty y) = Join.sl_new_empty y.
Proof. reflexivity. Qed.

Lemma src_sl_is_empty_eq s : src_Scanline_is_empty s = Join.sl_is_empty (sl_of s).
Proof. reflexivity. Qed.

Lemma src_sl_extend_eq s x : sl_of (src_Scanline_extend s x) = Join.sl_extend (sl_of s) x.
Proof.
  unfold src_Scanline_extend, Join.sl_extend. rewrite src_sl_is_empty_eq.
  destruct (Join.sl_is_empty (sl_of s)); [reflexivity|].
  cbn [sl_of Join.sl_x0 Join.sl_x1 Join.sl_y].
  destruct (x <? fst (Scanline_x s)); [reflexivity|].
  destruct (snd (Scanline_x s) <=? x); reflexivity.
Qed.

Lemma src_sl_touches_eq s o : src_Scanline_touches s o = Join.sl_touches (sl_of s) (sl_of o).
Proof.
  unfold src_Scanline_touches, Join.sl_touches. rewrite !src_sl_is_empty_eq.
  destruct (Join.sl_is_empty (sl_of s) || Join.sl_is_empty (sl_of o)); [reflexivity|].
  unfold Join.in_incl. cbn [sl_of Join.sl_x0 Join.sl_x1 fst snd]. cbv zeta. cbn [fst snd].
  rewrite !orb_assoc. reflexivity.
Qed.

Lemma src_sl_try_extend_eq s o :
  (snd (src_Scanline_try_extend s o), sl_of (fst (src_Scanline_try_extend s o))) = Join.sl_try_extend (sl_of s) (sl_of o).
Proof.
  unfold src_Scanline_try_extend, Join.sl_try_extend. rewrite src_sl_touches_eq.
  destruct (Join.sl_touches (sl_of s) (sl_of o)); reflexivity.
Qed.

(* `(self.x.end - self.x.start) as u32`: the identity for a non-empty range whose length is a value of u32 *)
Lemma src_sl_to_rectangle_eq s :
  snd (Scanline_x s) - fst (Scanline_x s) <= u32_max ->
  src_Scanline_to_rectangle s = Join.sl_to_rectangle (sl_of s).
Proof.
  intros H. unfold src_Scanline_to_rectangle, Join.sl_to_rectangle. rewrite src_sl_is_empty_eq. cbv zeta.
  unfold Join.sl_is_empty. cbn [sl_of Join.sl_x0 Join.sl_x1 Join.sl_y].
  destruct (Z.ltb_spec (fst (Scanline_x s)) (snd (Scanline_x s))); cbn [negb]; [|reflexivity].
  unfold u32_max in H. rewrite cast_i32_u32_id by lia. reflexivity.
Qed.
