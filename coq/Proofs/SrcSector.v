(* translate/r2c tie, round 2 group 4 (plane sector, integer part): Operation::execute, OriginLinearEquation::distance /
   check_side / new_horizontal, PlaneSector::contains / point_type (src/primitives/common/plane_sector.rs,
   linear_equation.rs): the regenerated definitions (coq/Gen/SrcSector.v) equal Model/Sectormodel.v.
   sector_of converts the generated PlaneSector record (two OriginLinearEquations and the operation) to the model's
   record of the two normal vectors.  PlaneSector::new is not translated (floating point trigonometry). *)
From EG Require Import Base.Prelude Base.Casts Model.Geometry Model.Line Model.Thickline Model.Sectormodel.
From EG Require Import Gen.SrcGeometry Gen.SrcCircle Gen.SrcJoin Gen.SrcSector.
Set Default Timeout 60.

Definition sector_of (s : PlaneSector) : plane_sector :=
  Sectormodel.PS (OriginLinearEquation_normal_vector (PlaneSector_half_plane_left s))
                 (OriginLinearEquation_normal_vector (PlaneSector_half_plane_right s))
                 (PlaneSector_operation s).

Lemma src_execute_eq o a b : src_Operation_execute o a b = sm_exec o a b.
Proof. reflexivity. Qed.

Lemma src_odist_eq e p : src_OriginLinearEquation_distance e p = sm_odist (OriginLinearEquation_normal_vector e) p.
Proof. reflexivity. Qed.

Lemma src_ps_contains_eq s p : src_PlaneSector_contains s p = ps_contains (sector_of s) p.
Proof. reflexivity. Qed.

Lemma src_ps_point_type_eq s p i o : src_PlaneSector_point_type s p i o = ps_point_type (sector_of s) p i o.
Proof. reflexivity. Qed.

Lemma src_new_horizontal_eq : OriginLinearEquation_normal_vector src_OriginLinearEquation_new_horizontal = P 0 1024.
Proof. reflexivity. Qed.
