(* translate/r2c tie, round 4 (6): Triangle translate / translate_mut (`self.vertices.iter_mut().for_each(|v| *v += by)` is unrolled
   over the 3-array) and the parts of Sector / Arc that do not compute with their angles (an Angle is an opaque value):
   constructors, to_circle / from_circle, bounding_box, center_2x, OffsetOutline::offset, translate / translate_mut, and
   PrimitiveStyle::stroke_area / fill_area at P = Sector. *)
From EG Require Import Base.Prelude Base.Casts Model.Geometry Model.Rrect Model.Style Model.Circle Model.Triangle.
From EG Require Import Gen.SrcGeometry Gen.SrcStyle Gen.SrcCircle Gen.SrcTriangle Gen.SrcRrect Gen.SrcRrect2 Gen.SrcAreas Gen.SrcSectorArc.
From EG Require Import Proofs.SrcGeometry Proofs.SrcCircle Proofs.SrcLine Proofs.SrcAreas.
Set Default Timeout 60.

Lemma src_triangle_translate_mut_is_translate t d : src_Triangle_translate_mut t d = src_Triangle_translate t d.
Proof. reflexivity. Qed.

Lemma src_triangle_translate_vertices a b c d :
  Triangle_vertices (src_Triangle_translate (Build_Triangle (a, b, c)) d) = (padd a d, padd b d, padd c d).
Proof. reflexivity. Qed.

Lemma src_sector_translate_mut_is_translate s d : src_Sector_translate_mut s d = src_Sector_translate s d.
Proof. reflexivity. Qed.
Lemma src_arc_translate_mut_is_translate a d : src_Arc_translate_mut a d = src_Arc_translate a d.
Proof. reflexivity. Qed.

(* Sector::offset offsets the circle and keeps the angles *)
Lemma src_sector_offset_eq s n : 0 <= Sector_diameter s <= u32_max -> i32_min <= n <= i32_max ->
  src_Sector_to_circle (src_Sector_offset s n) = circle_offset (src_Sector_to_circle s) n /\
  Sector_angle_start (src_Sector_offset s n) = Sector_angle_start s /\ Sector_angle_sweep (src_Sector_offset s n) = Sector_angle_sweep s.
Proof.
  intros Hd Hn. unfold src_Sector_offset. cbv zeta.
  rewrite src_Circle_offset_eq by (try exact Hn; exact Hd).
  destruct (circle_offset (src_Sector_to_circle s) n); repeat split; reflexivity.
Qed.

Lemma src_stroke_area_sector_eq st s : 0 <= Sector_diameter s <= u32_max -> 0 <= stroke_width st ->
  src_Sector_to_circle (src_stroke_area_Sector st s) = circle_stroke_area (src_Sector_to_circle s) st.
Proof.
  intros Hd Hs. unfold src_stroke_area_Sector, circle_stroke_area. cbv zeta. rewrite src_stroke_offset_eq.
  apply (src_sector_offset_eq s _ Hd). apply stroke_offset_range. exact Hs.
Qed.
Lemma src_fill_area_sector_eq st s : 0 <= Sector_diameter s <= u32_max -> 0 <= stroke_width st ->
  src_Sector_to_circle (src_fill_area_Sector st s) = circle_fill_area (src_Sector_to_circle s) st.
Proof.
  intros Hd Hs. unfold src_fill_area_Sector, circle_fill_area. cbv zeta. rewrite src_fill_offset_eq.
  apply (src_sector_offset_eq s _ Hd). apply fill_offset_range. exact Hs.
Qed.

Lemma src_triangle_translate_eq t d : tri_of (src_Triangle_translate t d) = tri_translate (tri_of t) d.
Proof. destruct t as [[[a b] c]]. reflexivity. Qed.

(* ---- round 5: constructors / accessors of Sector and Arc against the circle they are built on; translate; the areas keep the angles ---- *)
Lemma src_sector_new_eq t d a w : src_Sector_new t d a w = Build_Sector t d a w.
Proof. reflexivity. Qed.
Lemma src_sector_with_center_eq c d a w : 0 <= d <= u32_max ->
  src_Sector_with_center c d a w = Build_Sector (tl (with_center c (S d d))) d a w.
Proof.
  intros Hd. unfold src_Sector_with_center. cbv zeta. rewrite src_Size_new_equal_eq.
  rewrite src_Rectangle_with_center_eq by (split; exact Hd). reflexivity.
Qed.
Lemma src_sector_bounding_box_eq s : src_Sector_bounding_box s = circle_bbox (src_Sector_to_circle s).
Proof. reflexivity. Qed.
Lemma src_sector_center_eq s : 0 <= Sector_diameter s <= u32_max -> src_Sector_center s = circle_center (src_Sector_to_circle s).
Proof.
  intros Hd. unfold src_Sector_center, circle_center. rewrite src_sector_bounding_box_eq.
  apply src_Rectangle_center_eq. split; exact Hd.
Qed.
Lemma src_sector_center_2x_eq s : 0 <= Sector_diameter s <= i32_max -> src_Sector_center_2x s = circle_center_2x (src_Sector_to_circle s).
Proof. intros Hd. rewrite <- (src_Circle_center_2x_eq (src_Sector_to_circle s)) by exact Hd. reflexivity. Qed.
Lemma src_sector_translate_eq s d :
  src_Sector_translate s d = Build_Sector (padd (Sector_top_left s) d) (Sector_diameter s) (Sector_angle_start s) (Sector_angle_sweep s).
Proof. reflexivity. Qed.

Lemma src_arc_new_eq t d a w : src_Arc_new t d a w = Build_Arc t d a w.
Proof. reflexivity. Qed.
Lemma src_arc_from_circle_eq c a w : src_Arc_from_circle c a w = Build_Arc (c_tl c) (c_d c) a w.
Proof. reflexivity. Qed.
Lemma src_arc_to_circle_eq a : src_Arc_to_circle a = Circ (Arc_top_left a) (Arc_diameter a).
Proof. reflexivity. Qed.
Lemma src_arc_bounding_box_eq a : src_Arc_bounding_box a = circle_bbox (src_Arc_to_circle a).
Proof. reflexivity. Qed.
Lemma src_arc_translate_eq a d :
  src_Arc_translate a d = Build_Arc (padd (Arc_top_left a) d) (Arc_diameter a) (Arc_angle_start a) (Arc_angle_sweep a).
Proof. reflexivity. Qed.

Lemma src_stroke_area_sector_angles st s : 0 <= Sector_diameter s <= u32_max -> 0 <= stroke_width st ->
  Sector_angle_start (src_stroke_area_Sector st s) = Sector_angle_start s /\ Sector_angle_sweep (src_stroke_area_Sector st s) = Sector_angle_sweep s.
Proof.
  intros Hd Hs. unfold src_stroke_area_Sector. cbv zeta. rewrite src_stroke_offset_eq.
  apply (src_sector_offset_eq s _ Hd). apply stroke_offset_range. exact Hs.
Qed.
Lemma src_fill_area_sector_angles st s : 0 <= Sector_diameter s <= u32_max -> 0 <= stroke_width st ->
  Sector_angle_start (src_fill_area_Sector st s) = Sector_angle_start s /\ Sector_angle_sweep (src_fill_area_Sector st s) = Sector_angle_sweep s.
Proof.
  intros Hd Hs. unfold src_fill_area_Sector. cbv zeta. rewrite src_fill_offset_eq.
  apply (src_sector_offset_eq s _ Hd). apply fill_offset_range. exact Hs.
Qed.
