(* translate/r2c tie, round 4 (1): ThickSegmentIter (src/primitives/common/thick_segment_iter.rs).  `points.windows(3)` is the
   part of the slice not yet passed (`Casts.windows3_next`), `static EMPTY` the empty list.  Driving the generated `next`
   from the generated `new` yields the list of segments of the model (Join.thick_segment_iter), whenever the model yields one
   and the fuel F covers the extents of the lines between the points. *)
From EG Require Import Base.Prelude Base.Casts Model.Geometry Model.Style Model.Line Model.Thickline Model.Join.
From EG Require Import Gen.SrcGeometry Gen.SrcStyle Gen.SrcCircle Gen.SrcJoin Gen.SrcLine Gen.SrcThick Gen.SrcLineJoin Gen.SrcLineJoin2 Gen.SrcSegIter.
From EG Require Import Proofs.SrcLineJoin2.
Set Default Timeout 60.

(* pulling the iterator until its first None (n bounds the number of pulls) *)
Fixpoint src_tsi_drive (F : nat) (n : nat) (s : ThickSegmentIter) : option (list thick_segment) :=
  match n with
  | O => None
  | Datatypes.S k =>
      match src_ThickSegmentIter_next F s with
      | None => None
      | Some (_, None) => Some []
      | Some (s', Some seg) => option_map (cons seg) (src_tsi_drive F k s')
      end
  end.

Definition fuel_ok (pts : list point) (w : Z) (F : nat) : Prop :=
  forall a b, In a pts -> In b pts -> ext_fuel (L a b) w F.

Lemma windows3_next_spec (wl : list point) :
  match windows3 wl with
  | (a, b, c) :: ws' => exists t, Casts.windows3_next wl = (t, Some (a, b, c)) /\ windows3 t = ws' /\ incl t wl /\ In a wl /\ In b wl /\ In c wl
  | [] => Casts.windows3_next wl = (wl, None)
  end.
Proof.
  destruct wl as [|a [|b [|c r]]]; try reflexivity.
  cbn [windows3]. exists (b :: c :: r). repeat split; try reflexivity; cbn; auto.
  intros x Hx. right. exact Hx.
Qed.

Lemma joinkind_eqb_end k : JoinKind_eqb k JEnd = match k with JEnd => true | _ => false end.
Proof. destruct k; reflexivity. Qed.

Definition tsi_state (wl : list point) (sj ej : line_join) (w : Z) (pts : list point) (stop : bool) : ThickSegmentIter :=
  Build_ThickSegmentIter wl sj ej w SONone pts stop.

Lemma tsi_drive_S F n s : src_tsi_drive F (Datatypes.S n) s =
  match src_ThickSegmentIter_next F s with
  | None => None
  | Some (_, None) => Some []
  | Some (s', Some seg) => option_map (cons seg) (src_tsi_drive F n s')
  end.
Proof. reflexivity. Qed.

Lemma tsi_drive_stopped F n wl sj ej w pts : src_tsi_drive F (Datatypes.S n) (tsi_state wl sj ej w pts true) = Some [].
Proof. reflexivity. Qed.

Lemma tsi_drive_eq F w pts : fuel_ok pts w F -> forall f wl sj ej last2 segs,
  tsi_run (windows3 wl) sj ej last2 w f = Some segs ->
  incl wl pts -> In (fst last2) pts -> In (snd last2) pts ->
  Casts.slice_get pts (Z.of_nat (length pts) - 2) = Some (fst last2) -> Casts.slice_last pts = Some (snd last2) ->
  src_tsi_drive F (Datatypes.S f) (tsi_state wl sj ej w pts false) = Some segs.
Proof.
  intros HF. induction f as [|f IH]; intros wl sj ej last2 segs Hrun Hincl H1 H2 G1 G2; [discriminate|].
  cbn [tsi_run] in Hrun. rewrite tsi_drive_S. unfold src_ThickSegmentIter_next, tsi_state.
  cbn [ThickSegmentIter_stop ThickSegmentIter_windows ThickSegmentIter_start_join ThickSegmentIter_end_join ThickSegmentIter_width ThickSegmentIter_stroke_offset ThickSegmentIter_points].
  cbv zeta. unfold src_ThickSegment_new.
  pose proof (windows3_next_spec wl) as W.
  destruct (windows3 wl) as [|[[a b] c] ws'] eqn:EW.
  - rewrite W.
    cbn [ThickSegmentIter_stop ThickSegmentIter_windows ThickSegmentIter_start_join ThickSegmentIter_end_join ThickSegmentIter_width ThickSegmentIter_stroke_offset ThickSegmentIter_points].
    rewrite joinkind_eqb_end.
    destruct (lj_kind ej) eqn:EK; cbn [negb];
      try (injection Hrun as <-; fold (tsi_state wl ej ej w pts true); rewrite tsi_drive_stopped; reflexivity).
    all: rewrite G1, G2;
      destruct (lj_end (fst last2) (snd last2) w SONone) as [ej'|] eqn:EE; [|discriminate];
      rewrite (src_lj_end_eq _ _ _ _ _ F EE (HF _ _ H1 H2));
      destruct (tsi_run [] ej ej' last2 w f) as [rest|] eqn:ER; [|discriminate]; injection Hrun as <-;
      fold (tsi_state wl ej ej' w pts false);
      rewrite (IH wl ej ej' last2 rest); [reflexivity| rewrite EW; exact ER | assumption..].
  - destruct W as [t [Wn [Wt [Wi [Ia [Ib Ic]]]]]]. rewrite Wn.
    cbn [ThickSegmentIter_stop ThickSegmentIter_windows ThickSegmentIter_start_join ThickSegmentIter_end_join ThickSegmentIter_width ThickSegmentIter_stroke_offset ThickSegmentIter_points].
    destruct (lj_from_points a b c w SONone) as [ej'|] eqn:EE; [|discriminate].
    rewrite (src_lj_from_points_eq _ _ _ _ _ _ F EE (HF _ _ (Hincl _ Ia) (Hincl _ Ib)) (HF _ _ (Hincl _ Ib) (Hincl _ Ic))).
    destruct (tsi_run ws' ej ej' last2 w f) as [rest|] eqn:ER; [|discriminate]. injection Hrun as <-.
    fold (tsi_state t ej ej' w pts false).
    rewrite (IH t ej ej' last2 rest); [reflexivity| rewrite Wt; exact ER | | assumption..].
    intros x Hx. apply Hincl. apply Wi. exact Hx.
Qed.

(* ---- the last two points ---- *)
Lemma last_default {A} (l : list A) a d d' : last (a :: l) d = last (a :: l) d'.
Proof. revert a. induction l as [|b l IH]; intros a; [reflexivity|]. cbn [last] in *. apply IH. Qed.

Lemma slice_last_last_opt {A} (l : list A) : Casts.slice_last l = last_opt l.
Proof.
  destruct l as [|x r]; [reflexivity|]. cbn [Casts.slice_last]. revert x.
  induction r as [|y r IH]; intros x; [reflexivity|].
  change (last_opt (x :: y :: r)) with (last_opt (y :: r)). rewrite <- IH.
  f_equal. destruct r as [|z r]; [reflexivity|]. cbn [last]. apply (last_default r z x y).
Qed.

Lemma last_opt_in {A} (l : list A) z : last_opt l = Some z -> In z l.
Proof.
  induction l as [|x r IH]; [discriminate|]. destruct r as [|y r]; cbn [last_opt].
  - intros [= <-]. left. reflexivity.
  - intros H. right. apply IH. exact H.
Qed.

Lemma removelast_incl {A} (l : list A) : incl (removelast l) l.
Proof.
  induction l as [|x r IH]; [intros y []|]. destruct r as [|y r]; [intros z []|].
  cbn [removelast]. intros z [<-|Hz]; [left; reflexivity|right; apply IH; exact Hz].
Qed.

Lemma nth_error_removelast_last {A} (l : list A) y :
  last_opt (removelast l) = Some y -> nth_error l (length l - 2) = Some y.
Proof.
  induction l as [|a r IH]; [discriminate|]. destruct r as [|b r]; [discriminate|].
  destruct r as [|c r].
  - cbn. intros [= <-]. reflexivity.
  - intros H. change (removelast (a :: b :: c :: r)) with (a :: removelast (b :: c :: r)) in H.
    assert (E : last_opt (a :: removelast (b :: c :: r)) = last_opt (removelast (b :: c :: r))).
    { cbn [removelast]. destruct r; reflexivity. }
    rewrite E in H. specialize (IH H).
    replace (length (a :: b :: c :: r) - 2)%nat with (Datatypes.S (length (b :: c :: r) - 2)) by (cbn [length]; lia).
    exact IH.
Qed.

Lemma slice_get_len2 (l : list point) y : last_opt (removelast l) = Some y ->
  Casts.slice_get l (Z.of_nat (length l) - 2) = Some y.
Proof.
  intros H. pose proof (nth_error_removelast_last l y H) as N.
  assert (L2 : (2 <= length l)%nat).
  { destruct l as [|a [|b r]]; try discriminate. cbn. lia. }
  unfold Casts.slice_get.
  rewrite (proj2 (Z.leb_le 0 (Z.of_nat (length l) - 2))) by lia.
  rewrite (proj2 (Z.ltb_lt (Z.of_nat (length l) - 2) (Z.of_nat (length l)))) by lia. cbn [andb].
  replace (Z.to_nat (Z.of_nat (length l) - 2)) with (length l - 2)%nat by lia. exact N.
Qed.

(* ---- the run theorem ---- *)
Theorem src_thick_segment_iter_run F pts w so segs :
  thick_segment_iter pts w = Some segs -> fuel_ok pts w F ->
  exists s0, src_ThickSegmentIter_new F pts w so = Some s0 /\
             src_tsi_drive F (Datatypes.S (Datatypes.S (length pts))) s0 = Some segs.
Proof.
  intros H HF. unfold thick_segment_iter in H. unfold src_ThickSegmentIter_new. cbv zeta.
  destruct pts as [|a [|b [|c r]]].
  - injection H as <-. eexists. split; reflexivity.
  - injection H as <-. eexists. split; reflexivity.
  - cbn [Casts.windows3_next].
    destruct (lj_start a b w SONone) as [sj|] eqn:E1; [|discriminate].
    destruct (lj_end a b w SONone) as [ej|] eqn:E2; [|discriminate].
    assert (Ia : In a [a; b]) by (left; reflexivity). assert (Ib : In b [a; b]) by (right; left; reflexivity).
    rewrite (src_lj_start_eq _ _ _ _ _ F E1 (HF _ _ Ia Ib)), (src_lj_end_eq _ _ _ _ _ F E2 (HF _ _ Ia Ib)).
    eexists. split; [reflexivity|]. fold (tsi_state src_EMPTY sj ej w [a; b] false).
    pose proof (tsi_drive_eq F w [a; b] HF 2 [] sj ej (a, b) segs H) as D.
    assert (D' : src_tsi_drive F 3 (tsi_state [] sj ej w [a; b] false) = Some segs).
    { apply D; try assumption; try reflexivity. intros x []. }
    change src_EMPTY with (@nil point). cbn [length].
    (* more pulls than needed do no harm: drive is monotone; here the counts coincide up to one *)
    revert D'. generalize (tsi_state [] sj ej w [a; b] false). intros s0 D'.
    rewrite tsi_drive_S in D'. rewrite tsi_drive_S.
    destruct (src_ThickSegmentIter_next F s0) as [[s1 [seg|]]|]; try exact D'.
    destruct (src_tsi_drive F 2 s1) as [l|] eqn:E; [|discriminate].
    rewrite tsi_drive_S in E. rewrite tsi_drive_S.
    destruct (src_ThickSegmentIter_next F s1) as [[s2 [seg2|]]|]; try (rewrite <- D'; f_equal; exact E); try discriminate.
    destruct (src_tsi_drive F 1 s2) as [l2|] eqn:E3; [|discriminate].
    rewrite tsi_drive_S in E3. rewrite tsi_drive_S.
    destruct (src_ThickSegmentIter_next F s2) as [[s3 [seg3|]]|]; try discriminate.
    rewrite <- D'. cbn [option_map] in *. congruence.
  - cbn [Casts.windows3_next].
    destruct (lj_start a b w SONone) as [sj|] eqn:E1; [|discriminate].
    destruct (lj_from_points a b c w SONone) as [ej|] eqn:E2; [|discriminate].
    destruct (last_opt (a :: b :: c :: r)) as [z|] eqn:EZ; [|discriminate].
    destruct (last_opt (removelast (a :: b :: c :: r))) as [y|] eqn:EY; [|discriminate].
    set (pts := a :: b :: c :: r) in *.
    assert (Ia : In a pts) by (left; reflexivity). assert (Ib : In b pts) by (right; left; reflexivity).
    assert (Ic : In c pts) by (right; right; left; reflexivity).
    rewrite (src_lj_start_eq _ _ _ _ _ F E1 (HF _ _ Ia Ib)).
    rewrite (src_lj_from_points_eq _ _ _ _ _ _ F E2 (HF _ _ Ia Ib) (HF _ _ Ib Ic)).
    eexists. split; [reflexivity|]. fold (tsi_state (b :: c :: r) sj ej w pts false).
    apply (tsi_drive_eq F w pts HF (Datatypes.S (length pts)) (b :: c :: r) sj ej (y, z) segs).
    + exact H.
    + intros x Hx. right. exact Hx.
    + apply (removelast_incl pts). apply last_opt_in. exact EY.
    + apply last_opt_in. exact EZ.
    + apply slice_get_len2. exact EY.
    + rewrite slice_last_last_opt. exact EZ.
Qed.

(* ================= ClosedThickSegmentIter (closed_thick_segment_iter.rs) ================= *)
Fixpoint src_ctsi_drive (F : nat) (n : nat) (s : ClosedThickSegmentIter) : option (list thick_segment) :=
  match n with
  | O => None
  | Datatypes.S k =>
      match src_ClosedThickSegmentIter_next F s with
      | None => None
      | Some (_, None) => Some []
      | Some (s', Some seg) => option_map (cons seg) (src_ctsi_drive F k s')
      end
  end.

Lemma ctsi_drive_S F n s : src_ctsi_drive F (Datatypes.S n) s =
  match src_ClosedThickSegmentIter_next F s with
  | None => None
  | Some (_, None) => Some []
  | Some (s', Some seg) => option_map (cons seg) (src_ctsi_drive F n s')
  end.
Proof. reflexivity. Qed.

Definition ctsi_state (wl : list point) (first sj : line_join) (w : Z) (so : stroke_offset) (pts : list point) (stop : bool) (idx : Z) : ClosedThickSegmentIter :=
  Build_ClosedThickSegmentIter wl first sj w so pts stop idx.

Lemma ctsi_drive_stopped F n wl first sj w so pts idx : src_ctsi_drive F (Datatypes.S n) (ctsi_state wl first sj w so pts true idx) = Some [].
Proof. reflexivity. Qed.

Lemma slice_get_len2_eq (l : list point) : Casts.slice_get l (Z.of_nat (length l) - 2) = last_opt (removelast l).
Proof.
  destruct (last_opt (removelast l)) as [y|] eqn:E; [apply slice_get_len2; exact E|].
  destruct l as [|a [|b r]]; try reflexivity.
  exfalso. revert a b E. induction r as [|c r IH]; intros a b E; [discriminate|].
  change (removelast (a :: b :: c :: r)) with (a :: removelast (b :: c :: r)) in E.
  assert (E' : last_opt (a :: removelast (b :: c :: r)) = last_opt (removelast (b :: c :: r))).
  { cbn [removelast]. destruct r; reflexivity. }
  rewrite E' in E. exact (IH b c E).
Qed.

Lemma ctsi_drive_eq F w so pts : fuel_ok pts w F -> forall f wl sj first idx segs,
  ctsi_run (windows3 wl) sj first idx pts w so f = Some segs ->
  incl wl pts ->
  src_ctsi_drive F (Datatypes.S f) (ctsi_state wl first sj w so pts false (Z.of_nat idx)) = Some segs.
Proof.
  intros HF. induction f as [|f IH]; intros wl sj first idx segs Hrun Hincl; [discriminate|].
  cbn [ctsi_run] in Hrun. rewrite ctsi_drive_S. unfold src_ClosedThickSegmentIter_next, ctsi_state.
  cbn [ClosedThickSegmentIter_stop ClosedThickSegmentIter_windows ClosedThickSegmentIter_first_join ClosedThickSegmentIter_start_join ClosedThickSegmentIter_width ClosedThickSegmentIter_stroke_offset ClosedThickSegmentIter_points ClosedThickSegmentIter_idx].
  cbv zeta. unfold src_ThickSegment_new.
  replace (Z.of_nat idx + 1) with (Z.of_nat (Datatypes.S idx)) by lia.
  pose proof (windows3_next_spec wl) as W.
  destruct (windows3 wl) as [|[[a b] c] ws'] eqn:EW.
  - rewrite W.
    cbn [ClosedThickSegmentIter_stop ClosedThickSegmentIter_windows ClosedThickSegmentIter_first_join ClosedThickSegmentIter_start_join ClosedThickSegmentIter_width ClosedThickSegmentIter_stroke_offset ClosedThickSegmentIter_points ClosedThickSegmentIter_idx].
    assert (EQ : (Z.of_nat (Datatypes.S idx) =? Z.of_nat (length pts)) = Nat.eqb (Datatypes.S idx) (length pts)).
    { destruct (Nat.eqb_spec (Datatypes.S idx) (length pts)) as [e|e]; [apply Z.eqb_eq; lia | apply Z.eqb_neq; lia]. }
    rewrite EQ. destruct (Nat.eqb (Datatypes.S idx) (length pts)).
    + rewrite slice_get_len2_eq, slice_last_last_opt.
      destruct (last_opt (removelast pts)) as [p1|] eqn:E1; [|injection Hrun as <-; reflexivity].
      destruct (last_opt pts) as [p2|] eqn:E2; [|injection Hrun as <-; reflexivity].
      destruct pts as [|p3 rest] eqn:EP; [discriminate|]. cbn [hd_error]. rewrite <- EP in *.
      destruct (lj_from_points p1 p2 p3 w so) as [ej|] eqn:EE; [|discriminate].
      assert (I1 : In p1 pts) by (apply (removelast_incl pts); apply last_opt_in; exact E1).
      assert (I2 : In p2 pts) by (apply last_opt_in; exact E2).
      assert (I3 : In p3 pts) by (rewrite EP; left; reflexivity).
      rewrite (src_lj_from_points_eq _ _ _ _ _ _ F EE (HF _ _ I1 I2) (HF _ _ I2 I3)).
      destruct (ctsi_run [] ej first (Datatypes.S idx) pts w so f) as [rest'|] eqn:ER; [|discriminate]. injection Hrun as <-.
      fold (ctsi_state wl first ej w so pts false (Z.of_nat (Datatypes.S idx))).
      rewrite (IH wl ej first (Datatypes.S idx) rest'); [reflexivity| rewrite EW; exact ER | assumption].
    + injection Hrun as <-. fold (ctsi_state wl first first w so pts true (Z.of_nat (Datatypes.S idx))).
      rewrite ctsi_drive_stopped. reflexivity.
  - destruct W as [t [Wn [Wt [Wi [Ia [Ib Ic]]]]]]. rewrite Wn.
    cbn [ClosedThickSegmentIter_stop ClosedThickSegmentIter_windows ClosedThickSegmentIter_first_join ClosedThickSegmentIter_start_join ClosedThickSegmentIter_width ClosedThickSegmentIter_stroke_offset ClosedThickSegmentIter_points ClosedThickSegmentIter_idx].
    destruct (lj_from_points a b c w so) as [ej|] eqn:EE; [|discriminate].
    rewrite (src_lj_from_points_eq _ _ _ _ _ _ F EE (HF _ _ (Hincl _ Ia) (Hincl _ Ib)) (HF _ _ (Hincl _ Ib) (Hincl _ Ic))).
    destruct (ctsi_run ws' ej first (Datatypes.S idx) pts w so f) as [rest|] eqn:ER; [|discriminate]. injection Hrun as <-.
    fold (ctsi_state t first ej w so pts false (Z.of_nat (Datatypes.S idx))).
    rewrite (IH t ej first (Datatypes.S idx) rest); [reflexivity| rewrite Wt; exact ER |].
    intros x Hx. apply Hincl. apply Wi. exact Hx.
Qed.

Theorem src_closed_thick_segment_iter_run F pts w so segs :
  closed_thick_segment_iter pts w so = Some segs -> fuel_ok pts w F ->
  exists s0 n, (n <= length pts + 4)%nat /\ src_ClosedThickSegmentIter_new F pts w so = Some s0 /\ src_ctsi_drive F n s0 = Some segs.
Proof.
  intros H HF. unfold closed_thick_segment_iter in H. unfold src_ClosedThickSegmentIter_new.
  destruct pts as [|a [|b [|c r]]].
  - injection H as <-. exists src_ClosedThickSegmentIter_empty, 1%nat. split; [cbn; lia|]. split; reflexivity.
  - discriminate.
  - destruct (lj_start a b w so) as [sj|] eqn:E1; [|discriminate].
    assert (Ia : In a [a; b]) by (left; reflexivity). assert (Ib : In b [a; b]) by (right; left; reflexivity).
    rewrite (src_lj_start_eq _ _ _ _ _ F E1 (HF _ _ Ia Ib)). cbv zeta.
    eexists. exists 5%nat. split; [cbn; lia|]. split; [reflexivity|].
    change src_closed_EMPTY with (@nil point). fold (ctsi_state [] sj sj w so [a; b] false (Z.of_nat 1)).
    apply (ctsi_drive_eq F w so [a; b] HF 4 [] sj sj 1 segs H). intros x [].
  - set (pts := a :: b :: c :: r) in *.
    destruct (last_opt pts) as [z|] eqn:EZ; [|discriminate].
    destruct (lj_from_points z a b w so) as [sj|] eqn:E1; [|discriminate].
    assert (Ia : In a pts) by (left; reflexivity). assert (Ib : In b pts) by (right; left; reflexivity).
    assert (Iz : In z pts) by (apply last_opt_in; exact EZ).
    change (Z.of_nat (length pts) =? 0) with false. cbv iota zeta.
    rewrite slice_last_last_opt, EZ.
    assert (G0 : Casts.slice_get pts 0 = Some a) by (unfold Casts.slice_get; rewrite (proj2 (Z.ltb_lt 0 _)) by (unfold pts; cbn [length]; lia); reflexivity).
    assert (G1 : Casts.slice_get pts 1 = Some b) by (unfold Casts.slice_get; rewrite (proj2 (Z.ltb_lt 1 _)) by (unfold pts; cbn [length]; lia); reflexivity).
    rewrite G0, G1. cbv iota zeta.
    rewrite (src_lj_from_points_eq _ _ _ _ _ _ F E1 (HF _ _ Iz Ia) (HF _ _ Ia Ib)).
    eexists. exists (Datatypes.S (length pts + 3)). split; [lia|]. split; [reflexivity|].
    fold (ctsi_state pts sj sj w so pts false (Z.of_nat 1)).
    apply (ctsi_drive_eq F w so pts HF (length pts + 3) pts sj sj 1 segs H). intros x Hx. exact Hx.
Qed.
