(* translate/r2c tie, round 6 (1): the models of the two thick segment iterators never answer None for widths up to 100000 (except the
   one-point slice of the closed iterator, where the source panics): with C07_src_*_segment_iter_run this closes the other
   direction - the generated iterators, driven from the generated `new`, yield exactly the model's list. *)
From EG Require Import Base.Prelude Base.Casts Model.Geometry Model.Style Model.Line Model.Thickline Model.Join.
From EG Require Import Gen.SrcGeometry Gen.SrcStyle Gen.SrcCircle Gen.SrcJoin Gen.SrcLine Gen.SrcThick Gen.SrcLineJoin Gen.SrcLineJoin2 Gen.SrcSegIter.
From EG Require Import Proofs.SrcLineJoin2 Proofs.SrcExtentsTotal Proofs.SrcSegIter.
Set Default Timeout 60.

Section Total.
Variable w : Z.
Hypothesis Hw : 0 <= w <= 100000.

Lemma lj_from_points_some a b c so : exists j, lj_from_points a b c w so = Some j.
Proof. destruct (src_lj_from_points_total a b c w so Hw) as [j [E _]]. exists j. exact E. Qed.
Lemma lj_start_some a b so : exists j, lj_start a b w so = Some j.
Proof. destruct (src_lj_start_total a b w so Hw) as [j [E _]]. exists j. exact E. Qed.
Lemma lj_end_some a b so : exists j, lj_end a b w so = Some j /\ lj_kind j = JEnd.
Proof.
  destruct (extents_some (L a b) w so Hw) as [[l r] E]. unfold lj_end. rewrite E. eexists. split; reflexivity.
Qed.

Lemma tsi_run_total : forall ws sj ej last2 f, (length ws + 2 <= f)%nat -> exists l, tsi_run ws sj ej last2 w f = Some l.
Proof.
  induction ws as [|[[a b] c] ws IH]; intros sj ej last2 f Hf.
  - destruct f as [|[|f]]; try (cbn in Hf; lia). cbn [tsi_run].
    destruct (lj_kind ej) eqn:K; try (eexists; reflexivity);
      destruct (lj_end_some (fst last2) (snd last2) SONone) as [ej' [E K']]; rewrite E, K'; eexists; reflexivity.
  - destruct f as [|f]; [cbn in Hf; lia|]. cbn [tsi_run].
    destruct (lj_from_points_some a b c SONone) as [ej' E]. rewrite E.
    destruct (IH ej ej' last2 f ltac:(cbn in Hf; lia)) as [l El]. rewrite El. eexists; reflexivity.
Qed.

Lemma windows3_length_n : forall n pts, (length pts <= n)%nat -> (length (windows3 pts) <= length pts)%nat.
Proof.
  induction n as [|n IH]; intros pts H; destruct pts as [|a [|b [|c r]]]; try (cbn in *; lia).
  change (windows3 (a :: b :: c :: r)) with ((a, b, c) :: windows3 (b :: c :: r)). cbn [length] in *.
  specialize (IH (b :: c :: r) ltac:(cbn [length]; lia)). cbn [length] in IH. lia.
Qed.
Lemma windows3_length pts : (length (windows3 pts) <= length pts)%nat.
Proof. exact (windows3_length_n (length pts) pts (le_n _)). Qed.

Lemma last_opt_some {A} (l : list A) : l <> [] -> exists z, last_opt l = Some z.
Proof.
  induction l as [|x [|y r] IH]; intros H; [contradiction| eexists; reflexivity|].
  destruct (IH ltac:(discriminate)) as [z E]. exists z. exact E.
Qed.

Theorem thick_segment_iter_total pts : exists segs, thick_segment_iter pts w = Some segs.
Proof.
  unfold thick_segment_iter. destruct pts as [|a [|b [|c r]]]; try (eexists; reflexivity).
  - destruct (lj_start_some a b SONone) as [sj E1]. destruct (lj_end_some a b SONone) as [ej [E2 _]]. rewrite E1, E2.
    apply tsi_run_total. cbn. lia.
  - set (pts := a :: b :: c :: r).
    destruct (lj_start_some a b SONone) as [sj E1]. destruct (lj_from_points_some a b c SONone) as [ej E2]. rewrite E1, E2.
    destruct (last_opt_some pts ltac:(discriminate)) as [z Ez]. rewrite Ez.
    destruct (last_opt_some (removelast pts) ltac:(unfold pts; cbn; discriminate)) as [y Ey]. rewrite Ey.
    apply tsi_run_total. pose proof (windows3_length (b :: c :: r)) as HL. unfold pts.
    change (windows3 (a :: b :: c :: r)) with ((a, b, c) :: windows3 (b :: c :: r)). cbn [List.tl length] in *. lia.
Qed.

Lemma ctsi_run_total so : forall ws sj first idx pts f, (length ws + 2 <= f)%nat -> exists l, ctsi_run ws sj first idx pts w so f = Some l.
Proof.
  induction ws as [|[[a b] c] ws IH]; intros sj first idx pts f Hf.
  - destruct f as [|[|f]]; try (cbn in Hf; lia). cbn [ctsi_run].
    destruct (Nat.eqb (Datatypes.S idx) (length pts)) eqn:E; [|eexists; reflexivity].
    destruct (last_opt (removelast pts)) as [x|]; [|eexists; reflexivity].
    destruct (last_opt pts) as [y|]; [|eexists; reflexivity].
    destruct pts as [|z r]; [eexists; reflexivity|].
    destruct (lj_from_points_some x y z so) as [ej Ej]. rewrite Ej.
    apply Nat.eqb_eq in E. rewrite (proj2 (Nat.eqb_neq (Datatypes.S (Datatypes.S idx)) (length (z :: r)))) by lia.
    eexists; reflexivity.
  - destruct f as [|f]; [cbn in Hf; lia|]. cbn [ctsi_run].
    destruct (lj_from_points_some a b c so) as [ej E]. rewrite E.
    destruct (IH ej first (Datatypes.S idx) pts f ltac:(cbn in Hf; lia)) as [l El]. rewrite El. eexists; reflexivity.
Qed.

Theorem closed_thick_segment_iter_total pts so : length pts <> 1%nat -> exists segs, closed_thick_segment_iter pts w so = Some segs.
Proof.
  intros H1. unfold closed_thick_segment_iter. destruct pts as [|a [|b [|c r]]]; try (eexists; reflexivity); [cbn in H1; lia| |].
  - destruct (lj_start_some a b so) as [sj E]. rewrite E. apply ctsi_run_total. cbn. lia.
  - set (pts := a :: b :: c :: r).
    destruct (last_opt_some pts ltac:(discriminate)) as [z Ez]. rewrite Ez.
    destruct (lj_from_points_some z a b so) as [sj E]. rewrite E.
    apply ctsi_run_total. pose proof (windows3_length pts). lia.
Qed.
End Total.

(* the generated iterators yield the model's list, whatever the points: no "whenever the model answers" left *)
Theorem src_thick_segment_iter_total F pts w so : 0 <= w <= 100000 -> fuel_ok pts w F ->
  exists segs s0, thick_segment_iter pts w = Some segs /\ src_ThickSegmentIter_new F pts w so = Some s0 /\
                  src_tsi_drive F (Datatypes.S (Datatypes.S (length pts))) s0 = Some segs.
Proof.
  intros Hw HF. destruct (thick_segment_iter_total w Hw pts) as [segs E]. exists segs.
  destruct (src_thick_segment_iter_run F pts w so segs E HF) as [s0 [H1 H2]]. exists s0. repeat split; assumption.
Qed.

Theorem src_closed_thick_segment_iter_total F pts w so : 0 <= w <= 100000 -> length pts <> 1%nat -> fuel_ok pts w F ->
  exists segs s0 n, closed_thick_segment_iter pts w so = Some segs /\ (n <= length pts + 4)%nat /\
                    src_ClosedThickSegmentIter_new F pts w so = Some s0 /\ src_ctsi_drive F n s0 = Some segs.
Proof.
  intros Hw H1 HF. destruct (closed_thick_segment_iter_total w Hw pts so H1) as [segs E]. exists segs.
  destruct (src_closed_thick_segment_iter_run F pts w so segs E HF) as [s0 [n [Hn [A B]]]]. exists s0, n. repeat split; assumption.
Qed.
