(* translate/r2c tie, round 2 group 4 (styled bounding boxes of the closed shapes): styled_bounding_box of Circle, Ellipse,
   Rectangle, RoundedRectangle ({circle,ellipse,rectangle,rounded_rectangle}/styled.rs) equal the models' styled boxes,
   for shapes whose extents are values of u32 and stroke widths whose outside part, saturated to i32, is the offset. *)
From EG Require Import Base.Prelude Base.Casts Model.Geometry Model.Style Model.Circle Model.Ellipse Model.Styledrect Model.Rrect.
From EG Require Import Gen.SrcGeometry Gen.SrcStyle Gen.SrcCircle Gen.SrcRrect Gen.SrcRrect2 Gen.SrcStyledBox.
From EG Require Import Proofs.SrcGeometry Proofs.SrcCircle.
Set Default Timeout 60.

Lemma offset_arg_range st : 0 <= stroke_width st -> i32_min <= sat_u32_to_i32 (outside_stroke_width st) <= i32_max.
Proof.
  intros H. unfold sat_u32_to_i32, outside_stroke_width, i32_min, i32_max.
  destruct (stroke_alignment st); try lia.
  assert (0 <= stroke_width st / 2) by (apply Z.div_pos; lia). lia.
Qed.

Lemma src_circle_styled_bbox_eq c st :
  0 <= c_d c <= u32_max -> 0 <= stroke_width st ->
  src_Circle_styled_bounding_box c st = circle_styled_bbox c st.
Proof.
  intros Hc Hs. unfold src_Circle_styled_bounding_box, circle_styled_bbox. cbv zeta.
  rewrite src_outside_stroke_width_eq. rewrite src_Circle_bounding_box_eq.
  apply src_Rectangle_offset_eq; [|apply offset_arg_range; exact Hs].
  unfold size_u32, circle_bbox. cbn [sz sw sh]. lia.
Qed.

Lemma src_ellipse_styled_bbox_eq e st :
  size_u32 (e_sz e) -> 0 <= stroke_width st ->
  src_Ellipse_styled_bounding_box e st = ellipse_styled_bbox e st.
Proof.
  intros He Hs. unfold src_Ellipse_styled_bounding_box, ellipse_styled_bbox. cbv zeta.
  rewrite src_outside_stroke_width_eq. rewrite src_Ellipse_bounding_box_eq.
  apply src_Rectangle_offset_eq; [exact He|apply offset_arg_range; exact Hs].
Qed.

Lemma src_rect_styled_bbox_eq r st :
  size_u32 (sz r) -> 0 <= stroke_width st ->
  src_Rectangle_styled_bounding_box r st = rect_styled_bbox r st.
Proof.
  intros Hr Hs. unfold src_Rectangle_styled_bounding_box, rect_styled_bbox. cbv zeta.
  rewrite src_outside_stroke_width_eq. unfold src_Rectangle_bounding_box.
  apply src_Rectangle_offset_eq; [exact Hr|apply offset_arg_range; exact Hs].
Qed.

Lemma src_rr_styled_bbox_eq r st :
  size_u32 (sz (rr_rect r)) -> 0 <= stroke_width st ->
  src_RoundedRectangle_styled_bounding_box r st = rr_styled_bounding_box r st.
Proof.
  intros Hr Hs. unfold src_RoundedRectangle_styled_bounding_box, rr_styled_bounding_box. cbv zeta.
  rewrite src_outside_stroke_width_eq. unfold src_RoundedRectangle_bounding_box, rr_bounding_box.
  apply src_Rectangle_offset_eq; [exact Hr|apply offset_arg_range; exact Hs].
Qed.
