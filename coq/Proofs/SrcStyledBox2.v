(* translate/r2c tie, round 4 (1): the styled bounding boxes of Triangle (src/primitives/triangle/styled.rs) and Polyline
   (src/primitives/polyline/styled.rs: untranslated_bounding_box, styled_bounding_box; polyline/mod.rs: bounding_box).
   `<segment iterator>.fold(init, |acc, seg| ..)` is a fuelled driver over the generated `next` (`<fn>_fold1`), the fold over
   `slice.iter().map(..)` a List.fold_left.  Whenever the model yields a box (Join.poly_thick_bounding_box,
   JoinTri.jt_styled_bounding_box), the fuel F covers the extents of the lines between the points and the number of
   segments, and the edge boxes of the segments have i32 sizes, the generated functions yield the same box. *)
From EG Require Import Base.Prelude Base.Casts Model.Geometry Model.Style Model.Line Model.Thickline Model.Rrect Model.Join Model.JoinTri Model.Polyline.
From EG Require Import Gen.SrcGeometry Gen.SrcStyle Gen.SrcCircle Gen.SrcJoin Gen.SrcLine Gen.SrcThick Gen.SrcTriangle Gen.SrcLineJoin Gen.SrcLineJoin2 Gen.SrcSegIter Gen.SrcRrect Gen.SrcRrect2 Gen.SrcTraitCopies Gen.SrcStyledBox2.
From EG Require Import Proofs.SrcGeometry Proofs.SrcCircle Proofs.SrcLineJoin Proofs.SrcLineJoin2 Proofs.SrcSegIter.
Set Default Timeout 60.

(* the fold drivers compute fold_left over the list the iterator yields *)
Lemma tsi_fold_of_drive F step : forall n s segs acc m,
  src_tsi_drive F n s = Some segs -> (n <= m)%nat ->
  src_untranslated_bounding_box_fold1 m F step s acc = Some (fold_left step segs acc).
Proof.
  induction n as [|n IH]; intros s segs acc m H Hm; [discriminate|].
  destruct m as [|m]; [lia|]. rewrite tsi_drive_S in H. cbn [src_untranslated_bounding_box_fold1].
  destruct (src_ThickSegmentIter_next F s) as [[s1 [seg|]]|]; [| |discriminate].
  - destruct (src_tsi_drive F n s1) as [rest|] eqn:E; [|discriminate]. injection H as <-.
    cbn [fold_left]. apply (IH s1 rest (step acc seg) m E). lia.
  - injection H as <-. reflexivity.
Qed.

Lemma ctsi_fold_of_drive F step : forall n s segs acc m,
  src_ctsi_drive F n s = Some segs -> (n <= m)%nat ->
  src_Triangle_styled_bounding_box_fold1 m F step s acc = Some (fold_left step segs acc).
Proof.
  induction n as [|n IH]; intros s segs acc m H Hm; [discriminate|].
  destruct m as [|m]; [lia|]. rewrite ctsi_drive_S in H. cbn [src_Triangle_styled_bounding_box_fold1].
  destruct (src_ClosedThickSegmentIter_next F s) as [[s1 [seg|]]|]; [| |discriminate].
  - destruct (src_ctsi_drive F n s1) as [rest|] eqn:E; [|discriminate]. injection H as <-.
    cbn [fold_left]. apply (IH s1 rest (step acc seg) m E). lia.
  - injection H as <-. reflexivity.
Qed.

Definition box_i32 (seg : thick_segment) : Prop := size_i32 (sz (edges_bounding_box seg)).

Definition model_step (acc : point * point) (seg : thick_segment) : point * point :=
  let bb := edges_bounding_box seg in
  (component_min (fst acc) (tl bb), component_max (snd acc) (match bottom_right bb with Some br => br | None => tl bb end)).

Lemma fold_step_ext (step : point * point -> thick_segment -> point * point) segs :
  (forall acc seg, box_i32 seg -> step acc seg = model_step acc seg) -> Forall box_i32 segs ->
  forall acc, fold_left step segs acc = fold_left model_step segs acc.
Proof.
  intros Hs HF. induction HF as [|seg rest Hb _ IH]; intros acc; [reflexivity|].
  cbn [fold_left]. rewrite (Hs acc seg Hb). apply IH.
Qed.

Lemma segments_bounding_box_fold segs :
  segments_bounding_box segs = (let '(mn, mx) := fold_left model_step segs (P i32_max i32_max, P i32_min i32_min) in with_corners mn mx).
Proof. reflexivity. Qed.

Ltac step_eq_tac :=
  let acc := fresh "acc" in let seg := fresh "seg" in let Hb := fresh "Hb" in
  intros acc seg Hb; destruct acc as [mn mx]; unfold model_step; cbn [fst snd];
  rewrite src_edges_bounding_box_eq; rewrite (src_Rectangle_bottom_right_eq _ Hb); reflexivity.

(* ---- Polyline ---- *)
Theorem src_polyline_untranslated_bbox_eq F pl st c r :
  effective_stroke_color st = Some c -> (1 < length (Polyline_vertices pl))%nat ->
  poly_thick_bounding_box (Polyline_vertices pl) (stroke_width st) = Some r ->
  fuel_ok (Polyline_vertices pl) (stroke_width st) F -> (length (Polyline_vertices pl) + 2 <= F)%nat ->
  (forall segs, thick_segment_iter (Polyline_vertices pl) (stroke_width st) = Some segs -> Forall box_i32 segs) ->
  src_untranslated_bounding_box F pl st = Some r.
Proof.
  intros Hc Hl Hm HF Hn Hbox. unfold src_untranslated_bounding_box, poly_thick_bounding_box in *.
  rewrite src_effective_stroke_color_eq, Hc.
  assert (E : (1 <? Z.of_nat (length (Polyline_vertices pl))) = true) by (apply Z.ltb_lt; lia). rewrite E. cbn [andb].
  destruct (thick_segment_iter (Polyline_vertices pl) (stroke_width st)) as [segs|] eqn:ES; [|discriminate].
  injection Hm as <-.
  destruct (src_thick_segment_iter_run F _ _ SONone segs ES HF) as [s0 [N D]]. rewrite N.
  match goal with |- context [src_untranslated_bounding_box_fold1 F F ?f s0 ?a] => set (step := f); set (a0 := a) end.
  rewrite (tsi_fold_of_drive F step _ s0 segs a0 F D) by lia.
  assert (HS : forall acc seg, box_i32 seg -> step acc seg = model_step acc seg) by (subst step; step_eq_tac).
  rewrite (fold_step_ext step segs HS (Hbox segs eq_refl)).
  rewrite segments_bounding_box_fold. subst a0.
  change (src_Point_new_equal 2147483647, src_Point_new_equal (-2147483648)) with (P i32_max i32_max, P i32_min i32_min).
  destruct (fold_left model_step segs (P i32_max i32_max, P i32_min i32_min)) as [mn mx]. reflexivity.
Qed.

Theorem src_polyline_styled_bbox_eq F pl st c r :
  effective_stroke_color st = Some c -> (1 < length (Polyline_vertices pl))%nat ->
  poly_thick_bounding_box (Polyline_vertices pl) (stroke_width st) = Some r ->
  fuel_ok (Polyline_vertices pl) (stroke_width st) F -> (length (Polyline_vertices pl) + 2 <= F)%nat ->
  (forall segs, thick_segment_iter (Polyline_vertices pl) (stroke_width st) = Some segs -> Forall box_i32 segs) ->
  src_Polyline_styled_bounding_box F pl st = Some (translate_rect r (Polyline_translate pl)).
Proof.
  intros. unfold src_Polyline_styled_bounding_box.
  rewrite (src_polyline_untranslated_bbox_eq F pl st c r) by assumption. reflexivity.
Qed.

Lemma src_polyline_bounding_box_eq pl :
  src_Polyline_bounding_box pl = polyline_bounding_box (PL (Polyline_translate pl) (Polyline_vertices pl)).
Proof.
  unfold src_Polyline_bounding_box, polyline_bounding_box. cbn [pl_vertices pl_translate].
  destruct (Polyline_vertices pl) as [|a [|b r]]; try reflexivity.
  set (vs := a :: b :: r). cbv zeta.
  assert (M : forall (f : point -> point -> point) l acc,
            fold_left (fun acc_ x_ => let 'v1 := x_ in let 'v2 := src_Point_add v1 (Polyline_translate pl) in let 'accum := acc_ in f accum v2) l acc
            = fold_left f (map (fun v => padd v (Polyline_translate pl)) l) acc).
  { intros f l. induction l as [|x l IH]; intros acc; [reflexivity|]. cbn [map fold_left]. apply IH. }
  rewrite (M (fun accum v2 => src_Point_new (Z.min (px accum) (px v2)) (Z.min (py accum) (py v2)))).
  rewrite (M (fun accum v2 => src_Point_new (Z.max (px accum) (px v2)) (Z.max (py accum) (py v2)))).
  reflexivity.
Qed.

(* ---- Triangle ---- *)
Lemma src_sort_two_jt a b : src_sort_two_yx a b = jt_sort_two_yx a b.
Proof. reflexivity. Qed.

Lemma src_tri_sorted_yx_jt t : Triangle_vertices (src_Triangle_sorted_yx (Build_Triangle t)) = jt_sorted_yx t.
Proof.
  destruct t as [[p1 p2] p3]. unfold src_Triangle_sorted_yx, jt_sorted_yx. cbn [Triangle_vertices].
  rewrite !src_sort_two_jt.
  destruct (jt_sort_two_yx p1 p2) as [y1 y2]. rewrite !src_sort_two_jt.
  destruct (jt_sort_two_yx p3 y1) as [y1' y3]. rewrite !src_sort_two_jt.
  destruct (jt_sort_two_yx y3 y2) as [y2' y3']. reflexivity.
Qed.

Lemma src_tri_sorted_clockwise_jt t : Triangle_vertices (src_Triangle_sorted_clockwise (Build_Triangle t)) = jt_sorted_clockwise t.
Proof.
  destruct t as [[p1 p2] p3]. unfold src_Triangle_sorted_clockwise, jt_sorted_clockwise, src_Triangle_area_doubled, jt_area_doubled.
  cbn [Triangle_vertices].
  match goal with |- context [Z.compare ?x 0] => destruct (Z.compare x 0) end; try reflexivity.
  apply (src_tri_sorted_yx_jt (p1, p2, p3)).
Qed.

Lemma src_tri_bounding_box_jt t : src_Triangle_bounding_box (Build_Triangle t) = jt_bounding_box t.
Proof. destruct t as [[p1 p2] p3]. reflexivity. Qed.

Theorem src_triangle_styled_bbox_eq F t st r :
  let w := stroke_width st in let al := stroke_alignment st in
  let '(a, b, c) := jt_sorted_clockwise t in
  jt_styled_bounding_box t w al = Some r ->
  fuel_ok [a; b; c] w F -> (8 <= F)%nat ->
  (forall segs, closed_thick_segment_iter [a; b; c] w (so_of_alignment al) = Some segs -> Forall box_i32 segs) ->
  src_Triangle_styled_bounding_box F (Build_Triangle t) st = Some r.
Proof.
  cbv zeta. destruct (jt_sorted_clockwise t) as [[a b] c] eqn:ET. intros Hm HF Hn Hbox.
  unfold src_Triangle_styled_bounding_box, jt_styled_bounding_box in *.
  rewrite src_tri_bounding_box_jt.
  assert (EA : StrokeAlignment_eqb (stroke_alignment st) Style.Inside = match stroke_alignment st with Inside => true | _ => false end)
    by (destruct (stroke_alignment st); reflexivity).
  rewrite EA. clear EA.
  assert (Main : forall so, closed_thick_segment_iter [a; b; c] (stroke_width st) so = match closed_thick_segment_iter [a; b; c] (stroke_width st) so with Some s => Some s | None => None end) by (intros so; destruct (closed_thick_segment_iter _ _ so); reflexivity).
  clear Main.
  destruct (stroke_alignment st) eqn:EAL.
  - rewrite Bool.orb_true_r. exact Hm.
  - rewrite Bool.orb_false_r. destruct (stroke_width st <? 2); [exact Hm|].
    cbv zeta. rewrite src_tri_sorted_clockwise_jt, ET in *.
    destruct (closed_thick_segment_iter [a; b; c] (stroke_width st) (so_of_alignment Center)) as [segs|] eqn:ES; [|discriminate].
    injection Hm as <-.
    destruct (src_closed_thick_segment_iter_run F _ _ _ segs ES HF) as [s0 [n [Hle [N D]]]].
    change (src_StrokeOffset_from_StrokeAlignment Center) with (so_of_alignment Center). rewrite N.
    match goal with |- context [src_Triangle_styled_bounding_box_fold1 _ _ ?f _ ?a] => set (step := f); set (a0 := a) end.
    assert (HS : forall acc seg, box_i32 seg -> step acc seg = model_step acc seg) by (subst step; step_eq_tac).
    rewrite (ctsi_fold_of_drive F step n s0 segs a0 F D) by (cbn [length] in Hle; lia).
    rewrite (fold_step_ext step segs HS (Hbox segs eq_refl)).
    rewrite segments_bounding_box_fold. subst a0.
    change (src_Point_new_equal 2147483647, src_Point_new_equal (-2147483648)) with (P i32_max i32_max, P i32_min i32_min).
    destruct (fold_left model_step segs (P i32_max i32_max, P i32_min i32_min)) as [mn mx]. reflexivity.
  - rewrite Bool.orb_false_r. destruct (stroke_width st <? 2); [exact Hm|].
    cbv zeta. rewrite src_tri_sorted_clockwise_jt, ET in *.
    destruct (closed_thick_segment_iter [a; b; c] (stroke_width st) (so_of_alignment Outside)) as [segs|] eqn:ES; [|discriminate].
    injection Hm as <-.
    destruct (src_closed_thick_segment_iter_run F _ _ _ segs ES HF) as [s0 [n [Hle [N D]]]].
    change (src_StrokeOffset_from_StrokeAlignment Outside) with (so_of_alignment Outside). rewrite N.
    match goal with |- context [src_Triangle_styled_bounding_box_fold1 _ _ ?f _ ?a] => set (step := f); set (a0 := a) end.
    assert (HS : forall acc seg, box_i32 seg -> step acc seg = model_step acc seg) by (subst step; step_eq_tac).
    rewrite (ctsi_fold_of_drive F step n s0 segs a0 F D) by (cbn [length] in Hle; lia).
    rewrite (fold_step_ext step segs HS (Hbox segs eq_refl)).
    rewrite segments_bounding_box_fold. subst a0.
    change (src_Point_new_equal 2147483647, src_Point_new_equal (-2147483648)) with (P i32_max i32_max, P i32_min i32_min).
    destruct (fold_left model_step segs (P i32_max i32_max, P i32_min i32_min)) as [mn mx]. reflexivity.
Qed.
