(* translate/r2c tie, round 2 group 5 (text metrics): LineHeight::to_absolute (src/text/mod.rs), MonoTextStyle::line_height /
   baseline_offset (src/mono_font/mono_text_style.rs): the regenerated definitions (coq/Gen/SrcText.v) equal
   Model/Textmodel.v / Model/Fontmodel.v.  font_of sees the generated MonoFont record (the fields inside the subset) as
   the model's flat font record; the atlas size is not a field of the Rust struct (it is image.size()), so it is a parameter. *)
From EG Require Import Base.Prelude Base.Casts Model.Geometry Model.Imageraw Model.Fontmodel Model.Textmodel.
From EG Require Import Gen.SrcGeometry Gen.SrcFont Gen.SrcText.
Set Default Timeout 60.

Definition font_of (f : MonoFont) (iw ih : Z) : font :=
  Font iw ih (sw (MonoFont_character_size f)) (sh (MonoFont_character_size f)) (MonoFont_character_spacing f)
       (MonoFont_baseline f) (MonoFont_underline f) (MonoFont_strikethrough f).

Lemma src_to_absolute_eq lh b : src_LineHeight_to_absolute lh b = to_absolute lh b.
Proof. destruct lh; reflexivity. Qed.

Lemma src_line_height_eq s iw ih : src_MonoTextStyle_line_height s = cs_line_height (font_of (MonoTextStyle_font s) iw ih).
Proof. reflexivity. Qed.

Lemma src_baseline_offset_eq s b iw ih :
  src_MonoTextStyle_baseline_offset s b = baseline_offset (font_of (MonoTextStyle_font s) iw ih) b.
Proof. destruct b; reflexivity. Qed.
