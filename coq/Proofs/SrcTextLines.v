(* translate/r2c tie, round 4 (4): Text::line_height and Text::lines (src/text/text.rs) for the character style MonoTextStyle.
   `&str` is the list of its chars, `split('\n')` Casts.split_char 10, `strip_suffix('\r').unwrap_or(line)` a match on
   Casts.strip_suffix_char 13; the `.map(move |line| ..)` closure over the captured mutable `position` is a Fixpoint by
   structural recursion on the list of raw lines.  Equal to Textmodel.text_lines when every line measures within i32. *)
From EG Require Import Base.Prelude Base.Casts Model.Geometry Model.Imageraw Model.Fontmodel Model.Textmodel.
From EG Require Import Gen.SrcGeometry Gen.SrcFont Gen.SrcText Gen.SrcTextStyle Gen.SrcTextLines.
From EG Require Import Proofs.SrcGeometry Proofs.SrcText Proofs.SrcTextStyle.
Set Default Timeout 60.

Lemma split_char_nl s : Casts.split_char 10 s = split_nl s.
Proof. induction s as [|c r IH]; [reflexivity|]. cbn [Casts.split_char split_nl]. rewrite IH. reflexivity. Qed.

Lemma strip_suffix_cr l : match Casts.strip_suffix_char 13 l with Some v => v | None => l end = strip_cr l.
Proof.
  induction l as [|c t IH]; [reflexivity|]. destruct t as [|d t'].
  - cbn. destruct (c =? 13); reflexivity.
  - change (Casts.strip_suffix_char 13 (c :: d :: t')) with (match Casts.strip_suffix_char 13 (d :: t') with Some t2 => Some (c :: t2) | None => None end).
    change (strip_cr (c :: d :: t')) with (c :: strip_cr (d :: t')). rewrite <- IH.
    destruct (Casts.strip_suffix_char 13 (d :: t')); reflexivity.
Qed.

Definition line_ok (f : font) (line : list Z) : Prop :=
  Z.of_nat (length line) <= u32_max /\ 0 <= sat_sub_u32 (Z.of_nat (length line) * (f_cw f + f_sp f)) (f_sp f) <= i32_max.

Lemma src_text_line_height_eq t iw ih :
  src_Text_MonoTextStyle_line_height t = text_line_height (font_of (MonoTextStyle_font (Text_MonoTextStyle_character_style t)) iw ih) (Text_MonoTextStyle_text_style t).
Proof. unfold src_Text_MonoTextStyle_line_height, text_line_height. rewrite src_to_absolute_eq. reflexivity. Qed.

Lemma src_lines_map_eq t iw ih :
  let f := font_of (MonoTextStyle_font (Text_MonoTextStyle_character_style t)) iw ih in
  forall ls position, Forall (fun raw => line_ok f (strip_cr raw)) ls ->
  src_Text_MonoTextStyle_lines_map1 ls t position
  = lines_from f (cstyle_of (Text_MonoTextStyle_character_style t)) (Text_MonoTextStyle_text_style t) position ls.
Proof.
  intros f ls. induction ls as [|raw rest IH]; intros position Hok; [reflexivity|].
  inversion Hok as [|? ? [Hl Hw] Hrest]; subst.
  cbn [src_Text_MonoTextStyle_lines_map1 lines_from]. cbv zeta.
  rewrite strip_suffix_cr. rewrite (src_text_line_height_eq t iw ih). fold f.
  rewrite (IH _ Hrest). f_equal. f_equal.
  unfold line_position.
  pose proof (src_measure_string_eq (Text_MonoTextStyle_character_style t) (strip_cr raw) src_Point_zero (t_base (Text_MonoTextStyle_text_style t)) iw ih Hl Hw) as M.
  cbv zeta in M. fold f in M.
  destruct (t_align (Text_MonoTextStyle_text_style t)); try reflexivity.
  - apply (f_equal snd) in M. cbn [snd] in M. rewrite M. reflexivity.
  - apply (f_equal snd) in M. cbn [snd] in M. rewrite M. reflexivity.
Qed.

Theorem src_text_lines_eq t iw ih :
  let f := font_of (MonoTextStyle_font (Text_MonoTextStyle_character_style t)) iw ih in
  Forall (fun raw => line_ok f (strip_cr raw)) (split_nl (Text_MonoTextStyle_text t)) ->
  src_Text_MonoTextStyle_lines t
  = text_lines f (cstyle_of (Text_MonoTextStyle_character_style t)) (Text_MonoTextStyle_text_style t) (Text_MonoTextStyle_position t) (Text_MonoTextStyle_text t).
Proof.
  intros f H. unfold src_Text_MonoTextStyle_lines, text_lines. cbv zeta. rewrite split_char_nl.
  apply (src_lines_map_eq t iw ih). exact H.
Qed.
