(* translate/r2c tie, round 4 (4): MonoTextStyle::measure_string / draw_decorations / draw_whitespace and
   DecorationColor::is_none / effective_color (src/mono_font/mono_text_style.rs, src/text/mod.rs).  The draw target is the
   type variable T (a log of Target.call), `target.fill_solid(..)` a function parameter (log_solid appends);
   `?` on its Result is a match on the sum.  cstyle_of / font_of read the generated records as the model's. *)
From EG Require Import Base.Prelude Base.Casts Model.Geometry Model.Imageraw Model.Fontmodel Model.Textmodel Model.Target.
From EG Require Import Gen.SrcGeometry Gen.SrcFont Gen.SrcText Gen.SrcTextStyle.
From EG Require Import Proofs.SrcGeometry Proofs.SrcMisc Proofs.SrcText.
Set Default Timeout 60.

Definition cstyle_of (s : MonoTextStyle) : cstyle :=
  CStyle (MonoTextStyle_text_color s) (MonoTextStyle_background_color s) (MonoTextStyle_underline_color s) (MonoTextStyle_strikethrough_color s).

Definition log_solid (log : list Target.call) (r : rect) (c : Z) : list Target.call * (unit + unit) := (log ++ [Target.FillSolid r c], inl tt).

(* the logged Target calls as the font model's calls *)
Definition fcall_of (c : Target.call) : Fontmodel.call :=
  match c with
  | Target.FillSolid r col => Fontmodel.FillSolid r col
  | Target.FillContiguous r (Target.Fin l) => Fontmodel.FillContig r l
  | Target.FillContiguous r (Target.Rep col) => Fontmodel.FillSolid r col
  | Target.DrawIter ps => Fontmodel.DrawIter ps
  | Target.Clear col => Fontmodel.FillSolid rect_zero col
  end.

Lemma src_dcolor_is_none_eq d : src_DecorationColor_is_none d = dcolor_is_none d.
Proof. destruct d; reflexivity. Qed.
Lemma src_effective_color_eq d t : src_DecorationColor_effective_color d t = effective_color d t.
Proof. destruct d; reflexivity. Qed.

Lemma dcolor_eqb_none d : DecorationColor_eqb d DNone = dcolor_is_none d.
Proof. destruct d; reflexivity. Qed.

Theorem src_measure_string_eq s text position b iw ih :
  let f := font_of (MonoTextStyle_font s) iw ih in
  Z.of_nat (length text) <= u32_max ->
  0 <= sat_sub_u32 (Z.of_nat (length text) * (f_cw f + f_sp f)) (f_sp f) <= i32_max ->
  let m := src_MonoTextStyle_measure_string s text position b in
  (TextMetrics_bounding_box m, TextMetrics_next_position m) = measure_string f (cstyle_of s) text position b.
Proof.
  intros f Hl Hw. cbv zeta. unfold src_MonoTextStyle_measure_string, measure_string. cbv zeta.
  cbn [TextMetrics_bounding_box TextMetrics_next_position].
  rewrite (src_baseline_offset_eq s b iw ih). fold f.
  rewrite Casts.cast_usize_u32_id by (unfold u32_max in Hl; lia).
  rewrite dcolor_eqb_none.
  unfold f, font_of in *. cbn [f_cw f_sp f_ch f_ul cs_ul cstyle_of] in *.
  set (bw := sat_sub_u32 _ _) in *.
  rewrite src_Point_add_Size_eq by (unfold size_i32, src_Size_x_axis, src_Size_new, i32_max in *; cbn [sw sh]; lia).
  unfold src_Point_sub, src_Point_new, src_Rectangle_new, src_Size_new, src_Size_x_axis, padd_size. cbn [px py sw sh].
  rewrite Z.sub_0_r, Z.add_0_r.
  destruct (dcolor_is_none (MonoTextStyle_underline_color s)); reflexivity.
Qed.

Theorem src_draw_decorations_eq s width position log iw ih :
  let f := font_of (MonoTextStyle_font s) iw ih in
  0 <= d_off (f_st f) <= i32_max -> 0 <= d_off (f_ul f) <= i32_max ->
  let r := src_MonoTextStyle_draw_decorations log_solid s width position log in
  map fcall_of (fst r) = map fcall_of log ++ draw_decorations f (cstyle_of s) width position /\ snd r = inl tt.
Proof.
  intros f Hs Hu. cbv zeta. unfold src_MonoTextStyle_draw_decorations, draw_decorations.
  change src_DecorationColor_effective_color with effective_color. unfold f, font_of in *. cbn [f_st f_ul cs_st cs_ul cs_text cstyle_of] in *.
  assert (B1 := src_deco_box_eq (MonoFont_strikethrough (MonoTextStyle_font s)) position width Hs).
  assert (B2 := src_deco_box_eq (MonoFont_underline (MonoTextStyle_font s)) position width Hu).
  rewrite B1, B2.
  destruct (effective_color (MonoTextStyle_strikethrough_color s) (MonoTextStyle_text_color s)) as [c1|];
    destruct (effective_color (MonoTextStyle_underline_color s) (MonoTextStyle_text_color s)) as [c2|];
    unfold log_solid; cbn [fst snd]; rewrite ?map_app; cbn [map fcall_of app]; rewrite <- ?app_assoc; cbn [app];
    rewrite ?app_nil_r; split; reflexivity.
Qed.

(* what draw_whitespace does, from the model's pieces (no model function of its own): *)
Definition whitespace_calls (f : font) (cs : cstyle) (width : Z) (position : point) (b : vbase) : list Fontmodel.call :=
  let p := P (px position) (py position - baseline_offset f b) in
  if width =? 0 then []
  else (match cs_bg cs with Some g => [Fontmodel.FillSolid (R p (S width (f_ch f))) g] | None => [] end) ++ draw_decorations f cs width p.
Definition whitespace_next (f : font) (width : Z) (position : point) : point :=
  P (px position + sat_u32_to_i32 width) (py position).

Theorem src_draw_whitespace_eq s width position b log iw ih :
  let f := font_of (MonoTextStyle_font s) iw ih in
  0 <= d_off (f_st f) <= i32_max -> 0 <= d_off (f_ul f) <= i32_max ->
  let r := src_MonoTextStyle_draw_whitespace log_solid s width position b log in
  map fcall_of (fst r) = map fcall_of log ++ whitespace_calls f (cstyle_of s) width position b /\
  snd r = inl (whitespace_next f width position).
Proof.
  intros f Hs Hu. cbv zeta. unfold src_MonoTextStyle_draw_whitespace, whitespace_calls, whitespace_next. cbv zeta.
  rewrite (src_baseline_offset_eq s b iw ih). fold f.
  set (bo := baseline_offset f b).
  assert (EP : src_Point_sub position (src_Point_new 0 bo) = P (px position) (py position - bo)).
  { unfold src_Point_sub, src_Point_new. cbn [px py]. rewrite Z.sub_0_r. reflexivity. }
  rewrite EP. set (p := P (px position) (py position - bo)).
  assert (EN : src_Point_add p (src_Point_new (sat_u32_to_i32 width) bo) = P (px position + sat_u32_to_i32 width) (py position)).
  { unfold src_Point_add, src_Point_new, p. cbn [px py]. f_equal. lia. }
  rewrite EN.
  destruct (width =? 0); cbn [negb]; [rewrite app_nil_r; split; reflexivity|].
  cbn [cs_bg cstyle_of].
  destruct (MonoTextStyle_background_color s) as [g|].
  - match goal with |- context [log_solid log ?r g] => change (log_solid log r g) with (log ++ [Target.FillSolid r g], @inl unit unit tt) end.
    cbv iota beta.
    pose proof (src_draw_decorations_eq s width p (log ++ [Target.FillSolid (src_Rectangle_new p (src_Size_new width (sh (MonoFont_character_size (MonoTextStyle_font s))))) g]) iw ih Hs Hu) as D.
    cbv zeta in D. destruct (src_MonoTextStyle_draw_decorations log_solid s width p _) as [l2 r2]. cbn [fst snd] in *.
    destruct D as [D1 D2]. subst r2. cbn [fst snd]. split; [|reflexivity].
    rewrite D1, map_app. cbn [map fcall_of]. rewrite <- app_assoc. reflexivity.
  - pose proof (src_draw_decorations_eq s width p log iw ih Hs Hu) as D.
    cbv zeta in D. destruct (src_MonoTextStyle_draw_decorations log_solid s width p log) as [l2 r2]. cbn [fst snd] in *.
    destruct D as [D1 D2]. subst r2. cbn [fst snd]. split; [|reflexivity]. exact D1.
Qed.
