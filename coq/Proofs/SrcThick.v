(* translate/r2c tie, round 2 group 1: `&mut` parameters (increase_error / decrease_error), the ParallelsIterator of
   src/primitives/line/thick_points.rs (new / next_parallel with its `loop` / Iterator::next), line::Points.
   Functions containing a loop are generated with explicit fuel (None = fuel exhausted), exactly like Model/Thickline.v;
   the equalities hold for every fuel.  ps_of converts the generated ParallelsIterator record field by field. *)
From EG Require Import Base.Prelude Base.Casts Model.Geometry Model.Line Model.Thickline.
From EG Require Import Gen.SrcGeometry Gen.SrcCircle Gen.SrcJoin Gen.SrcLine Gen.SrcThick Proofs.SrcLine.
Set Default Timeout 60.

Lemma src_increase_error_eq p e : src_BresenhamParameters_increase_error p e = increase_error (bp_of p) e.
Proof.
  unfold src_BresenhamParameters_increase_error, increase_error. cbv zeta. cbn [bp_of error_threshold error_step_major error_step_minor].
  destruct (_ <? _); reflexivity.
Qed.

Lemma src_decrease_error_eq p e : src_BresenhamParameters_decrease_error p e = decrease_error (bp_of p) e.
Proof.
  unfold src_BresenhamParameters_decrease_error, decrease_error. cbv zeta. cbn [bp_of error_threshold error_step_major error_step_minor].
  destruct (_ <=? _); reflexivity.
Qed.

Definition ps_of (s : ParallelsIterator) : pstate :=
  PS (bp_of (ParallelsIterator_parallel_parameters s)) (bp_of (ParallelsIterator_perpendicular_parameters s))
     (ParallelsIterator_thickness_accumulator s) (ParallelsIterator_thickness_threshold s) (ParallelsIterator_flip s)
     (bs_of (ParallelsIterator_left s)) (ParallelsIterator_left_error s)
     (bs_of (ParallelsIterator_right s)) (ParallelsIterator_right_error s)
     (ParallelsIterator_next_side s) (ParallelsIterator_stroke_offset s).

Definition np_of (r : ParallelsIterator * (BresenhamPoint * Z)) : bpoint * Z * pstate :=
  (bpt_of (fst (snd r)), snd (snd r), ps_of (fst r)).

Ltac use_IH IH Ef :=
  match goal with
  | |- option_map np_of (src_ParallelsIterator_next_parallel_loop1 ?f ?s' ?sd _) = _ =>
      transitivity (next_parallel f (ps_of s') sd);
      [ rewrite <- (IH s'); cbn [ParallelsIterator_flip]; rewrite ?Ef; reflexivity | reflexivity ]
  end.

Lemma src_next_parallel_loop_eq fuel s sd :
  option_map np_of (src_ParallelsIterator_next_parallel_loop1 fuel s sd
                      (match sd with SLeft => ParallelsIterator_flip s | SRight => negb (ParallelsIterator_flip s) end))
  = next_parallel fuel (ps_of s) sd.
Proof.
  revert s. induction fuel as [|f IH]; intros s; [reflexivity|].
  cbn [next_parallel src_ParallelsIterator_next_parallel_loop1].
  destruct sd.
  - pose proof (src_bnext_all_eq (ParallelsIterator_left s) (ParallelsIterator_perpendicular_parameters s)) as E.
    destruct (src_Bresenham_next_all (ParallelsIterator_left s) (ParallelsIterator_perpendicular_parameters s)) as [b' pt].
    cbn [fst snd] in E. cbn [ps_of perp_params p_left]. rewrite <- E.
    destruct pt as [q|q]; cbn [bpt_of].
    + reflexivity.
    + cbn [ps_of flip par_params left_error ParallelsIterator_flip ParallelsIterator_parallel_parameters ParallelsIterator_left_error].
      destruct (ParallelsIterator_flip s) eqn:Ef.
      * rewrite src_decrease_error_eq. destruct (decrease_error _ _) as [e' took]. destruct took; [reflexivity|].
        use_IH IH Ef.
      * rewrite src_increase_error_eq. destruct (increase_error _ _) as [e' took]. destruct took; [reflexivity|].
        use_IH IH Ef.
  - pose proof (src_bprevious_all_eq (ParallelsIterator_right s) (ParallelsIterator_perpendicular_parameters s)) as E.
    destruct (src_Bresenham_previous_all (ParallelsIterator_right s) (ParallelsIterator_perpendicular_parameters s)) as [b' pt].
    cbn [fst snd] in E. cbn [ps_of perp_params p_right]. rewrite <- E.
    destruct pt as [q|q]; cbn [bpt_of].
    + reflexivity.
    + cbn [ps_of flip par_params right_error ParallelsIterator_flip ParallelsIterator_parallel_parameters ParallelsIterator_right_error].
      destruct (ParallelsIterator_flip s) eqn:Ef; cbn [negb].
      * rewrite src_increase_error_eq. destruct (increase_error _ _) as [e' took]. destruct took; [reflexivity|].
        use_IH IH Ef.
      * rewrite src_decrease_error_eq. destruct (decrease_error _ _) as [e' took]. destruct took; [reflexivity|].
        use_IH IH Ef.
Qed.

Lemma src_next_parallel_eq fuel s sd :
  option_map np_of (src_ParallelsIterator_next_parallel fuel s sd) = next_parallel fuel (ps_of s) sd.
Proof. exact (src_next_parallel_loop_eq fuel s sd). Qed.

(* projections of the nested generated records seen through bp_of *)
Lemma bp_of_proj p :
  MajorMinor_Point_minor (BresenhamParameters_position_step p) = pos_step_minor (bp_of p) /\
  MajorMinor_Point_major (BresenhamParameters_position_step p) = pos_step_major (bp_of p) /\
  MajorMinor_i32_minor (BresenhamParameters_error_step p) = error_step_minor (bp_of p) /\
  MajorMinor_i32_major (BresenhamParameters_error_step p) = error_step_major (bp_of p).
Proof. repeat split. Qed.

Lemma src_parallels_new_eq l0 thickness so :
  option_map ps_of (src_ParallelsIterator_new np_fuel l0 thickness so) = parallels_new l0 thickness so.
Proof.
  unfold src_ParallelsIterator_new, parallels_new. cbv zeta.
  change src_HORIZONTAL_LINE with horizontal_line.
  set (l := if point_eqb (l_start l0) (l_end l0) then horizontal_line else l0).
  match goal with |- context [src_ParallelsIterator_next_parallel _ ?s0 ?sd] => set (S0 := s0); set (SD := sd) end.
  match goal with |- _ = match next_parallel _ ?p0 ?sd with _ => _ end => set (P0 := p0); set (SD' := sd) end.
  assert (HS : SD = SD') by (subst SD SD'; destruct so; reflexivity).
  assert (HP : ps_of S0 = P0).
  { subst S0 P0. unfold ps_of.
    cbn [ParallelsIterator_parallel_parameters ParallelsIterator_perpendicular_parameters ParallelsIterator_thickness_accumulator
         ParallelsIterator_thickness_threshold ParallelsIterator_flip ParallelsIterator_left ParallelsIterator_left_error
         ParallelsIterator_right ParallelsIterator_right_error ParallelsIterator_next_side ParallelsIterator_stroke_offset].
    destruct (bp_of_proj (src_BresenhamParameters_new l)) as (E1 & E2 & E3 & E4).
    destruct (bp_of_proj (src_BresenhamParameters_new (src_Line_perpendicular l))) as (F1 & F2 & F3 & F4).
    rewrite E2, E3, E4, F1. rewrite !src_bparams_new_eq. rewrite !Z.pow_2_r.
    reflexivity. }
  rewrite <- HP, <- HS, <- src_next_parallel_eq.
  destruct (src_ParallelsIterator_next_parallel np_fuel S0 SD) as [[t [pt e]]|]; reflexivity.
Qed.

Definition step_of (r : option (ParallelsIterator * option (Bresenham * ltype))) : step_result (bstate * ltype) :=
  match r with
  | None => Fuel_out
  | Some (_, None) => Done
  | Some (s, Some (b, t)) => Yield (bs_of b, t) (ps_of s)
  end.

Lemma src_parallels_next_eq s : step_of (src_ParallelsIterator_next np_fuel s) = parallels_next (ps_of s).
Proof.
  unfold src_ParallelsIterator_next, parallels_next. rewrite Z.pow_2_r.
  cbn [ps_of thick_thr thick_acc next_side].
  destruct (ParallelsIterator_thickness_threshold s <? _); [reflexivity|].
  rewrite <- src_next_parallel_eq.
  destruct (src_ParallelsIterator_next_parallel np_fuel s (ParallelsIterator_next_side s)) as [[t [pt e]]|]; [|reflexivity].
  cbn [option_map np_of fst snd]. cbv zeta.
  destruct pt as [q|q]; cbn [bpt_of]; unfold set_acc_side;
    cbn [ps_of p_offset next_side thick_acc perp_params ParallelsIterator_stroke_offset ParallelsIterator_next_side];
    destruct (ParallelsIterator_stroke_offset t); reflexivity.
Qed.

(* ---- line::Points (src/primitives/line/points.rs): driving the translated `next` yields the model's line_points ---- *)
Fixpoint src_line_points_run (n : nat) (s : line_Points) : list point :=
  match n with
  | O => []
  | Datatypes.S k =>
      match src_line_Points_next s with
      | (s', Some p) => p :: src_line_points_run k s'
      | (_, None) => []
      end
  end.

Lemma src_line_points_run_eq n : forall s extra,
  line_Points_points_remaining s = Z.of_nat n ->
  src_line_points_run (n + extra) s
  = bresenham_run (bp_of (line_Points_parameters s)) (bs_of (line_Points_bresenham s)) n.
Proof.
  induction n as [|n IH]; intros s extra Hr.
  - destruct extra; [reflexivity|]. cbn [Nat.add src_line_points_run bresenham_run].
    unfold src_line_Points_next. rewrite Hr. reflexivity.
  - cbn [Nat.add src_line_points_run bresenham_run]. unfold src_line_Points_next. rewrite Hr.
    replace (0 <? Z.of_nat (Datatypes.S n)) with true by (symmetry; apply Z.ltb_lt; lia).
    cbv beta iota zeta. cbn [line_Points_bresenham line_Points_parameters line_Points_points_remaining].
    pose proof (src_bnext_eq (line_Points_bresenham s) (line_Points_parameters s)) as E.
    destruct (src_Bresenham_next (line_Points_bresenham s) (line_Points_parameters s)) as [b' q].
    cbn [fst snd] in E. rewrite <- E. cbv beta iota zeta.
    cbn [line_Points_bresenham line_Points_parameters line_Points_points_remaining].
    f_equal. rewrite (IH _ extra); [reflexivity|].
    cbn [line_Points_points_remaining]. lia.
Qed.

Lemma src_line_points_eq l extra :
  i32_min <= px (l_start l) <= i32_max -> i32_min <= py (l_start l) <= i32_max ->
  i32_min <= px (l_end l) <= i32_max -> i32_min <= py (l_end l) <= i32_max ->
  src_line_points_run (Z.to_nat (major_length l) + extra) (src_line_Points_new l) = line_points l.
Proof.
  intros H1 H2 H3 H4. unfold line_points.
  rewrite src_line_points_run_eq.
  - unfold src_line_Points_new. cbv zeta. cbn [line_Points_parameters line_Points_bresenham].
    rewrite src_bparams_new_eq. reflexivity.
  - unfold src_line_Points_new. cbv zeta. cbn [line_Points_points_remaining].
    rewrite src_major_length_eq by assumption. rewrite Z2Nat.id; [reflexivity|].
    unfold major_length. lia.
Qed.

(* after the last point the iterator answers None and keeps doing so *)
Lemma src_line_points_next_none s :
  line_Points_points_remaining s = 0 -> src_line_Points_next s = (s, None).
Proof. intros H. unfold src_line_Points_next. rewrite H. reflexivity. Qed.
