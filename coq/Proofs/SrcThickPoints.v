(* translate/r2c tie, round 3: ThickPoints (src/primitives/line/thick_points.rs:213-251).  Driving the generated
   ThickPoints::next (a `loop` over the ParallelsIterator, generated as a Fixpoint over fuel) from ThickPoints::new(l, w)
   yields exactly the list Model/Thickline.v thick_points l w, for every per-call fuel above the number of parallels. *)
From EG Require Import Base.Prelude Base.Lemmas Base.Casts Model.Geometry Model.Style Model.Line Model.Thickline.
From EG Require Import Proofs.Thickline.
From EG Require Import Gen.SrcGeometry Gen.SrcCircle Gen.SrcJoin Gen.SrcLine Gen.SrcThick Proofs.SrcLine Proofs.SrcThick Proofs.SrcExtents.
Set Default Timeout 60.

Fixpoint src_thick_run (n : nat) (F : nat) (s : ThickPoints) : option (list point) :=
  match n with
  | O => Some []
  | Datatypes.S k =>
      match src_ThickPoints_next F s with
      | None => None
      | Some (_, None) => Some []
      | Some (s', Some p) => option_map (cons p) (src_thick_run k F s')
      end
  end.

Definition par_len (len : Z) (t : ltype) : Z := match t with LNormal => len | LExtra => len - 1 end.
Definition par_points (par : bparams) (len : Z) (bt : bstate * ltype) : list point :=
  bresenham_run par (fst bt) (Z.to_nat (par_len len (snd bt))).

Lemma parallels_next_par S a S' : parallels_next S = Yield a S' -> par_params S' = par_params S.
Proof.
  unfold parallels_next. destruct (thick_thr S <? _); [discriminate|].
  destruct (next_parallel np_fuel S (next_side S)) as [[[p e] s1]|] eqn:E; [|discriminate].
  apply next_parallel_par in E. destruct p; cbv zeta; intros [= _ <-]; unfold set_acc_side; cbn [par_params]; exact E.
Qed.

(* a call with points left in the current parallel *)
Lemma tp_next_emit F b len r it :
  0 < r ->
  src_ThickPoints_next (Datatypes.S F) (Build_ThickPoints b len r it)
  = Some (Build_ThickPoints (fst (src_Bresenham_next b (ParallelsIterator_parallel_parameters it))) len (r - 1) it,
          Some (snd (src_Bresenham_next b (ParallelsIterator_parallel_parameters it)))).
Proof.
  intros Hr. unfold src_ThickPoints_next. cbn [src_ThickPoints_next_loop1 ThickPoints_parallel_points_remaining].
  rewrite (proj2 (Z.ltb_lt 0 r) Hr). cbn [ThickPoints_parallel ThickPoints_parallel_length ThickPoints_parallel_points_remaining ThickPoints_iter].
  destruct (src_Bresenham_next b (ParallelsIterator_parallel_parameters it)) as [b' q]. reflexivity.
Qed.

Section Run.
Variable len : Z.
Hypothesis Hlen : 1 <= len.

(* what a call answers when the current parallel is used up: skip to the first parallel with points *)
Lemma tp_next_refill : forall ps F b it n,
  parallels_run n (ps_of it) = Some ps -> (length ps < F)%nat ->
  match src_ThickPoints_next F (Build_ThickPoints b len 0 it) with
  | None => False
  | Some (_, None) => flat_map (par_points (par_params (ps_of it)) len) ps = []
  | Some (s', Some q) =>
      exists b' r' it' ps' n',
        s' = Build_ThickPoints b' len r' it' /\ 0 <= r' /\
        parallels_run n' (ps_of it') = Some ps' /\ (length ps' < length ps)%nat /\
        par_params (ps_of it') = par_params (ps_of it) /\
        flat_map (par_points (par_params (ps_of it)) len) ps
        = q :: bresenham_run (par_params (ps_of it)) (bs_of b') (Z.to_nat r') ++ flat_map (par_points (par_params (ps_of it)) len) ps'
  end.
Proof.
  induction ps as [|x ps IH]; intros F b it n Hr HF.
  - destruct F as [|F]; [lia|]. destruct n as [|n]; [discriminate|].
    unfold src_ThickPoints_next. cbn [src_ThickPoints_next_loop1 ThickPoints_parallel_points_remaining ThickPoints_iter].
    change (0 <? 0) with false. cbv iota.
    change (src_ParallelsIterator_next F it) with (src_ParallelsIterator_next np_fuel it).
    pose proof (run_step n it [] Hr) as H1.
    destruct (src_ParallelsIterator_next np_fuel it) as [[s1 [y|]]|]; [|reflexivity|contradiction].
    destruct H1 as (? & Hx & _). discriminate.
  - destruct F as [|F]; [lia|]. destruct n as [|n]; [discriminate|].
    pose proof (run_step n it (x :: ps) Hr) as H1.
    pose proof (src_parallels_next_eq it) as Hstep.
    unfold src_ThickPoints_next. cbn [src_ThickPoints_next_loop1 ThickPoints_parallel_points_remaining ThickPoints_iter].
    change (0 <? 0) with false. cbv iota.
    change (src_ParallelsIterator_next F it) with (src_ParallelsIterator_next np_fuel it).
    destruct (src_ParallelsIterator_next np_fuel it) as [[s1 [[pb pt]|]]|]; [|discriminate H1|contradiction].
    destruct H1 as (ps1 & Hx & Hr1). injection Hx as -> ->.
    cbn [step_of] in Hstep. symmetry in Hstep. apply parallels_next_par in Hstep.
    cbn [ThickPoints_parallel ThickPoints_parallel_length ThickPoints_parallel_points_remaining ThickPoints_iter].
    cbn [flat_map].
    (* the new parallel: its length *)
    set (r1 := par_len len pt).
    assert (Eh : par_points (par_params (ps_of it)) len (item_of (pb, pt))
                 = bresenham_run (par_params (ps_of it)) (bs_of pb) (Z.to_nat r1)) by reflexivity.
    rewrite !Eh. clear Eh.
    assert (Er : (if ParallelLineType_eqb pt LExtra
                  then Build_ThickPoints pb len (len - 1) s1 else Build_ThickPoints pb len len s1)
                 = Build_ThickPoints pb len r1 s1) by (subst r1; destruct pt; reflexivity).
    rewrite Er. clear Er.
    assert (Hr1' : 0 <= r1) by (subst r1; destruct pt; cbn [par_len]; lia).
    destruct (Z.eq_dec r1 0) as [Z0|NZ].
    + (* an Extra parallel of a one-pixel line: nothing to emit, go on *)
      rewrite Z0. cbn [Z.to_nat bresenham_run app].
      specialize (IH F pb s1 n Hr1 ltac:(cbn [length] in HF; lia)).
      change (src_ThickPoints_next_loop1 F (Build_ThickPoints pb len 0 s1)) with (src_ThickPoints_next F (Build_ThickPoints pb len 0 s1)).
      rewrite <- Hstep.
      destruct (src_ThickPoints_next F (Build_ThickPoints pb len 0 s1)) as [[s' [q|]]|]; [| exact IH | exact IH].
      destruct IH as (b' & r' & it' & ps' & n' & E1 & E2 & E3 & E4 & E5 & E6).
      exists b', r', it', ps', n'. repeat split; try assumption; try lia; cbn [length]; lia.
    + (* the first point of the new parallel *)
      destruct F as [|F]; [cbn [length] in HF; lia|].
      change (src_ThickPoints_next_loop1 (Datatypes.S F) (Build_ThickPoints pb len r1 s1))
        with (src_ThickPoints_next (Datatypes.S F) (Build_ThickPoints pb len r1 s1)).
      rewrite tp_next_emit by lia.
      pose proof (src_bnext_eq pb (ParallelsIterator_parallel_parameters s1)) as Eb.
      destruct (src_Bresenham_next pb (ParallelsIterator_parallel_parameters s1)) as [b' q]. cbn [fst snd] in Eb |- *.
      exists b', (r1 - 1), s1, ps1, n. repeat split; try assumption; try lia.
      * cbn [length]. lia.
      * replace (Z.to_nat r1) with (Datatypes.S (Z.to_nat (r1 - 1))) by lia.
        cbn [bresenham_run]. change (bp_of (ParallelsIterator_parallel_parameters s1)) with (par_params (ps_of s1)) in Eb.
        rewrite Hstep in Eb. rewrite <- Eb. reflexivity.
Qed.
End Run.

Lemma thick_run_eq len : 1 <= len -> forall K F b r it ps n,
  0 <= r -> parallels_run n (ps_of it) = Some ps -> (length ps + 1 < F)%nat ->
  src_thick_run K F (Build_ThickPoints b len r it)
  = Some (firstn K (bresenham_run (par_params (ps_of it)) (bs_of b) (Z.to_nat r)
                    ++ flat_map (par_points (par_params (ps_of it)) len) ps)).
Proof.
  intros Hlen. induction K as [|K IH]; intros F b r it ps n Hr Hp HF; [reflexivity|].
  cbn [src_thick_run].
  destruct (Z.eq_dec r 0) as [-> | NZ].
  - pose proof (tp_next_refill len Hlen ps F b it n Hp ltac:(lia)) as H.
    destruct (src_ThickPoints_next F (Build_ThickPoints b len 0 it)) as [[s' [q|]]|]; [| |contradiction].
    + destruct H as (b' & r' & it' & ps' & n' & -> & H0 & Hp' & HF' & Epar & Eout).
      cbn [Z.to_nat bresenham_run app]. rewrite Eout. cbn [firstn].
      rewrite (IH F b' r' it' ps' n' H0 Hp') by lia.
      rewrite Epar. reflexivity.
    + cbn [Z.to_nat bresenham_run app]. rewrite H. reflexivity.
  - destruct F as [|F]; [lia|]. rewrite tp_next_emit by lia.
    pose proof (src_bnext_eq b (ParallelsIterator_parallel_parameters it)) as Eb.
    destruct (src_Bresenham_next b (ParallelsIterator_parallel_parameters it)) as [b' q]. cbn [fst snd] in Eb |- *.
    replace (Z.to_nat r) with (Datatypes.S (Z.to_nat (r - 1))) by lia.
    cbn [bresenham_run]. change (bp_of (ParallelsIterator_parallel_parameters it)) with (par_params (ps_of it)) in Eb.
    rewrite <- Eb. cbn [app firstn].
    rewrite (IH (Datatypes.S F) b' (r - 1) it ps n ltac:(lia) Hp HF). reflexivity.
Qed.

Lemma src_thick_new_eq F l w s0 :
  src_ParallelsIterator_new np_fuel l w SONone = Some s0 ->
  src_ThickPoints_new F l w = Some (Build_ThickPoints (src_Bresenham_new (l_start l)) (src_major_length l) 0 s0).
Proof.
  intros H. unfold src_ThickPoints_new. cbv zeta. rewrite src_new_fuel_irrelevant, H. reflexivity.
Qed.

(* the generated iterator against the list of parallels *)
Lemma src_thick_points_run l w S0 ps n F K :
  i32_min <= px (l_start l) <= i32_max -> i32_min <= py (l_start l) <= i32_max ->
  i32_min <= px (l_end l) <= i32_max -> i32_min <= py (l_end l) <= i32_max ->
  parallels_new l w SONone = Some S0 -> parallels_run n S0 = Some ps -> (length ps + 1 < F)%nat ->
  exists s0, src_ThickPoints_new F l w = Some s0 /\
             src_thick_run K F s0 = Some (firstn K (flat_map (par_points (bparams_new (eff_line l)) (major_length l)) ps)).
Proof.
  intros H1 H2 H3 H4 En Er HF.
  pose proof (src_parallels_new_eq l w SONone) as Hn. rewrite En in Hn.
  destruct (src_ParallelsIterator_new np_fuel l w SONone) as [s0|] eqn:Es; [|discriminate Hn].
  assert (Hs0 : ps_of s0 = S0) by (cbn [option_map] in Hn; congruence).
  pose proof (parallels_new_par l w SONone S0 En) as Hpar. rewrite <- Hs0 in Hpar, Er.
  exists (Build_ThickPoints (src_Bresenham_new (l_start l)) (src_major_length l) 0 s0).
  split; [apply src_thick_new_eq; exact Es|].
  rewrite (src_major_length_eq l H1 H2 H3 H4).
  assert (Hml : 1 <= major_length l) by (unfold major_length; lia).
  rewrite (thick_run_eq (major_length l) Hml K F (src_Bresenham_new (l_start l)) 0 s0 ps n ltac:(lia) Er HF).
  rewrite Hpar. reflexivity.
Qed.

(* thick_points l w is, by definition, that flat_map over `parallels l w SONone` *)
Lemma thick_points_unfold l w S0 ps :
  parallels_new l w SONone = Some S0 -> parallels_run (parallels_fuel l w) S0 = Some ps ->
  thick_points l w = Some (flat_map (par_points (bparams_new (eff_line l)) (major_length l)) ps).
Proof. intros En Er. unfold thick_points, parallels. rewrite En, Er. reflexivity. Qed.
