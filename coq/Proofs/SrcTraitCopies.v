(* translate/r2c tie: the TRAIT impls of Rectangle in the main crate (src/primitives/rectangle/mod.rs: ContainsPoint::contains,
   OffsetOutline::offset, Transform::translate / translate_mut) are separate copies of the inherent methods of core; they are
   translated on their own and equal the same model functions.  And for every translated Transform impl the in-place half
   translate_mut (`-> &mut Self`: the generated definition returns the new self) equals translate. *)
From EG Require Import Base.Prelude Base.Casts Model.Geometry Model.Rrect Model.Circle Model.Ellipse Model.Line.
From EG Require Import Gen.SrcGeometry Gen.SrcCircle Gen.SrcLine Gen.SrcRrect Gen.SrcRrect2 Gen.SrcTraitCopies.
From EG Require Import Proofs.SrcGeometry.
Set Default Timeout 60.

Lemma src_trait_contains_eq r p : size_i32 (sz r) -> src_Rectangle_trait_contains r p = contains r p.
Proof.
  intros H. unfold src_Rectangle_trait_contains, contains. rewrite src_Rectangle_bottom_right_eq by exact H.
  reflexivity.
Qed.

Lemma src_trait_translate_eq r d : src_Rectangle_translate r d = translate_rect r d.
Proof. reflexivity. Qed.

Lemma src_point_add_assign_add a b : src_Point_add_assign a b = src_Point_add a b.
Proof. reflexivity. Qed.

Lemma src_trait_translate_mut_eq r d : src_Rectangle_trait_translate_mut r d = translate_rect r d.
Proof. reflexivity. Qed.

Lemma src_rect_translate_mut_is_translate r d : src_Rectangle_trait_translate_mut r d = src_Rectangle_translate r d.
Proof. reflexivity. Qed.
Lemma src_circle_translate_mut_is_translate c d : src_Circle_translate_mut c d = src_Circle_translate c d.
Proof. reflexivity. Qed.
Lemma src_ellipse_translate_mut_is_translate e d : src_Ellipse_translate_mut e d = src_Ellipse_translate e d.
Proof. reflexivity. Qed.
Lemma src_line_translate_mut_is_translate l d : src_Line_translate_mut l d = src_Line_translate l d.
Proof. reflexivity. Qed.
Lemma src_rrect_translate_mut_is_translate r d : src_RoundedRectangle_translate_mut r d = src_RoundedRectangle_translate r d.
Proof. reflexivity. Qed.
Lemma src_polyline_translate_mut_is_translate p d : src_Polyline_translate_mut p d = src_Polyline_translate p d.
Proof. reflexivity. Qed.

(* round 5: the by-value halves in closed form (Polyline: the model's polyline_translate) *)
Lemma src_circle_translate_eq c d : src_Circle_translate c d = Circ (padd (c_tl c) d) (c_d c).
Proof. reflexivity. Qed.
Lemma src_ellipse_translate_eq e d : src_Ellipse_translate e d = Ell (padd (e_tl e) d) (e_sz e).
Proof. reflexivity. Qed.
Lemma src_polyline_translate_eq p d :
  src_Polyline_translate p d = Build_Polyline (padd (Polyline_translate p) d) (Polyline_vertices p).
Proof. reflexivity. Qed.
