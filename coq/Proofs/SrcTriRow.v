(* translate/r2c tie, round 5 (5): the run of the generated ScanlineIntersections::next against JoinTri.jt_row itself (audit3 B5: the
   round-4 theorem compared with a list built from src_Scanline_is_empty).  `generate_lines` (a `from_fn` generator, outside the
   subset) is NOT translated: it is the hypothesis "the LineConfig holds the lines jt_row computes" - the two edge scanlines es of
   jt_edge_intersections as first / second (an absent one as an empty scanline) and jt_row's internal line.  Under it the items
   the generated `next` yields, converted field by field (sl_of, pt_of), are exactly the row of the model. *)
From EG Require Import Base.Prelude Base.Casts Model.Geometry Model.Line Model.Thickline Model.Sectormodel Model.Join Model.JoinTri.
From EG Require Import Gen.SrcGeometry Gen.SrcJoin Gen.SrcCircle Gen.SrcLine Gen.SrcScanline Gen.SrcTriangle Gen.SrcSector Gen.SrcTriScan.
From EG Require Import Proofs.SrcScanline Proofs.SrcTriScan.
Set Default Timeout 60.

Definition pt_of (t : Sectormodel.point_type) : JoinTri.point_type := match t with PtStroke => PStroke | PtFill => PFill end.
Definition item_of (x : Scanline * Sectormodel.point_type) : scanline * JoinTri.point_type := (sl_of (fst x), pt_of (snd x)).

(* jt_row's internal line, as a function of the edge scanlines (JoinTri.jt_row, non-collapsed branch) *)
Definition jt_internal (t : tri3) (has_fill : bool) (y : Z) (es : list scanline) : scanline :=
  if has_fill then
    match es with
    | [f; s] => SL y (Z.min (sl_x1 f) (sl_x1 s)) (Z.max (sl_x0 f) (sl_x0 s))
    | [] => jt_scanline_intersection t y
    | _ => sl_new_empty y
    end
  else sl_new_empty y.

Lemma jt_row_not_collapsed t w so hf y :
  jt_row t w so hf false y =
  match jt_edge_intersections t w so y with
  | None => None
  | Some es => Some ((if sl_is_empty (jt_internal t hf y es) then [] else [(jt_internal t hf y es, PFill)]) ++ map (fun s => (s, PStroke)) es)
  end.
Proof. reflexivity. Qed.

Lemma nonempty_item l ty : map item_of (nonempty l ty) = if sl_is_empty (sl_of l) then [] else [(sl_of l, pt_of ty)].
Proof. unfold nonempty. rewrite src_sl_is_empty_eq. destruct (sl_is_empty (sl_of l)); reflexivity. Qed.

(* the stroke part: the non-empty ones of (first, second) are the filtered list of the model *)
Lemma strokes_filter f s :
  map item_of (nonempty f PtStroke ++ nonempty s PtStroke)
  = map (fun x => (x, PStroke)) (filter (fun x => negb (sl_is_empty x)) [sl_of f; sl_of s]).
Proof.
  rewrite map_app, !nonempty_item. cbn [filter]. destruct (sl_is_empty (sl_of f)), (sl_is_empty (sl_of s)); reflexivity.
Qed.

Theorem src_tri_row_is_jt_row t w so hf y es f s i tri sw sso hfl col n : (4 <= n)%nat ->
  jt_edge_intersections t w so y = Some es ->
  filter (fun x => negb (sl_is_empty x)) [sl_of f; sl_of s] = es ->
  sl_of i = jt_internal t hf y es ->
  jt_row t w so hf false y
  = Some (map item_of (src_tri_si_drive n (Build_ScanlineIntersections (Build_LineConfig f s i PtFill) tri sw sso hfl col))).
Proof.
  intros Hn He Hf Hi. rewrite jt_row_not_collapsed, He. f_equal.
  rewrite (src_tri_si_next_run f s i PtFill tri sw sso hfl col n Hn).
  rewrite map_app, nonempty_item, strokes_filter, Hf, Hi. reflexivity.
Qed.

(* the collapsed triangle: one stroke line, the scanline intersection of the triangle *)
Theorem src_tri_row_collapsed_is_jt_row t w so hf y f s i tri sw sso hfl col n : (4 <= n)%nat ->
  sl_is_empty (sl_of f) = true -> sl_is_empty (sl_of s) = true ->
  sl_of i = jt_scanline_intersection t y ->
  jt_row t w so hf true y
  = Some (map item_of (src_tri_si_drive n (Build_ScanlineIntersections (Build_LineConfig f s i PtStroke) tri sw sso hfl col))).
Proof.
  intros Hn Hf Hs Hi. unfold jt_row. f_equal.
  rewrite (src_tri_si_next_run f s i PtStroke tri sw sso hfl col n Hn).
  rewrite !map_app, !nonempty_item, Hi, Hf, Hs. rewrite app_nil_r. reflexivity.
Qed.
