(* translate/r2c tie, round 4 (1c): the per-row state of the triangle ScanlineIntersections
   (src/primitives/triangle/scanline_intersections.rs) and its Iterator::next: pulling `next` from a state whose lines are
   (first, second, internal, internal_type) yields the non-empty ones among internal (with its type), first (Stroke),
   second (Stroke), in this order - the shape of one row of JoinTri.jt_row - and then None. *)
From EG Require Import Base.Prelude Base.Casts Model.Geometry Model.Line Model.Thickline Model.Sectormodel Model.Join.
From EG Require Import Gen.SrcGeometry Gen.SrcJoin Gen.SrcCircle Gen.SrcLine Gen.SrcScanline Gen.SrcTriangle Gen.SrcSector Gen.SrcTriScan.
Set Default Timeout 60.

Fixpoint src_tri_si_drive (n : nat) (s : ScanlineIntersections) : list (Scanline * point_type) :=
  match n with
  | O => []
  | Datatypes.S k =>
      match src_ScanlineIntersections_next s with
      | (s', Some x) => x :: src_tri_si_drive k s'
      | (_, None) => []
      end
  end.

Definition nonempty (l : Scanline) (ty : point_type) : list (Scanline * point_type) :=
  if src_Scanline_is_empty l then [] else [(l, ty)].

Lemma try_take_spec l :
  src_Scanline_try_take l = if src_Scanline_is_empty l then (l, None) else (Build_Scanline (Scanline_y l) (0, 0), Some l).
Proof. unfold src_Scanline_try_take. destruct (src_Scanline_is_empty l); reflexivity. Qed.

Lemma taken_is_empty y : src_Scanline_is_empty (Build_Scanline y (0, 0)) = true.
Proof. reflexivity. Qed.

Theorem src_tri_si_next_run f s i ty t w so hf col n : (4 <= n)%nat ->
  src_tri_si_drive n (Build_ScanlineIntersections (Build_LineConfig f s i ty) t w so hf col)
  = nonempty i ty ++ nonempty f PtStroke ++ nonempty s PtStroke.
Proof.
  intros Hn. destruct n as [|[|[|[|n]]]]; try lia. unfold nonempty.
  cbn [src_tri_si_drive]. unfold src_ScanlineIntersections_next.
  cbn [ScanlineIntersections_lines LineConfig_internal LineConfig_first LineConfig_second LineConfig_internal_type ScanlineIntersections_triangle ScanlineIntersections_stroke_width ScanlineIntersections_stroke_offset ScanlineIntersections_has_fill ScanlineIntersections_is_collapsed].
  rewrite !try_take_spec.
  destruct (src_Scanline_is_empty i) eqn:Ei; destruct (src_Scanline_is_empty f) eqn:Ef; destruct (src_Scanline_is_empty s) eqn:Es;
    cbn [ScanlineIntersections_lines LineConfig_internal LineConfig_first LineConfig_second LineConfig_internal_type ScanlineIntersections_triangle ScanlineIntersections_stroke_width ScanlineIntersections_stroke_offset ScanlineIntersections_has_fill ScanlineIntersections_is_collapsed app];
    rewrite ?try_take_spec, ?Ei, ?Ef, ?Es, ?taken_is_empty;
    cbn [ScanlineIntersections_lines LineConfig_internal LineConfig_first LineConfig_second LineConfig_internal_type ScanlineIntersections_triangle ScanlineIntersections_stroke_width ScanlineIntersections_stroke_offset ScanlineIntersections_has_fill ScanlineIntersections_is_collapsed app];
    rewrite ?try_take_spec, ?Ei, ?Ef, ?Es, ?taken_is_empty;
    cbn [ScanlineIntersections_lines LineConfig_internal LineConfig_first LineConfig_second LineConfig_internal_type ScanlineIntersections_triangle ScanlineIntersections_stroke_width ScanlineIntersections_stroke_offset ScanlineIntersections_has_fill ScanlineIntersections_is_collapsed app];
    rewrite ?try_take_spec, ?Ei, ?Ef, ?Es, ?taken_is_empty;
    cbn [ScanlineIntersections_lines LineConfig_internal LineConfig_first LineConfig_second LineConfig_internal_type ScanlineIntersections_triangle ScanlineIntersections_stroke_width ScanlineIntersections_stroke_offset ScanlineIntersections_has_fill ScanlineIntersections_is_collapsed app];
    rewrite ?try_take_spec, ?Ei, ?Ef, ?Es, ?taken_is_empty;
    try reflexivity.
Qed.
