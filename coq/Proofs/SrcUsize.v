(* translate/r2c tie, round 5 (4): the width of usize.  The generated definitions that test against usize::MAX (`checked_*` /
   `saturating_*` on usize, and their callers) take the width as the implicit instance of Casts.UsizeW; the model takes it as
   Rawdata.Usize (instances usize16 / usize32 / usize64).  This instance identifies the two, so that the src theorems are stated
   for every width the model covers. *)
From EG Require Import Base.Prelude Base.Casts Model.Rawdata.
#[global] Instance usize_w_of {U : Usize} : Casts.UsizeW := {| Casts.usize_max_w := usize_max |}.
