(* Proofs about Rectangle as a primitive (points vs contains, C05) and about Model/Styledrect.v (C06, C01(b), C02, C07). *)
From EG Require Import Base.Prelude Base.Lemmas Model.Geometry Model.Style Model.Circle Model.Styledrect
  Proofs.Geometry Proofs.Scanline Proofs.Circle.
From Coq Require Import ZifyBool.

Ltac Zify.zify_post_hook ::= Z.to_euclidean_division_equations.
Set Default Timeout 60.

Lemma box_points_zero r : is_zero_sized r = true -> size_nonneg r -> box_points r = [].
Proof.
  intros E Hn. destruct (box_points r) as [|p l] eqn:E2; [reflexivity|exfalso].
  assert (In p (box_points r)) as Hin by (rewrite E2; left; reflexivity).
  apply In_row_major in Hin. destr_rects. unf. lia.
Qed.

Theorem rect_points_spec r : rect_ok r -> points r = filter (contains r) (box_points (rect_bbox r)).
Proof.
  intros H. unfold rect_bbox. rewrite points_row_major by assumption.
  rewrite filter_all_true by (intros p Hp; apply In_box_points; exact Hp).
  destruct (is_zero_sized r) eqn:E; [|reflexivity].
  symmetry. apply box_points_zero; [assumption|]. destr_rects. unf. lia.
Qed.

Theorem rect_contains_in_bbox r p : contains r p = true -> contains (rect_bbox r) p = true.
Proof. intros H. exact H. Qed.

(* ================= styled rectangle (rectangle/styled.rs, solid stroke) ================= *)
From EG Require Import Proofs.Circlestyled.

Definition rect_sok (r : rect) : Prop := point_sok (tl r) /\ size_sok (sz r).

(* ---- Rectangle::offset, one dimension at a time ---- *)
Definition off_ext (e n : Z) : Z := if 0 <=? n then sat_add_u32 e (n * 2) else sat_sub_u32 e ((- n) * 2).
Definition off_start (s e n : Z) : Z := s + sat_sub_u32 e 1 / 2 - sat_sub_u32 (off_ext e n) 1 / 2.

Lemma offset_1d r n :
  offset r n = R (P (off_start (px (tl r)) (sw (sz r)) n) (off_start (py (tl r)) (sh (sz r)) n))
                 (S (off_ext (sw (sz r)) n) (off_ext (sh (sz r)) n)).
Proof.
  unfold offset, with_center, center, center_offset, psub_size, padd_size, size_sat_sub, size_sat_add, off_start, off_ext.
  destruct (0 <=? n); reflexivity.
Qed.

(* ---- the border arithmetic of draw_styled, one dimension at a time (styled.rs:240-283) ---- *)
Definition b_top (W Se : Z) : Z := Z.min W (Se / 2).
Definition b_bot (W Se : Z) : Z := Z.min W (Se - b_top W Se).
Definition b_boty (W Se : Z) : Z := sat_sub_u32 Se (b_bot W Se).
Definition b_left (W Se : Z) : Z := Z.min (W * 2) (Se + 1) / 2.
Definition b_rightx (W Se : Z) : Z := sat_sub_u32 Se (b_left W Se).

Definition rect_borders (sa : rect) (W Fh sc : Z) : list fill_call :=
  let Sx := px (tl sa) in let Sy := py (tl sa) in let Sw := sw (sz sa) in let Sh := sh (sz sa) in
  [(R (tl sa) (S Sw (b_top W Sh)), sc); (R (P (Sx + 0) (Sy + b_boty W Sh)) (S Sw (b_bot W Sh)), sc)] ++
  (if 0 <? Fh
   then [(R (P (Sx + 0) (Sy + b_top W Sh)) (S (b_left W Sw) Fh), sc);
         (R (P (Sx + 0 + b_rightx W Sw) (Sy + b_top W Sh + 0)) (S (b_left W Sw) Fh), sc)]
   else []).

Lemma rect_draw_styled_eq r st :
  rect_draw_styled r st =
  (match fill_color st with Some fc => [(rect_fill_area r st, fc)] | None => [] end) ++
  match effective_stroke_color st with
  | None => []
  | Some sc => rect_borders (rect_stroke_area r st) (stroke_width st) (sh (sz (rect_fill_area r st))) sc
  end.
Proof. reflexivity. Qed.

Section OneDim.
  Variables (s e out ins : Z).
  Hypothesis He : 0 <= e <= sbound.
  Hypothesis Hout : 0 <= out <= sbound.
  Hypothesis Hins : 0 <= ins <= sbound.
  Let S0 := off_start s e out.
  Let Se := off_ext e out.
  Let F0 := off_start s e (- ins).
  Let Fe := off_ext e (- ins).
  Let W := ins + out.

  Lemma dim_forms :
    Se = e + 2 * out /\ Fe = Z.max (e - 2 * ins) 0 /\
    (1 <= e -> S0 = s - out) /\ (2 * ins < e -> F0 = s + ins).
  Proof.
    subst S0 Se F0 Fe W. unfold off_start, off_ext, sat_add_u32, sat_sub_u32, u32_max, sbound in *.
    destruct (0 <=? out) eqn:E1, (0 <=? - ins) eqn:E2; lia.
  Qed.

  Lemma dim_basic : 0 <= Se /\ 0 <= Fe /\ (e = 0 -> Fe = 0).
  Proof. destruct dim_forms as (E1 & E2 & _). lia. Qed.

  (* the fill area has an extent in this dimension: borders of full width W on both sides of it *)
  Lemma dim_open : 0 < Fe ->
    b_top W Se = W /\ b_bot W Se = W /\ b_boty W Se = Se - W /\ b_left W Se = W /\ b_rightx W Se = Se - W /\
    S0 + W = F0 /\ F0 + Fe = S0 + Se - W.
  Proof.
    destruct dim_forms as (E1 & E2 & E3 & E4). intros H.
    assert (2 * ins < e) as Hi by lia. rewrite E3, E4 by lia. rewrite E1, E2 in *. clear E1 E2 E3 E4.
    subst W. clearbody S0 Se F0 Fe.
    assert (b_top (ins + out) (e + 2 * out) = ins + out) as Et by (unfold b_top; lia).
    assert (b_bot (ins + out) (e + 2 * out) = ins + out) as Eb by (unfold b_bot; rewrite Et; lia).
    assert (b_left (ins + out) (e + 2 * out) = ins + out) as El by (unfold b_left; lia).
    unfold b_boty, b_rightx. rewrite Et, Eb, El. unfold sat_sub_u32. lia.
  Qed.

  (* the fill area is collapsed in this dimension: the two borders together cover the stroke area's extent *)
  Lemma dim_closed : Fe = 0 ->
    0 <= b_top W Se /\ 0 <= b_bot W Se /\ b_boty W Se <= b_top W Se /\ b_boty W Se + b_bot W Se = Se /\
    0 <= b_left W Se /\ b_rightx W Se <= b_left W Se /\ (0 < W -> b_rightx W Se + b_left W Se = Se) /\ 0 <= b_rightx W Se
    /\ 0 <= b_boty W Se /\ b_top W Se <= Se /\ b_left W Se <= Se.
  Proof.
    destruct dim_forms as (E1 & E2 & _). intros H.
    assert (e <= 2 * ins) as Hi by lia. rewrite E1. clear E1 E2 H. subst W. clearbody S0 Se F0 Fe.
    set (T := e + 2 * out). assert (0 <= T <= 2 * (ins + out)) as HT by lia. clearbody T.
    set (V := ins + out) in *. assert (0 <= V) as HV by lia. clearbody V. clear - HT HV.
    assert (b_top V T = T / 2) as Et by (unfold b_top; lia).
    assert (b_bot V T = T - T / 2) as Eb by (unfold b_bot; rewrite Et; lia).
    unfold b_boty, b_rightx. rewrite Et, Eb. unfold sat_sub_u32, b_left. lia.
  Qed.
End OneDim.

Lemma contains_b r p :
  contains r p = (px (tl r) <=? px p) && (px p <? px (tl r) + sw (sz r)) && (py (tl r) <=? py p) && (py p <? py (tl r) + sh (sz r)).
Proof. apply eq_true_iff_eq. rewrite contains_spec. lia. Qed.

Ltac rect_cases :=
  repeat match goal with |- context [if ?b then _ else _] => destruct b eqn:? end; try reflexivity; exfalso; lia.

(* C06 for the rectangle: the fill rectangle and the (up to) four border rectangles tile exactly
   fill area / stroke area minus fill area, for every stroke width (also wider than the rectangle) *)
Theorem rect_styled_spec r st p :
  rect_sok r -> style_ok st -> stroke_kind st = Solid ->
  render (rect_draw_styled r st) p =
  styled_map (contains (rect_fill_area r st)) (contains (rect_stroke_area r st)) st p.
Proof.
  intros [Hp [Hw Hh]] Hs Hk.
  destruct (stroke_split st Hs) as [Hsum _]. destruct (offsets_range st Hs) as (E1 & R1 & R2 & E2). rewrite Hk in E2.
  rewrite rect_draw_styled_eq. unfold rect_stroke_area, rect_fill_area, styled_map, effective_stroke_color.
  rewrite E1, E2, !offset_1d.
  set (out := outside_stroke_width st) in *. set (ins := inside_stroke_width st) in *.
  replace (stroke_width st) with (ins + out) by lia.
  pose proof (dim_basic (px (tl r)) (sw (sz r)) out ins Hw R1 R2) as Bx.
  pose proof (dim_open (px (tl r)) (sw (sz r)) out ins Hw R1 R2) as Ox.
  pose proof (dim_closed (px (tl r)) (sw (sz r)) out ins Hw R1 R2) as Cx.
  pose proof (dim_basic (py (tl r)) (sh (sz r)) out ins Hh R1 R2) as By.
  pose proof (dim_open (py (tl r)) (sh (sz r)) out ins Hh R1 R2) as Oy.
  pose proof (dim_closed (py (tl r)) (sh (sz r)) out ins Hh R1 R2) as Cy.
  cbv zeta in *.
  set (Sx := off_start (px (tl r)) (sw (sz r)) out) in *. set (Sw := off_ext (sw (sz r)) out) in *.
  set (Fx := off_start (px (tl r)) (sw (sz r)) (- ins)) in *. set (Fw := off_ext (sw (sz r)) (- ins)) in *.
  set (Sy := off_start (py (tl r)) (sh (sz r)) out) in *. set (Sh := off_ext (sh (sz r)) out) in *.
  set (Fy := off_start (py (tl r)) (sh (sz r)) (- ins)) in *. set (Fh := off_ext (sh (sz r)) (- ins)) in *.
  set (W := ins + out) in *.
  clearbody Sx Sw Fx Fw Sy Sh Fy Fh W. clear Hp Hw Hh Hs Hk Hsum E1 E2 R1 R2.
  destruct p as [a b]. unfold rect_borders. cbn [tl sz px py sw sh].
  destruct (0 <? Fh) eqn:EF.
  - assert (0 < Fh) as HF by lia. specialize (Oy HF). clear Cy.
    destruct (Z_lt_le_dec 0 Fw) as [HFw|HFw]; [specialize (Ox HFw); clear Cx|assert (Fw = 0) as HFw0 by lia; specialize (Cx HFw0); clear Ox];
    destruct (stroke_color st) as [sc|], (fill_color st) as [fc|], (0 <? W) eqn:EW;
    unfold render; cbn [app fold_left fst snd]; rewrite ?contains_b; cbn [tl sz px py sw sh]; rect_cases.
  - assert (Fh = 0) as HF by lia. specialize (Cy HF). clear Oy.
    destruct (Z_lt_le_dec 0 Fw) as [HFw|HFw]; [specialize (Ox HFw); clear Cx|assert (Fw = 0) as HFw0 by lia; specialize (Cx HFw0); clear Ox];
    destruct (stroke_color st) as [sc|], (fill_color st) as [fc|], (0 <? W) eqn:EW;
    unfold render; cbn [app fold_left fst snd]; rewrite ?contains_b; cbn [tl sz px py sw sh]; rect_cases.
Qed.

(* ---- the two areas of a rectangle ---- *)
Lemma rect_sok_ok r : rect_sok r -> rect_ok r.
Proof. intros [[? ?] [? ?]]. unfold rect_ok, point_ok, size_ok, sbound, bound in *. lia. Qed.

Lemma rect_offset_ok r n : rect_sok r -> - sbound <= n <= sbound -> rect_ok (offset r n).
Proof.
  intros Hr Hn. destruct r as [[x y] [w h]]. unfold rect_sok, point_sok, size_sok, sbound in *. unf.
  destruct (0 <=? n) eqn:E; cbn [tl sz px py sw sh]; lia.
Qed.

Lemma rect_areas_ok r st :
  rect_sok r -> style_ok st -> rect_ok (rect_stroke_area r st) /\ rect_ok (rect_fill_area r st).
Proof.
  intros Hr Hs. destruct (offsets_range st Hs) as (E1 & R1 & R2 & E2). unfold rect_stroke_area, rect_fill_area.
  rewrite E1, E2. split; apply rect_offset_ok; try assumption; destruct (stroke_kind st); unfold sbound in *; lia.
Qed.

Lemma rect_fill_sub_stroke r st p :
  rect_sok r -> style_ok st -> stroke_kind st = Solid ->
  contains (rect_fill_area r st) p = true -> contains (rect_stroke_area r st) p = true.
Proof.
  intros [Hp [Hw Hh]] Hs Hk. destruct (offsets_range st Hs) as (E1 & R1 & R2 & E2). rewrite Hk in E2.
  unfold rect_stroke_area, rect_fill_area. rewrite E1, E2, !offset_1d, !contains_spec. cbn [tl sz px py sw sh].
  pose proof (dim_open (px (tl r)) (sw (sz r)) _ _ Hw R1 R2) as Ox.
  pose proof (dim_open (py (tl r)) (sh (sz r)) _ _ Hh R1 R2) as Oy. cbv zeta in *.
  intros [H1 H2]. specialize (Ox ltac:(lia)). specialize (Oy ltac:(lia)). lia.
Qed.

(* ---- pixels() of the styled rectangle ---- *)
Theorem rect_pixels_spec r st p :
  rect_sok r -> style_ok st -> stroke_kind st = Solid ->
  last_write (rect_styled_pixels r st) p =
  styled_map (contains (rect_fill_area r st)) (contains (rect_stroke_area r st)) st p.
Proof.
  intros Hr Hs Hk. destruct (rect_areas_ok r st Hr Hs) as [HA HB].
  pose proof (rect_fill_sub_stroke r st p Hr Hs Hk) as Hsub.
  assert (Hw0 : (0 <? stroke_width st) = false -> rect_stroke_area r st = rect_fill_area r st).
  { intros E. assert (stroke_width st = 0) as Ew by (unfold style_ok in Hs; lia).
    unfold rect_stroke_area, rect_fill_area. destruct (offsets_zero st Ew) as [-> ->]. reflexivity. }
  assert (Hin : forall c, In (p, c) (rect_styled_pixels r st) <->
            is_transparent st = false /\ contains (rect_stroke_area r st) p = true /\
            (if contains (rect_fill_area r st) p then fill_color st else stroke_color st) = Some c).
  { intros c. unfold rect_styled_pixels. rewrite in_flat_map. split.
    - intros (q & Hq & Hc). destruct (is_transparent st); [destruct Hq|]. cbn [negb] in Hq.
      apply points_spec in Hq; [|assumption].
      destruct (if contains (rect_fill_area r st) q then fill_color st else stroke_color st) as [c'|] eqn:E; [|destruct Hc].
      destruct Hc as [Hc|[]]. inversion Hc; subst. auto.
    - intros (Ht & HS & Hc). exists p. rewrite Ht. cbn [negb]. split; [apply points_spec; assumption|].
      rewrite Hc. left. reflexivity. }
  apply last_write_char.
  - intros c Hc. apply Hin in Hc. destruct Hc as (Ht & HS & Hc). unfold styled_map.
    destruct (contains (rect_fill_area r st) p) eqn:EF; [exact Hc|]. rewrite HS.
    destruct (0 <? stroke_width st) eqn:EW; [exact Hc|]. rewrite Hw0 in HS by reflexivity. congruence.
  - unfold styled_map. intros Hn.
    destruct (contains (rect_fill_area r st) p) eqn:EF.
    + destruct (fill_color st) as [fc|] eqn:Efc; [|congruence]. exists fc. apply Hin. rewrite ?EF.
      split; [unfold is_transparent; rewrite Efc; apply andb_false_r|]. split; [apply Hsub; reflexivity|reflexivity].
    + destruct (contains (rect_stroke_area r st) p) eqn:ES; [|cbn in Hn; congruence].
      destruct (0 <? stroke_width st) eqn:EW; [|cbn in Hn; congruence].
      destruct (stroke_color st) as [sc|] eqn:Esc; [|cbn in Hn; congruence]. exists sc. apply Hin. rewrite ?EF, ?ES.
      split; [|split; reflexivity]. unfold is_transparent. rewrite Esc.
      assert ((stroke_width st =? 0) = false) as -> by lia. reflexivity.
Qed.

(* pixels() yields no point twice *)
Lemma flat_map_option_nodup {A B} (g : A -> list (A * B)) l :
  (forall a, g a = [] \/ exists b, g a = [(a, b)]) -> NoDup l -> NoDup (map fst (flat_map g l)).
Proof.
  intros Hg. induction 1 as [|a l Hnin Hnd IH]; cbn [flat_map map]; [constructor|].
  rewrite map_app. destruct (Hg a) as [->|[b ->]]; cbn [map app fst]; [exact IH|].
  constructor; [|exact IH]. intros Hin. apply Hnin. apply in_map_iff in Hin. destruct Hin as ([q c] & Hq & Hin).
  cbn [fst] in Hq. subst q. apply in_flat_map in Hin. destruct Hin as (a' & Ha' & Hin).
  destruct (Hg a') as [E|[b' E]]; rewrite E in Hin; [destruct Hin|]. destruct Hin as [Hin|[]]. inversion Hin; subst. exact Ha'.
Qed.

Theorem rect_pixels_nodup r st :
  rect_sok r -> style_ok st -> NoDup (map fst (rect_styled_pixels r st)).
Proof.
  intros Hr Hs. destruct (rect_areas_ok r st Hr Hs) as [HA HB]. unfold rect_styled_pixels.
  apply flat_map_option_nodup.
  - intros q. destruct (if contains (rect_fill_area r st) q then fill_color st else stroke_color st) as [c|];
      [right; exists c; reflexivity|left; reflexivity].
  - destruct (negb (is_transparent st)); [apply points_nodup; assumption|constructor].
Qed.

(* ---- geometry of the two areas ---- *)
Theorem rect_stroke_area_grow r st :
  rect_sok r -> style_ok st -> 1 <= sw (sz r) -> 1 <= sh (sz r) ->
  rect_stroke_area r st =
  R (P (px (tl r) - outside_stroke_width st) (py (tl r) - outside_stroke_width st))
    (S (sw (sz r) + 2 * outside_stroke_width st) (sh (sz r) + 2 * outside_stroke_width st)).
Proof.
  intros [Hp [Hw Hh]] Hs Hw1 Hh1. destruct (offsets_range st Hs) as (E1 & R1 & R2 & _).
  unfold rect_stroke_area. rewrite E1, offset_1d.
  destruct (dim_forms (px (tl r)) (sw (sz r)) _ _ Hw R1 R2) as (A1 & _ & A3 & _).
  destruct (dim_forms (py (tl r)) (sh (sz r)) _ _ Hh R1 R2) as (B1 & _ & B3 & _).
  rewrite A1, B1, A3, B3 by assumption. reflexivity.
Qed.

Theorem rect_fill_area_shrink r st :
  rect_sok r -> style_ok st -> stroke_kind st = Solid ->
  let ins := inside_stroke_width st in
  let fa := rect_fill_area r st in
  (2 * ins < sw (sz r) -> px (tl fa) = px (tl r) + ins /\ sw (sz fa) = sw (sz r) - 2 * ins) /\
  (2 * ins < sh (sz r) -> py (tl fa) = py (tl r) + ins /\ sh (sz fa) = sh (sz r) - 2 * ins) /\
  (sw (sz r) <= 2 * ins \/ sh (sz r) <= 2 * ins -> forall p, contains fa p = false).
Proof.
  intros [Hp [Hw Hh]] Hs Hk ins fa. destruct (offsets_range st Hs) as (E1 & R1 & R2 & E2). rewrite Hk in E2.
  subst fa. unfold rect_fill_area. rewrite E2, offset_1d. fold ins in R2 |- *. cbn [tl sz px py sw sh].
  destruct (dim_forms (px (tl r)) (sw (sz r)) _ _ Hw R1 R2) as (_ & A2 & _ & A4).
  destruct (dim_forms (py (tl r)) (sh (sz r)) _ _ Hh R1 R2) as (_ & B2 & _ & B4).
  split; [|split].
  - intros H. rewrite A2, A4 by assumption. lia.
  - intros H. rewrite B2, B4 by assumption. lia.
  - intros H p. destruct (contains _ p) eqn:E; [|reflexivity]. apply contains_spec in E. cbn [tl sz px py sw sh] in E. lia.
Qed.

Lemma rect_stroke_area_inside r st :
  rect_sok r -> stroke_alignment st = Inside -> rect_stroke_area r st = r.
Proof.
  intros Hr Ha. unfold rect_stroke_area, stroke_area_offset, outside_stroke_width. rewrite Ha.
  apply offset_zero, rect_sok_ok, Hr.
Qed.

Lemma rect_fill_area_outside r st :
  rect_sok r -> stroke_alignment st = Outside -> rect_fill_area r st = r.
Proof.
  intros Hr Ha. unfold rect_fill_area, fill_area_offset, inside_stroke_width. rewrite Ha.
  destruct (stroke_kind st); apply offset_zero, rect_sok_ok, Hr.
Qed.

Theorem rect_inside_stroke_stays_in r st p :
  rect_sok r -> style_ok st -> stroke_kind st = Solid -> stroke_alignment st = Inside ->
  render (rect_draw_styled r st) p <> None -> contains r p = true.
Proof.
  intros Hr Hs Hk Ha. rewrite rect_styled_spec by assumption.
  pose proof (rect_fill_sub_stroke r st p Hr Hs Hk) as Hsub. unfold styled_map.
  rewrite rect_stroke_area_inside in * by assumption.
  destruct (contains (rect_fill_area r st) p); [intros _; apply Hsub; reflexivity|].
  destruct (contains r p); [reflexivity|]. cbn. congruence.
Qed.

Theorem rect_outside_stroke_stays_out r st p :
  rect_sok r -> style_ok st -> stroke_kind st = Solid -> stroke_alignment st = Outside ->
  contains r p = true -> render (rect_draw_styled r st) p = fill_color st.
Proof.
  intros Hr Hs Hk Ha Hp. rewrite rect_styled_spec by assumption. unfold styled_map.
  rewrite rect_fill_area_outside by assumption. rewrite Hp. reflexivity.
Qed.
