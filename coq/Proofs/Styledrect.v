(* Proofs about Rectangle as a primitive (points vs contains, C05) and about Model/Styledrect.v (C06, C01(b), C02, C07). *)
From EG Require Import Base.Prelude Base.Lemmas Model.Geometry Model.Style Model.Circle Model.Styledrect
  Proofs.Geometry Proofs.Scanline Proofs.Circle.
From Coq Require Import ZifyBool.

Ltac Zify.zify_post_hook ::= Z.to_euclidean_division_equations.
Set Default Timeout 60.

Lemma box_points_zero r : is_zero_sized r = true -> size_nonneg r -> box_points r = [].
Proof.
  intros E Hn. destruct (box_points r) as [|p l] eqn:E2; [reflexivity|exfalso].
  assert (In p (box_points r)) as Hin by (rewrite E2; left; reflexivity).
  apply In_row_major in Hin. destr_rects. unf. lia.
Qed.

Theorem rect_points_spec r : rect_ok r -> points r = filter (contains r) (box_points (rect_bbox r)).
Proof.
  intros H. unfold rect_bbox. rewrite points_row_major by assumption.
  rewrite filter_all_true by (intros p Hp; apply In_box_points; exact Hp).
  destruct (is_zero_sized r) eqn:E; [|reflexivity].
  symmetry. apply box_points_zero; [assumption|]. destr_rects. unf. lia.
Qed.

Theorem rect_contains_in_bbox r p : contains r p = true -> contains (rect_bbox r) p = true.
Proof. intros H. exact H. Qed.
