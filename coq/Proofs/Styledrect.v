(* Proofs about Rectangle as a primitive (points vs contains, C05) and about Model/Styledrect.v (C06, C01(b), C02, C07). *)
From EG Require Import Base.Prelude Base.Lemmas Model.Geometry Model.Style Model.Circle Model.Styledrect
  Proofs.Geometry Proofs.Scanline Proofs.Circle.
From Coq Require Import ZifyBool.

Ltac Zify.zify_post_hook ::= Z.to_euclidean_division_equations.
Set Default Timeout 60.

Lemma box_points_zero r : is_zero_sized r = true -> size_nonneg r -> box_points r = [].
Proof.
  intros E Hn. destruct (box_points r) as [|p l] eqn:E2; [reflexivity|exfalso].
  assert (In p (box_points r)) as Hin by (rewrite E2; left; reflexivity).
  apply In_row_major in Hin. destr_rects. unf. lia.
Qed.

Theorem rect_points_spec r : rect_ok r -> points r = filter (contains r) (box_points (rect_bbox r)).
Proof.
  intros H. unfold rect_bbox. rewrite points_row_major by assumption.
  rewrite filter_all_true by (intros p Hp; apply In_box_points; exact Hp).
  destruct (is_zero_sized r) eqn:E; [|reflexivity].
  symmetry. apply box_points_zero; [assumption|]. destr_rects. unf. lia.
Qed.

Theorem rect_contains_in_bbox r p : contains r p = true -> contains (rect_bbox r) p = true.
Proof. intros H. exact H. Qed.

(* ================= styled rectangle (rectangle/styled.rs, solid stroke) ================= *)
From EG Require Import Proofs.Circlestyled.

Definition rect_sok (r : rect) : Prop := point_sok (tl r) /\ size_sok (sz r).

(* ---- Rectangle::offset, one dimension at a time ---- *)
Definition off_ext (e n : Z) : Z := if 0 <=? n then sat_add_u32 e (n * 2) else sat_sub_u32 e ((- n) * 2).
Definition off_start (s e n : Z) : Z := s + sat_sub_u32 e 1 / 2 - sat_sub_u32 (off_ext e n) 1 / 2.

Lemma offset_1d r n :
  offset r n = R (P (off_start (px (tl r)) (sw (sz r)) n) (off_start (py (tl r)) (sh (sz r)) n))
                 (S (off_ext (sw (sz r)) n) (off_ext (sh (sz r)) n)).
Proof.
  unfold offset, with_center, center, center_offset, psub_size, padd_size, size_sat_sub, size_sat_add, off_start, off_ext.
  destruct (0 <=? n); reflexivity.
Qed.

(* ---- the border arithmetic of draw_styled, one dimension at a time (styled.rs:240-283) ---- *)
Definition b_top (W Se : Z) : Z := Z.min W (Se / 2).
Definition b_bot (W Se : Z) : Z := Z.min W (Se - b_top W Se).
Definition b_boty (W Se : Z) : Z := sat_sub_u32 Se (b_bot W Se).
Definition b_left (W Se : Z) : Z := Z.min (W * 2) (Se + 1) / 2.
Definition b_rightx (W Se : Z) : Z := sat_sub_u32 Se (b_left W Se).

Definition rect_borders (sa : rect) (W Fh sc : Z) : list fill_call :=
  let Sx := px (tl sa) in let Sy := py (tl sa) in let Sw := sw (sz sa) in let Sh := sh (sz sa) in
  [(R (tl sa) (S Sw (b_top W Sh)), sc); (R (P (Sx + 0) (Sy + b_boty W Sh)) (S Sw (b_bot W Sh)), sc)] ++
  (if 0 <? Fh
   then [(R (P (Sx + 0) (Sy + b_top W Sh)) (S (b_left W Sw) Fh), sc);
         (R (P (Sx + 0 + b_rightx W Sw) (Sy + b_top W Sh + 0)) (S (b_left W Sw) Fh), sc)]
   else []).

Lemma rect_draw_styled_eq r st :
  rect_draw_styled r st =
  (match fill_color st with Some fc => [(rect_fill_area r st, fc)] | None => [] end) ++
  match effective_stroke_color st with
  | None => []
  | Some sc => rect_borders (rect_stroke_area r st) (stroke_width st) (sh (sz (rect_fill_area r st))) sc
  end.
Proof. reflexivity. Qed.

Section OneDim.
  Variables (s e out ins : Z).
  Hypothesis He : 0 <= e <= sbound.
  Hypothesis Hout : 0 <= out <= sbound.
  Hypothesis Hins : 0 <= ins <= sbound.
  Let S0 := off_start s e out.
  Let Se := off_ext e out.
  Let F0 := off_start s e (- ins).
  Let Fe := off_ext e (- ins).
  Let W := ins + out.

  Lemma dim_forms :
    Se = e + 2 * out /\ Fe = Z.max (e - 2 * ins) 0 /\
    (1 <= e -> S0 = s - out) /\ (2 * ins < e -> F0 = s + ins).
  Proof.
    subst S0 Se F0 Fe W. unfold off_start, off_ext, sat_add_u32, sat_sub_u32, u32_max, sbound in *.
    destruct (0 <=? out) eqn:E1, (0 <=? - ins) eqn:E2; lia.
  Qed.

  Lemma dim_basic : 0 <= Se /\ 0 <= Fe /\ (e = 0 -> Fe = 0).
  Proof. destruct dim_forms as (E1 & E2 & _). lia. Qed.

  (* the fill area has an extent in this dimension: borders of full width W on both sides of it *)
  Lemma dim_open : 0 < Fe ->
    b_top W Se = W /\ b_bot W Se = W /\ b_boty W Se = Se - W /\ b_left W Se = W /\ b_rightx W Se = Se - W /\
    S0 + W = F0 /\ F0 + Fe = S0 + Se - W.
  Proof.
    destruct dim_forms as (E1 & E2 & E3 & E4). intros H.
    assert (2 * ins < e) as Hi by lia. rewrite E3, E4 by lia. rewrite E1, E2 in *. clear E1 E2 E3 E4.
    subst W. clearbody S0 Se F0 Fe.
    assert (b_top (ins + out) (e + 2 * out) = ins + out) as Et by (unfold b_top; lia).
    assert (b_bot (ins + out) (e + 2 * out) = ins + out) as Eb by (unfold b_bot; rewrite Et; lia).
    assert (b_left (ins + out) (e + 2 * out) = ins + out) as El by (unfold b_left; lia).
    unfold b_boty, b_rightx. rewrite Et, Eb, El. unfold sat_sub_u32. lia.
  Qed.

  (* the fill area is collapsed in this dimension: the two borders together cover the stroke area's extent *)
  Lemma dim_closed : Fe = 0 ->
    0 <= b_top W Se /\ 0 <= b_bot W Se /\ b_boty W Se <= b_top W Se /\ b_boty W Se + b_bot W Se = Se /\
    0 <= b_left W Se /\ b_rightx W Se <= b_left W Se /\ (0 < W -> b_rightx W Se + b_left W Se = Se) /\ 0 <= b_rightx W Se
    /\ 0 <= b_boty W Se /\ b_top W Se <= Se /\ b_left W Se <= Se.
  Proof.
    destruct dim_forms as (E1 & E2 & _). intros H.
    assert (e <= 2 * ins) as Hi by lia. rewrite E1. clear E1 E2 H. subst W. clearbody S0 Se F0 Fe.
    set (T := e + 2 * out). assert (0 <= T <= 2 * (ins + out)) as HT by lia. clearbody T.
    set (V := ins + out) in *. assert (0 <= V) as HV by lia. clearbody V. clear - HT HV.
    assert (b_top V T = T / 2) as Et by (unfold b_top; lia).
    assert (b_bot V T = T - T / 2) as Eb by (unfold b_bot; rewrite Et; lia).
    unfold b_boty, b_rightx. rewrite Et, Eb. unfold sat_sub_u32, b_left. lia.
  Qed.
End OneDim.

Lemma contains_b r p :
  contains r p = (px (tl r) <=? px p) && (px p <? px (tl r) + sw (sz r)) && (py (tl r) <=? py p) && (py p <? py (tl r) + sh (sz r)).
Proof. apply eq_true_iff_eq. rewrite contains_spec. lia. Qed.

Ltac rect_cases :=
  repeat match goal with |- context [if ?b then _ else _] => destruct b eqn:? end; try reflexivity; exfalso; lia.

(* C06 for the rectangle: the fill rectangle and the (up to) four border rectangles tile exactly
   fill area / stroke area minus fill area, for every stroke width (also wider than the rectangle) *)
Theorem rect_styled_spec r st p :
  rect_sok r -> style_ok st -> stroke_kind st = Solid ->
  render (rect_draw_styled r st) p =
  styled_map (contains (rect_fill_area r st)) (contains (rect_stroke_area r st)) st p.
Proof.
  intros [Hp [Hw Hh]] Hs Hk.
  destruct (stroke_split st Hs) as [Hsum _]. destruct (offsets_range st Hs) as (E1 & R1 & R2 & E2). rewrite Hk in E2.
  rewrite rect_draw_styled_eq. unfold rect_stroke_area, rect_fill_area, styled_map, effective_stroke_color.
  rewrite E1, E2, !offset_1d.
  set (out := outside_stroke_width st) in *. set (ins := inside_stroke_width st) in *.
  replace (stroke_width st) with (ins + out) by lia.
  pose proof (dim_basic (px (tl r)) (sw (sz r)) out ins Hw R1 R2) as Bx.
  pose proof (dim_open (px (tl r)) (sw (sz r)) out ins Hw R1 R2) as Ox.
  pose proof (dim_closed (px (tl r)) (sw (sz r)) out ins Hw R1 R2) as Cx.
  pose proof (dim_basic (py (tl r)) (sh (sz r)) out ins Hh R1 R2) as By.
  pose proof (dim_open (py (tl r)) (sh (sz r)) out ins Hh R1 R2) as Oy.
  pose proof (dim_closed (py (tl r)) (sh (sz r)) out ins Hh R1 R2) as Cy.
  cbv zeta in *.
  set (Sx := off_start (px (tl r)) (sw (sz r)) out) in *. set (Sw := off_ext (sw (sz r)) out) in *.
  set (Fx := off_start (px (tl r)) (sw (sz r)) (- ins)) in *. set (Fw := off_ext (sw (sz r)) (- ins)) in *.
  set (Sy := off_start (py (tl r)) (sh (sz r)) out) in *. set (Sh := off_ext (sh (sz r)) out) in *.
  set (Fy := off_start (py (tl r)) (sh (sz r)) (- ins)) in *. set (Fh := off_ext (sh (sz r)) (- ins)) in *.
  set (W := ins + out) in *.
  clearbody Sx Sw Fx Fw Sy Sh Fy Fh W. clear Hp Hw Hh Hs Hk Hsum E1 E2 R1 R2.
  destruct p as [a b]. unfold rect_borders. cbn [tl sz px py sw sh].
  destruct (0 <? Fh) eqn:EF.
  - assert (0 < Fh) as HF by lia. specialize (Oy HF). clear Cy.
    destruct (Z_lt_le_dec 0 Fw) as [HFw|HFw]; [specialize (Ox HFw); clear Cx|assert (Fw = 0) as HFw0 by lia; specialize (Cx HFw0); clear Ox];
    destruct (stroke_color st) as [sc|], (fill_color st) as [fc|], (0 <? W) eqn:EW;
    unfold render; cbn [app fold_left fst snd]; rewrite ?contains_b; cbn [tl sz px py sw sh]; rect_cases.
  - assert (Fh = 0) as HF by lia. specialize (Cy HF). clear Oy.
    destruct (Z_lt_le_dec 0 Fw) as [HFw|HFw]; [specialize (Ox HFw); clear Cx|assert (Fw = 0) as HFw0 by lia; specialize (Cx HFw0); clear Ox];
    destruct (stroke_color st) as [sc|], (fill_color st) as [fc|], (0 <? W) eqn:EW;
    unfold render; cbn [app fold_left fst snd]; rewrite ?contains_b; cbn [tl sz px py sw sh]; rect_cases.
Qed.
