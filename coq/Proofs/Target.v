(* Lemmas about Model/Target.v: trait defaults, the Cropped colour iterator, the four adapters and
   adapter stacks (properties C03, C01 part a). *)
From EG Require Import Base.Prelude Base.Lemmas Model.Geometry Model.Target Proofs.Geometry.
From Coq Require Import ZifyBool Sorting.Sorted.

Ltac Zify.zify_post_hook ::= Z.to_euclidean_division_equations.
Set Default Timeout 60.

(* ---- ranges ------------------------------------------------------------------------------ *)
(* The exact range in which Rectangle::points / rows / columns do not saturate: extents fit i32 and
   the far edges are representable.  rect_ok (|coords|, extents <= 2^29) implies it. *)
Definition size_fits (s : size) : Prop := 0 <= sw s <= i32_max /\ 0 <= sh s <= i32_max.
Definition rect_fits (r : rect) : Prop :=
  size_fits (sz r) /\
  i32_min <= px (tl r) /\ px (tl r) + sw (sz r) <= i32_max /\
  i32_min <= py (tl r) /\ py (tl r) + sh (sz r) <= i32_max.

Lemma rect_ok_fits r : rect_ok r -> rect_fits r.
Proof. unfold rect_ok, rect_fits, size_fits, point_ok, size_ok, bound, i32_max, i32_min. lia. Qed.

Lemma size_fits_nonneg r : size_fits (sz r) -> size_nonneg r.
Proof. unfold size_fits, size_nonneg. lia. Qed.

(* areas of a call *)
Definition call_fits (c : call) : Prop :=
  match c with
  | FillContiguous a _ | FillSolid a _ => rect_fits a
  | _ => True
  end.
Definition call_sizes (c : call) : Prop :=
  match c with
  | FillContiguous a _ | FillSolid a _ => size_fits (sz a)
  | _ => True
  end.
Definition adapter_sizes (ad : adapter) : Prop :=
  match ad with
  | Clip a | Crop a => size_fits (sz a)
  | _ => True
  end.

Lemma call_fits_sizes c : call_fits c -> call_sizes c.
Proof. destruct c; cbn; unfold rect_fits; tauto. Qed.

(* ---- points ------------------------------------------------------------------------------- *)
Lemma point_eqb_eq a b : point_eqb a b = true <-> a = b.
Proof.
  destruct a as [ax ay], b as [bx by']. unfold point_eqb. cbn [px py].
  rewrite andb_true_iff, !Z.eqb_eq. split; [intros [-> ->]; reflexivity|intros H; inversion H; auto].
Qed.

Lemma point_eqb_refl a : point_eqb a a = true.
Proof. apply point_eqb_eq. reflexivity. Qed.

Lemma point_eqb_sym a b : point_eqb a b = point_eqb b a.
Proof. unfold point_eqb. rewrite (Z.eqb_sym (px a)), (Z.eqb_sym (py a)). reflexivity. Qed.

Lemma point_eqb_neq a b : a <> b -> point_eqb a b = false.
Proof. intros H. destruct (point_eqb a b) eqn:E; [apply point_eqb_eq in E; contradiction|reflexivity]. Qed.

Lemma rect_eqb_eq a b : rect_eqb a b = true <-> a = b.
Proof.
  destruct a as [[ax ay] [aw ah]], b as [[bx by'] [bw bh]]. unfold rect_eqb, point_eqb, size_eqb. cbn [tl sz px py sw sh].
  rewrite !andb_true_iff, !Z.eqb_eq. split; [intros [[-> ->] [-> ->]]; reflexivity|intros H; inversion H; auto].
Qed.

Lemma padd_zero q : padd q (P 0 0) = q.
Proof. destruct q as [x y]. unfold padd. cbn [px py]. f_equal; lia. Qed.

Lemma padd_assoc a b c : padd (padd a b) c = padd a (padd b c).
Proof. unfold padd. cbn [px py]. f_equal; lia. Qed.

Lemma padd_pneg a d : padd (padd a (pneg d)) d = a.
Proof. destruct a as [x y]. unfold padd, pneg. cbn [px py]. f_equal; lia. Qed.

Lemma padd_pneg' a d : padd (padd a d) (pneg d) = a.
Proof. destruct a as [x y]. unfold padd, pneg. cbn [px py]. f_equal; lia. Qed.

(* ---- generic list facts ------------------------------------------------------------------- *)
Lemma nth_error_nil {A} i : nth_error (@nil A) i = None.
Proof. destruct i; reflexivity. Qed.

Lemma nth_error_skipn' {A} (l : list A) n k : nth_error (skipn n l) k = nth_error l (n + k).
Proof.
  revert l; induction n as [|n IH]; intros l; [reflexivity|].
  destruct l as [|a l]; cbn [skipn plus nth_error]; [apply nth_error_nil|apply IH].
Qed.

Lemma skipn_skipn' {A} (l : list A) n k : skipn k (skipn n l) = skipn (n + k) l.
Proof.
  revert l; induction n as [|n IH]; intros l; [reflexivity|].
  destruct l as [|a l]; cbn [skipn plus]; [apply skipn_nil|apply IH].
Qed.

Lemma skipn_cons_nth {A} (l : list A) n :
  skipn n l = match nth_error l n with Some c => c :: skipn (Datatypes.S n) l | None => [] end.
Proof.
  revert l; induction n as [|n IH]; intros [|a l]; cbn [skipn nth_error]; try reflexivity.
  rewrite IH. destruct (nth_error l n); reflexivity.
Qed.

Lemma nth_error_range a b k :
  (k < Z.to_nat (b - a))%nat -> nth_error (range a b) k = Some (a + Z.of_nat k).
Proof.
  unfold range. generalize (Z.to_nat (b - a)) as n. intros n. revert a k.
  induction n as [|n IH]; intros a k Hk; [lia|].
  destruct k as [|k]; cbn [range_from nth_error]; [f_equal; lia|].
  rewrite IH by lia. f_equal. lia.
Qed.

Lemma nth_error_repeat {A} (c : A) n i : (i < n)%nat -> nth_error (repeat c n) i = Some c.
Proof.
  revert i; induction n as [|n IH]; intros i Hi; [lia|].
  destruct i; cbn [repeat nth_error]; [reflexivity|apply IH; lia].
Qed.

Lemma map_pair_zip_repeat {A B} (l : list A) (c : B) :
  map (fun p => (p, c)) l = zip l (repeat c (length l)).
Proof. induction l as [|a l IH]; cbn [map zip repeat length]; [reflexivity|f_equal; apply IH]. Qed.

Lemma StronglySorted_nth {A} (R : A -> A -> Prop) l :
  StronglySorted R l -> forall i j a b, (i < j)%nat -> nth_error l i = Some a -> nth_error l j = Some b -> R a b.
Proof.
  induction 1 as [|x l Hs IH Hall]; intros i j a b Hij Ha Hb; [rewrite nth_error_nil in Ha; discriminate|].
  destruct j as [|j]; [lia|]. cbn [nth_error] in Hb.
  destruct i as [|i]; cbn [nth_error] in Ha.
  - inversion Ha; subst. rewrite Forall_forall in Hall. apply Hall. eapply nth_error_In; eassumption.
  - eapply IH; [|eassumption|eassumption]. lia.
Qed.

(* items of an option list up to the first None: what `for` sees of an iterator *)
Fixpoint take_some {A} (l : list (option A)) : list A :=
  match l with
  | Some a :: t => a :: take_some t
  | _ => []
  end.

Lemma take_some_nth_inv {A} (l : list (option A)) i c :
  nth_error (take_some l) i = Some c -> nth_error l i = Some (Some c).
Proof.
  revert i; induction l as [|[a|] l IH]; intros i H; cbn [take_some] in H;
    try (rewrite nth_error_nil in H; discriminate).
  destruct i; cbn [nth_error] in *; [congruence|auto].
Qed.

Lemma take_some_nth {A} (l : list (option A)) i c :
  nth_error l i = Some (Some c) ->
  (forall j, (j < i)%nat -> nth_error l j <> Some None) ->
  nth_error (take_some l) i = Some c.
Proof.
  revert i; induction l as [|[a|] l IH]; intros i H Hp.
  - rewrite nth_error_nil in H. discriminate.
  - destruct i; cbn [nth_error take_some] in *; [congruence|].
    apply IH; [assumption|]. intros j Hj. apply (Hp (Datatypes.S j)). lia.
  - destruct i; cbn [nth_error] in H; [discriminate|].
    exfalso. apply (Hp O); [lia|reflexivity].
Qed.

(* ---- last_write ----------------------------------------------------------------------------- *)
Lemma last_write_app p l1 l2 :
  last_write p (l1 ++ l2) = match last_write p l2 with Some c => Some c | None => last_write p l1 end.
Proof.
  induction l1 as [|[q c] l1 IH]; cbn [app last_write].
  - destruct (last_write p l2); reflexivity.
  - rewrite IH. destruct (last_write p l2); reflexivity.
Qed.

Lemma last_write_filter_fst (f : point -> bool) p l :
  last_write p (filter (fun pc => f (fst pc)) l) = if f p then last_write p l else None.
Proof.
  induction l as [|[q c] l IH]; cbn [filter last_write fst].
  - destruct (f p); reflexivity.
  - destruct (f q) eqn:Fq; cbn [last_write]; rewrite IH; destruct (f p) eqn:Fp; try reflexivity.
    + destruct (point_eqb q p) eqn:E; [|reflexivity]. apply point_eqb_eq in E. congruence.
    + destruct (last_write p l); [reflexivity|].
      destruct (point_eqb q p) eqn:E; [|reflexivity]. apply point_eqb_eq in E. congruence.
Qed.

Lemma last_write_map_fst (g : point -> point) (ginv : point -> point) p l :
  (forall a, ginv (g a) = a) -> (forall a, g (ginv a) = a) ->
  last_write p (map (fun pc => (g (fst pc), snd pc)) l) = last_write (ginv p) l.
Proof.
  intros H1 H2. induction l as [|[q c] l IH]; cbn [map last_write fst snd]; [reflexivity|].
  rewrite IH. destruct (last_write (ginv p) l); [reflexivity|].
  destruct (point_eqb q (ginv p)) eqn:E.
  - apply point_eqb_eq in E. subst q. rewrite H2, point_eqb_refl. reflexivity.
  - rewrite point_eqb_neq; [reflexivity|]. intros <-. rewrite H1, point_eqb_refl in E. discriminate.
Qed.

Lemma last_write_map_snd (f : color -> color) p l :
  last_write p (map (fun pc => (fst pc, f (snd pc))) l) =
  match last_write p l with Some c => Some (f c) | None => None end.
Proof.
  induction l as [|[q c] l IH]; cbn [map last_write fst snd]; [reflexivity|].
  rewrite IH. destruct (last_write p l); [reflexivity|]. destruct (point_eqb q p); reflexivity.
Qed.

Lemma last_write_zip_notin p pts (cs : list color) : ~ In p pts -> last_write p (zip pts cs) = None.
Proof.
  revert cs; induction pts as [|a pts IH]; intros [|c cs] H; cbn [zip last_write]; try reflexivity.
  rewrite IH by (intros Hin; apply H; right; assumption).
  rewrite point_eqb_neq; [reflexivity|]. intros ->. apply H. left. reflexivity.
Qed.

Lemma last_write_zip_nth p pts (cs : list color) i :
  NoDup pts -> nth_error pts i = Some p -> last_write p (zip pts cs) = nth_error cs i.
Proof.
  revert cs i; induction pts as [|a pts IH]; intros cs i Hnd Hi; [rewrite nth_error_nil in Hi; discriminate|].
  inversion Hnd as [|? ? Hna Hnd']; subst.
  destruct cs as [|c cs]; cbn [zip last_write]; [rewrite nth_error_nil; reflexivity|].
  destruct i as [|i]; cbn [nth_error] in *.
  - inversion Hi; subst. rewrite last_write_zip_notin by assumption. rewrite point_eqb_refl. reflexivity.
  - rewrite (IH cs i Hnd' Hi). destruct (nth_error cs i); [reflexivity|].
    rewrite point_eqb_neq; [reflexivity|]. intros ->. apply Hna. eapply nth_error_In; eassumption.
Qed.

(* ---- draw_iter ------------------------------------------------------------------------------ *)
Lemma draw_iter_spec bb ps m p :
  draw_iter bb ps m p = match last_write p (inside bb ps) with Some c => Some c | None => m p end.
Proof.
  unfold draw_iter, inside. revert m. induction ps as [|[q c] ps IH]; intros m; cbn [fold_left filter fst snd]; [reflexivity|].
  rewrite IH. destruct (contains bb q) eqn:Hq; cbn [last_write]; [|reflexivity].
  destruct (last_write p _); [reflexivity|]. unfold set_px. rewrite (point_eqb_sym p q).
  destruct (point_eqb q p); reflexivity.
Qed.

Lemma last_write_inside bb p l :
  last_write p (inside bb l) = if contains bb p then last_write p l else None.
Proof. unfold inside. apply last_write_filter_fst. Qed.

(* ---- Rectangle::points in the non-saturating range ------------------------------------------- *)
Lemma points_row_major_fits r :
  rect_fits r ->
  points r = if is_zero_sized r then []
             else row_major (px (tl r)) (px (tl r) + sw (sz r)) (py (tl r)) (py (tl r) + sh (sz r)).
Proof.
  intros H. unfold points. destruct (is_zero_sized r); [reflexivity|].
  destruct r as [[x y] [w h]]. unfold rect_fits, size_fits, i32_max, i32_min in H. cbn [tl sz px py sw sh] in H.
  unfold rows, columns, sat_add_i32, sat_u32_to_i32, i32_max, i32_min. cbn [tl sz px py sw sh].
  rewrite (Z.min_l w), (Z.min_l h) by lia.
  rewrite (Z.min_l (x + w)), (Z.min_l (y + h)), (Z.max_r _ (x + w)), (Z.max_r _ (y + h)) by lia.
  reflexivity.
Qed.

Lemma points_in_fits r p : rect_fits r -> (In p (points r) <-> contains r p = true).
Proof.
  intros H. rewrite points_row_major_fits by assumption. rewrite contains_spec.
  destruct (is_zero_sized r) eqn:E.
  - cbn [In]. destruct H as [[? ?] _]. destr_rects. unf. lia.
  - apply In_row_major.
Qed.

Lemma points_sorted_fits r : rect_fits r -> StronglySorted lt_yx (points r).
Proof.
  intros H. rewrite points_row_major_fits by assumption.
  destruct (is_zero_sized r); [constructor|apply row_major_sorted].
Qed.

Lemma points_nodup_fits r : rect_fits r -> NoDup (points r).
Proof. intros H. apply lt_yx_irrefl_sorted, points_sorted_fits, H. Qed.

Lemma points_length_fits r : rect_fits r -> Z.of_nat (length (points r)) = sw (sz r) * sh (sz r).
Proof.
  intros H. rewrite points_row_major_fits by assumption. destruct H as [[? ?] _].
  destruct (is_zero_sized r) eqn:E.
  - destr_rects. unf. cbn [length]. lia.
  - rewrite length_row_major. destr_rects. unf. lia.
Qed.

Lemma nth_error_row_major x0 x1 y0 y1 x y :
  x0 <= x < x1 -> y0 <= y < y1 ->
  nth_error (row_major x0 x1 y0 y1) (Z.to_nat ((y - y0) * (x1 - x0) + (x - x0))) = Some (P x y).
Proof.
  intros Hx. remember (Z.to_nat (y - y0)) as k eqn:Ek. revert y0 Ek.
  induction k as [|k IH]; intros y0 Ek Hy; unfold row_major; rewrite (range_cons y0 y1) by lia; cbn [flat_map].
  - assert (y = y0) by lia. subst y0.
    replace ((y - y) * (x1 - x0) + (x - x0)) with (x - x0) by lia.
    rewrite nth_error_app1 by (rewrite map_length; pose proof (length_range x0 x1); lia).
    rewrite nth_error_map, nth_error_range by lia. cbn [option_map]. f_equal. f_equal. lia.
  - assert (0 <= (y - (y0 + 1)) * (x1 - x0)) by (apply Z.mul_nonneg_nonneg; lia).
    pose proof (length_range x0 x1) as Hl.
    rewrite nth_error_app2 by (rewrite map_length; lia).
    rewrite map_length.
    replace (Z.to_nat ((y - y0) * (x1 - x0) + (x - x0)) - length (range x0 x1))%nat
      with (Z.to_nat ((y - (y0 + 1)) * (x1 - x0) + (x - x0))) by lia.
    apply IH; lia.
Qed.

Lemma points_nth r p :
  rect_fits r -> contains r p = true -> nth_error (points r) (Z.to_nat (idx_in r p)) = Some p.
Proof.
  intros H Hc. rewrite points_row_major_fits by assumption. apply contains_spec in Hc.
  destruct (is_zero_sized r) eqn:E.
  - exfalso. destruct H as [[? ?] _]. destr_rects. unf. lia.
  - unfold idx_in. destruct p as [x y]. cbn [px py] in *.
    replace (sw (sz r)) with (px (tl r) + sw (sz r) - px (tl r)) at 2 by lia.
    apply nth_error_row_major; lia.
Qed.

Lemma idx_in_nonneg r p : size_nonneg r -> contains r p = true -> 0 <= idx_in r p.
Proof.
  intros [Hw Hh] Hc. apply contains_spec in Hc. unfold idx_in.
  assert (0 <= (py p - py (tl r)) * sw (sz r)) by (apply Z.mul_nonneg_nonneg; lia). lia.
Qed.

(* ---- the trait defaults ------------------------------------------------------------------------ *)
Lemma sget_Z_of_nat s n : sget s (Z.of_nat n) = match s with Fin l => nth_error l n | Rep c => Some c end.
Proof. destruct s; cbn [sget]; [rewrite Nat2Z.id|]; reflexivity. Qed.

(* the colour paired with point p by area.points().zip(colors) *)
Lemma last_write_szip_points area cs p :
  rect_fits area ->
  last_write p (szip (points area) cs) = if contains area p then sget cs (idx_in area p) else None.
Proof.
  intros H. destruct (contains area p) eqn:Hc.
  - pose proof (points_nth area p H Hc) as Hn. pose proof (points_nodup_fits area H) as Hnd.
    destruct cs as [l|c]; cbn [szip sget].
    + apply last_write_zip_nth; assumption.
    + rewrite map_pair_zip_repeat. rewrite (last_write_zip_nth _ _ _ _ Hnd Hn).
      apply nth_error_repeat. apply nth_error_Some. congruence.
  - assert (~ In p (points area)) as Hn by (rewrite points_in_fits by assumption; congruence).
    destruct cs as [l|c]; cbn [szip]; [|rewrite map_pair_zip_repeat]; apply last_write_zip_notin; assumption.
Qed.

Theorem default_fill_contiguous_spec bb area cs m p :
  rect_fits area ->
  default_fill_contiguous bb area cs m p = native_fill_contiguous bb area cs m p.
Proof.
  intros H. unfold default_fill_contiguous, native_fill_contiguous.
  rewrite draw_iter_spec, last_write_inside, last_write_szip_points by assumption.
  destruct (contains bb p), (contains area p); reflexivity.
Qed.

Theorem default_fill_solid_spec bb area c m p :
  rect_fits area ->
  default_fill_solid bb area c m p = native_fill_solid bb area c m p.
Proof.
  intros H. unfold default_fill_solid. rewrite default_fill_contiguous_spec by assumption.
  unfold native_fill_contiguous, native_fill_solid. cbn [sget]. reflexivity.
Qed.

Theorem default_clear_spec bb c m p :
  rect_fits bb ->
  default_clear bb c m p = native_clear bb c m p.
Proof.
  intros H. unfold default_clear. rewrite default_fill_solid_spec by assumption.
  unfold native_fill_solid, native_clear. destruct (contains bb p); reflexivity.
Qed.

(* C01 part (a): a draw_iter-only target and a native target end up with the same pixel map *)
Theorem paint_default_native bb c m p :
  rect_fits bb -> call_fits c ->
  paint bb DefaultOnly c m p = paint bb Native c m p.
Proof.
  intros Hb Hc. destruct c; cbn [paint call_fits] in *.
  - reflexivity.
  - apply default_fill_contiguous_spec; assumption.
  - apply default_fill_solid_spec; assumption.
  - apply default_clear_spec; assumption.
Qed.

(* paint at p looks at the previous map only at p *)
Lemma paint_native_local bb c m m' p : m p = m' p -> paint bb Native c m p = paint bb Native c m' p.
Proof.
  intros H. destruct c; cbn [paint].
  - rewrite !draw_iter_spec, H. reflexivity.
  - unfold native_fill_contiguous. rewrite H. reflexivity.
  - unfold native_fill_solid. rewrite H. reflexivity.
  - unfold native_clear. rewrite H. reflexivity.
Qed.

Lemma paint_local bb k c m m' p :
  rect_fits bb -> call_fits c -> m p = m' p -> paint bb k c m p = paint bb k c m' p.
Proof.
  intros Hb Hc H. destruct k; [rewrite !paint_default_native by assumption|]; apply paint_native_local; assumption.
Qed.

Theorem paint_all_default_native bb cs :
  rect_fits bb -> Forall call_fits cs ->
  forall m m' p, m p = m' p -> paint_all bb DefaultOnly cs m p = paint_all bb Native cs m' p.
Proof.
  intros Hb Hcs. unfold paint_all. induction Hcs as [|c cs Hc Hcs IH]; intros m m' p H; cbn [fold_left]; [assumption|].
  apply IH. rewrite paint_default_native by assumption. apply paint_native_local. assumption.
Qed.

Theorem render_default_native bb cs p :
  rect_fits bb -> Forall call_fits cs -> render bb DefaultOnly cs p = render bb Native cs p.
Proof. intros Hb Hcs. unfold render. apply paint_all_default_native; auto. Qed.

(* ---- reference semantics of one call on an unbounded canvas ------------------------------------- *)
(* `own` is the bounding box the target reports (only Clear looks at it), F the colour map applied to
   every stored colour. *)
Definition shift (d : point) (m : pixmap) : pixmap := fun q => m (padd q d).

Definition free_paint (own : rect) (F : color -> color) (c : call) (m : pixmap) : pixmap :=
  fun q =>
    match c with
    | DrawIter ps => match last_write q ps with Some col => Some (F col) | None => m q end
    | FillContiguous area cs =>
        if contains area q
        then match sget cs (idx_in area q) with Some col => Some (F col) | None => m q end
        else m q
    | FillSolid area col => if contains area q then Some (F col) else m q
    | Clear col => if contains own q then Some (F col) else m q
    end.

Definition idc (c : color) : color := c.

Lemma free_paint_local own F c m m' q : m q = m' q -> free_paint own F c m q = free_paint own F c m' q.
Proof. intros H. unfold free_paint. rewrite H. reflexivity. Qed.

Lemma free_paint_own o1 o2 F c m q :
  contains o1 q = contains o2 q -> free_paint o1 F c m q = free_paint o2 F c m q.
Proof. intros H. unfold free_paint. rewrite H. reflexivity. Qed.

(* a real target (either kind) = the reference semantics restricted to its bounding box *)
Theorem paint_root bb k c m q :
  (k = DefaultOnly -> rect_fits bb /\ call_fits c) ->
  paint bb k c m q = if contains bb q then free_paint bb idc c m q else m q.
Proof.
  intros H. destruct k; [destruct (H eq_refl) as [Hb Hc]; rewrite paint_default_native by assumption|]; clear H;
  (destruct c; cbn [paint free_paint]; unfold idc;
   [ rewrite draw_iter_spec, last_write_inside; destruct (contains bb q); [destruct (last_write q ps)|]; reflexivity
   | unfold native_fill_contiguous; destruct (contains area q), (contains bb q); cbn [andb]; try reflexivity;
     destruct (sget cs _); reflexivity
   | unfold native_fill_solid; destruct (contains area q), (contains bb q); reflexivity
   | unfold native_clear; destruct (contains bb q); reflexivity ]).
Qed.

(* ---- executable form: ordered pixel stores ---------------------------------------------------- *)
Lemma nth_error_stake n cs i : (i < n)%nat -> nth_error (stake n cs) i = sget cs (Z.of_nat i).
Proof.
  intros Hi. rewrite sget_Z_of_nat. destruct cs as [l|c]; cbn [stake].
  - revert l i Hi; induction n as [|n IH]; intros l i Hi; [lia|].
    destruct l as [|a l]; cbn [firstn]; [rewrite !nth_error_nil; reflexivity|].
    destruct i; cbn [nth_error]; [reflexivity|apply IH; lia].
  - apply nth_error_repeat. assumption.
Qed.

Lemma intersection_fits a b : rect_fits a -> rect_fits b -> rect_fits (intersection a b).
Proof.
  unfold rect_fits, size_fits, i32_max, i32_min. destr_rects. unf. intros Ha Hb.
  split_ifs; cbn [tl sz px py sw sh]; lia.
Qed.

Theorem paint_writes bb k c m p :
  rect_fits bb -> call_fits c ->
  paint bb k c m p = match last_write p (writes bb k c) with Some col => Some col | None => m p end.
Proof.
  intros Hb Hc. destruct k.
  - destruct c; cbn [paint writes]; unfold default_clear, default_fill_solid, default_fill_contiguous; apply draw_iter_spec.
  - destruct c; cbn [paint writes call_fits] in *.
    + apply draw_iter_spec.
    + unfold native_fill_contiguous. rewrite last_write_inside.
      destruct (contains bb p); [|rewrite andb_false_r; reflexivity]. rewrite andb_true_r.
      destruct (contains area p) eqn:Ha.
      * rewrite (last_write_zip_nth _ _ _ _ (points_nodup_fits area Hc) (points_nth area p Hc Ha)).
        pose proof (points_nth area p Hc Ha) as Hn.
        assert (Z.to_nat (idx_in area p) < length (points area))%nat as Hlt by (apply nth_error_Some; congruence).
        pose proof (points_length_fits area Hc).
        pose proof (idx_in_nonneg area p (size_fits_nonneg _ (proj1 Hc)) Ha).
        rewrite nth_error_stake by lia. rewrite Z2Nat.id by assumption. reflexivity.
      * rewrite last_write_zip_notin; [reflexivity|]. rewrite points_in_fits by assumption. congruence.
    + unfold native_fill_solid. rewrite <- intersection_spec.
      pose proof (intersection_fits area bb Hc Hb) as Hi.
      rewrite map_pair_zip_repeat.
      destruct (contains (intersection area bb) p) eqn:Ha.
      * pose proof (points_nth _ p Hi Ha) as Hn.
        rewrite (last_write_zip_nth _ _ _ _ (points_nodup_fits _ Hi) Hn).
        rewrite nth_error_repeat; [reflexivity|]. apply nth_error_Some. congruence.
      * rewrite last_write_zip_notin; [reflexivity|]. rewrite points_in_fits by assumption. congruence.
    + unfold native_clear. rewrite map_pair_zip_repeat.
      destruct (contains bb p) eqn:Ha.
      * pose proof (points_nth _ p Hb Ha) as Hn.
        rewrite (last_write_zip_nth _ _ _ _ (points_nodup_fits _ Hb) Hn).
        rewrite nth_error_repeat; [reflexivity|]. apply nth_error_Some. congruence.
      * rewrite last_write_zip_notin; [reflexivity|]. rewrite points_in_fits by assumption. congruence.
Qed.

(* for a draw_iter-only target the stores ARE the semantics: no range hypothesis *)
Lemma paint_writes_default bb c m p :
  paint bb DefaultOnly c m p =
  match last_write p (writes bb DefaultOnly c) with Some col => Some col | None => m p end.
Proof.
  destruct c; cbn [paint writes]; unfold default_clear, default_fill_solid, default_fill_contiguous; apply draw_iter_spec.
Qed.

Theorem render_writes_default bb cs p :
  render bb DefaultOnly cs p = last_write p (writes_all bb DefaultOnly cs).
Proof.
  unfold render, paint_all, writes_all.
  assert (forall m, fold_left (fun m c => paint bb DefaultOnly c m) cs m p =
                    match last_write p (flat_map (writes bb DefaultOnly) cs) with Some col => Some col | None => m p end) as H.
  { induction cs as [|c cs IH]; intros m; cbn [fold_left flat_map last_write]; [reflexivity|].
    rewrite IH, last_write_app. destruct (last_write p (flat_map _ cs)); [reflexivity|]. apply paint_writes_default. }
  rewrite H. destruct (last_write p _); reflexivity.
Qed.

Theorem paint_all_writes bb k cs :
  rect_fits bb -> Forall call_fits cs ->
  forall m p, paint_all bb k cs m p =
              match last_write p (writes_all bb k cs) with Some col => Some col | None => m p end.
Proof.
  intros Hb Hcs. unfold paint_all, writes_all. induction Hcs as [|c cs Hc Hcs IH]; intros m p; cbn [fold_left flat_map last_write]; [reflexivity|].
  rewrite IH, last_write_app. destruct (last_write p (flat_map _ cs)); [reflexivity|].
  apply paint_writes; assumption.
Qed.

Theorem render_writes bb k cs p :
  rect_fits bb -> Forall call_fits cs -> render bb k cs p = last_write p (writes_all bb k cs).
Proof.
  intros Hb Hcs. unfold render. rewrite paint_all_writes by assumption.
  destruct (last_write p _); reflexivity.
Qed.

(* ---- the Cropped colour iterator (src/iterator/contiguous.rs) ----------------------------------- *)
Definition sdrop (n : nat) (s : stream) : stream :=
  match s with Fin l => Fin (skipn n l) | Rep c => Rep c end.

Lemma sdrop_0 s : sdrop 0 s = s.
Proof. destruct s; reflexivity. Qed.

Lemma snext_sdrop s n : snext (sdrop n s) = (sget s (Z.of_nat n), sdrop (Datatypes.S n) s).
Proof.
  rewrite sget_Z_of_nat. destruct s as [l|c]; cbn [sdrop snext]; [|reflexivity].
  rewrite (skipn_cons_nth l n). destruct (nth_error l n) eqn:E; [reflexivity|].
  rewrite skipn_all2; [reflexivity|]. apply nth_error_None in E. lia.
Qed.

Lemma snth_sdrop s n k :
  snth k (sdrop n s) = (sget s (Z.of_nat (n + k)), sdrop (Datatypes.S (n + k)) s).
Proof.
  rewrite sget_Z_of_nat. destruct s as [l|c]; cbn [sdrop snth]; [|reflexivity].
  rewrite nth_error_skipn', skipn_skipn'. do 2 f_equal. f_equal. lia.
Qed.

Lemma sget_mono s a b : 0 <= a <= b -> sget s b <> None -> sget s a <> None.
Proof.
  intros H. destruct s as [l|c]; cbn [sget]; [|discriminate].
  intros Hb. apply nth_error_Some in Hb. apply nth_error_Some. lia.
Qed.

(* the points still to be visited when the iterator is at column X of row Y (absolute coordinates in the
   size.width-wide parent area) *)
Definition crop_rem (x0 w y0 h X Y : Z) : list point :=
  map (fun x => P x Y) (range X (x0 + w)) ++ row_major x0 (x0 + w) (Y + 1) (y0 + h).

Lemma crop_rem_step x0 w y0 h X Y :
  X < x0 + w -> crop_rem x0 w y0 h X Y = P X Y :: crop_rem x0 w y0 h (X + 1) Y.
Proof. intros H. unfold crop_rem. rewrite (range_cons X) by lia. reflexivity. Qed.

Lemma crop_rem_row x0 w y0 h Y :
  0 < w -> Y + 1 < y0 + h ->
  crop_rem x0 w y0 h (x0 + w) Y = P x0 (Y + 1) :: crop_rem x0 w y0 h (x0 + 1) (Y + 1).
Proof.
  intros Hw H. unfold crop_rem, row_major. rewrite (range_nil (x0 + w)) by lia.
  rewrite (range_cons (Y + 1)) by lia. cbn [map app flat_map]. rewrite (range_cons x0) by lia. reflexivity.
Qed.

Lemma crop_rem_end x0 w y0 h Y :
  y0 + h <= Y + 1 -> crop_rem x0 w y0 h (x0 + w) Y = [].
Proof.
  intros H. unfold crop_rem, row_major. rewrite (range_nil (x0 + w)), (range_nil (Y + 1)) by lia. reflexivity.
Qed.

Lemma crop_rem_start x0 w y0 h :
  0 < h -> row_major x0 (x0 + w) y0 (y0 + h) = crop_rem x0 w y0 h x0 y0.
Proof. intros H. unfold crop_rem, row_major. rewrite (range_cons y0) by lia. reflexivity. Qed.

Lemma cropped_collect_spec cs W x0 y0 w h :
  0 <= W -> 0 <= x0 -> 0 <= y0 -> 0 < w -> 0 < h -> x0 + w <= W ->
  forall fuel X Y,
  x0 <= X <= x0 + w -> y0 <= Y < y0 + h ->
  (length (crop_rem x0 w y0 h X Y) < fuel)%nat ->
  cropped_collect fuel (CS (sdrop (Z.to_nat (Y * W + X)) cs) (X - x0) (Y - y0) (S w h) (W - w))
  = Some (take_some (map (fun q => sget cs (py q * W + px q)) (crop_rem x0 w y0 h X Y))).
Proof.
  intros HW Hx0 Hy0 Hw Hh Hfit. induction fuel as [|fuel IH]; intros X Y HX HY Hlen; [lia|].
  assert (0 <= Y * W) by (apply Z.mul_nonneg_nonneg; lia).
  cbn [cropped_collect]. unfold cropped_next. cbn [c_iter c_x c_y c_size c_row_skip sw sh].
  replace (h <=? Y - y0) with false by lia. replace (w =? 0) with false by lia. cbn [orb].
  destruct (X - x0 <? w) eqn:Ex.
  - (* inside a row *)
    rewrite snext_sdrop. rewrite Z2Nat.id by lia.
    rewrite crop_rem_step in * by lia. cbn [map take_some px py length] in *.
    destruct (sget cs (Y * W + X)) as [c|]; [|reflexivity].
    replace (Datatypes.S (Z.to_nat (Y * W + X))) with (Z.to_nat (Y * W + (X + 1))) by lia.
    replace (X - x0 + 1) with (X + 1 - x0) by lia.
    rewrite IH by lia. reflexivity.
  - assert (X = x0 + w) by lia. subst X.
    destruct (Y - y0 + 1 <? h) eqn:Ey.
    + (* next row: nth(row_skip) *)
      rewrite snth_sdrop.
      rewrite crop_rem_row in * by lia. cbn [map take_some px py length] in *.
      replace (Z.of_nat (Z.to_nat (Y * W + (x0 + w)) + Z.to_nat (W - w))) with ((Y + 1) * W + x0) by lia.
      destruct (sget cs ((Y + 1) * W + x0)) as [c|]; [|reflexivity].
      replace (Datatypes.S (Z.to_nat (Y * W + (x0 + w)) + Z.to_nat (W - w))) with (Z.to_nat ((Y + 1) * W + (x0 + 1))) by lia.
      replace (Y - y0 + 1) with (Y + 1 - y0) by lia.
      pose proof (IH (x0 + 1) (Y + 1) ltac:(lia) ltac:(lia) ltac:(lia)) as IH'.
      replace (x0 + 1 - x0) with 1 in IH' by lia.
      rewrite IH'. reflexivity.
    + rewrite crop_rem_end by lia. reflexivity.
Qed.

(* where the non-empty intersection of two rectangles lies *)
Lemma intersection_inside a b :
  size_nonneg a -> size_nonneg b -> is_zero_sized (intersection a b) = false ->
  let i := intersection a b in
  px (tl a) <= px (tl i) /\ px (tl i) + sw (sz i) <= px (tl a) + sw (sz a) /\
  py (tl a) <= py (tl i) /\ py (tl i) + sh (sz i) <= py (tl a) + sh (sz a) /\
  px (tl b) <= px (tl i) /\ px (tl i) + sw (sz i) <= px (tl b) + sw (sz b) /\
  py (tl b) <= py (tl i) /\ py (tl i) + sh (sz i) <= py (tl b) + sh (sz b) /\
  0 < sw (sz i) /\ 0 < sh (sz i).
Proof.
  destr_rects. unf. intros Ha Hb. split_ifs; cbn [tl sz px py sw sh]; intros; lia.
Qed.

Theorem cropped_iter_spec cs size crop :
  size_fits size -> size_nonneg crop ->
  cropped_iter cs size crop =
  take_some (map (fun q => sget cs (idx_in (R (P 0 0) size) q)) (points (intersection (R (P 0 0) size) crop))).
Proof.
  intros Hs Hc. unfold cropped_iter, cropped_new.
  set (ca := intersection (R (P 0 0) size) crop).
  assert (size_nonneg (R (P 0 0) size)) as Hn by (unfold size_fits, size_nonneg in *; cbn [sz]; lia).
  pose proof (intersection_size_nonneg _ _ Hn Hc) as Hcn. fold ca in Hcn.
  destruct (is_zero_sized ca) eqn:Ez.
  - unfold points. rewrite Ez. cbn [map take_some].
    unfold cropped_fuel. cbn [c_size cropped_collect]. unfold cropped_next. cbn [c_size c_y c_x].
    replace ((sh (sz ca) <=? 0) || (sw (sz ca) =? 0)) with true; [reflexivity|].
    unfold is_zero_sized, size_nonneg in *. lia.
  - pose proof (intersection_inside _ _ Hn Hc Ez) as Hin. fold ca in Hin. cbn [tl sz px py] in Hin.
    cbv zeta in Hin. destruct Hin as (Hx0 & Hx1 & Hy0 & Hy1 & _ & _ & _ & _ & Hw & Hh).
    destruct size as [W H]. unfold size_fits in Hs. cbn [sw sh] in *.
    assert (rect_fits ca) as Hf by (unfold rect_fits, size_fits, i32_max, i32_min in *; lia).
    rewrite (points_row_major_fits ca Hf), Ez.
    set (x0 := px (tl ca)) in *. set (y0 := py (tl ca)) in *. set (w := sw (sz ca)) in *. set (h := sh (sz ca)) in *.
    assert (0 <= y0 * W) by (apply Z.mul_nonneg_nonneg; lia).
    assert (sat_sub_u32 W w = W - w) as -> by (unfold sat_sub_u32; lia).
    assert ((if 0 <? y0 * W + x0 then snd (snth (Z.to_nat (y0 * W + x0 - 1)) cs) else cs)
            = sdrop (Z.to_nat (y0 * W + x0)) cs) as ->.
    { destruct (0 <? y0 * W + x0) eqn:E.
      - rewrite <- (sdrop_0 cs) at 1. rewrite snth_sdrop. cbn [snd]. f_equal. lia.
      - replace (y0 * W + x0) with 0 by lia. symmetry. apply sdrop_0. }
    replace (sz ca) with (S w h) by (destruct (sz ca); reflexivity).
    unfold cropped_fuel. cbn [c_size sw sh].
    rewrite crop_rem_start by lia.
    pose proof (cropped_collect_spec cs W x0 y0 w h ltac:(lia) Hx0 Hy0 Hw Hh Hx1
                  (Datatypes.S (Z.to_nat (w * h))) x0 y0 ltac:(lia) ltac:(lia)) as Hsp.
    replace (x0 - x0) with 0 in Hsp by lia. replace (y0 - y0) with 0 in Hsp by lia.
    rewrite Hsp.
    + f_equal. apply map_ext. intros q. unfold idx_in. cbn [tl sz px py sw]. f_equal. lia.
    + rewrite <- crop_rem_start by lia. pose proof (length_row_major x0 (x0 + w) y0 (y0 + h)). nia.
Qed.

(* the fuel the model passes is never exhausted *)
Theorem cropped_fuel_ok cs size crop :
  size_fits size -> size_nonneg crop ->
  let st := cropped_new cs size crop in cropped_collect (cropped_fuel st) st <> None.
Proof.
  intros Hs Hc st. pose proof (cropped_iter_spec cs size crop Hs Hc) as Hspec.
  unfold cropped_iter in Hspec. fold st in Hspec.
  (* replay the two cases of the proof above through the collected list *)
  subst st. unfold cropped_new in *.
  set (ca := intersection (R (P 0 0) size) crop) in *.
  assert (size_nonneg (R (P 0 0) size)) as Hn by (unfold size_fits, size_nonneg in *; cbn [sz]; lia).
  pose proof (intersection_size_nonneg _ _ Hn Hc) as Hcn. fold ca in Hcn.
  destruct (is_zero_sized ca) eqn:Ez.
  - unfold cropped_fuel. cbn [c_size cropped_collect]. unfold cropped_next. cbn [c_size c_y c_x].
    replace ((sh (sz ca) <=? 0) || (sw (sz ca) =? 0)) with true; [discriminate|].
    unfold is_zero_sized, size_nonneg in *. lia.
  - pose proof (intersection_inside _ _ Hn Hc Ez) as Hin. fold ca in Hin. cbn [tl sz px py] in Hin.
    cbv zeta in Hin. destruct Hin as (Hx0 & Hx1 & Hy0 & Hy1 & _ & _ & _ & _ & Hw & Hh).
    destruct size as [W H]. unfold size_fits in Hs. cbn [sw sh] in *.
    set (x0 := px (tl ca)) in *. set (y0 := py (tl ca)) in *. set (w := sw (sz ca)) in *. set (h := sh (sz ca)) in *.
    assert (0 <= y0 * W) by (apply Z.mul_nonneg_nonneg; lia).
    assert (sat_sub_u32 W w = W - w) as -> by (unfold sat_sub_u32; lia).
    assert ((if 0 <? y0 * W + x0 then snd (snth (Z.to_nat (y0 * W + x0 - 1)) cs) else cs)
            = sdrop (Z.to_nat (y0 * W + x0)) cs) as ->.
    { destruct (0 <? y0 * W + x0) eqn:E.
      - rewrite <- (sdrop_0 cs) at 1. rewrite snth_sdrop. cbn [snd]. f_equal. lia.
      - replace (y0 * W + x0) with 0 by lia. symmetry. apply sdrop_0. }
    replace (sz ca) with (S w h) by (destruct (sz ca); reflexivity).
    unfold cropped_fuel. cbn [c_size sw sh].
    pose proof (cropped_collect_spec cs W x0 y0 w h ltac:(lia) Hx0 Hy0 Hw Hh Hx1
                  (Datatypes.S (Z.to_nat (w * h))) x0 y0 ltac:(lia) ltac:(lia)) as Hsp.
    replace (x0 - x0) with 0 in Hsp by lia. replace (y0 - y0) with 0 in Hsp by lia.
    rewrite Hsp; [discriminate|].
    rewrite <- crop_rem_start by lia. pose proof (length_row_major x0 (x0 + w) y0 (y0 + h)). nia.
Qed.

(* ---- geometry helpers for the adapters ---------------------------------------------------------- *)
Lemma intersection_size_fits a b :
  size_fits (sz a) -> size_fits (sz b) -> size_fits (sz (intersection a b)).
Proof.
  unfold size_fits, i32_max. destr_rects. unf. intros Ha Hb. split_ifs; cbn [tl sz px py sw sh]; lia.
Qed.

(* a non-empty rectangle lying inside another one is their intersection *)
Lemma intersection_sub a b :
  0 < sw (sz b) -> 0 < sh (sz b) ->
  px (tl a) <= px (tl b) -> px (tl b) + sw (sz b) <= px (tl a) + sw (sz a) ->
  py (tl a) <= py (tl b) -> py (tl b) + sh (sz b) <= py (tl a) + sh (sz a) ->
  intersection a b = b.
Proof.
  destr_rects. unf. intros. split_ifs; cbn [tl sz px py sw sh]; try (exfalso; lia); (f_equal; f_equal; lia).
Qed.

Lemma translate_rect_back r d : translate_rect (translate_rect r (pneg d)) d = r.
Proof. destruct r as [t s]. unfold translate_rect. cbn [tl sz]. rewrite padd_pneg. reflexivity. Qed.

Lemma idx_in_translate r d q : idx_in (translate_rect r d) (padd q d) = idx_in r q.
Proof. unfold idx_in, translate_rect, padd. cbn [tl sz px py]. f_equal; [f_equal|]; lia. Qed.

Lemma idx_lt W a b :
  0 <= W -> lt_yx a b -> 0 <= px a < W -> 0 <= px b < W -> py a * W + px a < py b * W + px b.
Proof.
  intros HW [Hy|[Hy Hx]] Ha Hb; [|rewrite Hy; lia].
  assert ((py a + 1) * W <= py b * W) by (apply Z.mul_le_mono_nonneg_r; lia). lia.
Qed.

Lemma sget_smap f cs i : sget (smap f cs) i = match sget cs i with Some c => Some (f c) | None => None end.
Proof.
  destruct cs as [l|c]; cbn [smap sget]; [|reflexivity].
  rewrite nth_error_map. destruct (nth_error l _); reflexivity.
Qed.

(* ---- Clipped::fill_contiguous: the re-cut colour stream pairs every point with its original colour -- *)
Lemma cropped_iter_nth cs ca area q :
  size_fits (sz area) -> size_nonneg ca ->
  contains (intersection ca area) q = true ->
  nth_error (cropped_iter cs (sz area) (translate_rect (intersection ca area) (pneg (tl area))))
            (Z.to_nat (idx_in (intersection ca area) q))
  = sget cs (idx_in area q).
Proof.
  intros Hs Hca Hq. set (inter := intersection ca area) in *.
  pose proof (size_fits_nonneg _ Hs) as Han.
  assert (is_zero_sized inter = false) as Ez.
  { apply contains_spec in Hq. unfold is_zero_sized. lia. }
  pose proof (intersection_inside ca area Hca Han Ez) as Hin. fold inter in Hin. cbv zeta in Hin.
  destruct Hin as (_ & _ & _ & _ & Hx0 & Hx1 & Hy0 & Hy1 & Hw & Hh).
  set (T := translate_rect inter (pneg (tl area))).
  assert (size_nonneg T) as HTn by (unfold T, size_nonneg, translate_rect; cbn [sz]; lia).
  rewrite cropped_iter_spec by assumption.
  assert (intersection (R (P 0 0) (sz area)) T = T) as ->.
  { apply intersection_sub; unfold T, translate_rect, padd, pneg; cbn [tl sz px py]; lia. }
  assert (rect_fits T) as HTf.
  { unfold size_fits in Hs. unfold T, rect_fits, size_fits, translate_rect, padd, pneg, i32_max, i32_min in *.
    cbn [tl sz px py]. lia. }
  set (q' := padd q (pneg (tl area))).
  assert (contains T q' = true) as Hq' by (unfold T, q'; rewrite contains_translate; assumption).
  pose proof (points_nth T q' HTf Hq') as Hn.
  assert (idx_in T q' = idx_in inter q) as Ei by (unfold T, q'; apply idx_in_translate).
  rewrite Ei in Hn.
  set (g := fun p => sget cs (idx_in (R (P 0 0) (sz area)) p)).
  assert (g q' = sget cs (idx_in area q)) as Eg.
  { unfold g, q', idx_in, padd, pneg. cbn [tl sz px py]. f_equal. f_equal; [f_equal|]; lia. }
  pose proof (map_nth_error g _ _ Hn) as Hl. rewrite Eg in Hl.
  (* all points of T have 0 <= x < width *)
  assert (forall p, In p (points T) -> 0 <= px p < sw (sz area) /\ 0 <= py p) as Hrange.
  { intros p Hp. apply (points_in_fits T p HTf) in Hp. apply contains_spec in Hp.
    unfold T, translate_rect, padd, pneg in Hp. cbn [tl sz px py] in Hp. lia. }
  destruct (sget cs (idx_in area q)) as [c|] eqn:Ec.
  - apply take_some_nth; [assumption|]. intros j Hj Hnone.
    rewrite nth_error_map in Hnone. destruct (nth_error (points T) j) as [pj|] eqn:Epj; [|discriminate].
    cbn [option_map] in Hnone. inversion Hnone as [Hg].
    pose proof (StronglySorted_nth _ _ (points_sorted_fits T HTf) _ _ _ _ Hj Epj Hn) as Hlt.
    pose proof (Hrange pj (nth_error_In _ _ Epj)) as [Hpx Hpy].
    pose proof (Hrange q' (nth_error_In _ _ Hn)) as [Hqx Hqy].
    pose proof (idx_lt (sw (sz area)) pj q' ltac:(lia) Hlt Hpx Hqx) as Hidx.
    assert (0 <= py pj * sw (sz area)) by (apply Z.mul_nonneg_nonneg; lia).
    revert Hg. unfold g. apply sget_mono with (b := idx_in (R (P 0 0) (sz area)) q').
    + unfold idx_in. cbn [tl sz px py]. lia.
    + fold (g q'). rewrite Eg. discriminate.
  - destruct (nth_error (take_some _) _) as [c'|] eqn:E; [|reflexivity].
    apply take_some_nth_inv in E. congruence.
Qed.

(* ---- one adapter, in terms of the reference semantics --------------------------------------------- *)
Lemma free_clip own F ca c m q :
  call_sizes c -> size_nonneg ca ->
  free_paint own F (clip_call ca c) m q = if contains ca q then free_paint ca F c m q else m q.
Proof.
  intros Hc Hca. destruct c as [ps|area cs|area col|col]; cbn [clip_call call_sizes] in *.
  - cbn [free_paint]. rewrite last_write_filter_fst. destruct (contains ca q); reflexivity.
  - destruct (rect_eqb (intersection ca area) area) eqn:Efast.
    + apply rect_eqb_eq in Efast. cbn [free_paint].
      destruct (contains ca q) eqn:Hq; [reflexivity|].
      rewrite <- Efast, intersection_spec, Hq. reflexivity.
    + cbn [free_paint sget]. rewrite intersection_spec at 1.
      destruct (contains ca q) eqn:Hq; cbn [andb]; [|reflexivity].
      destruct (contains area q) eqn:Ha; [|reflexivity].
      rewrite cropped_iter_nth; try assumption; [reflexivity|].
      rewrite intersection_spec, Hq, Ha. reflexivity.
  - unfold clip_fill_solid. cbn [free_paint]. rewrite intersection_spec.
    destruct (contains area q), (contains ca q); reflexivity.
  - unfold clip_fill_solid. cbn [free_paint]. rewrite intersection_spec.
    destruct (contains ca q); reflexivity.
Qed.

Lemma free_transl own F d c m q :
  free_paint own F (transl_call d c) m (padd q d) = free_paint (translate_rect own (pneg d)) F c (shift d m) q.
Proof.
  destruct c as [ps|area cs|area col|col]; cbn [transl_call free_paint]; unfold shift.
  - unfold translate_pixels.
    rewrite (last_write_map_fst (fun a => padd a d) (fun a => padd a (pneg d)))
      by (intros; first [apply padd_pneg'|apply padd_pneg]).
    rewrite padd_pneg'. reflexivity.
  - rewrite contains_translate, idx_in_translate. reflexivity.
  - rewrite contains_translate. reflexivity.
  - rewrite <- (contains_translate (translate_rect own (pneg d)) d q), translate_rect_back. reflexivity.
Qed.

Lemma free_crop own F off size c m q :
  free_paint own F (crop_call off size c) m (padd q off) = free_paint (R (P 0 0) size) F c (shift off m) q.
Proof.
  destruct c as [ps|area cs|area col|col]; cbn [crop_call]; rewrite free_transl; reflexivity.
Qed.

Lemma free_conv own F f c m q :
  free_paint own F (conv_call f c) m q = free_paint own (fun x => F (f x)) c m q.
Proof.
  destruct c as [ps|area cs|area col|col]; cbn [conv_call free_paint]; try reflexivity.
  - rewrite last_write_map_snd. destruct (last_write q ps); reflexivity.
  - rewrite sget_smap. destruct (contains area q); [|reflexivity]. destruct (sget cs _); reflexivity.
Qed.

(* ---- stacks ------------------------------------------------------------------------------------- *)
(* every call on an adapter becomes exactly one call on its parent *)
Fixpoint lower_call (st : list adapter) (bb : rect) (c : call) : call :=
  match st with
  | [] => c
  | ad :: rest => lower_call rest bb (lower1c ad (bbox_stack rest bb) c)
  end.

Lemma lower_singleton st bb c : lower st bb c = [lower_call st bb c].
Proof.
  revert c; induction st as [|ad rest IH]; intros c; cbn [lower lower_call lower1 flat_map]; [reflexivity|].
  rewrite app_nil_r. apply IH.
Qed.

(* The geometric content of a stack: the box it reports, which of its points reach the root target,
   the shift from its coordinates to root coordinates, the composed colour map. *)
Record geo := G { g_box : rect; g_vis : point -> bool; g_off : point; g_col : color -> color }.

Definition geo_step (ad : adapter) (g : geo) : geo :=
  match ad with
  | Clip a => let b := intersection a (g_box g) in
              G b (fun q => g_vis g q && contains b q) (g_off g) (g_col g)
  | Crop a => let i := intersection a (g_box g) in
              G (R (P 0 0) (sz i)) (fun q => g_vis g (padd q (tl i))) (padd (tl i) (g_off g)) (g_col g)
  | Transl d => G (translate_rect (g_box g) (pneg d)) (fun q => g_vis g (padd q d)) (padd d (g_off g)) (g_col g)
  | Conv f => G (g_box g) (g_vis g) (g_off g) (fun x => g_col g (f x))
  end.

Fixpoint geo_of (st : list adapter) (bb : rect) : geo :=
  match st with
  | [] => G bb (contains bb) (P 0 0) idc
  | ad :: rest => geo_step ad (geo_of rest bb)
  end.

Lemma geo_box st bb : g_box (geo_of st bb) = bbox_stack st bb.
Proof.
  induction st as [|ad rest IH]; cbn [geo_of bbox_stack g_box]; [reflexivity|].
  destruct ad; cbn [geo_step g_box bbox_of]; rewrite IH; reflexivity.
Qed.

Lemma bbox_stack_sizes st bb :
  size_fits (sz bb) -> Forall adapter_sizes st -> size_fits (sz (bbox_stack st bb)).
Proof.
  intros Hb Hst. induction Hst as [|ad rest Had Hrest IH]; cbn [bbox_stack]; [assumption|].
  destruct ad; cbn [bbox_of adapter_sizes sz] in *; try assumption;
    try (apply intersection_size_fits; assumption).
Qed.

Lemma lower1c_sizes ad B c :
  adapter_sizes ad -> size_fits (sz B) -> call_sizes c -> call_sizes (lower1c ad B c).
Proof.
  intros Had HB Hc. destruct ad as [a|a|d|f]; cbn [lower1c adapter_sizes] in *.
  - pose proof (intersection_size_fits a B Had HB) as Hi.
    destruct c as [ps|area cs|area col|col]; cbn [clip_call call_sizes clip_fill_solid] in *; try exact I.
    + destruct (rect_eqb _ area); cbn [call_sizes]; [assumption|apply intersection_size_fits; assumption].
    + apply intersection_size_fits; assumption.
    + apply intersection_size_fits; assumption.
  - pose proof (intersection_size_fits a B Had HB) as Hi.
    destruct c as [ps|area cs|area col|col]; cbn [crop_call transl_call call_sizes translate_rect sz] in *; try exact I; try assumption.
  - destruct c; cbn [transl_call call_sizes translate_rect sz] in *; assumption.
  - destruct c; cbn [conv_call call_sizes] in *; assumption.
Qed.

Theorem stack_compose st bb k :
  size_fits (sz bb) -> Forall adapter_sizes st ->
  forall c m q, call_sizes c ->
  (k = DefaultOnly -> rect_fits bb /\ call_fits (lower_call st bb c)) ->
  paint_all bb k (lower st bb c) m (padd q (g_off (geo_of st bb))) =
  if g_vis (geo_of st bb) q
  then free_paint (g_box (geo_of st bb)) (g_col (geo_of st bb)) c (shift (g_off (geo_of st bb)) m) q
  else m (padd q (g_off (geo_of st bb))).
Proof.
  intros Hb Hst. induction Hst as [|ad rest Had Hrest IH]; intros c m q Hc Hk.
  - cbn [lower geo_of g_off g_vis g_box g_col paint_all fold_left lower_call] in *.
    rewrite padd_zero. rewrite paint_root by assumption.
    destruct (contains bb q); [|reflexivity].
    apply free_paint_local. unfold shift. rewrite padd_zero. reflexivity.
  - cbn [lower lower1 flat_map lower_call] in *. rewrite app_nil_r.
    pose proof (bbox_stack_sizes rest bb Hb Hrest) as HB.
    pose proof (lower1c_sizes ad _ c Had HB Hc) as Hc'.
    specialize (IH (lower1c ad (bbox_stack rest bb) c) m).
    cbn [geo_of]. rewrite <- (geo_box rest bb) in *. set (g := geo_of rest bb) in *.
    destruct ad as [a|a|d|f]; cbn [geo_step g_off g_vis g_box g_col lower1c] in *.
    + rewrite (IH q Hc' Hk).
      rewrite free_clip; [|assumption|apply size_fits_nonneg, intersection_size_fits; assumption].
      unfold shift. destruct (g_vis g q), (contains (intersection a (g_box g)) q); reflexivity.
    + rewrite <- padd_assoc. rewrite (IH (padd q (tl (intersection a (g_box g)))) Hc' Hk).
      destruct (g_vis g _); [|reflexivity].
      rewrite free_crop. apply free_paint_local. unfold shift. rewrite padd_assoc. reflexivity.
    + rewrite <- padd_assoc. rewrite (IH (padd q d) Hc' Hk).
      destruct (g_vis g _); [|reflexivity].
      rewrite free_transl. apply free_paint_local. unfold shift. rewrite padd_assoc. reflexivity.
    + rewrite (IH q Hc' Hk). destruct (g_vis g q); [|reflexivity]. apply free_conv.
Qed.

(* ---- the four adapters, stated on the real parent target ------------------------------------------- *)
Lemma clip_call_fits ca c : rect_fits ca -> call_fits c -> call_fits (clip_call ca c).
Proof.
  intros Ha Hc. destruct c as [ps|area cs|area col|col]; cbn [clip_call call_fits clip_fill_solid] in *; try exact I.
  - destruct (rect_eqb _ area); cbn [call_fits]; [assumption|apply intersection_fits; assumption].
  - apply intersection_fits; assumption.
  - apply intersection_fits; assumption.
Qed.

Lemma rect_fits_nonneg r : rect_fits r -> size_nonneg r.
Proof. intros [H _]. apply size_fits_nonneg. exact H. Qed.

Theorem clip_no_escape a bb k c m p :
  rect_fits a -> rect_fits bb -> call_fits c ->
  contains (intersection a bb) p = false ->
  paint bb k (lower1c (Clip a) bb c) m p = m p.
Proof.
  intros Ha Hb Hc Hp. cbn [lower1c]. pose proof (intersection_fits a bb Ha Hb) as Hi.
  rewrite paint_root by (intros _; split; [assumption|apply clip_call_fits; assumption]).
  rewrite free_clip by (first [apply call_fits_sizes; assumption|apply rect_fits_nonneg; assumption]).
  rewrite Hp. destruct (contains bb p); reflexivity.
Qed.

Theorem clip_exact a bb k c m p :
  rect_fits a -> rect_fits bb -> call_fits c ->
  contains (intersection a bb) p = true ->
  paint bb k (lower1c (Clip a) bb c) m p = paint bb k c m p.
Proof.
  intros Ha Hb Hc Hp. cbn [lower1c]. pose proof (intersection_fits a bb Ha Hb) as Hi.
  rewrite paint_root by (intros _; split; [assumption|apply clip_call_fits; assumption]).
  rewrite (paint_root bb k c) by (intros _; split; assumption).
  rewrite free_clip by (first [apply call_fits_sizes; assumption|apply rect_fits_nonneg; assumption]).
  rewrite Hp. pose proof (intersection_sub_r _ _ _ Hp) as Hbb. rewrite Hbb.
  apply free_paint_own. congruence.
Qed.

Theorem transl_bbox d bb q :
  contains (bbox_of (Transl d) bb) q = contains bb (padd q d) /\ sz (bbox_of (Transl d) bb) = sz bb.
Proof.
  cbn [bbox_of]. split; [|reflexivity].
  rewrite <- (contains_translate (translate_rect bb (pneg d)) d q), translate_rect_back. reflexivity.
Qed.

(* a translated target is exactly a target whose box is the shifted box, seen through the shift *)
Theorem transl_exact d bb k c m q :
  (k = DefaultOnly -> rect_fits bb /\ call_fits (transl_call d c)) ->
  paint bb k (lower1c (Transl d) bb c) m (padd q d) =
  if contains (bbox_of (Transl d) bb) q
  then free_paint (bbox_of (Transl d) bb) idc c (shift d m) q
  else m (padd q d).
Proof.
  intros H. cbn [lower1c]. rewrite paint_root by assumption.
  rewrite (proj1 (transl_bbox d bb q)). rewrite free_transl. reflexivity.
Qed.

Theorem transl_exact_paint d bb k c m q :
  (k = DefaultOnly -> rect_fits bb /\ call_fits (transl_call d c) /\ rect_fits (bbox_of (Transl d) bb) /\ call_fits c) ->
  paint bb k (lower1c (Transl d) bb c) m (padd q d) = paint (bbox_of (Transl d) bb) k c (shift d m) q.
Proof.
  intros H. rewrite transl_exact by (intros E; destruct (H E) as (? & ? & _); split; assumption).
  rewrite (paint_root (bbox_of (Transl d) bb)) by (intros E; destruct (H E) as (_ & _ & ? & ?); split; assumption).
  reflexivity.
Qed.

(* a cropped target: origin at the top left of (area /\ parent box), reported box (0,0,size of that
   intersection), and NO clipping: whatever the parent accepts is drawn *)
Theorem crop_exact a bb k c m q :
  let i := intersection a bb in
  (k = DefaultOnly -> rect_fits bb /\ call_fits (crop_call (tl i) (sz i) c)) ->
  bbox_of (Crop a) bb = R (P 0 0) (sz i) /\
  paint bb k (lower1c (Crop a) bb c) m (padd q (tl i)) =
  if contains bb (padd q (tl i))
  then free_paint (R (P 0 0) (sz i)) idc c (shift (tl i) m) q
  else m (padd q (tl i)).
Proof.
  intros i H. split; [reflexivity|]. cbn [lower1c]. fold i. rewrite paint_root by assumption.
  rewrite free_crop. reflexivity.
Qed.

Lemma conv_call_fits f c : call_fits (conv_call f c) <-> call_fits c.
Proof. destruct c; cbn [conv_call call_fits]; tauto. Qed.

Theorem conv_exact f bb k c m q :
  (k = DefaultOnly -> rect_fits bb /\ call_fits c) ->
  bbox_of (Conv f) bb = bb /\
  paint bb k (lower1c (Conv f) bb c) m q = if contains bb q then free_paint bb f c m q else m q.
Proof.
  intros H. split; [reflexivity|]. cbn [lower1c].
  rewrite paint_root by (intros E; destruct (H E); split; [assumption|apply conv_call_fits; assumption]).
  rewrite free_conv. reflexivity.
Qed.

(* every point of the box a stack reports can really be drawn (reaches the root target) *)
Theorem bbox_visible st bb q :
  contains (bbox_stack st bb) q = true -> g_vis (geo_of st bb) q = true.
Proof.
  revert q. induction st as [|ad rest IH]; intros q H; cbn [geo_of bbox_stack g_vis] in *; [assumption|].
  rewrite <- geo_box in *. set (g := geo_of rest bb) in *.
  destruct ad as [a|a|d|f]; cbn [geo_step g_vis bbox_of] in *.
  - rewrite H. rewrite (IH q (intersection_sub_r _ _ _ H)). reflexivity.
  - apply IH. apply (intersection_sub_r a). apply contains_spec. apply contains_spec in H.
    unfold padd. cbn [tl sz px py] in *. lia.
  - apply IH. rewrite <- (contains_translate (translate_rect (g_box g) (pneg d)) d q), translate_rect_back in H. assumption.
  - apply IH. assumption.
Qed.

(* a clipped stack draws nowhere outside the box it reports *)
Theorem clip_vis_in_box a rest bb q :
  g_vis (geo_of (Clip a :: rest) bb) q = true -> contains (bbox_stack (Clip a :: rest) bb) q = true.
Proof.
  cbn [geo_of geo_step g_vis bbox_stack bbox_of]. rewrite geo_box. intros H. apply andb_true_iff in H. tauto.
Qed.

(* ---- histories ----------------------------------------------------------------------------------- *)
Definition free_all (own : rect) (F : color -> color) (cs : list call) (m : pixmap) : pixmap :=
  fold_left (fun M c => free_paint own F c M) cs m.

Lemma free_all_local own F cs m m' q : m q = m' q -> free_all own F cs m q = free_all own F cs m' q.
Proof.
  unfold free_all. revert m m'. induction cs as [|c cs IH]; intros m m' H; cbn [fold_left]; [assumption|].
  apply IH. apply free_paint_local. assumption.
Qed.

Lemma paint_all_app bb k l1 l2 m : paint_all bb k (l1 ++ l2) m = paint_all bb k l2 (paint_all bb k l1 m).
Proof. unfold paint_all. apply fold_left_app. Qed.

Definition op_ok (st : list adapter) (bb : rect) (k : kind) (c : call) : Prop :=
  call_sizes c /\ (k = DefaultOnly -> rect_fits bb /\ call_fits (lower_call st bb c)).

Theorem stack_history st bb k ops :
  size_fits (sz bb) -> Forall adapter_sizes st -> Forall (op_ok st bb k) ops ->
  forall m q,
  paint_all bb k (flat_map (lower st bb) ops) m (padd q (g_off (geo_of st bb))) =
  if g_vis (geo_of st bb) q
  then free_all (g_box (geo_of st bb)) (g_col (geo_of st bb)) ops (shift (g_off (geo_of st bb)) m) q
  else m (padd q (g_off (geo_of st bb))).
Proof.
  intros Hb Hst Hops. induction Hops as [|c ops [Hc Hk] Hops IH]; intros m q; cbn [flat_map].
  - unfold paint_all, free_all. cbn [fold_left]. unfold shift. destruct (g_vis _ q); reflexivity.
  - rewrite paint_all_app, IH. pose proof (stack_compose st bb k Hb Hst c m q Hc Hk) as H1.
    destruct (g_vis (geo_of st bb) q); [|assumption].
    unfold free_all at 2. cbn [fold_left]. fold (free_all (g_box (geo_of st bb)) (g_col (geo_of st bb)) ops).
    apply free_all_local. unfold shift at 1. assumption.
Qed.

(* the executable side (what the extracted model replays): ordered stores of a history through a stack *)
Lemma run_stack_writes_all bb k st ops :
  run_stack bb k st ops = writes_all bb k (flat_map (lower st bb) ops).
Proof.
  unfold run_stack, writes_all. induction ops as [|op ops IH]; cbn [flat_map]; [reflexivity|].
  rewrite flat_map_app, IH. reflexivity.
Qed.

Theorem run_stack_render bb k st ops p :
  rect_fits bb -> Forall call_fits (flat_map (lower st bb) ops) ->
  last_write p (run_stack bb k st ops) = render bb k (flat_map (lower st bb) ops) p.
Proof. intros Hb H. rewrite run_stack_writes_all. symmetry. apply render_writes; assumption. Qed.

(* ---- call level: what a clipped target hands to its parent lies inside clip /\ parent box ---------------- *)
(* (for a parent that does not bounds-check, which is what `clipped` is for) *)
Definition call_within (r : rect) (c : call) : Prop :=
  match c with
  | DrawIter ps => Forall (fun pc => contains r (fst pc) = true) ps
  | FillContiguous a _ | FillSolid a _ => forall p, contains a p = true -> contains r p = true
  | Clear _ => False        (* a Clear would be the parent's whole box *)
  end.

Theorem clip_call_within ca c : call_within ca (clip_call ca c).
Proof.
  destruct c as [ps|area cs|area col|col]; cbn [clip_call call_within clip_fill_solid].
  - apply Forall_forall. intros pc Hin. apply filter_In in Hin. tauto.
  - destruct (rect_eqb (intersection ca area) area) eqn:E; cbn [call_within]; intros p Hp.
    + apply rect_eqb_eq in E. rewrite <- E in Hp. eapply intersection_sub_l; eassumption.
    + eapply intersection_sub_l; eassumption.
  - intros p Hp. eapply intersection_sub_r; eassumption.
  - intros p Hp. eapply intersection_sub_r; eassumption.
Qed.

Theorem clip_lower_within a bb c : call_within (intersection a bb) (lower1c (Clip a) bb c).
Proof. cbn [lower1c]. apply clip_call_within. Qed.

(* the same on an unbounded canvas: a parent that stores every pixel it is handed, whatever its box *)
Theorem clip_call_confined own F a bb c m q :
  call_sizes c -> size_nonneg (intersection a bb) ->
  free_paint own F (lower1c (Clip a) bb c) m q =
  if contains (intersection a bb) q then free_paint (intersection a bb) F c m q else m q.
Proof. intros. cbn [lower1c]. apply free_clip; assumption. Qed.

(* a call that lies within r changes nothing outside r, even on an unbounded canvas *)
Lemma call_within_untouched own F r c m q :
  call_within r c -> contains r q = false -> free_paint own F c m q = m q.
Proof.
  destruct c as [ps|area cs|area col|col]; cbn [call_within free_paint]; intros H Hq.
  - assert (last_write q ps = None) as ->; [|reflexivity].
    induction ps as [|[p col] ps IH]; cbn [last_write]; [reflexivity|].
    inversion H as [|? ? Hp Hps]; subst. rewrite (IH Hps). cbn [fst] in Hp.
    rewrite point_eqb_neq; [reflexivity|]. intros ->. congruence.
  - destruct (contains area q) eqn:E; [|reflexivity]. rewrite (H q E) in Hq. discriminate.
  - destruct (contains area q) eqn:E; [|reflexivity]. rewrite (H q E) in Hq. discriminate.
  - contradiction.
Qed.

(* ---- ContiguousIteratorExt::into_pixels: the second copy of the row-major pairing ------------------------------- *)
Theorem into_pixels_spec area cs p :
  rect_fits area ->
  last_write p (into_pixels area cs) = if contains area p then sget cs (idx_in area p) else None.
Proof. apply last_write_szip_points. Qed.

Theorem into_pixels_default_fill bb area cs m :
  draw_iter bb (into_pixels area cs) m = default_fill_contiguous bb area cs m.
Proof. reflexivity. Qed.

(* every point at most once, in row-major order: the positions are a prefix of area.points() *)
Theorem into_pixels_positions area (l : list color) :
  map fst (into_pixels area (Fin l)) = firstn (length l) (points area).
Proof.
  unfold into_pixels. cbn [szip]. generalize (points area) as pts. intros pts. revert l.
  induction pts as [|a pts IH]; intros [|c l]; cbn [zip map fst length firstn]; try reflexivity.
  rewrite IH. reflexivity.
Qed.
