(* Bridge: the image part's private target semantics (Proofs/Imageraw.v render over call_writes; Proofs/Imagecross.v
   render_default / render_native) is Model/Target.v's render of the same fill_contiguous calls, on both kinds of target. *)
From EG Require Import Base.Prelude Base.Lemmas Model.Geometry Proofs.Geometry Model.Target Proofs.Target.
From EG Require Model.Imageraw Proofs.Imageraw Proofs.Imagecross.

Set Default Timeout 60.

Definition icall_to_call (c : Model.Imageraw.icall) : call :=
  match c with Model.Imageraw.FillContiguous area cs => FillContiguous area (Fin cs) end.
Definition image_calls (l : list Model.Imageraw.icall) : list call := map icall_to_call l.

Lemma img_last_write_eq q ws : Proofs.Imageraw.last_write q ws = last_write q ws.
Proof.
  induction ws as [|[p c] ws IH]; cbn [Proofs.Imageraw.last_write last_write]; [reflexivity|]. rewrite IH. reflexivity.
Qed.

Lemma img_writes_eq bb l : Proofs.Imageraw.writes bb l = writes_all bb DefaultOnly (image_calls l).
Proof.
  unfold Proofs.Imageraw.writes, writes_all, image_calls.
  induction l as [|[area cs] l IH]; cbn [flat_map map]; [reflexivity|]. rewrite IH. reflexivity.
Qed.

(* draw_iter-only target: no hypothesis *)
Theorem image_render_default bb l q :
  Proofs.Imagecross.render_default bb l q = render bb DefaultOnly (image_calls l) q.
Proof.
  unfold Proofs.Imagecross.render_default, Proofs.Imageraw.render.
  rewrite render_writes_default, img_writes_eq, img_last_write_eq. reflexivity.
Qed.

(* native target: no hypothesis *)
Lemma native_pix_paint bb c m q :
  paint bb Native (icall_to_call c) m q =
  match Proofs.Imagecross.native_pix bb c q with Some v => Some v | None => m q end.
Proof.
  destruct c as [area cs]. cbn [icall_to_call paint Proofs.Imagecross.native_pix]. unfold native_fill_contiguous.
  rewrite (andb_comm (contains area q)). destruct (contains bb q && contains area q); [|reflexivity].
  cbn [sget]. unfold idx_in. reflexivity.
Qed.

Theorem image_render_native bb l q :
  Proofs.Imagecross.render_native bb l q = render bb Native (image_calls l) q.
Proof.
  unfold render, paint_all, image_calls.
  assert (forall m, fold_left (fun m c => paint bb Native c m) (map icall_to_call l) m q =
                    match Proofs.Imagecross.render_native bb l q with Some v => Some v | None => m q end) as H.
  { induction l as [|c l IH]; intros m; cbn [map fold_left Proofs.Imagecross.render_native]; [reflexivity|].
    rewrite IH. destruct (Proofs.Imagecross.render_native bb l q); [reflexivity|]. apply native_pix_paint. }
  rewrite H. unfold empty_map. destruct (Proofs.Imagecross.render_native bb l q); reflexivity.
Qed.

(* Image / SubImage on the target model: either kind of target shows pixel(q - o) inside box /\ target box *)
Theorem image_render_target d o bb k q :
  Proofs.Imageraw.d_wf d -> point_ok o ->
  render bb k (image_calls (Model.Imageraw.image_draw (Model.Imageraw.Img d o))) q =
  (if contains bb q && contains (Model.Imageraw.image_box (Model.Imageraw.Img d o)) q
   then Proofs.Imageraw.d_pixel d (psub q o) else None).
Proof.
  intros H Ho. destruct (Proofs.Imagecross.image_default_eq_native d o bb q H Ho) as [E1 E2].
  destruct k.
  - rewrite <- image_render_default, E1. exact E2.
  - rewrite <- image_render_native. exact E2.
Qed.

Theorem image_default_native_target d o bb q :
  Proofs.Imageraw.d_wf d -> point_ok o ->
  render bb DefaultOnly (image_calls (Model.Imageraw.image_draw (Model.Imageraw.Img d o))) q =
  render bb Native (image_calls (Model.Imageraw.image_draw (Model.Imageraw.Img d o))) q.
Proof. intros H Ho. rewrite !image_render_target by assumption. reflexivity. Qed.
