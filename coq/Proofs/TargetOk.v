(* C08 part "targets": the arithmetic of the adapters and of the Cropped colour iterator stays inside
   i32 / u32 / (32 bit) usize on display-scale inputs, for adapter stacks up to depth 64. *)
From EG Require Import Base.Prelude Base.Lemmas Model.Geometry Model.Target Model.TargetOk Proofs.Geometry Proofs.Target.
From Coq Require Import ZifyBool.

Set Default Timeout 60.

(* ---- magnitude predicates ------------------------------------------------------------------- *)
Definition pt_small (N : Z) (p : point) : Prop := - N <= px p <= N /\ - N <= py p <= N.
Definition rect_small (N S : Z) (r : rect) : Prop :=
  pt_small N (tl r) /\ 0 <= sw (sz r) <= S /\ 0 <= sh (sz r) <= S.
Definition call_small (N S : Z) (c : call) : Prop :=
  match c with
  | DrawIter ps => Forall (fun pc => pt_small N (fst pc)) ps
  | FillContiguous a _ | FillSolid a _ => rect_small N S a
  | Clear _ => True
  end.
Definition ad_small (D S : Z) (ad : adapter) : Prop :=
  match ad with
  | Clip a | Crop a => rect_small D S a
  | Transl d => pt_small D d
  | Conv _ => True
  end.

Definition lim : Z := 268435456. (* 2^28 *)
Definition slim : Z := 32768.    (* 2^15: width * height of a fill area fits a 32 bit usize *)

Lemma pt_small_mono N N' p : N <= N' -> pt_small N p -> pt_small N' p.
Proof. unfold pt_small. lia. Qed.

Lemma rect_small_mono N N' S r : N <= N' -> rect_small N S r -> rect_small N' S r.
Proof. unfold rect_small, pt_small. lia. Qed.

Lemma call_small_mono N N' S c : N <= N' -> call_small N S c -> call_small N' S c.
Proof.
  intros H. destruct c; cbn [call_small]; try apply rect_small_mono; try assumption; try tauto.
  intros Hf. eapply Forall_impl; [|exact Hf]. intros a. apply pt_small_mono. assumption.
Qed.

Ltac unsmall := unfold rect_small, pt_small, lim, slim in *.
Ltac unok := unfold inter_ok, br_ok, translate_ok, padd_ok, pneg_ok, point_i32, in_i32, in_u32, i32_max, i32_min, u32_max in *.

(* ---- single operations ----------------------------------------------------------------------- *)
Lemma br_ok_small N S r : rect_small N S r -> N + S <= lim -> br_ok r = true.
Proof. unsmall. unok. destr_rects. cbn [tl sz px py sw sh]. intros. destruct (_ && _); lia. Qed.

Lemma inter_ok_small N S a b :
  rect_small N S a -> rect_small N S b -> 0 <= N -> N + S <= lim -> inter_ok a b = true.
Proof.
  intros Ha Hb HN HL. unfold inter_ok.
  rewrite (br_ok_small N S a), (br_ok_small N S b) by assumption. cbn [andb].
  unsmall. unok. destr_rects. unf. split_ifs; cbn [tl sz px py sw sh]; lia.
Qed.

Lemma inter_small N S a b :
  rect_small N S a -> rect_small N S b -> 0 <= N -> rect_small N S (intersection a b).
Proof.
  unsmall. destr_rects. unf. intros Ha Hb HN. split_ifs; cbn [tl sz px py sw sh]; lia.
Qed.

Lemma translate_ok_small N S D r d :
  rect_small N S r -> pt_small D d -> N + D <= lim -> translate_ok r d = true.
Proof. unsmall. unok. destr_rects. cbn [tl sz px py sw sh]. lia. Qed.

Lemma translate_small N S D r d :
  rect_small N S r -> pt_small D d -> rect_small (N + D) S (translate_rect r d).
Proof. unsmall. destr_rects. unfold translate_rect, padd. cbn [tl sz px py sw sh]. lia. Qed.

Lemma pneg_small D d : pt_small D d -> pt_small D (pneg d).
Proof. unsmall. destr_rects. unfold pneg. cbn [px py]. lia. Qed.

Lemma pneg_ok_small D d : pt_small D d -> D <= lim -> pneg_ok d = true.
Proof. unsmall. unok. destr_rects. cbn [px py]. lia. Qed.

(* ---- Cropped::new / next ------------------------------------------------------------------------ *)
Lemma intersection_origin_tl W H crop :
  0 <= W -> 0 <= H -> size_nonneg crop ->
  let ca := intersection (R (P 0 0) (S W H)) crop in
  0 <= px (tl ca) <= W /\ 0 <= py (tl ca) <= H.
Proof.
  destr_rects. unf. cbv zeta. intros. split_ifs; cbn [tl sz px py sw sh];
    repeat match goal with H : context [if ?b then _ else _] |- _ => destruct b eqn:? end; lia.
Qed.

Lemma cropped_new_ok_small N S size crop :
  0 <= sw size <= S -> 0 <= sh size <= S -> rect_small N S crop ->
  0 <= N -> N + S <= lim -> S <= slim ->
  cropped_new_ok size crop = true.
Proof.
  intros Hw Hh Hc HN HL HS. destruct size as [W H]. cbn [sw sh] in *. unfold cropped_new_ok.
  assert (rect_small N S (R (P 0 0) (Geometry.S W H))) as H0 by (unsmall; cbn [tl sz px py sw sh]; lia).
  rewrite (inter_ok_small N S _ _ H0 Hc HN HL). cbn [andb].
  assert (size_nonneg crop) as Hcn by (unsmall; unfold size_nonneg; lia).
  pose proof (intersection_origin_tl W H crop ltac:(lia) ltac:(lia) Hcn) as Ht. cbv zeta in Ht.
  set (ca := intersection (R (P 0 0) (Geometry.S W H)) crop) in *. cbn [sw].
  assert (0 <= py (tl ca) * W <= slim * slim) by (unfold slim in *; nia).
  unok. unfold slim in *. lia.
Qed.

Definition cropped_inv (st : cropped_st) : Prop :=
  0 <= sw (c_size st) <= u32_max /\ 0 <= sh (c_size st) <= u32_max /\
  0 <= c_x st <= sw (c_size st) /\ 0 <= c_y st <= sh (c_size st).

Lemma cropped_inv_new cs size crop :
  size_fits size -> size_fits (sz crop) -> cropped_inv (cropped_new cs size crop).
Proof.
  intros Hs Hc. unfold cropped_new, cropped_inv. cbn [c_size c_x c_y].
  pose proof (intersection_size_fits (R (P 0 0) size) crop Hs Hc) as Hi.
  unfold size_fits, i32_max, u32_max in *. lia.
Qed.

Lemma cropped_inv_next st : cropped_inv st -> cropped_inv (snd (cropped_next st)).
Proof.
  unfold cropped_inv, cropped_next. intros H.
  destruct ((sh (c_size st) <=? c_y st) || (sw (c_size st) =? 0)) eqn:E; [assumption|].
  destruct (c_x st <? sw (c_size st)) eqn:Ex.
  - destruct (snext (c_iter st)). cbn [snd c_size c_x c_y]. lia.
  - destruct (c_y st + 1 <? sh (c_size st)) eqn:Ey.
    + destruct (snth _ (c_iter st)). cbn [snd c_size c_x c_y]. lia.
    + cbn [snd c_size c_x c_y]. lia.
Qed.

Lemma cropped_inv_iter st n :
  cropped_inv st -> cropped_inv (Nat.iter n (fun s => snd (cropped_next s)) st).
Proof. intros H. induction n as [|n IH]; cbn [Nat.iter]; [assumption|apply cropped_inv_next; assumption]. Qed.

Lemma cropped_next_ok_inv st : cropped_inv st -> cropped_next_ok st = true.
Proof.
  unfold cropped_inv, cropped_next_ok, in_u32, u32_max. intros H.
  destruct (_ || _) eqn:E; [reflexivity|]. destruct (c_x st <? _) eqn:Ex; lia.
Qed.

(* every state the iterator ever reaches increments its counters without overflow *)
Theorem cropped_run_ok cs size crop n :
  size_fits size -> size_fits (sz crop) ->
  cropped_next_ok (Nat.iter n (fun s => snd (cropped_next s)) (cropped_new cs size crop)) = true.
Proof. intros Hs Hc. apply cropped_next_ok_inv, cropped_inv_iter, cropped_inv_new; assumption. Qed.

(* ---- one call through one adapter ----------------------------------------------------------------- *)
Lemma transl_call_ok_small C S D d c :
  call_small C S c -> pt_small D d -> C + D <= lim -> transl_call_ok d c = true.
Proof.
  intros Hc Hd HL. destruct c as [ps|area cs|area col|col]; cbn [transl_call_ok call_small] in *;
    try (eapply translate_ok_small; eassumption); try reflexivity.
  apply forallb_forall. intros pc Hin. rewrite Forall_forall in Hc. specialize (Hc pc Hin).
  unsmall. unok. destruct pc as [[x y] col], d as [dx dy]. cbn [fst px py] in *. lia.
Qed.

Lemma transl_call_small C S D d c :
  call_small C S c -> pt_small D d -> call_small (C + D) S (transl_call d c).
Proof.
  intros Hc Hd. destruct c as [ps|area cs|area col|col]; cbn [transl_call call_small] in *;
    try (apply translate_small; assumption); try exact I.
  unfold translate_pixels. apply Forall_map. eapply Forall_impl; [|exact Hc].
  intros [[x y] col]. cbn [fst snd]. unsmall. destruct d as [dx dy]. unfold padd. cbn [px py] in *. lia.
Qed.

Lemma clip_call_small K S ca c :
  rect_small K S ca -> call_small K S c -> 0 <= K -> call_small K S (clip_call ca c).
Proof.
  intros Ha Hc HK. destruct c as [ps|area cs|area col|col]; cbn [clip_call call_small clip_fill_solid] in *.
  - apply Forall_forall. intros pc Hin. apply filter_In in Hin. rewrite Forall_forall in Hc. apply Hc. tauto.
  - destruct (rect_eqb _ area); cbn [call_small]; [assumption|apply inter_small; assumption].
  - apply inter_small; assumption.
  - apply inter_small; assumption.
Qed.

Lemma clip_call_ok_small K S ca c :
  rect_small K S ca -> call_small K S c -> 0 <= K -> 3 * K + S <= lim -> S <= slim -> 0 <= S ->
  clip_call_ok ca c = true.
Proof.
  intros Ha Hc HK HL HS HS0. destruct c as [ps|area cs|area col|col]; cbn [clip_call_ok call_small] in *.
  - apply (br_ok_small K S); [assumption|lia].
  - rewrite (inter_ok_small K S) by (assumption || lia). cbn [andb].
    destruct (rect_eqb _ area); [reflexivity|].
    pose proof (inter_small K S ca area Ha Hc HK) as Hi.
    assert (pt_small K (tl area)) as Ht by (unsmall; tauto).
    rewrite (pneg_ok_small K) by (assumption || lia).
    rewrite (translate_ok_small K S K) by (try assumption; try apply pneg_small; try assumption; lia).
    cbn [andb].
    apply (cropped_new_ok_small (K + K) S); try lia.
    + unsmall. lia.
    + unsmall. lia.
    + apply translate_small; [assumption|apply pneg_small; assumption].
  - apply (inter_ok_small K S); assumption || lia.
  - apply (inter_ok_small K S); assumption || lia.
Qed.

Lemma conv_call_small C S f c : call_small C S c -> call_small C S (conv_call f c).
Proof.
  destruct c as [ps|area cs|area col|col]; cbn [conv_call call_small]; try tauto.
  intros H. apply Forall_map. eapply Forall_impl; [|exact H]. intros a Ha. exact Ha.
Qed.

Lemma lower1c_small N S D C ad pbb c :
  rect_small N S pbb -> ad_small D S ad -> call_small C S c -> 0 <= N -> 0 <= D -> 0 <= C -> 0 <= S ->
  call_small (C + N + D) S (lower1c ad pbb c).
Proof.
  intros Hp Ha Hc HN HD HC HS. destruct ad as [a|a|d|f]; cbn [lower1c ad_small] in *.
  - apply clip_call_small; [|eapply call_small_mono; [|eassumption]|]; try lia.
    apply inter_small; [eapply rect_small_mono; [|eassumption]|eapply rect_small_mono; [|eassumption]|]; lia.
  - assert (rect_small (N + D) S (intersection a pbb)) as Hi
      by (apply inter_small; [eapply rect_small_mono; [|eassumption]|eapply rect_small_mono; [|eassumption]|]; lia).
    assert (pt_small (N + D) (tl (intersection a pbb))) as Ht by (unsmall; tauto).
    destruct c as [ps|area cs|area col|col]; cbn [crop_call];
      try (eapply call_small_mono; [|apply transl_call_small; eassumption]; lia).
    eapply call_small_mono; [|apply (transl_call_small 0 S (N + D)); [|eassumption]]; [lia|].
    cbn [call_small]. unsmall. cbn [tl sz px py]. lia.
  - eapply call_small_mono; [|apply transl_call_small; eassumption]. lia.
  - eapply call_small_mono; [|apply conv_call_small; eassumption]. lia.
Qed.

Lemma lower1c_ok_small N S D C ad pbb c :
  rect_small N S pbb -> ad_small D S ad -> call_small C S c -> 0 <= N -> 0 <= D -> 0 <= C -> 0 <= S ->
  3 * (C + N + D) + S <= lim -> S <= slim ->
  lower1c_ok ad pbb c = true.
Proof.
  intros Hp Ha Hc HN HD HC HS HL HSl. destruct ad as [a|a|d|f]; cbn [lower1c_ok ad_small] in *.
  - apply (clip_call_ok_small (C + N + D) S); try lia.
    + apply inter_small; [eapply rect_small_mono; [|eassumption]|eapply rect_small_mono; [|eassumption]|]; lia.
    + eapply call_small_mono; [|eassumption]. lia.
  - assert (rect_small (N + D) S (intersection a pbb)) as Hi
      by (apply inter_small; [eapply rect_small_mono; [|eassumption]|eapply rect_small_mono; [|eassumption]|]; lia).
    assert (pt_small (N + D) (tl (intersection a pbb))) as Ht by (unsmall; tauto).
    destruct c as [ps|area cs|area col|col];
      try (apply (transl_call_ok_small C S (N + D)); [assumption|assumption|lia]).
    apply (transl_call_ok_small 0 S (N + D)); [|assumption|lia].
    cbn [call_small]. unsmall. cbn [tl sz px py]. lia.
  - apply (transl_call_ok_small C S D); [assumption|assumption|lia].
  - reflexivity.
Qed.

Lemma bbox_of_small N S D ad pbb :
  rect_small N S pbb -> ad_small D S ad -> 0 <= N -> 0 <= D -> 0 <= S -> rect_small (N + D) S (bbox_of ad pbb).
Proof.
  intros Hp Ha HN HD HS. destruct ad as [a|a|d|f]; cbn [bbox_of ad_small] in *.
  - apply inter_small; [eapply rect_small_mono; [|eassumption]|eapply rect_small_mono; [|eassumption]|]; lia.
  - assert (rect_small (N + D) S (intersection a pbb)) as Hi
      by (apply inter_small; [eapply rect_small_mono; [|eassumption]|eapply rect_small_mono; [|eassumption]|]; lia).
    unsmall. cbn [tl sz px py]. lia.
  - apply translate_small; [assumption|apply pneg_small; assumption].
  - eapply rect_small_mono; [|eassumption]. lia.
Qed.

Lemma new_ok_small N S D ad pbb :
  rect_small N S pbb -> ad_small D S ad -> 0 <= N -> 0 <= D -> N + D + S <= lim -> new_ok ad pbb = true.
Proof.
  intros Hp Ha HN HD HL. assert (0 <= S) as HS by (destruct Hp as (_ & ? & _); lia).
  destruct ad as [a|a|d|f]; cbn [new_ok ad_small] in *; try reflexivity.
  - apply (inter_ok_small (N + D) S); try lia; (eapply rect_small_mono; [|eassumption]; lia).
  - apply (inter_ok_small (N + D) S); try lia; (eapply rect_small_mono; [|eassumption]; lia).
  - rewrite (pneg_ok_small D) by (assumption || lia).
    apply (translate_ok_small N S D); [assumption|apply pneg_small; assumption|lia].
Qed.

(* ---- stacks ----------------------------------------------------------------------------------------- *)
Lemma bbox_stack_small D S st bb :
  rect_small D S bb -> Forall (ad_small D S) st -> 0 <= D -> 0 <= S ->
  rect_small ((Z.of_nat (length st) + 1) * D) S (bbox_stack st bb).
Proof.
  intros Hb Hst HD HS. induction Hst as [|ad rest Had Hrest IH]; cbn [bbox_stack length].
  - replace ((Z.of_nat 0 + 1) * D) with D by lia. assumption.
  - replace ((Z.of_nat (Datatypes.S (length rest)) + 1) * D) with ((Z.of_nat (length rest) + 1) * D + D) by lia.
    apply bbox_of_small; try assumption. nia.
Qed.

Theorem build_ok_small D S L st bb :
  rect_small D S bb -> Forall (ad_small D S) st -> 0 <= D -> 0 <= S ->
  Z.of_nat (length st) <= L -> (L + 2) * D + S <= lim ->
  build_ok st bb = true.
Proof.
  intros Hb Hst HD HS. induction Hst as [|ad rest Had Hrest IH]; intros HL Hlim; cbn [build_ok length] in *; [reflexivity|].
  rewrite IH by lia. cbn [andb].
  pose proof (bbox_stack_small D S rest bb Hb Hrest HD HS) as Hbox.
  apply (new_ok_small ((Z.of_nat (length rest) + 1) * D) S D); try assumption; nia.
Qed.

(* the recursion over the REAL lowered calls (colour streams included) *)
Fixpoint stack_ok_real (st : list adapter) (bb : rect) (c : call) : bool :=
  match st with
  | [] => true
  | ad :: rest =>
      let pbb := bbox_stack rest bb in
      lower1c_ok ad pbb c && stack_ok_real rest bb (lower1c ad pbb c)
  end.

Theorem stack_ok_real_small D S L st bb :
  rect_small D S bb -> Forall (ad_small D S) st -> 0 <= D -> 0 <= S -> S <= slim ->
  Z.of_nat (length st) <= L ->
  forall c C, call_small C S c -> 0 <= C ->
  3 * (C + Z.of_nat (length st) * ((L + 2) * D)) + S <= lim ->
  stack_ok_real st bb c = true.
Proof.
  intros Hb Hst HD HS HSl. induction Hst as [|ad rest Had Hrest IH]; intros HL c C Hc HC Hlim; cbn [stack_ok_real length] in *; [reflexivity|].
  pose proof (bbox_stack_small D S rest bb Hb Hrest HD HS) as Hbox.
  set (N := (Z.of_nat (length rest) + 1) * D) in *.
  assert (0 <= N) by (unfold N; nia).
  assert (N + D <= (L + 2) * D) by (unfold N; nia).
  assert (0 <= Z.of_nat (length rest) * ((L + 2) * D)) by nia.
  rewrite (lower1c_ok_small N S D C) by (assumption || nia). cbn [andb].
  apply (IH ltac:(lia) _ (C + N + D)); [apply lower1c_small; assumption|lia|nia].
Qed.

(* ---- the executed, stream-free form equals the recursion over the real calls ---------------------------- *)
Lemma strip_idem c : strip (strip c) = strip c.
Proof. destruct c; reflexivity. Qed.

Lemma lower1c_ok_strip ad pbb c : lower1c_ok ad pbb (strip c) = lower1c_ok ad pbb c.
Proof. destruct ad, c; reflexivity. Qed.

Lemma lower1g_spec ad pbb c : lower1g ad pbb c = strip (lower1c ad pbb c).
Proof.
  destruct ad as [a|a|d|f], c as [ps|area cs|area col|col]; try reflexivity.
  all: try (cbn [lower1g lower1c clip_call strip]; destruct (rect_eqb _ area); reflexivity).
Qed.

Lemma lower1g_strip ad pbb c : lower1g ad pbb (strip c) = lower1g ad pbb c.
Proof. destruct ad, c; reflexivity. Qed.

Lemma stack_ok_strip st bb c : stack_ok st bb (strip c) = stack_ok st bb c.
Proof. destruct st as [|ad rest]; cbn [stack_ok]; [reflexivity|]. rewrite lower1c_ok_strip, lower1g_strip. reflexivity. Qed.

Theorem stack_ok_is_real st bb c : stack_ok st bb c = stack_ok_real st bb c.
Proof.
  revert c. induction st as [|ad rest IH]; intros c; cbn [stack_ok stack_ok_real]; [reflexivity|].
  rewrite lower1g_spec, stack_ok_strip, IH. reflexivity.
Qed.

Theorem stack_ok_small D S L st bb :
  rect_small D S bb -> Forall (ad_small D S) st -> 0 <= D -> 0 <= S -> S <= slim ->
  Z.of_nat (length st) <= L ->
  forall c C, call_small C S c -> 0 <= C ->
  3 * (C + Z.of_nat (length st) * ((L + 2) * D)) + S <= lim ->
  stack_ok st bb c = true /\ stack_ok_real st bb c = true.
Proof.
  intros. rewrite stack_ok_is_real. split; eapply stack_ok_real_small; eassumption.
Qed.

(* display scale (DESIGN.md section 5, C08): |coordinates| <= 1024, extents <= 1024; stacks up to depth 64 *)
Definition display_scale (st : list adapter) (bb : rect) (c : call) : Prop :=
  rect_small 1024 1024 bb /\ Forall (ad_small 1024 1024) st /\ call_small 1024 1024 c /\ (length st <= 64)%nat.

Theorem stack_total_display_scale st bb c :
  display_scale st bb c -> build_ok st bb = true /\ stack_ok st bb c = true /\ stack_ok_real st bb c = true.
Proof.
  intros (Hb & Hst & Hc & Hl). split.
  - apply (build_ok_small 1024 1024 64); try assumption; unfold lim; lia.
  - apply (stack_ok_small 1024 1024 64 st bb Hb Hst ltac:(lia) ltac:(lia) ltac:(unfold slim; lia) ltac:(lia) c 1024 Hc ltac:(lia)).
    unfold lim. nia.
Qed.

(* the site predicates really bound the modelled intermediates: one representative unfolding, used by the
   correspondence note in props/C08_targets.py *)
Lemma translate_ok_sound r d :
  translate_ok r d = true -> point_i32 (tl (translate_rect r d)) = true.
Proof. unfold translate_ok, padd_ok, point_i32, translate_rect, padd. cbn [tl px py]. tauto. Qed.

(* ---- display-scale inputs satisfy the range hypotheses of the C03 stack theorems ------------------------ *)
Lemma lower_call_small D S L st bb :
  rect_small D S bb -> Forall (ad_small D S) st -> 0 <= D -> 0 <= S ->
  Z.of_nat (length st) <= L ->
  forall c C, call_small C S c -> 0 <= C ->
  call_small (C + Z.of_nat (length st) * ((L + 2) * D)) S (lower_call st bb c).
Proof.
  intros Hb Hst HD HS. induction Hst as [|ad rest Had Hrest IH]; intros HL c C Hc HC; cbn [lower_call length] in *.
  - eapply call_small_mono; [|eassumption]. lia.
  - pose proof (bbox_stack_small D S rest bb Hb Hrest HD HS) as Hbox.
    set (N := (Z.of_nat (length rest) + 1) * D) in *.
    assert (0 <= N) by (unfold N; nia).
    assert (N + D <= (L + 2) * D) by (unfold N; nia).
    eapply call_small_mono; [|apply (IH ltac:(lia) _ (C + N + D)); [apply lower1c_small; assumption|lia]].
    nia.
Qed.

Lemma rect_small_fits N S r : rect_small N S r -> N + S <= lim -> rect_fits r.
Proof. unsmall. unfold rect_fits, size_fits, i32_max, i32_min. lia. Qed.

Lemma call_small_fits N S c : call_small N S c -> N + S <= lim -> call_fits c.
Proof. destruct c; cbn [call_small call_fits]; try tauto; apply rect_small_fits. Qed.

Lemma call_small_sizes N S c : call_small N S c -> S <= lim -> call_sizes c.
Proof.
  destruct c; cbn [call_small call_sizes]; try tauto; unsmall; unfold size_fits, i32_max; lia.
Qed.

Lemma ad_small_sizes D S ad : ad_small D S ad -> S <= lim -> adapter_sizes ad.
Proof.
  destruct ad; cbn [ad_small adapter_sizes]; try tauto; unsmall; unfold size_fits, i32_max; lia.
Qed.

Theorem display_scale_op_ok st bb c k :
  display_scale st bb c ->
  size_fits (sz bb) /\ Forall adapter_sizes st /\ op_ok st bb k c.
Proof.
  intros (Hb & Hst & Hc & Hl).
  split; [unsmall; unfold size_fits, i32_max; lia|]. split.
  - eapply Forall_impl; [|exact Hst]. intros ad Had. apply (ad_small_sizes 1024 1024); [assumption|unfold lim; lia].
  - split; [apply (call_small_sizes 1024 1024); [assumption|unfold lim; lia]|].
    intros _. split; [apply (rect_small_fits 1024 1024); [assumption|unfold lim; lia]|].
    pose proof (lower_call_small 1024 1024 64 st bb Hb Hst ltac:(lia) ltac:(lia) ltac:(lia) c 1024 Hc ltac:(lia)) as H.
    eapply call_small_fits; [exact H|]. unfold lim. nia.
Qed.

(* stack_compose without any hypothesis on intermediate values, for display-scale inputs *)
Theorem stack_compose_display_scale st bb k c m q :
  display_scale st bb c ->
  paint_all bb k (lower st bb c) m (padd q (g_off (geo_of st bb))) =
  if g_vis (geo_of st bb) q
  then free_paint (g_box (geo_of st bb)) (g_col (geo_of st bb)) c (shift (g_off (geo_of st bb)) m) q
  else m (padd q (g_off (geo_of st bb))).
Proof.
  intros H. destruct (display_scale_op_ok st bb c k H) as (Hb & Hst & Hc & Hk).
  apply stack_compose; assumption.
Qed.

(* ---- input-level hypotheses of any magnitude: coordinates <= D, extents <= S, call coordinates <= C, depth <= L ---- *)
Theorem small_op_ok D S L C st bb c k :
  rect_small D S bb -> Forall (ad_small D S) st -> call_small C S c ->
  0 <= D -> 0 <= S -> 0 <= C -> Z.of_nat (length st) <= L ->
  C + L * ((L + 2) * D) + S <= lim -> D + S <= lim ->
  size_fits (sz bb) /\ Forall adapter_sizes st /\ op_ok st bb k c.
Proof.
  intros Hb Hst Hc HD HS HC HL Hlim Hlim2.
  assert (0 <= L) by lia.
  assert (0 <= L * ((L + 2) * D)) by nia.
  split; [unsmall; unfold size_fits, i32_max; lia|]. split.
  - eapply Forall_impl; [|exact Hst]. intros ad Had. apply (ad_small_sizes D S); [assumption|lia].
  - split; [apply (call_small_sizes C S); [assumption|lia]|].
    intros _. split; [apply (rect_small_fits D S); assumption|].
    pose proof (lower_call_small D S L st bb Hb Hst HD HS HL c C Hc HC) as H1.
    eapply call_small_fits; [exact H1|].
    assert (Z.of_nat (length st) * ((L + 2) * D) <= L * ((L + 2) * D)) by nia. lia.
Qed.

Theorem stack_compose_small D S L C st bb k c m q :
  rect_small D S bb -> Forall (ad_small D S) st -> call_small C S c ->
  0 <= D -> 0 <= S -> 0 <= C -> Z.of_nat (length st) <= L ->
  C + L * ((L + 2) * D) + S <= lim -> D + S <= lim ->
  paint_all bb k (lower st bb c) m (padd q (g_off (geo_of st bb))) =
  if g_vis (geo_of st bb) q
  then free_paint (g_box (geo_of st bb)) (g_col (geo_of st bb)) c (shift (g_off (geo_of st bb)) m) q
  else m (padd q (g_off (geo_of st bb))).
Proof.
  intros. destruct (small_op_ok D S L C st bb c k) as (Hb & Hst & Hc & Hk); try assumption.
  apply stack_compose; assumption.
Qed.
