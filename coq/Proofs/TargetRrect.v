(* Bridge: the rounded rectangle's private target semantics (Model/Rrect.v writes_of_calls / writes_of_pixels / pix_get)
   is Model/Target.v's render, so that C01(b) of RoundedRectangle composes with C01(a) on both kinds of target. *)
From EG Require Import Base.Prelude Base.Lemmas Model.Geometry Model.Style Proofs.Geometry Model.Target Proofs.Target.
From EG Require Model.Rrect Proofs.Rrect.

Set Default Timeout 60.

Definition rr_fill_calls (l : list Rrect.fill_call) : list call := map (fun rc => FillSolid (fst rc) (snd rc)) l.

Lemma pix_get_last_write ws p : Model.Rrect.pix_get ws p = last_write p ws.
Proof.
  unfold Model.Rrect.pix_get.
  assert (forall acc, fold_left (fun acc w => if point_eqb (fst w) p then Some (snd w) else acc) ws acc =
                      match last_write p ws with Some c => Some c | None => acc end) as H.
  { induction ws as [|[q c] ws IH]; intros acc; cbn [fold_left last_write fst snd]; [reflexivity|].
    rewrite IH. destruct (last_write p ws); [reflexivity|]. destruct (point_eqb q p); reflexivity. }
  rewrite H. destruct (last_write p ws); reflexivity.
Qed.

Lemma filter_map_pair (f : point -> bool) (c : Z) l :
  filter (fun pc : point * Z => f (fst pc)) (map (fun p => (p, c)) l) = map (fun p => (p, c)) (filter f l).
Proof.
  induction l as [|a l IH]; cbn [map filter fst]; [reflexivity|]. destruct (f a); cbn [map]; rewrite IH; reflexivity.
Qed.

Lemma writes_of_calls_eq bb l : Model.Rrect.writes_of_calls bb l = writes_all bb DefaultOnly (rr_fill_calls l).
Proof.
  unfold Model.Rrect.writes_of_calls, writes_all, rr_fill_calls.
  induction l as [|[r c] l IH]; cbn [flat_map map fst snd]; [reflexivity|]. rewrite IH. f_equal.
  cbn [writes szip]. unfold inside, Model.Rrect.colored. symmetry. apply filter_map_pair.
Qed.

(* draw() on a draw_iter-only target: no hypothesis at all *)
Theorem rr_render_default bb l p :
  render bb DefaultOnly (rr_fill_calls l) p = Model.Rrect.pix_get (Model.Rrect.writes_of_calls bb l) p.
Proof. rewrite render_writes_default, writes_of_calls_eq, pix_get_last_write. reflexivity. Qed.

(* pixels() handed to draw_iter, either kind of target *)
Theorem rr_render_iter bb k ps p :
  render bb k [DrawIter ps] p = Model.Rrect.pix_get (Model.Rrect.writes_of_pixels bb ps) p.
Proof.
  rewrite pix_get_last_write. unfold render, paint_all. cbn [fold_left].
  replace (paint bb k (DrawIter ps) empty_map p) with (draw_iter bb ps empty_map p) by (destruct k; reflexivity).
  rewrite draw_iter_spec. unfold inside, Model.Rrect.writes_of_pixels, empty_map.
  destruct (last_write p _); reflexivity.
Qed.

(* ---- the areas of the fill_solid calls of draw_styled fit (needed for the native target) ---- *)
Lemma seg_calls_fit s c : Proofs.Rrect.seg_ok s -> Forall call_fits (rr_fill_calls (Model.Rrect.scanline_draw s c)).
Proof.
  unfold Proofs.Rrect.seg_ok, Model.Rrect.scanline_draw, Proofs.Rrect.big, bound. intros (H1 & H2 & H3).
  destruct (fst (snd s) <? snd (snd s)) eqn:E; cbn [rr_fill_calls map]; constructor; [|constructor].
  cbn [fst snd call_fits]. unfold rect_fits, size_fits, i32_max, i32_min. cbn [tl sz px py sw sh]. lia.
Qed.

Lemma Forall_fill_calls_app a b :
  Forall call_fits (rr_fill_calls a) -> Forall call_fits (rr_fill_calls b) -> Forall call_fits (rr_fill_calls (a ++ b)).
Proof. unfold rr_fill_calls. rewrite map_app. intros. apply Forall_app. split; assumption. Qed.

Lemma Forall_fill_calls_flat {A} (f : A -> list Model.Rrect.fill_call) l :
  (forall x, In x l -> Forall call_fits (rr_fill_calls (f x))) -> Forall call_fits (rr_fill_calls (flat_map f l)).
Proof.
  intros H. induction l as [|x l IH]; cbn [flat_map]; [constructor|].
  apply Forall_fill_calls_app; [apply H; left; reflexivity|apply IH; intros y Hy; apply H; right; assumption].
Qed.

Theorem rr_calls_fit r st :
  Proofs.Rrect.styled_ok r st -> Forall call_fits (rr_fill_calls (Model.Rrect.rr_draw r st)).
Proof.
  intros [Hs Hf].
  pose proof (Proofs.Rrect.rrc_new_wf _ Hs) as Ws. pose proof (Proofs.Rrect.rrc_new_wf _ Hf) as Wf.
  pose proof (Proofs.Rrect.rr_ok_box _ Hs) as Bs. pose proof (Proofs.Rrect.rr_ok_box _ Hf) as Bf.
  unfold Model.Rrect.rr_draw, Model.Rrect.styled_scanlines.
  destruct (effective_stroke_color st) as [sc|]; destruct (fill_color st) as [fc|]; try constructor.
  - apply Forall_fill_calls_flat. intros x Hx. apply in_map_iff in Hx. destruct Hx as (s & <- & Hin).
    destruct (Proofs.Rrect.styled_seg_ok _ _ s Ws Wf Bs Hin) as (A1 & A2 & A3).
    unfold Model.Rrect.ss_draw_stroke_and_fill. repeat apply Forall_fill_calls_app; apply seg_calls_fit; assumption.
  - apply Forall_fill_calls_flat. intros x Hx. apply in_map_iff in Hx. destruct Hx as (s & <- & Hin).
    destruct (Proofs.Rrect.styled_seg_ok _ _ s Ws Wf Bs Hin) as (A1 & A2 & A3).
    unfold Model.Rrect.ss_draw_stroke. apply Forall_fill_calls_app; apply seg_calls_fit; assumption.
  - apply Forall_fill_calls_flat. intros s Hin. apply seg_calls_fit.
    apply (Proofs.Rrect.scanline_seg_ok _ s Wf Bf Hin).
Qed.

(* draw() on either kind of target *)
Theorem rr_render_any_kind r st bb k p :
  Proofs.Rrect.styled_ok r st -> rect_fits bb ->
  render bb k (rr_fill_calls (Model.Rrect.rr_draw r st)) p =
  Model.Rrect.pix_get (Model.Rrect.writes_of_calls bb (Model.Rrect.rr_draw r st)) p.
Proof.
  intros H Hb. rewrite <- rr_render_default. destruct k; [reflexivity|].
  symmetry. apply render_default_native; [assumption|apply rr_calls_fit; assumption].
Qed.

(* C01(b) on the target model: pixels() through draw_iter on a target of kind k = draw() on a target of kind k' *)
Theorem rr_pixels_draw_target r st bb k k' p :
  Proofs.Rrect.styled_ok r st -> 0 <= stroke_width st -> Model.Rrect.K06_rrect_fill_outside_stroke r st = false ->
  rect_fits bb ->
  render bb k [DrawIter (Model.Rrect.rr_pixels r st)] p = render bb k' (rr_fill_calls (Model.Rrect.rr_draw r st)) p.
Proof.
  intros H Hw HK Hb. rewrite rr_render_iter, rr_render_any_kind by assumption.
  apply Proofs.Rrect.rr_pixels_draw; assumption.
Qed.
