(* Text on the draw-target model: every call MonoFontDrawTarget / MonoTextStyle / Text::draw forwards to the final
   target has an area inside the non-saturating range (call_fits), so C01(a) applies to text without a hypothesis on
   internal values; and the text model's unbounded-canvas pixel map (Model/Fontmodel.v render) is Model/Target.v's render
   restricted to the target's box, on both kinds of target. *)
From EG Require Import Base.Prelude Base.Lemmas Model.Geometry Proofs.Geometry Model.Target Proofs.Target.
From EG Require Model.Fontmodel Proofs.Fontmodel Model.Textmodel Proofs.Textmodel Proofs.Textbox.
From Coq Require Import ZifyBool.

Set Default Timeout 60.

Module F := Model.Fontmodel.
Module FP := Proofs.Fontmodel.

Definition tcall (c : F.call) : call :=
  match c with
  | F.FillSolid r col => FillSolid r col
  | F.FillContig r cs => FillContiguous r (Fin cs)
  | F.DrawIter ps => DrawIter ps
  end.
Definition text_calls (l : list F.call) : list call := map tcall l.

Lemma text_calls_app a b : text_calls (a ++ b) = text_calls a ++ text_calls b.
Proof. apply map_app. Qed.

(* ---- pixel map: unbounded canvas of the text model = target model inside the box ---- *)
Lemma f_last_write_eq p ws : F.last_write p ws None = last_write p ws.
Proof.
  assert (forall acc, F.last_write p ws acc = match last_write p ws with Some c => Some c | None => acc end) as H.
  { induction ws as [|[q c] ws IH]; intros acc; cbn [F.last_write last_write]; [reflexivity|].
    rewrite IH. destruct (last_write p ws); [reflexivity|]. destruct (point_eqb q p); reflexivity. }
  rewrite H. destruct (last_write p ws); reflexivity.
Qed.

Lemma inside_app bb a b : inside bb (a ++ b) = inside bb a ++ inside bb b.
Proof. unfold inside. apply filter_app. Qed.

Lemma text_writes_eq bb l : writes_all bb DefaultOnly (text_calls l) = inside bb (F.writes l).
Proof.
  unfold writes_all, text_calls, F.writes. induction l as [|c l IH]; cbn [map flat_map]; [reflexivity|].
  rewrite IH, inside_app. f_equal. destruct c; reflexivity.
Qed.

Theorem text_render_default bb l p :
  render bb DefaultOnly (text_calls l) p = if contains bb p then F.render l p else None.
Proof.
  rewrite render_writes_default, text_writes_eq, last_write_inside. unfold F.render. rewrite f_last_write_eq. reflexivity.
Qed.

Theorem text_render_any_kind bb k l p :
  rect_fits bb -> Forall call_fits (text_calls l) ->
  render bb k (text_calls l) p = if contains bb p then F.render l p else None.
Proof.
  intros Hb Hf. rewrite <- text_render_default. destruct k; [reflexivity|].
  symmetry. apply render_default_native; assumption.
Qed.

(* ---- the areas fit ---- *)
Lemma rect_ok_fits' r : rect_ok r -> rect_fits r.
Proof. apply rect_ok_fits. Qed.

Lemma mft_fill_contiguous_fits m area bits :
  rect_fits area -> Forall call_fits (text_calls (F.mft_fill_contiguous m area bits)).
Proof. intros H. destruct m; cbn; repeat (apply Forall_cons || apply Forall_nil); cbn [call_fits]; try assumption; exact I. Qed.

Lemma mft_fill_solid_fits m area on :
  rect_fits area -> Forall call_fits (text_calls (F.mft_fill_solid m area on)).
Proof. intros H. destruct m, on; cbn; repeat (apply Forall_cons || apply Forall_nil); cbn [call_fits]; try assumption; exact I. Qed.

Lemma draw_elem_char_fits FF s m pos c :
  rect_ok (R pos (S (F.f_cw (F.mf_geom FF)) (F.f_ch (F.mf_geom FF)))) ->
  Forall call_fits (text_calls (F.draw_elem FF s m (pos, F.EChar c))).
Proof.
  intros Hr. unfold F.draw_elem. cbn [fst snd].
  destruct (FP.glyph_area_cases (F.mf_geom FF) (F.mf_index FF c)) as [E|E].
  - rewrite E. cbn. constructor.
  - destruct (F.sub_image_visible _ _); [|constructor]. rewrite E.
    apply mft_fill_contiguous_fits, rect_ok_fits, Hr.
Qed.

Lemma draw_elem_spacing_fits FF s m pos :
  rect_ok (R pos (S (F.f_sp (F.mf_geom FF)) (F.f_ch (F.mf_geom FF)))) ->
  Forall call_fits (text_calls (F.draw_elem FF s m (pos, F.ESpacing))).
Proof.
  intros Hr. unfold F.draw_elem. cbn [fst snd].
  destruct (0 <? _); [|constructor]. destruct (F.is_none _); [constructor|].
  apply mft_fill_solid_fits, rect_ok_fits, Hr.
Qed.

Lemma line_elems_fit FF s m : forall text pos,
  FP.font_ok (F.mf_geom FF) -> FP.line_ok (F.mf_geom FF) pos (length text) ->
  Forall call_fits (text_calls (flat_map (F.draw_elem FF s m) (fst (F.line_elements (F.mf_geom FF) pos text)))).
Proof.
  induction text as [|c [|c2 rest] IH]; intros pos Hf Hl.
  - constructor.
  - cbn [F.line_elements fst flat_map]. rewrite app_nil_r.
    apply draw_elem_char_fits. apply (FP.line_ok_cell _ pos 0 Hf Hl).
  - rewrite FP.line_elements_cons. cbn [fst flat_map]. rewrite !text_calls_app.
    apply Forall_app. split; [apply draw_elem_char_fits; apply (FP.line_ok_cell _ pos _ Hf Hl)|].
    apply Forall_app. split; [apply draw_elem_spacing_fits; apply (FP.line_ok_spacing _ pos _ Hf Hl)|].
    apply IH; [assumption|]. apply (FP.line_ok_tail _ pos _ Hf Hl).
Qed.

Lemma decorations_fit f s w o :
  FP.font_ok f -> 0 <= w <= bound -> - FP.half <= px o <= FP.half -> - bound <= py o <= FP.half ->
  Forall call_fits (text_calls (F.draw_decorations f s w o)).
Proof.
  intros Hf Hw Hx Hy. unfold F.draw_decorations. rewrite text_calls_app.
  assert (forall d, 0 <= F.d_off d <= FP.half -> 0 <= F.d_h d <= FP.half -> rect_fits (F.deco_box d o w)) as Hd.
  { intros d H1 H2. apply rect_ok_fits, FP.deco_box_ok; assumption. }
  unfold FP.font_ok in Hf.
  apply Forall_app. split; destruct (F.effective_color _ _); cbn; repeat (apply Forall_cons || apply Forall_nil); cbn [call_fits]; apply Hd; tauto.
Qed.

Theorem draw_string_calls_fit FF s text pos b :
  FP.font_ok (F.mf_geom FF) -> FP.draw_ok (F.mf_geom FF) pos (length text) ->
  Forall call_fits (text_calls (fst (F.draw_string FF s text pos b))).
Proof.
  intros Hf Hd. set (f := F.mf_geom FF) in *.
  pose proof (FP.baseline_offset_range f b Hf) as Hbo.
  assert (Hcw : 0 <= F.f_cw f) by (red in Hf; tauto).
  assert (Hsp : 0 <= F.f_sp f) by (red in Hf; tauto).
  pose proof (FP.advance_range f s (length text) Hcw Hsp) as Ha.
  pose proof (FP.draw_string_next FF s text pos b) as Hnext. fold f in Hnext.
  assert (Hlo : FP.line_ok f (P (px pos) (py pos - F.baseline_offset f b)) (length text)).
  { unfold FP.draw_ok, FP.line_ok, FP.half, bound in *. cbn [px py]. lia. }
  unfold F.draw_string in *. fold f in Hnext |- *. cbv zeta in *.
  set (o := P (px pos) (py pos - F.baseline_offset f b)) in *.
  set (r := match F.cs_text s with
            | Some t => match F.cs_bg s with Some g => F.draw_string_binary FF s (F.Both t g) o text
                                          | None => F.draw_string_binary FF s (F.Fg t) o text end
            | None => match F.cs_bg s with Some g => F.draw_string_binary FF s (F.Bg g) o text
                                        | None => ([], P (px o + (F.f_cw f + F.f_sp f) * Z.of_nat (length text)) (py o)) end
            end) in *.
  cbn [fst snd] in *. rewrite text_calls_app. apply Forall_app. split.
  - subst r. destruct (F.cs_text s), (F.cs_bg s); unfold F.draw_string_binary; cbn [fst];
      try (apply line_elems_fit; assumption). constructor.
  - destruct (px o <? px (snd r)) eqn:E; [|constructor].
    inversion Hnext as [[Hx Hy]]. rewrite Hx. replace (px pos + _ - px o) with (FP.advance f s (length text)) by (subst o; cbn [px]; lia).
    apply decorations_fit; try assumption; subst o; cbn [px py]; unfold FP.draw_ok, FP.half, bound in *; lia.
Qed.

Lemma draw_lines_calls_fit FF s b : forall ls next,
  FP.font_ok (F.mf_geom FF) ->
  (forall l p, In (l, p) ls -> FP.draw_ok (F.mf_geom FF) p (length l)) ->
  Forall call_fits (text_calls (fst (Model.Textmodel.draw_lines FF s b next ls))).
Proof.
  induction ls as [|[l p] ls IH]; intros next Hf Hok; cbn [Model.Textmodel.draw_lines fst]; [constructor|].
  rewrite text_calls_app. apply Forall_app. split.
  - apply draw_string_calls_fit; [assumption|]. apply Hok. left. reflexivity.
  - apply IH; [assumption|]. intros l' p' Hin. apply Hok. right. assumption.
Qed.

(* every fill area that Text::draw hands to the final target fits *)
Theorem text_calls_fit FF s ts pos text :
  FP.font_ok (F.mf_geom FF) -> Proofs.Textbox.text_in_range FF s ts pos text ->
  Forall call_fits (text_calls (fst (Model.Textmodel.text_draw FF s ts pos text))).
Proof.
  intros Hf Hr. unfold Model.Textmodel.text_draw. apply draw_lines_calls_fit; [assumption|].
  intros l p Hin. apply (Hr l p Hin).
Qed.

(* C01(a) for text, on the target model: both kinds of target show the text model's pixel map inside the box *)
Theorem text_render_target FF s ts pos text bb k p :
  FP.font_ok (F.mf_geom FF) -> Proofs.Textbox.text_in_range FF s ts pos text -> rect_fits bb ->
  render bb k (text_calls (fst (Model.Textmodel.text_draw FF s ts pos text))) p =
  if contains bb p then F.render (fst (Model.Textmodel.text_draw FF s ts pos text)) p else None.
Proof. intros Hf Hr Hb. apply text_render_any_kind; [assumption|apply text_calls_fit; assumption]. Qed.

Theorem text_default_native FF s ts pos text bb p :
  FP.font_ok (F.mf_geom FF) -> Proofs.Textbox.text_in_range FF s ts pos text -> rect_fits bb ->
  render bb DefaultOnly (text_calls (fst (Model.Textmodel.text_draw FF s ts pos text))) p =
  render bb Native (text_calls (fst (Model.Textmodel.text_draw FF s ts pos text))) p.
Proof. intros Hf Hr Hb. rewrite !text_render_target by assumption. reflexivity. Qed.
