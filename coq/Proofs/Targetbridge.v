(* Bridge between the call-list pixel maps of Proofs/Scanline.v (render over fill_solid calls, last_write over pixels) and
   the draw-target model Model/Target.v (paint / render with a target bounding box and the two kinds of target), so that
   C01(b) "pixels() = draw()" of the families rectangle / circle / ellipse composes with C01(a) "draw_iter-only = native". *)
From EG Require Import Base.Prelude Base.Lemmas Model.Geometry Model.Style Model.Circle Model.Ellipse Model.Styledrect Model.Target
  Proofs.Geometry Proofs.Scanline Proofs.Circle Proofs.Ellipse Proofs.Circlestyled Proofs.Ellipsestyled Proofs.Styledrect
  Proofs.Circleparts Proofs.Target.
From Coq Require Import ZifyBool.

Ltac Zify.zify_post_hook ::= Z.to_euclidean_division_equations.
Set Default Timeout 60.

(* a draw() of this family as calls on a target / pixels() handed to draw_iter *)
Definition fill_calls (l : list fill_call) : list call := map (fun rc => FillSolid (fst rc) (snd rc)) l.
Definition iter_call (ws : list (point * Z)) : list call := [DrawIter ws].

(* ---- native target: the map is the call-list map, restricted to the target's box ---- *)
Lemma paint_all_fill_native bb l m p :
  paint_all bb Native (fill_calls l) m p =
  if contains bb p then fold_left (fun acc rc => if contains (fst rc) p then Some (snd rc) else acc) l (m p) else m p.
Proof.
  unfold paint_all, fill_calls. revert m. induction l as [|[r c] l IH]; intros m; cbn [map fold_left fst snd].
  - destruct (contains bb p); reflexivity.
  - rewrite IH. cbn [paint]. unfold native_fill_solid. destruct (contains bb p); [|rewrite andb_false_r; reflexivity].
    rewrite andb_true_r. reflexivity.
Qed.

Theorem render_fill_native bb l p :
  Target.render bb Native (fill_calls l) p = if contains bb p then Scanline.render l p else None.
Proof. unfold Target.render. rewrite paint_all_fill_native. reflexivity. Qed.

Lemma draw_iter_fold bb ws m p :
  draw_iter bb ws m p =
  if contains bb p then fold_left (fun acc qc => if point_eqb (fst qc) p then Some (snd qc) else acc) ws (m p) else m p.
Proof.
  unfold draw_iter. revert m. induction ws as [|[q c] ws IH]; intros m; cbn [fold_left fst snd].
  - destruct (contains bb p); reflexivity.
  - rewrite IH. destruct (contains bb p) eqn:Ep.
    + destruct (contains bb q) eqn:Eq.
      * unfold set_px. rewrite (point_eqb_sym p q). reflexivity.
      * destruct (point_eqb q p) eqn:E; [|reflexivity]. apply point_eqb_eq in E. subst q. congruence.
    + destruct (contains bb q) eqn:Eq; [|reflexivity]. unfold set_px.
      destruct (point_eqb p q) eqn:E; [|reflexivity]. apply point_eqb_eq in E. subst q. congruence.
Qed.

Theorem render_iter bb k ws p :
  Target.render bb k (iter_call ws) p = if contains bb p then Scanline.last_write ws p else None.
Proof.
  unfold Target.render, iter_call, paint_all. cbn [fold_left]. destruct k; cbn [paint]; rewrite draw_iter_fold; reflexivity.
Qed.

(* ---- the areas of the calls fit (needed for the draw_iter-only target's default fill_solid) ---- *)
Lemma in_scanline_draw_inv s c r c' :
  In (r, c') (scanline_draw s c) -> r = R (P (sl_x0 s) (sl_y s)) (S (sl_x1 s - sl_x0 s) 1) /\ sl_x0 s < sl_x1 s.
Proof.
  unfold scanline_draw, scanline_is_empty. destruct (sl_x0 s <? sl_x1 s) eqn:E; cbn [negb In]; [|tauto].
  intros [H|[]]. inversion H; subst. split; [reflexivity|lia].
Qed.

Lemma span_fits bbx y s0 s1 a b :
  rect_ok bbx -> contains bbx (P s0 y) = true -> contains bbx (P (s1 - 1) y) = true ->
  s0 <= a -> a < b -> b <= s1 -> rect_fits (R (P a y) (S (b - a) 1)).
Proof.
  intros Hok H0 H1 Ha Hab Hb. apply contains_spec in H0, H1. cbn [px py] in *.
  destruct bbx as [[x y0] [w h]]. unfold rect_ok, point_ok, size_ok, bound, rect_fits, size_fits, i32_max, i32_min in *.
  cbn [tl sz px py sw sh] in *. lia.
Qed.

Section SpanCalls.
  Variables (bbx : rect) (S F : point -> bool).
  Hypothesis Hbb : rect_ok bbx.
  Hypothesis Hin : forall p, S p = true -> contains bbx p = true.

  Lemma ssl_spans_fit (l : list styled_scanline) spans :
    (forall s, In s l -> ssl_ok S F s) ->
    (forall sp c, In (sp, c) spans -> exists s, In s l /\ (sp = stroke_left s \/ sp = fill_part s \/ sp = stroke_right s)) ->
    Forall call_fits (fill_calls (draw_spans spans)).
  Proof.
    intros Hok Hsp. apply Forall_forall. intros cl Hcl. unfold fill_calls in Hcl. apply in_map_iff in Hcl.
    destruct Hcl as ([r c] & <- & Hrc). cbn [fst snd call_fits]. unfold draw_spans in Hrc. apply in_flat_map in Hrc.
    destruct Hrc as ([sp c0] & Hspin & Hd). cbn [fst snd] in Hd. apply in_scanline_draw_inv in Hd. destruct Hd as [-> Hne].
    destruct (Hsp sp c0 Hspin) as (s & Hs & Hcase). destruct (Hok s Hs) as (A1 & A2 & A3 & A4 & A5 & A6).
    assert (contains bbx (P (ss_s0 s) (ss_y s)) = true) as B0 by (apply Hin, A5; lia).
    assert (contains bbx (P (ss_s1 s - 1) (ss_y s)) = true) as B1 by (apply Hin, A5; lia).
    destruct Hcase as [->|[->| ->]]; cbn [stroke_left fill_part stroke_right sl_y sl_x0 sl_x1] in *;
      apply (span_fits bbx (ss_y s) (ss_s0 s) (ss_s1 s)); try assumption; lia.
  Qed.

  Lemma plain_spans_fit (l : list scanline) c :
    (forall s, In s l -> sl_ok S s) -> Forall call_fits (fill_calls (draw_spans (spans_plain c l))).
  Proof.
    intros Hok. apply Forall_forall. intros cl Hcl. unfold fill_calls in Hcl. apply in_map_iff in Hcl.
    destruct Hcl as ([r c1] & <- & Hrc). cbn [fst snd call_fits]. unfold draw_spans, spans_plain in Hrc. apply in_flat_map in Hrc.
    destruct Hrc as ([sp c0] & Hspin & Hd). cbn [fst snd] in Hd. apply in_scanline_draw_inv in Hd. destruct Hd as [-> Hne].
    apply in_map_iff in Hspin. destruct Hspin as (s & E & Hs). inversion E; subst. destruct (Hok sp Hs) as [A1 A2].
    apply (span_fits bbx (sl_y sp) (sl_x0 sp) (sl_x1 sp)); try assumption; try lia; apply Hin, A2; lia.
  Qed.
End SpanCalls.

Lemma spans_of_rows (g : styled_scanline -> list (scanline * Z)) l sp c :
  (forall s sp c, In (sp, c) (g s) -> sp = stroke_left s \/ sp = fill_part s \/ sp = stroke_right s) ->
  In (sp, c) (flat_map g l) -> exists s, In s l /\ (sp = stroke_left s \/ sp = fill_part s \/ sp = stroke_right s).
Proof. intros Hg Hin. apply in_flat_map in Hin. destruct Hin as (s & Hs & H). exists s. split; [assumption|eapply Hg, H]. Qed.

Theorem circle_calls_fit c st : circle_sok c -> style_ok st -> Forall call_fits (fill_calls (circle_draw_styled c st)).
Proof.
  intros Hc Hs. destruct (circle_areas c st Hc Hs) as (HA & HB & Hcc). unfold circle_draw_styled.
  destruct (circle_styled_scanlines_ok _ _ HA Hcc) as [Hok _].
  destruct (effective_stroke_color st) as [sc|], (fill_color st) as [fc|]; try (constructor).
  - rewrite draw_both_spans. eapply (ssl_spans_fit (circle_bbox (circle_stroke_area c st))); try exact Hok.
    + apply circle_bbox_ok, HA. + intros p. apply circle_contains_in_bbox, HA.
    + intros sp c0. apply spans_of_rows. intros s sp' c' H. cbn [In] in H.
      destruct H as [H|[H|[H|[]]]]; inversion H; auto.
  - rewrite draw_stroke_spans. eapply (ssl_spans_fit (circle_bbox (circle_stroke_area c st))); try exact Hok.
    + apply circle_bbox_ok, HA. + intros p. apply circle_contains_in_bbox, HA.
    + intros sp c0. apply spans_of_rows. intros s sp' c' H. cbn [In] in H.
      destruct H as [H|[H|[]]]; inversion H; auto.
  - rewrite draw_plain_spans. eapply (plain_spans_fit (circle_bbox (circle_fill_area c st))).
    + apply circle_bbox_ok, HB. + intros p. apply circle_contains_in_bbox, HB.
    + intros s Hin. apply (circle_scanlines_ok _ HB), Hin.
Qed.

Theorem ellipse_calls_fit e st : ellipse_sok e -> style_ok st -> Forall call_fits (fill_calls (ellipse_draw_styled e st)).
Proof.
  intros He Hs. destruct (ellipse_areas e st He Hs) as (HA & HB & Hcc). unfold ellipse_draw_styled.
  destruct (ellipse_styled_scanlines_ok _ _ HA HB Hcc) as [Hok _].
  destruct (effective_stroke_color st) as [sc|], (fill_color st) as [fc|]; try (constructor).
  - rewrite draw_both_spans. eapply (ssl_spans_fit (ellipse_bbox (ellipse_stroke_area e st))); try exact Hok.
    + apply ellipse_bbox_ok, HA. + intros p. apply ellipse_contains_in_bbox, HA.
    + intros sp c0. apply spans_of_rows. intros s sp' c' H. cbn [In] in H.
      destruct H as [H|[H|[H|[]]]]; inversion H; auto.
  - rewrite draw_stroke_spans. eapply (ssl_spans_fit (ellipse_bbox (ellipse_stroke_area e st))); try exact Hok.
    + apply ellipse_bbox_ok, HA. + intros p. apply ellipse_contains_in_bbox, HA.
    + intros sp c0. apply spans_of_rows. intros s sp' c' H. cbn [In] in H.
      destruct H as [H|[H|[]]]; inversion H; auto.
  - rewrite draw_plain_spans. eapply (plain_spans_fit (ellipse_bbox (ellipse_fill_area e st))).
    + apply ellipse_bbox_ok, HB. + intros p. apply ellipse_contains_in_bbox, HB.
    + intros s Hin. apply (ellipse_scanlines_ok _ HB), Hin.
Qed.

(* ---- C01(b) on the target model: any kind of target, any target box ---- *)
Theorem render_fill_any_kind bb k l p :
  rect_fits bb -> Forall call_fits (fill_calls l) ->
  Target.render bb k (fill_calls l) p = if contains bb p then Scanline.render l p else None.
Proof.
  intros Hbb Hf. destruct k; [|apply render_fill_native].
  rewrite render_default_native by assumption. apply render_fill_native.
Qed.

Theorem circle_pixels_draw_target c st bb k k' p :
  circle_sok c -> style_ok st -> rect_fits bb ->
  Target.render bb k (iter_call (circle_styled_pixels c st)) p = Target.render bb k' (fill_calls (circle_draw_styled c st)) p.
Proof.
  intros Hc Hs Hbb. rewrite render_iter, render_fill_any_kind by (try assumption; apply circle_calls_fit; assumption).
  rewrite circle_pixels_draw by assumption. reflexivity.
Qed.

Theorem ellipse_pixels_draw_target e st bb k k' p :
  ellipse_sok e -> style_ok st -> rect_fits bb ->
  Target.render bb k (iter_call (ellipse_styled_pixels e st)) p = Target.render bb k' (fill_calls (ellipse_draw_styled e st)) p.
Proof.
  intros He Hs Hbb. rewrite render_iter, render_fill_any_kind by (try assumption; apply ellipse_calls_fit; assumption).
  rewrite ellipse_pixels_draw by assumption. reflexivity.
Qed.

Theorem rect_calls_fit r st :
  rect_sok r -> style_ok st -> stroke_kind st = Solid -> Forall call_fits (fill_calls (rect_draw_styled r st)).
Proof.
  intros Hr Hs Hk. destruct (rect_areas_ok r st Hr Hs) as [HA HB]. pose proof Hr as [Hp [Hw Hh]].
  destruct (stroke_split st Hs) as [Hsum _]. destruct (offsets_range st Hs) as (E1 & R1 & R2 & E2). rewrite Hk in E2.
  rewrite rect_draw_styled_eq. revert HA HB. unfold rect_stroke_area, rect_fill_area, effective_stroke_color.
  rewrite E1, E2, !offset_1d.
  set (out := outside_stroke_width st) in *. set (ins := inside_stroke_width st) in *.
  replace (stroke_width st) with (ins + out) by lia.
  pose proof (dim_basic (px (tl r)) (sw (sz r)) out ins Hw R1 R2) as Bx.
  pose proof (dim_open (px (tl r)) (sw (sz r)) out ins Hw R1 R2) as Ox.
  pose proof (dim_closed (px (tl r)) (sw (sz r)) out ins Hw R1 R2) as Cx.
  pose proof (dim_basic (py (tl r)) (sh (sz r)) out ins Hh R1 R2) as By.
  pose proof (dim_open (py (tl r)) (sh (sz r)) out ins Hh R1 R2) as Oy.
  pose proof (dim_closed (py (tl r)) (sh (sz r)) out ins Hh R1 R2) as Cy.
  cbv zeta in *.
  set (Sx := off_start (px (tl r)) (sw (sz r)) out) in *. set (Sw := off_ext (sw (sz r)) out) in *.
  set (Fx := off_start (px (tl r)) (sw (sz r)) (- ins)) in *. set (Fw := off_ext (sw (sz r)) (- ins)) in *.
  set (Sy := off_start (py (tl r)) (sh (sz r)) out) in *. set (Sh := off_ext (sh (sz r)) out) in *.
  set (Fy := off_start (py (tl r)) (sh (sz r)) (- ins)) in *. set (Fh := off_ext (sh (sz r)) (- ins)) in *.
  set (W := ins + out) in *.
  clearbody Sx Sw Fx Fw Sy Sh Fy Fh W. clear Hp Hw Hh Hs Hk Hsum E1 E2 Hr.
  unfold rect_ok, point_ok, size_ok, bound. cbn [tl sz px py sw sh]. intros HA HB.
  unfold rect_borders. cbn [tl sz px py sw sh].
  destruct (0 <? Fh) eqn:EF.
  - assert (0 < Fh) as HF by lia. specialize (Oy HF). clear Cy.
    destruct (Z_lt_le_dec 0 Fw) as [HFw|HFw]; [specialize (Ox HFw); clear Cx|assert (Fw = 0) as HFw0 by lia; specialize (Cx HFw0); clear Ox];
    destruct (stroke_color st) as [sc|], (fill_color st) as [fc|], (0 <? W) eqn:EW;
    unfold fill_calls; cbn [map app fst snd]; repeat constructor; cbn [call_fits];
    unfold rect_fits, size_fits, i32_max, i32_min; cbn [tl sz px py sw sh]; lia.
  - assert (Fh = 0) as HF by lia. specialize (Cy HF). clear Oy.
    destruct (Z_lt_le_dec 0 Fw) as [HFw|HFw]; [specialize (Ox HFw); clear Cx|assert (Fw = 0) as HFw0 by lia; specialize (Cx HFw0); clear Ox];
    destruct (stroke_color st) as [sc|], (fill_color st) as [fc|], (0 <? W) eqn:EW;
    unfold fill_calls; cbn [map app fst snd]; repeat constructor; cbn [call_fits];
    unfold rect_fits, size_fits, i32_max, i32_min; cbn [tl sz px py sw sh]; lia.
Qed.

(* rectangle *)
Theorem rect_pixels_draw_target r st bb k k' p :
  rect_sok r -> style_ok st -> stroke_kind st = Solid -> rect_fits bb ->
  Target.render bb k (iter_call (rect_styled_pixels r st)) p = Target.render bb k' (fill_calls (rect_draw_styled r st)) p.
Proof.
  intros Hr Hs Hk Hbb. rewrite render_iter, render_fill_any_kind by (try assumption; apply rect_calls_fit; assumption).
  rewrite rect_pixels_draw by assumption. reflexivity.
Qed.

(* the C06 specification on the target model: draw() on either kind of target with box bb *)
Theorem circle_styled_spec_target c st bb k p :
  circle_sok c -> style_ok st -> rect_fits bb ->
  Target.render bb k (fill_calls (circle_draw_styled c st)) p =
  if contains bb p
  then styled_map (circle_contains (circle_fill_area c st)) (circle_contains (circle_stroke_area c st)) st p else None.
Proof.
  intros Hc Hs Hbb. rewrite render_fill_any_kind by (try assumption; apply circle_calls_fit; assumption).
  rewrite circle_styled_spec by assumption. reflexivity.
Qed.

Theorem ellipse_styled_spec_target e st bb k p :
  ellipse_sok e -> style_ok st -> rect_fits bb ->
  Target.render bb k (fill_calls (ellipse_draw_styled e st)) p =
  if contains bb p
  then styled_map (ellipse_contains (ellipse_fill_area e st)) (ellipse_contains (ellipse_stroke_area e st)) st p else None.
Proof.
  intros He Hs Hbb. rewrite render_fill_any_kind by (try assumption; apply ellipse_calls_fit; assumption).
  rewrite ellipse_styled_spec by assumption. reflexivity.
Qed.

Theorem rect_styled_spec_target r st bb k p :
  rect_sok r -> style_ok st -> stroke_kind st = Solid -> rect_fits bb ->
  Target.render bb k (fill_calls (rect_draw_styled r st)) p =
  if contains bb p
  then styled_map (contains (rect_fill_area r st)) (contains (rect_stroke_area r st)) st p else None.
Proof.
  intros Hr Hs Hk Hbb. rewrite render_fill_any_kind by (try assumption; apply rect_calls_fit; assumption).
  rewrite rect_styled_spec by assumption. reflexivity.
Qed.
