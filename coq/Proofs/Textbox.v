(* Text: everything drawn lies in the bounding box (C02 text clause) and drawing commutes with
   translation (C07 text clause).  Proofs only. *)
From EG Require Import Base.Prelude Base.Lemmas Model.Geometry Proofs.Geometry Model.Fontmodel Proofs.Fontmodel
  Model.Textmodel Proofs.Textmodel.
From Coq Require Import ZifyBool.

Ltac Zify.zify_post_hook ::= Z.to_euclidean_division_equations.
Set Default Timeout 60.

(* ====================================================================== pixel map of Text::draw *)
(* later lines are drawn over earlier ones *)
Fixpoint lines_pixel (F : mfont) (s : cstyle) (b : vbase) (ls : list (list Z * point)) (q : point) : option Z :=
  match ls with
  | [] => None
  | (l, p) :: rest => orelse (lines_pixel F s b rest q) (render (fst (draw_string F s l p b)) q)
  end.

Lemma render_draw_lines F s b next ls q :
  render (fst (draw_lines F s b next ls)) q = lines_pixel F s b ls q.
Proof.
  revert next. induction ls as [|[l p] ls IH]; intros next; [reflexivity|].
  cbn [draw_lines fst lines_pixel]. rewrite render_app, IH. reflexivity.
Qed.

Lemma lines_pixel_some F s b ls q :
  lines_pixel F s b ls q <> None ->
  exists l p, In (l, p) ls /\ render (fst (draw_string F s l p b)) q <> None.
Proof.
  induction ls as [|[l p] ls IH]; cbn [lines_pixel]; [congruence|]. intros H.
  destruct (lines_pixel F s b ls q) eqn:E.
  - destruct IH as (l' & p' & Hin & Hr); [congruence|]. exists l', p'. split; [right; assumption|assumption].
  - cbn [orelse] in H. exists l, p. split; [left; reflexivity|assumption].
Qed.

(* ====================================================================== one line inside its measured box *)

(* what the box computation needs from a font record (part of font_wf) *)
Definition deco_inside (f : font) : Prop := d_off (f_st f) + d_h (f_st f) <= f_ch f.

Lemma effective_color_some d t c : effective_color d t = Some c -> dcolor_is_none d = false.
Proof. destruct d; cbn; congruence. Qed.

Theorem line_drawn_in_box F s line p b q :
  font_ok (mf_geom F) -> deco_inside (mf_geom F) -> draw_ok (mf_geom F) p (length line) -> index_ok F line ->
  advance_consistent (mf_geom F) s line ->
  render (fst (draw_string F s line p b)) q <> None ->
  contains (fst (measure_string (mf_geom F) s line p b)) q = true.
Proof.
  intros Hf Hdi Hd Hix Ha H. set (f := mf_geom F) in *.
  assert (Hcw : 0 <= f_cw f) by (red in Hf; tauto).
  assert (Hsp : 0 <= f_sp f) by (red in Hf; tauto).
  rewrite render_draw_string in H by assumption. cbn zeta in H. fold f in H.
  rewrite advance_line_width in H by assumption.
  rewrite measure_string_eq by assumption. cbn [fst].
  set (o := origin f p b) in *. set (w := line_width f (length line)) in *.
  apply contains_spec. cbn [tl sz px py sw sh].
  destruct (deco_pixel f s o w q) eqn:Ed.
  - clear H. unfold deco_pixel in Ed. destruct (0 <? w); [|discriminate].
    destruct (deco_part (f_ul f) _ o w q) eqn:Eu.
    + unfold deco_part in Eu. destruct (effective_color (cs_ul s) (cs_text s)) eqn:Ec; [|discriminate].
      rewrite (effective_color_some _ _ _ Ec).
      destruct (contains (deco_box (f_ul f) o w) q) eqn:Ecn; [|discriminate].
      apply contains_spec in Ecn. unfold deco_box in Ecn. cbn [tl sz px py sw sh] in Ecn.
      red in Hf. lia.
    + cbn [orelse] in Ed. unfold deco_part in Ed.
      destruct (effective_color (cs_st s) (cs_text s)); [|discriminate].
      destruct (contains (deco_box (f_st f) o w) q) eqn:Ecn; [|discriminate].
      apply contains_spec in Ecn. unfold deco_box in Ecn. cbn [tl sz px py sw sh] in Ecn.
      red in Hf, Hdi. destruct (dcolor_is_none (cs_ul s)); lia.
  - cbn [orelse] in H.
    destruct (contains (R o (S w (f_ch f))) q) eqn:Ecn.
    + apply contains_spec in Ecn. cbn [tl sz px py sw sh] in Ecn.
      destruct (dcolor_is_none (cs_ul s)); lia.
    + exfalso. apply H. apply line_pixel_outside; assumption.
Qed.

(* ====================================================================== the box of all lines *)
Definition mm_contains (mm : option (point * point)) (q : point) : Prop :=
  match mm with
  | Some (mn, mx) => px mn <= px q <= px mx /\ py mn <= py q <= py mx
  | None => False
  end.

Lemma update_mm_mono mm bb q : mm_contains mm q -> mm_contains (update_min_max mm bb) q.
Proof.
  unfold update_min_max. destruct (bottom_right bb) as [br|]; [|auto].
  destruct mm as [[mn mx]|]; cbn [mm_contains]; [|tauto]. cbn [px py]. lia.
Qed.

Lemma update_mm_in mm bb q : contains bb q = true -> mm_contains (update_min_max mm bb) q.
Proof.
  intros H. apply contains_spec in H. unfold update_min_max, bottom_right.
  replace ((0 <? sw (sz bb)) && (0 <? sh (sz bb))) with true by lia.
  destruct mm as [[mn mx]|]; cbn [mm_contains px py]; lia.
Qed.

Lemma fold_mm_mono (g : list Z * point -> rect) ls : forall mm q,
  mm_contains mm q -> mm_contains (fold_left (fun acc lp => update_min_max acc (g lp)) ls mm) q.
Proof. induction ls as [|lp ls IH]; intros mm q H; cbn [fold_left]; [assumption|]. apply IH, update_mm_mono, H. Qed.

Lemma fold_mm_in (g : list Z * point -> rect) ls : forall mm lp q,
  In lp ls -> contains (g lp) q = true ->
  mm_contains (fold_left (fun acc lp => update_min_max acc (g lp)) ls mm) q.
Proof.
  induction ls as [|lp0 ls IH]; intros mm lp q Hin Hc; [contradiction|]. cbn [fold_left].
  destruct Hin as [->|Hin].
  - apply fold_mm_mono, update_mm_in, Hc.
  - eapply IH; eauto.
Qed.

Theorem text_bbox_contains_line_box f s ts pos text line p q :
  In (line, p) (text_lines f s ts pos text) ->
  contains (fst (measure_string f s line p (t_base ts))) q = true ->
  contains (text_bbox f s ts pos text) q = true.
Proof.
  intros Hin Hc. unfold text_bbox.
  pose proof (fold_mm_in (fun lp => fst (measure_string f s (fst lp) (snd lp) (t_base ts)))
                (text_lines f s ts pos text) None (line, p) q Hin Hc) as H.
  destruct (fold_left _ _ None) as [[mn mx]|]; [|contradiction].
  cbn [mm_contains] in H. apply with_corners_spec. lia.
Qed.

(* ====================================================================== C02 text clause *)
(* every line that Text::lines yields is inside the coordinate range and its advance is the measured one *)
Definition text_ok (F : mfont) (s : cstyle) (ts : tstyle) (pos : point) (text : list Z) : Prop :=
  forall line p, In (line, p) (text_lines (mf_geom F) s ts pos text) ->
    draw_ok (mf_geom F) p (length line) /\ index_ok F line /\ advance_consistent (mf_geom F) s line.

Theorem text_drawn_in_bbox F s ts pos text q :
  font_ok (mf_geom F) -> deco_inside (mf_geom F) -> text_ok F s ts pos text ->
  render (fst (text_draw F s ts pos text)) q <> None ->
  contains (text_bbox (mf_geom F) s ts pos text) q = true.
Proof.
  intros Hf Hdi Hok H. unfold text_draw in H. rewrite render_draw_lines in H.
  destruct (lines_pixel_some _ _ _ _ _ H) as (l & p & Hin & Hr).
  destruct (Hok l p Hin) as (Hd & Hix & Ha).
  eapply text_bbox_contains_line_box; [exact Hin|].
  apply line_drawn_in_box; assumption.
Qed.

Lemma font_wf_deco_inside f : font_wf f -> font_ok f /\ deco_inside f.
Proof. unfold font_wf, deco_inside. tauto. Qed.

(* a completely transparent style draws nothing: no call reaches the target *)
Lemma draw_string_transparent F s line p b :
  cs_is_transparent s = true -> fst (draw_string F s line p b) = [].
Proof.
  unfold cs_is_transparent. intros H.
  destruct (cs_text s) as [t|] eqn:Et; [discriminate|]. destruct (cs_bg s) as [g|] eqn:Eg; [discriminate|].
  destruct (cs_ul s) eqn:Eu; try discriminate. destruct (cs_st s) eqn:Es; try discriminate.
  unfold draw_string. rewrite Et, Eg. cbn [fst snd app]. unfold draw_decorations. rewrite Eu, Es, Et. cbn.
  destruct (_ <? _); reflexivity.
Qed.

Theorem text_transparent_draws_nothing F s ts pos text :
  cs_is_transparent s = true -> fst (text_draw F s ts pos text) = [].
Proof.
  intros H. unfold text_draw. generalize (text_lines (mf_geom F) s ts pos text) as ls. generalize pos as next.
  intros next ls. revert next. induction ls as [|[l p] ls IH]; intros next; [reflexivity|].
  cbn [draw_lines fst]. rewrite draw_string_transparent by assumption. rewrite IH. reflexivity.
Qed.

(* ====================================================================== C07 text clause: translation *)
Lemma line_pixel_translate F s text : forall o d q,
  line_pixel F s (padd o d) text (padd q d) = line_pixel F s o text q.
Proof.
  induction text as [|c rest IH]; intros o d q; [reflexivity|]. cbn [line_pixel].
  change (R (padd o d) (S (f_cw (mf_geom F)) (f_ch (mf_geom F))))
    with (translate_rect (R o (S (f_cw (mf_geom F)) (f_ch (mf_geom F)))) d).
  rewrite contains_translate.
  replace (px (padd q d) - px (padd o d)) with (px q - px o) by (unfold padd; cbn [px]; lia).
  replace (py (padd q d) - py (padd o d)) with (py q - py o) by (unfold padd; cbn [py]; lia).
  destruct (contains (R o _) q); [reflexivity|]. destruct rest as [|c2 rest2]; [reflexivity|].
  change (R (P (px (padd o d) + f_cw (mf_geom F)) (py (padd o d))) (S (f_sp (mf_geom F)) (f_ch (mf_geom F))))
    with (R (P (px o + px d + f_cw (mf_geom F)) (py o + py d)) (S (f_sp (mf_geom F)) (f_ch (mf_geom F)))).
  replace (R (P (px o + px d + f_cw (mf_geom F)) (py o + py d)) (S (f_sp (mf_geom F)) (f_ch (mf_geom F))))
    with (translate_rect (R (P (px o + f_cw (mf_geom F)) (py o)) (S (f_sp (mf_geom F)) (f_ch (mf_geom F)))) d)
    by (unfold translate_rect, padd; cbn [tl sz px py]; f_equal; f_equal; lia).
  rewrite contains_translate. destruct (contains _ q); [reflexivity|].
  rewrite <- (IH (P (px o + f_cw (mf_geom F) + f_sp (mf_geom F)) (py o)) d q).
  f_equal. unfold padd. cbn [px py]. f_equal; lia.
Qed.

Lemma deco_part_translate dd col o w d q :
  deco_part dd col (padd o d) w (padd q d) = deco_part dd col o w q.
Proof.
  unfold deco_part. destruct col; [|reflexivity].
  replace (deco_box dd (padd o d) w) with (translate_rect (deco_box dd o w) d)
    by (unfold deco_box, translate_rect, padd; cbn [tl sz px py]; f_equal; f_equal; lia).
  rewrite contains_translate. reflexivity.
Qed.

Lemma deco_pixel_translate f s o w d q : deco_pixel f s (padd o d) w (padd q d) = deco_pixel f s o w q.
Proof. unfold deco_pixel. rewrite !deco_part_translate. reflexivity. Qed.

Lemma origin_translate f p d b : origin f (padd p d) b = padd (origin f p b) d.
Proof. unfold origin, padd. cbn [px py]. f_equal. lia. Qed.

Theorem draw_string_translate F s l p b d q :
  font_ok (mf_geom F) -> draw_ok (mf_geom F) p (length l) -> draw_ok (mf_geom F) (padd p d) (length l) ->
  index_ok F l ->
  render (fst (draw_string F s l (padd p d) b)) (padd q d) = render (fst (draw_string F s l p b)) q /\
  snd (draw_string F s l (padd p d) b) = padd (snd (draw_string F s l p b)) d.
Proof.
  intros Hf H1 H2 Hix. split.
  - rewrite !render_draw_string by assumption. cbn zeta.
    rewrite origin_translate, deco_pixel_translate, line_pixel_translate. reflexivity.
  - rewrite !draw_string_next. unfold padd. cbn [px py]. f_equal. lia.
Qed.

Lemma line_position_translate f s ts pos d line :
  line_position f s ts (padd pos d) line = padd (line_position f s ts pos line) d.
Proof.
  unfold line_position. destruct (t_align ts); [reflexivity| |]; unfold padd, psub; cbn [px py]; f_equal; lia.
Qed.

Definition shift_lines (d : point) (ls : list (list Z * point)) : list (list Z * point) :=
  map (fun lp => (fst lp, padd (snd lp) d)) ls.

Lemma lines_from_translate f s ts pos d raws :
  lines_from f s ts (padd pos d) raws = shift_lines d (lines_from f s ts pos raws).
Proof.
  unfold shift_lines. revert pos. induction raws as [|r raws IH]; intros pos; [reflexivity|].
  cbn [lines_from map fst snd]. rewrite line_position_translate. f_equal.
  rewrite <- IH. f_equal. unfold padd. cbn [px py]. f_equal. lia.
Qed.

Lemma text_lines_translate f s ts pos d text :
  text_lines f s ts (padd pos d) text = shift_lines d (text_lines f s ts pos text).
Proof. apply lines_from_translate. Qed.

(* both the text and its translate stay inside the coordinate range *)
Definition text_in_range (F : mfont) (s : cstyle) (ts : tstyle) (pos : point) (text : list Z) : Prop :=
  forall line p, In (line, p) (text_lines (mf_geom F) s ts pos text) ->
    draw_ok (mf_geom F) p (length line) /\ index_ok F line.

Lemma draw_lines_translate F s b d ls : forall next q,
  font_ok (mf_geom F) ->
  (forall l p, In (l, p) ls -> draw_ok (mf_geom F) p (length l) /\ draw_ok (mf_geom F) (padd p d) (length l) /\ index_ok F l) ->
  lines_pixel F s b (shift_lines d ls) (padd q d) = lines_pixel F s b ls q /\
  snd (draw_lines F s b (padd next d) (shift_lines d ls)) = padd (snd (draw_lines F s b next ls)) d.
Proof.
  induction ls as [|[l p] ls IH]; intros next q Hf Hok; [split; reflexivity|].
  cbn [shift_lines map fst snd lines_pixel draw_lines].
  destruct (Hok l p (or_introl eq_refl)) as (H1 & H2 & Hix).
  destruct (draw_string_translate F s l p b d q Hf H1 H2 Hix) as [E1 E2].
  fold (shift_lines d ls).
  destruct (IH (snd (draw_string F s l p b)) q Hf) as [E3 E4].
  { intros l' p' Hin. apply Hok. right. exact Hin. }
  split.
  - rewrite E1, E3. reflexivity.
  - rewrite E2. exact E4.
Qed.

Theorem text_draw_translate F s ts pos d text q :
  font_ok (mf_geom F) ->
  text_in_range F s ts pos text -> text_in_range F s ts (padd pos d) text ->
  render (fst (text_draw F s ts (padd pos d) text)) (padd q d) = render (fst (text_draw F s ts pos text)) q /\
  snd (text_draw F s ts (padd pos d) text) = padd (snd (text_draw F s ts pos text)) d.
Proof.
  intros Hf H1 H2. unfold text_draw. rewrite !render_draw_lines, text_lines_translate.
  apply draw_lines_translate; [assumption|].
  intros l p Hin. destruct (H1 l p Hin) as [Ha Hb]. split; [exact Ha|]. split; [|exact Hb].
  apply (H2 l (padd p d)). rewrite text_lines_translate. unfold shift_lines.
  apply in_map_iff. exists (l, p). split; [reflexivity|assumption].
Qed.

(* ---- bounding box *)
Definition shift_mm (d : point) (mm : option (point * point)) : option (point * point) :=
  match mm with Some (mn, mx) => Some (padd mn d, padd mx d) | None => None end.

Lemma bottom_right_translate r d :
  bottom_right (translate_rect r d) = match bottom_right r with Some br => Some (padd br d) | None => None end.
Proof.
  unfold bottom_right, translate_rect, padd. cbn [tl sz px py].
  destruct ((0 <? sw (sz r)) && (0 <? sh (sz r))); [|reflexivity]. cbn [px py]. f_equal. f_equal; lia.
Qed.

Lemma update_mm_translate mm bb d :
  update_min_max (shift_mm d mm) (translate_rect bb d) = shift_mm d (update_min_max mm bb).
Proof.
  unfold update_min_max. rewrite bottom_right_translate. destruct (bottom_right bb) as [br|]; [|reflexivity].
  destruct mm as [[mn mx]|]; cbn [shift_mm]; [|reflexivity].
  unfold translate_rect, padd. cbn [tl px py]. f_equal. f_equal; f_equal; lia.
Qed.

Lemma measure_string_translate f s l p b d :
  measure_string f s l (padd p d) b =
  (translate_rect (fst (measure_string f s l p b)) d, padd (snd (measure_string f s l p b)) d).
Proof.
  unfold measure_string, translate_rect, padd. cbn [fst snd tl sz px py].
  apply injective_projections; cbn [fst snd]; [f_equal|]; f_equal; lia.
Qed.

Theorem text_bbox_translate f s ts pos d text :
  text_bbox f s ts (padd pos d) text = translate_rect (text_bbox f s ts pos text) d.
Proof.
  unfold text_bbox. rewrite text_lines_translate.
  assert (E : forall ls mm,
            fold_left (fun acc lp => update_min_max acc (fst (measure_string f s (fst lp) (snd lp) (t_base ts))))
                      (shift_lines d ls) (shift_mm d mm) =
            shift_mm d (fold_left (fun acc lp => update_min_max acc (fst (measure_string f s (fst lp) (snd lp) (t_base ts))))
                                  ls mm)).
  { induction ls as [|[l p] ls IH]; intros mm; [reflexivity|].
    cbn [shift_lines map fold_left fst snd]. rewrite measure_string_translate. cbn [fst].
    rewrite update_mm_translate. apply IH. }
  specialize (E (text_lines f s ts pos text) None). cbn [shift_mm] in E.
  set (m := fold_left _ (text_lines f s ts pos text) None) in *.
  set (m' := fold_left _ (shift_lines d (text_lines f s ts pos text)) None) in *.
  rewrite E. clear E m'. destruct m as [[mn mx]|]; cbn [shift_mm].
  - unfold with_corners, translate_rect, size_from_bounding_box, padd. cbn [tl sz px py].
    f_equal; f_equal; lia.
  - reflexivity.
Qed.

(* ====================================================================== C14 at Text level *)
(* Text::draw of a text without '\n' is draw_string of the (CR stripped) line at the aligned position *)
Theorem text_draw_one_line F s ts pos l :
  no_nl l ->
  text_draw F s ts pos l =
  draw_string F s (strip_cr l) (line_position (mf_geom F) s ts pos (strip_cr l)) (t_base ts).
Proof. exact (text_draw_single_line F s ts pos l). Qed.

(* any line of a multi-line text: where no OTHER line draws (lines do not overlap when the line height is at
   least the glyph / decoration height), the pixel is the one draw_string gives that line *)
Lemma lines_pixel_nth F s b ls : forall k line p q,
  nth_error ls k = Some (line, p) ->
  (forall j l' p', j <> k -> nth_error ls j = Some (l', p') -> render (fst (draw_string F s l' p' b)) q = None) ->
  lines_pixel F s b ls q = render (fst (draw_string F s line p b)) q.
Proof.
  induction ls as [|[l0 p0] ls IH]; intros k line p q Hn Hother; [destruct k; discriminate|].
  cbn [lines_pixel]. destruct k as [|k]; cbn [nth_error] in Hn.
  - injection Hn as -> ->.
    assert (E : forall ls', (forall j l' p', nth_error ls' j = Some (l', p') -> render (fst (draw_string F s l' p' b)) q = None) ->
                lines_pixel F s b ls' q = None).
    { induction ls' as [|[l1 p1] ls' IH2]; intros H; [reflexivity|]. cbn [lines_pixel].
      rewrite IH2 by (intros j l' p' Hj; apply (H (Datatypes.S j)); exact Hj).
      rewrite (H O l1 p1 eq_refl). reflexivity. }
    rewrite E; [reflexivity|]. intros j l' p' Hj. apply (Hother (Datatypes.S j)); [discriminate|exact Hj].
  - rewrite (IH k line p q Hn).
    + rewrite (Hother O l0 p0) by (try discriminate; reflexivity). apply orelse_none_r.
    + intros j l' p' Hj Hnj. apply (Hother (Datatypes.S j)); [congruence|exact Hnj].
Qed.

Theorem text_line_pixels F s ts pos text k line p q :
  nth_error (text_lines (mf_geom F) s ts pos text) k = Some (line, p) ->
  (forall j l' p', j <> k -> nth_error (text_lines (mf_geom F) s ts pos text) j = Some (l', p') ->
                   render (fst (draw_string F s l' p' (t_base ts))) q = None) ->
  render (fst (text_draw F s ts pos text)) q = render (fst (draw_string F s line p (t_base ts))) q.
Proof. intros Hn Ho. unfold text_draw. rewrite render_draw_lines. apply (lines_pixel_nth F s (t_base ts) _ k); assumption. Qed.

(* the property's wording: Text with a MonoTextStyle, i-th character of a (single, left aligned) line *)
Theorem text_cell F s ts pos text i c dx dy :
  font_ok (mf_geom F) -> draw_ok (mf_geom F) pos (length text) -> index_ok F text ->
  t_align ts = ALeft -> no_nl text -> strip_cr text = text ->
  nth_error text i = Some c -> 0 <= dx < f_cw (mf_geom F) -> 0 <= dy < f_ch (mf_geom F) ->
  let f := mf_geom F in
  let q := P (px pos + Z.of_nat i * (f_cw f + f_sp f) + dx) (py pos - baseline_offset f (t_base ts) + dy) in
  render (fst (text_draw F s ts pos text)) q =
  orelse (deco_pixel f s (origin f pos (t_base ts)) (advance f s (length text)) q) (cell_colour F s c dx dy).
Proof.
  intros Hf Hd Hix Ha Hn Hc Hi Hdx Hdy. cbn zeta. rewrite text_draw_single_line by assumption.
  rewrite Hc. unfold line_position. rewrite Ha.
  exact (draw_string_cell F s text pos (t_base ts) i c dx dy Hf Hd Hix Hi Hdx Hdy).
Qed.

(* ====================================================================== bounding box = hull of the line boxes *)
(* (a) it contains every line box: text_bbox_contains_line_box above.
   (b) it is the smallest such rectangle: every rectangle that contains all line boxes contains it. *)
Definition line_box (f : font) (s : cstyle) (ts : tstyle) (lp : list Z * point) : rect :=
  fst (measure_string f s (fst lp) (snd lp) (t_base ts)).

Definition mm_inside (c : rect) (mm : option (point * point)) : Prop :=
  match mm with
  | Some (mn, mx) => contains c mn = true /\ contains c mx = true
  | None => True
  end.

Lemma update_mm_inside c mm bb :
  mm_inside c mm -> (forall q, contains bb q = true -> contains c q = true) ->
  mm_inside c (update_min_max mm bb).
Proof.
  intros Hm Hb. unfold update_min_max. destruct (bottom_right bb) as [br|] eqn:E; [|exact Hm].
  unfold bottom_right in E. destruct ((0 <? sw (sz bb)) && (0 <? sh (sz bb))) eqn:Epos; [|discriminate].
  injection E as <-.
  assert (Htl : contains c (tl bb) = true) by (apply Hb, contains_spec; lia).
  assert (Hbr : contains c (P (px (tl bb) + sw (sz bb) - 1) (py (tl bb) + sh (sz bb) - 1)) = true)
    by (apply Hb, contains_spec; cbn [px py]; lia).
  destruct mm as [[mn mx]|]; cbn [mm_inside] in *; [|split; assumption].
  destruct Hm as [Hmn Hmx]. apply contains_spec in Htl, Hbr, Hmn, Hmx. cbn [px py] in Hbr.
  split; apply contains_spec; cbn [px py]; lia.
Qed.

Lemma fold_mm_inside c (g : list Z * point -> rect) ls : forall mm,
  mm_inside c mm -> (forall lp q, In lp ls -> contains (g lp) q = true -> contains c q = true) ->
  mm_inside c (fold_left (fun acc lp => update_min_max acc (g lp)) ls mm).
Proof.
  induction ls as [|lp ls IH]; intros mm Hm Hb; cbn [fold_left]; [exact Hm|].
  apply IH.
  - apply update_mm_inside; [exact Hm|]. intros q Hq. apply (Hb lp q); [left; reflexivity|exact Hq].
  - intros lp' q Hin Hq. apply (Hb lp' q); [right; exact Hin|exact Hq].
Qed.

Theorem text_bbox_smallest f s ts pos text c :
  (forall lp q, In lp (text_lines f s ts pos text) -> contains (line_box f s ts lp) q = true -> contains c q = true) ->
  forall q, contains (text_bbox f s ts pos text) q = true -> contains c q = true.
Proof.
  intros Hb q Hq. unfold text_bbox in Hq.
  pose proof (fold_mm_inside c (line_box f s ts) (text_lines f s ts pos text) None I Hb) as H.
  unfold line_box in H.
  destruct (fold_left _ _ None) as [[mn mx]|].
  - cbn [mm_inside] in H. destruct H as [Hmn Hmx]. apply with_corners_spec in Hq.
    apply contains_spec in Hmn, Hmx. apply contains_spec. lia.
  - rewrite contains_zero_width in Hq. discriminate.
Qed.

Theorem text_bbox_contains_line_boxes f s ts pos text lp q :
  In lp (text_lines f s ts pos text) -> contains (line_box f s ts lp) q = true ->
  contains (text_bbox f s ts pos text) q = true.
Proof. destruct lp as [line p]. apply text_bbox_contains_line_box. Qed.

(* no non-empty line: the zero-sized box at the text position *)
Theorem text_bbox_all_empty f s ts pos text :
  0 <= f_cw f -> 0 <= f_sp f ->
  (forall line p, In (line, p) (text_lines f s ts pos text) -> line = []) ->
  text_bbox f s ts pos text = R pos (S 0 0).
Proof.
  intros H1 H2 He. unfold text_bbox.
  assert (E : forall ls, (forall line p, In (line, p) ls -> line = []) ->
              fold_left (fun acc lp => update_min_max acc (fst (measure_string f s (fst lp) (snd lp) (t_base ts)))) ls None = None).
  { induction ls as [|[l p] ls IH]; intros H; [reflexivity|]. cbn [fold_left fst snd].
    rewrite (H l p (or_introl eq_refl)). rewrite measure_string_eq by assumption. cbn [fst length line_width].
    unfold update_min_max, bottom_right. cbn [sz sw]. cbn. apply IH. intros l' p' Hin. apply (H l' p'). right. exact Hin. }
  rewrite E by exact He. reflexivity.
Qed.

(* ====================================================================== zero-width fonts (the null font) *)
Theorem text_draw_zero_width F s ts pos text :
  f_cw (mf_geom F) = 0 -> f_sp (mf_geom F) = 0 -> fst (text_draw F s ts pos text) = [].
Proof.
  intros H1 H2. unfold text_draw. generalize (text_lines (mf_geom F) s ts pos text) as ls. generalize pos as next.
  intros next ls. revert next. induction ls as [|[l p] ls IH]; intros next; [reflexivity|].
  cbn [draw_lines fst]. rewrite draw_string_zero_width by assumption. cbn [fst snd]. apply IH.
Qed.

Theorem text_bbox_zero_width f s ts pos text :
  f_cw f = 0 -> f_sp f = 0 -> text_bbox f s ts pos text = R pos (S 0 0).
Proof.
  intros H1 H2. unfold text_bbox.
  assert (E : forall ls,
              fold_left (fun acc lp => update_min_max acc (fst (measure_string f s (fst lp) (snd lp) (t_base ts)))) ls None = None).
  { induction ls as [|[l p] ls IH]; [reflexivity|]. cbn [fold_left fst snd].
    rewrite measure_string_eq by lia. cbn [fst]. rewrite line_width_zero by assumption.
    unfold update_min_max, bottom_right. cbn [sz sw]. cbn. apply IH. }
  rewrite E. reflexivity.
Qed.
