(* Text facts specialised to the built-in fonts (Gen/FontTable.v via Proofs/Fontbuiltin.v). *)
From EG Require Import Base.Prelude Model.Geometry Proofs.Geometry Model.Fontmodel Proofs.Fontmodel
  Model.Textmodel Proofs.Textmodel Gen.FontTable Model.Fontbuiltin Proofs.Fontbuiltin.
Set Default Timeout 60.

Theorem builtin_draw_returns_measured b idx atlas s text pos bl :
  In b fonts ->
  let F := MFont (bf_font b) idx atlas in
  snd (draw_string F s text pos bl) = snd (measure_string (bf_font b) s text pos bl).
Proof.
  intros H. cbn zeta. destruct (builtin_font_wf b H) as [Hw Hsp].
  apply draw_returns_measured; cbn [mf_geom]; [red in Hw; unfold font_ok in Hw; lia|lia|left; exact Hsp].
Qed.
