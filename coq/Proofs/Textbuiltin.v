(* Text facts specialised to the built-in fonts (Gen/FontTable.v via Proofs/Fontbuiltin.v). *)
From EG Require Import Base.Prelude Model.Geometry Proofs.Geometry Model.Fontmodel Proofs.Fontmodel
  Model.Textmodel Proofs.Textmodel Gen.FontTable Model.Fontbuiltin Proofs.Fontbuiltin.
Set Default Timeout 60.

Theorem builtin_draw_returns_measured b idx atlas s text pos bl :
  In b fonts ->
  let F := MFont (bf_font b) idx atlas in
  snd (draw_string F s text pos bl) = snd (measure_string (bf_font b) s text pos bl).
Proof.
  intros H. cbn zeta. destruct (builtin_font_wf b H) as [Hw Hsp].
  apply draw_returns_measured; cbn [mf_geom]; [red in Hw; unfold font_ok in Hw; lia|lia|left; exact Hsp].
Qed.

From EG Require Import Proofs.Textbox.

(* the index of a built-in mapping is small: index_ok holds for every string *)
Lemma builtin_index_ok b atlas text : In b fonts -> index_ok (MFont (bf_font b) (builtin_index b) atlas) text.
Proof.
  intros H c _. cbn [mf_geom mf_index]. apply builtin_glyph_index_ok. exact H.
Qed.

(* C02 text clause for every built-in font: the record is well formed (vm_compute over the regenerated
   table), spacing is 0, so only the coordinate range remains as hypothesis *)
Definition lines_in_range (f : font) (s : cstyle) (ts : tstyle) (pos : point) (text : list Z) : Prop :=
  forall line p, In (line, p) (text_lines f s ts pos text) -> draw_ok f p (length line).

Theorem builtin_text_drawn_in_bbox b atlas s ts pos text q :
  In b fonts ->
  let F := MFont (bf_font b) (builtin_index b) atlas in
  lines_in_range (bf_font b) s ts pos text ->
  render (fst (text_draw F s ts pos text)) q <> None ->
  contains (text_bbox (bf_font b) s ts pos text) q = true.
Proof.
  intros H F Hr Hq. destruct (builtin_font_wf b H) as [Hw Hsp].
  destruct (font_wf_deco_inside _ Hw) as [Hf Hdi].
  apply (text_drawn_in_bbox F s ts pos text q); auto.
  intros line p Hin. split; [apply Hr; assumption|]. split; [apply builtin_index_ok; assumption|left; exact Hsp].
Qed.

(* ---- C15 on the property's quantifier: built-in fonts, Text level *)
Theorem builtin_text_draw_returns_measured b idx atlas s ts pos text line p :
  In b fonts ->
  let F := MFont (bf_font b) idx atlas in
  last_opt (text_lines (bf_font b) s ts pos text) = Some (line, p) ->
  snd (text_draw F s ts pos text) = snd (measure_string (bf_font b) s line p (t_base ts)).
Proof.
  intros H F Hl. destruct (builtin_font_wf b H) as [Hw Hsp].
  apply (text_draw_returns_measured F s ts pos text line p); cbn [mf_geom F]; auto;
    [red in Hw; unfold font_ok in Hw; lia|lia|left; exact Hsp].
Qed.

Theorem builtin_chain_left b atlas s ts pos s1 s2 q :
  In b fonts ->
  let F := MFont (bf_font b) (builtin_index b) atlas in
  t_align ts = ALeft -> no_nl s1 -> no_nl s2 -> strip_cr s1 = s1 -> draw_ok (bf_font b) pos (length (s1 ++ s2)) ->
  let r1 := text_draw F s ts pos s1 in
  let r2 := text_draw F s ts (snd r1) s2 in
  let r12 := text_draw F s ts pos (s1 ++ s2) in
  snd r2 = snd r12 /\ render (fst r1 ++ fst r2) q = render (fst r12) q.
Proof.
  intros H F Ha H1 H2 Hc Hd. destruct (builtin_font_wf b H) as [Hw Hsp]. destruct Hw as (Hok & _).
  apply (text_chain_left F s ts pos s1 s2 q); auto. apply builtin_index_ok. exact H.
Qed.

(* ====================================================================== NULL_FONT (src/mono_font/mod.rs) *)
(* the default font of MonoTextStyleBuilder::new(): regenerated into Gen/FontTable.v as `null_font`.
   It is NOT font_wf (zero-sized cell, no glyph inside the empty atlas): what holds is stated here. *)
Definition null_font_zero_b : bool :=
  let f := bf_font null_font in
  (f_iw f =? 0) && (f_ih f =? 0) && (f_cw f =? 0) && (f_ch f =? 0) && (f_sp f =? 0) && (f_base f =? 0) &&
  (d_off (f_ul f) =? 0) && (d_h (f_ul f) =? 0) && (d_off (f_st f) =? 0) && (d_h (f_st f) =? 0) &&
  (bf_rawlen null_font =? 0) &&
  match mapping_of null_font with Some m => zlist_eqb (bm_name m) [65; 83; 67; 73; 73] | None => false end.

Theorem null_font_all_zero :
  bf_font null_font = Font 0 0 0 0 0 0 (Deco 0 0) (Deco 0 0) /\ bf_rawlen null_font = 0 /\
  exists m, mapping_of null_font = Some m /\ bm_name m = [65; 83; 67; 73; 73].
Proof.
  assert (E : null_font_zero_b = true) by (vm_compute; reflexivity). unfold null_font_zero_b in E.
  destruct (mapping_of null_font) as [m|] eqn:Em; [|rewrite !andb_false_r in E; discriminate].
  destruct (bf_font null_font) as [iw ih cw ch sp base [uo uh] [so sh]] eqn:Ef. cbn [f_iw f_ih f_cw f_ch f_sp f_base f_ul f_st d_off d_h] in E.
  repeat (apply andb_prop in E; destruct E as [E ?]).
  split; [f_equal; try f_equal; lia|]. split; [lia|]. exists m. split; [reflexivity|]. apply zlist_eqb_eq. assumption.
Qed.

Lemma null_font_geom : f_cw (bf_font null_font) = 0 /\ f_sp (bf_font null_font) = 0.
Proof. destruct null_font_all_zero as [E _]. rewrite E. split; reflexivity. Qed.

(* the side conditions of the generic theorems that DO hold for the null font *)
Theorem null_font_side_conditions idx atlas s text :
  let F := MFont (bf_font null_font) idx atlas in
  font_ok (bf_font null_font) /\ deco_inside (bf_font null_font) /\ index_ok F text /\
  advance_consistent (bf_font null_font) s text /\ ~ font_wf (bf_font null_font).
Proof.
  cbn zeta. destruct null_font_all_zero as [E _]. rewrite E.
  split; [unfold font_ok, half; cbn; lia|]. split; [unfold deco_inside; cbn; lia|].
  split; [intros c _; left; reflexivity|]. split; [left; reflexivity|].
  unfold font_wf. cbn. lia.
Qed.

(* C14: a MonoTextStyle with the null font draws nothing: no call reaches the target, whatever the colours *)
Theorem null_font_draws_nothing idx atlas s text pos bl :
  draw_string (MFont (bf_font null_font) idx atlas) s text pos bl = ([], pos).
Proof. destruct null_font_geom. apply draw_string_zero_width; assumption. Qed.

Theorem null_font_text_draws_nothing idx atlas s ts pos text :
  fst (text_draw (MFont (bf_font null_font) idx atlas) s ts pos text) = [].
Proof. destruct null_font_geom. apply text_draw_zero_width; assumption. Qed.

(* C15: draw returns what measure_string predicts (this is what a non-zero NULL_FONT.character_spacing breaks) *)
Theorem null_font_draw_returns_measured idx atlas s text pos bl :
  snd (draw_string (MFont (bf_font null_font) idx atlas) s text pos bl) =
  snd (measure_string (bf_font null_font) s text pos bl).
Proof.
  destruct null_font_geom as [H1 H2].
  apply draw_returns_measured; cbn [mf_geom]; [lia|lia|left; exact H2].
Qed.

Theorem null_font_text_draw_returns_measured idx atlas s ts pos text line p :
  last_opt (text_lines (bf_font null_font) s ts pos text) = Some (line, p) ->
  snd (text_draw (MFont (bf_font null_font) idx atlas) s ts pos text) =
  snd (measure_string (bf_font null_font) s line p (t_base ts)).
Proof.
  intros Hl. destruct null_font_geom as [H1 H2].
  apply (text_draw_returns_measured (MFont (bf_font null_font) idx atlas) s ts pos text line p); cbn [mf_geom]; auto; [lia|lia|left; exact H2].
Qed.

(* C02: the bounding box is the zero-sized rectangle at the position, and (nothing being drawn) contains all drawn pixels *)
Theorem null_font_bbox s ts pos text : text_bbox (bf_font null_font) s ts pos text = R pos (S 0 0).
Proof. destruct null_font_geom. apply text_bbox_zero_width; assumption. Qed.

Theorem null_font_text_in_bbox idx atlas s ts pos text q :
  render (fst (text_draw (MFont (bf_font null_font) idx atlas) s ts pos text)) q <> None ->
  contains (text_bbox (bf_font null_font) s ts pos text) q = true.
Proof. rewrite null_font_text_draws_nothing. intros H. exfalso. apply H. reflexivity. Qed.
