(* Text facts specialised to the built-in fonts (Gen/FontTable.v via Proofs/Fontbuiltin.v). *)
From EG Require Import Base.Prelude Model.Geometry Proofs.Geometry Model.Fontmodel Proofs.Fontmodel
  Model.Textmodel Proofs.Textmodel Gen.FontTable Model.Fontbuiltin Proofs.Fontbuiltin.
Set Default Timeout 60.

Theorem builtin_draw_returns_measured b idx atlas s text pos bl :
  In b fonts ->
  let F := MFont (bf_font b) idx atlas in
  snd (draw_string F s text pos bl) = snd (measure_string (bf_font b) s text pos bl).
Proof.
  intros H. cbn zeta. destruct (builtin_font_wf b H) as [Hw Hsp].
  apply draw_returns_measured; cbn [mf_geom]; [red in Hw; unfold font_ok in Hw; lia|lia|left; exact Hsp].
Qed.

From EG Require Import Proofs.Textbox.

(* the index of a built-in mapping is small: index_ok holds for every string *)
Lemma builtin_index_ok b atlas text : In b fonts -> index_ok (MFont (bf_font b) (builtin_index b) atlas) text.
Proof.
  intros H c _. cbn [mf_geom mf_index]. apply builtin_glyph_index_ok. exact H.
Qed.

(* C02 text clause for every built-in font: the record is well formed (vm_compute over the regenerated
   table), spacing is 0, so only the coordinate range remains as hypothesis *)
Definition lines_in_range (f : font) (s : cstyle) (ts : tstyle) (pos : point) (text : list Z) : Prop :=
  forall line p, In (line, p) (text_lines f s ts pos text) -> draw_ok f p (length line).

Theorem builtin_text_drawn_in_bbox b atlas s ts pos text q :
  In b fonts ->
  let F := MFont (bf_font b) (builtin_index b) atlas in
  lines_in_range (bf_font b) s ts pos text ->
  render (fst (text_draw F s ts pos text)) q <> None ->
  contains (text_bbox (bf_font b) s ts pos text) q = true.
Proof.
  intros H F Hr Hq. destruct (builtin_font_wf b H) as [Hw Hsp].
  destruct (font_wf_deco_inside _ Hw) as [Hf Hdi].
  apply (text_drawn_in_bbox F s ts pos text q); auto.
  intros line p Hin. split; [apply Hr; assumption|]. split; [apply builtin_index_ok; assumption|left; exact Hsp].
Qed.

(* ---- C15 on the property's quantifier: built-in fonts, Text level *)
Theorem builtin_text_draw_returns_measured b idx atlas s ts pos text line p :
  In b fonts ->
  let F := MFont (bf_font b) idx atlas in
  last_opt (text_lines (bf_font b) s ts pos text) = Some (line, p) ->
  snd (text_draw F s ts pos text) = snd (measure_string (bf_font b) s line p (t_base ts)).
Proof.
  intros H F Hl. destruct (builtin_font_wf b H) as [Hw Hsp].
  apply (text_draw_returns_measured F s ts pos text line p); cbn [mf_geom F]; auto;
    [red in Hw; unfold font_ok in Hw; lia|lia|left; exact Hsp].
Qed.

Theorem builtin_chain_left b atlas s ts pos s1 s2 q :
  In b fonts ->
  let F := MFont (bf_font b) (builtin_index b) atlas in
  t_align ts = ALeft -> no_nl s1 -> no_nl s2 -> strip_cr s1 = s1 -> draw_ok (bf_font b) pos (length (s1 ++ s2)) ->
  let r1 := text_draw F s ts pos s1 in
  let r2 := text_draw F s ts (snd r1) s2 in
  let r12 := text_draw F s ts pos (s1 ++ s2) in
  snd r2 = snd r12 /\ render (fst r1 ++ fst r2) q = render (fst r12) q.
Proof.
  intros H F Ha H1 H2 Hc Hd. destruct (builtin_font_wf b H) as [Hw Hsp]. destruct Hw as (Hok & _).
  apply (text_chain_left F s ts pos s1 s2 q); auto. apply builtin_index_ok. exact H.
Qed.
