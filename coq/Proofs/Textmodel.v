(* Lemmas about Model/Textmodel.v (property C15; used by C02_text / C07_text): Text::lines, Text::draw,
   Text::bounding_box with a MonoTextStyle.  Proofs only, not extracted. *)
From EG Require Import Base.Prelude Base.Lemmas Model.Geometry Proofs.Geometry Model.Fontmodel Proofs.Fontmodel
  Model.Textmodel.
From Coq Require Import ZifyBool.

Ltac Zify.zify_post_hook ::= Z.to_euclidean_division_equations.
Set Default Timeout 60.

(* ====================================================================== split('\n') and strip_suffix('\r') *)

Definition no_nl (l : list Z) : Prop := ~ In 10 l.
(* a line's content: no newline inside, and it does not itself end in a carriage return *)
Definition clean_line (l : list Z) : Prop := no_nl l /\ strip_cr l = l.

Lemma split_nl_nonempty s : split_nl s <> [].
Proof.
  induction s as [|c s IH]; cbn [split_nl]; [discriminate|].
  destruct (c =? 10); [discriminate|]. destruct (split_nl s); [contradiction|discriminate].
Qed.

Lemma split_nl_no_nl l : no_nl l -> split_nl l = [l].
Proof.
  unfold no_nl. induction l as [|c l IH]; intros H; [reflexivity|]. cbn [split_nl].
  destruct (Z.eqb_spec c 10) as [->|Hc]; [exfalso; apply H; left; reflexivity|].
  rewrite IH by (intros Hin; apply H; right; assumption). reflexivity.
Qed.

Lemma split_nl_line l x : no_nl l -> split_nl (l ++ 10 :: x) = l :: split_nl x.
Proof.
  unfold no_nl. induction l as [|c l IH]; intros H; [reflexivity|]. cbn [app split_nl].
  destruct (Z.eqb_spec c 10) as [->|Hc]; [exfalso; apply H; left; reflexivity|].
  rewrite IH by (intros Hin; apply H; right; assumption). reflexivity.
Qed.

(* text ++ "\n" ++ rest: the lines of text followed by the lines of rest *)
Lemma split_nl_app_nl a x : split_nl (a ++ 10 :: x) = split_nl a ++ split_nl x.
Proof.
  induction a as [|c a IH]; [reflexivity|]. cbn [app split_nl]. rewrite IH.
  destruct (c =? 10); [reflexivity|].
  pose proof (split_nl_nonempty a). destruct (split_nl a); [contradiction|reflexivity].
Qed.

Lemma strip_cr_snoc_cr l : strip_cr (l ++ [13]) = l.
Proof.
  induction l as [|c l IH]; [reflexivity|]. cbn [app]. destruct l as [|c2 l].
  - cbn. reflexivity.
  - change (strip_cr (c :: (c2 :: l) ++ [13])) with (c :: strip_cr ((c2 :: l) ++ [13])). rewrite IH. reflexivity.
Qed.

Lemma no_nl_app a b : no_nl a -> no_nl b -> no_nl (a ++ b).
Proof. unfold no_nl. intros Ha Hb H. apply in_app_or in H. tauto. Qed.

(* lines joined by "\n" or "\r\n" (chosen per line break) *)
Fixpoint join_lines (l0 : list Z) (rest : list (bool * list Z)) : list Z :=
  match rest with
  | [] => l0
  | (crlf, l) :: t => l0 ++ (if crlf then [13; 10] else [10]) ++ join_lines l t
  end.

Lemma lines_of_join l0 rest :
  clean_line l0 -> Forall (fun bl => clean_line (snd bl)) rest ->
  map strip_cr (split_nl (join_lines l0 rest)) = l0 :: map snd rest.
Proof.
  revert l0. induction rest as [|[crlf l] t IH]; intros l0 [Hn Hs] Hall; cbn [join_lines map snd].
  - rewrite split_nl_no_nl by assumption. cbn [map]. rewrite Hs. reflexivity.
  - inversion Hall as [|? ? Hl Ht]; subst. cbn [snd] in Hl. destruct crlf.
    + change (l0 ++ [13; 10] ++ join_lines l t) with (l0 ++ [13] ++ 10 :: join_lines l t).
      rewrite app_assoc, split_nl_line by (apply no_nl_app; [assumption|intros [H|[]]; discriminate]).
      cbn [map]. rewrite strip_cr_snoc_cr, IH by assumption. reflexivity.
    + change (l0 ++ [10] ++ join_lines l t) with (l0 ++ 10 :: join_lines l t).
      rewrite split_nl_line by assumption. cbn [map]. rewrite Hs, IH by assumption. reflexivity.
Qed.

(* ====================================================================== lines_from / draw_lines *)

Definition shift_y (p : point) (dy : Z) : point := P (px p) (py p + dy).

(* Text::lines applies strip_suffix first: only the stripped lines matter *)
Lemma lines_from_strip f s ts pos raws raws' :
  map strip_cr raws = map strip_cr raws' -> lines_from f s ts pos raws = lines_from f s ts pos raws'.
Proof.
  revert pos raws'. induction raws as [|r raws IH]; intros pos [|r' raws']; cbn [map]; try discriminate; [reflexivity|].
  intros [= E1 E2]. cbn [lines_from]. rewrite E1. f_equal. apply IH. assumption.
Qed.

Lemma lines_from_app f s ts pos a b :
  lines_from f s ts pos (a ++ b) =
  lines_from f s ts pos a ++ lines_from f s ts (shift_y pos (Z.of_nat (length a) * text_line_height f ts)) b.
Proof.
  revert pos. induction a as [|r a IH]; intros pos.
  - cbn [app lines_from length Z.of_nat]. unfold shift_y. rewrite Z.mul_0_l, Z.add_0_r. destruct pos; reflexivity.
  - cbn [app lines_from length]. f_equal. rewrite IH. f_equal. f_equal. unfold shift_y. cbn [px py]. f_equal.
    rewrite Nat2Z.inj_succ. lia.
Qed.

Lemma draw_lines_app F s b next l1 l2 :
  draw_lines F s b next (l1 ++ l2) =
  (fst (draw_lines F s b next l1) ++ fst (draw_lines F s b (snd (draw_lines F s b next l1)) l2),
   snd (draw_lines F s b (snd (draw_lines F s b next l1)) l2)).
Proof.
  revert next. induction l1 as [|[line p] l1 IH]; intros next.
  - cbn [app draw_lines fst snd]. destruct (draw_lines F s b next l2); reflexivity.
  - cbn [app draw_lines]. rewrite IH. cbn [fst snd]. rewrite app_assoc. reflexivity.
Qed.

(* the start value of next_position only matters for an empty list of lines (which split never yields) *)
Lemma draw_lines_next_irrelevant F s b n1 n2 l : l <> [] -> draw_lines F s b n1 l = draw_lines F s b n2 l.
Proof. destruct l as [|[line p] l]; [contradiction|reflexivity]. Qed.

Lemma lines_from_nonempty f s ts pos raws : raws <> [] -> lines_from f s ts pos raws <> [].
Proof. destruct raws; [contradiction|discriminate]. Qed.

(* ====================================================================== C15 newline_split *)
Theorem text_draw_newline_split F s ts pos l r :
  let k := Z.of_nat (length (split_nl l)) in
  let pos2 := shift_y pos (k * text_line_height (mf_geom F) ts) in
  text_draw F s ts pos (l ++ 10 :: r) =
  (fst (text_draw F s ts pos l) ++ fst (text_draw F s ts pos2 r), snd (text_draw F s ts pos2 r)).
Proof.
  cbn zeta. unfold text_draw, text_lines. rewrite split_nl_app_nl, lines_from_app, draw_lines_app.
  set (pos2 := shift_y pos _).
  set (n1 := snd (draw_lines F s (t_base ts) pos _)).
  rewrite (draw_lines_next_irrelevant F s (t_base ts) n1 pos2 (lines_from (mf_geom F) s ts pos2 (split_nl r)))
    by (apply lines_from_nonempty, split_nl_nonempty).
  reflexivity.
Qed.

(* the k-th line: stripped k-th piece, drawn line_height * k lower, x decided by the alignment alone *)
Lemma lines_from_nth f s ts pos raws k raw :
  nth_error raws k = Some raw ->
  nth_error (lines_from f s ts pos raws) k =
  Some (strip_cr raw, line_position f s ts (shift_y pos (Z.of_nat k * text_line_height f ts)) (strip_cr raw)).
Proof.
  revert pos k. induction raws as [|r raws IH]; intros pos k H; [destruct k; discriminate|].
  destruct k as [|k]; cbn [nth_error lines_from] in *.
  - injection H as ->. unfold shift_y. cbn [Z.of_nat]. rewrite Z.mul_0_l, Z.add_0_r. destruct pos; reflexivity.
  - rewrite (IH _ _ H). f_equal. f_equal. f_equal. unfold shift_y. cbn [px py]. f_equal. rewrite Nat2Z.inj_succ. lia.
Qed.

(* ====================================================================== measure_string *)

Lemma measure_width f n :
  0 <= f_cw f -> 0 <= f_sp f ->
  sat_sub_u32 (Z.of_nat n * (f_cw f + f_sp f)) (f_sp f) = line_width f n.
Proof.
  intros. unfold sat_sub_u32, line_width. destruct n; [lia|]. rewrite !Nat2Z.inj_succ. nia.
Qed.

Lemma measure_string_eq f s text pos b :
  0 <= f_cw f -> 0 <= f_sp f ->
  measure_string f s text pos b =
  (R (origin f pos b)
     (S (line_width f (length text))
        (if dcolor_is_none (cs_ul s) then f_ch f else Z.max (d_h (f_ul f) + d_off (f_ul f)) (f_ch f))),
   P (px pos + line_width f (length text)) (py pos)).
Proof. intros. unfold measure_string. rewrite measure_width by assumption. reflexivity. Qed.

(* ====================================================================== C15 draw_returns_measured *)
(* the shortcut taken without text and background colour advances by n*(cw+sp): the two agree when the
   font has no spacing (all built-in fonts) or a colour is set or the string is empty *)
Definition advance_consistent (f : font) (s : cstyle) (text : list Z) : Prop :=
  f_sp f = 0 \/ cs_text s <> None \/ cs_bg s <> None \/ text = [].

Lemma advance_line_width f s text :
  advance_consistent f s text -> advance f s (length text) = line_width f (length text).
Proof.
  unfold advance_consistent, advance. intros H.
  destruct (cs_text s) as [t|], (cs_bg s) as [g|]; cbn [is_none andb]; try reflexivity.
  destruct H as [H|[H|[H|H]]]; try congruence.
  - rewrite H. unfold line_width. destruct (length text); [lia|]. rewrite !Nat2Z.inj_succ. lia.
  - subst. cbn [length line_width Z.of_nat]. lia.
Qed.

Theorem draw_returns_measured F s text pos b :
  0 <= f_cw (mf_geom F) -> 0 <= f_sp (mf_geom F) -> advance_consistent (mf_geom F) s text ->
  snd (draw_string F s text pos b) = snd (measure_string (mf_geom F) s text pos b).
Proof.
  intros H1 H2 Ha. rewrite draw_string_next, measure_string_eq by assumption. cbn [snd].
  rewrite advance_line_width by assumption. reflexivity.
Qed.

(* ====================================================================== C15 alignment *)
Lemma lines_from_length f s ts pos raws : length (lines_from f s ts pos raws) = length raws.
Proof. revert pos; induction raws as [|r raws IH]; intros pos; cbn [lines_from length]; auto. Qed.

Lemma text_lines_nth f s ts pos text k line p :
  nth_error (text_lines f s ts pos text) k = Some (line, p) ->
  exists raw, nth_error (split_nl text) k = Some raw /\ line = strip_cr raw /\
              p = line_position f s ts (shift_y pos (Z.of_nat k * text_line_height f ts)) line.
Proof.
  unfold text_lines. intros H.
  assert (Hk : (k < length (split_nl text))%nat).
  { rewrite <- (lines_from_length f s ts pos). apply nth_error_Some. congruence. }
  destruct (nth_error (split_nl text) k) as [raw|] eqn:E; [|apply nth_error_None in E; lia].
  rewrite (lines_from_nth _ _ _ _ _ _ _ E) in H. injection H as <- <-. exists raw. auto.
Qed.

Theorem line_position_spec f s ts pos line :
  0 <= f_cw f -> 0 <= f_sp f ->
  let p := line_position f s ts pos line in
  let w := line_width f (length line) in
  py p = py pos /\
  match t_align ts with
  | ALeft => px p = px pos
  | ARight => px p + w - 1 = px pos
  | ACenter => -1 <= 2 * px pos - (2 * px p + w - 1) <= 1
  end.
Proof.
  intros H1 H2. cbn zeta. unfold line_position. rewrite measure_string_eq by assumption. cbn [snd].
  pose proof (line_width_range f (length line) H1 H2) as Hw.
  destruct (t_align ts); unfold psub; cbn [px py]; split; lia.
Qed.

(* each line of a Text: k line heights below the position; its box starts at / ends at / is centred on x *)
Theorem text_alignment f s ts pos text k line p :
  0 <= f_cw f -> 0 <= f_sp f ->
  nth_error (text_lines f s ts pos text) k = Some (line, p) ->
  let bb := fst (measure_string f s line p (t_base ts)) in
  py p = py pos + Z.of_nat k * text_line_height f ts /\
  py (tl bb) = py p - baseline_offset f (t_base ts) /\
  sw (sz bb) = line_width f (length line) /\
  match t_align ts with
  | ALeft => px (tl bb) = px pos
  | ARight => px (tl bb) + sw (sz bb) - 1 = px pos
  | ACenter => -1 <= 2 * px pos - (2 * px (tl bb) + sw (sz bb) - 1) <= 1
  end.
Proof.
  intros H1 H2 H. destruct (text_lines_nth _ _ _ _ _ _ _ _ H) as (raw & _ & _ & Hp).
  cbn zeta. rewrite measure_string_eq by assumption. cbn [fst tl sz px py sw origin].
  pose proof (line_position_spec f s ts (shift_y pos (Z.of_nat k * text_line_height f ts)) line H1 H2) as L.
  cbn zeta in L. rewrite <- Hp in L. unfold shift_y in L. cbn [px py] in L.
  destruct L as [L1 L2]. repeat split; try lia. exact L2.
Qed.

(* ====================================================================== C15 baseline *)
(* draw_string as a function of the line's top left corner and the y offset that is added back *)
Definition draw_string_at (F : mfont) (s : cstyle) (text : list Z) (position : point) (bo : Z) : list call * point :=
  let f := mf_geom F in
  let r :=
    match cs_text s, cs_bg s with
    | Some t, Some g => draw_string_binary F s (Both t g) position text
    | Some t, None => draw_string_binary F s (Fg t) position text
    | None, Some g => draw_string_binary F s (Bg g) position text
    | None, None =>
        let dx := (f_cw f + f_sp f) * Z.of_nat (length text) in
        ([], P (px position + dx) (py position))
    end in
  let next := snd r in
  let deco := if px position <? px next
              then draw_decorations f s (px next - px position) position
              else [] in
  (fst r ++ deco, P (px next) (py next + bo)).

Lemma draw_string_as_at F s text p b :
  draw_string F s text p b = draw_string_at F s text (origin (mf_geom F) p b) (baseline_offset (mf_geom F) b).
Proof. reflexivity. Qed.

Lemma draw_string_baseline F s text p b :
  draw_string F s text p b =
  (fst (draw_string F s text (shift_y p (- baseline_offset (mf_geom F) b)) BTop),
   shift_y (snd (draw_string F s text (shift_y p (- baseline_offset (mf_geom F) b)) BTop))
           (baseline_offset (mf_geom F) b)).
Proof.
  rewrite !draw_string_as_at. set (bo := baseline_offset (mf_geom F) b).
  change (baseline_offset (mf_geom F) BTop) with 0.
  replace (origin (mf_geom F) (shift_y p (- bo)) BTop) with (origin (mf_geom F) p b)
    by (unfold origin, shift_y; fold bo; change (baseline_offset (mf_geom F) BTop) with 0; cbn [px py]; f_equal; lia).
  unfold draw_string_at, shift_y. cbn [fst snd px py]. f_equal. f_equal. lia.
Qed.

Definition with_base (ts : tstyle) (b : vbase) : tstyle := TStyle (t_align ts) b (t_lh ts).

Lemma line_position_shift f s ts b pos d line :
  line_position f s (with_base ts b) (shift_y pos d) line = shift_y (line_position f s ts pos line) d.
Proof.
  unfold line_position, with_base, shift_y, measure_string, psub. cbn [t_align t_base snd px py].
  destruct (t_align ts); cbn [px py]; f_equal; lia.
Qed.

Lemma lines_from_shift f s ts b pos d raws :
  lines_from f s (with_base ts b) (shift_y pos d) raws =
  map (fun lp => (fst lp, shift_y (snd lp) d)) (lines_from f s ts pos raws).
Proof.
  revert pos. induction raws as [|r raws IH]; intros pos; [reflexivity|].
  cbn [lines_from map fst snd]. rewrite line_position_shift. f_equal.
  change (text_line_height f (with_base ts b)) with (text_line_height f ts).
  rewrite <- IH. f_equal. unfold shift_y. cbn [px py]. f_equal. lia.
Qed.

Lemma draw_lines_baseline F s b next ls :
  let bo := baseline_offset (mf_geom F) b in
  draw_lines F s b next ls =
  (fst (draw_lines F s BTop (shift_y next (- bo)) (map (fun lp => (fst lp, shift_y (snd lp) (- bo))) ls)),
   shift_y (snd (draw_lines F s BTop (shift_y next (- bo)) (map (fun lp => (fst lp, shift_y (snd lp) (- bo))) ls))) bo).
Proof.
  cbn zeta. revert next. induction ls as [|[line p] ls IH]; intros next.
  - cbn [map draw_lines fst snd]. f_equal. unfold shift_y. cbn [px py]. destruct next as [x y]. cbn [px py]. f_equal. lia.
  - cbn [map draw_lines fst snd]. rewrite (draw_string_baseline F s line p b). cbn [fst snd].
    rewrite IH. cbn [fst snd].
    set (bo := baseline_offset (mf_geom F) b).
    set (r := draw_string F s line (shift_y p (- bo)) BTop).
    replace (shift_y (shift_y (snd r) bo) (- bo)) with (snd r)
      by (unfold shift_y; cbn [px py]; destruct (snd r) as [x y]; cbn [px py]; f_equal; lia).
    reflexivity.
Qed.

(* the baseline setting moves the whole text up by the documented offset, and nothing else *)
Theorem text_draw_baseline F s ts pos text :
  let bo := baseline_offset (mf_geom F) (t_base ts) in
  text_draw F s ts pos text =
  (fst (text_draw F s (with_base ts BTop) (shift_y pos (- bo)) text),
   shift_y (snd (text_draw F s (with_base ts BTop) (shift_y pos (- bo)) text)) bo).
Proof.
  cbn zeta. unfold text_draw, text_lines. rewrite draw_lines_baseline. cbn zeta.
  rewrite lines_from_shift. reflexivity.
Qed.

(* ====================================================================== C15 crlf_eq_lf *)
Definition as_lf (rest : list (bool * list Z)) : list (bool * list Z) := map (fun bl => (false, snd bl)) rest.

Lemma as_lf_clean rest :
  Forall (fun bl : bool * list Z => clean_line (snd bl)) rest ->
  Forall (fun bl : bool * list Z => clean_line (snd bl)) (as_lf rest).
Proof. unfold as_lf. intros H. apply Forall_map. exact H. Qed.

Theorem text_lines_crlf f s ts pos l0 rest :
  clean_line l0 -> Forall (fun bl => clean_line (snd bl)) rest ->
  text_lines f s ts pos (join_lines l0 rest) = text_lines f s ts pos (join_lines l0 (as_lf rest)).
Proof.
  intros H0 H. unfold text_lines. apply lines_from_strip.
  rewrite !lines_of_join by (auto using as_lf_clean). f_equal. unfold as_lf. rewrite map_map. reflexivity.
Qed.

Theorem text_draw_crlf F s ts pos l0 rest :
  clean_line l0 -> Forall (fun bl => clean_line (snd bl)) rest ->
  text_draw F s ts pos (join_lines l0 rest) = text_draw F s ts pos (join_lines l0 (as_lf rest)).
Proof. intros H0 H. unfold text_draw. rewrite (text_lines_crlf _ _ _ _ _ _ H0 H). reflexivity. Qed.

Theorem text_bbox_crlf f s ts pos l0 rest :
  clean_line l0 -> Forall (fun bl => clean_line (snd bl)) rest ->
  text_bbox f s ts pos (join_lines l0 rest) = text_bbox f s ts pos (join_lines l0 (as_lf rest)).
Proof. intros H0 H. unfold text_bbox. rewrite (text_lines_crlf _ _ _ _ _ _ H0 H). reflexivity. Qed.

(* the stripped lines are exactly the joined lines *)
Theorem text_lines_of_join f s ts pos l0 rest :
  clean_line l0 -> Forall (fun bl => clean_line (snd bl)) rest ->
  map fst (text_lines f s ts pos (join_lines l0 rest)) = l0 :: map snd rest.
Proof.
  intros H0 H. unfold text_lines. rewrite <- (lines_of_join l0 rest H0 H).
  generalize (split_nl (join_lines l0 rest)). intros raws. revert pos.
  induction raws as [|r raws IH]; intros pos; cbn [lines_from map fst]; [reflexivity|]. f_equal. apply IH.
Qed.

(* ====================================================================== C15 chain_left *)
Definition shift_x (p : point) (dx : Z) : point := P (px p + dx) (py p).

Lemma orelse_none_r {A} (a : option A) : orelse a None = a.
Proof. destruct a; reflexivity. Qed.

Lemma line_pixel_nosp F s o c rest p :
  f_sp (mf_geom F) = 0 ->
  line_pixel F s o (c :: rest) p =
  if contains (R o (S (f_cw (mf_geom F)) (f_ch (mf_geom F)))) p
  then cell_colour F s c (px p - px o) (py p - py o)
  else line_pixel F s (shift_x o (f_cw (mf_geom F))) rest p.
Proof.
  intros Hsp. cbn [line_pixel]. destruct (contains (R o _) p); [reflexivity|].
  destruct rest as [|c2 rest]; [reflexivity|]. rewrite Hsp, contains_zero_width.
  unfold shift_x. rewrite Z.add_0_r. reflexivity.
Qed.

Lemma line_pixel_app F s l1 : forall o l2 p,
  f_sp (mf_geom F) = 0 -> 0 <= f_cw (mf_geom F) ->
  line_pixel F s o (l1 ++ l2) p =
  if px p <? px o + Z.of_nat (length l1) * f_cw (mf_geom F)
  then line_pixel F s o l1 p
  else line_pixel F s (shift_x o (Z.of_nat (length l1) * f_cw (mf_geom F))) l2 p.
Proof.
  induction l1 as [|c l1 IH]; intros o l2 p Hsp Hcw.
  - cbn [app length Z.of_nat]. rewrite Z.mul_0_l, Z.add_0_r.
    destruct (Z.ltb_spec (px p) (px o)).
    + apply line_pixel_left; lia.
    + unfold shift_x. rewrite Z.add_0_r. destruct o; reflexivity.
  - cbn [app]. rewrite !line_pixel_nosp by assumption. cbn [length]. rewrite Nat2Z.inj_succ.
    destruct (contains (R o _) p) eqn:E.
    + apply contains_spec in E. cbn [tl sz px py sw sh] in E.
      replace (px p <? px o + Z.succ (Z.of_nat (length l1)) * f_cw (mf_geom F)) with true by nia. reflexivity.
    + rewrite IH by assumption. unfold shift_x. cbn [px py].
      replace (px o + f_cw (mf_geom F) + Z.of_nat (length l1) * f_cw (mf_geom F))
        with (px o + Z.succ (Z.of_nat (length l1)) * f_cw (mf_geom F)) by lia.
      reflexivity.
Qed.

Lemma deco_part_split d col o w1 w2 p :
  0 <= w1 -> 0 <= w2 ->
  deco_part d col o (w1 + w2) p =
  if px p <? px o + w1 then deco_part d col o w1 p else deco_part d col (shift_x o w1) w2 p.
Proof.
  intros H1 H2. unfold deco_part. destruct col as [c|]; [|destruct (px p <? px o + w1); reflexivity].
  assert (E : contains (deco_box d o (w1 + w2)) p =
              if px p <? px o + w1 then contains (deco_box d o w1) p else contains (deco_box d (shift_x o w1) w2) p).
  { apply eq_true_iff_eq. destruct (Z.ltb_spec (px p) (px o + w1)); rewrite !contains_spec;
      unfold deco_box, shift_x; cbn [tl sz px py sw sh]; lia. }
  rewrite E. destruct (px p <? px o + w1); reflexivity.
Qed.

Lemma deco_part_empty d col o w p : w <= 0 -> deco_part d col o w p = None.
Proof.
  intros H. unfold deco_part. destruct col; [|reflexivity].
  destruct (contains (deco_box d o w) p) eqn:E; [|reflexivity].
  apply contains_spec in E. unfold deco_box in E. cbn [tl sz px py sw sh] in E. lia.
Qed.

Lemma deco_pixel_nonneg f s o w p :
  0 <= w ->
  deco_pixel f s o w p =
  orelse (deco_part (f_ul f) (effective_color (cs_ul s) (cs_text s)) o w p)
         (deco_part (f_st f) (effective_color (cs_st s) (cs_text s)) o w p).
Proof.
  intros H. unfold deco_pixel. destruct (Z.ltb_spec 0 w); [reflexivity|].
  rewrite !deco_part_empty by lia. reflexivity.
Qed.

Lemma deco_pixel_split f s o w1 w2 p :
  0 <= w1 -> 0 <= w2 ->
  deco_pixel f s o (w1 + w2) p =
  if px p <? px o + w1 then deco_pixel f s o w1 p else deco_pixel f s (shift_x o w1) w2 p.
Proof.
  intros H1 H2. rewrite !deco_pixel_nonneg by lia. rewrite !(deco_part_split _ _ o w1 w2) by assumption.
  destruct (px p <? px o + w1); reflexivity.
Qed.

Lemma deco_pixel_left f s o w p : px p < px o -> deco_pixel f s o w p = None.
Proof.
  intros H. unfold deco_pixel. destruct (0 <? w); [|reflexivity].
  assert (E : forall d col, deco_part d col o w p = None).
  { intros d col. unfold deco_part. destruct col; [|reflexivity].
    destruct (contains (deco_box d o w) p) eqn:E; [|reflexivity].
    apply contains_spec in E. unfold deco_box in E. cbn [tl sz px py sw sh] in E. lia. }
  rewrite !E. reflexivity.
Qed.

Lemma deco_pixel_right f s o w p : px o + w <= px p -> deco_pixel f s o w p = None.
Proof.
  intros H. unfold deco_pixel. destruct (0 <? w); [|reflexivity].
  assert (E : forall d col, deco_part d col o w p = None).
  { intros d col. unfold deco_part. destruct col; [|reflexivity].
    destruct (contains (deco_box d o w) p) eqn:E; [|reflexivity].
    apply contains_spec in E. unfold deco_box in E. cbn [tl sz px py sw sh] in E. lia. }
  rewrite !E. reflexivity.
Qed.

Lemma line_pixel_right F s o text p :
  0 <= f_cw (mf_geom F) -> 0 <= f_sp (mf_geom F) ->
  px o + line_width (mf_geom F) (length text) <= px p -> line_pixel F s o text p = None.
Proof.
  intros H1 H2 H. apply line_pixel_outside; auto.
  destruct (contains _ p) eqn:E; [|reflexivity].
  apply contains_spec in E. cbn [tl sz px py sw sh] in E. lia.
Qed.

Lemma draw_ok_app_l f pos (l1 l2 : list Z) :
  0 <= f_cw f -> 0 <= f_sp f -> draw_ok f pos (length (l1 ++ l2)) -> draw_ok f pos (length l1).
Proof. unfold draw_ok. rewrite app_length, Nat2Z.inj_add. intros. nia. Qed.

Lemma draw_ok_app_r f pos (l1 l2 : list Z) :
  0 <= f_cw f -> f_sp f = 0 -> draw_ok f pos (length (l1 ++ l2)) ->
  draw_ok f (shift_x pos (Z.of_nat (length l1) * f_cw f)) (length l2).
Proof. unfold draw_ok, shift_x. rewrite app_length, Nat2Z.inj_add. cbn [px py]. intros H1 H2 H. rewrite H2 in *. nia. Qed.

Lemma line_width_nosp f n : f_sp f = 0 -> line_width f n = Z.of_nat n * f_cw f.
Proof. intros H. unfold line_width. destruct n; [lia|]. rewrite H. lia. Qed.

Lemma advance_nosp f s n : f_sp f = 0 -> advance f s n = Z.of_nat n * f_cw f.
Proof.
  intros H. unfold advance. destruct (_ && _); [rewrite H; lia|apply line_width_nosp; assumption].
Qed.

(* one line: drawing l1 and then l2 at the returned position gives the pixel map of l1 ++ l2 *)
Theorem draw_string_chain F s l1 l2 pos b p :
  font_ok (mf_geom F) -> f_sp (mf_geom F) = 0 -> draw_ok (mf_geom F) pos (length (l1 ++ l2)) ->
  index_ok F (l1 ++ l2) ->
  let r1 := draw_string F s l1 pos b in
  let r2 := draw_string F s l2 (snd r1) b in
  let r12 := draw_string F s (l1 ++ l2) pos b in
  snd r2 = snd r12 /\ render (fst r1 ++ fst r2) p = render (fst r12) p.
Proof.
  intros Hf Hsp Hd Hix. cbn zeta. set (f := mf_geom F) in *.
  destruct (proj1 (index_ok_app F l1 l2) Hix) as [Hix1 Hix2].
  assert (Hcw : 0 <= f_cw f) by (red in Hf; tauto).
  assert (Hsp0 : 0 <= f_sp f) by lia.
  rewrite !draw_string_next. fold f. rewrite !advance_nosp by assumption. cbn [px py].
  split.
  { f_equal. rewrite app_length, Nat2Z.inj_add. lia. }
  rewrite render_app.
  pose proof (draw_ok_app_l f pos l1 l2 Hcw Hsp0 Hd) as Hd1.
  pose proof (draw_ok_app_r f pos l1 l2 Hcw Hsp Hd) as Hd2.
  set (w1 := Z.of_nat (length l1) * f_cw f) in *.
  assert (Hw1 : 0 <= w1) by (unfold w1; nia).
  change (P (px pos + w1) (py pos)) with (shift_x pos w1).
  rewrite !render_draw_string by assumption. cbn zeta. fold f.
  rewrite !advance_nosp by assumption. fold w1.
  rewrite app_length, Nat2Z.inj_add, Z.mul_add_distr_r. fold w1.
  set (w2 := Z.of_nat (length l2) * f_cw f).
  assert (Hw2 : 0 <= w2) by (unfold w2; nia).
  set (o := origin f pos b).
  replace (origin f (shift_x pos w1) b) with (shift_x o w1) by reflexivity.
  rewrite deco_pixel_split by assumption.
  rewrite (line_pixel_app F s l1 o l2 p Hsp Hcw). fold f. fold w1.
  destruct (Z.ltb_spec (px p) (px o + w1)) as [Hl|Hr].
  - rewrite (deco_pixel_left f s (shift_x o w1)) by (unfold shift_x; cbn [px]; lia).
    rewrite (line_pixel_left F s (shift_x o w1)) by (auto; unfold shift_x; cbn [px]; lia).
    reflexivity.
  - rewrite (deco_pixel_right f s o w1) by lia.
    rewrite (line_pixel_right F s o l1) by (auto; fold f; rewrite line_width_nosp by assumption; fold w1; lia).
    cbn [orelse]. apply orelse_none_r.
Qed.

(* ---- Text level *)
Lemma text_draw_single_line F s ts pos l :
  no_nl l ->
  text_draw F s ts pos l =
  draw_string F s (strip_cr l) (line_position (mf_geom F) s ts pos (strip_cr l)) (t_base ts).
Proof.
  intros H. unfold text_draw, text_lines. rewrite split_nl_no_nl by assumption.
  cbn [lines_from draw_lines fst snd]. rewrite app_nil_r. destruct (draw_string _ _ _ _ _); reflexivity.
Qed.

Lemma strip_cr_app l1 l2 : l2 <> [] -> strip_cr (l1 ++ l2) = l1 ++ strip_cr l2.
Proof.
  intros H. induction l1 as [|c l1 IH]; [reflexivity|]. cbn [app].
  destruct (l1 ++ l2) as [|c2 t] eqn:E.
  - destruct l1; [cbn in E; contradiction|discriminate].
  - change (strip_cr (c :: c2 :: t)) with (c :: strip_cr (c2 :: t)). rewrite IH. reflexivity.
Qed.

Lemma strip_cr_app_clean l1 l2 : strip_cr l1 = l1 -> strip_cr (l1 ++ l2) = l1 ++ strip_cr l2.
Proof.
  intros H. destruct l2 as [|c l2].
  - rewrite !app_nil_r. exact H.
  - apply strip_cr_app. discriminate.
Qed.

Lemma strip_cr_length l : (length (strip_cr l) <= length l)%nat.
Proof.
  induction l as [|c l IH]; [cbn; lia|]. destruct l as [|c2 l].
  - cbn. destruct (c =? 13); cbn; lia.
  - change (strip_cr (c :: c2 :: l)) with (c :: strip_cr (c2 :: l)). cbn [length] in *. lia.
Qed.

Lemma draw_ok_le f pos n m : 0 <= f_cw f -> 0 <= f_sp f -> (n <= m)%nat -> draw_ok f pos m -> draw_ok f pos n.
Proof. unfold draw_ok. intros. nia. Qed.

Lemma no_nl_strip l : no_nl l -> no_nl (strip_cr l).
Proof.
  unfold no_nl. induction l as [|c l IH]; intros H; [exact H|]. destruct l as [|c2 l].
  - cbn. destruct (c =? 13); [intros []|]. exact H.
  - change (strip_cr (c :: c2 :: l)) with (c :: strip_cr (c2 :: l)). intros [E|Hin].
    + apply H. left. exact E.
    + apply IH; [|exact Hin]. intros H2. apply H. right. exact H2.
Qed.

Lemma strip_cr_incl l : incl (strip_cr l) l.
Proof.
  induction l as [|c l IH]; [intros x []|]. destruct l as [|c2 l].
  - cbn. destruct (c =? 13); [intros x []|apply incl_refl].
  - change (strip_cr (c :: c2 :: l)) with (c :: strip_cr (c2 :: l)).
    intros x [->|Hx]; [left; reflexivity|right; apply IH, Hx].
Qed.

(* single line, left aligned, no spacing: draw s1, then s2 at the returned position = draw (s1 ++ s2).
   s1 must not end in '\r' (Text strips one trailing '\r' of every line, see FINDINGS) *)
Theorem text_chain_left F s ts pos s1 s2 p :
  t_align ts = ALeft -> font_ok (mf_geom F) -> f_sp (mf_geom F) = 0 ->
  no_nl s1 -> no_nl s2 -> strip_cr s1 = s1 -> draw_ok (mf_geom F) pos (length (s1 ++ s2)) ->
  index_ok F (s1 ++ s2) ->
  let r1 := text_draw F s ts pos s1 in
  let r2 := text_draw F s ts (snd r1) s2 in
  let r12 := text_draw F s ts pos (s1 ++ s2) in
  snd r2 = snd r12 /\ render (fst r1 ++ fst r2) p = render (fst r12) p.
Proof.
  intros Ha Hf Hsp H1 H2 Hc Hd Hix. cbn zeta.
  rewrite !text_draw_single_line by (auto using no_nl_app).
  unfold line_position. rewrite Ha. rewrite Hc, strip_cr_app_clean by assumption.
  apply draw_string_chain; auto.
  - assert (Hcw : 0 <= f_cw (mf_geom F)) by (red in Hf; tauto).
    eapply draw_ok_le; [assumption|lia| |exact Hd].
    rewrite !app_length. pose proof (strip_cr_length s2). lia.
  - apply index_ok_app in Hix. destruct Hix as [Hi1 Hi2]. apply index_ok_app. split; [assumption|].
    eapply index_ok_incl; [|exact Hi2]. apply strip_cr_incl.
Qed.

(* the same after any number of complete lines: s1 = a ++ "\n" ++ lk *)
Theorem text_chain_left_multiline F s ts pos a lk s2 p :
  t_align ts = ALeft -> font_ok (mf_geom F) -> f_sp (mf_geom F) = 0 ->
  no_nl lk -> no_nl s2 -> strip_cr lk = lk ->
  let pos2 := shift_y pos (Z.of_nat (length (split_nl a)) * text_line_height (mf_geom F) ts) in
  draw_ok (mf_geom F) pos2 (length (lk ++ s2)) -> index_ok F (lk ++ s2) ->
  let s1 := a ++ 10 :: lk in
  let r1 := text_draw F s ts pos s1 in
  let r2 := text_draw F s ts (snd r1) s2 in
  let r12 := text_draw F s ts pos (s1 ++ s2) in
  snd r2 = snd r12 /\ render (fst r1 ++ fst r2) p = render (fst r12) p.
Proof.
  intros Ha Hf Hsp H1 H2 Hc. cbn zeta. intros Hd Hix.
  rewrite <- app_assoc. cbn [app]. rewrite !text_draw_newline_split. cbn zeta. cbn [fst snd].
  set (pos2 := shift_y pos _) in *.
  destruct (text_chain_left F s ts pos2 lk s2 p Ha Hf Hsp H1 H2 Hc Hd Hix) as [E1 E2]. cbn zeta in E1, E2.
  split; [exact E1|].
  rewrite <- app_assoc, !(render_app (fst (text_draw F s ts pos a))). rewrite E2. reflexivity.
Qed.

(* Text::draw returns what measure_string predicts for the last line at its position *)
Lemma draw_lines_last F s b next ls line p :
  last_opt ls = Some (line, p) -> snd (draw_lines F s b next ls) = snd (draw_string F s line p b).
Proof.
  revert next. induction ls as [|[l0 p0] ls IH]; intros next H; [discriminate|].
  cbn [draw_lines snd]. destruct ls as [|lp ls].
  - cbn in H. injection H as -> ->. reflexivity.
  - apply IH. exact H.
Qed.

Theorem text_draw_returns_measured F s ts pos text line p :
  0 <= f_cw (mf_geom F) -> 0 <= f_sp (mf_geom F) -> advance_consistent (mf_geom F) s line ->
  last_opt (text_lines (mf_geom F) s ts pos text) = Some (line, p) ->
  snd (text_draw F s ts pos text) = snd (measure_string (mf_geom F) s line p (t_base ts)).
Proof.
  intros H1 H2 Ha H. unfold text_draw. rewrite (draw_lines_last _ _ _ _ _ _ _ H).
  apply draw_returns_measured; assumption.
Qed.

Lemma text_lines_last_exists f s ts pos text : exists line p, last_opt (text_lines f s ts pos text) = Some (line, p).
Proof.
  unfold text_lines. pose proof (split_nl_nonempty text) as H.
  pose proof (lines_from_nonempty f s ts pos _ H) as H2.
  induction (lines_from f s ts pos (split_nl text)) as [|[l q] ls IH]; [contradiction|].
  destruct ls as [|lp ls]; [exists l, q; reflexivity|]. apply IH. discriminate.
Qed.

(* ---- the three alignments, one statement each *)
Corollary align_left f s ts pos text k line p :
  0 <= f_cw f -> 0 <= f_sp f -> t_align ts = ALeft ->
  nth_error (text_lines f s ts pos text) k = Some (line, p) ->
  px (tl (fst (measure_string f s line p (t_base ts)))) = px pos.
Proof.
  intros H1 H2 Ha H. pose proof (text_alignment f s ts pos text k line p H1 H2 H) as A. cbn zeta in A.
  rewrite Ha in A. tauto.
Qed.

Corollary align_right f s ts pos text k line p :
  0 <= f_cw f -> 0 <= f_sp f -> t_align ts = ARight ->
  nth_error (text_lines f s ts pos text) k = Some (line, p) ->
  let bb := fst (measure_string f s line p (t_base ts)) in
  px (tl bb) + sw (sz bb) - 1 = px pos.
Proof.
  intros H1 H2 Ha H. pose proof (text_alignment f s ts pos text k line p H1 H2 H) as A. cbn zeta in A |- *.
  rewrite Ha in A. tauto.
Qed.

Corollary align_center f s ts pos text k line p :
  0 <= f_cw f -> 0 <= f_sp f -> t_align ts = ACenter ->
  nth_error (text_lines f s ts pos text) k = Some (line, p) ->
  let bb := fst (measure_string f s line p (t_base ts)) in
  -1 <= 2 * px pos - (2 * px (tl bb) + sw (sz bb) - 1) <= 1.
Proof.
  intros H1 H2 Ha H. pose proof (text_alignment f s ts pos text k line p H1 H2 H) as A. cbn zeta in A |- *.
  rewrite Ha in A. tauto.
Qed.

(* ====================================================================== C15 crlf_eq_lf, exact condition *)
(* only a line that is FOLLOWED BY "\r\n" must not itself end in '\r' ("x\r" + "\r\n" loses only one CR);
   the last line and lines followed by a plain "\n" are unrestricted *)
Fixpoint crlf_ok (l0 : list Z) (rest : list (bool * list Z)) : Prop :=
  match rest with
  | [] => no_nl l0
  | (crlf, l) :: t => no_nl l0 /\ (crlf = true -> strip_cr l0 = l0) /\ crlf_ok l t
  end.

Lemma clean_crlf_ok l0 rest :
  clean_line l0 -> Forall (fun bl => clean_line (snd bl)) rest -> crlf_ok l0 rest.
Proof.
  revert l0. induction rest as [|[crlf l] t IH]; intros l0 [Hn Hs] Hall; cbn [crlf_ok]; [exact Hn|].
  inversion Hall; subst. repeat split; auto.
Qed.

Lemma crlf_ok_as_lf l0 rest : crlf_ok l0 rest -> crlf_ok l0 (as_lf rest).
Proof.
  revert l0. induction rest as [|[crlf l] t IH]; intros l0 H; cbn [crlf_ok as_lf map snd] in *; [exact H|].
  destruct H as (H1 & _ & H3). repeat split; [exact H1|discriminate|apply IH, H3].
Qed.

Lemma stripped_lines_of_join l0 rest :
  crlf_ok l0 rest ->
  map strip_cr (split_nl (join_lines l0 rest)) = map strip_cr (l0 :: map snd rest).
Proof.
  revert l0. induction rest as [|[crlf l] t IH]; intros l0 H; cbn [join_lines map snd crlf_ok] in *.
  - rewrite split_nl_no_nl by assumption. reflexivity.
  - destruct H as (Hn & Hc & Ht). destruct crlf.
    + change (l0 ++ [13; 10] ++ join_lines l t) with (l0 ++ [13] ++ 10 :: join_lines l t).
      rewrite app_assoc, split_nl_line by (apply no_nl_app; [assumption|intros [H|[]]; discriminate]).
      cbn [map]. rewrite strip_cr_snoc_cr, (Hc eq_refl), IH by assumption. reflexivity.
    + change (l0 ++ [10] ++ join_lines l t) with (l0 ++ 10 :: join_lines l t).
      rewrite split_nl_line by assumption. cbn [map]. rewrite IH by assumption. reflexivity.
Qed.

Theorem text_lines_crlf_ok f s ts pos l0 rest :
  crlf_ok l0 rest ->
  text_lines f s ts pos (join_lines l0 rest) = text_lines f s ts pos (join_lines l0 (as_lf rest)).
Proof.
  intros H. unfold text_lines. apply lines_from_strip.
  rewrite !stripped_lines_of_join by (auto using crlf_ok_as_lf). unfold as_lf. rewrite map_map. reflexivity.
Qed.

Theorem text_draw_crlf_ok F s ts pos l0 rest :
  crlf_ok l0 rest ->
  text_draw F s ts pos (join_lines l0 rest) = text_draw F s ts pos (join_lines l0 (as_lf rest)).
Proof. intros H. unfold text_draw. rewrite (text_lines_crlf_ok _ _ _ _ _ _ H). reflexivity. Qed.

Theorem text_bbox_crlf_ok f s ts pos l0 rest :
  crlf_ok l0 rest ->
  text_bbox f s ts pos (join_lines l0 rest) = text_bbox f s ts pos (join_lines l0 (as_lf rest)).
Proof. intros H. unfold text_bbox. rewrite (text_lines_crlf_ok _ _ _ _ _ _ H). reflexivity. Qed.

(* the lines that are drawn: the joined lines, each without one trailing '\r' *)
Theorem text_lines_of_join_ok f s ts pos l0 rest :
  crlf_ok l0 rest ->
  map fst (text_lines f s ts pos (join_lines l0 rest)) = map strip_cr (l0 :: map snd rest).
Proof.
  intros H. unfold text_lines. rewrite <- (stripped_lines_of_join l0 rest H).
  generalize (split_nl (join_lines l0 rest)). intros raws. revert pos.
  induction raws as [|r raws IH]; intros pos; cbn [lines_from map fst]; [reflexivity|]. f_equal. apply IH.
Qed.

(* ====================================================================== exact positions *)
Theorem line_position_exact f s ts pos text k line p :
  0 <= f_cw f -> 0 <= f_sp f ->
  nth_error (text_lines f s ts pos text) k = Some (line, p) ->
  let w := line_width f (length line) in
  p = P (px pos - match t_align ts with ALeft => 0 | ARight => w - 1 | ACenter => Z.quot (w - 1) 2 end)
        (py pos + Z.of_nat k * text_line_height f ts).
Proof.
  intros H1 H2 H. destruct (text_lines_nth _ _ _ _ _ _ _ _ H) as (raw & _ & _ & ->). cbn zeta.
  unfold line_position. rewrite measure_string_eq by assumption. cbn [snd].
  destruct (t_align ts); unfold psub, shift_y; cbn [px py]; f_equal; lia.
Qed.
