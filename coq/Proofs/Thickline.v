(* Proofs about the thick line model (Model/Thickline.v): translation equivariance, the first parallel is the
   thin line, width 0 / width 1, termination bound of ParallelsIterator, and the remaining clauses of C17
   decided by computation on the grid of the property's quantifier. *)
From EG Require Import Base.Prelude Base.Lemmas Model.Geometry Model.Style Model.Line Model.Thickline
                       Proofs.Geometry Proofs.Line.
From Coq Require Import ZifyBool.

Ltac Zify.zify_post_hook ::= Z.to_euclidean_division_equations.
Set Default Timeout 60.

(* ======================================================================== *)
(* 1. translation equivariance                                              *)
(* ======================================================================== *)
Definition tr_bs (d : point) (s : bstate) : bstate := BS (padd (b_point s) d) (b_error s).
Definition tr_bp (d : point) (q : bpoint) : bpoint :=
  match q with BNormal p => BNormal (padd p d) | BExtra p => BExtra (padd p d) end.
Definition tr_ps (d : point) (s : pstate) : pstate :=
  PS (par_params s) (perp_params s) (thick_acc s) (thick_thr s) (flip s)
     (tr_bs d (p_left s)) (left_error s) (tr_bs d (p_right s)) (right_error s) (next_side s) (p_offset s).

Lemma padd_comm3 a d b : padd (padd a d) b = padd (padd a b) d.
Proof. unfold padd; cbn [px py]; f_equal; lia. Qed.
Lemma psub_comm3 a d b : psub (padd a d) b = padd (psub a b) d.
Proof. unfold padd, psub; cbn [px py]; f_equal; lia. Qed.

Ltac pt_eq := unfold padd, psub; cbn [px py]; repeat (f_equal; try lia).

Lemma bnext_all_tr p d s :
  bnext_all p (tr_bs d s) = (tr_bp d (fst (bnext_all p s)), tr_bs d (snd (bnext_all p s))).
Proof.
  unfold bnext_all, tr_bs. cbn [b_point b_error].
  destruct (error_threshold p <? b_error s); destruct (mirror_extra_points p);
    cbn [fst snd tr_bp b_point b_error]; pt_eq.
Qed.

Lemma bprevious_all_tr p d s :
  bprevious_all p (tr_bs d s) = (tr_bp d (fst (bprevious_all p s)), tr_bs d (snd (bprevious_all p s))).
Proof.
  unfold bprevious_all, tr_bs. cbn [b_point b_error].
  destruct (b_error s <=? - error_threshold p); destruct (mirror_extra_points p);
    cbn [negb fst snd tr_bp b_point b_error]; pt_eq.
Qed.

Ltac use_IH d IH :=
  match goal with
  | |- next_parallel ?f ?a ?sd = match next_parallel ?f ?b ?sd with _ => _ end =>
      change a with (tr_ps d b); apply IH
  end.

Lemma next_parallel_tr d fuel : forall s sd,
  next_parallel fuel (tr_ps d s) sd =
  match next_parallel fuel s sd with
  | Some (q, e, s') => Some (tr_bp d q, e, tr_ps d s')
  | None => None
  end.
Proof.
  induction fuel as [|f IH]; intros s sd; [reflexivity|].
  cbn [next_parallel]. destruct sd.
  - cbn [tr_ps perp_params par_params p_left left_error flip].
    rewrite bnext_all_tr. destruct (bnext_all (perp_params s) (p_left s)) as [q b']. cbn [fst snd].
    destruct q as [q|q]; cbn [tr_bp].
    + reflexivity.
    + destruct (flip s).
      * destruct (decrease_error (par_params s) (left_error s)) as [e' took]. destruct took.
        -- reflexivity.
        -- use_IH d IH.
      * destruct (increase_error (par_params s) (left_error s)) as [e' took]. destruct took.
        -- reflexivity.
        -- use_IH d IH.
  - cbn [tr_ps perp_params par_params p_right right_error flip].
    rewrite bprevious_all_tr. destruct (bprevious_all (perp_params s) (p_right s)) as [q b']. cbn [fst snd].
    destruct q as [q|q]; cbn [tr_bp].
    + reflexivity.
    + destruct (negb (flip s)).
      * destruct (decrease_error (par_params s) (right_error s)) as [e' took]. destruct took.
        -- reflexivity.
        -- use_IH d IH.
      * destruct (increase_error (par_params s) (right_error s)) as [e' took]. destruct took.
        -- reflexivity.
        -- use_IH d IH.
Qed.

Definition tr_sr (d : point) (r : step_result (bstate * ltype)) : step_result (bstate * ltype) :=
  match r with
  | Fuel_out => Fuel_out
  | Done => Done
  | Yield bt s => Yield (tr_bs d (fst bt), snd bt) (tr_ps d s)
  end.

Lemma parallels_next_tr d s : parallels_next (tr_ps d s) = tr_sr d (parallels_next s).
Proof.
  unfold parallels_next. rewrite next_parallel_tr.
  change (thick_thr (tr_ps d s)) with (thick_thr s). change (thick_acc (tr_ps d s)) with (thick_acc s).
  change (next_side (tr_ps d s)) with (next_side s).
  destruct (thick_thr s <? thick_acc s * thick_acc s); [reflexivity|].
  destruct (next_parallel np_fuel s (next_side s)) as [[[q e] s1]|]; [|reflexivity].
  destruct q; reflexivity.
Qed.

Definition tr_pars (d : point) (ps : list (bstate * ltype)) : list (bstate * ltype) :=
  map (fun bt => (tr_bs d (fst bt), snd bt)) ps.

Lemma parallels_run_tr d fuel : forall s,
  parallels_run fuel (tr_ps d s) = option_map (tr_pars d) (parallels_run fuel s).
Proof.
  induction fuel as [|f IH]; intros s; [reflexivity|].
  cbn [parallels_run]. rewrite parallels_next_tr.
  destruct (parallels_next s) as [| |bt s']; cbn [tr_sr option_map]; try reflexivity.
  rewrite IH. destruct (parallels_run f s'); reflexivity.
Qed.

Lemma delta_translate l d :
  psub (l_end (translate_line l d)) (l_start (translate_line l d)) = psub (l_end l) (l_start l).
Proof. unfold translate_line, psub, padd; cbn [l_start l_end px py]; f_equal; lia. Qed.

Lemma bparams_new_translate l d : bparams_new (translate_line l d) = bparams_new l.
Proof. unfold bparams_new. rewrite delta_translate. reflexivity. Qed.

Lemma major_length_translate l d : major_length (translate_line l d) = major_length l.
Proof. unfold major_length. rewrite delta_translate. reflexivity. Qed.

Lemma perpendicular_translate l d : perpendicular (translate_line l d) = translate_line (perpendicular l) d.
Proof.
  unfold perpendicular. rewrite delta_translate. unfold translate_line. cbn [l_start l_end]. f_equal.
  unfold padd; cbn [px py]; f_equal; lia.
Qed.

Lemma degenerate_translate l d :
  point_eqb (l_start (translate_line l d)) (l_end (translate_line l d)) = point_eqb (l_start l) (l_end l).
Proof. unfold point_eqb, translate_line, padd; cbn [l_start l_end px py]. lia. Qed.

(* the line whose parameters are used: HORIZONTAL_LINE for a zero-length line (thick_points.rs:88-90) *)
Definition eff_line (l : line) : line := if point_eqb (l_start l) (l_end l) then horizontal_line else l.

Lemma eff_params_translate l d :
  bparams_new (eff_line (translate_line l d)) = bparams_new (eff_line l) /\
  bparams_new (perpendicular (eff_line (translate_line l d))) = bparams_new (perpendicular (eff_line l)) /\
  psub (l_end (eff_line (translate_line l d))) (l_start (eff_line (translate_line l d)))
  = psub (l_end (eff_line l)) (l_start (eff_line l)).
Proof.
  unfold eff_line. rewrite degenerate_translate. destruct (point_eqb (l_start l) (l_end l)).
  - repeat split.
  - rewrite perpendicular_translate, !bparams_new_translate, delta_translate. repeat split.
Qed.

Lemma parallels_new_tr l d w so :
  parallels_new (translate_line l d) w so = option_map (tr_ps d) (parallels_new l w so).
Proof.
  unfold parallels_new. fold (eff_line (translate_line l d)). fold (eff_line l).
  destruct (eff_params_translate l d) as (E1 & E2 & E3). rewrite E1, E2, E3.
  match goal with
  | |- match next_parallel _ ?a _ with _ => _ end = option_map _ (match next_parallel _ ?b _ with _ => _ end) =>
      change a with (tr_ps d b)
  end.
  rewrite next_parallel_tr.
  match goal with |- context [next_parallel np_fuel ?b ?sd] => destruct (next_parallel np_fuel b sd) as [[[q e] s1]|] end;
    reflexivity.
Qed.

Lemma parallels_tr l d w so :
  parallels (translate_line l d) w so = option_map (tr_pars d) (parallels l w so).
Proof.
  unfold parallels. rewrite parallels_new_tr.
  destruct (parallels_new l w so) as [s|]; cbn [option_map]; [|reflexivity].
  unfold parallels_fuel. apply parallels_run_tr.
Qed.

Definition shift (d : point) (ps : list point) : list point := map (fun p => padd p d) ps.

Lemma thick_points_translate l d w :
  thick_points (translate_line l d) w = option_map (shift d) (thick_points l w).
Proof.
  unfold thick_points. rewrite parallels_tr.
  destruct (parallels l w SONone) as [ps|]; cbn [option_map]; [|reflexivity].
  fold (eff_line (translate_line l d)). fold (eff_line l).
  destruct (eff_params_translate l d) as (E1 & _). rewrite E1, major_length_translate.
  f_equal. unfold tr_pars, shift. induction ps as [|[b t] ps IH]; [reflexivity|].
  cbn [map flat_map fst snd]. rewrite map_app, IH. f_equal.
  destruct b as [q e]. unfold tr_bs. cbn [b_point b_error]. apply bresenham_run_translate.
Qed.

Lemma styled_line_pixels_translate l d st :
  styled_line_pixels (translate_line l d) st
  = option_map (map (fun pc => (padd (fst pc) d, snd pc))) (styled_line_pixels l st).
Proof.
  unfold styled_line_pixels. destruct (effective_stroke_color st) as [c|]; [|reflexivity].
  rewrite thick_points_translate. destruct (thick_points l _) as [ps|]; cbn [option_map]; [|reflexivity].
  f_equal. unfold shift. rewrite !map_map. reflexivity.
Qed.

(* ======================================================================== *)
(* 2. ParallelsIterator in the major/minor frame: invariants and termination *)
(* ======================================================================== *)
(* a state whose two parameter sets have threshold D, error steps 2d / 2D (D = major, d = minor delta of the line) *)
Definition mkst D d A B A' B' acc thr fl pl el le pr er re ns po :=
  PS (BP D (2*d) (2*D) A B) (BP D (2*d) (2*D) A' B') acc thr fl (BS pl el) le (BS pr er) re ns po.

Definition is_normal (q : bpoint) : bool := match q with BNormal _ => true | BExtra _ => false end.

Ltac np_unfold :=
  unfold mkst; cbn [next_parallel flip left_error right_error perp_params par_params p_left p_right
                    thick_acc thick_thr next_side p_offset];
  unfold bnext_all, bprevious_all, decrease_error, increase_error;
  cbn [error_threshold error_step_major error_step_minor pos_step_major pos_step_minor b_point b_error].

Ltac np_done := do 5 eexists; (split; [reflexivity|]); cbn [is_normal]; repeat split; lia.

Lemma next_parallel_left_spec D d A B A' B' acc thr fl pl el le pr er re ns po f :
  1 <= D -> 0 <= d <= D -> el <= D + 2 * d ->
  exists q e pl' el' le',
    next_parallel (Datatypes.S (Datatypes.S f)) (mkst D d A B A' B' acc thr fl pl el le pr er re ns po) SLeft
    = Some (q, e, mkst D d A B A' B' acc thr fl pl' el' le' pr er re ns po) /\
    el' <= D + 2 * d /\
    (if is_normal q then True else D < el /\ el' <= D) /\
    (el <= D -> q = BNormal pl /\ e = le /\ le' = le /\ pl' = padd pl A' /\ el' = el + 2 * d).
Proof.
  intros HD Hd He. np_unfold.
  destruct (D <? el) eqn:T.
  - destruct fl.
    + destruct (le - 2 * d <=? - D) eqn:U.
      * np_done.
      * assert (V : D <? el - 2 * D = false) by lia. cbn [b_point b_error]. rewrite V.
        np_done.
    + destruct (D <? le + 2 * d) eqn:U.
      * np_done.
      * assert (V : D <? el - 2 * D = false) by lia. cbn [b_point b_error]. rewrite V.
        np_done.
  - np_done.
Qed.

Lemma next_parallel_right_spec D d A B A' B' acc thr fl pl el le pr er re ns po f :
  1 <= D -> 0 <= d <= D -> - D - 2 * d < er ->
  exists q e pr' er' re',
    next_parallel (Datatypes.S (Datatypes.S f)) (mkst D d A B A' B' acc thr fl pl el le pr er re ns po) SRight
    = Some (q, e, mkst D d A B A' B' acc thr fl pl el le pr' er' re' ns po) /\
    - D - 2 * d < er' /\
    (if is_normal q then True else er <= - D /\ - D < er') /\
    (- D < er -> q = BNormal pr /\ e = re /\ re' = re /\ pr' = psub pr A' /\ er' = er - 2 * d).
Proof.
  intros HD Hd He. np_unfold.
  destruct (er <=? - D) eqn:T.
  - destruct fl; cbn [negb].
    + destruct (D <? re + 2 * d) eqn:U.
      * np_done.
      * assert (V : er + 2 * D <=? - D = false) by lia. cbn [b_point b_error]. rewrite V. np_done.
    + destruct (re - 2 * d <=? - D) eqn:U.
      * np_done.
      * assert (V : er + 2 * D <=? - D = false) by lia. cbn [b_point b_error]. rewrite V. np_done.
  - np_done.
Qed.
(* potential: the accumulator plus D for each side whose next point is a Normal one *)
Definition Psi (D acc el er : Z) : Z :=
  acc + D * (if el <=? D then 1 else 0) + D * (if - D <? er then 1 else 0).

Lemma parallels_next_spec D d A B A' B' acc thr fl pl el le pr er re ns po :
  1 <= D -> 0 <= d <= D -> el <= D + 2 * d -> - D - 2 * d < er -> acc * acc <= thr ->
  exists bt acc' pl' el' le' pr' er' re' ns',
    parallels_next (mkst D d A B A' B' acc thr fl pl el le pr er re ns po)
    = Yield bt (mkst D d A B A' B' acc' thr fl pl' el' le' pr' er' re' ns' po) /\
    el' <= D + 2 * d /\ - D - 2 * d < er' /\ acc <= acc' /\
    Psi D acc el er + D <= Psi D acc' el' er'.
Proof.
  intros HD Hd Hl Hr Ha. unfold parallels_next.
  change (thick_thr (mkst D d A B A' B' acc thr fl pl el le pr er re ns po)) with thr.
  change (thick_acc (mkst D d A B A' B' acc thr fl pl el le pr er re ns po)) with acc.
  change (next_side (mkst D d A B A' B' acc thr fl pl el le pr er re ns po)) with ns.
  assert (T : thr <? acc * acc = false) by lia. rewrite T. unfold np_fuel.
  destruct ns.
  - destruct (next_parallel_left_spec D d A B A' B' acc thr fl pl el le pr er re SLeft po 2 HD Hd Hl)
      as (q & e & pl' & el' & le' & E & I1 & I2 & _).
    rewrite E. destruct q as [q|q]; cbn [is_normal] in I2;
      unfold mkst, set_acc_side;
      cbn [thick_acc perp_params par_params error_step_minor error_step_major p_offset next_side
           thick_thr flip p_left p_right left_error right_error];
      do 9 eexists; (split; [reflexivity|]); unfold Psi;
      destruct (el <=? D) eqn:X1; destruct (el' <=? D) eqn:X2; destruct (- D <? er) eqn:X3; repeat split; lia.
  - destruct (next_parallel_right_spec D d A B A' B' acc thr fl pl el le pr er re SRight po 2 HD Hd Hr)
      as (q & e & pr' & er' & re' & E & I1 & I2 & _).
    rewrite E. destruct q as [q|q]; cbn [is_normal] in I2;
      unfold mkst, set_acc_side;
      cbn [thick_acc perp_params par_params error_step_minor error_step_major p_offset next_side
           thick_thr flip p_left p_right left_error right_error];
      do 9 eexists; (split; [reflexivity|]); unfold Psi;
      destruct (el <=? D) eqn:X1; destruct (- D <? er') eqn:X2; destruct (- D <? er) eqn:X3; repeat split; lia.
Qed.
(* the iterator stops after at most (Amax + 3D - Psi)/D parallels, Amax = any bound on the accumulator values
   that pass the threshold test; it never runs out of fuel *)
Lemma parallels_run_spec D d A B A' B' thr fl po Amax fuel :
  1 <= D -> 0 <= d <= D -> (forall a, 0 <= a -> a * a <= thr -> a <= Amax) ->
  forall acc pl el le pr er re ns,
  el <= D + 2 * d -> - D - 2 * d < er -> 0 <= acc ->
  Z.max 0 (Amax + 3 * D - Psi D acc el er) < Z.of_nat fuel * D ->
  exists ps, parallels_run fuel (mkst D d A B A' B' acc thr fl pl el le pr er re ns po) = Some ps /\
             Z.of_nat (length ps) * D <= Z.max 0 (Amax + 3 * D - Psi D acc el er).
Proof.
  intros HD Hd HA. induction fuel as [|f IH]; intros acc pl el le pr er re ns Hl Hr Hacc HF; [lia|].
  cbn [parallels_run].
  destruct (Z_le_gt_dec (acc * acc) thr) as [Ha|Ha].
  - destruct (parallels_next_spec D d A B A' B' acc thr fl pl el le pr er re ns po HD Hd Hl Hr Ha)
      as (bt & acc' & pl' & el' & le' & pr' & er' & re' & ns' & E & I1 & I2 & I3 & I4).
    rewrite E. pose proof (HA acc Hacc Ha) as Hb.
    assert (P1 : Psi D acc el er <= Amax + 2 * D).
    { unfold Psi. destruct (el <=? D); destruct (- D <? er); lia. }
    destruct (IH acc' pl' el' le' pr' er' re' ns' I1 I2 ltac:(lia) ltac:(lia)) as (ps & E2 & L).
    rewrite E2. eexists; split; [reflexivity|]. cbn [length]. lia.
  - unfold parallels_next.
    change (thick_thr (mkst D d A B A' B' acc thr fl pl el le pr er re ns po)) with thr.
    change (thick_acc (mkst D d A B A' B' acc thr fl pl el le pr er re ns po)) with acc.
    assert (T : thr <? acc * acc = true) by lia. rewrite T.
    eexists; split; [reflexivity|]. cbn [length]. lia.
Qed.
(* ---- the initial state ------------------------------------------------------ *)
Lemma perp_dm l : ldmaj (perpendicular l) = ldmaj l /\ ldmin (perpendicular l) = ldmin l.
Proof. unfold perpendicular. unfl. lia. Qed.

Lemma eff_dmaj_pos l : 1 <= ldmaj (eff_line l).
Proof.
  unfold eff_line, point_eqb. destruct ((px (l_start l) =? px (l_end l)) && (py (l_start l) =? py (l_end l))) eqn:T.
  - vm_compute. discriminate.
  - unfl. lia.
Qed.

Lemma delta_sq l : ldx l * ldx l + ldy l * ldy l = ldmaj l * ldmaj l + ldmin l * ldmin l.
Proof. unfl. nia. Qed.

Definition thr_of (l : line) (w : Z) : Z :=
  w * 2 * (w * 2) * (ldmaj (eff_line l) * ldmaj (eff_line l) + ldmin (eff_line l) * ldmin (eff_line l)).

Definition st_of (l : line) (w acc : Z) fl pl el pr er ns so : pstate :=
  let l' := eff_line l in
  mkst (ldmaj l') (ldmin l') (lsmaj l') (lsmin l') (lsmaj (perpendicular l')) (lsmin (perpendicular l'))
       acc (thr_of l w) fl pl el 0 pr er 0 ns so.

Definition flip_of (l : line) : bool :=
  point_eqb (lsmin (perpendicular (eff_line l))) (point_neg (lsmaj (eff_line l))).

Lemma parallels_new_frame l w so :
  let l' := eff_line l in
  let D := ldmaj l' in let d := ldmin l' in
  let A' := lsmaj (perpendicular l') in
  parallels_new l w so =
  Some (match so with
        | SOLeft => st_of l w (D + d) (flip_of l) (l_start l) 0 (psub (l_start l) A') (- (2 * d)) SLeft so
        | _ => st_of l w (D + d) (flip_of l) (padd (l_start l) A') (2 * d) (l_start l) 0 SRight so
        end).
Proof.
  cbv zeta. unfold parallels_new. fold (eff_line l).
  rewrite (bparams_new_frame (eff_line l)), (bparams_new_frame (perpendicular (eff_line l))).
  destruct (perp_dm (eff_line l)) as [E1 E2]. rewrite E1, E2.
  pose proof (eff_dmaj_pos l) as HD. pose proof (ldm_ok (eff_line l)) as Hd.
  cbn [error_step_minor error_step_major pos_step_minor pos_step_major].
  fold (ldx (eff_line l)) (ldy (eff_line l)).
  change (px (psub (l_end (eff_line l)) (l_start (eff_line l)))) with (ldx (eff_line l)).
  change (py (psub (l_end (eff_line l)) (l_start (eff_line l)))) with (ldy (eff_line l)).
  rewrite delta_sq. fold (thr_of l w). fold (flip_of l).
  replace (Z.quot (2 * ldmaj (eff_line l) + 2 * ldmin (eff_line l)) 2) with (ldmaj (eff_line l) + ldmin (eff_line l)) by lia.
  set (D := ldmaj (eff_line l)) in *. set (d := ldmin (eff_line l)) in *.
  unfold np_fuel.
  destruct so; cbn [side_swap].
  - destruct (next_parallel_left_spec D d (lsmaj (eff_line l)) (lsmin (eff_line l))
               (lsmaj (perpendicular (eff_line l))) (lsmin (perpendicular (eff_line l)))
               (D + d) (thr_of l w) (flip_of l) (l_start l) 0 0 (l_start l) 0 0 SRight SONone 2 HD Hd ltac:(lia))
      as (q & e & pl' & el' & le' & E & _ & _ & N).
    destruct (N ltac:(lia)) as (-> & -> & -> & -> & ->).
    unfold mkst in E. rewrite E. reflexivity.
  - destruct (next_parallel_right_spec D d (lsmaj (eff_line l)) (lsmin (eff_line l))
               (lsmaj (perpendicular (eff_line l))) (lsmin (perpendicular (eff_line l)))
               (D + d) (thr_of l w) (flip_of l) (l_start l) 0 0 (l_start l) 0 0 SLeft SOLeft 2 HD Hd ltac:(lia))
      as (q & e & pr' & er' & re' & E & _ & _ & N).
    destruct (N ltac:(lia)) as (-> & -> & -> & -> & ->).
    unfold mkst in E. rewrite E. unfold st_of, mkst. fold D d. do 3 f_equal. 
  - destruct (next_parallel_left_spec D d (lsmaj (eff_line l)) (lsmin (eff_line l))
               (lsmaj (perpendicular (eff_line l))) (lsmin (perpendicular (eff_line l)))
               (D + d) (thr_of l w) (flip_of l) (l_start l) 0 0 (l_start l) 0 0 SRight SORight 2 HD Hd ltac:(lia))
      as (q & e & pl' & el' & le' & E & _ & _ & N).
    destruct (N ltac:(lia)) as (-> & -> & -> & -> & ->).
    unfold mkst in E. rewrite E. reflexivity.
Qed.
(* ---- termination: at most 3w+2 parallels, and the model's fuel is never exhausted ---- *)
Lemma thr_bound D d w a : 1 <= D -> 0 <= d <= D -> 0 <= w -> 0 <= a ->
  a * a <= w * 2 * (w * 2) * (D * D + d * d) -> a <= 3 * w * D.
Proof.
  intros HD Hd Hw Ha H.
  destruct (Z_le_gt_dec a (3 * w * D)) as [|G]; [assumption|exfalso].
  assert (d * d <= D * D) by nia.
  assert ((3 * w * D + 1) * (3 * w * D + 1) <= a * a) by nia.
  assert (w * 2 * (w * 2) * (D * D + d * d) <= 8 * (w * D) * (w * D)) by nia.
  nia.
Qed.

Lemma parallels_total l w so : 0 <= w ->
  exists ps, parallels l w so = Some ps /\ Z.of_nat (length ps) <= 3 * w + 2.
Proof.
  intros Hw. unfold parallels. rewrite parallels_new_frame.
  pose proof (eff_dmaj_pos l) as HD. pose proof (ldm_ok (eff_line l)) as Hd.
  set (D := ldmaj (eff_line l)) in *. set (d := ldmin (eff_line l)) in *.
  assert (HA : forall a, 0 <= a -> a * a <= thr_of l w -> a <= 3 * w * D).
  { intros a Ha H. apply (thr_bound D d w a HD Hd Hw Ha H). }
  assert (HF : (3 * w + 2) * D < Z.of_nat (parallels_fuel l w) * D).
  { unfold parallels_fuel. nia. }
  assert (G : forall fl pl el pr er ns, el <= D + 2 * d -> - D - 2 * d < er ->
              exists ps, parallels_run (parallels_fuel l w) (st_of l w (D + d) fl pl el pr er ns so) = Some ps /\
                         Z.of_nat (length ps) <= 3 * w + 2).
  { intros fl pl el pr er ns Hl Hr. unfold st_of. fold D d.
    assert (P0 : D + d <= Psi D (D + d) el er).
    { unfold Psi. destruct (el <=? D); destruct (- D <? er); lia. }
    edestruct (parallels_run_spec D d) as (ps & E & L); [exact HD | exact Hd | exact HA | exact Hl | exact Hr | | | ].
    3: { exists ps. split; [exact E|]. nia. }
    - lia.
    - nia. }
  destruct so; apply G; lia.
Qed.
(* ---- the first parallel is the thin line; width 1 and width 0 ---------------- *)
Lemma parallels_run_S f s :
  parallels_run (Datatypes.S f) s =
  match parallels_next s with
  | Fuel_out => None
  | Done => Some []
  | Yield a s' => match parallels_run f s' with Some t => Some (a :: t) | None => None end
  end.
Proof. reflexivity. Qed.

Lemma parallels_first l w : 1 <= w ->
  exists rest, parallels l w SONone = Some ((BS (l_start l) 0, LNormal) :: rest) /\ (w = 1 -> rest = []).
Proof.
  intros Hw. unfold parallels. rewrite parallels_new_frame.
  pose proof (eff_dmaj_pos l) as HD. pose proof (ldm_ok (eff_line l)) as Hd.
  assert (HA : forall a, 0 <= a -> a * a <= thr_of l w -> a <= 3 * w * ldmaj (eff_line l)).
  { intros a Ha H. apply (thr_bound _ (ldmin (eff_line l)) w a HD Hd ltac:(lia) Ha H). }
  destruct (parallels_fuel l w) as [|[|n]] eqn:F; [unfold parallels_fuel in F; lia | unfold parallels_fuel in F; lia |].
  assert (HF : 3 * w + 6 <= Z.of_nat n) by (unfold parallels_fuel in F; lia).
  unfold st_of. remember (thr_of l w) as thr eqn:Ethr.
  set (D := ldmaj (eff_line l)) in *. set (d := ldmin (eff_line l)) in *.
  set (A := lsmaj (eff_line l)). set (B := lsmin (eff_line l)).
  set (A' := lsmaj (perpendicular (eff_line l))). set (B' := lsmin (perpendicular (eff_line l))).
  assert (T0 : (D + d) * (D + d) <= thr).
  { subst thr. unfold thr_of. fold D d.
    assert ((D + d) * (D + d) <= 2 * (D * D + d * d)) by nia.
    assert (1 <= w * w) by nia. nia. }
  (* first step *)
  rewrite parallels_run_S. unfold parallels_next at 1.
  change (thick_thr (mkst D d A B A' B' (D + d) thr (flip_of l) (padd (l_start l) A') (2 * d) 0 (l_start l) 0 0 SRight SONone)) with thr.
  change (thick_acc (mkst D d A B A' B' (D + d) thr (flip_of l) (padd (l_start l) A') (2 * d) 0 (l_start l) 0 0 SRight SONone)) with (D + d).
  change (next_side (mkst D d A B A' B' (D + d) thr (flip_of l) (padd (l_start l) A') (2 * d) 0 (l_start l) 0 0 SRight SONone)) with SRight.
  assert (T : thr <? (D + d) * (D + d) = false) by lia. rewrite T. unfold np_fuel.
  destruct (next_parallel_right_spec D d A B A' B' (D + d) thr (flip_of l) (padd (l_start l) A') (2 * d) 0
              (l_start l) 0 0 SRight SONone 2 HD Hd ltac:(lia)) as (q & e & pr' & er' & re' & E & _ & _ & N).
  destruct (N ltac:(lia)) as (-> & -> & -> & -> & ->). rewrite E.
  unfold mkst at 1 2 3 4 5 6. unfold set_acc_side.
  cbn [thick_acc perp_params par_params error_step_minor error_step_major p_offset next_side
       thick_thr flip p_left p_right left_error right_error side_swap].
  fold (mkst D d A B A' B' (D + d + 2 * D) thr (flip_of l) (padd (l_start l) A') (2 * d) 0
             (psub (l_start l) A') (0 - 2 * d) 0 SLeft SONone).
  (* the rest *)
  destruct (Z.eq_dec w 1) as [W1|W1].
  - assert (T1 : thr <? (D + d + 2 * D) * (D + d + 2 * D) = true).
    { subst thr w. unfold thr_of. fold D d. nia. }
    rewrite parallels_run_S. unfold parallels_next.
    change (thick_thr (mkst D d A B A' B' (D + d + 2 * D) thr (flip_of l) (padd (l_start l) A') (2 * d) 0
             (psub (l_start l) A') (0 - 2 * d) 0 SLeft SONone)) with thr.
    change (thick_acc (mkst D d A B A' B' (D + d + 2 * D) thr (flip_of l) (padd (l_start l) A') (2 * d) 0
             (psub (l_start l) A') (0 - 2 * d) 0 SLeft SONone)) with (D + d + 2 * D).
    rewrite T1. eexists; split; [reflexivity|]. reflexivity.
  - edestruct (parallels_run_spec D d A B A' B' thr (flip_of l) SONone (3 * w * D) (Datatypes.S n) HD Hd HA
                 (D + d + 2 * D) (padd (l_start l) A') (2 * d) 0 (psub (l_start l) A') (0 - 2 * d) 0 SLeft)
      as (ps & E2 & _); [lia | lia | lia | | ].
    + unfold Psi. destruct (2 * d <=? D); destruct (- D <? 0 - 2 * d); nia.
    + rewrite E2. eexists; split; [reflexivity|]. intros; contradiction.
Qed.
Lemma parallels_w0 l so : parallels l 0 so = Some [].
Proof.
  unfold parallels. rewrite parallels_new_frame.
  pose proof (eff_dmaj_pos l) as HD. pose proof (ldm_ok (eff_line l)) as Hd.
  destruct (parallels_fuel l 0) as [|n] eqn:F; [unfold parallels_fuel in F; lia|].
  assert (T : forall fl pl el pr er ns,
            parallels_run (Datatypes.S n)
              (st_of l 0 (ldmaj (eff_line l) + ldmin (eff_line l)) fl pl el pr er ns so) = Some []).
  { intros. rewrite parallels_run_S. unfold parallels_next, st_of, mkst. cbn [thick_thr thick_acc].
    unfold thr_of.
    assert (U : 0 * 2 * (0 * 2) * (ldmaj (eff_line l) * ldmaj (eff_line l) + ldmin (eff_line l) * ldmin (eff_line l))
                <? (ldmaj (eff_line l) + ldmin (eff_line l)) * (ldmaj (eff_line l) + ldmin (eff_line l)) = true) by nia.
    rewrite U. reflexivity. }
  destruct so; apply T.
Qed.

Lemma length_bresenham_run p n : forall s, length (bresenham_run p s n) = n.
Proof.
  induction n as [|n IH]; intros s; [reflexivity|].
  cbn [bresenham_run]. destruct (bnext p s) as [q s']. cbn [length]. f_equal. apply IH.
Qed.

(* the centre parallel of a stroked line is Line::points() *)
Lemma centre_run l :
  bresenham_run (bparams_new (eff_line l)) (BS (l_start l) 0) (Z.to_nat (major_length l)) = line_points l.
Proof.
  unfold eff_line, line_points. destruct (point_eqb (l_start l) (l_end l)) eqn:T; [|reflexivity].
  unfold point_eqb in T.
  assert (M : major_length l = 1) by (unfold major_length, psub; cbn [px py]; lia).
  rewrite M. change (Z.to_nat 1) with 1%nat. cbn [bresenham_run]. unfold bnext. cbn [b_point b_error].
  assert (E : error_threshold (bparams_new l) <? 0 = false).
  { rewrite bparams_new_frame. cbn [error_threshold]. pose proof (ldm_ok l). lia. }
  rewrite E. reflexivity.
Qed.

Definition par_points (l : line) (ps : list (bstate * ltype)) : list point :=
  flat_map (fun bt : bstate * ltype =>
              let n := match snd bt with LNormal => major_length l | LExtra => major_length l - 1 end in
              bresenham_run (bparams_new (eff_line l)) (fst bt) (Z.to_nat n)) ps.

Lemma thick_points_eq l w :
  thick_points l w = option_map (par_points l) (parallels l w SONone).
Proof. unfold thick_points. destruct (parallels l w SONone); reflexivity. Qed.

Lemma length_par_points l ps :
  Z.of_nat (length (par_points l ps)) <= Z.of_nat (length ps) * major_length l.
Proof.
  pose proof (major_length_frame l) as M. pose proof (ldm_ok l).
  induction ps as [|[b t] ps IH]; [cbn; lia|].
  unfold par_points in *. cbn [flat_map fst snd]. rewrite app_length, length_bresenham_run.
  cbn [length]. destruct t; lia.
Qed.

Lemma thick_points_total l w : 0 <= w ->
  exists ps, thick_points l w = Some ps /\ Z.of_nat (length ps) <= (3 * w + 2) * major_length l.
Proof.
  intros Hw. destruct (parallels_total l w SONone Hw) as (ps & E & L).
  rewrite thick_points_eq, E. cbn [option_map]. eexists; split; [reflexivity|].
  pose proof (length_par_points l ps). pose proof (major_length_frame l). pose proof (ldm_ok l). nia.
Qed.

Lemma thick_points_first l w : 1 <= w ->
  exists rest, thick_points l w = Some (line_points l ++ rest) /\ (w = 1 -> rest = []).
Proof.
  intros Hw. destruct (parallels_first l w Hw) as (rest & E & R).
  rewrite thick_points_eq, E. cbn [option_map]. unfold par_points. cbn [flat_map fst snd].
  rewrite centre_run. eexists; split; [reflexivity|]. intros W. rewrite (R W). reflexivity.
Qed.

Lemma thick_w1_is_points l : thick_points l 1 = Some (line_points l).
Proof.
  destruct (thick_points_first l 1 ltac:(lia)) as (rest & E & R). rewrite E, (R eq_refl), app_nil_r. reflexivity.
Qed.

Lemma thick_w0_empty l : thick_points l 0 = Some [].
Proof. rewrite thick_points_eq, parallels_w0. reflexivity. Qed.

Lemma thick_contains_thin l w ps p : 1 <= w -> thick_points l w = Some ps -> In p (line_points l) -> In p ps.
Proof.
  intros Hw E H. destruct (thick_points_first l w Hw) as (rest & E2 & _). rewrite E in E2. injection E2 as ->.
  apply in_or_app. left. assumption.
Qed.

(* ---- Styled<Line>::pixels() (styled.rs) ------------------------------------------ *)
Definition colored (c : Z) (ps : list point) : list (point * Z) := map (fun p => (p, c)) ps.

Lemma styled_no_stroke l st :
  stroke_color st = None \/ stroke_width st = 0 -> styled_line_pixels l st = Some [].
Proof.
  intros H. unfold styled_line_pixels, effective_stroke_color.
  destruct (stroke_color st) as [c|]; [|reflexivity].
  destruct H as [H|H]; [discriminate|]. rewrite H. reflexivity.
Qed.

Lemma styled_eq l st c : stroke_color st = Some c -> 1 <= stroke_width st ->
  styled_line_pixels l st = option_map (colored c) (thick_points l (Z.min (stroke_width st) i32_max)).
Proof.
  intros Hc Hw. unfold styled_line_pixels, effective_stroke_color. rewrite Hc.
  assert (T : 0 <? stroke_width st = true) by lia. rewrite T. unfold sat_u32_to_i32.
  destruct (thick_points l _); reflexivity.
Qed.

Lemma styled_w1_is_points l st c : stroke_color st = Some c -> stroke_width st = 1 ->
  styled_line_pixels l st = Some (colored c (line_points l)).
Proof.
  intros Hc Hw. rewrite (styled_eq l st c Hc) by lia. rewrite Hw.
  change (Z.min 1 i32_max) with 1. rewrite thick_w1_is_points. reflexivity.
Qed.

Lemma styled_starts_with_thin l st c : stroke_color st = Some c -> 1 <= stroke_width st ->
  exists rest, styled_line_pixels l st = Some (colored c (line_points l) ++ rest).
Proof.
  intros Hc Hw. rewrite (styled_eq l st c Hc Hw).
  destruct (thick_points_first l (Z.min (stroke_width st) i32_max)) as (rest & E & _); [unfold i32_max; lia|].
  rewrite E. cbn [option_map]. unfold colored. rewrite map_app. eexists; reflexivity.
Qed.

Lemma styled_total l st : 0 <= stroke_width st ->
  exists pcs, styled_line_pixels l st = Some pcs /\
              Z.of_nat (length pcs) <= (3 * Z.min (stroke_width st) i32_max + 2) * major_length l.
Proof.
  intros Hw. unfold styled_line_pixels. destruct (effective_stroke_color st) as [c|].
  - destruct (thick_points_total l (sat_u32_to_i32 (stroke_width st))) as (ps & E & L);
      [unfold sat_u32_to_i32, i32_max; lia|].
    rewrite E. eexists; split; [reflexivity|]. rewrite map_length. exact L.
  - eexists; split; [reflexivity|]. cbn [length]. pose proof (major_length_frame l). pose proof (ldm_ok l).
    unfold i32_max. nia.
Qed.
