(* Bounding boxes of lines (C02 line part) and their translation (C07 line part):
   Line::bounding_box (mod.rs:71-75), Line::extents (mod.rs:109-170), styled_bounding_box (styled.rs:72-88). *)
From EG Require Import Base.Prelude Base.Lemmas Model.Geometry Model.Style Model.Line Model.Thickline
                       Proofs.Geometry Proofs.GeometryTranslate Proofs.Line Proofs.Thickline.
From Coq Require Import ZifyBool.

Ltac Zify.zify_post_hook ::= Z.to_euclidean_division_equations.
Set Default Timeout 60.

(* mod.rs:71-75 *)
Definition line_bbox (l : line) : rect := with_corners (l_start l) (l_end l).

(* ---- thin lines lie in Line::bounding_box ------------------------------------------- *)
Lemma line_points_in_bbox l p : In p (line_points l) -> contains (line_bbox l) p = true.
Proof.
  intros H. apply In_nth_error in H. destruct H as [i H].
  apply nth_line_points in H. destruct H as [Hi ->].
  pose proof (ldm_ok l) as Hd.
  assert (Hk : 0 <= Z.of_nat i) by lia.
  pose proof (Mk_range (ldmaj l) (ldmin l) Hd (Z.of_nat i) Hk) as R1.
  pose proof (Mk_mono (ldmaj l) (ldmin l) Hd (Z.of_nat i) (ldmaj l) ltac:(lia)) as R2.
  rewrite (Mk_end (ldmaj l) (ldmin l) Hd) in R2.
  unfold line_pt. set (m := Mk (ldmaj l) (ldmin l) (Z.of_nat i)) in *. set (k := Z.of_nat i) in *.
  apply contains_spec. unfold line_bbox, with_corners, size_from_bounding_box. cbn [tl sz sw sh px py].
  destruct l as [[sx sy] [ex ey]]. unfl.
  destruct (Z.abs (ex - sx) <=? Z.abs (ey - sy)) eqn:T;
  destruct (0 <=? ex - sx) eqn:X; destruct (0 <=? ey - sy) eqn:Y; cbn [px py]; lia.
Qed.

Lemma line_bbox_translate l d : line_bbox (translate_line l d) = translate_rect (line_bbox l) d.
Proof.
  unfold line_bbox, translate_rect, with_corners, size_from_bounding_box, translate_line, padd.
  cbn [l_start l_end tl sz px py]. f_equal; f_equal; lia.
Qed.

(* ---- extents and the styled bounding box move with the line -------------------------- *)
Definition tr_pt (d : point) (e : point * ltype) : point * ltype := (padd (fst e) d, snd e).
Definition tr_pair (d : point) (x : (point * ltype) * (point * ltype)) := (tr_pt d (fst x), tr_pt d (snd x)).

Lemma last_alternating_tr d ps : forall rt a b,
  last_alternating (tr_pars d ps) rt (tr_pt d a) (tr_pt d b) = tr_pair d (last_alternating ps rt a b).
Proof.
  induction ps as [|[bs t] ps IH]; intros rt a b; [reflexivity|].
  cbn [tr_pars map last_alternating fst snd]. fold (tr_pars d ps).
  destruct rt.
  - change (b_point (tr_bs d bs), t) with (tr_pt d (b_point bs, t)). apply IH.
  - change (b_point (tr_bs d bs), t) with (tr_pt d (b_point bs, t)). apply IH.
Qed.

Lemma last_opt_map {A B} (f : A -> B) (l : list A) : last_opt (map f l) = option_map f (last_opt l).
Proof.
  induction l as [|x [|y t] IH]; [reflexivity | reflexivity |].
  change (last_opt (map f (x :: y :: t))) with (last_opt (map f (y :: t))). rewrite IH. reflexivity.
Qed.

Lemma extents_translate l d w so :
  extents (translate_line l d) w so =
  option_map (fun ab => (translate_line (fst ab) d, translate_line (snd ab) d)) (extents l w so).
Proof.
  unfold extents. rewrite parallels_tr.
  fold (eff_line (translate_line l d)). fold (eff_line l).
  destruct (eff_params_translate l d) as (E1 & _). rewrite E1. rewrite delta_translate.
  destruct (parallels l (sat_u32_to_i32 w) so) as [ps|]; cbn [option_map]; [|reflexivity].
  set (init := (l_start l, LNormal)).
  change (l_start (translate_line l d), LNormal) with (tr_pt d init).
  set (red := padd (pos_step_major (bparams_new (eff_line l))) (pos_step_minor (bparams_new (eff_line l)))).
  set (delta := psub (l_end l) (l_start l)).
  assert (LP : match last_opt (tr_pars d ps) with Some (b, t) => (b_point b, t) | None => tr_pt d init end
               = tr_pt d (match last_opt ps with Some (b, t) => (b_point b, t) | None => init end)).
  { unfold tr_pars. rewrite last_opt_map. destruct (last_opt ps) as [[b t]|]; reflexivity. }
  rewrite LP. set (lastp := match last_opt ps with Some (b, t) => (b_point b, t) | None => init end).
  assert (MK : forall e, L (fst (tr_pt d e)) (psub (padd (fst (tr_pt d e)) delta)
                            (match snd (tr_pt d e) with LNormal => P 0 0 | LExtra => red end))
                     = translate_line (L (fst e) (psub (padd (fst e) delta)
                            (match snd e with LNormal => P 0 0 | LExtra => red end))) d).
  { intros [q t]. unfold tr_pt, translate_line. cbn [fst snd l_start l_end]. f_equal.
    unfold padd, psub; cbn [px py]; f_equal; lia. }
  destruct so.
  - rewrite last_alternating_tr. destruct (last_alternating ps true init init) as [a b].
    unfold tr_pair. cbn [fst snd]. rewrite !MK. reflexivity.
  - rewrite !MK. reflexivity.
  - rewrite !MK. reflexivity.
Qed.

Lemma styled_bbox_translate l d st :
  styled_line_bounding_box (translate_line l d) st
  = option_map (fun r => translate_rect r d) (styled_line_bounding_box l st).
Proof.
  unfold styled_line_bounding_box. rewrite extents_translate.
  destruct (extents l (stroke_width st) SONone) as [[a b]|]; cbn [option_map fst snd]; [|reflexivity].
  f_equal. unfold translate_rect, with_corners, size_from_bounding_box, component_min, component_max,
    translate_line, padd. cbn [l_start l_end tl sz px py]. f_equal; f_equal; lia.
Qed.

(* ---- stroke width 0 or 1: the styled box is Line::bounding_box and contains what is drawn ---------- *)
Definition box_of (ab : line * line) : rect :=
  let (a, b) := ab in
  with_corners (component_min (component_min (component_min (l_start a) (l_end a)) (l_start b)) (l_end b))
               (component_max (component_max (component_max (l_start a) (l_end a)) (l_start b)) (l_end b)).

Lemma styled_bbox_eq l st :
  styled_line_bounding_box l st = option_map box_of (extents l (stroke_width st) SONone).
Proof.
  unfold styled_line_bounding_box. destruct (extents l (stroke_width st) SONone) as [[a b]|]; reflexivity.
Qed.

Lemma box_of_same l :
  box_of (L (l_start l) (psub (padd (l_start l) (psub (l_end l) (l_start l))) (P 0 0)),
          L (l_start l) (psub (padd (l_start l) (psub (l_end l) (l_start l))) (P 0 0))) = line_bbox l.
Proof.
  unfold box_of, line_bbox, with_corners, size_from_bounding_box, component_min, component_max, padd, psub.
  cbn [l_start l_end px py]. f_equal; f_equal; lia.
Qed.

Lemma styled_bbox_thin l st : 0 <= stroke_width st <= 1 -> styled_line_bounding_box l st = Some (line_bbox l).
Proof.
  intros Hw. rewrite styled_bbox_eq. unfold extents.
  assert (W : stroke_width st = 0 \/ stroke_width st = 1) by lia.
  destruct W as [W|W]; rewrite W.
  - change (sat_u32_to_i32 0) with 0. rewrite parallels_w0. cbn [last_alternating option_map fst snd].
    rewrite box_of_same. reflexivity.
  - change (sat_u32_to_i32 1) with 1.
    destruct (parallels_first l 1 ltac:(lia)) as (rest & E & R). rewrite (R eq_refl) in E. rewrite E.
    cbn [last_alternating option_map fst snd b_point]. rewrite box_of_same. reflexivity.
Qed.

Lemma styled_thin_in_bbox l st pcs r pc : 0 <= stroke_width st <= 1 ->
  styled_line_pixels l st = Some pcs -> styled_line_bounding_box l st = Some r ->
  In pc pcs -> contains r (fst pc) = true.
Proof.
  intros Hw E B H. rewrite (styled_bbox_thin l st Hw) in B. injection B as <-.
  destruct (stroke_color st) as [c|] eqn:C.
  - assert (W : stroke_width st = 0 \/ stroke_width st = 1) by lia. destruct W as [W|W].
    + rewrite styled_no_stroke in E by (right; exact W). injection E as <-. contradiction.
    + rewrite (styled_w1_is_points l st c C W) in E. injection E as <-.
      unfold colored in H. apply in_map_iff in H. destruct H as (p & <- & Hp). cbn [fst].
      apply line_points_in_bbox. exact Hp.
  - rewrite styled_no_stroke in E by (left; exact C). injection E as <-. contradiction.
Qed.

(* ---- wider strokes: every pixel lies in the box derived from `extents`; decided on the grid ---------- *)
Definition thick_in_box (l : line) (w : Z) : Prop :=
  exists ps r, thick_points l w = Some ps /\
               (forall st, stroke_width st = w -> styled_line_bounding_box l st = Some r) /\
               (forall p, In p ps -> contains r p = true).

Definition thick_in_box_b (l : line) (w : Z) : bool :=
  match thick_points l w, option_map box_of (extents l w SONone) with
  | Some ps, Some r => forallb (contains r) ps
  | _, _ => false
  end.

Lemma thick_in_box_b_sound l w : thick_in_box_b l w = true -> thick_in_box l w.
Proof.
  unfold thick_in_box_b, thick_in_box. destruct (thick_points l w) as [ps|]; [|discriminate].
  destruct (option_map box_of (extents l w SONone)) as [r|] eqn:E; [|discriminate].
  intros H. rewrite forallb_forall in H. exists ps, r. split; [reflexivity|]. split; [|exact H].
  intros st <-. rewrite styled_bbox_eq. exact E.
Qed.

Lemma thick_in_box_translate l d w : thick_in_box l w -> thick_in_box (translate_line l d) w.
Proof.
  intros (ps & r & E & B & H). exists (shift d ps), (translate_rect r d).
  split; [rewrite thick_points_translate, E; reflexivity|]. split.
  - intros st Hst. rewrite styled_bbox_translate, (B st Hst). reflexivity.
  - intros p' Hp'. unfold shift in Hp'. apply in_map_iff in Hp'. destruct Hp' as (p & <- & Hp).
    rewrite contains_translate. apply H, Hp.
Qed.

Definition box_grid_b (x0 x1 y0 y1 W : Z) : bool :=
  forallb (fun dx => forallb (fun dy => forallb (fun w => thick_in_box_b (L (P 0 0) (P dx dy)) w) (range 0 (W + 1)))
                             (range y0 y1)) (range x0 x1).

(* every line is the translate of the line from the origin with the same delta *)
Lemma line_as_translate0 l : l = translate_line (L (P 0 0) (P (ldx l) (ldy l))) (l_start l).
Proof.
  destruct l as [[sx sy] [ex ey]]. unfold translate_line, padd, ldx, ldy; cbn [l_start l_end px py].
  f_equal; f_equal; lia.
Qed.

Lemma box_grid_b_sound x0 x1 y0 y1 W : box_grid_b x0 x1 y0 y1 W = true ->
  forall l w, x0 <= ldx l < x1 -> y0 <= ldy l < y1 -> 0 <= w <= W -> thick_in_box l w.
Proof.
  intros H l w Hx Hy Hw. unfold box_grid_b in H.
  rewrite forallb_forall in H. specialize (H (ldx l) ltac:(apply In_range; lia)).
  rewrite forallb_forall in H. specialize (H (ldy l) ltac:(apply In_range; lia)).
  rewrite forallb_forall in H. specialize (H w ltac:(apply In_range; lia)).
  rewrite (line_as_translate0 l). apply thick_in_box_translate, thick_in_box_b_sound, H.
Qed.
