(* Bounding boxes of lines (C02 line part) and their translation (C07 line part):
   Line::bounding_box (mod.rs:71-75), Line::extents (mod.rs:109-170), styled_bounding_box (styled.rs:72-88). *)
From EG Require Import Base.Prelude Base.Lemmas Model.Geometry Model.Style Model.Line Model.Thickline
                       Proofs.Geometry Proofs.GeometryTranslate Proofs.Line Proofs.Thickline Proofs.ThicklineRot.
From Coq Require Import ZifyBool.

Ltac Zify.zify_post_hook ::= Z.to_euclidean_division_equations.
Set Default Timeout 60.

(* mod.rs:71-75 *)
Definition line_bbox (l : line) : rect := with_corners (l_start l) (l_end l).

(* ---- thin lines lie in Line::bounding_box ------------------------------------------- *)
Lemma line_points_in_bbox l p : In p (line_points l) -> contains (line_bbox l) p = true.
Proof.
  intros H. apply In_nth_error in H. destruct H as [i H].
  apply nth_line_points in H. destruct H as [Hi ->].
  pose proof (ldm_ok l) as Hd.
  assert (Hk : 0 <= Z.of_nat i) by lia.
  pose proof (Mk_range (ldmaj l) (ldmin l) Hd (Z.of_nat i) Hk) as R1.
  pose proof (Mk_mono (ldmaj l) (ldmin l) Hd (Z.of_nat i) (ldmaj l) ltac:(lia)) as R2.
  rewrite (Mk_end (ldmaj l) (ldmin l) Hd) in R2.
  unfold line_pt. set (m := Mk (ldmaj l) (ldmin l) (Z.of_nat i)) in *. set (k := Z.of_nat i) in *.
  apply contains_spec. unfold line_bbox, with_corners, size_from_bounding_box. cbn [tl sz sw sh px py].
  destruct l as [[sx sy] [ex ey]]. unfl.
  destruct (Z.abs (ex - sx) <=? Z.abs (ey - sy)) eqn:T;
  destruct (0 <=? ex - sx) eqn:X; destruct (0 <=? ey - sy) eqn:Y; cbn [px py]; lia.
Qed.

Lemma line_bbox_translate l d : line_bbox (translate_line l d) = translate_rect (line_bbox l) d.
Proof.
  unfold line_bbox, translate_rect, with_corners, size_from_bounding_box, translate_line, padd.
  cbn [l_start l_end tl sz px py]. f_equal; f_equal; lia.
Qed.

(* ---- extents and the styled bounding box move with the line -------------------------- *)
Definition tr_pt (d : point) (e : point * ltype) : point * ltype := (padd (fst e) d, snd e).
Definition tr_pair (d : point) (x : (point * ltype) * (point * ltype)) := (tr_pt d (fst x), tr_pt d (snd x)).

Lemma last_alternating_tr d ps : forall rt a b,
  last_alternating (tr_pars d ps) rt (tr_pt d a) (tr_pt d b) = tr_pair d (last_alternating ps rt a b).
Proof.
  induction ps as [|[bs t] ps IH]; intros rt a b; [reflexivity|].
  cbn [tr_pars map last_alternating fst snd]. fold (tr_pars d ps).
  destruct rt.
  - change (b_point (tr_bs d bs), t) with (tr_pt d (b_point bs, t)). apply IH.
  - change (b_point (tr_bs d bs), t) with (tr_pt d (b_point bs, t)). apply IH.
Qed.

Lemma last_opt_map {A B} (f : A -> B) (l : list A) : last_opt (map f l) = option_map f (last_opt l).
Proof.
  induction l as [|x [|y t] IH]; [reflexivity | reflexivity |].
  change (last_opt (map f (x :: y :: t))) with (last_opt (map f (y :: t))). rewrite IH. reflexivity.
Qed.

Lemma extents_translate l d w so :
  extents (translate_line l d) w so =
  option_map (fun ab => (translate_line (fst ab) d, translate_line (snd ab) d)) (extents l w so).
Proof.
  unfold extents. rewrite parallels_tr.
  fold (eff_line (translate_line l d)). fold (eff_line l).
  destruct (eff_params_translate l d) as (E1 & _). rewrite E1. rewrite delta_translate.
  destruct (parallels l (sat_u32_to_i32 w) so) as [ps|]; cbn [option_map]; [|reflexivity].
  set (init := (l_start l, LNormal)).
  change (l_start (translate_line l d), LNormal) with (tr_pt d init).
  set (red := padd (pos_step_major (bparams_new (eff_line l))) (pos_step_minor (bparams_new (eff_line l)))).
  set (delta := psub (l_end l) (l_start l)).
  assert (LP : match last_opt (tr_pars d ps) with Some (b, t) => (b_point b, t) | None => tr_pt d init end
               = tr_pt d (match last_opt ps with Some (b, t) => (b_point b, t) | None => init end)).
  { unfold tr_pars. rewrite last_opt_map. destruct (last_opt ps) as [[b t]|]; reflexivity. }
  rewrite LP. set (lastp := match last_opt ps with Some (b, t) => (b_point b, t) | None => init end).
  assert (MK : forall e, L (fst (tr_pt d e)) (psub (padd (fst (tr_pt d e)) delta)
                            (match snd (tr_pt d e) with LNormal => P 0 0 | LExtra => red end))
                     = translate_line (L (fst e) (psub (padd (fst e) delta)
                            (match snd e with LNormal => P 0 0 | LExtra => red end))) d).
  { intros [q t]. unfold tr_pt, translate_line. cbn [fst snd l_start l_end]. f_equal.
    unfold padd, psub; cbn [px py]; f_equal; lia. }
  destruct so.
  - rewrite last_alternating_tr. destruct (last_alternating ps true init init) as [a b].
    unfold tr_pair. cbn [fst snd]. rewrite !MK. reflexivity.
  - rewrite !MK. reflexivity.
  - rewrite !MK. reflexivity.
Qed.

Lemma styled_bbox_translate l d st :
  styled_line_bounding_box (translate_line l d) st
  = option_map (fun r => translate_rect r d) (styled_line_bounding_box l st).
Proof.
  unfold styled_line_bounding_box. rewrite extents_translate.
  destruct (extents l (stroke_width st) SONone) as [[a b]|]; cbn [option_map fst snd]; [|reflexivity].
  f_equal. unfold translate_rect, with_corners, size_from_bounding_box, component_min, component_max,
    translate_line, padd. cbn [l_start l_end tl sz px py]. f_equal; f_equal; lia.
Qed.

(* ---- stroke width 0 or 1: the styled box is Line::bounding_box and contains what is drawn ---------- *)
Definition box_of (ab : line * line) : rect :=
  let (a, b) := ab in
  with_corners (component_min (component_min (component_min (l_start a) (l_end a)) (l_start b)) (l_end b))
               (component_max (component_max (component_max (l_start a) (l_end a)) (l_start b)) (l_end b)).

Lemma styled_bbox_eq l st :
  styled_line_bounding_box l st = option_map box_of (extents l (stroke_width st) SONone).
Proof.
  unfold styled_line_bounding_box. destruct (extents l (stroke_width st) SONone) as [[a b]|]; reflexivity.
Qed.

Lemma box_of_same l :
  box_of (L (l_start l) (psub (padd (l_start l) (psub (l_end l) (l_start l))) (P 0 0)),
          L (l_start l) (psub (padd (l_start l) (psub (l_end l) (l_start l))) (P 0 0))) = line_bbox l.
Proof.
  unfold box_of, line_bbox, with_corners, size_from_bounding_box, component_min, component_max, padd, psub.
  cbn [l_start l_end px py]. f_equal; f_equal; lia.
Qed.

Lemma styled_bbox_thin l st : 0 <= stroke_width st <= 1 -> styled_line_bounding_box l st = Some (line_bbox l).
Proof.
  intros Hw. rewrite styled_bbox_eq. unfold extents.
  assert (W : stroke_width st = 0 \/ stroke_width st = 1) by lia.
  destruct W as [W|W]; rewrite W.
  - change (sat_u32_to_i32 0) with 0. rewrite parallels_w0. cbn [last_alternating option_map fst snd].
    rewrite box_of_same. reflexivity.
  - change (sat_u32_to_i32 1) with 1.
    destruct (parallels_first l 1 ltac:(lia)) as (rest & E & R). rewrite (R eq_refl) in E. rewrite E.
    cbn [last_alternating option_map fst snd b_point]. rewrite box_of_same. reflexivity.
Qed.

Lemma styled_thin_in_bbox l st pcs r pc : 0 <= stroke_width st <= 1 ->
  styled_line_pixels l st = Some pcs -> styled_line_bounding_box l st = Some r ->
  In pc pcs -> contains r (fst pc) = true.
Proof.
  intros Hw E B H. rewrite (styled_bbox_thin l st Hw) in B. injection B as <-.
  destruct (stroke_color st) as [c|] eqn:C.
  - assert (W : stroke_width st = 0 \/ stroke_width st = 1) by lia. destruct W as [W|W].
    + rewrite styled_no_stroke in E by (right; exact W). injection E as <-. contradiction.
    + rewrite (styled_w1_is_points l st c C W) in E. injection E as <-.
      unfold colored in H. apply in_map_iff in H. destruct H as (p & <- & Hp). cbn [fst].
      apply line_points_in_bbox. exact Hp.
  - rewrite styled_no_stroke in E by (left; exact C). injection E as <-. contradiction.
Qed.

(* ---- wider strokes: every pixel lies in the box derived from `extents`; decided on the grid ---------- *)
Definition thick_in_box (l : line) (w : Z) : Prop :=
  exists ps r, thick_points l w = Some ps /\
               (forall st, stroke_width st = w -> styled_line_bounding_box l st = Some r) /\
               (forall p, In p ps -> contains r p = true).

Definition thick_in_box_b (l : line) (w : Z) : bool :=
  match thick_points l w, option_map box_of (extents l w SONone) with
  | Some ps, Some r => forallb (contains r) ps
  | _, _ => false
  end.

Lemma thick_in_box_b_sound l w : thick_in_box_b l w = true -> thick_in_box l w.
Proof.
  unfold thick_in_box_b, thick_in_box. destruct (thick_points l w) as [ps|]; [|discriminate].
  destruct (option_map box_of (extents l w SONone)) as [r|] eqn:E; [|discriminate].
  intros H. rewrite forallb_forall in H. exists ps, r. split; [reflexivity|]. split; [|exact H].
  intros st <-. rewrite styled_bbox_eq. exact E.
Qed.

Lemma thick_in_box_translate l d w : thick_in_box l w -> thick_in_box (translate_line l d) w.
Proof.
  intros (ps & r & E & B & H). exists (shift d ps), (translate_rect r d).
  split; [rewrite thick_points_translate, E; reflexivity|]. split.
  - intros st Hst. rewrite styled_bbox_translate, (B st Hst). reflexivity.
  - intros p' Hp'. unfold shift in Hp'. apply in_map_iff in Hp'. destruct Hp' as (p & <- & Hp).
    rewrite contains_translate. apply H, Hp.
Qed.

Definition box_grid_b (x0 x1 y0 y1 W : Z) : bool :=
  forallb (fun dx => forallb (fun dy => forallb (fun w => thick_in_box_b (L (P 0 0) (P dx dy)) w) (range 0 (W + 1)))
                             (range y0 y1)) (range x0 x1).

(* every line is the translate of the line from the origin with the same delta *)
Lemma line_as_translate0 l : l = translate_line (L (P 0 0) (P (ldx l) (ldy l))) (l_start l).
Proof.
  destruct l as [[sx sy] [ex ey]]. unfold translate_line, padd, ldx, ldy; cbn [l_start l_end px py].
  f_equal; f_equal; lia.
Qed.

Lemma box_grid_b_sound x0 x1 y0 y1 W : box_grid_b x0 x1 y0 y1 W = true ->
  forall l w, x0 <= ldx l < x1 -> y0 <= ldy l < y1 -> 0 <= w <= W -> thick_in_box l w.
Proof.
  intros H l w Hx Hy Hw. unfold box_grid_b in H.
  rewrite forallb_forall in H. specialize (H (ldx l) ltac:(apply In_range; lia)).
  rewrite forallb_forall in H. specialize (H (ldy l) ltac:(apply In_range; lia)).
  rewrite forallb_forall in H. specialize (H w ltac:(apply In_range; lia)).
  rewrite (line_as_translate0 l). apply thick_in_box_translate, thick_in_box_b_sound, H.
Qed.

(* ---- rotation by 90 degrees (generic lines, Proofs/ThicklineRot.v) ------------------------------------ *)
Definition rot_pt (e : point * ltype) : point * ltype := (rot (fst e), snd e).
Definition rot_pair (x : (point * ltype) * (point * ltype)) := (rot_pt (fst x), rot_pt (snd x)).

Lemma last_alternating_rot ps : forall rt a b,
  last_alternating (rot_pars ps) rt (rot_pt a) (rot_pt b) = rot_pair (last_alternating ps rt a b).
Proof.
  induction ps as [|[bs t] ps IH]; intros rt a b; [reflexivity|].
  cbn [rot_pars map last_alternating fst snd]. fold (rot_pars ps).
  destruct rt.
  - change (b_point (rot_bs bs), t) with (rot_pt (b_point bs, t)). apply IH.
  - change (b_point (rot_bs bs), t) with (rot_pt (b_point bs, t)). apply IH.
Qed.

Lemma extents_rot l w so : generic l ->
  extents (rot_line l) w so = option_map (fun ab => (rot_line (fst ab), rot_line (snd ab))) (extents l w so).
Proof.
  intros G. unfold extents. rewrite (parallels_rot _ _ _ G).
  rewrite (generic_nondeg _ G), (generic_nondeg _ (generic_rot _ G)), (bparams_rot _ G), delta_rot.
  destruct (parallels l (sat_u32_to_i32 w) so) as [ps|]; cbn [option_map]; [|reflexivity].
  cbn [rot_bp pos_step_major pos_step_minor]. rewrite <- rot_padd.
  set (init := (l_start l, LNormal)).
  change (l_start (rot_line l), LNormal) with (rot_pt init).
  set (red := padd (pos_step_major (bparams_new l)) (pos_step_minor (bparams_new l))).
  set (delta := psub (l_end l) (l_start l)).
  assert (LP : match last_opt (rot_pars ps) with Some (b, t) => (b_point b, t) | None => rot_pt init end
               = rot_pt (match last_opt ps with Some (b, t) => (b_point b, t) | None => init end)).
  { unfold rot_pars. rewrite last_opt_map. destruct (last_opt ps) as [[b t]|]; reflexivity. }
  rewrite LP. set (lastp := match last_opt ps with Some (b, t) => (b_point b, t) | None => init end).
  assert (MK : forall e, L (fst (rot_pt e)) (psub (padd (fst (rot_pt e)) (rot delta))
                            (match snd (rot_pt e) with LNormal => P 0 0 | LExtra => rot red end))
                     = rot_line (L (fst e) (psub (padd (fst e) delta)
                            (match snd e with LNormal => P 0 0 | LExtra => red end)))).
  { intros [q t]. unfold rot_pt, rot_line. cbn [fst snd l_start l_end]. f_equal.
    rewrite rot_psub, rot_padd. destruct t; reflexivity. }
  destruct so.
  - rewrite last_alternating_rot. destruct (last_alternating ps true init init) as [a b].
    unfold rot_pair. cbn [fst snd]. rewrite !MK. reflexivity.
  - rewrite !MK. reflexivity.
  - rewrite !MK. reflexivity.
Qed.

Lemma contains_wc c1 c2 p :
  contains (with_corners c1 c2) p = true <->
  (Z.min (px c1) (px c2) <= px p <= Z.max (px c1) (px c2)) /\ (Z.min (py c1) (py c2) <= py p <= Z.max (py c1) (py c2)).
Proof.
  rewrite contains_spec. unfold with_corners, size_from_bounding_box. cbn [tl sz sw sh px py]. lia.
Qed.

Lemma box_of_rot a b p : contains (box_of (rot_line a, rot_line b)) (rot p) = contains (box_of (a, b)) p.
Proof.
  apply Bool.eq_true_iff_eq. unfold box_of. rewrite !contains_wc.
  unfold component_min, component_max, rot_line, rot. cbn [l_start l_end px py].
  rewrite <- !Z.opp_max_distr, <- !Z.opp_min_distr.
  set (mx := Z.min (Z.min (Z.min (px (l_start a)) (px (l_end a))) (px (l_start b))) (px (l_end b))).
  set (Mx := Z.max (Z.max (Z.max (px (l_start a)) (px (l_end a))) (px (l_start b))) (px (l_end b))).
  set (my := Z.min (Z.min (Z.min (py (l_start a)) (py (l_end a))) (py (l_start b))) (py (l_end b))).
  set (My := Z.max (Z.max (Z.max (py (l_start a)) (py (l_end a))) (py (l_start b))) (py (l_end b))).
  clearbody mx Mx my My. lia.
Qed.

Lemma thick_in_box_rot l w : generic l -> thick_in_box l w -> thick_in_box (rot_line l) w.
Proof.
  intros G (ps & r & E & Bx & H).
  destruct (extents l w SONone) as [[a b]|] eqn:EX.
  - exists (map rot ps), (box_of (rot_line a, rot_line b)).
    split; [rewrite (thick_points_rot l w G), E; reflexivity|]. split.
    + intros st Hst. rewrite styled_bbox_eq, Hst, (extents_rot l w SONone G), EX. reflexivity.
    + intros p' Hp'. apply in_map_iff in Hp'. destruct Hp' as (p & <- & Hp).
      rewrite box_of_rot.
      assert (R : r = box_of (a, b)).
      { specialize (Bx (Style None None w Center Solid) eq_refl). rewrite styled_bbox_eq in Bx.
        cbn [stroke_width] in Bx. rewrite EX in Bx. cbn [option_map] in Bx. injection Bx as <-. reflexivity. }
      rewrite <- R. apply H, Hp.
  - specialize (Bx (Style None None w Center Solid) eq_refl). rewrite styled_bbox_eq in Bx.
    cbn [stroke_width] in Bx. rewrite EX in Bx. discriminate Bx.
Qed.

Definition box_diag_b (R W : Z) : bool :=
  forallb (fun k => forallb (fun w => thick_in_box_b (L (P 0 0) (P k k)) w && thick_in_box_b (L (P 0 0) (P k (- k))) w)
                            (range 0 (W + 1))) (range (- R) (R + 1)).

Lemma origin_line_box dx dy w l : thick_in_box (L (P 0 0) (P dx dy)) w -> ldx l = dx -> ldy l = dy -> thick_in_box l w.
Proof. intros H <- <-. rewrite (line_as_translate0 l). apply thick_in_box_translate, H. Qed.

Theorem thick_in_box_sym R W :
  box_grid_b 1 (R + 1) 1 (R + 1) W = true -> box_grid_b 0 1 (- R) (R + 1) W = true ->
  box_grid_b (- R) (R + 1) 0 1 W = true -> box_diag_b R W = true ->
  forall l w, - R <= ldx l <= R -> - R <= ldy l <= R -> 0 <= w <= W -> thick_in_box l w.
Proof.
  intros Q1 AX1 AX2 DG l w Hx Hy Hw.
  destruct (Z.eq_dec (ldx l) 0) as [X0|X0]; [apply (box_grid_b_sound _ _ _ _ _ AX1); lia|].
  destruct (Z.eq_dec (ldy l) 0) as [Y0|Y0]; [apply (box_grid_b_sound _ _ _ _ _ AX2); lia|].
  destruct (Z.eq_dec (Z.abs (ldx l)) (Z.abs (ldy l))) as [DD|DD].
  - unfold box_diag_b in DG. rewrite forallb_forall in DG. specialize (DG (ldx l) ltac:(apply In_range; lia)).
    rewrite forallb_forall in DG. specialize (DG w ltac:(apply In_range; lia)).
    apply andb_prop in DG. destruct DG as [D1 D2].
    destruct (Z.eq_dec (ldy l) (ldx l)) as [E|E].
    + apply (origin_line_box (ldx l) (ldx l)); [apply thick_in_box_b_sound, D1 | reflexivity | exact E].
    + apply (origin_line_box (ldx l) (- ldx l)); [apply thick_in_box_b_sound, D2 | reflexivity | lia].
  - assert (QQ : forall a b, 1 <= a <= R -> 1 <= b <= R -> thick_in_box (L (P 0 0) (P a b)) w).
    { intros a b Ha Hb. apply (box_grid_b_sound _ _ _ _ _ Q1); unfold ldx, ldy; cbn [l_start l_end px py]; lia. }
    assert (GO : forall a b, a <> 0 -> b <> 0 -> Z.abs a <> Z.abs b -> generic (L (P 0 0) (P a b))).
    { intros a b. unfold generic, ldx, ldy. cbn [l_start l_end px py]. lia. }
    assert (RO : forall a b, rot_line (L (P 0 0) (P a b)) = L (P 0 0) (P (- b) a)) by reflexivity.
    destruct (Z_lt_ge_dec 0 (ldx l)) as [XP|XN]; destruct (Z_lt_ge_dec 0 (ldy l)) as [YP|YN].
    + apply (origin_line_box (ldx l) (ldy l)); [apply QQ; lia | reflexivity | reflexivity].
    + apply (origin_line_box (ldx l) (ldy l)); [| reflexivity | reflexivity].
      replace (L (P 0 0) (P (ldx l) (ldy l)))
        with (rot_line (rot_line (rot_line (L (P 0 0) (P (- ldy l) (ldx l))))))
        by (rewrite !RO; f_equal; f_equal; lia).
      apply thick_in_box_rot; [rewrite !RO; apply GO; lia|].
      apply thick_in_box_rot; [rewrite !RO; apply GO; lia|].
      apply thick_in_box_rot; [apply GO; lia|]. apply QQ; lia.
    + apply (origin_line_box (ldx l) (ldy l)); [| reflexivity | reflexivity].
      replace (L (P 0 0) (P (ldx l) (ldy l))) with (rot_line (L (P 0 0) (P (ldy l) (- ldx l))))
        by (rewrite !RO; f_equal; f_equal; lia).
      apply thick_in_box_rot; [apply GO; lia|]. apply QQ; lia.
    + apply (origin_line_box (ldx l) (ldy l)); [| reflexivity | reflexivity].
      replace (L (P 0 0) (P (ldx l) (ldy l))) with (rot_line (rot_line (L (P 0 0) (P (- ldx l) (- ldy l)))))
        by (rewrite !RO; f_equal; f_equal; lia).
      apply thick_in_box_rot; [rewrite !RO; apply GO; lia|].
      apply thick_in_box_rot; [apply GO; lia|]. apply QQ; lia.
Qed.
