(* C02, stroked lines: every pixel of Styled<Line>::pixels() lies in styled_bounding_box(), for every line with
   |dx|, |dy| <= 14 (anywhere in the plane) and stroke widths 0..9, by computation on the model. *)
From EG Require Import Base.Prelude Model.Geometry Model.Line Model.Thickline Proofs.Line Proofs.ThicklineBox.
Set Default Timeout 120.

Lemma box_block : box_grid_b (-14) 15 (-14) 15 9 = true.
Proof. vm_compute. reflexivity. Qed.

Lemma thick_in_box_grid l w : -14 <= ldx l <= 14 -> -14 <= ldy l <= 14 -> 0 <= w <= 9 -> thick_in_box l w.
Proof. intros Hx Hy Hw. apply (box_grid_b_sound _ _ _ _ _ box_block); lia. Qed.
