(* C02, stroked lines: every pixel of Styled<Line>::pixels() lies in styled_bounding_box(), for every line with
   |dx|, |dy| <= 24 (anywhere in the plane) and stroke widths 0..16: by computation on the model over one quadrant of
   deltas plus the axis-parallel and diagonal lines, and invariance under translation and rotation by 90 degrees. *)
From EG Require Import Base.Prelude Model.Geometry Model.Line Model.Thickline Proofs.Line Proofs.ThicklineBox.
Set Default Timeout 300.

Lemma box_block_q1 : box_grid_b 1 25 1 25 16 = true.
Proof. vm_compute. reflexivity. Qed.
Lemma box_block_v : box_grid_b 0 1 (-24) 25 16 = true.
Proof. vm_compute. reflexivity. Qed.
Lemma box_block_h : box_grid_b (-24) 25 0 1 16 = true.
Proof. vm_compute. reflexivity. Qed.
Lemma box_block_d : box_diag_b 24 16 = true.
Proof. vm_compute. reflexivity. Qed.

Lemma thick_in_box_grid l w : -24 <= ldx l <= 24 -> -24 <= ldy l <= 24 -> 0 <= w <= 16 -> thick_in_box l w.
Proof. exact (thick_in_box_sym 24 16 box_block_q1 box_block_v box_block_h box_block_d l w). Qed.
