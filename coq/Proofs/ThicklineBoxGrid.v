(* C02, stroked lines: every pixel of Styled<Line>::pixels() lies in styled_bounding_box(), for every line with
   |dx|, |dy| <= 24 (anywhere in the plane) and stroke widths 0..12, by computation on the model. *)
From EG Require Import Base.Prelude Model.Geometry Model.Line Model.Thickline Proofs.Line Proofs.ThicklineBox.
Set Default Timeout 300.

Lemma box_block_A : box_grid_b (-24) 0 (-24) 25 12 = true.
Proof. vm_compute. reflexivity. Qed.
Lemma box_block_B : box_grid_b 0 25 (-24) 25 12 = true.
Proof. vm_compute. reflexivity. Qed.

Lemma thick_in_box_grid l w : -24 <= ldx l <= 24 -> -24 <= ldy l <= 24 -> 0 <= w <= 12 -> thick_in_box l w.
Proof.
  intros Hx Hy Hw.
  destruct (Z_lt_ge_dec (ldx l) 0); [apply (box_grid_b_sound _ _ _ _ _ box_block_A); lia|].
  apply (box_grid_b_sound _ _ _ _ _ box_block_B); lia.
Qed.
