(* The clauses of C17 about stroked lines that are not proved for all lines (no pixel twice, distance to the
   ideal line, overshoot at the ends, width at the middle): a boolean checker on the model's pixel list,
   proved sound against the Prop statement [thick_ok], and invariant under translation, so that a
   vm_compute sweep over all deltas of the grid [-R,R]^2 x widths 0..W (Proofs/ThicklineGrid*.v)
   proves [thick_ok] for every line of the property's quantifier domain, wherever it starts. *)
From EG Require Import Base.Prelude Base.Lemmas Model.Geometry Model.Style Model.Line Model.Thickline
                       Proofs.Geometry Proofs.Line Proofs.Thickline Proofs.ThicklineNoDup Proofs.ThicklineRot.
From Coq Require Import ZifyBool FinFun.

Set Default Timeout 60.

(* ---- the statement ------------------------------------------------------------ *)
Definition len2 (l : line) : Z := ldx l * ldx l + ldy l * ldy l.

(* distance to the ideal line = |cross| / len <= w/2 + 5/2; for a zero-length line: distance to the point *)
Definition dist_ok (l : line) (w : Z) (p : point) : Prop :=
  4 * (cross_to l p * cross_to l p) <= (w + 5) * (w + 5) * len2 l /\
  (len2 l = 0 ->
   4 * ((px p - px (l_start l)) * (px p - px (l_start l)) + (py p - py (l_start l)) * (py p - py (l_start l)))
   <= (w + 5) * (w + 5)).
(* the projection onto the line is at most one pixel beyond either end: -len <= dot/len <= len + 1 *)
Definition ends_ok (l : line) (p : point) : Prop :=
  (0 <= dot_to l p \/ dot_to l p * dot_to l p <= len2 l) /\
  (dot_to l p <= len2 l \/ (dot_to l p - len2 l) * (dot_to l p - len2 l) <= len2 l).
(* p projects to within one pixel of the midpoint of the segment *)
Definition mid_ok (l : line) (p : point) : Prop :=
  (2 * dot_to l p - len2 l) * (2 * dot_to l p - len2 l) <= 4 * len2 l.
(* at the middle the stroke extends over at least w - 2 pixel distances across the line, i.e. it is at least
   w - 1 pixels wide; for a zero-length line (drawn as a vertical stack): over w - 2 rows *)
Definition middle_ok (l : line) (w : Z) (ps : list point) : Prop :=
  exists p q, In p ps /\ In q ps /\ mid_ok l p /\ mid_ok l q /\
    (w - 2) * (w - 2) * len2 l <= (cross_to l p - cross_to l q) * (cross_to l p - cross_to l q) /\
    (len2 l = 0 -> w - 2 <= py p - py q).

Definition thick_ok (l : line) (w : Z) : Prop :=
  exists ps, thick_points l w = Some ps /\ NoDup ps /\
    (forall p, In p ps -> dist_ok l w p /\ ends_ok l p) /\
    (2 <= w -> middle_ok l w ps).

(* OPEN: forall l w, line_ok l -> 0 <= w -> thick_ok l w   (all lines, all widths).
   Proved only on the finite domain |dx|,|dy| <= 24, w <= 16 (thick_ok_grid, C17_thick_grid_partial).
   What is proved for ALL lines and widths (Proofs/Thickline.v): width 0 / width 1, the stroke starts with the thin
   line, <= 3w+2 parallels (termination), translation equivariance.  A general proof of NoDup needs the phase
   invariant between adjacent parallels (left_error/right_error vs. the perpendicular Bresenham state); a general
   distance bound needs the balance of left and right parallels; neither was attempted. *)

(* ---- the checker ---------------------------------------------------------------- *)
Definition cd_of (sx sy dx dy : Z) (p : point) : Z * Z :=
  ((px p - sx) * dy - (py p - sy) * dx, (px p - sx) * dx + (py p - sy) * dy).
Definition dist_c (n w5 : Z) (cd : Z * Z) : bool := 4 * (fst cd * fst cd) <=? w5 * n.
Definition ends_c (n : Z) (cd : Z * Z) : bool :=
  let dt := snd cd in
  ((0 <=? dt) || (dt * dt <=? n)) && ((dt <=? n) || ((dt - n) * (dt - n) <=? n)).
Definition mid_c (n : Z) (cd : Z * Z) : bool := (2 * snd cd - n) * (2 * snd cd - n) <=? 4 * n.
Definition zmax_list (l : list Z) (a : Z) : Z := fold_left Z.max l a.
Definition zmin_list (l : list Z) (a : Z) : Z := fold_left Z.min l a.
Definition middle_c (n w : Z) (cds : list (Z * Z)) : bool :=
  match map fst (filter (mid_c n) cds) with
  | [] => false
  | c :: cs => let e := zmax_list cs c - zmin_list cs c in (w - 2) * (w - 2) * n <=? e * e
  end.
Definition zero_dist_b (l : line) (w : Z) (p : point) : bool :=
  4 * ((px p - px (l_start l)) * (px p - px (l_start l)) + (py p - py (l_start l)) * (py p - py (l_start l)))
  <=? (w + 5) * (w + 5).
Definition thick_ok_b (l : line) (w : Z) : bool :=
  match thick_points l w with
  | None => false
  | Some ps =>
      let n := len2 l in
      if n =? 0 then
        forallb (zero_dist_b l w) ps &&
        ((w <? 2) || match map py ps with [] => false | y :: ys => w - 2 <=? zmax_list ys y - zmin_list ys y end)
      else
        let cds := map (cd_of (px (l_start l)) (py (l_start l)) (ldx l) (ldy l)) ps in
        let w5 := (w + 5) * (w + 5) in
        forallb (dist_c n w5) cds && forallb (ends_c n) cds && ((w <? 2) || middle_c n w cds)
  end.

(* ---- soundness -------------------------------------------------------------------- *)
Lemma zmax_list_in l : forall a, In (zmax_list l a) (a :: l).
Proof.
  unfold zmax_list. induction l as [|x l IH]; intros a; cbn [fold_left]; [left; reflexivity|].
  destruct (IH (Z.max a x)) as [E|E].
  - rewrite <- E. destruct (Z.max_spec a x) as [[_ ->]|[_ ->]]; [right; left|left]; reflexivity.
  - right; right; exact E.
Qed.
Lemma zmin_list_in l : forall a, In (zmin_list l a) (a :: l).
Proof.
  unfold zmin_list. induction l as [|x l IH]; intros a; cbn [fold_left]; [left; reflexivity|].
  destruct (IH (Z.min a x)) as [E|E].
  - rewrite <- E. destruct (Z.min_spec a x) as [[_ ->]|[_ ->]]; [left|right; left]; reflexivity.
  - right; right; exact E.
Qed.

Lemma cd_of_line l p :
  cd_of (px (l_start l)) (py (l_start l)) (ldx l) (ldy l) p = (cross_to l p, dot_to l p).
Proof. reflexivity. Qed.

Lemma len2_zero l : len2 l = 0 -> ldx l = 0 /\ ldy l = 0.
Proof. unfold len2. nia. Qed.

Lemma thick_ok_b_sound l w : thick_ok_b l w = true -> thick_ok l w.
Proof.
  unfold thick_ok_b, thick_ok. destruct (thick_points l w) as [ps|] eqn:E0; [|discriminate].
  cbv zeta. intros H.
  exists ps. split; [reflexivity|]. split; [apply (thick_points_NoDup l w); exact E0|].
  destruct (len2 l =? 0) eqn:Z0.
  - (* zero length *)
    assert (Z1 : len2 l = 0) by lia. destruct (len2_zero l Z1) as [X0 Y0].
    apply andb_prop in H. destruct H as [HD HM]. rewrite forallb_forall in HD.
    assert (C0 : forall p, cross_to l p = 0) by (intros; unfold cross_to; rewrite X0, Y0; lia).
    assert (D0 : forall p, dot_to l p = 0) by (intros; unfold dot_to; rewrite X0, Y0; lia).
    split.
    + intros p Hp. specialize (HD p Hp). unfold zero_dist_b in HD.
      unfold dist_ok, ends_ok. rewrite C0, D0, Z1. repeat split; try lia.
    + intros Hw. assert (W : w <? 2 = false) by lia. rewrite W in HM. cbn [orb] in HM.
      destruct (map py ps) as [|y ys] eqn:E; [discriminate|].
      pose proof (zmax_list_in ys y) as I1. pose proof (zmin_list_in ys y) as I2.
      rewrite <- E in I1, I2. apply in_map_iff in I1, I2.
      destruct I1 as (p & P1 & P2). destruct I2 as (q & Q1 & Q2).
      exists p, q. unfold mid_ok. rewrite !C0, !D0, Z1. repeat split; try assumption; try lia.
  - assert (Z1 : len2 l <> 0) by lia.
    apply andb_prop in H. destruct H as [H HM]. apply andb_prop in H. destruct H as [HD HE].
    rewrite forallb_forall in HD, HE.
    split.
    + intros p Hp.
      assert (I : In (cross_to l p, dot_to l p) (map (cd_of (px (l_start l)) (py (l_start l)) (ldx l) (ldy l)) ps)).
      { rewrite <- cd_of_line. apply in_map. exact Hp. }
      specialize (HD _ I). specialize (HE _ I). unfold dist_c, ends_c in HD, HE. cbn [fst snd] in HD, HE.
      unfold dist_ok, ends_ok. repeat split; try lia.
    + intros Hw. assert (W : w <? 2 = false) by lia. rewrite W in HM. cbn [orb] in HM.
      unfold middle_c in HM.
      destruct (map fst (filter (mid_c (len2 l)) (map (cd_of (px (l_start l)) (py (l_start l)) (ldx l) (ldy l)) ps)))
        as [|c cs] eqn:E; [discriminate|].
      pose proof (zmax_list_in cs c) as I1. pose proof (zmin_list_in cs c) as I2.
      rewrite <- E in I1, I2. apply in_map_iff in I1, I2.
      destruct I1 as (cp & P1 & P2). destruct I2 as (cq & Q1 & Q2).
      apply filter_In in P2, Q2. destruct P2 as [P2 P3]. destruct Q2 as [Q2 Q3].
      apply in_map_iff in P2, Q2. destruct P2 as (p & P4 & P5). destruct Q2 as (q & Q4 & Q5).
      rewrite cd_of_line in P4, Q4. subst cp cq. cbn [fst] in P1, Q1.
      unfold mid_c in P3, Q3. cbn [snd] in P3, Q3. cbv zeta in HM. rewrite <- P1, <- Q1 in HM.
      exists p, q. unfold mid_ok. repeat split; try assumption; try lia.
Qed.

(* ---- invariance under translation ---------------------------------------------------- *)
Lemma ldx_translate l d : ldx (translate_line l d) = ldx l.
Proof. unfold ldx, translate_line, padd; cbn [l_start l_end px py]. lia. Qed.
Lemma ldy_translate l d : ldy (translate_line l d) = ldy l.
Proof. unfold ldy, translate_line, padd; cbn [l_start l_end px py]. lia. Qed.
Lemma cross_translate l d p : cross_to (translate_line l d) (padd p d) = cross_to l p.
Proof.
  unfold cross_to. rewrite ldx_translate, ldy_translate.
  unfold translate_line, padd; cbn [l_start l_end px py]. f_equal; f_equal; lia.
Qed.
Lemma dot_translate l d p : dot_to (translate_line l d) (padd p d) = dot_to l p.
Proof.
  unfold dot_to. rewrite ldx_translate, ldy_translate.
  unfold translate_line, padd; cbn [l_start l_end px py]. f_equal; f_equal; lia.
Qed.
Lemma len2_translate l d : len2 (translate_line l d) = len2 l.
Proof. unfold len2. rewrite ldx_translate, ldy_translate. reflexivity. Qed.

Lemma padd_inj d : Injective (fun p => padd p d).
Proof.
  intros [a b] [a' b'] H. unfold padd in H; cbn [px py] in H. injection H as H1 H2. f_equal; lia.
Qed.

Lemma thick_ok_translate l d w : thick_ok l w -> thick_ok (translate_line l d) w.
Proof.
  intros (ps & E & ND & HP & HM). exists (shift d ps).
  split; [rewrite thick_points_translate, E; reflexivity|].
  split; [apply Injective_map_NoDup; [apply padd_inj | exact ND]|].
  split.
  - intros p' Hp'. unfold shift in Hp'. apply in_map_iff in Hp'. destruct Hp' as (p & <- & Hp).
    destruct (HP p Hp) as [[D1 D2] [E1 E2]].
    unfold dist_ok, ends_ok. rewrite cross_translate, dot_translate, len2_translate.
    repeat split; try assumption.
    intros Z. specialize (D2 Z). unfold translate_line, padd; cbn [l_start px py].
    replace (px p + px d - (px (l_start l) + px d)) with (px p - px (l_start l)) by lia.
    replace (py p + py d - (py (l_start l) + py d)) with (py p - py (l_start l)) by lia. exact D2.
  - intros Hw. destruct (HM Hw) as (p & q & P1 & Q1 & P2 & Q2 & W1 & W2).
    exists (padd p d), (padd q d). unfold mid_ok in *.
    rewrite !cross_translate, !dot_translate, len2_translate.
    repeat split; try assumption; try (unfold shift; apply (in_map (fun r => padd r d)); assumption).
    intros Z. specialize (W2 Z). unfold padd; cbn [py]. lia.
Qed.

(* every line is the translate of the line from the origin with the same delta *)
Lemma line_as_translate l : l = translate_line (L (P 0 0) (P (ldx l) (ldy l))) (l_start l).
Proof.
  destruct l as [[sx sy] [ex ey]]. unfold translate_line, padd, ldx, ldy; cbn [l_start l_end px py].
  f_equal; f_equal; lia.
Qed.

(* a sweep over a block of deltas and widths *)
Definition grid_b (x0 x1 y0 y1 W : Z) : bool :=
  forallb (fun dx => forallb (fun dy => forallb (fun w => thick_ok_b (L (P 0 0) (P dx dy)) w) (range 0 (W + 1)))
                             (range y0 y1)) (range x0 x1).

Lemma grid_b_sound x0 x1 y0 y1 W : grid_b x0 x1 y0 y1 W = true ->
  forall l w, x0 <= ldx l < x1 -> y0 <= ldy l < y1 -> 0 <= w <= W -> thick_ok l w.
Proof.
  intros H l w Hx Hy Hw. unfold grid_b in H.
  rewrite forallb_forall in H. specialize (H (ldx l) ltac:(apply In_range; lia)).
  rewrite forallb_forall in H. specialize (H (ldy l) ltac:(apply In_range; lia)).
  rewrite forallb_forall in H. specialize (H w ltac:(apply In_range; lia)).
  rewrite (line_as_translate l). apply thick_ok_translate, thick_ok_b_sound, H.
Qed.

(* ---- invariance under rotation by 90 degrees (generic lines) ---------------------------------- *)
Lemma ldx_rot l : ldx (rot_line l) = - ldy l.
Proof. unfold ldx, ldy, rot_line, rot. cbn [l_start l_end px py]. lia. Qed.
Lemma ldy_rot l : ldy (rot_line l) = ldx l.
Proof. unfold ldx, ldy, rot_line, rot. cbn [l_start l_end px py]. lia. Qed.
Lemma cross_rot l p : cross_to (rot_line l) (rot p) = cross_to l p.
Proof. unfold cross_to. rewrite ldx_rot, ldy_rot. unfold rot_line, rot. cbn [l_start l_end px py]. ring. Qed.
Lemma dot_rot l p : dot_to (rot_line l) (rot p) = dot_to l p.
Proof. unfold dot_to. rewrite ldx_rot, ldy_rot. unfold rot_line, rot. cbn [l_start l_end px py]. ring. Qed.
Lemma len2_rot l : len2 (rot_line l) = len2 l.
Proof. unfold len2. rewrite ldx_rot, ldy_rot. ring. Qed.

Lemma rot_inj : Injective rot.
Proof. intros [a b] [a' b'] H. unfold rot in H. cbn [px py] in H. injection H as H1 H2. f_equal; lia. Qed.

Lemma generic_len2 l : generic l -> len2 l <> 0.
Proof. unfold generic, len2. nia. Qed.

Lemma thick_ok_rot l w : generic l -> thick_ok l w -> thick_ok (rot_line l) w.
Proof.
  intros G (ps & E & ND & HP & HM). exists (map rot ps).
  pose proof (generic_len2 l G) as NZ.
  split; [rewrite (thick_points_rot l w G), E; reflexivity|].
  split; [apply Injective_map_NoDup; [apply rot_inj | exact ND]|].
  split.
  - intros p' Hp'. apply in_map_iff in Hp'. destruct Hp' as (p & <- & Hp).
    destruct (HP p Hp) as [[D1 D2] [E1 E2]].
    unfold dist_ok, ends_ok. rewrite cross_rot, dot_rot, len2_rot.
    repeat split; try assumption. intros Z. contradiction.
  - intros Hw. destruct (HM Hw) as (p & q & P1 & Q1 & P2 & Q2 & W1 & W2).
    exists (rot p), (rot q). unfold mid_ok in *.
    rewrite !cross_rot, !dot_rot, len2_rot.
    repeat split; try assumption; try (apply in_map; assumption).
    intros Z. contradiction.
Qed.

(* ---- sweeps over one quadrant + the axis-parallel and diagonal lines ----------------------------- *)
Definition diag_b (R W : Z) : bool :=
  forallb (fun k => forallb (fun w => thick_ok_b (L (P 0 0) (P k k)) w && thick_ok_b (L (P 0 0) (P k (- k))) w)
                            (range 0 (W + 1))) (range (- R) (R + 1)).

Lemma origin_line_ok dx dy w l : thick_ok (L (P 0 0) (P dx dy)) w -> ldx l = dx -> ldy l = dy -> thick_ok l w.
Proof.
  intros H <- <-. rewrite (line_as_translate l). apply thick_ok_translate, H.
Qed.

Lemma rot_origin a b : rot_line (L (P 0 0) (P a b)) = L (P 0 0) (P (- b) a).
Proof. reflexivity. Qed.

Lemma generic_origin a b : a <> 0 -> b <> 0 -> Z.abs a <> Z.abs b -> generic (L (P 0 0) (P a b)).
Proof. unfold generic, ldx, ldy. cbn [l_start l_end px py]. lia. Qed.

Theorem thick_ok_sym R W :
  grid_b 1 (R + 1) 1 (R + 1) W = true ->          (* first quadrant *)
  grid_b 0 1 (- R) (R + 1) W = true ->            (* vertical lines (and zero length) *)
  grid_b (- R) (R + 1) 0 1 W = true ->            (* horizontal lines *)
  diag_b R W = true ->                            (* diagonals *)
  forall l w, - R <= ldx l <= R -> - R <= ldy l <= R -> 0 <= w <= W -> thick_ok l w.
Proof.
  intros Q1 AX1 AX2 DG l w Hx Hy Hw.
  destruct (Z.eq_dec (ldx l) 0) as [X0|X0]; [apply (grid_b_sound _ _ _ _ _ AX1); lia|].
  destruct (Z.eq_dec (ldy l) 0) as [Y0|Y0]; [apply (grid_b_sound _ _ _ _ _ AX2); lia|].
  destruct (Z.eq_dec (Z.abs (ldx l)) (Z.abs (ldy l))) as [DD|DD].
  - (* diagonal *)
    unfold diag_b in DG. rewrite forallb_forall in DG. specialize (DG (ldx l) ltac:(apply In_range; lia)).
    rewrite forallb_forall in DG. specialize (DG w ltac:(apply In_range; lia)).
    apply andb_prop in DG. destruct DG as [D1 D2].
    destruct (Z.eq_dec (ldy l) (ldx l)) as [E|E].
    + apply (origin_line_ok (ldx l) (ldx l)); [apply thick_ok_b_sound, D1 | reflexivity | exact E].
    + apply (origin_line_ok (ldx l) (- ldx l)); [apply thick_ok_b_sound, D2 | reflexivity | lia].
  - (* generic: rotate a first-quadrant line *)
    assert (QQ : forall a b, 1 <= a <= R -> 1 <= b <= R -> thick_ok (L (P 0 0) (P a b)) w).
    { intros a b Ha Hb. apply (grid_b_sound _ _ _ _ _ Q1); unfold ldx, ldy; cbn [l_start l_end px py]; lia. }
    destruct (Z_lt_ge_dec 0 (ldx l)) as [XP|XN]; destruct (Z_lt_ge_dec 0 (ldy l)) as [YP|YN].
    + apply (origin_line_ok (ldx l) (ldy l)); [apply QQ; lia | reflexivity | reflexivity].
    + (* dx > 0, dy < 0: three quarter turns of (-dy, dx) *)
      apply (origin_line_ok (ldx l) (ldy l)); [| reflexivity | reflexivity].
      replace (L (P 0 0) (P (ldx l) (ldy l)))
        with (rot_line (rot_line (rot_line (L (P 0 0) (P (- ldy l) (ldx l))))))
        by (rewrite !rot_origin; f_equal; f_equal; lia).
      apply thick_ok_rot; [rewrite !rot_origin; apply generic_origin; lia|].
      apply thick_ok_rot; [rewrite !rot_origin; apply generic_origin; lia|].
      apply thick_ok_rot; [apply generic_origin; lia|]. apply QQ; lia.
    + (* dx < 0, dy > 0: one quarter turn of (dy, -dx) *)
      apply (origin_line_ok (ldx l) (ldy l)); [| reflexivity | reflexivity].
      replace (L (P 0 0) (P (ldx l) (ldy l))) with (rot_line (L (P 0 0) (P (ldy l) (- ldx l))))
        by (rewrite !rot_origin; f_equal; f_equal; lia).
      apply thick_ok_rot; [apply generic_origin; lia|]. apply QQ; lia.
    + (* dx < 0, dy < 0: half turn of (-dx, -dy) *)
      apply (origin_line_ok (ldx l) (ldy l)); [| reflexivity | reflexivity].
      replace (L (P 0 0) (P (ldx l) (ldy l))) with (rot_line (rot_line (L (P 0 0) (P (- ldx l) (- ldy l)))))
        by (rewrite !rot_origin; f_equal; f_equal; lia).
      apply thick_ok_rot; [rewrite !rot_origin; apply generic_origin; lia|].
      apply thick_ok_rot; [apply generic_origin; lia|]. apply QQ; lia.
Qed.

(* the property's distance bound w/2 + 2.5 fails on the model (and on the implementation) from width 34 on *)
Lemma thick_distance_refuted : exists l w ps p,
  (34 <=? w) = true /\ thick_points l w = Some ps /\ In p ps /\ ~ dist_ok l w p.
Proof.
  exists (L (P 0 0) (P 24 11)), 34.
  assert (H : match thick_points (L (P 0 0) (P 24 11)) 34 with
              | Some ps => existsb (point_eqb (P 12 (-16))) ps | None => false end = true)
    by (vm_compute; reflexivity).
  destruct (thick_points (L (P 0 0) (P 24 11)) 34) as [ps|]; [|discriminate H].
  exists ps, (P 12 (-16)). split; [reflexivity|]. split; [reflexivity|]. split.
  - apply existsb_exists in H. destruct H as ([qx qy] & Hq & Eq). unfold point_eqb in Eq. cbn [px py] in Eq.
    assert (qx = 12 /\ qy = -16) as [-> ->] by lia. exact Hq.
  - intros [Hd _]. vm_compute in Hd. apply Hd. reflexivity.
Qed.

Lemma grid_b_app x0 xm x1 y0 y1 W : x0 <= xm <= x1 ->
  grid_b x0 xm y0 y1 W = true -> grid_b xm x1 y0 y1 W = true -> grid_b x0 x1 y0 y1 W = true.
Proof.
  intros H A B. unfold grid_b in *. rewrite (range_app x0 xm x1 H), forallb_app, A, B. reflexivity.
Qed.
