(* A stroked line reaches at most one pixel (in fact half a major step) beyond the two ends of the segment, measured
   along the line: for ALL lines and widths.
   dot p = (p - start).(end - start).  The perpendicular Bresenham walk keeps 2*dot(p_side) = rho * e_side (its own
   error variable), so a Normal parallel starts with |2 dot| <= D and an Extra parallel (one pixel shorter) with
   D <= 2 dot <= D + 2d; along a parallel dot grows by D per major and d per minor step. *)
From EG Require Import Base.Prelude Base.Lemmas Model.Geometry Model.Style Model.Line Model.Thickline
                       Proofs.Geometry Proofs.Line Proofs.Thickline Proofs.ThicklineNoDup Proofs.ThicklineCheck.
From Coq Require Import ZifyBool.

Ltac Zify.zify_post_hook ::= Z.to_euclidean_division_equations.
Set Default Timeout 60.

Definition Dt0l (l : line) (q : point) : Z := px q * ldx l + py q * ldy l.

Lemma dot_add l p q : dot_to l (padd p q) = dot_to l p + Dt0l l q.
Proof. unfold dot_to, Dt0l, padd; cbn [px py]. ring. Qed.
Lemma dot_sub l p q : dot_to l (psub p q) = dot_to l p - Dt0l l q.
Proof. unfold dot_to, Dt0l, psub; cbn [px py]. ring. Qed.

Lemma dot_fpt l p0 k m :
  dot_to l (fpt p0 (lsmaj l) (lsmin l) k m) = dot_to l p0 + k * ldmaj l + m * ldmin l.
Proof.
  destruct l as [[sx sy] [ex ey]]. destruct p0 as [x0 y0]. unfold dot_to. unfl.
  set (dx := ex - sx). set (dy := ey - sy).
  destruct (Z.abs dx <=? Z.abs dy) eqn:T; destruct (0 <=? dx) eqn:X; destruct (0 <=? dy) eqn:Y; cbn [px py].
  all: try (rewrite Z.max_r, Z.min_l by lia); try (rewrite Z.max_l, Z.min_r by lia).
  all: try (rewrite (Z.abs_eq dx) by lia); try (rewrite (Z.abs_neq dx) by lia).
  all: try (rewrite (Z.abs_eq dy) by lia); try (rewrite (Z.abs_neq dy) by lia).
  all: ring.
Qed.

(* along one parallel *)
Lemma bresenham_run_dot l p0 e0 n p :
  1 <= ldmaj l -> - ldmaj l < e0 <= ldmaj l -> Z.of_nat n <= ldmaj l + 1 ->
  In p (bresenham_run (bparams_new l) (BS p0 e0) n) ->
  exists k m, dot_to l p = dot_to l p0 + k * ldmaj l + m * ldmin l /\
              0 <= k < Z.of_nat n /\ 0 <= m <= ldmin l.
Proof.
  intros HD He Hn H. rewrite bparams_new_frame in H.
  rewrite <- (fpt_0 p0 (lsmaj l) (lsmin l)) in H at 1. rewrite bresenham_run_frame in H.
  apply in_map_iff in H. destruct H as ([k m] & <- & H). cbn [fst snd].
  pose proof (ldm_ok l) as Hd.
  apply srun_band in H; [| assumption | assumption | lia].
  exists k, m. split; [apply dot_fpt|]. split; [lia|].
  set (D := ldmaj l) in *. set (d := ldmin l) in *. destruct H as [[B1 B2] B3].
  assert (d * k <= d * D) by nia.
  split; nia.
Qed.

(* ======================================================================== *)
Section Ends.
Variables (D d thr0 : Z) (A B A' B' : point) (fl : bool) (Dt Dt0 : point -> Z) (rho : Z).
Hypothesis HD : 1 <= D.
Hypothesis Hd : 0 <= d <= D.
Hypothesis Dadd : forall p q, Dt (padd p q) = Dt p + Dt0 q.
Hypothesis Dsub : forall p q, Dt (psub p q) = Dt p - Dt0 q.
Let mir := mirror_extra_points (BP D (2 * d) (2 * D) A' B').
Hypothesis Hrho : rho = if mir then -1 else 1.
Hypothesis HA' : Dt0 A' = rho * d.
Hypothesis HB' : Dt0 B' = - rho * D.

Ltac dred := repeat (rewrite Dadd || rewrite Dsub); rewrite ?HA', ?HB'.
Ltac ends_done := do 5 eexists; (split; [reflexivity|]); cbn [bp_pt_ is_normal]; dred; repeat split; nia.

Lemma next_parallel_left_dot acc thr pl el le pr er re ns po f :
  - D < el <= D + 2 * d -> - D < le <= D -> 2 * Dt pl = rho * el ->
  exists q e pl' el' le',
    next_parallel (Datatypes.S (Datatypes.S f)) (mkst D d A B A' B' acc thr fl pl el le pr er re ns po) SLeft
    = Some (q, e, mkst D d A B A' B' acc thr fl pl' el' le' pr er re ns po) /\
    - D < el' <= D + 2 * d /\ - D < le' <= D /\ - D < e <= D /\ 2 * Dt pl' = rho * el' /\
    (if is_normal q then - D <= 2 * Dt (bp_pt_ q) <= D else D <= 2 * Dt (bp_pt_ q) <= D + 2 * d).
Proof.
  intros He Hle Hinv. np_unfold. fold mir. 
  destruct (D <? el) eqn:T.
  - destruct mir; subst rho; destruct fl.
    + destruct (le - 2 * d <=? - D) eqn:U; [ends_done|].
      assert (V : D <? el - 2 * D = false) by lia. cbn [b_point b_error]. rewrite V. ends_done.
    + destruct (D <? le + 2 * d) eqn:U; [ends_done|].
      assert (V : D <? el - 2 * D = false) by lia. cbn [b_point b_error]. rewrite V. ends_done.
    + destruct (le - 2 * d <=? - D) eqn:U; [ends_done|].
      assert (V : D <? el - 2 * D = false) by lia. cbn [b_point b_error]. rewrite V. ends_done.
    + destruct (D <? le + 2 * d) eqn:U; [ends_done|].
      assert (V : D <? el - 2 * D = false) by lia. cbn [b_point b_error]. rewrite V. ends_done.
  - destruct mir; subst rho; ends_done.
Qed.

Lemma next_parallel_right_dot acc thr pl el le pr er re ns po f :
  - D - 2 * d < er <= D -> - D < re <= D -> 2 * Dt pr = rho * er ->
  exists q e pr' er' re',
    next_parallel (Datatypes.S (Datatypes.S f)) (mkst D d A B A' B' acc thr fl pl el le pr er re ns po) SRight
    = Some (q, e, mkst D d A B A' B' acc thr fl pl el le pr' er' re' ns po) /\
    - D - 2 * d < er' <= D /\ - D < re' <= D /\ - D < e <= D /\ 2 * Dt pr' = rho * er' /\
    (if is_normal q then - D <= 2 * Dt (bp_pt_ q) <= D else D <= 2 * Dt (bp_pt_ q) <= D + 2 * d).
Proof.
  intros He Hre Hinv. np_unfold. fold mir.
  destruct (er <=? - D) eqn:T.
  - destruct mir; subst rho; destruct fl; cbn [negb].
    + destruct (D <? re + 2 * d) eqn:U; [ends_done|].
      assert (V : er + 2 * D <=? - D = false) by lia. cbn [b_point b_error]. rewrite V. ends_done.
    + destruct (re - 2 * d <=? - D) eqn:U; [ends_done|].
      assert (V : er + 2 * D <=? - D = false) by lia. cbn [b_point b_error]. rewrite V. ends_done.
    + destruct (D <? re + 2 * d) eqn:U; [ends_done|].
      assert (V : er + 2 * D <=? - D = false) by lia. cbn [b_point b_error]. rewrite V. ends_done.
    + destruct (re - 2 * d <=? - D) eqn:U; [ends_done|].
      assert (V : er + 2 * D <=? - D = false) by lia. cbn [b_point b_error]. rewrite V. ends_done.
  - destruct mir; subst rho; ends_done.
Qed.

(* what ThickPoints needs to know about a parallel *)
Definition par_dot_ok (bt : bstate * ltype) : Prop :=
  - D < b_error (fst bt) <= D /\
  match snd bt with
  | LNormal => - D <= 2 * Dt (b_point (fst bt)) <= D
  | LExtra => D <= 2 * Dt (b_point (fst bt)) <= D + 2 * d
  end.

Lemma parallels_next_dot acc thr pl el le pr er re ns po :
  - D < el <= D + 2 * d -> - D < le <= D -> - D - 2 * d < er <= D -> - D < re <= D ->
  2 * Dt pl = rho * el -> 2 * Dt pr = rho * er ->
  parallels_next (mkst D d A B A' B' acc thr fl pl el le pr er re ns po) = Done \/
  exists bt acc' pl' el' le' pr' er' re' ns',
    parallels_next (mkst D d A B A' B' acc thr fl pl el le pr er re ns po)
    = Yield bt (mkst D d A B A' B' acc' thr fl pl' el' le' pr' er' re' ns' po) /\
    - D < el' <= D + 2 * d /\ - D < le' <= D /\ - D - 2 * d < er' <= D /\ - D < re' <= D /\
    2 * Dt pl' = rho * el' /\ 2 * Dt pr' = rho * er' /\ par_dot_ok bt.
Proof.
  intros Sel Sle Ser Sre IL IR. unfold parallels_next.
  change (thick_thr (mkst D d A B A' B' acc thr fl pl el le pr er re ns po)) with thr.
  change (thick_acc (mkst D d A B A' B' acc thr fl pl el le pr er re ns po)) with acc.
  change (next_side (mkst D d A B A' B' acc thr fl pl el le pr er re ns po)) with ns.
  destruct (thr <? acc * acc); [left; reflexivity|right].
  unfold np_fuel. destruct ns.
  - destruct (next_parallel_left_dot acc thr pl el le pr er re SLeft po 2 Sel Sle IL)
      as (q & e & pl' & el' & le' & E & I1 & I2 & I3 & I4 & C).
    rewrite E. destruct q as [q|q]; cbn [bp_pt_ is_normal] in C; unfold mkst;
      unfold set_acc_side;
      cbn [thick_acc perp_params par_params error_step_minor error_step_major p_offset next_side
           thick_thr flip p_left p_right left_error right_error];
      do 9 eexists; (split; [reflexivity|]); unfold par_dot_ok; cbn [fst snd b_error b_point];
      repeat split; lia.
  - destruct (next_parallel_right_dot acc thr pl el le pr er re SRight po 2 Ser Sre IR)
      as (q & e & pr' & er' & re' & E & I1 & I2 & I3 & I4 & C).
    rewrite E. destruct q as [q|q]; cbn [bp_pt_ is_normal] in C; unfold mkst;
      unfold set_acc_side;
      cbn [thick_acc perp_params par_params error_step_minor error_step_major p_offset next_side
           thick_thr flip p_left p_right left_error right_error];
      do 9 eexists; (split; [reflexivity|]); unfold par_dot_ok; cbn [fst snd b_error b_point];
      repeat split; lia.
Qed.

Lemma parallels_run_dot fuel : forall acc pl el le pr er re ns po ps,
  - D < el <= D + 2 * d -> - D < le <= D -> - D - 2 * d < er <= D -> - D < re <= D ->
  2 * Dt pl = rho * el -> 2 * Dt pr = rho * er ->
  parallels_run fuel (mkst D d A B A' B' acc thr0 fl pl el le pr er re ns po) = Some ps ->
  Forall par_dot_ok ps.
Proof.
  induction fuel as [|f IH]; intros acc pl el le pr er re ns po ps Sel Sle Ser Sre IL IR H; [discriminate|].
  rewrite parallels_run_S in H.
  destruct (parallels_next_dot acc thr0 pl el le pr er re ns po Sel Sle Ser Sre IL IR)
    as [E|(bt & acc' & pl' & el' & le' & pr' & er' & re' & ns' & E & I1 & I2 & I3 & I4 & I5 & I6 & C)]; rewrite E in H.
  - injection H as <-. constructor.
  - destruct (parallels_run f _) as [t|] eqn:E2; [|discriminate]. injection H as <-.
    constructor; [exact C|]. exact (IH _ _ _ _ _ _ _ _ _ _ I1 I2 I3 I4 I5 I6 E2).
Qed.
End Ends.

(* ======================================================================== *)
Definition oct_dot_ok (l : line) : Prop :=
  let D := ldmaj l in let d := ldmin l in
  let A' := lsmaj (perpendicular l) in let B' := lsmin (perpendicular l) in
  let mir := mirror_extra_points (BP D (2 * d) (2 * D) A' B') in
  let rho := if mir then -1 else 1 in
  Dt0l l A' = rho * d /\ Dt0l l B' = - rho * D.

Lemma oct_dot_facts l : oct_dot_ok l.
Proof.
  destruct l as [[sx sy] [ex ey]]. unfold oct_dot_ok, Dt0l, perpendicular, mirror_extra_points.
  unfl. cbn [pos_step_major pos_step_minor].
  set (dx := ex - sx). set (dy := ey - sy).
  replace (sx + dy - sx) with dy by lia. replace (sy + - dx - sy) with (- dx) by lia.
  destruct (Z.abs dx <=? Z.abs dy) eqn:T; destruct (0 <=? dx) eqn:X; destruct (0 <=? dy) eqn:Y;
  destruct (Z.abs dy <=? Z.abs (- dx)) eqn:T'; destruct (0 <=? - dx) eqn:X';
    cbn [px py negb Z.eqb Z.opp andb Pos.eqb]; lia.
Qed.

Lemma eff_line_nondeg l : 1 <= ldmaj l -> eff_line l = l.
Proof.
  intros HD. unfold eff_line, point_eqb.
  destruct ((px (l_start l) =? px (l_end l)) && (py (l_start l) =? py (l_end l))) eqn:T; [|reflexivity].
  exfalso. unfl. lia.
Qed.

Lemma parallels_dot l w pars : 1 <= ldmaj l -> parallels l w SONone = Some pars ->
  Forall (par_dot_ok (ldmaj l) (ldmin l) (dot_to l)) pars.
Proof.
  intros HD. unfold parallels. rewrite parallels_new_frame. unfold st_of. rewrite (eff_line_nondeg l HD).
  pose proof (ldm_ok l) as Hd.
  destruct (oct_dot_facts l) as [FA FB]. cbv zeta in FA, FB.
  set (D := ldmaj l) in *. set (d := ldmin l) in *.
  set (rho := if mirror_extra_points (BP D (2 * d) (2 * D) (lsmaj (perpendicular l)) (lsmin (perpendicular l))) then -1 else 1) in *.
  intros E2.
  eapply (parallels_run_dot D d (thr_of l w) (lsmaj l) (lsmin l) (lsmaj (perpendicular l)) (lsmin (perpendicular l))
            (flip_of l) (dot_to l) (Dt0l l) rho HD Hd (dot_add l) (dot_sub l) eq_refl FA FB) in E2;
    [exact E2 | lia | lia | lia | lia | |].
  - rewrite dot_add, FA. unfold dot_to. lia.
  - unfold dot_to. lia.
Qed.

(* every pixel of a stroked line projects onto the line within half a major step of the segment *)
Theorem thick_points_ends l w ps p :
  thick_points l w = Some ps -> In p ps ->
  - ldmaj l <= 2 * dot_to l p /\ 2 * (dot_to l p - (ldx l * ldx l + ldy l * ldy l)) <= ldmaj l.
Proof.
  intros E Hp. pose proof (ldm_ok l) as Hd.
  destruct (Z_le_gt_dec (ldmaj l) 0) as [Z0|HD].
  { assert (ldx l = 0 /\ ldy l = 0) as [X0 Y0] by (unfl; lia).
    unfold dot_to. rewrite X0, Y0. lia. }
  rewrite thick_points_eq in E.
  destruct (parallels l w SONone) as [pars|] eqn:E2; cbn [option_map] in E; [|discriminate E].
  injection E as <-.
  pose proof (parallels_dot l w pars ltac:(lia) E2) as F.
  unfold par_points in Hp. apply in_flat_map in Hp. destruct Hp as ([[p0 e0] t] & Hbt & Hp). cbn [fst snd] in Hp.
  rewrite Forall_forall in F. destruct (F _ Hbt) as [R C]. cbn [fst snd b_error b_point] in R, C.
  rewrite (eff_line_nondeg l ltac:(lia)) in Hp. pose proof (major_length_frame l) as ML.
  rewrite delta_sq.
  set (D := ldmaj l) in *. set (d := ldmin l) in *.
  destruct t.
  - apply bresenham_run_dot in Hp; [| lia | exact R | lia].
    destruct Hp as (k & m & -> & Hk & Hm). fold D d in Hm |- *.
    assert (k * D <= D * D) by nia. assert (m * d <= d * d) by nia. assert (0 <= k * D) by nia. assert (0 <= m * d) by nia.
    lia.
  - apply bresenham_run_dot in Hp; [| lia | exact R | lia].
    destruct Hp as (k & m & -> & Hk & Hm). fold D d in Hm |- *.
    assert (k * D <= (D - 1) * D) by nia. assert (m * d <= d * d) by nia. assert (0 <= k * D) by nia. assert (0 <= m * d) by nia.
    lia.
Qed.

(* ... in the form of the property: at most one pixel beyond either end *)
Corollary thick_points_ends_ok l w ps p : thick_points l w = Some ps -> In p ps -> ends_ok l p.
Proof.
  intros E Hp. destruct (thick_points_ends l w ps p E Hp) as [H1 H2].
  pose proof (delta_sq l) as S. pose proof (ldm_ok l) as Hd. unfold ends_ok, len2.
  set (t := dot_to l p) in *. set (n := ldx l * ldx l + ldy l * ldy l) in *. set (D := ldmaj l) in *.
  assert (D * D <= n) by nia.
  split.
  - destruct (Z_le_gt_dec 0 t); [left; lia | right; nia].
  - destruct (Z_le_gt_dec t n); [left; lia | right; nia].
Qed.
