(* The thick-line clauses of C17 for every line of the property's quantifier domain: end points in a grid
   [-12,12]^2 (more generally: |dx|, |dy| <= 24, anywhere in the plane) x stroke widths 0..12, by computation
   on the model (four blocks, compiled in parallel) and translation invariance. *)
From EG Require Import Base.Prelude Model.Geometry Model.Line Model.Thickline Proofs.Line Proofs.ThicklineCheck
                       Proofs.ThicklineGridA Proofs.ThicklineGridB Proofs.ThicklineGridC Proofs.ThicklineGridD.
Set Default Timeout 60.

Lemma thick_ok_grid l w : -24 <= ldx l <= 24 -> -24 <= ldy l <= 24 -> 0 <= w <= 12 -> thick_ok l w.
Proof.
  intros Hx Hy Hw.
  destruct (Z_lt_ge_dec (ldx l) (-12)); [apply (grid_b_sound _ _ _ _ _ grid_block_A); lia|].
  destruct (Z_lt_ge_dec (ldx l) 0); [apply (grid_b_sound _ _ _ _ _ grid_block_B); lia|].
  destruct (Z_lt_ge_dec (ldx l) 13); [apply (grid_b_sound _ _ _ _ _ grid_block_C); lia|].
  apply (grid_b_sound _ _ _ _ _ grid_block_D); lia.
Qed.
