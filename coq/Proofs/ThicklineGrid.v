(* The thick-line clauses of C17 (distance <= w/2 + 2.5, <= 1 px beyond the ends, >= w-1 wide at the middle; no
   duplicate pixel is proved in general) for every line whose end points lie in a common grid [-12,12]^2 -- more
   generally |dx|, |dy| <= 24, anywhere in the plane -- x stroke widths 0..16, by computation on the model over ONE
   quadrant of deltas (three blocks, Proofs/ThicklineGrid{A,B,C}.v) plus the axis-parallel and diagonal lines, and
   invariance under translation and under rotation by 90 degrees (Proofs/ThicklineRot.v, thick_ok_sym). *)
From EG Require Import Base.Prelude Model.Geometry Model.Line Model.Thickline Proofs.Line Proofs.ThicklineCheck
                       Proofs.ThicklineGridA Proofs.ThicklineGridB Proofs.ThicklineGridC.
Set Default Timeout 120.

Lemma grid_axis_v : grid_b 0 1 (-24) 25 16 = true.
Proof. vm_compute. reflexivity. Qed.
Lemma grid_axis_h : grid_b (-24) 25 0 1 16 = true.
Proof. vm_compute. reflexivity. Qed.
Lemma grid_diag : diag_b 24 16 = true.
Proof. vm_compute. reflexivity. Qed.

Lemma thick_ok_grid l w : -24 <= ldx l <= 24 -> -24 <= ldy l <= 24 -> 0 <= w <= 16 -> thick_ok l w.
Proof.
  apply (thick_ok_sym 24 16).
  - apply (grid_b_app 1 14 25); [lia | exact grid_block_A |].
    apply (grid_b_app 14 20 25); [lia | exact grid_block_B | exact grid_block_C].
  - exact grid_axis_v.
  - exact grid_axis_h.
  - exact grid_diag.
Qed.
