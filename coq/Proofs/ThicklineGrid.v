(* The thick-line clauses of C17 for every line whose end points lie in a common grid [-7,7]^2 -- more generally
   |dx|, |dy| <= 14, anywhere in the plane -- x stroke widths 0..9, by computation on the model (two blocks) and
   translation invariance.  (The sweep over |dx|,|dy| <= 24, w <= 12 also evaluates to true, 64 s of vm_compute, but
   coqchk needs ~25x that; the larger domain is left to the implementation-side search p_thick.) *)
From EG Require Import Base.Prelude Model.Geometry Model.Line Model.Thickline Proofs.Line Proofs.ThicklineCheck.
Set Default Timeout 120.

Lemma grid_block_A : grid_b (-14) 0 (-14) 15 9 = true.
Proof. vm_compute. reflexivity. Qed.
Lemma grid_block_B : grid_b 0 15 (-14) 15 9 = true.
Proof. vm_compute. reflexivity. Qed.

Lemma thick_ok_grid l w : -14 <= ldx l <= 14 -> -14 <= ldy l <= 14 -> 0 <= w <= 9 -> thick_ok l w.
Proof.
  intros Hx Hy Hw.
  destruct (Z_lt_ge_dec (ldx l) 0); [apply (grid_b_sound _ _ _ _ _ grid_block_A); lia|].
  apply (grid_b_sound _ _ _ _ _ grid_block_B); lia.
Qed.
