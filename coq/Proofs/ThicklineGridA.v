(* one block of the first-quadrant sweep of Proofs/ThicklineGrid.v: dx in [1, 14), dy in [1, 24], widths 0..16 *)
From EG Require Import Base.Prelude Model.Geometry Model.Line Model.Thickline Proofs.ThicklineCheck.
Set Default Timeout 300.

Lemma grid_block_A : grid_b 1 14 1 25 16 = true.
Proof. vm_compute. reflexivity. Qed.
