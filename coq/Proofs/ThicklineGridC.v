(* one block of the first-quadrant sweep of Proofs/ThicklineGrid.v: dx in [20, 25), dy in [1, 24], widths 0..16 *)
From EG Require Import Base.Prelude Model.Geometry Model.Line Model.Thickline Proofs.ThicklineCheck.
Set Default Timeout 300.

Lemma grid_block_C : grid_b 20 25 1 25 16 = true.
Proof. vm_compute. reflexivity. Qed.
