(* one block of the sweep of Proofs/ThicklineGrid.v: deltas dx in [0, 13), dy in [-24, 24], widths 0..12 *)
From EG Require Import Base.Prelude Model.Geometry Model.Line Model.Thickline Proofs.ThicklineCheck.
Set Default Timeout 300.

Lemma grid_block_C : grid_b (0) (13) (-24) 25 12 = true.
Proof. vm_compute. reflexivity. Qed.
