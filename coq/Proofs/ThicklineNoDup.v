(* No pixel twice in a stroked line, for ALL lines and widths.
   K p = 2 * (A x B) * cross(p - start, end - start) measures the position of p across the line in the unit of the
   Bresenham error (one minor step = 2*dmaj).  A Bresenham run from p0 with initial error e0 in (-D, D] stays in the band
   K in (c - D, c + D] with c = K p0 - e0; ParallelsIterator hands out the bands c = K start + j * a, a = +-2D, each
   exactly once (left: j = 1, 2, ...; right: j = 0, -1, ...), so different parallels are disjoint. *)
From EG Require Import Base.Prelude Base.Lemmas Model.Geometry Model.Style Model.Line Model.Thickline
                       Proofs.Geometry Proofs.Line Proofs.Thickline.
From Coq Require Import ZifyBool FinFun.

Ltac Zify.zify_post_hook ::= Z.to_euclidean_division_equations.
Set Default Timeout 60.

(* ======================================================================== *)
(* 1. the band of one Bresenham run                                          *)
(* ======================================================================== *)
Lemma srun_band D d n : forall k m e k' m',
  1 <= D -> 0 <= d <= D -> - D < e <= D + 2 * d ->
  In (k', m') (srun D d k m e n) ->
  - D < e + 2 * d * (k' - k) - 2 * D * (m' - m) <= D /\ k <= k' < k + Z.of_nat n.
Proof.
  induction n as [|n IH]; intros k m e k' m' HD Hd He H; [contradiction|].
  cbn [srun In] in H. destruct H as [H|H].
  - injection H as <- <-. destruct (D <? e) eqn:T; lia.
  - apply IH in H; [| assumption | assumption | destruct (D <? e) eqn:T; lia].
    destruct (D <? e) eqn:T; lia.
Qed.

Lemma srun_NoDup D d n : forall k m e, NoDup (srun D d k m e n).
Proof.
  induction n as [|n IH]; intros k m e; [constructor|]. cbn [srun]. constructor; [|apply IH].
  intros H.
  assert (G : forall n k0 m0 e0 x, In x (srun D d k0 m0 e0 n) -> k0 <= fst x).
  { clear. induction n as [|n IH]; intros k0 m0 e0 x H; [contradiction|]. cbn [srun In] in H.
    destruct H as [<-|H]; [cbn; lia|]. apply IH in H. lia. }
  apply G in H. cbn [fst] in H. lia.
Qed.

Definition sgnl (l : line) : Z := px (lsmaj l) * py (lsmin l) - py (lsmaj l) * px (lsmin l).
Definition Kl (l : line) (p : point) : Z := 2 * sgnl l * cross_to l p.
Definition K0l (l : line) (q : point) : Z := 2 * sgnl l * (px q * ldy l - py q * ldx l).

Lemma Kl_add l p q : Kl l (padd p q) = Kl l p + K0l l q.
Proof. unfold Kl, K0l, cross_to, padd; cbn [px py]. ring. Qed.
Lemma Kl_sub l p q : Kl l (psub p q) = Kl l p - K0l l q.
Proof. unfold Kl, K0l, cross_to, psub; cbn [px py]. ring. Qed.

Lemma Kl_fpt l p0 k m :
  Kl l (fpt p0 (lsmaj l) (lsmin l) k m) = Kl l p0 + 2 * ldmin l * k - 2 * ldmaj l * m.
Proof.
  destruct l as [[sx sy] [ex ey]]. destruct p0 as [x0 y0]. unfold Kl, sgnl, cross_to. unfl.
  set (dx := ex - sx). set (dy := ey - sy).
  destruct (Z.abs dx <=? Z.abs dy) eqn:T; destruct (0 <=? dx) eqn:X; destruct (0 <=? dy) eqn:Y; cbn [px py].
  all: try (rewrite Z.max_r, Z.min_l by lia); try (rewrite Z.max_l, Z.min_r by lia).
  all: try (rewrite (Z.abs_eq dx) by lia); try (rewrite (Z.abs_neq dx) by lia).
  all: try (rewrite (Z.abs_eq dy) by lia); try (rewrite (Z.abs_neq dy) by lia).
  all: ring.
Qed.

(* a run along the line's own parameters *)
Lemma bresenham_run_band l p0 e0 n p :
  1 <= ldmaj l -> - ldmaj l < e0 <= ldmaj l ->
  In p (bresenham_run (bparams_new l) (BS p0 e0) n) ->
  Kl l p0 - e0 - ldmaj l < Kl l p <= Kl l p0 - e0 + ldmaj l.
Proof.
  intros HD He H. rewrite bparams_new_frame in H.
  rewrite <- (fpt_0 p0 (lsmaj l) (lsmin l)) in H at 1. rewrite bresenham_run_frame in H.
  apply in_map_iff in H. destruct H as ([k m] & <- & H). cbn [fst snd].
  pose proof (ldm_ok l) as Hd.
  apply srun_band in H; [| assumption | assumption | lia].
  rewrite Kl_fpt. lia.
Qed.

Lemma fpt_inj s a b k m k' m' :
  px a * py b - py a * px b <> 0 -> fpt s a b k m = fpt s a b k' m' -> k = k' /\ m = m'.
Proof.
  intros Hdet H. unfold fpt in H. injection H as H1 H2.
  assert (E1 : (k - k') * px a + (m - m') * px b = 0) by lia.
  assert (E2 : (k - k') * py a + (m - m') * py b = 0) by lia.
  assert (F1 : (k - k') * (px a * py b - py a * px b) = 0).
  { replace ((k - k') * (px a * py b - py a * px b))
      with (((k - k') * px a + (m - m') * px b) * py b - ((k - k') * py a + (m - m') * py b) * px b) by ring.
    rewrite E1, E2. ring. }
  assert (F2 : (m - m') * (px a * py b - py a * px b) = 0).
  { replace ((m - m') * (px a * py b - py a * px b))
      with (((k - k') * py a + (m - m') * py b) * px a - ((k - k') * px a + (m - m') * px b) * py a) by ring.
    rewrite E1, E2. ring. }
  split; nia.
Qed.

Lemma sgnl_unit l : sgnl l = 1 \/ sgnl l = -1.
Proof.
  unfold sgnl. destruct l as [[sx sy] [ex ey]]. unfl.
  destruct (Z.abs (ex - sx) <=? Z.abs (ey - sy)); destruct (0 <=? ex - sx); destruct (0 <=? ey - sy); cbn [px py]; lia.
Qed.

Lemma bresenham_run_NoDup l p0 e0 n : NoDup (bresenham_run (bparams_new l) (BS p0 e0) n).
Proof.
  rewrite bparams_new_frame. rewrite <- (fpt_0 p0 (lsmaj l) (lsmin l)) at 1. rewrite bresenham_run_frame.
  apply Injective_map_NoDup; [|apply srun_NoDup].
  intros [k m] [k' m'] H. cbn [fst snd] in H. apply fpt_inj in H.
  - destruct H; subst; reflexivity.
  - pose proof (sgnl_unit l) as S. unfold sgnl in S. lia.
Qed.

(* ======================================================================== *)
(* 2. ParallelsIterator hands out each band once                             *)
(* ======================================================================== *)
Definition bp_pt_ (q : bpoint) : point := match q with BNormal p => p | BExtra p => p end.

Section Bands.
Variables (D d thr0 : Z) (A B A' B' : point) (fl : bool) (K K0 : point -> Z).
Hypothesis HD : 1 <= D.
Hypothesis Hd : 0 <= d <= D.
Hypothesis Kadd : forall p q, K (padd p q) = K p + K0 q.
Hypothesis Ksub : forall p q, K (psub p q) = K p - K0 q.
Let a := K0 A'.
Let b := K0 B'.
Let mir := mirror_extra_points (BP D (2 * d) (2 * D) A' B').
(* what the eight octants have in common (oct_facts below) *)
Hypothesis H1 : d = D \/ b = (if fl then - (2 * d) else 2 * d).
Hypothesis H2 : d = 0 \/ b + (if fl then 2 * d - 2 * D else 2 * D - 2 * d) = a.
Hypothesis H3L : d = 0 \/ (if fl then (if mir then b - a else 0) = 0 else 2 * D - 2 * d + (if mir then b - a else 0) = 0).
Hypothesis H3R : d = 0 \/ (if fl then 2 * D - 2 * d + (if mir then 0 else a - b) = 0 else (if mir then 0 else a - b) = 0).

Ltac kred := repeat (rewrite Kadd || rewrite Ksub); fold a b.
Ltac band_done := do 5 eexists; (split; [reflexivity|]); cbn [bp_pt_]; kred; repeat split; lia.


(* one call on the left: the parallel returned has the band c = K pl - le, and the state moves on to c + a *)
Lemma next_parallel_left_band acc thr pl el le pr er re ns po f :
  - D < el <= D + 2 * d -> - D < le <= D ->
  exists q e pl' el' le',
    next_parallel (Datatypes.S (Datatypes.S f)) (mkst D d A B A' B' acc thr fl pl el le pr er re ns po) SLeft
    = Some (q, e, mkst D d A B A' B' acc thr fl pl' el' le' pr er re ns po) /\
    - D < el' <= D + 2 * d /\ - D < le' <= D /\ - D < e <= D /\
    K (bp_pt_ q) - e = K pl - le /\ K pl' - le' = K pl - le + a.
Proof.
  intros He Hle. np_unfold. fold mir.
  destruct (D <? el) eqn:T.
  - destruct mir; destruct fl.
    + destruct (le - 2 * d <=? - D) eqn:U; [band_done|].
      assert (V : D <? el - 2 * D = false) by lia. cbn [b_point b_error]. rewrite V. band_done.
    + destruct (D <? le + 2 * d) eqn:U; [band_done|].
      assert (V : D <? el - 2 * D = false) by lia. cbn [b_point b_error]. rewrite V. band_done.
    + destruct (le - 2 * d <=? - D) eqn:U; [band_done|].
      assert (V : D <? el - 2 * D = false) by lia. cbn [b_point b_error]. rewrite V. band_done.
    + destruct (D <? le + 2 * d) eqn:U; [band_done|].
      assert (V : D <? el - 2 * D = false) by lia. cbn [b_point b_error]. rewrite V. band_done.
  - band_done.
Qed.

Lemma next_parallel_right_band acc thr pl el le pr er re ns po f :
  - D - 2 * d < er <= D -> - D < re <= D ->
  exists q e pr' er' re',
    next_parallel (Datatypes.S (Datatypes.S f)) (mkst D d A B A' B' acc thr fl pl el le pr er re ns po) SRight
    = Some (q, e, mkst D d A B A' B' acc thr fl pl el le pr' er' re' ns po) /\
    - D - 2 * d < er' <= D /\ - D < re' <= D /\ - D < e <= D /\
    K (bp_pt_ q) - e = K pr - re /\ K pr' - re' = K pr - re - a.
Proof.
  intros He Hre. np_unfold. fold mir.
  destruct (er <=? - D) eqn:T.
  - destruct mir; destruct fl; cbn [negb].
    + destruct (D <? re + 2 * d) eqn:U; [band_done|].
      assert (V : er + 2 * D <=? - D = false) by lia. cbn [b_point b_error]. rewrite V. band_done.
    + destruct (re - 2 * d <=? - D) eqn:U; [band_done|].
      assert (V : er + 2 * D <=? - D = false) by lia. cbn [b_point b_error]. rewrite V. band_done.
    + destruct (D <? re + 2 * d) eqn:U; [band_done|].
      assert (V : er + 2 * D <=? - D = false) by lia. cbn [b_point b_error]. rewrite V. band_done.
    + destruct (re - 2 * d <=? - D) eqn:U; [band_done|].
      assert (V : er + 2 * D <=? - D = false) by lia. cbn [b_point b_error]. rewrite V. band_done.
  - band_done.
Qed.

(* the band of a parallel handed to ThickPoints *)
Definition cband (bt : bstate * ltype) : Z := K (b_point (fst bt)) - b_error (fst bt).

Inductive bands : Z -> Z -> list (bstate * ltype) -> Prop :=
| bands_nil cL cR : bands cL cR []
| bands_left cL cR bt ps : cband bt = cL -> bands (cL + a) cR ps -> bands cL cR (bt :: ps)
| bands_right cL cR bt ps : cband bt = cR -> bands cL (cR - a) ps -> bands cL cR (bt :: ps).

Lemma parallels_next_band acc thr pl el le pr er re ns po :
  - D < el <= D + 2 * d -> - D < le <= D -> - D - 2 * d < er <= D -> - D < re <= D ->
  parallels_next (mkst D d A B A' B' acc thr fl pl el le pr er re ns po) = Done \/
  exists bt acc' pl' el' le' pr' er' re' ns',
    parallels_next (mkst D d A B A' B' acc thr fl pl el le pr er re ns po)
    = Yield bt (mkst D d A B A' B' acc' thr fl pl' el' le' pr' er' re' ns' po) /\
    - D < el' <= D + 2 * d /\ - D < le' <= D /\ - D - 2 * d < er' <= D /\ - D < re' <= D /\
    - D < b_error (fst bt) <= D /\
    ((cband bt = K pl - le /\ K pl' - le' = K pl - le + a /\ K pr' - re' = K pr - re) \/
     (cband bt = K pr - re /\ K pr' - re' = K pr - re - a /\ K pl' - le' = K pl - le)).
Proof.
  intros Sel Sle Ser Sre. unfold parallels_next.
  change (thick_thr (mkst D d A B A' B' acc thr fl pl el le pr er re ns po)) with thr.
  change (thick_acc (mkst D d A B A' B' acc thr fl pl el le pr er re ns po)) with acc.
  change (next_side (mkst D d A B A' B' acc thr fl pl el le pr er re ns po)) with ns.
  destruct (thr <? acc * acc); [left; reflexivity|right].
  unfold np_fuel. destruct ns.
  - destruct (next_parallel_left_band acc thr pl el le pr er re SLeft po 2 Sel Sle)
      as (q & e & pl' & el' & le' & E & I1 & I2 & I3 & C1 & C2).
    rewrite E. destruct q as [q|q]; cbn [bp_pt_] in C1; unfold mkst;
      unfold set_acc_side;
      cbn [thick_acc perp_params par_params error_step_minor error_step_major p_offset next_side
           thick_thr flip p_left p_right left_error right_error];
      do 9 eexists; (split; [reflexivity|]); unfold cband; cbn [fst b_error b_point];
      repeat split; try lia; left; repeat split; lia.
  - destruct (next_parallel_right_band acc thr pl el le pr er re SRight po 2 Ser Sre)
      as (q & e & pr' & er' & re' & E & I1 & I2 & I3 & C1 & C2).
    rewrite E. destruct q as [q|q]; cbn [bp_pt_] in C1; unfold mkst;
      unfold set_acc_side;
      cbn [thick_acc perp_params par_params error_step_minor error_step_major p_offset next_side
           thick_thr flip p_left p_right left_error right_error];
      do 9 eexists; (split; [reflexivity|]); unfold cband; cbn [fst b_error b_point];
      repeat split; try lia; right; repeat split; lia.
Qed.

Lemma parallels_run_bands fuel : forall acc pl el le pr er re ns po ps,
  - D < el <= D + 2 * d -> - D < le <= D -> - D - 2 * d < er <= D -> - D < re <= D ->
  parallels_run fuel (mkst D d A B A' B' acc thr0 fl pl el le pr er re ns po) = Some ps ->
  bands (K pl - le) (K pr - re) ps /\ Forall (fun bt => - D < b_error (fst bt) <= D) ps.
Proof.
  induction fuel as [|f IH]; intros acc pl el le pr er re ns po ps Sel Sle Ser Sre H; [discriminate|].
  rewrite parallels_run_S in H.
  destruct (parallels_next_band acc thr0 pl el le pr er re ns po Sel Sle Ser Sre)
    as [E|(bt & acc' & pl' & el' & le' & pr' & er' & re' & ns' & E & I1 & I2 & I3 & I4 & I5 & C)]; rewrite E in H.
  - injection H as <-. split; constructor.
  - destruct (parallels_run f _) as [t|] eqn:E2; [|discriminate]. injection H as <-.
    destruct (IH _ _ _ _ _ _ _ _ _ _ I1 I2 I3 I4 E2) as [Bt Ft].
    split; [|constructor; assumption].
    destruct C as [(C1 & C2 & C3)|(C1 & C2 & C3)].
    + apply bands_left; [exact C1|]. rewrite C2, C3 in Bt. exact Bt.
    + apply bands_right; [exact C1|]. rewrite C2, C3 in Bt. exact Bt.
Qed.

Lemma bands_spread cL cR ps : bands cL cR ps -> forall m, a <> 0 -> cL = cR + a * m -> 1 <= m ->
  NoDup (map cband ps) /\
  (forall bt, In bt ps -> exists j, cband bt = cR + a * j /\
     (m <= j < m + Z.of_nat (length ps) \/ - Z.of_nat (length ps) < j <= 0)).
Proof.
  induction 1 as [cL cR | cL cR bt ps C Bt IH | cL cR bt ps C Bt IH]; intros m Ha E Hm; cbn [length].
  - split; [constructor | intros bt []].
  - destruct (IH (m + 1) Ha ltac:(lia) ltac:(lia)) as [N F]. split.
    + cbn [map]. constructor; [|exact N]. intros Hin. apply in_map_iff in Hin. destruct Hin as (x & Ex & Hx).
      destruct (F x Hx) as (j & Ej & Hj). rewrite Ex, C, E in Ej. assert (a * (m - j) = 0) by lia. nia.
    + intros x [<-|Hx]; [exists m; split; [lia|lia]|].
      destruct (F x Hx) as (j & Ej & Hj). exists j. split; [exact Ej|lia].
  - destruct (IH (m + 1) Ha ltac:(lia) ltac:(lia)) as [N F]. split.
    + cbn [map]. constructor; [|exact N]. intros Hin. apply in_map_iff in Hin. destruct Hin as (x & Ex & Hx).
      destruct (F x Hx) as (j & Ej & Hj). rewrite Ex, C in Ej. assert (a * (j - 1) = 0) by lia. nia.
    + intros x [<-|Hx]; [exists 0; split; [lia|lia]|].
      destruct (F x Hx) as (j & Ej & Hj). exists (j - 1). split; [lia|lia].
Qed.
End Bands.

(* ======================================================================== *)
(* 3. the facts about the eight octants the band argument needs             *)
(* ======================================================================== *)
Definition oct_ok (l : line) : Prop :=
  let D := ldmaj l in let d := ldmin l in
  let A' := lsmaj (perpendicular l) in let B' := lsmin (perpendicular l) in
  let fl := point_eqb B' (point_neg (lsmaj l)) in
  let a := K0l l A' in let b := K0l l B' in
  let mir := mirror_extra_points (BP D (2 * d) (2 * D) A' B') in
  (a = 2 * D \/ a = - (2 * D)) /\
  (d = D \/ b = (if fl then - (2 * d) else 2 * d)) /\
  (d = 0 \/ b + (if fl then 2 * d - 2 * D else 2 * D - 2 * d) = a) /\
  (d = 0 \/ (if fl then (if mir then b - a else 0) = 0 else 2 * D - 2 * d + (if mir then b - a else 0) = 0)) /\
  (d = 0 \/ (if fl then 2 * D - 2 * d + (if mir then 0 else a - b) = 0 else (if mir then 0 else a - b) = 0)).

Ltac oct_goal := first [ lia | left; lia | right; lia ].

Lemma oct_facts l : oct_ok l.
Proof.
  destruct l as [[sx sy] [ex ey]]. unfold oct_ok, K0l, sgnl, perpendicular, point_neg, point_eqb, mirror_extra_points.
  unfl. cbn [pos_step_major pos_step_minor].
  set (dx := ex - sx). set (dy := ey - sy).
  replace (sx + dy - sx) with dy by lia. replace (sy + - dx - sy) with (- dx) by lia.
  destruct (Z.abs dx <=? Z.abs dy) eqn:T; destruct (0 <=? dx) eqn:X; destruct (0 <=? dy) eqn:Y;
  destruct (Z.abs dy <=? Z.abs (- dx)) eqn:T'; destruct (0 <=? - dx) eqn:X';
    cbn [px py negb Z.eqb Z.opp andb Pos.eqb]; try lia.
  all: repeat split; oct_goal.
Qed.

(* ======================================================================== *)
(* 4. assembly                                                               *)
(* ======================================================================== *)
Lemma NoDup_app_disjoint {T} (l1 l2 : list T) :
  NoDup l1 -> NoDup l2 -> (forall x, In x l1 -> In x l2 -> False) -> NoDup (l1 ++ l2).
Proof.
  induction l1 as [|x l1 IH]; intros N1 N2 Dj; [exact N2|].
  inversion N1 as [|? ? Hx N1']; subst. cbn [app]. constructor.
  - intros Hin. apply in_app_or in Hin. destruct Hin as [Hin|Hin]; [exact (Hx Hin)|].
    apply (Dj x); [left; reflexivity | exact Hin].
  - apply IH; [exact N1' | exact N2 |]. intros y Hy1 Hy2. apply (Dj y); [right; exact Hy1 | exact Hy2].
Qed.

Lemma flat_map_NoDup {S T} (c : S -> Z) (f : S -> list T) (xs : list S) :
  (forall x, In x xs -> NoDup (f x)) ->
  (forall x y p, In x xs -> In y xs -> In p (f x) -> In p (f y) -> c x = c y) ->
  NoDup (map c xs) -> NoDup (flat_map f xs).
Proof.
  induction xs as [|x xs IH]; intros Hf Hc Nc; [constructor|].
  cbn [flat_map]. cbn [map] in Nc. inversion Nc as [|? ? Hx Nc']; subst.
  apply NoDup_app_disjoint.
  - apply Hf. left; reflexivity.
  - apply IH; [intros; apply Hf; right; assumption | | exact Nc'].
    intros y z p Hy Hz. apply Hc; right; assumption.
  - intros p Hp1 Hp2. apply in_flat_map in Hp2. destruct Hp2 as (y & Hy & Hp2).
    apply Hx. rewrite (Hc x y p); [apply in_map; exact Hy | left; reflexivity | right; exact Hy | exact Hp1 | exact Hp2].
Qed.

(* the parallels of ParallelsIterator (no stroke offset) carry pairwise different bands K start + j * a *)
Lemma parallels_bands l w pars : parallels l w SONone = Some pars ->
  let l' := eff_line l in
  NoDup (map (cband (Kl l')) pars) /\
  Forall (fun bt => - ldmaj l' < b_error (fst bt) <= ldmaj l') pars /\
  (forall bt, In bt pars -> exists j, cband (Kl l') bt = Kl l' (l_start l) + K0l l' (lsmaj (perpendicular l')) * j /\
                                     - Z.of_nat (length pars) < j <= Z.of_nat (length pars)).
Proof.
  cbv zeta. unfold parallels. rewrite parallels_new_frame. unfold st_of.
  pose proof (eff_dmaj_pos l) as HD. pose proof (ldm_ok (eff_line l)) as Hd.
  destruct (oct_facts (eff_line l)) as (Ha & H1 & H2 & H3L & H3R). cbv zeta in Ha, H1, H2, H3L, H3R.
  fold (flip_of l) in H1, H2, H3L, H3R.
  set (l' := eff_line l) in *. set (D := ldmaj l') in *. set (d := ldmin l') in *.
  intros E.
  eapply (parallels_run_bands D d (thr_of l w) (lsmaj l') (lsmin l') (lsmaj (perpendicular l')) (lsmin (perpendicular l'))
              (flip_of l) (Kl l') (K0l l') HD Hd (Kl_add l') (Kl_sub l') H1 H2 H3L H3R) in E; [| lia | lia | lia | lia].
  destruct E as [Bd Fe].
  rewrite Kl_add in Bd.
  apply (bands_spread D d _ (lsmin (perpendicular l')) _ _ HD Hd (Kl_add l') (Kl_sub l')) with (m := 1) in Bd; [| lia | lia | lia].
  destruct Bd as [N F].
  split; [exact N|]. split; [exact Fe|].
  intros bt Hbt. destruct (F bt Hbt) as (j & Ej & Hj). exists j. rewrite Ej. split; lia.
Qed.

Theorem thick_points_NoDup l w ps : thick_points l w = Some ps -> NoDup ps.
Proof.
  intros E. rewrite thick_points_eq in E.
  destruct (parallels l w SONone) as [pars|] eqn:E2; cbn [option_map] in E; [|discriminate E].
  injection E as <-.
  destruct (parallels_bands l w pars E2) as (N & Fe & Fj). cbv zeta in N, Fe, Fj.
  pose proof (eff_dmaj_pos l) as HD.
  destruct (oct_facts (eff_line l)) as (Ha & _). cbv zeta in Ha.
  rewrite Forall_forall in Fe.
  unfold par_points. apply (flat_map_NoDup (cband (Kl (eff_line l)))); [| | exact N].
  - intros [[p0 e0] t] _. cbn [fst snd]. apply bresenham_run_NoDup.
  - intros [[p1 e1] t1] [[p2 e2] t2] p H1 H2 P1 P2. cbn [fst snd] in P1, P2.
    pose proof (Fe _ H1) as R1. pose proof (Fe _ H2) as R2. cbn [fst b_error] in R1, R2.
    apply bresenham_run_band in P1; [| exact HD | exact R1].
    apply bresenham_run_band in P2; [| exact HD | exact R2].
    destruct (Fj _ H1) as (j1 & J1 & _). destruct (Fj _ H2) as (j2 & J2 & _).
    unfold cband in *. cbn [fst b_point b_error] in *.
    set (a := K0l (eff_line l) (lsmaj (perpendicular (eff_line l)))) in *.
    set (D := ldmaj (eff_line l)) in *.
    assert (a * (j1 - j2) < 2 * D /\ - (2 * D) < a * (j1 - j2)) by lia.
    assert (j1 = j2) by (destruct Ha as [Ha|Ha]; rewrite Ha in *; nia).
    subst j2. lia.
Qed.

(* a (coarse) bound on the distance to the ideal line for ALL lines and widths: every parallel lies in a band
   K in (a*j - D, a*j + D] with |j| <= number of parallels <= 3w+2, hence 2|cross| <= (6w+5) * dmaj <= (6w+5) * len,
   i.e. distance <= 3w + 2.5.  (The bound w/2 + 2.5 of the property is FALSE for w >= 34, see FINDINGS-C17.md.) *)
Lemma Kl_start l : Kl l (l_start l) = 0.
Proof. unfold Kl, cross_to. lia. Qed.

Theorem thick_points_strip l w ps p : 0 <= w -> 1 <= ldmaj l ->
  thick_points l w = Some ps -> In p ps ->
  2 * Z.abs (cross_to l p) <= (6 * w + 5) * ldmaj l.
Proof.
  intros Hw HD E Hp. rewrite thick_points_eq in E.
  destruct (parallels l w SONone) as [pars|] eqn:E2; cbn [option_map] in E; [|discriminate E].
  injection E as <-.
  destruct (parallels_total l w SONone Hw) as (pars' & E3 & L). rewrite E2 in E3. injection E3 as <-.
  destruct (parallels_bands l w pars E2) as (_ & Fe & Fj). cbv zeta in Fe, Fj.
  assert (EL : eff_line l = l).
  { unfold eff_line, point_eqb. destruct ((px (l_start l) =? px (l_end l)) && (py (l_start l) =? py (l_end l))) eqn:T; [|reflexivity].
    exfalso. unfl. lia. }
  rewrite EL in *. rewrite Kl_start in Fj.
  destruct (oct_facts l) as (Ha & _). cbv zeta in Ha.
  unfold par_points in Hp. apply in_flat_map in Hp. destruct Hp as ([[p0 e0] t] & Hbt & Hp). cbn [fst snd] in Hp.
  rewrite Forall_forall in Fe. pose proof (Fe _ Hbt) as R. cbn [fst b_error] in R.
  rewrite EL in Hp. apply bresenham_run_band in Hp; [| exact HD | exact R].
  destruct (Fj _ Hbt) as (j & J & Hj). unfold cband in J. cbn [fst b_point b_error] in J.
  set (a := K0l l (lsmaj (perpendicular l))) in *. set (D := ldmaj l) in *.
  assert (B1 : Z.abs (Kl l p) <= 2 * D * (3 * w + 2) + D).
  { assert (Z.abs (a * j) <= 2 * D * (3 * w + 2)) by (destruct Ha as [Ha|Ha]; rewrite Ha; nia). lia. }
  unfold Kl in B1. destruct (sgnl_unit l) as [S|S]; rewrite S in B1; lia.
Qed.

