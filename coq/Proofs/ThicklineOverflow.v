(* C08, line part: every state variable of Points / ParallelsIterator / ThickPoints stays far inside its machine
   type on display-scale inputs (|coordinates| <= 1024, stroke width <= 128).
   The values computed inside one call of next_parallel / Bresenham::next differ from a state variable by at most
   one error step (<= 2 * dmaj <= 4096) or one unit position step, so bounds on the states bound every intermediate. *)
From EG Require Import Base.Prelude Base.Lemmas Model.Geometry Model.Style Model.Line Model.Thickline
                       Proofs.Geometry Proofs.Line Proofs.Thickline.
From Coq Require Import ZifyBool.

Ltac Zify.zify_post_hook ::= Z.to_euclidean_division_equations.
Set Default Timeout 60.

Definition near (a b : point) (n : Z) : Prop := - n <= px b - px a <= n /\ - n <= py b - py a <= n.
Definition unit_pt (a : point) : Prop := - 1 <= px a <= 1 /\ - 1 <= py a <= 1.
Definition bp_pt (q : bpoint) : point := match q with BNormal p => p | BExtra p => p end.

Ltac near_tac := unfold near, unit_pt, padd, psub in *; cbn [px py bp_pt] in *; lia.
Ltac np_done2 := do 5 eexists; (split; [reflexivity|]); cbn [bp_pt is_normal]; repeat split; try lia; near_tac.

Lemma next_parallel_left_bounds D d A B A' B' acc thr fl pl el le pr er re ns po f :
  1 <= D -> 0 <= d <= D -> unit_pt A' -> unit_pt B' ->
  - D < el <= D + 2 * d -> - D < le <= D ->
  exists q e pl' el' le',
    next_parallel (Datatypes.S (Datatypes.S f)) (mkst D d A B A' B' acc thr fl pl el le pr er re ns po) SLeft
    = Some (q, e, mkst D d A B A' B' acc thr fl pl' el' le' pr er re ns po) /\
    - D < el' <= D + 2 * d /\ - D < le' <= D /\ - D < e <= D /\
    near pl pl' 2 /\ near pl (bp_pt q) 2 /\
    (if is_normal q then True else D < el /\ el' <= D).
Proof.
  intros HD Hd UA UB He Hle. np_unfold.
  destruct (D <? el) eqn:T.
  - destruct (mirror_extra_points _); destruct fl.
    + destruct (le - 2 * d <=? - D) eqn:U; [np_done2|].
      assert (V : D <? el - 2 * D = false) by lia. cbn [b_point b_error]. rewrite V. np_done2.
    + destruct (D <? le + 2 * d) eqn:U; [np_done2|].
      assert (V : D <? el - 2 * D = false) by lia. cbn [b_point b_error]. rewrite V. np_done2.
    + destruct (le - 2 * d <=? - D) eqn:U; [np_done2|].
      assert (V : D <? el - 2 * D = false) by lia. cbn [b_point b_error]. rewrite V. np_done2.
    + destruct (D <? le + 2 * d) eqn:U; [np_done2|].
      assert (V : D <? el - 2 * D = false) by lia. cbn [b_point b_error]. rewrite V. np_done2.
  - np_done2.
Qed.

Lemma next_parallel_right_bounds D d A B A' B' acc thr fl pl el le pr er re ns po f :
  1 <= D -> 0 <= d <= D -> unit_pt A' -> unit_pt B' ->
  - D - 2 * d < er <= D -> - D < re <= D ->
  exists q e pr' er' re',
    next_parallel (Datatypes.S (Datatypes.S f)) (mkst D d A B A' B' acc thr fl pl el le pr er re ns po) SRight
    = Some (q, e, mkst D d A B A' B' acc thr fl pl el le pr' er' re' ns po) /\
    - D - 2 * d < er' <= D /\ - D < re' <= D /\ - D < e <= D /\
    near pr pr' 2 /\ near pr (bp_pt q) 2 /\
    (if is_normal q then True else er <= - D /\ - D < er').
Proof.
  intros HD Hd UA UB He Hre. np_unfold.
  destruct (er <=? - D) eqn:T.
  - destruct (mirror_extra_points _); destruct fl; cbn [negb].
    + destruct (D <? re + 2 * d) eqn:U; [np_done2|].
      assert (V : er + 2 * D <=? - D = false) by lia. cbn [b_point b_error]. rewrite V. np_done2.
    + destruct (re - 2 * d <=? - D) eqn:U; [np_done2|].
      assert (V : er + 2 * D <=? - D = false) by lia. cbn [b_point b_error]. rewrite V. np_done2.
    + destruct (D <? re + 2 * d) eqn:U; [np_done2|].
      assert (V : er + 2 * D <=? - D = false) by lia. cbn [b_point b_error]. rewrite V. np_done2.
    + destruct (re - 2 * d <=? - D) eqn:U; [np_done2|].
      assert (V : er + 2 * D <=? - D = false) by lia. cbn [b_point b_error]. rewrite V. np_done2.
  - np_done2.
Qed.

(* ---- all states visited by ParallelsIterator ------------------------------------------ *)
(* k counts the parallels yielded so far *)
Definition state_ok (D d w : Z) (s0 : point) (k : Z) (s : pstate) : Prop :=
  0 <= thick_acc s <= 3 * w * D + 2 * D /\
  - D < b_error (p_left s) <= D + 2 * d /\ - D < left_error s <= D /\
  - D - 2 * d < b_error (p_right s) <= D /\ - D < right_error s <= D /\
  near s0 (b_point (p_left s)) (2 * k + 1) /\ near s0 (b_point (p_right s)) (2 * k + 1) /\
  0 <= k <= 3 * w + 2 /\
  (k + 1) * D <= Psi D (thick_acc s) (b_error (p_left s)) (b_error (p_right s)).

Definition par_ok (D : Z) (s0 : point) (k : Z) (bt : bstate * ltype) : Prop :=
  - D < b_error (fst bt) <= D /\ near s0 (b_point (fst bt)) (2 * k + 1).

Ltac so_unfold := unfold state_ok, mkst in *;
  cbn [thick_acc p_left p_right left_error right_error b_error b_point] in *.

Lemma parallels_next_bounds D d w s0 k A B A' B' acc thr fl pl el le pr er re ns po :
  1 <= D -> 0 <= d <= D -> 0 <= w -> unit_pt A' -> unit_pt B' ->
  (forall a, 0 <= a -> a * a <= thr -> a <= 3 * w * D) ->
  state_ok D d w s0 k (mkst D d A B A' B' acc thr fl pl el le pr er re ns po) ->
  parallels_next (mkst D d A B A' B' acc thr fl pl el le pr er re ns po) = Done \/
  exists bt acc' pl' el' le' pr' er' re' ns',
    parallels_next (mkst D d A B A' B' acc thr fl pl el le pr er re ns po)
    = Yield bt (mkst D d A B A' B' acc' thr fl pl' el' le' pr' er' re' ns' po) /\
    state_ok D d w s0 (k + 1) (mkst D d A B A' B' acc' thr fl pl' el' le' pr' er' re' ns' po) /\
    par_ok D s0 (k + 1) bt.
Proof.
  intros HD Hd Hw UA UB HA SO. unfold parallels_next.
  change (thick_thr (mkst D d A B A' B' acc thr fl pl el le pr er re ns po)) with thr.
  change (thick_acc (mkst D d A B A' B' acc thr fl pl el le pr er re ns po)) with acc.
  change (next_side (mkst D d A B A' B' acc thr fl pl el le pr er re ns po)) with ns.
  destruct (thr <? acc * acc) eqn:T; [left; reflexivity|right].
  so_unfold. destruct SO as (Sa & Sel & Sle & Ser & Sre & Npl & Npr & Sk & SP).
  assert (Hacc : acc <= 3 * w * D) by (apply HA; lia).
  assert (Hk : k <= 3 * w + 1).
  { assert (Psi D acc el er <= acc + 2 * D) by (unfold Psi; destruct (el <=? D); destruct (- D <? er); lia). nia. }
  unfold np_fuel. destruct ns.
  - destruct (next_parallel_left_bounds D d A B A' B' acc thr fl pl el le pr er re SLeft po 2 HD Hd UA UB Sel Sle)
      as (q & e & pl' & el' & le' & E & I1 & I2 & I3 & N1 & N2 & I4).
    unfold mkst in E. rewrite E. destruct q as [q|q]; cbn [is_normal bp_pt] in I4, N2;
      unfold set_acc_side;
      cbn [thick_acc perp_params par_params error_step_minor error_step_major p_offset next_side
           thick_thr flip p_left p_right left_error right_error];
      do 9 eexists; (split; [reflexivity|]); unfold par_ok; cbn [fst b_error b_point];
      (split; [|split; [lia|near_tac]]);
      (split; [lia|]); (split; [lia|]); (split; [lia|]); (split; [lia|]); (split; [lia|]);
      (split; [near_tac|]); (split; [near_tac|]); (split; [lia|]);
      clear Npl Npr N1 N2; unfold Psi in *;
      destruct (el <=? D) eqn:X1; destruct (el' <=? D) eqn:X2; destruct (- D <? er) eqn:X3; lia.
  - destruct (next_parallel_right_bounds D d A B A' B' acc thr fl pl el le pr er re SRight po 2 HD Hd UA UB Ser Sre)
      as (q & e & pr' & er' & re' & E & I1 & I2 & I3 & N1 & N2 & I4).
    unfold mkst in E. rewrite E. destruct q as [q|q]; cbn [is_normal bp_pt] in I4, N2;
      unfold set_acc_side;
      cbn [thick_acc perp_params par_params error_step_minor error_step_major p_offset next_side
           thick_thr flip p_left p_right left_error right_error];
      do 9 eexists; (split; [reflexivity|]); unfold par_ok; cbn [fst b_error b_point];
      (split; [|split; [lia|near_tac]]);
      (split; [lia|]); (split; [lia|]); (split; [lia|]); (split; [lia|]); (split; [lia|]);
      (split; [near_tac|]); (split; [near_tac|]); (split; [lia|]);
      clear Npl Npr N1 N2; unfold Psi in *;
      destruct (el <=? D) eqn:X1; destruct (- D <? er') eqn:X2; destruct (- D <? er) eqn:X3; lia.
Qed.

(* the states of the iterator before each call of next(), numbered by the parallels yielded so far *)
Fixpoint pstates (fuel : nat) (s : pstate) : list pstate :=
  s :: match fuel with
       | O => []
       | Datatypes.S f => match parallels_next s with Yield _ s' => pstates f s' | _ => [] end
       end.

Definition state_fits (D d w : Z) (s0 : point) (s : pstate) : Prop := exists k, state_ok D d w s0 k s.
Definition par_fits (D w : Z) (s0 : point) (bt : bstate * ltype) : Prop :=
  exists k, 0 <= k <= 3 * w + 3 /\ par_ok D s0 k bt.

Lemma pstates_ok D d w s0 A B A' B' thr fl po fuel :
  1 <= D -> 0 <= d <= D -> 0 <= w -> unit_pt A' -> unit_pt B' ->
  (forall a, 0 <= a -> a * a <= thr -> a <= 3 * w * D) ->
  forall k acc pl el le pr er re ns,
  state_ok D d w s0 k (mkst D d A B A' B' acc thr fl pl el le pr er re ns po) ->
  Forall (state_fits D d w s0) (pstates fuel (mkst D d A B A' B' acc thr fl pl el le pr er re ns po)) /\
  (forall ps, parallels_run fuel (mkst D d A B A' B' acc thr fl pl el le pr er re ns po) = Some ps ->
              Forall (par_fits D w s0) ps).
Proof.
  intros HD Hd Hw UA UB HA. induction fuel as [|f IH]; intros k acc pl el le pr er re ns SO.
  - split; [constructor; [exists k; exact SO | constructor]|]. intros ps H. discriminate.
  - cbn [pstates parallels_run].
    destruct (parallels_next_bounds D d w s0 k A B A' B' acc thr fl pl el le pr er re ns po HD Hd Hw UA UB HA SO)
      as [E|(bt & acc' & pl' & el' & le' & pr' & er' & re' & ns' & E & SO' & PO)]; rewrite E.
    + split; [constructor; [exists k; exact SO | constructor]|]. intros ps H. injection H as <-. constructor.
    + destruct (IH (k + 1) acc' pl' el' le' pr' er' re' ns' SO') as [F1 F2].
      split; [constructor; [exists k; exact SO | exact F1]|].
      intros ps H. destruct (parallels_run f _) as [t|]; [|discriminate]. injection H as <-.
      constructor; [|apply F2; reflexivity].
      exists (k + 1). split; [|exact PO]. unfold state_ok in SO. lia.
Qed.

Lemma unit_lsmaj l : unit_pt (lsmaj l).
Proof.
  unfold unit_pt. destruct l as [[sx sy] [ex ey]]. unfl.
  destruct (Z.abs (ex - sx) <=? Z.abs (ey - sy)); destruct (0 <=? ex - sx); destruct (0 <=? ey - sy); cbn [px py]; lia.
Qed.
Lemma unit_lsmin l : unit_pt (lsmin l).
Proof.
  unfold unit_pt. destruct l as [[sx sy] [ex ey]]. unfl.
  destruct (Z.abs (ex - sx) <=? Z.abs (ey - sy)); destruct (0 <=? ex - sx); destruct (0 <=? ey - sy); cbn [px py]; lia.
Qed.

Lemma unit_lsum l : unit_pt (padd (lsmaj l) (lsmin l)).
Proof.
  unfold unit_pt. destruct l as [[sx sy] [ex ey]]. unfl.
  destruct (Z.abs (ex - sx) <=? Z.abs (ey - sy)); destruct (0 <=? ex - sx); destruct (0 <=? ey - sy); cbn [px py]; lia.
Qed.

(* every state ParallelsIterator visits, for every line, width >= 0 and stroke offset *)
Lemma parallels_states_fit l w so fuel : 0 <= w ->
  exists s, parallels_new l w so = Some s /\
    Forall (state_fits (ldmaj (eff_line l)) (ldmin (eff_line l)) w (l_start l)) (pstates fuel s) /\
    (forall ps, parallels_run fuel s = Some ps -> Forall (par_fits (ldmaj (eff_line l)) w (l_start l)) ps).
Proof.
  intros Hw. rewrite parallels_new_frame. eexists; split; [reflexivity|].
  pose proof (eff_dmaj_pos l) as HD. pose proof (ldm_ok (eff_line l)) as Hd.
  pose proof (unit_lsmaj (perpendicular (eff_line l))) as UA.
  pose proof (unit_lsmin (perpendicular (eff_line l))) as UB.
  set (D := ldmaj (eff_line l)) in *. set (d := ldmin (eff_line l)) in *.
  assert (HA : forall a, 0 <= a -> a * a <= thr_of l w -> a <= 3 * w * D).
  { intros a Ha H. apply (thr_bound D d w a HD Hd Hw Ha H). }
  assert (W : 0 <= w * D) by nia.
  destruct so; unfold st_of; fold D d; apply (pstates_ok D d w (l_start l) _ _ _ _ _ _ _ fuel HD Hd Hw UA UB HA 0);
    so_unfold; unfold Psi, near, unit_pt, padd, psub in *; cbn [px py];
    repeat split; try lia;
    destruct (2 * d <=? D); destruct (0 <=? D); destruct (- D <? 0); destruct (- D <? - (2 * d)); lia.
Qed.

(* ---- display scale ------------------------------------------------------------------------ *)
Definition dcoord (x : Z) : Prop := -1024 <= x <= 1024.
Definition display_line (l : line) : Prop :=
  dcoord (px (l_start l)) /\ dcoord (py (l_start l)) /\ dcoord (px (l_end l)) /\ dcoord (py (l_end l)).
Definition display_width (w : Z) : Prop := 0 <= w <= 128.
Definition i64 (x : Z) : Prop := -9223372036854775808 <= x <= 9223372036854775807.

Lemma display_line_ok l : display_line l -> line_ok l.
Proof. unfold display_line, dcoord, line_ok, lpoint_ok, lbound. lia. Qed.

Lemma display_dmaj l : display_line l -> 1 <= ldmaj (eff_line l) <= 2048.
Proof.
  intros H. split; [apply eff_dmaj_pos|]. unfold eff_line. destruct (point_eqb _ _).
  - vm_compute. discriminate.
  - unfold display_line, dcoord in H. unfl. lia.
Qed.

Lemma display_dmaj_l l : display_line l -> ldmaj l <= 2048.
Proof. intros H. unfold display_line, dcoord in H. unfl. lia. Qed.

(* thick_points.rs:81-129 ParallelsIterator::new: the perpendicular line, length_squared (i32), the threshold (i64),
   the initial accumulator *)
Lemma thick_setup_fits l w : display_line l -> display_width w ->
  let l' := eff_line l in
  i32 (ldx l') /\ i32 (ldy l') /\ i32 (- ldx l') /\
  i32 (px (l_start l') + ldy l') /\ i32 (py (l_start l') - ldx l') /\
  i32 (ldx l' * ldx l') /\ i32 (ldy l' * ldy l') /\ i32 (ldx l' * ldx l' + ldy l' * ldy l') /\
  i64 (w * 2) /\ i64 (w * 2 * (w * 2)) /\
  i64 (w * 2 * (w * 2) * (ldx l' * ldx l' + ldy l' * ldy l')) /\
  i32 (2 * ldmaj l') /\ i32 (2 * ldmin l') /\ i32 (2 * ldmaj l' + 2 * ldmin l').
Proof.
  intros H Hw. cbv zeta. pose proof (display_dmaj l H) as HD. pose proof (ldm_ok (eff_line l)) as Hd.
  assert (X : -2048 <= ldx (eff_line l) <= 2048 /\ -2048 <= ldy (eff_line l) <= 2048).
  { unfold eff_line. destruct (point_eqb _ _); [vm_compute; repeat split; discriminate|].
    unfold display_line, dcoord in H. unfold ldx, ldy. lia. }
  assert (S0 : -1024 <= px (l_start (eff_line l)) <= 1024 /\ -1024 <= py (l_start (eff_line l)) <= 1024).
  { unfold eff_line. destruct (point_eqb _ _); [vm_compute; repeat split; discriminate|].
    unfold display_line, dcoord in H. lia. }
  destruct X as [X Y]. unfold display_width in Hw.
  assert (0 <= ldx (eff_line l) * ldx (eff_line l) <= 4194304) by nia.
  assert (0 <= ldy (eff_line l) * ldy (eff_line l) <= 4194304) by nia.
  assert (0 <= w * 2 * (w * 2) <= 65536) by nia.
  assert (0 <= w * 2 * (w * 2) * (ldx (eff_line l) * ldx (eff_line l) + ldy (eff_line l) * ldy (eff_line l))
          <= 65536 * 8388608) by nia.
  unfold i32, i64. repeat split; lia.
Qed.

(* every state variable, with a margin of one error step (2 * dmaj <= 4096) resp. two position steps *)
Definition state_machine_ok (s : pstate) : Prop :=
  i32 (thick_acc s) /\ i32 (thick_acc s + 4096) /\ i64 (thick_acc s * thick_acc s) /\
  i32 (b_error (p_left s) - 4096) /\ i32 (b_error (p_left s) + 4096) /\
  i32 (b_error (p_right s) - 4096) /\ i32 (b_error (p_right s) + 4096) /\
  i32 (left_error s - 4096) /\ i32 (left_error s + 4096) /\
  i32 (right_error s - 4096) /\ i32 (right_error s + 4096) /\
  -2000 <= px (b_point (p_left s)) <= 2000 /\ -2000 <= py (b_point (p_left s)) <= 2000 /\
  -2000 <= px (b_point (p_right s)) <= 2000 /\ -2000 <= py (b_point (p_right s)) <= 2000.

Lemma state_fits_machine l w s : display_line l -> display_width w ->
  state_fits (ldmaj (eff_line l)) (ldmin (eff_line l)) w (l_start l) s -> state_machine_ok s.
Proof.
  intros H Hw (k & SO). pose proof (display_dmaj l H) as HD. pose proof (ldm_ok (eff_line l)) as Hd.
  unfold state_ok in SO. destruct SO as (Sa & Sel & Sle & Ser & Sre & Npl & Npr & Sk & _).
  unfold display_width in Hw. unfold display_line, dcoord in H. unfold near in *.
  set (D := ldmaj (eff_line l)) in *. set (d := ldmin (eff_line l)) in *.
  assert (0 <= w * D <= 128 * 2048) by nia.
  assert (0 <= thick_acc s * thick_acc s <= 800000 * 800000) by nia.
  unfold state_machine_ok, i32, i64. repeat split; lia.
Qed.

Lemma thick_states_fit l w so fuel : display_line l -> display_width w ->
  exists s, parallels_new l w so = Some s /\ Forall state_machine_ok (pstates fuel s).
Proof.
  intros H Hw. destruct (parallels_states_fit l w so fuel ltac:(unfold display_width in Hw; lia)) as (s & E & F & _).
  exists s. split; [exact E|]. eapply Forall_impl; [|exact F]. intros st. apply state_fits_machine; assumption.
Qed.

(* the parallels handed to ThickPoints and the Bresenham runs along them *)
Lemma bresenham_run_near p n : unit_pt (pos_step_major p) -> unit_pt (pos_step_minor p) ->
  unit_pt (padd (pos_step_major p) (pos_step_minor p)) ->
  forall s q, In q (bresenham_run p s n) -> near (b_point s) q (Z.of_nat n).
Proof.
  intros UA UB US. induction n as [|n IH]; intros s q H; [contradiction|].
  cbn [bresenham_run] in H. unfold bnext in H.
  destruct (error_threshold p <? b_error s); cbn [In b_point b_error] in H; destruct H as [<-|H];
    try (apply IH in H; cbn [b_point] in H); near_tac.
Qed.

Lemma par_points_near l s0 K pars p :
  Forall (fun bt : bstate * ltype => near s0 (b_point (fst bt)) K) pars ->
  In p (par_points l pars) -> near s0 p (K + major_length l).
Proof.
  intros F Hp. unfold par_points in Hp. apply in_flat_map in Hp. destruct Hp as (bt & Hbt & Hp).
  rewrite Forall_forall in F. specialize (F bt Hbt). cbv zeta in Hp.
  pose proof (major_length_frame l) as M. pose proof (ldm_ok l) as Hd.
  apply bresenham_run_near in Hp;
    [| rewrite bparams_new_frame; apply unit_lsmaj | rewrite bparams_new_frame; apply unit_lsmin
     | rewrite bparams_new_frame; apply unit_lsum].
  unfold near in *. destruct (snd bt); lia.
Qed.

Lemma parallels_fit l w so pars : 0 <= w -> parallels l w so = Some pars ->
  Forall (par_fits (ldmaj (eff_line l)) w (l_start l)) pars.
Proof.
  intros Hw. unfold parallels.
  destruct (parallels_states_fit l w so (parallels_fuel l w) Hw) as (s & E1 & _ & F).
  rewrite E1. intros E. apply F. exact E.
Qed.

Lemma thick_pixels_fit l w ps p : display_line l -> display_width w ->
  thick_points l w = Some ps -> In p ps ->
  -3900 <= px p <= 3900 /\ -3900 <= py p <= 3900.
Proof.
  intros H Hw E Hp. rewrite thick_points_eq in E.
  destruct (parallels l w SONone) as [pars|] eqn:E2; cbn [option_map] in E; [|discriminate E].
  injection E as <-.
  pose proof (parallels_fit l w SONone pars ltac:(unfold display_width in Hw; lia) E2) as F.
  assert (F2 : Forall (fun bt : bstate * ltype => near (l_start l) (b_point (fst bt)) (2 * (3 * w + 3) + 1)) pars).
  { eapply Forall_impl; [|exact F]. intros bt (k & Hk & _ & N). unfold near in *. lia. }
  pose proof (par_points_near l (l_start l) _ pars p F2 Hp) as N.
  pose proof (display_dmaj_l l H) as ML. pose proof (major_length_frame l) as M. pose proof (ldm_ok l) as Hd.
  unfold display_width in Hw. unfold display_line, dcoord in H. unfold near in N. lia.
Qed.

Lemma thick_parallel_errors_fit l w pars bt st n : display_line l -> display_width w ->
  parallels l w SONone = Some pars -> In bt pars ->
  In st (bstates (bparams_new (eff_line l)) (fst bt) n) ->
  i32 (b_error st) /\ i32 (err_after_test (bparams_new (eff_line l)) st) /\
  i32 (b_error st + 4096) /\ i32 (b_error st - 4096).
Proof.
  intros H Hw E Hbt Hst.
  pose proof (parallels_fit l w SONone pars ltac:(unfold display_width in Hw; lia) E) as F.
  rewrite Forall_forall in F. destruct (F bt Hbt) as (k & Hk & Be & _).
  pose proof (display_dmaj l H) as HD. pose proof (ldm_ok (eff_line l)) as Hd.
  rewrite bparams_new_frame in *. destruct (fst bt) as [q e] eqn:Q. cbn [b_error] in Be.
  apply bstates_error_bound in Hst; [| assumption | cbn [b_error]; lia].
  unfold i32. lia.
Qed.

Lemma thin_display_no_overflow l st : display_line l ->
  In st (bstates (bparams_new l) (BS (l_start l) 0) (Z.to_nat (major_length l))) ->
  let p := bparams_new l in
  i32 (ldx l) /\ i32 (ldy l) /\ i32 (error_threshold p) /\ i32 (error_step_major p) /\ i32 (error_step_minor p) /\
  0 <= major_length l <= 4294967295 /\
  i32 (b_error st) /\ i32 (err_after_test p st).
Proof. intros H. apply line_no_overflow, display_line_ok, H. Qed.
