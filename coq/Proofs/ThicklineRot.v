(* Rotation by 90 degrees.  For a "generic" line (dx <> 0, dy <> 0, |dx| <> |dy|) the whole thick line machinery is
   equivariant under rot (x, y) = (-y, x): same parallels, same pixels, same order (checked against the implementation
   first: it holds for every non-degenerate line; reflections and reversal do NOT hold, because an even-width stroke
   leans to one side and ties are direction dependent).  For axis-parallel and diagonal lines the Bresenham parameter
   vectors of the rotated line are not the rotated vectors (sgn 0 = +1, tie |dx| = |dy| -> y major), so the
   state-simulation proof excludes them; the sweeps cover those lines directly. *)
From EG Require Import Base.Prelude Base.Lemmas Model.Geometry Model.Style Model.Line Model.Thickline
                       Proofs.Geometry Proofs.Line Proofs.Thickline.
From Coq Require Import ZifyBool.

Ltac Zify.zify_post_hook ::= Z.to_euclidean_division_equations.
Set Default Timeout 60.

Definition rot (p : point) : point := P (- py p) (px p).
Definition rot_line (l : line) : line := L (rot (l_start l)) (rot (l_end l)).
Definition rot_bs (s : bstate) : bstate := BS (rot (b_point s)) (b_error s).
Definition rot_bpt (q : bpoint) : bpoint :=
  match q with BNormal p => BNormal (rot p) | BExtra p => BExtra (rot p) end.
Definition rot_bp (p : bparams) : bparams :=
  BP (error_threshold p) (error_step_major p) (error_step_minor p) (rot (pos_step_major p)) (rot (pos_step_minor p)).
Definition rot_ps (s : pstate) : pstate :=
  PS (rot_bp (par_params s)) (rot_bp (perp_params s)) (thick_acc s) (thick_thr s) (flip s)
     (rot_bs (p_left s)) (left_error s) (rot_bs (p_right s)) (right_error s) (next_side s) (p_offset s).

Ltac rot_eq := unfold rot, padd, psub; cbn [px py]; repeat (f_equal; try lia).

Lemma rot_padd a b : rot (padd a b) = padd (rot a) (rot b).
Proof. rot_eq. Qed.
Lemma rot_psub a b : rot (psub a b) = psub (rot a) (rot b).
Proof. rot_eq. Qed.

(* unit axis vectors, major and minor along different axes *)
Definition axisp (p : bparams) : Prop :=
  (py (pos_step_major p) = 0 /\ px (pos_step_minor p) = 0 /\ px (pos_step_major p) <> 0) \/
  (px (pos_step_major p) = 0 /\ py (pos_step_minor p) = 0 /\ py (pos_step_major p) <> 0).

Lemma mirror_rot p : axisp p -> mirror_extra_points (rot_bp p) = mirror_extra_points p.
Proof.
  unfold axisp, mirror_extra_points, rot_bp, rot. cbn [pos_step_major pos_step_minor px py].
  intros [(H1 & H2 & H3)|(H1 & H2 & H3)].
  - destruct (negb (- py (pos_step_major p) =? 0)) eqn:T1; destruct (negb (px (pos_step_major p) =? 0)) eqn:T2; lia.
  - destruct (negb (- py (pos_step_major p) =? 0)) eqn:T1; destruct (negb (px (pos_step_major p) =? 0)) eqn:T2; lia.
Qed.

Lemma bnext_all_rot p s : axisp p ->
  bnext_all (rot_bp p) (rot_bs s) = (rot_bpt (fst (bnext_all p s)), rot_bs (snd (bnext_all p s))).
Proof.
  intros Hp. unfold bnext_all. rewrite (mirror_rot p Hp). unfold rot_bs. 
  cbn [b_point b_error rot_bp error_threshold error_step_major error_step_minor pos_step_major pos_step_minor].
  destruct (error_threshold p <? b_error s); destruct (mirror_extra_points p);
    cbn [fst snd rot_bpt b_point b_error]; repeat (rewrite rot_psub || rewrite rot_padd); reflexivity.
Qed.

Lemma bprevious_all_rot p s : axisp p ->
  bprevious_all (rot_bp p) (rot_bs s) = (rot_bpt (fst (bprevious_all p s)), rot_bs (snd (bprevious_all p s))).
Proof.
  intros Hp. unfold bprevious_all. rewrite (mirror_rot p Hp). unfold rot_bs.
  cbn [b_point b_error rot_bp error_threshold error_step_major error_step_minor pos_step_major pos_step_minor].
  destruct (b_error s <=? - error_threshold p); destruct (mirror_extra_points p);
    cbn [negb fst snd rot_bpt b_point b_error]; repeat (rewrite rot_psub || rewrite rot_padd); reflexivity.
Qed.

Lemma incr_rot p e : increase_error (rot_bp p) e = increase_error p e.
Proof. reflexivity. Qed.
Lemma decr_rot p e : decrease_error (rot_bp p) e = decrease_error p e.
Proof. reflexivity. Qed.

Ltac use_IH_rot IH :=
  match goal with
  | |- next_parallel ?f ?a ?sd = match next_parallel ?f ?b ?sd with _ => _ end =>
      change a with (rot_ps b); apply IH; assumption
  end.

Lemma next_parallel_rot fuel : forall s sd, axisp (perp_params s) ->
  next_parallel fuel (rot_ps s) sd =
  match next_parallel fuel s sd with
  | Some (q, e, s') => Some (rot_bpt q, e, rot_ps s')
  | None => None
  end.
Proof.
  induction fuel as [|f IH]; intros s sd Hp; [reflexivity|].
  cbn [next_parallel]. destruct sd.
  - cbn [rot_ps perp_params par_params p_left left_error flip].
    rewrite (bnext_all_rot _ _ Hp). destruct (bnext_all (perp_params s) (p_left s)) as [q b']. cbn [fst snd].
    rewrite incr_rot, decr_rot.
    destruct q as [q|q]; cbn [rot_bpt].
    + reflexivity.
    + destruct (flip s).
      * destruct (decrease_error (par_params s) (left_error s)) as [e' took]. destruct took.
        -- reflexivity.
        -- use_IH_rot IH.
      * destruct (increase_error (par_params s) (left_error s)) as [e' took]. destruct took.
        -- reflexivity.
        -- use_IH_rot IH.
  - cbn [rot_ps perp_params par_params p_right right_error flip].
    rewrite (bprevious_all_rot _ _ Hp). destruct (bprevious_all (perp_params s) (p_right s)) as [q b']. cbn [fst snd].
    rewrite incr_rot, decr_rot.
    destruct q as [q|q]; cbn [rot_bpt].
    + reflexivity.
    + destruct (negb (flip s)).
      * destruct (decrease_error (par_params s) (right_error s)) as [e' took]. destruct took.
        -- reflexivity.
        -- use_IH_rot IH.
      * destruct (increase_error (par_params s) (right_error s)) as [e' took]. destruct took.
        -- reflexivity.
        -- use_IH_rot IH.
Qed.

(* the parameters never change *)
Lemma next_parallel_params fuel : forall s sd q e s',
  next_parallel fuel s sd = Some (q, e, s') -> perp_params s' = perp_params s.
Proof.
  induction fuel as [|f IH]; intros s sd q e s' H; [discriminate|].
  cbn [next_parallel] in H. destruct sd.
  - destruct (bnext_all (perp_params s) (p_left s)) as [pt b']. destruct pt as [pt|pt].
    + injection H as _ _ <-. reflexivity.
    + destruct (flip s).
      * destruct (decrease_error (par_params s) (left_error s)) as [e' took]. destruct took.
        -- injection H as _ _ <-. reflexivity.
        -- apply IH in H. exact H.
      * destruct (increase_error (par_params s) (left_error s)) as [e' took]. destruct took.
        -- injection H as _ _ <-. reflexivity.
        -- apply IH in H. exact H.
  - destruct (bprevious_all (perp_params s) (p_right s)) as [pt b']. destruct pt as [pt|pt].
    + injection H as _ _ <-. reflexivity.
    + destruct (negb (flip s)).
      * destruct (decrease_error (par_params s) (right_error s)) as [e' took]. destruct took.
        -- injection H as _ _ <-. reflexivity.
        -- apply IH in H. exact H.
      * destruct (increase_error (par_params s) (right_error s)) as [e' took]. destruct took.
        -- injection H as _ _ <-. reflexivity.
        -- apply IH in H. exact H.
Qed.

Definition rot_sr (r : step_result (bstate * ltype)) : step_result (bstate * ltype) :=
  match r with
  | Fuel_out => Fuel_out
  | Done => Done
  | Yield bt s => Yield (rot_bs (fst bt), snd bt) (rot_ps s)
  end.

Lemma parallels_next_rot s : axisp (perp_params s) -> parallels_next (rot_ps s) = rot_sr (parallels_next s).
Proof.
  intros Hp. unfold parallels_next. rewrite (next_parallel_rot _ _ _ Hp).
  change (thick_thr (rot_ps s)) with (thick_thr s). change (thick_acc (rot_ps s)) with (thick_acc s).
  change (next_side (rot_ps s)) with (next_side s).
  destruct (thick_thr s <? thick_acc s * thick_acc s); [reflexivity|].
  destruct (next_parallel np_fuel s (next_side s)) as [[[q e] s1]|]; [|reflexivity].
  destruct q; reflexivity.
Qed.

Lemma parallels_next_params s bt s' : parallels_next s = Yield bt s' -> perp_params s' = perp_params s.
Proof.
  unfold parallels_next. destruct (thick_thr s <? thick_acc s * thick_acc s); [discriminate|].
  destruct (next_parallel np_fuel s (next_side s)) as [[[q e] s1]|] eqn:E; [|discriminate].
  apply next_parallel_params in E. destruct q; intros H; injection H as _ <-; exact E.
Qed.

Definition rot_pars (ps : list (bstate * ltype)) : list (bstate * ltype) :=
  map (fun bt => (rot_bs (fst bt), snd bt)) ps.

Lemma parallels_run_rot fuel : forall s, axisp (perp_params s) ->
  parallels_run fuel (rot_ps s) = option_map rot_pars (parallels_run fuel s).
Proof.
  induction fuel as [|f IH]; intros s Hp; [reflexivity|].
  cbn [parallels_run]. rewrite (parallels_next_rot _ Hp).
  destruct (parallels_next s) as [| |bt s'] eqn:E; cbn [rot_sr option_map]; try reflexivity.
  rewrite IH by (rewrite (parallels_next_params _ _ _ E); exact Hp).
  destruct (parallels_run f s'); reflexivity.
Qed.

(* ---- lines ---------------------------------------------------------------------------- *)
Definition generic (l : line) : Prop := ldx l <> 0 /\ ldy l <> 0 /\ Z.abs (ldx l) <> Z.abs (ldy l).

Lemma delta_rot l : psub (l_end (rot_line l)) (l_start (rot_line l)) = rot (psub (l_end l) (l_start l)).
Proof. unfold rot_line. cbn [l_start l_end]. rewrite rot_psub. reflexivity. Qed.

Lemma bparams_rot l : generic l -> bparams_new (rot_line l) = rot_bp (bparams_new l).
Proof.
  intros (G1 & G2 & G3). unfold bparams_new. rewrite delta_rot.
  unfold generic, ldx, ldy in *. unfold rot_bp, rot, psub. cbn [px py].
  set (dx := px (l_end l) - px (l_start l)) in *. set (dy := py (l_end l) - py (l_start l)) in *.
  destruct (Z.abs (- dy) <=? Z.abs dx) eqn:T1; destruct (Z.abs dx <=? Z.abs dy) eqn:T2; try lia;
  destruct (0 <=? - dy) eqn:X1; destruct (0 <=? dx) eqn:Y1; destruct (0 <=? dy) eqn:Y2; try lia;
    cbn [error_threshold error_step_major error_step_minor pos_step_major pos_step_minor px py];
    f_equal; try lia; f_equal; lia.
Qed.

Lemma perpendicular_rot l : perpendicular (rot_line l) = rot_line (perpendicular l).
Proof.
  unfold perpendicular. rewrite delta_rot. unfold rot_line, rot, padd, psub. cbn [l_start l_end px py].
  f_equal. f_equal; lia.
Qed.

Lemma generic_perp l : generic l -> generic (perpendicular l).
Proof. unfold generic, perpendicular, ldx, ldy, padd, psub. cbn [l_start l_end px py]. lia. Qed.

Lemma generic_rot l : generic l -> generic (rot_line l).
Proof. unfold generic, rot_line, rot, ldx, ldy. cbn [l_start l_end px py]. lia. Qed.

Lemma generic_nondeg l : generic l -> point_eqb (l_start l) (l_end l) = false.
Proof. unfold generic, point_eqb, ldx, ldy. lia. Qed.

Lemma axisp_bparams l : axisp (bparams_new l).
Proof.
  rewrite bparams_new_frame. unfold axisp. cbn [pos_step_major pos_step_minor].
  destruct l as [[sx sy] [ex ey]]. unfl.
  destruct (Z.abs (ex - sx) <=? Z.abs (ey - sy)); destruct (0 <=? ex - sx); destruct (0 <=? ey - sy); cbn [px py]; lia.
Qed.

Lemma major_length_rot l : major_length (rot_line l) = major_length l.
Proof. unfold major_length. rewrite delta_rot. unfold rot. cbn [px py]. lia. Qed.

Lemma point_eqb_rot_neg a b : point_eqb (rot a) (point_neg (rot b)) = point_eqb a (point_neg b).
Proof. unfold point_eqb, point_neg, rot. cbn [px py]. lia. Qed.

Lemma parallels_new_rot l w so : generic l ->
  parallels_new (rot_line l) w so = option_map rot_ps (parallels_new l w so).
Proof.
  intros G. unfold parallels_new.
  rewrite (generic_nondeg _ G), (generic_nondeg _ (generic_rot _ G)).
  rewrite perpendicular_rot, (bparams_rot _ G), (bparams_rot _ (generic_perp _ G)), delta_rot.
  cbn [rot_bp error_step_minor error_step_major pos_step_minor pos_step_major].
  rewrite point_eqb_rot_neg.
  replace (px (rot (psub (l_end l) (l_start l))) * px (rot (psub (l_end l) (l_start l))) +
           py (rot (psub (l_end l) (l_start l))) * py (rot (psub (l_end l) (l_start l))))
    with (px (psub (l_end l) (l_start l)) * px (psub (l_end l) (l_start l)) +
          py (psub (l_end l) (l_start l)) * py (psub (l_end l) (l_start l)))
    by (unfold rot; cbn [px py]; ring).
  match goal with
  | |- match next_parallel _ ?a _ with _ => _ end = option_map _ (match next_parallel _ ?b _ with _ => _ end) =>
      change a with (rot_ps b)
  end.
  rewrite next_parallel_rot by (cbn [perp_params]; apply axisp_bparams).
  match goal with |- context [next_parallel np_fuel ?b ?sd] => destruct (next_parallel np_fuel b sd) as [[[q e] s1]|] end;
    reflexivity.
Qed.

Lemma parallels_new_perp l w so s : parallels_new l w so = Some s -> axisp (perp_params s).
Proof.
  unfold parallels_new.
  match goal with |- context [next_parallel np_fuel ?b ?sd] => destruct (next_parallel np_fuel b sd) as [[[q e] s1]|] eqn:E end;
    [|discriminate].
  intros H. injection H as <-. apply next_parallel_params in E. rewrite E. cbn [perp_params]. apply axisp_bparams.
Qed.

Lemma parallels_rot l w so : generic l ->
  parallels (rot_line l) w so = option_map rot_pars (parallels l w so).
Proof.
  intros G. unfold parallels. rewrite (parallels_new_rot _ _ _ G).
  destruct (parallels_new l w so) as [s|] eqn:E; cbn [option_map]; [|reflexivity].
  unfold parallels_fuel. apply parallels_run_rot. exact (parallels_new_perp _ _ _ _ E).
Qed.

Lemma bresenham_run_rot p n : forall s,
  bresenham_run (rot_bp p) (rot_bs s) n = map rot (bresenham_run p s n).
Proof.
  induction n as [|n IH]; intros s; [reflexivity|].
  cbn [bresenham_run]. unfold bnext, rot_bs.
  cbn [b_point b_error rot_bp error_threshold error_step_major error_step_minor pos_step_major pos_step_minor].
  destruct (error_threshold p <? b_error s); cbn [b_point b_error map]; rewrite <- ?rot_padd;
    f_equal; apply (IH (BS _ _)).
Qed.

Theorem thick_points_rot l w : generic l ->
  thick_points (rot_line l) w = option_map (map rot) (thick_points l w).
Proof.
  intros G. unfold thick_points. rewrite (parallels_rot _ _ _ G).
  destruct (parallels l w SONone) as [ps|]; cbn [option_map]; [|reflexivity].
  rewrite (generic_nondeg _ G), (generic_nondeg _ (generic_rot _ G)), (bparams_rot _ G), major_length_rot.
  f_equal. unfold rot_pars. induction ps as [|[b t] ps IH]; [reflexivity|].
  cbn [map flat_map fst snd]. rewrite map_app, IH. f_equal. apply bresenham_run_rot.
Qed.
