(* C02, thin polyline against the STYLED bounding box.  Styled<Polyline>::bounding_box() is computed from the thick
   segments even for stroke width 1 (polyline/styled.rs:16-41, model: Model/Join.v poly_thick_bounding_box).  With width 1
   every line join collapses to its middle vertex, so the box contains every vertex and therefore every Bresenham pixel
   of every segment line.
   The width-1 join lemmas (extents_w1 ... lj_from_points_w1) come from Proofs/JoinW1.v of the join builder. *)
From EG Require Import Base.Prelude Base.Lemmas Model.Geometry Model.Style Model.Line Model.Thickline Model.Join.
From EG Require Import Proofs.Geometry Proofs.Line Proofs.Thickline Proofs.Join.
From Coq Require Import ZifyBool.

Ltac Zify.zify_post_hook ::= Z.to_euclidean_division_equations.
Set Default Timeout 60.
Strategy 1000 [parallels_new parallels_run next_parallel parallels_next bnext_all bprevious_all].

(* ---- from Proofs/JoinW1.v (join builder): width-1 joins collapse to their middle vertex -------------------------- *)
From EG Require Import Proofs.JoinW1 Proofs.JoinDraw.
Notation tj_extents_w1 := extents_w1.
Notation tj_join_at := join_at.

Lemma tj_lj_from_points_w1 a b c : pt_in_i32 b = true ->
  exists j, lj_from_points a b c 1 SONone = Some j /\ tj_join_at b j /\ lj_kind j <> JEnd.
Proof.
  intros HB. destruct (lj_from_points_w1 a b c HB) as [j [E J]]. exists j. split; [exact E|]. split; [exact J|].
  exact (lj_from_points_kind _ _ _ _ _ _ E).
Qed.

(* ---- own part ----------------------------------------------------------------------------------- *)
Lemma tj_lj_start_w1 a b : exists j, lj_start a b 1 SONone = Some j /\ tj_join_at a j.
Proof. unfold lj_start. rewrite tj_extents_w1. eexists. split; [reflexivity|]. split; reflexivity. Qed.

Lemma tj_lj_end_w1 a b : exists j, lj_end a b 1 SONone = Some j /\ tj_join_at b j /\ lj_kind j = JEnd.
Proof. unfold lj_end. rewrite tj_extents_w1. eexists. split; [reflexivity|]. repeat split; reflexivity. Qed.

(* the segment between a join at u and a join at v is drawn along, and boxed by, the line u - v *)
Lemma tj_drawn_corners sj ej u v : tj_join_at u sj -> tj_join_at v ej ->
  seg_drawn_corner (TS sj ej) u /\ seg_drawn_corner (TS sj ej) v.
Proof.
  intros [A1 A2] [B1 B2]. unfold seg_drawn_corner, ts_edges. cbn [ts_start_join ts_end_join fst l_start l_end].
  rewrite A2, B1. cbn [ec_right]. split; [left | right]; reflexivity.
Qed.

Definition w3_mid (w : point * point * point) : point := snd (fst w).

(* ThickSegmentIter with width 1 never fails, and every vertex it passes is a drawn corner of one of its segments *)
Lemma tj_tsi_run_w1 fuel : forall ws sj ej u v y z,
  (length ws + 3 <= fuel)%nat -> tj_join_at u sj -> tj_join_at v ej -> lj_kind ej <> JEnd ->
  Forall (fun w => pt_in_i32 (w3_mid w) = true) ws ->
  exists segs, tsi_run ws sj ej (y, z) 1 fuel = Some segs /\
    forall p, In p (u :: v :: map w3_mid ws ++ [z]) -> exists seg, In seg segs /\ seg_drawn_corner seg p.
Proof.
  induction fuel as [|f IH]; intros ws sj ej u v y z Hf Hs He Hk Hin; [lia|].
  destruct (tj_drawn_corners sj ej u v Hs He) as [Du Dv].
  cbn [tsi_run]. destruct ws as [|[[a b] c] ws'].
  - destruct (tj_lj_end_w1 y z) as (ej' & Ee & Je & Ke). cbn [fst snd]. rewrite Ee.
    destruct (tj_drawn_corners ej ej' v z He Je) as [_ Dz].
    destruct f as [|f']; [cbn [length] in Hf; lia|]. cbn [tsi_run]. rewrite Ke.
    destruct (lj_kind ej) eqn:K; try contradiction; cbn [option_map];
      (eexists; split; [reflexivity|]; intros p Hp; cbn [map app In] in Hp;
       destruct Hp as [<-|[<-|[<-|[]]]];
       [ exists (TS sj ej); split; [left; reflexivity | assumption]
       | exists (TS sj ej); split; [left; reflexivity | assumption]
       | exists (TS ej ej'); split; [right; left; reflexivity | assumption] ]).
  - inversion Hin as [|? ? Hb Hin']; subst. unfold w3_mid in Hb. cbn [fst snd] in Hb.
    destruct (tj_lj_from_points_w1 a b c Hb) as (ej' & E & Je & Ke). rewrite E.
    destruct (IH ws' ej ej' v b y z ltac:(cbn [length] in Hf; lia) He Je Ke Hin') as (segs & -> & Hcov).
    cbn [option_map]. eexists. split; [reflexivity|]. intros p Hp. cbn [map app In] in Hp. unfold w3_mid at 1 in Hp. cbn [fst snd] in Hp.
    destruct Hp as [<-|[<-|Hp]].
    + exists (TS sj ej). split; [left; reflexivity | assumption].
    + exists (TS sj ej). split; [left; reflexivity | assumption].
    + destruct (Hcov p ltac:(right; exact Hp)) as (seg & Hseg & Hd). exists seg. split; [right; assumption | assumption].
Qed.

Lemma tj_windows3_length a b l : length (windows3 (a :: b :: l)) = length l.
Proof.
  revert a b. induction l as [|c l IH]; intros a b; [reflexivity|].
  change (windows3 (a :: b :: c :: l)) with ((a, b, c) :: windows3 (b :: c :: l)). cbn [length]. rewrite IH. reflexivity.
Qed.

Lemma tj_windows3_mid_in l : forall w, In w (windows3 l) -> In (w3_mid w) l.
Proof.
  induction l as [|a l IH]; intros w H; [destruct H|].
  destruct l as [|b l']; [destruct H|]. destruct l' as [|c l'']; [destruct H|].
  change (windows3 (a :: b :: c :: l'')) with ((a, b, c) :: windows3 (b :: c :: l'')) in H.
  destruct H as [<-|H].
  - right. left. reflexivity.
  - right. apply IH. exact H.
Qed.

Lemma tj_windows3_cover l : forall a b z p, last_opt (a :: b :: l) = Some z -> In p (a :: b :: l) ->
  In p (a :: map w3_mid (windows3 (a :: b :: l)) ++ [z]).
Proof.
  induction l as [|c l IH]; intros a b z p Hz Hp.
  - cbn in Hz. injection Hz as <-. cbn [windows3 map app]. exact Hp.
  - change (windows3 (a :: b :: c :: l)) with ((a, b, c) :: windows3 (b :: c :: l)). cbn [map].
    unfold w3_mid at 1. cbn [fst snd]. destruct Hp as [<-|Hp]; [left; reflexivity|].
    right. apply (IH b c z p); [|exact Hp]. exact Hz.
Qed.

(* the styled bounding box of a polyline with stroke width 1 contains every vertex *)
Theorem tj_polyline_w1_box_contains_vertices pts bb v :
  (2 <= length pts)%nat -> Forall (fun p => pt_in_i32 p = true) pts ->
  poly_thick_bounding_box pts 1 = Some bb -> In v pts -> contains bb v = true.
Proof.
  intros Hlen Hok Hbb Hv. unfold poly_thick_bounding_box in Hbb.
  assert (Hsegs : exists segs, thick_segment_iter pts 1 = Some segs /\
                    forall p, In p pts -> exists seg, In seg segs /\ seg_drawn_corner seg p).
  { destruct pts as [|a [|b [|c rest]]]; cbn [length] in Hlen; try lia.
    - (* two vertices *)
      cbn [thick_segment_iter]. destruct (tj_lj_start_w1 a b) as (sj & -> & Js). destruct (tj_lj_end_w1 a b) as (ej & -> & Je & Ke).
      cbn [tsi_run]. rewrite Ke. eexists. split; [reflexivity|]. intros p Hp.
      destruct (tj_drawn_corners sj ej a b Js Je) as [Da Db].
      destruct Hp as [<-|[<-|[]]]; exists (TS sj ej); (split; [left; reflexivity | assumption]).
    - assert (Hb : pt_in_i32 b = true) by (rewrite Forall_forall in Hok; apply Hok; right; left; reflexivity).
      destruct (tj_lj_start_w1 a b) as (sj & Es & Js).
      destruct (tj_lj_from_points_w1 a b c Hb) as (ej & Ee & Je & Ke).
      assert (Ez : exists z, last_opt (a :: b :: c :: rest) = Some z).
      { clear. generalize c. induction rest as [|d r IH]; intros c0; [eexists; reflexivity|].
        destruct (IH d) as [z Hz]. exists z. cbn [last_opt] in *. exact Hz. }
      destruct Ez as [z Ez].
      assert (Ey : exists y, last_opt (removelast (a :: b :: c :: rest)) = Some y).
      { clear. generalize b c. induction rest as [|d r IH]; intros b0 c0; [eexists; reflexivity|].
        destruct (IH c0 d) as [y Hy]. exists y. cbn [removelast last_opt] in *. exact Hy. }
      destruct Ey as [y Ey].
      destruct (tj_tsi_run_w1 (Datatypes.S (length (a :: b :: c :: rest))) (List.tl (windows3 (a :: b :: c :: rest))) sj ej a b y z)
        as (segs & E & Hcov); try assumption.
      + change (windows3 (a :: b :: c :: rest)) with ((a, b, c) :: windows3 (b :: c :: rest)). cbn [List.tl].
        rewrite tj_windows3_length. cbn [length]. lia.
      + apply Forall_forall. intros w Hw. rewrite Forall_forall in Hok. apply Hok.
        apply tj_windows3_mid_in.
        change (windows3 (a :: b :: c :: rest)) with ((a, b, c) :: windows3 (b :: c :: rest)) in Hw |- *. cbn [List.tl] in Hw.
        right. exact Hw.
      + exists segs. split.
        * unfold thick_segment_iter. rewrite Es, Ee, Ez, Ey. exact E.
        * intros p Hp. apply Hcov.
          pose proof (tj_windows3_cover (c :: rest) a b z p Ez Hp) as Hc.
          change (windows3 (a :: b :: c :: rest)) with ((a, b, c) :: windows3 (b :: c :: rest)) in Hc |- *.
          cbn [List.tl map] in Hc |- *. unfold w3_mid at 1 in Hc. cbn [fst snd] in Hc. exact Hc. }
  destruct Hsegs as (segs & E & Hcov). rewrite E in Hbb. injection Hbb as <-.
  destruct (Hcov v Hv) as (seg & Hseg & Hd). exact (segments_bounding_box_contains_drawn segs seg v Hseg Hd).
Qed.
