(* The thin-line lemmas (closed form of the Bresenham line, Proofs/Line.v of builder "line") under the name the
   triangle / polyline proofs import.  The additional line lemmas needed there are in Proofs/Triangle.v section 1. *)
From EG Require Export Proofs.Line.
