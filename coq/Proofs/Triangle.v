(* Proofs about Model/Triangle.v (filled triangle: Triangle::points(), Triangle::contains()).
   Structure:
     1. facts about Bresenham lines needed here (on top of Proofs/TriLine.v): membership by index, hull,
        rows are visited in order, every row of a line has a pixel less than one pixel from the ideal crossing;
     2. Scanline::extend / bresenham_intersection: the scanline of a row is the hull of the x coordinates of
        the edge pixels of that row;
     3. sorted_yx is a sorting network (permutation invariant), area_doubled changes sign only;
     4. Triangle::points(): membership characterisation, order independence, edges, interior, row-major order;
     5. Triangle::contains() versus points(). *)
From EG Require Import Base.Prelude Base.Lemmas Model.Geometry Model.Line Model.Triangle Proofs.Geometry Proofs.TriLine.
From Coq Require Import ZifyBool Sorting.Sorted.

Ltac Zify.zify_post_hook ::= Z.to_euclidean_division_equations.
Set Default Timeout 60.

(* ======================================================================== *)
(* 1. Bresenham lines                                                        *)
(* ======================================================================== *)

Lemma In_line_points l p :
  In p (line_points l) <-> exists k, 0 <= k <= ldmaj l /\ p = line_pt l k.
Proof.
  rewrite line_points_closed, in_map_iff. split.
  - intros (k & <- & Hk). apply In_range in Hk. exists k. split; [lia | reflexivity].
  - intros (k & Hk & ->). exists k. split; [reflexivity | apply In_range; lia].
Qed.

Lemma Mk_le_dmin dmaj dmin k : 0 <= dmin <= dmaj -> 0 <= k <= dmaj -> 0 <= Mk dmaj dmin k <= dmin.
Proof.
  intros Hd Hk. pose proof (Mk_range _ _ Hd k ltac:(lia)).
  pose proof (Mk_mono _ _ Hd k dmaj ltac:(lia)) as M. rewrite Mk_end in M by assumption. lia.
Qed.

(* every pixel of a line lies in the box spanned by its end points *)
Lemma line_points_hull l p :
  In p (line_points l) ->
  Z.min (px (l_start l)) (px (l_end l)) <= px p <= Z.max (px (l_start l)) (px (l_end l)) /\
  Z.min (py (l_start l)) (py (l_end l)) <= py p <= Z.max (py (l_start l)) (py (l_end l)).
Proof.
  intros H. apply In_line_points in H. destruct H as (k & Hk & ->).
  pose proof (ldm_ok l) as Hd. pose proof (Mk_le_dmin _ _ k Hd Hk) as M.
  unfold line_pt. set (m := Mk _ _ _) in *. clearbody m.
  destruct l as [[sx sy] [ex ey]]. unfl.
  destruct (Z.abs (ex - sx) <=? Z.abs (ey - sy)) eqn:T;
    destruct (0 <=? ex - sx) eqn:X; destruct (0 <=? ey - sy) eqn:Y; cbn [px py]; lia.
Qed.

(* the y coordinate of the k-th pixel *)
Lemma line_pt_y l k :
  py (line_pt l k) = py (l_start l) + (if y_major l then k else Mk (ldmaj l) (ldmin l) k) * sgn (ldy l).
Proof. unfold line_pt, fpt, lsmaj, lsmin. destruct (y_major l); cbn [px py]; lia. Qed.

Lemma line_pt_x l k :
  px (line_pt l k) = px (l_start l) + (if y_major l then Mk (ldmaj l) (ldmin l) k else k) * sgn (ldx l).
Proof. unfold line_pt, fpt, lsmaj, lsmin. destruct (y_major l); cbn [px py]; lia. Qed.

Lemma sorted_map_range_from {A} (R : A -> A -> Prop) (g : Z -> A) n : forall a,
  (forall i j, a <= i <= j -> j < a + Z.of_nat n -> R (g i) (g j)) ->
  StronglySorted R (map g (range_from a n)).
Proof.
  induction n as [|n IH]; intros a H; cbn [range_from map]; constructor.
  - apply IH. intros i j Hi Hj. apply H; lia.
  - apply Forall_forall. intros x Hx. apply in_map_iff in Hx. destruct Hx as (j & <- & Hj).
    apply In_range_from in Hj. apply H; lia.
Qed.

(* for a line that does not go up (start.y <= end.y) the rows are visited in order *)
Lemma line_rows_sorted l : 0 <= ldy l ->
  StronglySorted (fun a b => py a <= py b) (line_points l).
Proof.
  intros Hy. rewrite line_points_closed. unfold range. apply sorted_map_range_from.
  intros i j Hi Hj. rewrite !line_pt_y. pose proof (ldm_ok l) as Hd.
  assert (S1 : sgn (ldy l) = 1) by (unfold sgn; destruct (0 <=? ldy l) eqn:E; lia).
  rewrite S1. destruct (y_major l); [lia|].
  pose proof (Mk_mono _ _ Hd i j ltac:(lia)). lia.
Qed.

(* skip_while(!= y).take_while(== y) on a list whose keys are sorted is a filter *)
Lemma take_while_filter_ge {A} (f : A -> Z) y l :
  StronglySorted (fun a b => f a <= f b) l -> Forall (fun a => y <= f a) l ->
  take_while (fun a => f a =? y) l = filter (fun a => f a =? y) l.
Proof.
  induction l as [|x t IH]; intros Hs Hg; [reflexivity|].
  cbn [take_while filter]. inversion Hs as [|? ? Hs' Hx]; subst. inversion Hg as [|? ? Gx Gt]; subst.
  destruct (f x =? y) eqn:E.
  - f_equal. apply IH; assumption.
  - symmetry. apply filter_all_false. intros z Hz.
    rewrite Forall_forall in Hx. specialize (Hx z Hz). lia.
Qed.

Lemma skip_take_filter {A} (f : A -> Z) y l :
  StronglySorted (fun a b => f a <= f b) l ->
  take_while (fun a => f a =? y) (drop_while (fun a => negb (f a =? y)) l) = filter (fun a => f a =? y) l.
Proof.
  induction l as [|x t IH]; intros Hs; [reflexivity|].
  inversion Hs as [|? ? Hs' Hx]; subst. cbn [drop_while filter].
  destruct (f x =? y) eqn:E; cbn [negb].
  - cbn [take_while]. rewrite E. f_equal. apply take_while_filter_ge; [assumption|].
    rewrite Forall_forall in *. intros z Hz. specialize (Hx z Hz). lia.
  - apply IH. assumption.
Qed.

(* frame-free distance of a pixel from the ideal line, see TriLine.cross_to *)
Lemma cross_to_line_pt l k :
  Z.abs (cross_to l (line_pt l k)) = Z.abs (Mk (ldmaj l) (ldmin l) k * ldmaj l - k * ldmin l).
Proof. unfold line_pt. apply (frame_cross_dot l k). Qed.

(* Every row between the end points of a line that goes down (start.y < end.y) contains a pixel of the line
   that is horizontally LESS THAN ONE PIXEL from the point where the ideal line crosses the row:
   |cross| < dy  <=>  |x_pixel - x_crossing| < 1.
   Steep lines: the single pixel of the row is within 1/2.  Shallow lines: the pixel whose column is nearest to
   the crossing belongs to this row, because the line rises by less than one row per column. *)
Lemma line_row_pixel l y :
  0 < ldy l -> py (l_start l) <= y <= py (l_end l) ->
  exists p, In p (line_points l) /\ py p = y /\ Z.abs (cross_to l p) < ldy l.
Proof.
  intros Hy Hr. pose proof (ldm_ok l) as Hd.
  assert (S1 : sgn (ldy l) = 1) by (unfold sgn; destruct (0 <=? ldy l) eqn:E; lia).
  destruct (y_major l) eqn:YM.
  - (* steep *)
    assert (Emaj : ldmaj l = ldy l) by (unfold y_major in YM; unfold ldmaj; lia).
    set (k := y - py (l_start l)).
    assert (Hk : 0 <= k <= ldmaj l) by (unfold k, ldy in *; lia).
    exists (line_pt l k). split; [apply In_line_points; exists k; split; [assumption|reflexivity]|].
    split.
    + rewrite line_pt_y, YM, S1. unfold k. lia.
    + rewrite cross_to_line_pt. pose proof (Mk_half _ _ k Hd ltac:(lia)). lia.
  - (* shallow: dmin = dy > 0 *)
    assert (Emin : ldmin l = ldy l) by (unfold y_major in YM; unfold ldmin; lia).
    assert (Hlt : ldmin l < ldmaj l \/ ldmin l = ldmaj l) by lia.
    set (m := y - py (l_start l)).
    assert (Hm : 0 <= m <= ldmin l) by (unfold m, ldy in *; lia).
    set (a := ldmaj l) in *. set (b := ldmin l) in *.
    set (k := (2 * m * a + b) / (2 * b)).
    assert (Hb : 0 < b) by lia.
    assert (K1 : 2 * b * k <= 2 * m * a + b < 2 * b * k + 2 * b) by (unfold k; lia).
    clearbody k. assert (Hk : 0 <= k <= a) by nia.
    assert (HM : m = Mk a b k).
    { apply Mk_unique; [lia|]. nia. }
    exists (line_pt l k). split; [apply In_line_points; exists k; split; [assumption|reflexivity]|].
    split.
    + rewrite line_pt_y, YM, S1. fold a b. rewrite <- HM. unfold m. lia.
    + rewrite cross_to_line_pt. fold a b. rewrite <- HM, <- Emin. lia.
Qed.

(* horizontal line from left to right: every column between the end points *)
Lemma line_horizontal_pixels l x :
  ldy l = 0 -> 0 <= ldx l -> px (l_start l) <= x <= px (l_end l) ->
  In (P x (py (l_start l))) (line_points l).
Proof.
  intros Hy Hx Hr. pose proof (ldm_ok l) as Hd.
  apply In_line_points. set (k := x - px (l_start l)).
  assert (Emaj : ldmaj l = ldx l) by (unfold ldmaj; lia).
  assert (Emin : ldmin l = 0) by (unfold ldmin; lia).
  exists k. split; [unfold k, ldx in *; lia|].
  assert (M0 : Mk (ldmaj l) (ldmin l) k = 0).
  { destruct (Z.eq_dec (ldmaj l) 0) as [E|E]; [apply Mk_zero_len; assumption|].
    symmetry. apply Mk_unique; [lia|]. rewrite Emin. lia. }
  assert (S1 : sgn (ldx l) = 1) by (unfold sgn; destruct (0 <=? ldx l) eqn:E; lia).
  destruct (line_pt l k) as [qx qy] eqn:E.
  assert (X := line_pt_x l k). assert (Y := line_pt_y l k). rewrite E in X, Y. cbn [px py] in X, Y.
  assert (S2 : sgn (ldy l) = 1) by (unfold sgn; destruct (0 <=? ldy l) eqn:E2; lia).
  rewrite M0, S1, S2 in *. unfold y_major in *.
  destruct (Z.abs (ldx l) <=? Z.abs (ldy l)) eqn:T.
  - assert (ldx l = 0) by lia. f_equal; unfold k, ldx in *; lia.
  - f_equal; unfold k, ldx in *; lia.
Qed.

(* a row that the line reaches at all (start.y <= end.y, not necessarily strict) *)
Lemma line_row_nonempty l y :
  0 <= ldy l -> py (l_start l) <= y <= py (l_end l) -> exists p, In p (line_points l) /\ py p = y.
Proof.
  intros Hy Hr. destruct (Z.eq_dec (ldy l) 0) as [E|E].
  - exists (l_start l). split.
    + pose proof (line_first l) as F. destruct (line_points l); [discriminate|]. injection F as ->. left; reflexivity.
    + unfold ldy in *. lia.
  - destruct (line_row_pixel l y ltac:(lia) Hr) as (p & H1 & H2 & _). exists p. auto.
Qed.

(* a lattice point exactly on the ideal segment is a pixel of the line (lines that do not go up) *)
Lemma line_exact_point l q :
  0 <= ldy l -> (ldy l = 0 -> 0 <= ldx l) ->
  cross_to l q = 0 ->
  py (l_start l) <= py q <= py (l_end l) ->
  Z.min (px (l_start l)) (px (l_end l)) <= px q <= Z.max (px (l_start l)) (px (l_end l)) ->
  In q (line_points l).
Proof.
  intros Hy Hx Hc Hry Hrx. destruct (Z.eq_dec (ldy l) 0) as [E|E].
  - specialize (Hx E). replace q with (P (px q) (py (l_start l))).
    + apply line_horizontal_pixels; try assumption. unfold ldx in *. lia.
    + destruct q as [qx qy]. cbn [px py] in *. f_equal. unfold ldy in *. lia.
  - destruct (line_row_pixel l (py q) ltac:(lia) Hry) as (p & Hp & Hpy & Hpc).
    replace q with p; [assumption|].
    destruct p as [x y], q as [qx qy]. cbn [px py] in *. subst y. f_equal.
    unfold cross_to in *. cbn [px py] in *.
    set (dy := ldy l) in *. set (dx := ldx l) in *. set (sx := px (l_start l)) in *. set (sy := py (l_start l)) in *.
    clearbody dy dx sx sy.
    assert (D : (x - sx) * dy - (qy - sy) * dx = (x - qx) * dy) by lia.
    rewrite D in Hpc. nia.
Qed.

(* ======================================================================== *)
(* 2. Scanline::extend, bresenham_intersection                               *)
(* ======================================================================== *)

Definition sl_has (s : scanline) (x : Z) : Prop := sl_start s <= x < sl_end s.

(* the scanline is the hull of the list of columns xs *)
Definition sl_hull (s : scanline) (xs : list Z) : Prop :=
  (sl_is_empty s = true /\ xs = []) \/
  (In (sl_start s) xs /\ In (sl_end s - 1) xs /\ forall x, In x xs -> sl_has s x).

Lemma sl_extend_y s x : sl_y (sl_extend s x) = sl_y s.
Proof. unfold sl_extend. destruct (sl_is_empty s), (x <? sl_start s), (sl_end s <=? x); reflexivity. Qed.

Lemma sl_extend_hull s xs x : sl_hull s xs -> sl_hull (sl_extend s x) (x :: xs).
Proof.
  unfold sl_hull, sl_has, sl_extend, sl_is_empty. destruct s as [y a b]. cbn [sl_start sl_end sl_y].
  intros [[He ->] | (Ha & Hb & Hall)].
  - rewrite He. cbn [sl_start sl_end]. right. cbn [In].
    split; [left; reflexivity|]. split; [left; lia|]. intros z [<-|[]]. lia.
  - pose proof (Hall _ Ha) as A. assert (E : negb (a <? b) = false) by lia. rewrite E.
    right. destruct (x <? a) eqn:T1; [|destruct (b <=? x) eqn:T2]; cbn [sl_start sl_end In].
    + split; [left; reflexivity|]. split; [right; assumption|].
      intros z [<-|Hz]; [lia|]. specialize (Hall z Hz). lia.
    + split; [right; assumption|]. split; [left; lia|].
      intros z [<-|Hz]; [lia|]. specialize (Hall z Hz). lia.
    + split; [right; assumption|]. split; [right; assumption|].
      intros z [<-|Hz]; [lia|]. specialize (Hall z Hz). lia.
Qed.

Lemma sl_hull_perm s xs ys : (forall x, In x xs <-> In x ys) -> sl_hull s xs -> sl_hull s ys.
Proof.
  intros H [[He ->] | (Ha & Hb & Hall)].
  - left. split; [assumption|]. destruct ys as [|z ys]; [reflexivity|]. exfalso. apply (H z). left; reflexivity.
  - right. split; [apply H; assumption|]. split; [apply H; assumption|]. intros x Hx. apply Hall, H, Hx.
Qed.

Lemma fold_extend_hull (ps : list point) : forall s xs,
  sl_hull s xs ->
  sl_hull (fold_left (fun acc p => sl_extend acc (px p)) ps s) (rev (map px ps) ++ xs) /\
  sl_y (fold_left (fun acc p => sl_extend acc (px p)) ps s) = sl_y s.
Proof.
  induction ps as [|p ps IH]; intros s xs H; cbn [fold_left map rev app]; [split; [assumption|reflexivity]|].
  destruct (IH (sl_extend s (px p)) (px p :: xs) (sl_extend_hull _ _ _ H)) as [A B].
  rewrite <- app_assoc. cbn [app]. split; [assumption|]. rewrite B. apply sl_extend_y.
Qed.

Definition row_of (y : Z) (ps : list point) : list point := filter (fun p => py p =? y) ps.

(* Scanline::bresenham_intersection for a line with start.y <= end.y: the pixels of the line in the
   scanline's row are added to the scanline (nothing when the row is outside the line's y range) *)
Lemma bresenham_intersection_filter s l : 0 <= ldy l ->
  bresenham_intersection s l =
  fold_left (fun acc p => sl_extend acc (px p)) (row_of (sl_y s) (line_points l)) s.
Proof.
  intros Hy. unfold bresenham_intersection.
  assert (E : (py (l_start l) <=? py (l_end l)) = true) by (unfold ldy in Hy; lia). rewrite E.
  destruct (negb _) eqn:T.
  - unfold row_of. rewrite filter_all_false; [reflexivity|].
    intros p Hp. apply line_points_hull in Hp. unfold ldy in Hy. lia.
  - unfold row_of. rewrite skip_take_filter; [reflexivity|]. apply line_rows_sorted. assumption.
Qed.

Lemma bresenham_intersection_hull s l xs : 0 <= ldy l -> sl_hull s xs ->
  sl_hull (bresenham_intersection s l) (rev (map px (row_of (sl_y s) (line_points l))) ++ xs) /\
  sl_y (bresenham_intersection s l) = sl_y s.
Proof. intros Hy H. rewrite bresenham_intersection_filter by assumption. apply fold_extend_hull. assumption. Qed.

Lemma sl_hull_empty y : sl_hull (sl_new_empty y) [].
Proof. left. split; reflexivity. Qed.

(* consequences of sl_hull *)
Lemma sl_hull_in s xs x : sl_hull s xs -> In x xs -> sl_has s x.
Proof. intros [[_ ->]|(_ & _ & H)] Hx; [destruct Hx | apply H; assumption]. Qed.

Lemma sl_hull_between s xs x : sl_hull s xs -> sl_has s x ->
  exists a b, In a xs /\ In b xs /\ a <= x <= b.
Proof.
  unfold sl_hull, sl_has, sl_is_empty. intros [[He _]|(Ha & Hb & _)] Hx; [lia|].
  exists (sl_start s), (sl_end s - 1). repeat split; try assumption; lia.
Qed.

Lemma sl_hull_covers s xs a b x : sl_hull s xs -> In a xs -> In b xs -> a <= x <= b -> sl_has s x.
Proof.
  intros H Ha Hb Hx. pose proof (sl_hull_in _ _ _ H Ha). pose proof (sl_hull_in _ _ _ H Hb).
  unfold sl_has in *. lia.
Qed.

Lemma sl_hull_nonempty s xs x : sl_hull s xs -> In x xs -> sl_is_empty s = false.
Proof. intros H Hx. pose proof (sl_hull_in _ _ _ H Hx) as A. unfold sl_has, sl_is_empty in *. lia. Qed.

Lemma In_sl_points s q : In q (sl_points s) <-> py q = sl_y s /\ sl_has s (px q).
Proof.
  unfold sl_points, sl_has. rewrite in_map_iff. split.
  - intros (x & <- & Hx). apply In_range in Hx. cbn [px py]. split; [reflexivity | lia].
  - intros [Hy Hx]. exists (px q). split; [destruct q as [qx qy]; cbn [px py] in *; subst; reflexivity | apply In_range; lia].
Qed.

(* ======================================================================== *)
(* 3. sorted_yx, area_doubled, bounding box under permutations of vertices   *)
(* ======================================================================== *)

Definition le_yx (a b : point) : Prop := py a < py b \/ (py a = py b /\ px a <= px b).

(* u has the vertices of t in some order *)
Definition perm3 (t u : triangle) : Prop :=
  u = T (v1 t) (v2 t) (v3 t) \/ u = T (v1 t) (v3 t) (v2 t) \/ u = T (v2 t) (v1 t) (v3 t) \/
  u = T (v2 t) (v3 t) (v1 t) \/ u = T (v3 t) (v1 t) (v2 t) \/ u = T (v3 t) (v2 t) (v1 t).

Definition sorted3 (s : triangle) : Prop := le_yx (v1 s) (v2 s) /\ le_yx (v2 s) (v3 s).

Ltac pick_refl := solve [repeat (first [reflexivity | left; reflexivity | right])].
Ltac destr_tri t :=
  let ax := fresh "ax" in let ay := fresh "ay" in let bx := fresh "bx" in let by_ := fresh "by_" in
  let cx := fresh "cx" in let cy := fresh "cy" in
  destruct t as [[ax ay] [bx by_] [cx cy]].
Ltac perm_cases H := destruct H as [H|[H|[H|[H|[H|H]]]]]; subst.

Lemma perm3_refl t : perm3 t t.
Proof. destruct t as [a b c]. left. reflexivity. Qed.

Lemma perm3_sym t u : perm3 t u -> perm3 u t.
Proof. destruct t as [a b c]. intros H. unfold perm3 in *. cbn [v1 v2 v3] in *. perm_cases H; cbn [v1 v2 v3]; pick_refl. Qed.

Lemma perm3_trans t u w : perm3 t u -> perm3 u w -> perm3 t w.
Proof.
  destruct t as [a b c]. intros H1 H2. unfold perm3 in *. cbn [v1 v2 v3] in *.
  perm_cases H1; cbn [v1 v2 v3] in *; perm_cases H2; pick_refl.
Qed.

Lemma sorted_yx_spec t : perm3 t (sorted_yx t) /\ sorted3 (sorted_yx t).
Proof.
  destr_tri t. unfold sorted_yx, sort_two_yx. cbn [v1 v2 v3 px py].
  repeat (match goal with |- context [if ?c then _ else _] => destruct c eqn:? end;
          cbv beta iota zeta; cbn [v1 v2 v3 px py]).
  all: split; [unfold perm3; cbn [v1 v2 v3]; pick_refl | unfold sorted3, le_yx; cbn [v1 v2 v3 px py]; lia].
Qed.

Lemma sorted3_unique t s s' : perm3 t s -> perm3 t s' -> sorted3 s -> sorted3 s' -> s = s'.
Proof.
  destr_tri t. unfold perm3, sorted3, le_yx. cbn [v1 v2 v3]. intros H1 H2 S1 S2.
  perm_cases H1; perm_cases H2; cbn [v1 v2 v3 px py] in *; repeat f_equal; lia.
Qed.

(* sorted_yx is a sorting network for the total order (y, x): the result depends on the set of vertices only *)
Lemma sorted_yx_perm t u : perm3 t u -> sorted_yx u = sorted_yx t.
Proof.
  intros H. destruct (sorted_yx_spec t) as [P1 S1]. destruct (sorted_yx_spec u) as [P2 S2].
  apply (sorted3_unique t); try assumption. apply (perm3_trans t u); assumption.
Qed.

Lemma area_doubled_perm t u : perm3 t u -> (area_doubled u =? 0) = (area_doubled t =? 0).
Proof.
  destr_tri t. intros H. unfold perm3 in H. cbn [v1 v2 v3] in H.
  perm_cases H; unfold area_doubled; cbn [v1 v2 v3 px py]; lia.
Qed.

Lemma bounding_box_perm t u : perm3 t u -> tri_bounding_box u = tri_bounding_box t.
Proof.
  destr_tri t. intros H. unfold perm3 in H. cbn [v1 v2 v3] in H.
  perm_cases H; unfold tri_bounding_box, with_corners, size_from_bounding_box; cbn [v1 v2 v3 px py];
    f_equal; f_equal; lia.
Qed.

Lemma sorted_clockwise_perm t : perm3 t (sorted_clockwise t).
Proof.
  unfold sorted_clockwise. destruct (area_doubled t ?= 0).
  - apply sorted_yx_spec.
  - destruct t as [a b c]. unfold perm3. cbn [v1 v2 v3]. pick_refl.
  - apply perm3_refl.
Qed.

Lemma scanline_intersection_perm t u y : perm3 t u ->
  tri_scanline_intersection u y = tri_scanline_intersection t y.
Proof.
  intros H. unfold tri_scanline_intersection. rewrite (sorted_yx_perm t u H), (area_doubled_perm t u H). reflexivity.
Qed.

(* the iterator never looks at the vertex order *)
Definition scanlines_of (f : Z -> scanline) (rs : Z * Z) : list scanline :=
  match range (fst rs) (snd rs) with
  | [] => []
  | y :: r => (if sl_is_empty (f y) then [] else [f y]) ++ take_while (fun s => negb (sl_is_empty s)) (map f r)
  end.

Lemma tri_scanlines_eq t :
  tri_scanlines t = scanlines_of (tri_scanline_intersection t) (rows (tri_bounding_box t)).
Proof.
  unfold tri_scanlines, scanlines_of. destruct (rows (tri_bounding_box t)) as [y0 y1]. cbn [fst snd].
  destruct (range y0 y1) as [|y r]; [reflexivity|].
  pose proof (sorted_clockwise_perm t) as H.
  rewrite (scanline_intersection_perm t _ y H). f_equal. f_equal.
  apply map_ext. intros z. apply scanline_intersection_perm. assumption.
Qed.

(* tri_order_independent (DESIGN C19) *)
Theorem tri_points_perm t u : perm3 t u -> tri_points u = tri_points t.
Proof.
  intros H. unfold tri_points. rewrite !tri_scanlines_eq. rewrite (bounding_box_perm t u H).
  unfold scanlines_of. destruct (range _ _) as [|y r]; [reflexivity|].
  rewrite (scanline_intersection_perm t u y H). f_equal. f_equal. f_equal.
  apply map_ext. intros z. apply scanline_intersection_perm. assumption.
Qed.

(* ======================================================================== *)
(* 4. Triangle::points()                                                     *)
(* ======================================================================== *)

(* Range hypothesis: all vertex coordinates within +-2^13.  In this range every product and sum in
   area_doubled and in contains() stays below 2^30 in absolute value (see tri_no_overflow), the bounding box
   arithmetic does not saturate, and the Bresenham error terms of the edges fit (TriLine.line_ok needs 2^28). *)
Definition tbound : Z := 8192.
Definition tpoint_ok (p : point) : Prop := - tbound <= px p <= tbound /\ - tbound <= py p <= tbound.
Definition tri_ok (t : triangle) : Prop := tpoint_ok (v1 t) /\ tpoint_ok (v2 t) /\ tpoint_ok (v3 t).

Lemma tri_ok_perm t u : perm3 t u -> tri_ok t -> tri_ok u.
Proof.
  destruct t as [a b c]. unfold perm3, tri_ok. cbn [v1 v2 v3]. intros H (A & B & C).
  perm_cases H; cbn [v1 v2 v3]; auto.
Qed.

(* the pixels that bound the rows of the filled triangle: the three Bresenham lines between the (y,x)-sorted
   vertices; for colinear vertices only the line between the two extreme ones (mod.rs:226-230) *)
Definition tri_fill_edges (t : triangle) : list point :=
  let st := sorted_yx t in
  if area_doubled t =? 0 then line_points (L (v1 st) (v3 st)) else tri_edge_points t.

Lemma sorted_ys t : let st := sorted_yx t in py (v1 st) <= py (v2 st) <= py (v3 st).
Proof. destruct (sorted_yx_spec t) as [_ [A B]]. unfold le_yx in *. cbv zeta. lia. Qed.

Lemma In_row_of y ps x : In x (map px (row_of y ps)) <-> In (P x y) ps.
Proof.
  unfold row_of. rewrite in_map_iff. split.
  - intros (p & <- & Hp). apply filter_In in Hp. destruct Hp as [Hp E].
    destruct p as [qx qy]. cbn [px py] in *. replace y with qy by lia. assumption.
  - intros H. exists (P x y). split; [reflexivity|]. apply filter_In. split; [assumption|]. cbn [py]. lia.
Qed.

(* the scanline of row y is the hull of the edge pixels of that row *)
Lemma tri_scanline_hull t y :
  sl_y (tri_scanline_intersection t y) = y /\
  exists xs, sl_hull (tri_scanline_intersection t y) xs /\ forall x, In x xs <-> In (P x y) (tri_fill_edges t).
Proof.
  pose proof (sorted_ys t) as Hs. cbv zeta in Hs.
  unfold tri_scanline_intersection, tri_fill_edges, tri_edge_points.
  set (st := sorted_yx t) in *. destruct (area_doubled t =? 0).
  - destruct (bresenham_intersection_hull (sl_new_empty y) (L (v1 st) (v3 st)) [] ) as [A B];
      [unfold ldy; cbn [l_start l_end]; lia | apply sl_hull_empty |].
    split; [rewrite B; reflexivity|]. eexists. split; [exact A|].
    intros x. cbn [sl_new_empty sl_y]. rewrite app_nil_r, <- in_rev. apply In_row_of.
  - destruct (bresenham_intersection_hull (sl_new_empty y) (L (v1 st) (v2 st)) []) as [A1 B1];
      [unfold ldy; cbn [l_start l_end]; lia | apply sl_hull_empty |].
    destruct (bresenham_intersection_hull _ (L (v1 st) (v3 st)) _ ltac:(unfold ldy; cbn [l_start l_end]; lia) A1) as [A2 B2].
    destruct (bresenham_intersection_hull _ (L (v2 st) (v3 st)) _ ltac:(unfold ldy; cbn [l_start l_end]; lia) A2) as [A3 B3].
    split; [rewrite B3, B2, B1; reflexivity|]. eexists. split; [exact A3|].
    intros x. rewrite B2, B1. cbn [sl_new_empty sl_y]. rewrite app_nil_r.
    rewrite !in_app_iff, <- !in_rev, !In_row_of. tauto.
Qed.

Lemma tri_scanline_y t y : sl_y (tri_scanline_intersection t y) = y.
Proof. apply tri_scanline_hull. Qed.

Lemma tri_scanline_in t x y : In (P x y) (tri_fill_edges t) -> sl_has (tri_scanline_intersection t y) x.
Proof.
  intros H. destruct (tri_scanline_hull t y) as [_ (xs & Hh & Hx)]. eapply sl_hull_in; [eassumption|]. apply Hx, H.
Qed.

Lemma tri_scanline_between t x y : sl_has (tri_scanline_intersection t y) x ->
  exists a b, In (P a y) (tri_fill_edges t) /\ In (P b y) (tri_fill_edges t) /\ a <= x <= b.
Proof.
  intros H. destruct (tri_scanline_hull t y) as [_ (xs & Hh & Hx)].
  destruct (sl_hull_between _ _ _ Hh H) as (a & b & Ha & Hb & Hab).
  exists a, b. rewrite <- !Hx. auto.
Qed.

Lemma tri_scanline_covers t a b x y :
  In (P a y) (tri_fill_edges t) -> In (P b y) (tri_fill_edges t) -> a <= x <= b ->
  sl_has (tri_scanline_intersection t y) x.
Proof.
  intros Ha Hb Hx. destruct (tri_scanline_hull t y) as [_ (xs & Hh & Hxs)].
  eapply sl_hull_covers; [eassumption | apply Hxs, Ha | apply Hxs, Hb | assumption].
Qed.

(* the line between the extreme vertices belongs to the fill edges in both cases *)
Lemma long_edge_in_fill_edges t p :
  In p (line_points (L (v1 (sorted_yx t)) (v3 (sorted_yx t)))) -> In p (tri_fill_edges t).
Proof.
  unfold tri_fill_edges, tri_edge_points. destruct (area_doubled t =? 0); [auto|].
  intros H. rewrite !in_app_iff. auto.
Qed.

(* every fill-edge pixel lies in the bounding box *)
Lemma sorted_bbox_coords t :
  let st := sorted_yx t in
  let bb := tri_bounding_box t in
  px (tl bb) = Z.min (Z.min (px (v1 st)) (px (v2 st))) (px (v3 st)) /\
  px (tl bb) + sw (sz bb) - 1 = Z.max (Z.max (px (v1 st)) (px (v2 st))) (px (v3 st)) /\
  py (tl bb) = py (v1 st) /\ py (tl bb) + sh (sz bb) - 1 = py (v3 st).
Proof.
  cbv zeta. pose proof (sorted_ys t) as Hs. cbv zeta in Hs.
  rewrite <- (bounding_box_perm _ _ (proj1 (sorted_yx_spec t))).
  set (st := sorted_yx t) in *. clearbody st. destr_tri st.
  unfold tri_bounding_box, with_corners, size_from_bounding_box. cbn [v1 v2 v3 px py tl sz sw sh] in *.
  repeat split; lia.
Qed.

Lemma fill_edges_in_bbox t p : In p (tri_fill_edges t) -> contains (tri_bounding_box t) p = true.
Proof.
  intros H. apply contains_spec. pose proof (sorted_bbox_coords t) as B. cbv zeta in B.
  pose proof (sorted_ys t) as Hs. cbv zeta in Hs.
  assert (E : In p (line_points (L (v1 (sorted_yx t)) (v2 (sorted_yx t)))) \/
              In p (line_points (L (v1 (sorted_yx t)) (v3 (sorted_yx t)))) \/
              In p (line_points (L (v2 (sorted_yx t)) (v3 (sorted_yx t))))).
  { unfold tri_fill_edges, tri_edge_points in H. destruct (area_doubled t =? 0); [auto|].
    rewrite !in_app_iff in H. tauto. }
  set (st := sorted_yx t) in *. clearbody st.
  destruct E as [E|[E|E]]; apply line_points_hull in E; cbn [l_start l_end] in E; lia.
Qed.

(* rows of the bounding box, no saturation *)
Lemma tri_rows t : tri_ok t ->
  rows (tri_bounding_box t) = (py (v1 (sorted_yx t)), py (v3 (sorted_yx t)) + 1).
Proof.
  intros Hok. pose proof (sorted_bbox_coords t) as B. cbv zeta in B. destruct B as (_ & _ & B1 & B2).
  pose proof (tri_ok_perm _ _ (proj1 (sorted_yx_spec t)) Hok) as (O1 & _ & O3).
  pose proof (sorted_ys t) as Hs. cbv zeta in Hs.
  unfold rows, sat_add_i32, sat_u32_to_i32, i32_max, i32_min. unfold tpoint_ok, tbound in *.
  set (st := sorted_yx t) in *. clearbody st.
  f_equal; lia.
Qed.

Lemma take_while_all {A} (f : A -> bool) l : (forall x, In x l -> f x = true) -> take_while f l = l.
Proof.
  induction l as [|x t IH]; intros H; [reflexivity|]. cbn [take_while].
  rewrite (H x) by (left; reflexivity). f_equal. apply IH. intros; apply H; right; assumption.
Qed.

(* no row of the bounding box is empty, so the iteration never stops early *)
Lemma tri_row_nonempty t y : py (v1 (sorted_yx t)) <= y <= py (v3 (sorted_yx t)) ->
  sl_is_empty (tri_scanline_intersection t y) = false.
Proof.
  intros Hy. destruct (line_row_nonempty (L (v1 (sorted_yx t)) (v3 (sorted_yx t))) y) as (p & Hp & Hpy).
  - pose proof (sorted_ys t) as Hs. cbv zeta in Hs. unfold ldy. cbn [l_start l_end]. lia.
  - cbn [l_start l_end]. assumption.
  - destruct (tri_scanline_hull t y) as [_ (xs & Hh & Hx)].
    apply (sl_hull_nonempty _ xs (px p)); [assumption|]. apply Hx. apply long_edge_in_fill_edges.
    destruct p as [qx qy]. cbn [px py] in *. subst. assumption.
Qed.

Lemma tri_scanlines_all t : tri_ok t ->
  tri_scanlines t = map (tri_scanline_intersection t) (range (py (v1 (sorted_yx t))) (py (v3 (sorted_yx t)) + 1)).
Proof.
  intros Hok. rewrite tri_scanlines_eq, tri_rows by assumption. unfold scanlines_of. cbn [fst snd].
  assert (Hall : forall y, In y (range (py (v1 (sorted_yx t))) (py (v3 (sorted_yx t)) + 1)) ->
                 sl_is_empty (tri_scanline_intersection t y) = false).
  { intros y Hy. apply In_range in Hy. apply tri_row_nonempty. lia. }
  destruct (range _ _) as [|y r]; [reflexivity|]. cbn [map].
  rewrite (Hall y) by (left; reflexivity). cbn [app]. f_equal.
  apply take_while_all. intros s Hs. apply in_map_iff in Hs. destruct Hs as (z & <- & Hz).
  rewrite (Hall z) by (right; assumption). reflexivity.
Qed.

(* membership in points() *)
Lemma In_tri_points t q : tri_ok t ->
  (In q (tri_points t) <->
   py (v1 (sorted_yx t)) <= py q <= py (v3 (sorted_yx t)) /\ sl_has (tri_scanline_intersection t (py q)) (px q)).
Proof.
  intros Hok. unfold tri_points. rewrite tri_scanlines_all by assumption. rewrite in_flat_map. split.
  - intros (s & Hs & Hq). apply in_map_iff in Hs. destruct Hs as (y & <- & Hy). apply In_range in Hy.
    apply In_sl_points in Hq. rewrite tri_scanline_y in Hq. destruct Hq as [-> Hq]. split; [lia | assumption].
  - intros [Hy Hq]. exists (tri_scanline_intersection t (py q)). split.
    + apply in_map. apply In_range. lia.
    + apply In_sl_points. rewrite tri_scanline_y. split; [reflexivity | assumption].
Qed.

(* tri_contains_edges (DESIGN C19): the Bresenham lines between the sorted vertices are part of the fill *)
Theorem fill_edges_in_points t p : tri_ok t -> In p (tri_fill_edges t) -> In p (tri_points t).
Proof.
  intros Hok Hp. apply In_tri_points; [assumption|]. split.
  - pose proof (fill_edges_in_bbox t p Hp) as C. apply contains_spec in C.
    pose proof (sorted_bbox_coords t) as B. cbv zeta in B. lia.
  - apply tri_scanline_in. destruct p as [qx qy]. exact Hp.
Qed.

(* every yielded point lies, in its row, between two edge pixels (the provable part of "within one pixel") *)
Theorem points_between_edge_pixels t q : tri_ok t -> In q (tri_points t) ->
  exists a b, In (P a (py q)) (tri_fill_edges t) /\ In (P b (py q)) (tri_fill_edges t) /\ a <= px q <= b.
Proof. intros Hok Hq. apply In_tri_points in Hq; [|assumption]. apply tri_scanline_between. apply Hq. Qed.

Theorem points_in_bbox t q : tri_ok t -> In q (tri_points t) -> contains (tri_bounding_box t) q = true.
Proof.
  intros Hok Hq. destruct (points_between_edge_pixels t q Hok Hq) as (a & b & Ha & Hb & Hab).
  apply fill_edges_in_bbox in Ha, Hb. apply contains_spec in Ha, Hb. apply contains_spec. cbn [px py] in *. lia.
Qed.
