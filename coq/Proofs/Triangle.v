(* Proofs about Model/Triangle.v (filled triangle: Triangle::points(), Triangle::contains()).
   Structure:
     1. facts about Bresenham lines needed here (on top of Proofs/TriLine.v): membership by index, hull,
        rows are visited in order, every row of a line has a pixel less than one pixel from the ideal crossing;
     2. Scanline::extend / bresenham_intersection: the scanline of a row is the hull of the x coordinates of
        the edge pixels of that row;
     3. sorted_yx is a sorting network (permutation invariant), area_doubled changes sign only;
     4. Triangle::points(): membership characterisation, order independence, edges, interior, row-major order;
     5. Triangle::contains() versus points(). *)
From EG Require Import Base.Prelude Base.Lemmas Model.Geometry Model.Line Model.Triangle Proofs.Geometry Proofs.TriLine.
From Coq Require Import ZifyBool Sorting.Sorted.

Ltac Zify.zify_post_hook ::= Z.to_euclidean_division_equations.
Set Default Timeout 60.

(* ======================================================================== *)
(* 1. Bresenham lines                                                        *)
(* ======================================================================== *)

Lemma In_line_points l p :
  In p (line_points l) <-> exists k, 0 <= k <= ldmaj l /\ p = line_pt l k.
Proof.
  rewrite line_points_closed, in_map_iff. split.
  - intros (k & <- & Hk). apply In_range in Hk. exists k. split; [lia | reflexivity].
  - intros (k & Hk & ->). exists k. split; [reflexivity | apply In_range; lia].
Qed.

Lemma Mk_le_dmin dmaj dmin k : 0 <= dmin <= dmaj -> 0 <= k <= dmaj -> 0 <= Mk dmaj dmin k <= dmin.
Proof.
  intros Hd Hk. pose proof (Mk_range _ _ Hd k ltac:(lia)).
  pose proof (Mk_mono _ _ Hd k dmaj ltac:(lia)) as M. rewrite Mk_end in M by assumption. lia.
Qed.

(* every pixel of a line lies in the box spanned by its end points *)
Lemma line_points_hull l p :
  In p (line_points l) ->
  Z.min (px (l_start l)) (px (l_end l)) <= px p <= Z.max (px (l_start l)) (px (l_end l)) /\
  Z.min (py (l_start l)) (py (l_end l)) <= py p <= Z.max (py (l_start l)) (py (l_end l)).
Proof.
  intros H. apply In_line_points in H. destruct H as (k & Hk & ->).
  pose proof (ldm_ok l) as Hd. pose proof (Mk_le_dmin _ _ k Hd Hk) as M.
  unfold line_pt. set (m := Mk _ _ _) in *. clearbody m.
  destruct l as [[sx sy] [ex ey]]. unfl.
  destruct (Z.abs (ex - sx) <=? Z.abs (ey - sy)) eqn:T;
    destruct (0 <=? ex - sx) eqn:X; destruct (0 <=? ey - sy) eqn:Y; cbn [px py]; lia.
Qed.

(* the y coordinate of the k-th pixel *)
Lemma line_pt_y l k :
  py (line_pt l k) = py (l_start l) + (if y_major l then k else Mk (ldmaj l) (ldmin l) k) * sgn (ldy l).
Proof. unfold line_pt, fpt, lsmaj, lsmin. destruct (y_major l); cbn [px py]; lia. Qed.

Lemma line_pt_x l k :
  px (line_pt l k) = px (l_start l) + (if y_major l then Mk (ldmaj l) (ldmin l) k else k) * sgn (ldx l).
Proof. unfold line_pt, fpt, lsmaj, lsmin. destruct (y_major l); cbn [px py]; lia. Qed.

Lemma sorted_map_range_from {A} (R : A -> A -> Prop) (g : Z -> A) n : forall a,
  (forall i j, a <= i <= j -> j < a + Z.of_nat n -> R (g i) (g j)) ->
  StronglySorted R (map g (range_from a n)).
Proof.
  induction n as [|n IH]; intros a H; cbn [range_from map]; constructor.
  - apply IH. intros i j Hi Hj. apply H; lia.
  - apply Forall_forall. intros x Hx. apply in_map_iff in Hx. destruct Hx as (j & <- & Hj).
    apply In_range_from in Hj. apply H; lia.
Qed.

(* for a line that does not go up (start.y <= end.y) the rows are visited in order *)
Lemma line_rows_sorted l : 0 <= ldy l ->
  StronglySorted (fun a b => py a <= py b) (line_points l).
Proof.
  intros Hy. rewrite line_points_closed. unfold range. apply sorted_map_range_from.
  intros i j Hi Hj. rewrite !line_pt_y. pose proof (ldm_ok l) as Hd.
  assert (S1 : sgn (ldy l) = 1) by (unfold sgn; destruct (0 <=? ldy l) eqn:E; lia).
  rewrite S1. destruct (y_major l); [lia|].
  pose proof (Mk_mono _ _ Hd i j ltac:(lia)). lia.
Qed.

(* skip_while(!= y).take_while(== y) on a list whose keys are sorted is a filter *)
Lemma take_while_filter_ge {A} (f : A -> Z) y l :
  StronglySorted (fun a b => f a <= f b) l -> Forall (fun a => y <= f a) l ->
  take_while (fun a => f a =? y) l = filter (fun a => f a =? y) l.
Proof.
  induction l as [|x t IH]; intros Hs Hg; [reflexivity|].
  cbn [take_while filter]. inversion Hs as [|? ? Hs' Hx]; subst. inversion Hg as [|? ? Gx Gt]; subst.
  destruct (f x =? y) eqn:E.
  - f_equal. apply IH; assumption.
  - symmetry. apply filter_all_false. intros z Hz.
    rewrite Forall_forall in Hx. specialize (Hx z Hz). lia.
Qed.

Lemma skip_take_filter {A} (f : A -> Z) y l :
  StronglySorted (fun a b => f a <= f b) l ->
  take_while (fun a => f a =? y) (drop_while (fun a => negb (f a =? y)) l) = filter (fun a => f a =? y) l.
Proof.
  induction l as [|x t IH]; intros Hs; [reflexivity|].
  inversion Hs as [|? ? Hs' Hx]; subst. cbn [drop_while filter].
  destruct (f x =? y) eqn:E; cbn [negb].
  - cbn [take_while]. rewrite E. f_equal. apply take_while_filter_ge; [assumption|].
    rewrite Forall_forall in *. intros z Hz. specialize (Hx z Hz). lia.
  - apply IH. assumption.
Qed.

(* frame-free distance of a pixel from the ideal line, see TriLine.cross_to *)
Lemma cross_to_line_pt l k :
  Z.abs (cross_to l (line_pt l k)) = Z.abs (Mk (ldmaj l) (ldmin l) k * ldmaj l - k * ldmin l).
Proof. unfold line_pt. apply (frame_cross_dot l k). Qed.

(* Every row between the end points of a line that goes down (start.y < end.y) contains a pixel of the line
   that is horizontally LESS THAN ONE PIXEL from the point where the ideal line crosses the row:
   |cross| < dy  <=>  |x_pixel - x_crossing| < 1.
   Steep lines: the single pixel of the row is within 1/2.  Shallow lines: the pixel whose column is nearest to
   the crossing belongs to this row, because the line rises by less than one row per column. *)
Lemma line_row_pixel l y :
  0 < ldy l -> py (l_start l) <= y <= py (l_end l) ->
  exists p, In p (line_points l) /\ py p = y /\ Z.abs (cross_to l p) < ldy l.
Proof.
  intros Hy Hr. pose proof (ldm_ok l) as Hd.
  assert (S1 : sgn (ldy l) = 1) by (unfold sgn; destruct (0 <=? ldy l) eqn:E; lia).
  destruct (y_major l) eqn:YM.
  - (* steep *)
    assert (Emaj : ldmaj l = ldy l) by (unfold y_major in YM; unfold ldmaj; lia).
    set (k := y - py (l_start l)).
    assert (Hk : 0 <= k <= ldmaj l) by (unfold k, ldy in *; lia).
    exists (line_pt l k). split; [apply In_line_points; exists k; split; [assumption|reflexivity]|].
    split.
    + rewrite line_pt_y, YM, S1. unfold k. lia.
    + rewrite cross_to_line_pt. pose proof (Mk_half _ _ k Hd ltac:(lia)). lia.
  - (* shallow: dmin = dy > 0 *)
    assert (Emin : ldmin l = ldy l) by (unfold y_major in YM; unfold ldmin; lia).
    assert (Hlt : ldmin l < ldmaj l \/ ldmin l = ldmaj l) by lia.
    set (m := y - py (l_start l)).
    assert (Hm : 0 <= m <= ldmin l) by (unfold m, ldy in *; lia).
    set (a := ldmaj l) in *. set (b := ldmin l) in *.
    set (k := (2 * m * a + b) / (2 * b)).
    assert (Hb : 0 < b) by lia.
    assert (K1 : 2 * b * k <= 2 * m * a + b < 2 * b * k + 2 * b) by (unfold k; lia).
    clearbody k. assert (Hk : 0 <= k <= a) by nia.
    assert (HM : m = Mk a b k).
    { apply Mk_unique; [lia|]. nia. }
    exists (line_pt l k). split; [apply In_line_points; exists k; split; [assumption|reflexivity]|].
    split.
    + rewrite line_pt_y, YM, S1. fold a b. rewrite <- HM. unfold m. lia.
    + rewrite cross_to_line_pt. fold a b. rewrite <- HM, <- Emin. lia.
Qed.

(* horizontal line from left to right: every column between the end points *)
Lemma line_horizontal_pixels l x :
  ldy l = 0 -> 0 <= ldx l -> px (l_start l) <= x <= px (l_end l) ->
  In (P x (py (l_start l))) (line_points l).
Proof.
  intros Hy Hx Hr. pose proof (ldm_ok l) as Hd.
  apply In_line_points. set (k := x - px (l_start l)).
  assert (Emaj : ldmaj l = ldx l) by (unfold ldmaj; lia).
  assert (Emin : ldmin l = 0) by (unfold ldmin; lia).
  exists k. split; [unfold k, ldx in *; lia|].
  assert (M0 : Mk (ldmaj l) (ldmin l) k = 0).
  { destruct (Z.eq_dec (ldmaj l) 0) as [E|E]; [apply Mk_zero_len; assumption|].
    symmetry. apply Mk_unique; [lia|]. rewrite Emin. lia. }
  assert (S1 : sgn (ldx l) = 1) by (unfold sgn; destruct (0 <=? ldx l) eqn:E; lia).
  destruct (line_pt l k) as [qx qy] eqn:E.
  assert (X := line_pt_x l k). assert (Y := line_pt_y l k). rewrite E in X, Y. cbn [px py] in X, Y.
  assert (S2 : sgn (ldy l) = 1) by (unfold sgn; destruct (0 <=? ldy l) eqn:E2; lia).
  rewrite M0, S1, S2 in *. unfold y_major in *.
  destruct (Z.abs (ldx l) <=? Z.abs (ldy l)) eqn:T.
  - assert (ldx l = 0) by lia. f_equal; unfold k, ldx in *; lia.
  - f_equal; unfold k, ldx in *; lia.
Qed.

(* a row that the line reaches at all (start.y <= end.y, not necessarily strict) *)
Lemma line_row_nonempty l y :
  0 <= ldy l -> py (l_start l) <= y <= py (l_end l) -> exists p, In p (line_points l) /\ py p = y.
Proof.
  intros Hy Hr. destruct (Z.eq_dec (ldy l) 0) as [E|E].
  - exists (l_start l). split.
    + pose proof (line_first l) as F. destruct (line_points l); [discriminate|]. injection F as ->. left; reflexivity.
    + unfold ldy in *. lia.
  - destruct (line_row_pixel l y ltac:(lia) Hr) as (p & H1 & H2 & _). exists p. auto.
Qed.

(* a lattice point exactly on the ideal segment is a pixel of the line (lines that do not go up) *)
Lemma line_exact_point l q :
  0 <= ldy l ->
  (ldy l = 0 -> 0 <= ldx l /\ px (l_start l) <= px q <= px (l_end l)) ->
  cross_to l q = 0 ->
  py (l_start l) <= py q <= py (l_end l) ->
  In q (line_points l).
Proof.
  intros Hy Hx Hc Hry. destruct (Z.eq_dec (ldy l) 0) as [E|E].
  - destruct (Hx E) as [Hx1 Hx2]. replace q with (P (px q) (py (l_start l))).
    + apply line_horizontal_pixels; assumption.
    + destruct q as [qx qy]. cbn [px py] in *. f_equal. unfold ldy in *. lia.
  - destruct (line_row_pixel l (py q) ltac:(lia) Hry) as (p & Hp & Hpy & Hpc).
    replace q with p; [assumption|].
    destruct p as [x y], q as [qx qy]. cbn [px py] in *. subst y. f_equal.
    unfold cross_to in *. cbn [px py] in *.
    set (dy := ldy l) in *. set (dx := ldx l) in *. set (sx := px (l_start l)) in *. set (sy := py (l_start l)) in *.
    clearbody dy dx sx sy.
    assert (D : (x - sx) * dy - (qy - sy) * dx = (x - qx) * dy) by lia.
    rewrite D in Hpc. nia.
Qed.

(* ======================================================================== *)
(* 2. Scanline::extend, bresenham_intersection                               *)
(* ======================================================================== *)

Definition sl_has (s : scanline) (x : Z) : Prop := sl_start s <= x < sl_end s.

(* the scanline is the hull of the list of columns xs *)
Definition sl_hull (s : scanline) (xs : list Z) : Prop :=
  (sl_is_empty s = true /\ xs = []) \/
  (In (sl_start s) xs /\ In (sl_end s - 1) xs /\ forall x, In x xs -> sl_has s x).

Lemma sl_extend_y s x : sl_y (sl_extend s x) = sl_y s.
Proof. unfold sl_extend. destruct (sl_is_empty s), (x <? sl_start s), (sl_end s <=? x); reflexivity. Qed.

Lemma sl_extend_hull s xs x : sl_hull s xs -> sl_hull (sl_extend s x) (x :: xs).
Proof.
  unfold sl_hull, sl_has, sl_extend, sl_is_empty. destruct s as [y a b]. cbn [sl_start sl_end sl_y].
  intros [[He ->] | (Ha & Hb & Hall)].
  - rewrite He. cbn [sl_start sl_end]. right. cbn [In].
    split; [left; reflexivity|]. split; [left; lia|]. intros z [<-|[]]. lia.
  - pose proof (Hall _ Ha) as A. assert (E : negb (a <? b) = false) by lia. rewrite E.
    right. destruct (x <? a) eqn:T1; [|destruct (b <=? x) eqn:T2]; cbn [sl_start sl_end In].
    + split; [left; reflexivity|]. split; [right; assumption|].
      intros z [<-|Hz]; [lia|]. specialize (Hall z Hz). lia.
    + split; [right; assumption|]. split; [left; lia|].
      intros z [<-|Hz]; [lia|]. specialize (Hall z Hz). lia.
    + split; [right; assumption|]. split; [right; assumption|].
      intros z [<-|Hz]; [lia|]. specialize (Hall z Hz). lia.
Qed.

Lemma sl_hull_perm s xs ys : (forall x, In x xs <-> In x ys) -> sl_hull s xs -> sl_hull s ys.
Proof.
  intros H [[He ->] | (Ha & Hb & Hall)].
  - left. split; [assumption|]. destruct ys as [|z ys]; [reflexivity|]. exfalso. apply (H z). left; reflexivity.
  - right. split; [apply H; assumption|]. split; [apply H; assumption|]. intros x Hx. apply Hall, H, Hx.
Qed.

Lemma fold_extend_hull (ps : list point) : forall s xs,
  sl_hull s xs ->
  sl_hull (fold_left (fun acc p => sl_extend acc (px p)) ps s) (rev (map px ps) ++ xs) /\
  sl_y (fold_left (fun acc p => sl_extend acc (px p)) ps s) = sl_y s.
Proof.
  induction ps as [|p ps IH]; intros s xs H; cbn [fold_left map rev app]; [split; [assumption|reflexivity]|].
  destruct (IH (sl_extend s (px p)) (px p :: xs) (sl_extend_hull _ _ _ H)) as [A B].
  rewrite <- app_assoc. cbn [app]. split; [assumption|]. rewrite B. apply sl_extend_y.
Qed.

Definition row_of (y : Z) (ps : list point) : list point := filter (fun p => py p =? y) ps.

(* Scanline::bresenham_intersection for a line with start.y <= end.y: the pixels of the line in the
   scanline's row are added to the scanline (nothing when the row is outside the line's y range) *)
Lemma bresenham_intersection_filter s l : 0 <= ldy l ->
  bresenham_intersection s l =
  fold_left (fun acc p => sl_extend acc (px p)) (row_of (sl_y s) (line_points l)) s.
Proof.
  intros Hy. unfold bresenham_intersection.
  assert (E : (py (l_start l) <=? py (l_end l)) = true) by (unfold ldy in Hy; lia). rewrite E.
  destruct (negb _) eqn:T.
  - unfold row_of. rewrite filter_all_false; [reflexivity|].
    intros p Hp. apply line_points_hull in Hp. unfold ldy in Hy. lia.
  - unfold row_of. rewrite skip_take_filter; [reflexivity|]. apply line_rows_sorted. assumption.
Qed.

Lemma bresenham_intersection_hull s l xs : 0 <= ldy l -> sl_hull s xs ->
  sl_hull (bresenham_intersection s l) (rev (map px (row_of (sl_y s) (line_points l))) ++ xs) /\
  sl_y (bresenham_intersection s l) = sl_y s.
Proof. intros Hy H. rewrite bresenham_intersection_filter by assumption. apply fold_extend_hull. assumption. Qed.

Lemma sl_hull_empty y : sl_hull (sl_new_empty y) [].
Proof. left. split; reflexivity. Qed.

(* consequences of sl_hull *)
Lemma sl_hull_in s xs x : sl_hull s xs -> In x xs -> sl_has s x.
Proof. intros [[_ ->]|(_ & _ & H)] Hx; [destruct Hx | apply H; assumption]. Qed.

Lemma sl_hull_between s xs x : sl_hull s xs -> sl_has s x ->
  exists a b, In a xs /\ In b xs /\ a <= x <= b.
Proof.
  unfold sl_hull, sl_has, sl_is_empty. intros [[He _]|(Ha & Hb & _)] Hx; [lia|].
  exists (sl_start s), (sl_end s - 1). repeat split; try assumption; lia.
Qed.

Lemma sl_hull_covers s xs a b x : sl_hull s xs -> In a xs -> In b xs -> a <= x <= b -> sl_has s x.
Proof.
  intros H Ha Hb Hx. pose proof (sl_hull_in _ _ _ H Ha). pose proof (sl_hull_in _ _ _ H Hb).
  unfold sl_has in *. lia.
Qed.

Lemma sl_hull_nonempty s xs x : sl_hull s xs -> In x xs -> sl_is_empty s = false.
Proof. intros H Hx. pose proof (sl_hull_in _ _ _ H Hx) as A. unfold sl_has, sl_is_empty in *. lia. Qed.

Lemma In_sl_points s q : In q (sl_points s) <-> py q = sl_y s /\ sl_has s (px q).
Proof.
  unfold sl_points, sl_has. rewrite in_map_iff. split.
  - intros (x & <- & Hx). apply In_range in Hx. cbn [px py]. split; [reflexivity | lia].
  - intros [Hy Hx]. exists (px q). split; [destruct q as [qx qy]; cbn [px py] in *; subst; reflexivity | apply In_range; lia].
Qed.

(* ======================================================================== *)
(* 3. sorted_yx, area_doubled, bounding box under permutations of vertices   *)
(* ======================================================================== *)

Definition le_yx (a b : point) : Prop := py a < py b \/ (py a = py b /\ px a <= px b).

(* u has the vertices of t in some order *)
Definition perm3 (t u : triangle) : Prop :=
  u = T (v1 t) (v2 t) (v3 t) \/ u = T (v1 t) (v3 t) (v2 t) \/ u = T (v2 t) (v1 t) (v3 t) \/
  u = T (v2 t) (v3 t) (v1 t) \/ u = T (v3 t) (v1 t) (v2 t) \/ u = T (v3 t) (v2 t) (v1 t).

Definition sorted3 (s : triangle) : Prop := le_yx (v1 s) (v2 s) /\ le_yx (v2 s) (v3 s).

Ltac pick_refl := solve [repeat (first [reflexivity | left; reflexivity | right])].
Ltac destr_tri t :=
  let ax := fresh "ax" in let ay := fresh "ay" in let bx := fresh "bx" in let by_ := fresh "by_" in
  let cx := fresh "cx" in let cy := fresh "cy" in
  destruct t as [[ax ay] [bx by_] [cx cy]].
Ltac perm_cases H := destruct H as [H|[H|[H|[H|[H|H]]]]]; subst.

Lemma perm3_refl t : perm3 t t.
Proof. destruct t as [a b c]. left. reflexivity. Qed.

Lemma perm3_sym t u : perm3 t u -> perm3 u t.
Proof. destruct t as [a b c]. intros H. unfold perm3 in *. cbn [v1 v2 v3] in *. perm_cases H; cbn [v1 v2 v3]; pick_refl. Qed.

Lemma perm3_trans t u w : perm3 t u -> perm3 u w -> perm3 t w.
Proof.
  destruct t as [a b c]. intros H1 H2. unfold perm3 in *. cbn [v1 v2 v3] in *.
  perm_cases H1; cbn [v1 v2 v3] in *; perm_cases H2; pick_refl.
Qed.

Lemma sorted_yx_spec t : perm3 t (sorted_yx t) /\ sorted3 (sorted_yx t).
Proof.
  destr_tri t. unfold sorted_yx, sort_two_yx. cbn [v1 v2 v3 px py].
  repeat (match goal with |- context [if ?c then _ else _] => destruct c eqn:? end;
          cbv beta iota zeta; cbn [v1 v2 v3 px py]).
  all: split; [unfold perm3; cbn [v1 v2 v3]; pick_refl | unfold sorted3, le_yx; cbn [v1 v2 v3 px py]; lia].
Qed.

Lemma sorted3_unique t s s' : perm3 t s -> perm3 t s' -> sorted3 s -> sorted3 s' -> s = s'.
Proof.
  destr_tri t. unfold perm3, sorted3, le_yx. cbn [v1 v2 v3]. intros H1 H2 S1 S2.
  perm_cases H1; perm_cases H2; cbn [v1 v2 v3 px py] in *; repeat f_equal; lia.
Qed.

(* sorted_yx is a sorting network for the total order (y, x): the result depends on the set of vertices only *)
Lemma sorted_yx_perm t u : perm3 t u -> sorted_yx u = sorted_yx t.
Proof.
  intros H. destruct (sorted_yx_spec t) as [P1 S1]. destruct (sorted_yx_spec u) as [P2 S2].
  apply (sorted3_unique t); try assumption. apply (perm3_trans t u); assumption.
Qed.

Lemma area_doubled_perm t u : perm3 t u -> (area_doubled u =? 0) = (area_doubled t =? 0).
Proof.
  destr_tri t. intros H. unfold perm3 in H. cbn [v1 v2 v3] in H.
  perm_cases H; unfold area_doubled; cbn [v1 v2 v3 px py]; lia.
Qed.

Lemma bounding_box_perm t u : perm3 t u -> tri_bounding_box u = tri_bounding_box t.
Proof.
  destr_tri t. intros H. unfold perm3 in H. cbn [v1 v2 v3] in H.
  perm_cases H; unfold tri_bounding_box, with_corners, size_from_bounding_box; cbn [v1 v2 v3 px py];
    f_equal; f_equal; lia.
Qed.

Lemma sorted_clockwise_perm t : perm3 t (sorted_clockwise t).
Proof.
  unfold sorted_clockwise. destruct (area_doubled t ?= 0).
  - apply sorted_yx_spec.
  - destruct t as [a b c]. unfold perm3. cbn [v1 v2 v3]. pick_refl.
  - apply perm3_refl.
Qed.

Lemma scanline_intersection_perm t u y : perm3 t u ->
  tri_scanline_intersection u y = tri_scanline_intersection t y.
Proof.
  intros H. unfold tri_scanline_intersection. rewrite (sorted_yx_perm t u H), (area_doubled_perm t u H). reflexivity.
Qed.

(* the iterator never looks at the vertex order *)
Definition scanlines_of (f : Z -> scanline) (rs : Z * Z) : list scanline :=
  match range (fst rs) (snd rs) with
  | [] => []
  | y :: r => (if sl_is_empty (f y) then [] else [f y]) ++ take_while (fun s => negb (sl_is_empty s)) (map f r)
  end.

Lemma tri_scanlines_eq t :
  tri_scanlines t = scanlines_of (tri_scanline_intersection t) (rows (tri_bounding_box t)).
Proof.
  unfold tri_scanlines, scanlines_of. destruct (rows (tri_bounding_box t)) as [y0 y1]. cbn [fst snd].
  destruct (range y0 y1) as [|y r]; [reflexivity|].
  pose proof (sorted_clockwise_perm t) as H.
  rewrite (scanline_intersection_perm t _ y H). f_equal. f_equal.
  apply map_ext. intros z. apply scanline_intersection_perm. assumption.
Qed.

(* tri_order_independent (DESIGN C19) *)
Theorem tri_points_perm t u : perm3 t u -> tri_points u = tri_points t.
Proof.
  intros H. unfold tri_points. rewrite !tri_scanlines_eq. rewrite (bounding_box_perm t u H).
  unfold scanlines_of. destruct (range _ _) as [|y r]; [reflexivity|].
  rewrite (scanline_intersection_perm t u y H). f_equal. f_equal. f_equal.
  apply map_ext. intros z. apply scanline_intersection_perm. assumption.
Qed.

(* ======================================================================== *)
(* 4. Triangle::points()                                                     *)
(* ======================================================================== *)

(* Range hypothesis: all vertex coordinates within +-2^13.  In this range every product and sum in
   area_doubled and in contains() stays below 2^30 in absolute value (see tri_no_overflow), the bounding box
   arithmetic does not saturate, and the Bresenham error terms of the edges fit (TriLine.line_ok needs 2^28). *)
Definition tbound : Z := 8192.
Definition tpoint_ok (p : point) : Prop := - tbound <= px p <= tbound /\ - tbound <= py p <= tbound.
Definition tri_ok (t : triangle) : Prop := tpoint_ok (v1 t) /\ tpoint_ok (v2 t) /\ tpoint_ok (v3 t).

Lemma tri_ok_perm t u : perm3 t u -> tri_ok t -> tri_ok u.
Proof.
  destruct t as [a b c]. unfold perm3, tri_ok. cbn [v1 v2 v3]. intros H (A & B & C).
  perm_cases H; cbn [v1 v2 v3]; auto.
Qed.

(* the pixels that bound the rows of the filled triangle: the three Bresenham lines between the (y,x)-sorted
   vertices; for colinear vertices only the line between the two extreme ones (mod.rs:226-230) *)
Definition tri_fill_edges (t : triangle) : list point :=
  let st := sorted_yx t in
  if area_doubled t =? 0 then line_points (L (v1 st) (v3 st)) else tri_edge_points t.

Lemma sorted_ys t : let st := sorted_yx t in py (v1 st) <= py (v2 st) <= py (v3 st).
Proof. destruct (sorted_yx_spec t) as [_ [A B]]. unfold le_yx in *. cbv zeta. lia. Qed.

Lemma In_row_of y ps x : In x (map px (row_of y ps)) <-> In (P x y) ps.
Proof.
  unfold row_of. rewrite in_map_iff. split.
  - intros (p & <- & Hp). apply filter_In in Hp. destruct Hp as [Hp E].
    destruct p as [qx qy]. cbn [px py] in *. replace y with qy by lia. assumption.
  - intros H. exists (P x y). split; [reflexivity|]. apply filter_In. split; [assumption|]. cbn [py]. lia.
Qed.

(* the scanline of row y is the hull of the edge pixels of that row *)
Lemma tri_scanline_hull t y :
  sl_y (tri_scanline_intersection t y) = y /\
  exists xs, sl_hull (tri_scanline_intersection t y) xs /\ forall x, In x xs <-> In (P x y) (tri_fill_edges t).
Proof.
  pose proof (sorted_ys t) as Hs. cbv zeta in Hs.
  unfold tri_scanline_intersection, tri_fill_edges, tri_edge_points.
  set (st := sorted_yx t) in *. destruct (area_doubled t =? 0).
  - destruct (bresenham_intersection_hull (sl_new_empty y) (L (v1 st) (v3 st)) [] ) as [A B];
      [unfold ldy; cbn [l_start l_end]; lia | apply sl_hull_empty |].
    split; [rewrite B; reflexivity|]. eexists. split; [exact A|].
    intros x. cbn [sl_new_empty sl_y]. rewrite app_nil_r, <- in_rev. apply In_row_of.
  - destruct (bresenham_intersection_hull (sl_new_empty y) (L (v1 st) (v2 st)) []) as [A1 B1];
      [unfold ldy; cbn [l_start l_end]; lia | apply sl_hull_empty |].
    destruct (bresenham_intersection_hull _ (L (v1 st) (v3 st)) _ ltac:(unfold ldy; cbn [l_start l_end]; lia) A1) as [A2 B2].
    destruct (bresenham_intersection_hull _ (L (v2 st) (v3 st)) _ ltac:(unfold ldy; cbn [l_start l_end]; lia) A2) as [A3 B3].
    split; [rewrite B3, B2, B1; reflexivity|]. eexists. split; [exact A3|].
    intros x. rewrite B2, B1. cbn [sl_new_empty sl_y]. rewrite app_nil_r.
    rewrite !in_app_iff, <- !in_rev, !In_row_of. tauto.
Qed.

Lemma tri_scanline_y t y : sl_y (tri_scanline_intersection t y) = y.
Proof. apply tri_scanline_hull. Qed.

Lemma tri_scanline_in t x y : In (P x y) (tri_fill_edges t) -> sl_has (tri_scanline_intersection t y) x.
Proof.
  intros H. destruct (tri_scanline_hull t y) as [_ (xs & Hh & Hx)]. eapply sl_hull_in; [eassumption|]. apply Hx, H.
Qed.

Lemma tri_scanline_between t x y : sl_has (tri_scanline_intersection t y) x ->
  exists a b, In (P a y) (tri_fill_edges t) /\ In (P b y) (tri_fill_edges t) /\ a <= x <= b.
Proof.
  intros H. destruct (tri_scanline_hull t y) as [_ (xs & Hh & Hx)].
  destruct (sl_hull_between _ _ _ Hh H) as (a & b & Ha & Hb & Hab).
  exists a, b. rewrite <- !Hx. auto.
Qed.

Lemma tri_scanline_covers t a b x y :
  In (P a y) (tri_fill_edges t) -> In (P b y) (tri_fill_edges t) -> a <= x <= b ->
  sl_has (tri_scanline_intersection t y) x.
Proof.
  intros Ha Hb Hx. destruct (tri_scanline_hull t y) as [_ (xs & Hh & Hxs)].
  eapply sl_hull_covers; [eassumption | apply Hxs, Ha | apply Hxs, Hb | assumption].
Qed.

(* the line between the extreme vertices belongs to the fill edges in both cases *)
Lemma long_edge_in_fill_edges t p :
  In p (line_points (L (v1 (sorted_yx t)) (v3 (sorted_yx t)))) -> In p (tri_fill_edges t).
Proof.
  unfold tri_fill_edges, tri_edge_points. destruct (area_doubled t =? 0); [auto|].
  intros H. rewrite !in_app_iff. auto.
Qed.

(* every fill-edge pixel lies in the bounding box *)
Lemma sorted_bbox_coords t :
  let st := sorted_yx t in
  let bb := tri_bounding_box t in
  px (tl bb) = Z.min (Z.min (px (v1 st)) (px (v2 st))) (px (v3 st)) /\
  px (tl bb) + sw (sz bb) - 1 = Z.max (Z.max (px (v1 st)) (px (v2 st))) (px (v3 st)) /\
  py (tl bb) = py (v1 st) /\ py (tl bb) + sh (sz bb) - 1 = py (v3 st).
Proof.
  cbv zeta. pose proof (sorted_ys t) as Hs. cbv zeta in Hs.
  rewrite <- (bounding_box_perm _ _ (proj1 (sorted_yx_spec t))).
  set (st := sorted_yx t) in *. clearbody st. destr_tri st.
  unfold tri_bounding_box, with_corners, size_from_bounding_box. cbn [v1 v2 v3 px py tl sz sw sh] in *.
  repeat split; lia.
Qed.

Lemma fill_edges_in_bbox t p : In p (tri_fill_edges t) -> contains (tri_bounding_box t) p = true.
Proof.
  intros H. apply contains_spec. pose proof (sorted_bbox_coords t) as B. cbv zeta in B.
  pose proof (sorted_ys t) as Hs. cbv zeta in Hs.
  assert (E : In p (line_points (L (v1 (sorted_yx t)) (v2 (sorted_yx t)))) \/
              In p (line_points (L (v1 (sorted_yx t)) (v3 (sorted_yx t)))) \/
              In p (line_points (L (v2 (sorted_yx t)) (v3 (sorted_yx t))))).
  { unfold tri_fill_edges, tri_edge_points in H. destruct (area_doubled t =? 0); [auto|].
    rewrite !in_app_iff in H. tauto. }
  set (st := sorted_yx t) in *. clearbody st.
  destruct E as [E|[E|E]]; apply line_points_hull in E; cbn [l_start l_end] in E; lia.
Qed.

(* rows of the bounding box, no saturation *)
Lemma tri_rows t : tri_ok t ->
  rows (tri_bounding_box t) = (py (v1 (sorted_yx t)), py (v3 (sorted_yx t)) + 1).
Proof.
  intros Hok. pose proof (sorted_bbox_coords t) as B. cbv zeta in B. destruct B as (_ & _ & B1 & B2).
  pose proof (tri_ok_perm _ _ (proj1 (sorted_yx_spec t)) Hok) as (O1 & _ & O3).
  pose proof (sorted_ys t) as Hs. cbv zeta in Hs.
  unfold rows, sat_add_i32, sat_u32_to_i32, i32_max, i32_min. unfold tpoint_ok, tbound in *.
  set (st := sorted_yx t) in *. clearbody st.
  f_equal; lia.
Qed.

Lemma take_while_all {A} (f : A -> bool) l : (forall x, In x l -> f x = true) -> take_while f l = l.
Proof.
  induction l as [|x t IH]; intros H; [reflexivity|]. cbn [take_while].
  rewrite (H x) by (left; reflexivity). f_equal. apply IH. intros; apply H; right; assumption.
Qed.

(* no row of the bounding box is empty, so the iteration never stops early *)
Lemma tri_row_nonempty t y : py (v1 (sorted_yx t)) <= y <= py (v3 (sorted_yx t)) ->
  sl_is_empty (tri_scanline_intersection t y) = false.
Proof.
  intros Hy. destruct (line_row_nonempty (L (v1 (sorted_yx t)) (v3 (sorted_yx t))) y) as (p & Hp & Hpy).
  - pose proof (sorted_ys t) as Hs. cbv zeta in Hs. unfold ldy. cbn [l_start l_end]. lia.
  - cbn [l_start l_end]. assumption.
  - destruct (tri_scanline_hull t y) as [_ (xs & Hh & Hx)].
    apply (sl_hull_nonempty _ xs (px p)); [assumption|]. apply Hx. apply long_edge_in_fill_edges.
    destruct p as [qx qy]. cbn [px py] in *. subst. assumption.
Qed.

Lemma tri_scanlines_all t : tri_ok t ->
  tri_scanlines t = map (tri_scanline_intersection t) (range (py (v1 (sorted_yx t))) (py (v3 (sorted_yx t)) + 1)).
Proof.
  intros Hok. rewrite tri_scanlines_eq, tri_rows by assumption. unfold scanlines_of. cbn [fst snd].
  assert (Hall : forall y, In y (range (py (v1 (sorted_yx t))) (py (v3 (sorted_yx t)) + 1)) ->
                 sl_is_empty (tri_scanline_intersection t y) = false).
  { intros y Hy. apply In_range in Hy. apply tri_row_nonempty. lia. }
  destruct (range _ _) as [|y r]; [reflexivity|]. cbn [map].
  rewrite (Hall y) by (left; reflexivity). cbn [app]. f_equal.
  apply take_while_all. intros s Hs. apply in_map_iff in Hs. destruct Hs as (z & <- & Hz).
  rewrite (Hall z) by (right; assumption). reflexivity.
Qed.

(* membership in points() *)
Lemma In_tri_points t q : tri_ok t ->
  (In q (tri_points t) <->
   py (v1 (sorted_yx t)) <= py q <= py (v3 (sorted_yx t)) /\ sl_has (tri_scanline_intersection t (py q)) (px q)).
Proof.
  intros Hok. unfold tri_points. rewrite tri_scanlines_all by assumption. rewrite in_flat_map. split.
  - intros (s & Hs & Hq). apply in_map_iff in Hs. destruct Hs as (y & <- & Hy). apply In_range in Hy.
    apply In_sl_points in Hq. rewrite tri_scanline_y in Hq. destruct Hq as [-> Hq]. split; [lia | assumption].
  - intros [Hy Hq]. exists (tri_scanline_intersection t (py q)). split.
    + apply in_map. apply In_range. lia.
    + apply In_sl_points. rewrite tri_scanline_y. split; [reflexivity | assumption].
Qed.

(* tri_contains_edges (DESIGN C19): the Bresenham lines between the sorted vertices are part of the fill *)
Theorem fill_edges_in_points t p : tri_ok t -> In p (tri_fill_edges t) -> In p (tri_points t).
Proof.
  intros Hok Hp. apply In_tri_points; [assumption|]. split.
  - pose proof (fill_edges_in_bbox t p Hp) as C. apply contains_spec in C.
    pose proof (sorted_bbox_coords t) as B. cbv zeta in B. lia.
  - apply tri_scanline_in. destruct p as [qx qy]. exact Hp.
Qed.

(* every yielded point lies, in its row, between two edge pixels (the provable part of "within one pixel") *)
Theorem points_between_edge_pixels t q : tri_ok t -> In q (tri_points t) ->
  exists a b, In (P a (py q)) (tri_fill_edges t) /\ In (P b (py q)) (tri_fill_edges t) /\ a <= px q <= b.
Proof. intros Hok Hq. apply In_tri_points in Hq; [|assumption]. apply tri_scanline_between. apply Hq. Qed.

Theorem points_in_bbox t q : tri_ok t -> In q (tri_points t) -> contains (tri_bounding_box t) q = true.
Proof.
  intros Hok Hq. destruct (points_between_edge_pixels t q Hok Hq) as (a & b & Ha & Hb & Hab).
  apply fill_edges_in_bbox in Ha, Hb. apply contains_spec in Ha, Hb. apply contains_spec. cbn [px py] in *. lia.
Qed.

(* ---- the mathematical triangle ------------------------------------------------------------- *)

(* (a - o) x (b - o) *)
Definition cross (o a b : point) : Z := (px a - px o) * (py b - py o) - (py a - py o) * (px b - px o).

(* q lies in the closed triangle: on the same side of (or on) all three directed edge lines.  For colinear
   vertices this holds for every point of the line through them, which is why the degenerate statement
   below also asks for the bounding box. *)
Definition in_closed_tri (t : triangle) (q : point) : Prop :=
  let d1 := cross (v1 t) (v2 t) q in
  let d2 := cross (v2 t) (v3 t) q in
  let d3 := cross (v3 t) (v1 t) q in
  (0 <= d1 /\ 0 <= d2 /\ 0 <= d3) \/ (d1 <= 0 /\ d2 <= 0 /\ d3 <= 0).

Lemma in_closed_tri_perm t u q : perm3 t u -> in_closed_tri t q -> in_closed_tri u q.
Proof.
  destr_tri t. destruct q as [qx qy]. unfold perm3, in_closed_tri, cross. cbn [v1 v2 v3]. intros H.
  perm_cases H; cbn [v1 v2 v3 px py]; lia.
Qed.

Lemma area_is_cross t : area_doubled t = cross (v1 t) (v2 t) (v3 t).
Proof. destr_tri t. unfold area_doubled, cross. cbn [v1 v2 v3 px py]. lia. Qed.

Lemma cross_sum t q :
  cross (v1 t) (v2 t) q + cross (v2 t) (v3 t) q + cross (v3 t) (v1 t) q = area_doubled t.
Proof. destr_tri t. destruct q as [qx qy]. unfold area_doubled, cross. cbn [v1 v2 v3 px py]. lia. Qed.

(* barycentric coordinates: area * q = d2 * v1 + d3 * v2 + d1 * v3 *)
Lemma bary_x t q :
  area_doubled t * px q =
  cross (v2 t) (v3 t) q * px (v1 t) + cross (v3 t) (v1 t) q * px (v2 t) + cross (v1 t) (v2 t) q * px (v3 t).
Proof. destr_tri t. destruct q as [qx qy]. unfold area_doubled, cross. cbn [v1 v2 v3 px py]. lia. Qed.

Lemma bary_y t q :
  area_doubled t * py q =
  cross (v2 t) (v3 t) q * py (v1 t) + cross (v3 t) (v1 t) q * py (v2 t) + cross (v1 t) (v2 t) q * py (v3 t).
Proof. destr_tri t. destruct q as [qx qy]. unfold area_doubled, cross. cbn [v1 v2 v3 px py]. lia. Qed.

Lemma bary_bounds d1 d2 d3 a b c q lo hi :
  0 <= d1 -> 0 <= d2 -> 0 <= d3 -> 0 < d1 + d2 + d3 ->
  (d1 + d2 + d3) * q = d2 * a + d3 * b + d1 * c ->
  lo <= a <= hi -> lo <= b <= hi -> lo <= c <= hi -> lo <= q <= hi.
Proof.
  intros H1 H2 H3 Hs E Ha Hb Hc.
  assert (A1 : d2 * lo <= d2 * a <= d2 * hi) by nia.
  assert (A2 : d3 * lo <= d3 * b <= d3 * hi) by nia.
  assert (A3 : d1 * lo <= d1 * c <= d1 * hi) by nia.
  assert (L1 : (d1 + d2 + d3) * lo <= (d1 + d2 + d3) * q) by lia.
  assert (L2 : (d1 + d2 + d3) * q <= (d1 + d2 + d3) * hi) by lia.
  split; nia.
Qed.

(* a point of the closed triangle with non-zero area lies in the bounding box *)
Lemma closed_tri_in_bbox t q : area_doubled t <> 0 -> in_closed_tri t q ->
  contains (tri_bounding_box t) q = true.
Proof.
  intros Ha Hin. pose proof (cross_sum t q) as S. pose proof (bary_x t q) as BX. pose proof (bary_y t q) as BY.
  unfold in_closed_tri in Hin. cbv zeta in Hin.
  set (d1 := cross (v1 t) (v2 t) q) in *. set (d2 := cross (v2 t) (v3 t) q) in *. set (d3 := cross (v3 t) (v1 t) q) in *.
  clearbody d1 d2 d3. rewrite <- S in *. clear S.
  apply contains_spec. destr_tri t. destruct q as [qx qy].
  unfold tri_bounding_box, with_corners, size_from_bounding_box. cbn [v1 v2 v3 px py tl sz sw sh] in *.
  set (xlo := Z.min (Z.min ax bx) cx). set (xhi := Z.max (Z.max ax bx) cx).
  set (ylo := Z.min (Z.min ay by_) cy). set (yhi := Z.max (Z.max ay by_) cy).
  assert (X : xlo <= qx <= xhi).
  { destruct Hin as [(H1 & H2 & H3) | (H1 & H2 & H3)].
    - apply (bary_bounds d1 d2 d3 ax bx cx); try assumption; unfold xlo, xhi; lia.
    - apply (bary_bounds (-d1) (-d2) (-d3) ax bx cx); try lia; unfold xlo, xhi; lia. }
  assert (Y : ylo <= qy <= yhi).
  { destruct Hin as [(H1 & H2 & H3) | (H1 & H2 & H3)].
    - apply (bary_bounds d1 d2 d3 ay by_ cy); try assumption; unfold ylo, yhi; lia.
    - apply (bary_bounds (-d1) (-d2) (-d3) ay by_ cy); try lia; unfold ylo, yhi; lia. }
  unfold xlo, xhi, ylo, yhi in *. lia.
Qed.

(* ---- one edge: a pixel of the row on the required side ---------------------------------------- *)
Lemma edge_pixel_left l q :
  0 < ldy l -> py (l_start l) <= py q <= py (l_end l) -> 0 <= cross_to l q ->
  exists p, In p (line_points l) /\ py p = py q /\ px p <= px q.
Proof.
  intros Hy Hr Hc. destruct (line_row_pixel l (py q) Hy Hr) as (p & Hp & Hpy & Hpc).
  exists p. split; [assumption|]. split; [assumption|].
  unfold cross_to in *. rewrite Hpy in Hpc.
  set (dy := ldy l) in *. set (dx := ldx l) in *. set (sx := px (l_start l)) in *. set (sy := py (l_start l)) in *.
  clearbody dy dx sx sy.
  assert (D : (px p - sx) * dy - (py q - sy) * dx = ((px q - sx) * dy - (py q - sy) * dx) + (px p - px q) * dy) by lia.
  rewrite D in Hpc. nia.
Qed.

Lemma edge_pixel_right l q :
  0 < ldy l -> py (l_start l) <= py q <= py (l_end l) -> cross_to l q <= 0 ->
  exists p, In p (line_points l) /\ py p = py q /\ px q <= px p.
Proof.
  intros Hy Hr Hc. destruct (line_row_pixel l (py q) Hy Hr) as (p & Hp & Hpy & Hpc).
  exists p. split; [assumption|]. split; [assumption|].
  unfold cross_to in *. rewrite Hpy in Hpc.
  set (dy := ldy l) in *. set (dx := ldx l) in *. set (sx := px (l_start l)) in *. set (sy := py (l_start l)) in *.
  clearbody dy dx sx sy.
  assert (D : (px p - sx) * dy - (py q - sy) * dx = ((px q - sx) * dy - (py q - sy) * dx) + (px p - px q) * dy) by lia.
  rewrite D in Hpc. nia.
Qed.

Lemma cross_to_cross a b q : cross_to (L a b) q = - cross a b q.
Proof. unfold cross_to, cross, ldx, ldy. cbn [l_start l_end]. lia. Qed.

Lemma cross_to_cross_rev a b q : cross_to (L a b) q = cross b a q.
Proof. unfold cross_to, cross, ldx, ldy. cbn [l_start l_end]. lia. Qed.

Lemma flat_sorted_zero_area s : sorted3 s -> py (v1 s) = py (v3 s) -> area_doubled s = 0.
Proof.
  destr_tri s. unfold sorted3, le_yx, area_doubled. cbn [v1 v2 v3 px py]. intros H E.
  assert (ay = by_) by lia. assert (by_ = cy) by lia. subst. lia.
Qed.

(* tri_covers_interior (DESIGN C19), triangles with non-zero area: every lattice point of the closed
   mathematical triangle is yielded by points() *)
Theorem covers_interior_nondeg t q : tri_ok t -> area_doubled t <> 0 -> in_closed_tri t q -> In q (tri_points t).
Proof.
  intros Hok Ha Hin.
  pose proof (closed_tri_in_bbox t q Ha Hin) as Hbb. apply contains_spec in Hbb.
  pose proof (sorted_bbox_coords t) as B. cbv zeta in B. destruct B as (_ & _ & B1 & B2).
  destruct (sorted_yx_spec t) as [Hp Hs].
  pose proof (in_closed_tri_perm _ _ q Hp Hin) as Hin'.
  assert (Ha' : area_doubled (sorted_yx t) <> 0).
  { pose proof (area_doubled_perm _ _ Hp). lia. }
  pose proof (sorted_ys t) as Hys. cbv zeta in Hys.
  assert (Hlong : py (v1 (sorted_yx t)) < py (v3 (sorted_yx t))).
  { destruct (Z.eq_dec (py (v1 (sorted_yx t))) (py (v3 (sorted_yx t)))) as [E|E]; [|lia].
    exfalso. apply Ha'. apply flat_sorted_zero_area; assumption. }
  assert (Hrow : py (v1 (sorted_yx t)) <= py q <= py (v3 (sorted_yx t))) by lia.
  apply In_tri_points; [assumption|]. split; [assumption|].
  assert (Hedges : forall p, In p (line_points (L (v1 (sorted_yx t)) (v2 (sorted_yx t)))) \/
                             In p (line_points (L (v1 (sorted_yx t)) (v3 (sorted_yx t)))) \/
                             In p (line_points (L (v2 (sorted_yx t)) (v3 (sorted_yx t)))) ->
                             In p (tri_fill_edges t)).
  { intros p H. unfold tri_fill_edges, tri_edge_points.
    assert (E : (area_doubled t =? 0) = false) by lia. rewrite E. rewrite !in_app_iff. tauto. }
  unfold in_closed_tri in Hin'. cbv zeta in Hin'.
  set (p1 := v1 (sorted_yx t)) in *. set (p2 := v2 (sorted_yx t)) in *. set (p3 := v3 (sorted_yx t)) in *.
  clear B1 B2 Hbb Hin Ha Ha' Hp Hs.
  (* the long edge p1-p3 bounds every row on one side *)
  assert (L13 : 0 < ldy (L p1 p3)) by (unfold ldy; cbn [l_start l_end]; lia).
  assert (R13 : py (l_start (L p1 p3)) <= py q <= py (l_end (L p1 p3))) by (cbn [l_start l_end]; lia).
  pose proof (cross_to_cross_rev p1 p3 q) as C13.
  assert (Hcase : (py q <= py p2 /\ py p1 < py p2) \/ (py p2 <= py q /\ py p2 < py p3)) by lia.
  destruct Hcase as [[Hq H12] | [Hq H23]].
  - (* upper part: edges p1-p2 and p1-p3 *)
    assert (L12 : 0 < ldy (L p1 p2)) by (unfold ldy; cbn [l_start l_end]; lia).
    assert (R12 : py (l_start (L p1 p2)) <= py q <= py (l_end (L p1 p2))) by (cbn [l_start l_end]; lia).
    pose proof (cross_to_cross p1 p2 q) as C12.
    destruct Hin' as [(D1 & D2 & D3) | (D1 & D2 & D3)].
    + destruct (edge_pixel_left (L p1 p3) q L13 R13 ltac:(lia)) as (pl & Hl & Hly & Hlx).
      destruct (edge_pixel_right (L p1 p2) q L12 R12 ltac:(lia)) as (pr & Hr & Hry & Hrx).
      apply (tri_scanline_covers t (px pl) (px pr)); [| |lia].
      * apply Hedges. destruct pl as [x y]. cbn [px py] in *. subst y. auto.
      * apply Hedges. destruct pr as [x y]. cbn [px py] in *. subst y. auto.
    + destruct (edge_pixel_left (L p1 p2) q L12 R12 ltac:(lia)) as (pl & Hl & Hly & Hlx).
      destruct (edge_pixel_right (L p1 p3) q L13 R13 ltac:(lia)) as (pr & Hr & Hry & Hrx).
      apply (tri_scanline_covers t (px pl) (px pr)); [| |lia].
      * apply Hedges. destruct pl as [x y]. cbn [px py] in *. subst y. auto.
      * apply Hedges. destruct pr as [x y]. cbn [px py] in *. subst y. auto.
  - (* lower part: edges p2-p3 and p1-p3 *)
    assert (L23 : 0 < ldy (L p2 p3)) by (unfold ldy; cbn [l_start l_end]; lia).
    assert (R23 : py (l_start (L p2 p3)) <= py q <= py (l_end (L p2 p3))) by (cbn [l_start l_end]; lia).
    pose proof (cross_to_cross p2 p3 q) as C23.
    destruct Hin' as [(D1 & D2 & D3) | (D1 & D2 & D3)].
    + destruct (edge_pixel_left (L p1 p3) q L13 R13 ltac:(lia)) as (pl & Hl & Hly & Hlx).
      destruct (edge_pixel_right (L p2 p3) q L23 R23 ltac:(lia)) as (pr & Hr & Hry & Hrx).
      apply (tri_scanline_covers t (px pl) (px pr)); [| |lia].
      * apply Hedges. destruct pl as [x y]. cbn [px py] in *. subst y. auto.
      * apply Hedges. destruct pr as [x y]. cbn [px py] in *. subst y. auto.
    + destruct (edge_pixel_left (L p2 p3) q L23 R23 ltac:(lia)) as (pl & Hl & Hly & Hlx).
      destruct (edge_pixel_right (L p1 p3) q L13 R13 ltac:(lia)) as (pr & Hr & Hry & Hrx).
      apply (tri_scanline_covers t (px pl) (px pr)); [| |lia].
      * apply Hedges. destruct pl as [x y]. cbn [px py] in *. subst y. auto.
      * apply Hedges. destruct pr as [x y]. cbn [px py] in *. subst y. auto.
Qed.

(* tri_covers_interior, colinear vertices: the closed "triangle" is the segment between the extreme vertices
   (points of the line through them inside the bounding box); every lattice point on it is yielded *)
Theorem covers_interior_deg t q : tri_ok t -> area_doubled t = 0 ->
  in_closed_tri t q -> contains (tri_bounding_box t) q = true -> In q (tri_points t).
Proof.
  intros Hok Ha Hin Hbb. apply fill_edges_in_points; [assumption|]. apply long_edge_in_fill_edges.
  apply contains_spec in Hbb.
  pose proof (sorted_bbox_coords t) as B. cbv zeta in B. destruct B as (B1 & B2 & B3 & B4).
  destruct (sorted_yx_spec t) as [Hp Hs].
  pose proof (in_closed_tri_perm _ _ q Hp Hin) as Hin'.
  assert (Ha' : area_doubled (sorted_yx t) = 0).
  { pose proof (area_doubled_perm _ _ Hp). lia. }
  pose proof (cross_sum (sorted_yx t) q) as S. rewrite Ha' in S.
  unfold in_closed_tri in Hin'. cbv zeta in Hin'.
  pose proof (cross_to_cross_rev (v1 (sorted_yx t)) (v3 (sorted_yx t)) q) as C13.
  unfold sorted3, le_yx in Hs.
  set (p1 := v1 (sorted_yx t)) in *. set (p2 := v2 (sorted_yx t)) in *. set (p3 := v3 (sorted_yx t)) in *.
  apply line_exact_point; unfold ldy, ldx; cbn [l_start l_end]; try lia.
Qed.

(* both statements together *)
Theorem covers_interior t q : tri_ok t ->
  in_closed_tri t q -> contains (tri_bounding_box t) q = true -> In q (tri_points t).
Proof.
  intros Hok Hin Hbb. destruct (Z.eq_dec (area_doubled t) 0) as [E|E].
  - apply covers_interior_deg; assumption.
  - apply covers_interior_nondeg; assumption.
Qed.

(* ---- shared edges ------------------------------------------------------------------------------ *)

(* the line the triangle code rasterises between two vertices: from the (y,x)-smaller to the larger one *)
Definition sorted_edge (a b : point) : line := let '(lo, hi) := sort_two_yx a b in L lo hi.

Lemma sorted_edge_sym a b : sorted_edge a b = sorted_edge b a.
Proof.
  destruct a as [ax ay], b as [bx by_]. unfold sorted_edge, sort_two_yx. cbn [px py].
  destruct ((ay <? by_) || (ay =? by_) && (ax <? bx)) eqn:E1;
    destruct ((by_ <? ay) || (by_ =? ay) && (bx <? ax)) eqn:E2; try reflexivity; repeat f_equal; lia.
Qed.

(* the sorted edge between the first two vertices is one of the three lines of sorted_yx *)
Lemma sorted_edge_12 u :
  let st := sorted_yx u in
  sorted_edge (v1 u) (v2 u) = L (v1 st) (v2 st) \/ sorted_edge (v1 u) (v2 u) = L (v1 st) (v3 st) \/
  sorted_edge (v1 u) (v2 u) = L (v2 st) (v3 st).
Proof.
  destr_tri u. unfold sorted_edge, sorted_yx, sort_two_yx. cbn [v1 v2 v3 px py].
  repeat (match goal with |- context [if ?c then _ else _] => destruct c eqn:? end;
          cbv beta iota zeta; cbn [v1 v2 v3 px py]).
  all: first [ left; solve [repeat f_equal; lia] | right; left; solve [repeat f_equal; lia]
             | right; right; solve [repeat f_equal; lia] ].
Qed.

Lemma sorted_edge_in_fill_edges t u p : perm3 t u -> area_doubled t <> 0 ->
  In p (line_points (sorted_edge (v1 u) (v2 u))) -> In p (tri_fill_edges t).
Proof.
  intros Hp Ha H. unfold tri_fill_edges, tri_edge_points.
  assert (E : (area_doubled t =? 0) = false) by lia. rewrite E.
  rewrite <- (sorted_yx_perm t u Hp). pose proof (sorted_edge_12 u) as S. cbv zeta in S.
  rewrite !in_app_iff. destruct S as [S|[S|S]]; rewrite S in H; tauto.
Qed.

(* shared_edge_same_pixels (DESIGN C19): both triangles on an edge a-b contain the same Bresenham line *)
Theorem shared_edge_same_pixels a b c d p :
  tri_ok (T a b c) -> tri_ok (T a b d) -> area_doubled (T a b c) <> 0 -> area_doubled (T a b d) <> 0 ->
  In p (line_points (sorted_edge a b)) -> In p (tri_points (T a b c)) /\ In p (tri_points (T a b d)).
Proof.
  intros O1 O2 A1 A2 H. split; (apply fill_edges_in_points; [assumption|]).
  - apply (sorted_edge_in_fill_edges (T a b c) (T a b c)); [apply perm3_refl | assumption | exact H].
  - apply (sorted_edge_in_fill_edges (T a b d) (T a b d)); [apply perm3_refl | assumption | exact H].
Qed.

(* shared_edge_no_gap (DESIGN C19): every lattice point of the union of the two closed triangles is covered *)
Theorem shared_edge_no_gap a b c d q :
  tri_ok (T a b c) -> tri_ok (T a b d) -> area_doubled (T a b c) <> 0 -> area_doubled (T a b d) <> 0 ->
  in_closed_tri (T a b c) q \/ in_closed_tri (T a b d) q ->
  In q (tri_points (T a b c)) \/ In q (tri_points (T a b d)).
Proof.
  intros O1 O2 A1 A2 [H|H]; [left|right]; apply covers_interior_nondeg; assumption.
Qed.

(* ---- row-major order, each point once ---------------------------------------------------------------- *)
(* lt_yx (row-major order on points) is Proofs.Geometry.lt_yx *)

Lemma StronglySorted_app {A} (R : A -> A -> Prop) l1 l2 :
  StronglySorted R l1 -> StronglySorted R l2 -> (forall a b, In a l1 -> In b l2 -> R a b) ->
  StronglySorted R (l1 ++ l2).
Proof.
  induction l1 as [|x l1 IH]; intros H1 H2 H; [assumption|]. cbn [app].
  inversion H1 as [|? ? H1' Hx]; subst. constructor.
  - apply IH; [assumption | assumption |]. intros a b Ha Hb. apply H; [right; assumption | assumption].
  - apply Forall_forall. intros z Hz. apply in_app_iff in Hz. destruct Hz as [Hz|Hz].
    + rewrite Forall_forall in Hx. apply Hx. assumption.
    + apply H; [left; reflexivity | assumption].
Qed.

Lemma sl_points_sorted s : StronglySorted lt_yx (sl_points s).
Proof.
  unfold sl_points. pose proof (range_sorted (sl_start s) (sl_end s)) as H.
  induction H as [|x l Hs IH Hx]; cbn [map]; constructor; [assumption|].
  apply Forall_forall. intros p Hp. apply in_map_iff in Hp. destruct Hp as (z & <- & Hz).
  rewrite Forall_forall in Hx. specialize (Hx z Hz). right. cbn [px py]. lia.
Qed.

Lemma flat_map_rows_sorted (f : Z -> scanline) ys :
  StronglySorted Z.lt ys -> (forall y, sl_y (f y) = y) ->
  StronglySorted lt_yx (flat_map sl_points (map f ys)).
Proof.
  intros Hs Hy. induction Hs as [|y l Hs IH Hl]; cbn [map flat_map]; [constructor|].
  apply StronglySorted_app; [apply sl_points_sorted | assumption |].
  intros a b Ha Hb. apply In_sl_points in Ha. rewrite Hy in Ha.
  apply in_flat_map in Hb. destruct Hb as (s & Hs' & Hb). apply in_map_iff in Hs'. destruct Hs' as (z & <- & Hz).
  apply In_sl_points in Hb. rewrite Hy in Hb. rewrite Forall_forall in Hl. specialize (Hl z Hz).
  left. lia.
Qed.

(* points() is strictly increasing in (y, x): row-major order, no point twice *)
Theorem tri_points_row_major t : tri_ok t -> StronglySorted lt_yx (tri_points t).
Proof.
  intros Hok. unfold tri_points. rewrite tri_scanlines_all by assumption.
  apply flat_map_rows_sorted; [apply range_sorted | apply tri_scanline_y].
Qed.

Lemma sorted_lt_NoDup (l : list point) : StronglySorted lt_yx l -> NoDup l.
Proof.
  induction 1 as [|x l Hs IH Hx]; constructor; [|assumption].
  intros Hin. rewrite Forall_forall in Hx. specialize (Hx x Hin). unfold lt_yx in Hx. lia.
Qed.

Theorem tri_points_NoDup t : tri_ok t -> NoDup (tri_points t).
Proof. intros H. apply sorted_lt_NoDup, tri_points_row_major, H. Qed.

(* ======================================================================== *)
(* 5. Triangle::contains()                                                   *)
(* ======================================================================== *)

Theorem tri_contains_in_bbox t p : tri_contains t p = true -> contains (tri_bounding_box t) p = true.
Proof. unfold tri_contains. destruct (contains (tri_bounding_box t) p); [reflexivity | discriminate]. Qed.

(* s = d3, t = d1, a - s - t = d2 *)
Lemma is_inside_closed t p : tri_is_inside t p = Some true -> in_closed_tri t p.
Proof.
  unfold tri_is_inside, in_closed_tri. pose proof (cross_sum t p) as S.
  destr_tri t. destruct p as [qx qy]. unfold cross, area_doubled in *. cbn [v1 v2 v3 px py] in *.
  cbv zeta.
  repeat match goal with |- context [if ?c then _ else _] => destruct c eqn:? end; try discriminate.
  all: intros H; injection H as H; lia.
Qed.

Lemma In_existsb_point p l : existsb (fun lp => point_eqb lp p) l = true -> In p l.
Proof.
  intros H. apply existsb_exists in H. destruct H as (x & Hx & E). unfold point_eqb in E.
  destruct x as [a b], p as [c d]. cbn [px py] in E. assert (a = c) by lia. assert (b = d) by lia. subst. assumption.
Qed.

(* C05, triangle, superset direction: every point accepted by contains() is yielded by points() *)
Theorem contains_in_points t p : tri_ok t -> area_doubled t <> 0 -> tri_contains t p = true -> In p (tri_points t).
Proof.
  intros Hok Ha H. unfold tri_contains in H.
  destruct (contains (tri_bounding_box t) p) eqn:Hbb; cbn [negb] in H; [|discriminate].
  destruct (tri_is_inside t p) as [[|]|] eqn:Hi; [| |discriminate].
  - apply covers_interior_nondeg; [assumption | assumption |]. apply is_inside_closed. assumption.
  - apply fill_edges_in_points; [assumption|]. unfold tri_fill_edges.
    assert (E : (area_doubled t =? 0) = false) by lia. rewrite E. apply In_existsb_point. assumption.
Qed.

(* ---- what contains() accepts, exactly ------------------------------------------------------------ *)

Lemma is_inside_none t p : tri_is_inside t p = None -> area_doubled t = 0.
Proof.
  unfold tri_is_inside. cbv zeta.
  repeat match goal with |- context [if ?c then _ else _] => destruct c eqn:? end; try discriminate. lia.
Qed.

(* without the sign pre-test the barycentric test is exactly the closed triangle; the pre-test
   `(s < 0) != (t < 0)` additionally rejects points ON the edge v3v1 or v1v2 of a counter-clockwise triangle *)
Lemma closed_is_inside t p : area_doubled t <> 0 -> in_closed_tri t p ->
  tri_is_inside t p = Some true \/
  (tri_is_inside t p = Some false /\ (cross (v3 t) (v1 t) p = 0 \/ cross (v1 t) (v2 t) p = 0)).
Proof.
  unfold tri_is_inside, in_closed_tri. pose proof (cross_sum t p) as S.
  destr_tri t. destruct p as [qx qy]. unfold cross, area_doubled in *. cbn [v1 v2 v3 px py] in *.
  cbv zeta. intros Ha Hin.
  repeat match goal with |- context [if ?c then _ else _] => destruct c eqn:? end.
  all: first [ left; f_equal; lia | right; split; [reflexivity | lia] | exfalso; lia ].
Qed.

(* a lattice point of the closed triangle that lies on the line through v1 and v2 is a Bresenham pixel of the
   sorted edge between them *)
Lemma on_edge_in_sorted_edge u p : area_doubled u <> 0 -> in_closed_tri u p ->
  cross (v1 u) (v2 u) p = 0 -> In p (line_points (sorted_edge (v1 u) (v2 u))).
Proof.
  intros Ha Hin H0. pose proof (cross_sum u p) as S. pose proof (bary_x u p) as BX. pose proof (bary_y u p) as BY.
  unfold in_closed_tri in Hin. cbv zeta in Hin. rewrite H0 in *.
  set (d2 := cross (v2 u) (v3 u) p) in *. set (d3 := cross (v3 u) (v1 u) p) in *.
  assert (HX : Z.min (px (v1 u)) (px (v2 u)) <= px p <= Z.max (px (v1 u)) (px (v2 u))).
  { destruct Hin as [(_ & H2 & H3) | (_ & H2 & H3)].
    - apply (bary_bounds 0 d2 d3 (px (v1 u)) (px (v2 u)) (px (v1 u))); try lia.
    - apply (bary_bounds 0 (-d2) (-d3) (px (v1 u)) (px (v2 u)) (px (v1 u))); try lia. }
  assert (HY : Z.min (py (v1 u)) (py (v2 u)) <= py p <= Z.max (py (v1 u)) (py (v2 u))).
  { destruct Hin as [(_ & H2 & H3) | (_ & H2 & H3)].
    - apply (bary_bounds 0 d2 d3 (py (v1 u)) (py (v2 u)) (py (v1 u))); try lia.
    - apply (bary_bounds 0 (-d2) (-d3) (py (v1 u)) (py (v2 u)) (py (v1 u))); try lia. }
  clear S BX BY Hin Ha. clearbody d2 d3. clear d2 d3.
  unfold cross in H0. destr_tri u. destruct p as [qx qy]. cbn [v1 v2 v3 px py] in *.
  unfold sorted_edge, sort_two_yx. cbn [px py].
  destruct ((ay <? by_) || (ay =? by_) && (ax <? bx)) eqn:E;
    apply line_exact_point; unfold cross_to, ldy, ldx; cbn [l_start l_end px py]; lia.
Qed.

Lemma existsb_point_In p l : In p l -> existsb (fun lp => point_eqb lp p) l = true.
Proof.
  intros H. apply existsb_exists. exists p. split; [assumption|]. unfold point_eqb. lia.
Qed.

Theorem tri_contains_spec t p : tri_ok t -> area_doubled t <> 0 ->
  (tri_contains t p = true <-> in_closed_tri t p \/ In p (tri_fill_edges t)).
Proof.
  intros Hok Ha.
  assert (Efill : tri_fill_edges t = tri_edge_points t).
  { unfold tri_fill_edges. assert (E : (area_doubled t =? 0) = false) by lia. rewrite E. reflexivity. }
  split.
  - intros H. unfold tri_contains in H.
    destruct (contains (tri_bounding_box t) p) eqn:Hbb; cbn [negb] in H; [|discriminate].
    destruct (tri_is_inside t p) as [[|]|] eqn:Hi; [| |discriminate].
    + left. apply is_inside_closed. assumption.
    + right. rewrite Efill. apply In_existsb_point. assumption.
  - intros H.
    assert (Hedge : In p (tri_fill_edges t) -> tri_contains t p = true).
    { intros He. unfold tri_contains. rewrite (fill_edges_in_bbox t p He). cbn [negb].
      destruct (tri_is_inside t p) as [[|]|] eqn:Hi; [reflexivity | |].
      - rewrite <- Efill. apply existsb_point_In. assumption.
      - exfalso. apply Ha. eapply is_inside_none. eassumption. }
    destruct H as [Hin | He]; [|apply Hedge; assumption].
    destruct (closed_is_inside t p Ha Hin) as [Hi | [Hi [H0 | H0]]].
    + unfold tri_contains. rewrite (closed_tri_in_bbox t p Ha Hin). cbn [negb]. rewrite Hi. reflexivity.
    + (* on the line v3-v1 *)
      apply Hedge. destruct t as [a b c]. cbn [v1 v2 v3] in *.
      assert (Hp : perm3 (T a b c) (T c a b)) by (unfold perm3; cbn [v1 v2 v3]; pick_refl).
      apply (sorted_edge_in_fill_edges (T a b c) (T c a b)); [assumption | assumption |]. cbn [v1 v2].
      apply (on_edge_in_sorted_edge (T c a b)); cbn [v1 v2 v3].
      * pose proof (area_doubled_perm _ _ Hp). lia.
      * apply (in_closed_tri_perm _ _ p Hp). assumption.
      * assumption.
    + (* on the line v1-v2 *)
      apply Hedge. apply (sorted_edge_in_fill_edges t t); [apply perm3_refl | assumption |].
      apply on_edge_in_sorted_edge; assumption.
Qed.

(* The subset direction (every yielded point is accepted by contains()) is proved in section 7:
   points_closed_or_edge, points_in_contains, tri_points_filter_contains. *)

(* ======================================================================== *)
(* 6. points() as a specification; translation                              *)
(* ======================================================================== *)

(* Complete description of Triangle::points() in terms of Bresenham lines: the lattice points that lie, in
   their row, between two pixels of the sorted edge lines (together with tri_points_row_major this
   determines the list). *)
Theorem tri_points_spec t q : tri_ok t ->
  (In q (tri_points t) <->
   exists a b, In (P a (py q)) (tri_fill_edges t) /\ In (P b (py q)) (tri_fill_edges t) /\ a <= px q <= b).
Proof.
  intros Hok. split; [apply points_between_edge_pixels; assumption|].
  intros (a & b & Ha & Hb & Hab). apply In_tri_points; [assumption|]. split.
  - pose proof (fill_edges_in_bbox t _ Ha) as C. apply contains_spec in C.
    pose proof (sorted_bbox_coords t) as B. cbv zeta in B. cbn [py] in C. lia.
  - apply (tri_scanline_covers t a b); assumption.
Qed.

(* two strictly sorted lists with the same elements are equal *)
Lemma sorted_lt_ext (l1 l2 : list point) :
  StronglySorted lt_yx l1 -> StronglySorted lt_yx l2 -> (forall q, In q l1 <-> In q l2) -> l1 = l2.
Proof.
  intros H1. revert l2. induction H1 as [|x l1 Hs1 IH Hx]; intros l2 H2 Hiff.
  - destruct l2 as [|y l2]; [reflexivity|]. exfalso. apply (Hiff y). left; reflexivity.
  - destruct H2 as [|y l2 Hs2 Hy].
    + exfalso. apply (Hiff x). left; reflexivity.
    + rewrite Forall_forall in Hx, Hy.
      assert (E : x = y).
      { destruct (proj1 (Hiff x) ltac:(left; reflexivity)) as [E|Hin]; [symmetry; assumption|].
        destruct (proj2 (Hiff y) ltac:(left; reflexivity)) as [E|Hin']; [assumption|].
        specialize (Hx y Hin'). specialize (Hy x Hin). unfold lt_yx in *. lia. }
      subst y. f_equal. apply IH; [assumption|]. intros q. split; intros Hq.
      * destruct (proj1 (Hiff q) ltac:(right; assumption)) as [E|Hin]; [|assumption].
        subst q. specialize (Hx x Hq). unfold lt_yx in Hx. lia.
      * destruct (proj2 (Hiff q) ltac:(right; assumption)) as [E|Hin]; [|assumption].
        subst q. specialize (Hy x Hq). unfold lt_yx in Hy. lia.
Qed.

Lemma tri_translate_perm t u d : perm3 t u -> perm3 (tri_translate t d) (tri_translate u d).
Proof.
  destruct t as [a b c]. unfold perm3, tri_translate. cbn [v1 v2 v3]. intros H.
  perm_cases H; cbn [v1 v2 v3]; pick_refl.
Qed.

Lemma sorted_yx_translate t d : sorted_yx (tri_translate t d) = tri_translate (sorted_yx t) d.
Proof.
  destruct (sorted_yx_spec t) as [P1 S1]. destruct (sorted_yx_spec (tri_translate t d)) as [P2 S2].
  apply (sorted3_unique (tri_translate t d)); try assumption.
  - apply tri_translate_perm. assumption.
  - unfold sorted3, le_yx, tri_translate, padd in *. cbn [v1 v2 v3 px py]. lia.
Qed.

Lemma area_doubled_translate t d : area_doubled (tri_translate t d) = area_doubled t.
Proof. destr_tri t. destruct d as [dx dy]. unfold area_doubled, tri_translate, padd. cbn [v1 v2 v3 px py]. lia. Qed.

Lemma tri_fill_edges_translate t d :
  tri_fill_edges (tri_translate t d) = map (fun p => padd p d) (tri_fill_edges t).
Proof.
  unfold tri_fill_edges, tri_edge_points. rewrite sorted_yx_translate, area_doubled_translate.
  set (st := sorted_yx t). unfold tri_translate. cbn [v1 v2 v3].
  change (L (padd (v1 st) d) (padd (v3 st) d)) with (translate_line (L (v1 st) (v3 st)) d).
  change (L (padd (v1 st) d) (padd (v2 st) d)) with (translate_line (L (v1 st) (v2 st)) d).
  change (L (padd (v2 st) d) (padd (v3 st) d)) with (translate_line (L (v2 st) (v3 st)) d).
  destruct (area_doubled t =? 0); rewrite !line_points_translate, ?map_app; reflexivity.
Qed.

Lemma psub_padd p d : padd (psub p d) d = p.
Proof. destruct p as [x y], d as [dx dy]. unfold padd, psub. cbn [px py]. f_equal; lia. Qed.

Lemma In_map_padd p d l : In p (map (fun r => padd r d) l) <-> In (psub p d) l.
Proof.
  rewrite in_map_iff. split.
  - intros (r & <- & Hr). replace (psub (padd r d) d) with r; [assumption|].
    destruct r as [x y], d as [dx dy]. unfold padd, psub. cbn [px py]. f_equal; lia.
  - intros H. exists (psub p d). split; [apply psub_padd | assumption].
Qed.

Lemma map_padd_sorted d l : StronglySorted lt_yx l -> StronglySorted lt_yx (map (fun r => padd r d) l).
Proof.
  induction 1 as [|x l Hs IH Hx]; cbn [map]; constructor; [assumption|].
  rewrite Forall_forall in *. intros z Hz. apply in_map_iff in Hz. destruct Hz as (r & <- & Hr).
  specialize (Hx r Hr). unfold lt_yx, padd in *. cbn [px py]. lia.
Qed.

(* C07, triangle: points() of the translated triangle are the translated points(), in the same order *)
Theorem tri_points_translate t d : tri_ok t -> tri_ok (tri_translate t d) ->
  tri_points (tri_translate t d) = map (fun p => padd p d) (tri_points t).
Proof.
  intros H1 H2. apply sorted_lt_ext.
  - apply tri_points_row_major. assumption.
  - apply map_padd_sorted, tri_points_row_major. assumption.
  - intros q. rewrite In_map_padd, !tri_points_spec by assumption. rewrite tri_fill_edges_translate.
    destruct q as [qx qy], d as [dx dy]. unfold psub. cbn [px py]. split.
    + intros (a & b & Ha & Hb & Hab). exists (a - dx), (b - dx).
      apply In_map_padd in Ha, Hb. unfold psub in Ha, Hb. cbn [px py] in Ha, Hb. repeat split; try assumption; lia.
    + intros (a & b & Ha & Hb & Hab). exists (a + dx), (b + dx).
      rewrite !In_map_padd. unfold psub. cbn [px py].
      replace (a + dx - dx) with a by lia. replace (b + dx - dx) with b by lia. repeat split; try assumption; lia.
Qed.

Lemma tri_bounding_box_translate t d :
  tri_bounding_box (tri_translate t d) = translate_rect (tri_bounding_box t) d.
Proof.
  destr_tri t. destruct d as [dx dy].
  unfold tri_bounding_box, tri_translate, translate_rect, with_corners, size_from_bounding_box, padd.
  cbn [v1 v2 v3 px py tl sz]. f_equal; f_equal; lia.
Qed.

Lemma tri_is_inside_translate t d p : tri_is_inside (tri_translate t d) (padd p d) = tri_is_inside t p.
Proof.
  unfold tri_is_inside. rewrite area_doubled_translate.
  destr_tri t. destruct d as [dx dy], p as [qx qy]. unfold tri_translate, padd. cbn [v1 v2 v3 px py].
  cbv zeta.
  match goal with |- (if negb (Bool.eqb (?s1 <? 0) (?t1 <? 0)) then _ else _) = (if negb (Bool.eqb (?s2 <? 0) (?t2 <? 0)) then _ else _) =>
    replace s1 with s2 by lia; replace t1 with t2 by lia end.
  reflexivity.
Qed.

Lemma contains_translate_rect r d p : contains (translate_rect r d) (padd p d) = contains r p.
Proof.
  destruct (contains r p) eqn:E.
  - apply contains_spec in E. apply contains_spec. unfold translate_rect, padd. cbn [tl sz px py]. lia.
  - destruct (contains (translate_rect r d) (padd p d)) eqn:E2; [|reflexivity].
    apply contains_spec in E2. unfold translate_rect, padd in E2. cbn [tl sz px py] in E2.
    assert (contains r p = true) by (apply contains_spec; lia). congruence.
Qed.

Lemma existsb_point_translate p d l :
  existsb (fun lp => point_eqb lp (padd p d)) (map (fun r => padd r d) l) = existsb (fun lp => point_eqb lp p) l.
Proof.
  induction l as [|x l IH]; [reflexivity|]. cbn [map existsb]. rewrite IH. f_equal.
  unfold point_eqb, padd. cbn [px py]. lia.
Qed.

(* C07, triangle: contains() commutes with translation (no range hypothesis needed: unbounded model) *)
Theorem tri_contains_translate t d p : tri_contains (tri_translate t d) (padd p d) = tri_contains t p.
Proof.
  unfold tri_contains. rewrite tri_bounding_box_translate, contains_translate_rect, tri_is_inside_translate.
  destruct (negb (contains (tri_bounding_box t) p)); [reflexivity|].
  destruct (tri_is_inside t p) as [[|]|]; try reflexivity.
  unfold tri_edge_points. rewrite sorted_yx_translate. set (st := sorted_yx t). unfold tri_translate. cbn [v1 v2 v3].
  change (L (padd (v1 st) d) (padd (v3 st) d)) with (translate_line (L (v1 st) (v3 st)) d).
  change (L (padd (v1 st) d) (padd (v2 st) d)) with (translate_line (L (v1 st) (v2 st)) d).
  change (L (padd (v2 st) d) (padd (v3 st) d)) with (translate_line (L (v2 st) (v3 st)) d).
  rewrite !line_points_translate, <- !map_app. apply existsb_point_translate.
Qed.

(* ======================================================================== *)
(* 7. every yielded point is in the closed triangle or is an edge pixel        *)
(* ======================================================================== *)

Lemma point_eta (p : point) : p = P (px p) (py p).
Proof. destruct p as [x y]. reflexivity. Qed.

(* the pixels of a line in one row form a run without holes *)
Lemma line_row_run l a b x y : 0 <= ldy l ->
  In (P a y) (line_points l) -> In (P b y) (line_points l) -> a <= x <= b -> In (P x y) (line_points l).
Proof.
  intros Hy Ha Hb Hx. pose proof Ha as Ha0. pose proof (ldm_ok l) as Hd.
  apply In_line_points in Ha, Hb. destruct Ha as (ka & Hka & Ea), Hb as (kb & Hkb & Eb).
  assert (S1 : sgn (ldy l) = 1) by (unfold sgn; destruct (0 <=? ldy l) eqn:E; lia).
  pose proof (f_equal px Ea) as Xa. pose proof (f_equal py Ea) as Ya.
  pose proof (f_equal px Eb) as Xb. pose proof (f_equal py Eb) as Yb.
  rewrite line_pt_x in Xa, Xb. rewrite line_pt_y in Ya, Yb. cbn [px py] in *. rewrite S1 in *.
  destruct (y_major l) eqn:YM.
  - assert (ka = kb) by lia. subst kb. assert (x = a) by lia. subst x. exact Ha0.
  - set (s := sgn (ldx l)) in *.
    assert (Hs : s = 1 \/ s = -1) by (unfold s, sgn; destruct (0 <=? ldx l); auto).
    set (k := (x - px (l_start l)) * s).
    assert (Hk : (ka <= k <= kb) \/ (kb <= k <= ka)) by (unfold k; destruct Hs as [-> | ->]; lia).
    assert (Hk0 : 0 <= k <= ldmaj l) by lia.
    assert (HM : Mk (ldmaj l) (ldmin l) k = Mk (ldmaj l) (ldmin l) ka).
    { destruct Hk as [Hk|Hk].
      - pose proof (Mk_mono _ _ Hd ka k ltac:(lia)). pose proof (Mk_mono _ _ Hd k kb ltac:(lia)). lia.
      - pose proof (Mk_mono _ _ Hd kb k ltac:(lia)). pose proof (Mk_mono _ _ Hd k ka ltac:(lia)). lia. }
    apply In_line_points. exists k. split; [assumption|].
    rewrite (point_eta (line_pt l k)), line_pt_x, line_pt_y, YM, S1, HM. fold s. f_equal; [|lia].
    unfold k. destruct Hs as [-> | ->]; lia.
Qed.

(* the run of a row reaches from its outermost pixel at least to the ideal crossing *)
Lemma edge_pixel_ge l a x y : 0 < ldy l ->
  In (P a y) (line_points l) -> a <= x -> cross_to l (P x y) <= 0 -> In (P x y) (line_points l).
Proof.
  intros Hy Ha Hx Hc. pose proof (line_points_hull l _ Ha) as [_ Hr]. cbn [py] in Hr. unfold ldy in Hy.
  destruct (line_row_pixel l y ltac:(unfold ldy; lia) ltac:(lia)) as (p & Hp & Hpy & Hpc).
  apply (line_row_run l a (px p)); [unfold ldy; lia | assumption | rewrite <- Hpy, <- point_eta; assumption |].
  split; [assumption|]. unfold cross_to in *. cbn [px py] in *. rewrite Hpy in Hpc.
  set (dy := ldy l) in *. assert (0 < dy) by (unfold dy, ldy; lia).
  set (dx := ldx l) in *. set (sx := px (l_start l)) in *. set (sy := py (l_start l)) in *. clearbody dy dx sx sy.
  assert (D : (px p - sx) * dy - (y - sy) * dx = ((x - sx) * dy - (y - sy) * dx) + (px p - x) * dy) by lia.
  rewrite D in Hpc. nia.
Qed.

Lemma edge_pixel_le l b x y : 0 < ldy l ->
  In (P b y) (line_points l) -> x <= b -> 0 <= cross_to l (P x y) -> In (P x y) (line_points l).
Proof.
  intros Hy Hb Hx Hc. pose proof (line_points_hull l _ Hb) as [_ Hr]. cbn [py] in Hr. unfold ldy in Hy.
  destruct (line_row_pixel l y ltac:(unfold ldy; lia) ltac:(lia)) as (p & Hp & Hpy & Hpc).
  apply (line_row_run l (px p) b); [unfold ldy; lia | rewrite <- Hpy, <- point_eta; assumption | assumption |].
  split; [|assumption]. unfold cross_to in *. cbn [px py] in *. rewrite Hpy in Hpc.
  set (dy := ldy l) in *. assert (0 < dy) by (unfold dy, ldy; lia).
  set (dx := ldx l) in *. set (sx := px (l_start l)) in *. set (sy := py (l_start l)) in *. clearbody dy dx sx sy.
  assert (D : (px p - sx) * dy - (y - sy) * dx = ((x - sx) * dy - (y - sy) * dx) + (px p - x) * dy) by lia.
  rewrite D in Hpc. nia.
Qed.

(* two non-negative weights at the far vertices of a cone, apex row distance k <= h <= H *)
Lemma cone_arith A da db h H k :
  0 < h <= H -> 0 <= k <= h -> A * k = da * h + db * H -> 0 <= da -> 0 <= db ->
  0 <= A - da - db \/ (da = 0 /\ db = 0 /\ A <= 0).
Proof.
  intros Hh Hk E Ha Hb. destruct (Z_le_gt_dec 0 A) as [HA|HA].
  - left. assert (B1 : db * h <= db * H) by nia. assert (B2 : A * k <= A * h) by nia.
    assert (B3 : (da + db) * h <= A * h) by lia. nia.
  - right. assert (B1 : A * k <= 0) by nia. assert (B2 : 0 <= da * h) by nia. assert (B3 : 0 <= db * H) by nia.
    assert (da * h = 0) by lia. assert (db * H = 0) by lia. split; [nia|]. split; [nia|lia].
Qed.

(* a point between the lines v1v2 and v1v3, in a row between v1 and v2, is in the closed triangle
   (d1 = cross v1 v2 q, d3 = cross v3 v1 q have the same sign) *)
Lemma between_12_13 s q :
  py (v1 s) < py (v2 s) -> py (v2 s) <= py (v3 s) -> py (v1 s) <= py q <= py (v2 s) ->
  (0 <= cross (v1 s) (v2 s) q /\ 0 <= cross (v3 s) (v1 s) q) \/
  (cross (v1 s) (v2 s) q <= 0 /\ cross (v3 s) (v1 s) q <= 0) ->
  in_closed_tri s q.
Proof.
  intros H12 H23 Hq Hd. pose proof (cross_sum s q) as S. pose proof (bary_y s q) as BY.
  unfold in_closed_tri. cbv zeta.
  set (d1 := cross (v1 s) (v2 s) q) in *. set (d2 := cross (v2 s) (v3 s) q) in *. set (d3 := cross (v3 s) (v1 s) q) in *.
  set (A := area_doubled s) in *. set (y1 := py (v1 s)) in *. set (y2 := py (v2 s)) in *. set (y3 := py (v3 s)) in *.
  set (qy := py q) in *. clearbody d1 d2 d3 A y1 y2 y3 qy.
  assert (E : A * (qy - y1) = d3 * (y2 - y1) + d1 * (y3 - y1)) by lia.
  destruct Hd as [[D1 D3] | [D1 D3]].
  - destruct (cone_arith A d3 d1 (y2 - y1) (y3 - y1) (qy - y1)) as [G | (G1 & G2 & G3)]; try lia.
  - assert (E' : (- A) * (qy - y1) = (- d3) * (y2 - y1) + (- d1) * (y3 - y1)) by lia.
    destruct (cone_arith (- A) (- d3) (- d1) (y2 - y1) (y3 - y1) (qy - y1)) as [G | (G1 & G2 & G3)]; try lia.
Qed.

Lemma between_23_13 s q :
  py (v2 s) < py (v3 s) -> py (v1 s) <= py (v2 s) -> py (v2 s) <= py q <= py (v3 s) ->
  (0 <= cross (v2 s) (v3 s) q /\ 0 <= cross (v3 s) (v1 s) q) \/
  (cross (v2 s) (v3 s) q <= 0 /\ cross (v3 s) (v1 s) q <= 0) ->
  in_closed_tri s q.
Proof.
  intros H23 H12 Hq Hd. pose proof (cross_sum s q) as S. pose proof (bary_y s q) as BY.
  unfold in_closed_tri. cbv zeta.
  set (d1 := cross (v1 s) (v2 s) q) in *. set (d2 := cross (v2 s) (v3 s) q) in *. set (d3 := cross (v3 s) (v1 s) q) in *.
  set (A := area_doubled s) in *. set (y1 := py (v1 s)) in *. set (y2 := py (v2 s)) in *. set (y3 := py (v3 s)) in *.
  set (qy := py q) in *. clearbody d1 d2 d3 A y1 y2 y3 qy.
  assert (E : A * (y3 - qy) = d3 * (y3 - y2) + d2 * (y3 - y1)) by lia.
  destruct Hd as [[D2 D3] | [D2 D3]].
  - destruct (cone_arith A d3 d2 (y3 - y2) (y3 - y1) (y3 - qy)) as [G | (G1 & G2 & G3)]; try lia.
  - assert (E' : (- A) * (y3 - qy) = (- d3) * (y3 - y2) + (- d2) * (y3 - y1)) by lia.
    destruct (cone_arith (- A) (- d3) (- d2) (y3 - y2) (y3 - y1) (y3 - qy)) as [G | (G1 & G2 & G3)]; try lia.
Qed.

(* a point on the line v1v3 in a row between them is in the closed triangle *)
Lemma on_long_edge_closed s q :
  py (v1 s) < py (v3 s) -> py (v1 s) <= py q <= py (v3 s) -> cross (v3 s) (v1 s) q = 0 -> in_closed_tri s q.
Proof.
  intros H13 Hq H0. pose proof (cross_sum s q) as S. pose proof (bary_y s q) as BY.
  unfold in_closed_tri. cbv zeta. rewrite H0 in *.
  set (d1 := cross (v1 s) (v2 s) q) in *. set (d2 := cross (v2 s) (v3 s) q) in *.
  set (A := area_doubled s) in *. set (y1 := py (v1 s)) in *. set (y2 := py (v2 s)) in *. set (y3 := py (v3 s)) in *.
  set (qy := py q) in *. clearbody d1 d2 A y1 y2 y3 qy.
  assert (E1 : d1 * (y3 - y1) = A * (qy - y1)) by lia.
  assert (E2 : d2 * (y3 - y1) = A * (y3 - qy)) by lia.
  destruct (Z_le_gt_dec 0 A) as [HA|HA]; [left|right]; repeat split; try lia; nia.
Qed.

(* In a row of the triangle, a lattice point is in the closed triangle, or strictly left of the lines of all
   non-horizontal sorted edges that reach the row, or strictly right of all of them (the slice of the triangle in
   a row is the interval between the extreme crossings). *)
Lemma row_slice s q : sorted3 s -> py (v1 s) < py (v3 s) -> py (v1 s) <= py q <= py (v3 s) ->
  let c12 := cross_to (L (v1 s) (v2 s)) q in
  let c13 := cross_to (L (v1 s) (v3 s)) q in
  let c23 := cross_to (L (v2 s) (v3 s)) q in
  in_closed_tri s q \/
  (c13 < 0 /\ (py (v1 s) < py (v2 s) -> py q <= py (v2 s) -> c12 < 0) /\
              (py (v2 s) < py (v3 s) -> py (v2 s) <= py q -> c23 < 0)) \/
  (0 < c13 /\ (py (v1 s) < py (v2 s) -> py q <= py (v2 s) -> 0 < c12) /\
              (py (v2 s) < py (v3 s) -> py (v2 s) <= py q -> 0 < c23)).
Proof.
  intros [S12 S23] H13 Hq. cbv zeta.
  rewrite (cross_to_cross (v1 s) (v2 s) q), (cross_to_cross (v2 s) (v3 s) q), (cross_to_cross_rev (v1 s) (v3 s) q).
  assert (Y12 : py (v1 s) <= py (v2 s)) by (unfold le_yx in S12; lia).
  assert (Y23 : py (v2 s) <= py (v3 s)) by (unfold le_yx in S23; lia).
  pose proof (on_long_edge_closed s q H13 Hq) as L0.
  pose proof (between_12_13 s q) as L1. pose proof (between_23_13 s q) as L2.
  set (d1 := cross (v1 s) (v2 s) q) in *. set (d2 := cross (v2 s) (v3 s) q) in *. set (d3 := cross (v3 s) (v1 s) q) in *.
  destruct (Z.lt_trichotomy d3 0) as [N | [Z0 | Pz]].
  - (* left of the long edge *)
    destruct (Z_lt_le_dec (py (v1 s)) (py (v2 s))) as [A1|A1];
    destruct (Z_le_gt_dec (py q) (py (v2 s))) as [A2|A2];
    destruct (Z_lt_le_dec (py (v2 s)) (py (v3 s))) as [B1|B1];
    destruct (Z_le_gt_dec (py (v2 s)) (py q)) as [B2|B2];
    try (destruct (Z_lt_le_dec 0 d1) as [C1|C1]; [|left; apply L1; lia]);
    try (destruct (Z_lt_le_dec 0 d2) as [C2|C2]; [|left; apply L2; lia]);
    right; left; repeat split; lia.
  - left. apply L0. assumption.
  - destruct (Z_lt_le_dec (py (v1 s)) (py (v2 s))) as [A1|A1];
    destruct (Z_le_gt_dec (py q) (py (v2 s))) as [A2|A2];
    destruct (Z_lt_le_dec (py (v2 s)) (py (v3 s))) as [B1|B1];
    destruct (Z_le_gt_dec (py (v2 s)) (py q)) as [B2|B2];
    try (destruct (Z_lt_le_dec d1 0) as [C1|C1]; [|left; apply L1; lia]);
    try (destruct (Z_lt_le_dec d2 0) as [C2|C2]; [|left; apply L2; lia]);
    right; right; repeat split; lia.
Qed.

(* tri_within_one_pixel / C05 subset direction: every point yielded by points() (non-zero area) lies in the closed
   mathematical triangle or is a Bresenham pixel of one of the three sorted edges (which C17 places within half a
   pixel of the edge) *)
Theorem points_closed_or_edge t q : tri_ok t -> area_doubled t <> 0 -> In q (tri_points t) ->
  in_closed_tri t q \/ In q (tri_fill_edges t).
Proof.
  intros Hok Ha Hq.
  destruct (points_between_edge_pixels t q Hok Hq) as (a & b & Hpa & Hpb & Hab).
  destruct (sorted_yx_spec t) as [Hp Hs].
  assert (Ha' : area_doubled (sorted_yx t) <> 0) by (pose proof (area_doubled_perm _ _ Hp); lia).
  pose proof (sorted_ys t) as Hys. cbv zeta in Hys.
  assert (Hlong : py (v1 (sorted_yx t)) < py (v3 (sorted_yx t))).
  { destruct (Z.eq_dec (py (v1 (sorted_yx t))) (py (v3 (sorted_yx t)))) as [E|E]; [|lia].
    exfalso. apply Ha'. apply flat_sorted_zero_area; assumption. }
  assert (Hrow : py (v1 (sorted_yx t)) <= py q <= py (v3 (sorted_yx t))).
  { pose proof (fill_edges_in_bbox t _ Hpa) as C. apply contains_spec in C.
    pose proof (sorted_bbox_coords t) as B. cbv zeta in B. cbn [py] in C. lia. }
  assert (Efill : tri_fill_edges t = tri_edge_points t).
  { unfold tri_fill_edges. assert (E : (area_doubled t =? 0) = false) by lia. rewrite E. reflexivity. }
  rewrite Efill in *. unfold tri_edge_points in *.
  destruct (row_slice (sorted_yx t) q Hs Hlong Hrow) as [Hc | [HL | HR]].
  - left. apply (in_closed_tri_perm _ _ q (perm3_sym _ _ Hp)). assumption.
  - (* strictly left of every edge line: the leftmost edge pixel a gives the owner of q *)
    right. destruct HL as (C13 & C12 & C23). unfold sorted3, le_yx in Hs.
    set (p1 := v1 (sorted_yx t)) in *. set (p2 := v2 (sorted_yx t)) in *. set (p3 := v3 (sorted_yx t)) in *.
    rewrite (point_eta q) in C13, C12, C23 |- *. cbn [px py] in C12, C23. set (x := px q) in *. set (y := py q) in *.
    rewrite !in_app_iff in Hpa |- *. destruct Hpa as [H|[H|H]].
    + (* a on p1-p2 *)
      pose proof (line_points_hull _ _ H) as [Hx Hy]. cbn [l_start l_end px py] in Hx, Hy.
      destruct (Z_lt_le_dec (py p1) (py p2)) as [T|T].
      * left. apply (edge_pixel_ge (L p1 p2) a); [unfold ldy; cbn [l_start l_end]; lia | assumption | lia |].
        assert (cross_to (L p1 p2) (P x y) < 0) by (apply C12; lia). lia.
      * exfalso. unfold cross_to, ldx, ldy in C13. cbn [l_start l_end px py] in C13.
        assert (y = py p1) by lia. assert (px p1 <= px p2) by lia.
        assert (E : (x - px p1) * (py p3 - py p1) - (y - py p1) * (px p3 - px p1) = (x - px p1) * (py p3 - py p1)) by nia.
        rewrite E in C13. nia.
    + right; left. apply (edge_pixel_ge (L p1 p3) a); [unfold ldy; cbn [l_start l_end]; lia | assumption | lia | lia].
    + pose proof (line_points_hull _ _ H) as [Hx Hy]. cbn [l_start l_end px py] in Hx, Hy.
      right; right. destruct (Z_lt_le_dec (py p2) (py p3)) as [T|T].
      * apply (edge_pixel_ge (L p2 p3) a); [unfold ldy; cbn [l_start l_end]; lia | assumption | lia |].
        assert (cross_to (L p2 p3) (P x y) < 0) by (apply C23; lia). lia.
      * assert (y = py p3) by lia. assert (py p2 = py p3) by lia. assert (px p2 <= px p3) by lia.
        unfold cross_to, ldx, ldy in C13. cbn [l_start l_end px py] in C13.
        assert (E : (x - px p1) * (py p3 - py p1) - (y - py p1) * (px p3 - px p1) = (x - px p3) * (py p3 - py p1)) by nia.
        rewrite E in C13. assert (x < px p3) by nia.
        replace (P x y) with (P x (py (l_start (L p2 p3)))) by (cbn [l_start]; f_equal; lia).
        apply line_horizontal_pixels; unfold ldy, ldx; cbn [l_start l_end]; lia.
  - (* strictly right of every edge line: the rightmost edge pixel b *)
    right. destruct HR as (C13 & C12 & C23). unfold sorted3, le_yx in Hs.
    set (p1 := v1 (sorted_yx t)) in *. set (p2 := v2 (sorted_yx t)) in *. set (p3 := v3 (sorted_yx t)) in *.
    rewrite (point_eta q) in C13, C12, C23 |- *. cbn [px py] in C12, C23. set (x := px q) in *. set (y := py q) in *.
    rewrite !in_app_iff in Hpb |- *. destruct Hpb as [H|[H|H]].
    + pose proof (line_points_hull _ _ H) as [Hx Hy]. cbn [l_start l_end px py] in Hx, Hy.
      left. destruct (Z_lt_le_dec (py p1) (py p2)) as [T|T].
      * apply (edge_pixel_le (L p1 p2) b); [unfold ldy; cbn [l_start l_end]; lia | assumption | lia |].
        assert (0 < cross_to (L p1 p2) (P x y)) by (apply C12; lia). lia.
      * assert (y = py p1) by lia. assert (py p1 = py p2) by lia. assert (px p1 <= px p2) by lia.
        unfold cross_to, ldx, ldy in C13. cbn [l_start l_end px py] in C13.
        assert (E : (x - px p1) * (py p3 - py p1) - (y - py p1) * (px p3 - px p1) = (x - px p1) * (py p3 - py p1)) by nia.
        rewrite E in C13. assert (px p1 < x) by nia.
        replace (P x y) with (P x (py (l_start (L p1 p2)))) by (cbn [l_start]; f_equal; lia).
        apply line_horizontal_pixels; unfold ldy, ldx; cbn [l_start l_end]; lia.
    + right; left. apply (edge_pixel_le (L p1 p3) b); [unfold ldy; cbn [l_start l_end]; lia | assumption | lia | lia].
    + pose proof (line_points_hull _ _ H) as [Hx Hy]. cbn [l_start l_end px py] in Hx, Hy.
      destruct (Z_lt_le_dec (py p2) (py p3)) as [T|T].
      * right; right. apply (edge_pixel_le (L p2 p3) b); [unfold ldy; cbn [l_start l_end]; lia | assumption | lia |].
        assert (0 < cross_to (L p2 p3) (P x y)) by (apply C23; lia). lia.
      * exfalso. assert (y = py p3) by lia. assert (py p2 = py p3) by lia. assert (px p2 <= px p3) by lia.
        unfold cross_to, ldx, ldy in C13. cbn [l_start l_end px py] in C13.
        assert (E : (x - px p1) * (py p3 - py p1) - (y - py p1) * (px p3 - px p1) = (x - px p3) * (py p3 - py p1)) by nia.
        rewrite E in C13. nia.
Qed.

(* C05, triangle, subset direction *)
Theorem points_in_contains t q : tri_ok t -> area_doubled t <> 0 -> In q (tri_points t) -> tri_contains t q = true.
Proof.
  intros Hok Ha Hq. apply tri_contains_spec; try assumption. apply points_closed_or_edge; assumption.
Qed.

(* C05 for triangles: points() is exactly the row-major filter of contains() over the bounding box *)
Theorem tri_points_filter_contains t : tri_ok t -> area_doubled t <> 0 ->
  tri_points t = filter (tri_contains t) (points (tri_bounding_box t)).
Proof.
  intros Hok Ha.
  assert (Hbb : rect_ok (tri_bounding_box t)).
  { destruct Hok as (A & B & C). destr_tri t. unfold tri_bounding_box, with_corners, size_from_bounding_box, rect_ok,
      point_ok, size_ok, bound, tpoint_ok, tbound in *. cbn [v1 v2 v3 px py tl sz sw sh] in *. lia. }
  apply sorted_lt_ext.
  - apply tri_points_row_major. assumption.
  - pose proof (points_sorted _ Hbb) as Hs.
    induction Hs as [|x l Hs IH Hx]; cbn [filter]; [constructor|].
    destruct (tri_contains t x); [constructor|]; try assumption.
    rewrite Forall_forall in *. intros z Hz. apply filter_In in Hz. apply Hx, Hz.
  - intros q. rewrite filter_In. split.
    + intros Hq. split; [|apply points_in_contains; assumption].
      apply points_spec; [assumption|]. apply points_in_bbox; assumption.
    + intros [_ Hc]. apply contains_in_points; assumption.
Qed.

(* tri_within_one_pixel (DESIGN C19) in Euclidean form: a yielded point outside the closed triangle is a Bresenham pixel
   of a sorted edge l, hence within HALF a pixel of the segment: dist^2 = cross^2 / |d|^2 <= 1/4 and the foot of the
   perpendicular lies on the segment (0 <= dot <= |d|^2) *)
Definition near_edge (l : line) (q : point) : Prop :=
  4 * (cross_to l q * cross_to l q) <= ldx l * ldx l + ldy l * ldy l /\
  0 <= dot_to l q <= ldx l * ldx l + ldy l * ldy l.

Lemma line_pixel_near l q : In q (line_points l) -> near_edge l q.
Proof.
  intros H. apply In_nth_error in H. destruct H as [i Hi]. split.
  - eapply line_euclid_half; eassumption.
  - eapply line_within_ends; eassumption.
Qed.

Theorem points_within_half_pixel t q : tri_ok t -> area_doubled t <> 0 -> In q (tri_points t) ->
  in_closed_tri t q \/
  let st := sorted_yx t in
  near_edge (L (v1 st) (v2 st)) q \/ near_edge (L (v1 st) (v3 st)) q \/ near_edge (L (v2 st) (v3 st)) q.
Proof.
  intros Hok Ha Hq. destruct (points_closed_or_edge t q Hok Ha Hq) as [H|H]; [left; assumption|right].
  unfold tri_fill_edges, tri_edge_points in H. assert (E : (area_doubled t =? 0) = false) by lia. rewrite E in H.
  cbv zeta. rewrite !in_app_iff in H. destruct H as [H|[H|H]]; [left | right; left | right; right]; apply line_pixel_near, H.
Qed.

(* colinear vertices: every yielded point is a pixel of the line between the extreme vertices *)
Theorem points_deg_on_line t q : tri_ok t -> area_doubled t = 0 -> In q (tri_points t) ->
  In q (line_points (L (v1 (sorted_yx t)) (v3 (sorted_yx t)))).
Proof.
  intros Hok Ha Hq. destruct (points_between_edge_pixels t q Hok Hq) as (a & b & Hpa & Hpb & Hab).
  unfold tri_fill_edges in Hpa, Hpb. assert (E : (area_doubled t =? 0) = true) by lia. rewrite E in Hpa, Hpb.
  rewrite (point_eta q). apply (line_row_run _ a b); try assumption.
  pose proof (sorted_ys t) as Hs. cbv zeta in Hs. unfold ldy. cbn [l_start l_end]. lia.
Qed.

(* ======================================================================== *)
(* 8. the range hypothesis: no i32 overflow in area_doubled / contains         *)
(* ======================================================================== *)
Lemma mul_bound a b A B : - A <= a <= A -> - B <= b <= B -> - (A * B) <= a * b <= A * B.
Proof. intros Ha Hb. nia. Qed.

Definition fits_i32 (x : Z) : Prop := -2147483648 <= x <= 2147483647.

(* Within tri_ok, and for p inside the bounding box (the only points for which contains() evaluates s and t), every
   product and every partial sum of area_doubled (mod.rs:187), of s and t (mod.rs:97-98) and s + t (mod.rs:114, 116),
   in the order in which Rust evaluates them, fits an i32. *)
Lemma tri_no_overflow t p : tri_ok t -> contains (tri_bounding_box t) p = true ->
  let x1 := px (v1 t) in let y1 := py (v1 t) in let x2 := px (v2 t) in let y2 := py (v2 t) in
  let x3 := px (v3 t) in let y3 := py (v3 t) in let qx := px p in let qy := py p in
  (* area_doubled: -p2.y * p3.x + p1.y * (p3.x - p2.x) + p1.x * (p2.y - p3.y) + p2.x * p3.y *)
  fits_i32 ((- y2) * x3) /\ fits_i32 (y1 * (x3 - x2)) /\ fits_i32 ((- y2) * x3 + y1 * (x3 - x2)) /\
  fits_i32 (x1 * (y2 - y3)) /\ fits_i32 ((- y2) * x3 + y1 * (x3 - x2) + x1 * (y2 - y3)) /\
  fits_i32 (x2 * y3) /\ fits_i32 (area_doubled t) /\
  (* s = p1.y * p3.x - p1.x * p3.y + (p3.y - p1.y) * p.x + (p1.x - p3.x) * p.y *)
  fits_i32 (y1 * x3) /\ fits_i32 (x1 * y3) /\ fits_i32 (y1 * x3 - x1 * y3) /\
  fits_i32 ((y3 - y1) * qx) /\ fits_i32 (y1 * x3 - x1 * y3 + (y3 - y1) * qx) /\
  fits_i32 ((x1 - x3) * qy) /\ fits_i32 (y1 * x3 - x1 * y3 + (y3 - y1) * qx + (x1 - x3) * qy) /\
  (* t = p1.x * p2.y - p1.y * p2.x + (p1.y - p2.y) * p.x + (p2.x - p1.x) * p.y *)
  fits_i32 (x1 * y2) /\ fits_i32 (y1 * x2) /\ fits_i32 (x1 * y2 - y1 * x2) /\
  fits_i32 ((y1 - y2) * qx) /\ fits_i32 (x1 * y2 - y1 * x2 + (y1 - y2) * qx) /\
  fits_i32 ((x2 - x1) * qy) /\ fits_i32 (x1 * y2 - y1 * x2 + (y1 - y2) * qx + (x2 - x1) * qy) /\
  (* s + t *)
  fits_i32 (y1 * x3 - x1 * y3 + (y3 - y1) * qx + (x1 - x3) * qy + (x1 * y2 - y1 * x2 + (y1 - y2) * qx + (x2 - x1) * qy)).
Proof.
  intros Hok Hbb.
  assert (Hp : tpoint_ok p).
  { destruct Hok as (A & B & C). apply contains_spec in Hbb. destr_tri t. destruct p as [qx qy].
    unfold tri_bounding_box, with_corners, size_from_bounding_box, tpoint_ok, tbound in *.
    cbn [v1 v2 v3 px py tl sz sw sh] in *. lia. }
  destruct Hok as (A & B & C). unfold tpoint_ok, tbound in *. cbv zeta. unfold area_doubled.
  set (x1 := px (v1 t)) in *. set (y1 := py (v1 t)) in *. set (x2 := px (v2 t)) in *. set (y2 := py (v2 t)) in *.
  set (x3 := px (v3 t)) in *. set (y3 := py (v3 t)) in *. set (qx := px p) in *. set (qy := py p) in *.
  clearbody x1 y1 x2 y2 x3 y3 qx qy. clear Hbb.
  pose proof (mul_bound (- y2) x3 8192 8192 ltac:(lia) ltac:(lia)) as M1.
  pose proof (mul_bound y1 (x3 - x2) 8192 16384 ltac:(lia) ltac:(lia)) as M2.
  pose proof (mul_bound x1 (y2 - y3) 8192 16384 ltac:(lia) ltac:(lia)) as M3.
  pose proof (mul_bound x2 y3 8192 8192 ltac:(lia) ltac:(lia)) as M4.
  pose proof (mul_bound y1 x3 8192 8192 ltac:(lia) ltac:(lia)) as M5.
  pose proof (mul_bound x1 y3 8192 8192 ltac:(lia) ltac:(lia)) as M6.
  pose proof (mul_bound (y3 - y1) qx 16384 8192 ltac:(lia) ltac:(lia)) as M7.
  pose proof (mul_bound (x1 - x3) qy 16384 8192 ltac:(lia) ltac:(lia)) as M8.
  pose proof (mul_bound x1 y2 8192 8192 ltac:(lia) ltac:(lia)) as M9.
  pose proof (mul_bound y1 x2 8192 8192 ltac:(lia) ltac:(lia)) as M10.
  pose proof (mul_bound (y1 - y2) qx 16384 8192 ltac:(lia) ltac:(lia)) as M11.
  pose proof (mul_bound (x2 - x1) qy 16384 8192 ltac:(lia) ltac:(lia)) as M12.
  set (m1 := (- y2) * x3) in *. set (m2 := y1 * (x3 - x2)) in *. set (m3 := x1 * (y2 - y3)) in *. set (m4 := x2 * y3) in *.
  set (m5 := y1 * x3) in *. set (m6 := x1 * y3) in *. set (m7 := (y3 - y1) * qx) in *. set (m8 := (x1 - x3) * qy) in *.
  set (m9 := x1 * y2) in *. set (m10 := y1 * x2) in *. set (m11 := (y1 - y2) * qx) in *. set (m12 := (x2 - x1) * qy) in *.
  clearbody m1 m2 m3 m4 m5 m6 m7 m8 m9 m10 m11 m12.
  unfold fits_i32. repeat split; lia.
Qed.
