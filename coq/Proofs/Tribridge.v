(* Bridges of the triangle / polyline consumer model (Model/Tristyled.v):
     1. to the draw-target model Model/Target.v (C01 a): the ordered pixel writes of Tristyled.fill_writes and the
        fill_solid calls / the single draw_iter give the same Target.render map, on either kind of target, any target box;
     2. to the thick-stroke pipeline model of builder "join" (Model/JoinTri.v): jt_pixels / jt_draw ARE the two consumers
        of Model/Tristyled.v applied to the rows jt_rows computes (scanline and point-type records converted), so the
        correspondence of join_tri_pixels / join_tri_rects exercises the PTStroke branches of these consumers, and
        pixels() = draw() for stroked triangles follows from the glue theorem once first_rows_ok is known. *)
From EG Require Import Base.Prelude Base.Lemmas Model.Geometry Model.Style Model.Target
  Proofs.Geometry Proofs.Scanline Proofs.Target Proofs.Targetbridge.
From EG Require Model.Join Model.JoinTri Proofs.TriJoinW1.
From EG Require Import Model.Line Model.Polyline Model.Triangle Model.Tristyled Proofs.Polyline Proofs.Triangle Proofs.Tristyled.
From Coq Require Import ZifyBool.

Ltac Zify.zify_post_hook ::= Z.to_euclidean_division_equations.
Set Default Timeout 60.

(* ======================================================================== *)
(* 1. Model/Target.v                                                          *)
(* ======================================================================== *)

Lemma fold_writes_const (c : Z) (p : point) (qs : list point) : forall acc,
  fold_left (fun acc (qc : point * Z) => if point_eqb (fst qc) p then Some (snd qc) else acc) (map (fun q => (q, c)) qs) acc =
  if existsb (fun q => point_eqb q p) qs then Some c else acc.
Proof.
  induction qs as [|q qs IH]; intros acc; [reflexivity|]. cbn [map fold_left existsb fst snd]. rewrite IH.
  destruct (point_eqb q p); cbn [orb]; [destruct (existsb _ qs); reflexivity | reflexivity].
Qed.

Lemma existsb_points r p : rect_ok r -> existsb (fun q => point_eqb q p) (points r) = contains r p.
Proof.
  intros Hok. destruct (contains r p) eqn:E.
  - apply existsb_exists. exists p. split; [apply points_spec; assumption|]. unfold point_eqb. lia.
  - destruct (existsb _ (points r)) eqn:X; [|reflexivity]. apply existsb_exists in X. destruct X as (q & Hq & Hqp).
    apply points_spec in Hq; [|assumption].
    assert (q = p) as -> by (unfold point_eqb in Hqp; destruct q as [a b], p as [c d]; cbn [px py] in *; f_equal; lia).
    congruence.
Qed.

(* the call-list map of a list of fill_solid calls is the last-write map of their expanded writes *)
Theorem render_is_last_write (l : list (rect * Z)) p : Forall (fun rc => rect_ok (fst rc)) l ->
  Scanline.render l p = Scanline.last_write (flat_map fill_writes l) p.
Proof.
  unfold Scanline.render, Scanline.last_write. generalize (@None Z) as acc.
  induction l as [|[r c] l IH]; intros acc Hok; [reflexivity|]. inversion Hok as [|? ? Hr Hl]; subst.
  cbn [flat_map fold_left fst snd]. rewrite fold_left_app. change (fill_writes (r, c)) with (map (fun q => (q, c)) (points r)).
  cbn [fst] in Hr. rewrite fold_writes_const, existsb_points by assumption. apply IH. assumption.
Qed.

Lemma sl_rect_ok l : sl_ok l -> is_zero_sized (sl_to_rectangle l) = false -> rect_ok (sl_to_rectangle l).
Proof.
  intros (A & B & C). unfold sl_to_rectangle, sl_is_empty, is_zero_sized, rect_ok, point_ok, size_ok, bound, sbound in *.
  cbn [tl sz px py sw sh]. destruct (sl_start l <? sl_end l) eqn:E; cbn [negb]; lia.
Qed.

Lemma tri_draw_rects_ok st lines : Forall (fun lk => sl_ok (fst lk)) lines ->
  Forall (fun rc => rect_ok (fst rc)) (tri_draw_styled st lines).
Proof.
  intros Hok. unfold tri_draw_styled. destruct (is_transparent st); [constructor|].
  apply Forall_forall. intros rc Hrc. apply in_flat_map in Hrc. destruct Hrc as (lk & Hlk & Hin).
  rewrite Forall_forall in Hok. specialize (Hok lk Hlk).
  destruct (match snd lk with PTStroke => _ | PTFill => _ end); [|destruct Hin].
  destruct (is_zero_sized (sl_to_rectangle (fst lk))) eqn:Z0; cbn [negb] in Hin; [destruct Hin|].
  destruct Hin as [<-|[]]. cbn [fst]. apply sl_rect_ok; assumption.
Qed.

Lemma rects_fit (l : list (rect * Z)) : Forall (fun rc => rect_ok (fst rc)) l -> Forall call_fits (fill_calls l).
Proof.
  intros H. unfold fill_calls. apply Forall_forall. intros c Hc. apply in_map_iff in Hc. destruct Hc as (rc & <- & Hrc).
  cbn [call_fits]. apply rect_ok_fits. rewrite Forall_forall in H. apply H, Hrc.
Qed.

(* C01 (a) + (b) for the triangle consumers: pixels() handed to draw_iter and the fill_solid calls of draw(), on ANY pair of
   target kinds with ANY target box, give the same pixel map *)
Theorem tri_pixels_draw_target st rows bb k k' p :
  Forall (Forall (fun lk => sl_ok (fst lk))) rows -> first_rows_ok rows -> rect_fits bb ->
  Target.render bb k (iter_call (tri_styled_pixels st rows)) p =
  Target.render bb k' (fill_calls (tri_draw_styled st (for_sequence rows))) p.
Proof.
  intros Hok Hfirst Hbb.
  pose proof (tri_draw_rects_ok st (for_sequence rows) (Forall_for_sequence _ rows Hok)) as Hr.
  rewrite render_iter, render_fill_any_kind by (try assumption; apply rects_fit; assumption).
  rewrite (render_is_last_write _ p Hr), tri_glue_pixels_draw by assumption. reflexivity.
Qed.

Theorem tri_w0_pixels_draw_target st t bb k k' p : tri_ok t -> rect_fits bb ->
  Target.render bb k (iter_call (tri_styled_pixels_w0 st t)) p = Target.render bb k' (fill_calls (tri_draw_styled_w0 st t)) p.
Proof.
  intros Hok Hbb. unfold tri_styled_pixels_w0, tri_draw_styled_w0. apply tri_pixels_draw_target; try assumption.
  - apply tri_rows_w0_ok. assumption.
  - unfold has_fill. destruct (fill_color st); [apply first_rows_ok_w0 | apply for_sequence_w0_nofill].
Qed.

(* what a fill-only triangle looks like on a target: points() in the fill colour, inside the target box *)
Theorem tri_w0_render_target st t bb k p : tri_ok t -> rect_fits bb ->
  Target.render bb k (fill_calls (tri_draw_styled_w0 st t)) p =
  if contains bb p then
    match fill_color st with
    | Some c => if existsb (fun q => point_eqb q p) (tri_points t) then Some c else None
    | None => None
    end
  else None.
Proof.
  intros Hok Hbb. rewrite <- (tri_w0_pixels_draw_target st t bb Native k p Hok Hbb), render_iter.
  destruct (contains bb p); [|reflexivity]. rewrite tri_styled_pixels_w0_spec.
  destruct (fill_color st) as [c|]; cbn [colored]; [|reflexivity].
  unfold Scanline.last_write. apply fold_writes_const.
Qed.

(* polylines *)
Lemma poly_draw_rects_ok st tr lines : tr_ok tr -> Forall sl_ok lines ->
  Forall (fun rc => rect_ok (fst rc)) (poly_draw_styled_thick st tr lines).
Proof.
  intros (T1 & T2) Hok. unfold poly_draw_styled_thick. destruct (stroke_color st); [|constructor].
  apply Forall_forall. intros rc Hrc. apply in_flat_map in Hrc. destruct Hrc as (l & Hl & Hin).
  rewrite Forall_forall in Hok. destruct (Hok l Hl) as (A & B & C).
  destruct (is_zero_sized (sl_to_rectangle l)) eqn:Z0; cbn [negb] in Hin; [destruct Hin|]. destruct Hin as [<-|[]]. cbn [fst].
  unfold translate_rect, sl_to_rectangle, sl_is_empty, is_zero_sized, rect_ok, point_ok, size_ok, bound, sbound, padd in *.
  cbn [tl sz px py sw sh] in *. destruct (sl_start l <? sl_end l) eqn:E; cbn [negb] in *; lia.
Qed.

Theorem poly_thick_pixels_draw_target st tr raw bb k k' p :
  1 < stroke_width st -> tr_ok tr -> Forall sl_ok raw -> rect_fits bb ->
  Target.render bb k (iter_call (poly_styled_pixels_thick st tr (poly_scanlines raw))) p =
  Target.render bb k' (fill_calls (poly_draw_styled_thick st tr (poly_scanlines raw))) p.
Proof.
  intros Hw Htr Hok Hbb.
  assert (Hok' : Forall sl_ok (poly_scanlines raw)).
  { unfold poly_scanlines. apply Forall_forall. intros l Hl. apply filter_In in Hl. rewrite Forall_forall in Hok. apply Hok, Hl. }
  pose proof (poly_draw_rects_ok st tr _ Htr Hok') as Hr.
  rewrite render_iter, render_fill_any_kind by (try assumption; apply rects_fit; assumption).
  rewrite (render_is_last_write _ p Hr), poly_glue_pixels_draw_thick by assumption. reflexivity.
Qed.

(* width <= 1: draw() is ONE draw_iter over the same list *)
Theorem poly_thin_pixels_draw_target st pl bb k k' p : 0 <= stroke_width st <= 1 ->
  Target.render bb k (iter_call (poly_styled_pixels_thin st pl)) p = Target.render bb k' (iter_call (poly_draw_styled_thin st pl)) p.
Proof. intros Hw. rewrite poly_glue_pixels_draw_thin by assumption. rewrite !render_iter. reflexivity. Qed.

(* ======================================================================== *)
(* 2. Model/JoinTri.v: the same consumers                                     *)
(* ======================================================================== *)

Definition conv_sl (s : Join.scanline) : scanline := SL (Join.sl_y s) (Join.sl_x0 s) (Join.sl_x1 s).
Definition conv_pt (k : JoinTri.point_type) : point_type :=
  match k with JoinTri.PStroke => PTStroke | JoinTri.PFill => PTFill end.
Definition conv_line (lk : Join.scanline * JoinTri.point_type) : tline := (conv_sl (fst lk), conv_pt (snd lk)).
Definition conv_rows (rs : list (list (Join.scanline * JoinTri.point_type))) : list (list tline) := map (map conv_line) rs.

(* the style jt_pixels / jt_draw stand for: stroke colour 1, width w, the given fill *)
Definition jt_style (w : Z) (al : alignment) (fill : option Z) : style := Style fill (Some 1) w al Solid.

Lemma conv_sl_points s : sl_points (conv_sl s) = Join.sl_points s.
Proof. reflexivity. Qed.

Lemma conv_sl_rect s : sl_to_rectangle (conv_sl s) = Join.sl_to_rectangle s.
Proof. reflexivity. Qed.

Lemma conv_color w al fill k : color_of (jt_style w al fill) (conv_pt k) = JoinTri.jt_color w fill k.
Proof. destruct k; reflexivity. Qed.

Lemma gen_go_conv rs : gen_go (conv_rows rs) = map conv_line (JoinTri.jt_go rs).
Proof.
  induction rs as [|r rest IH]; [reflexivity|]. cbn [conv_rows map gen_go JoinTri.jt_go]. fold (conv_rows rest).
  destruct r as [|x r]; [reflexivity|]. cbn [map]. rewrite IH, map_app. reflexivity.
Qed.

(* both models drive the un-fused iterator in the same way *)
Lemma for_sequence_conv rs : for_sequence (conv_rows rs) = map conv_line (JoinTri.jt_for_sequence rs).
Proof.
  destruct rs as [|r rest]; [reflexivity|]. unfold for_sequence, gen_new, gen_run, JoinTri.jt_for_sequence.
  cbn [conv_rows map g_cur g_rows]. fold (conv_rows rest). rewrite gen_go_conv, map_app. reflexivity.
Qed.

Lemma pixels_sequence_conv rs : pixels_sequence (conv_rows rs) = map conv_line (JoinTri.jt_pixels_sequence rs).
Proof.
  rewrite pixels_sequence_unfold. destruct rs as [|[|x r] [|[|x2 r2] rest2]];
    try (rewrite for_sequence_conv; reflexivity).
  cbn [conv_rows map JoinTri.jt_pixels_sequence]. fold (conv_rows rest2). apply gen_go_conv.
Qed.

Lemma tri_pixels_ref_conv w al fill ls :
  tri_pixels_ref (jt_style w al fill) (map conv_line ls) =
  flat_map (fun lk : Join.scanline * JoinTri.point_type =>
              match JoinTri.jt_color w fill (snd lk) with
              | Some c => map (fun p => (p, c)) (Join.sl_points (fst lk))
              | None => []
              end) ls.
Proof.
  unfold tri_pixels_ref. induction ls as [|[s k] ls IH]; [reflexivity|]. cbn [map flat_map]. rewrite IH. f_equal.
  unfold conv_line. cbn [fst snd]. rewrite conv_color, conv_sl_points. destruct (JoinTri.jt_color w fill k); reflexivity.
Qed.

(* jt_pixels is Styled<Triangle>::pixels() of Model/Tristyled.v on the rows the pipeline computes *)
Theorem jt_pixels_is_tri_styled_pixels t w al fill :
  JoinTri.jt_pixels t w al fill =
  option_map (fun rs => tri_styled_pixels (jt_style w al fill) (conv_rows rs))
             (JoinTri.jt_rows t w al (match fill with Some _ => true | None => false end)).
Proof.
  unfold JoinTri.jt_pixels. destruct (JoinTri.jt_rows t w al _) as [rs|]; [|reflexivity]. cbn [option_map]. f_equal.
  rewrite tri_styled_pixels_spec, pixels_sequence_conv. symmetry. apply tri_pixels_ref_conv.
Qed.

Lemma jt_transparent w al fill :
  is_transparent (jt_style w al fill) = (w =? 0) && (match fill with None => true | Some _ => false end).
Proof. unfold is_transparent, jt_style. cbn [stroke_color stroke_width fill_color orb]. reflexivity. Qed.

Lemma tri_draw_conv w al fill ls : is_transparent (jt_style w al fill) = false ->
  tri_draw_styled (jt_style w al fill) (map conv_line ls) =
  flat_map (fun lk : Join.scanline * JoinTri.point_type =>
              match JoinTri.jt_color w fill (snd lk) with
              | Some c => let r := Join.sl_to_rectangle (fst lk) in if is_zero_sized r then [] else [(r, c)]
              | None => []
              end) ls.
Proof.
  intros T. unfold tri_draw_styled. rewrite T. induction ls as [|[s k] ls IH]; [reflexivity|]. cbn [map flat_map]. rewrite IH. f_equal.
  unfold conv_line. cbn [fst snd]. fold (color_of (jt_style w al fill) (conv_pt k)). rewrite conv_color, conv_sl_rect.
  destruct (JoinTri.jt_color w fill k); [|reflexivity]. cbv zeta. destruct (is_zero_sized (Join.sl_to_rectangle s)); reflexivity.
Qed.

(* jt_draw is draw_styled of Model/Tristyled.v on the `for` sequence of the same rows *)
Theorem jt_draw_is_tri_draw_styled t w al fill :
  JoinTri.jt_draw t w al fill =
  if is_transparent (jt_style w al fill) then Some []
  else option_map (fun rs => tri_draw_styled (jt_style w al fill) (for_sequence (conv_rows rs)))
                  (JoinTri.jt_rows t w al (match fill with Some _ => true | None => false end)).
Proof.
  unfold JoinTri.jt_draw. rewrite jt_transparent. destruct ((w =? 0) && _) eqn:T; [reflexivity|].
  destruct (JoinTri.jt_rows t w al _) as [rs|]; [|reflexivity]. cbn [option_map]. f_equal.
  rewrite for_sequence_conv. symmetry. apply tri_draw_conv. rewrite jt_transparent. assumption.
Qed.

(* C01 (b) for stroked triangles, composed: whenever the pipeline model yields rows whose first two are not both empty
   (while a later one is not), draw() writes exactly what pixels() yields *)
Theorem jt_pixels_draw t w al fill rs ps ds :
  JoinTri.jt_rows t w al (match fill with Some _ => true | None => false end) = Some rs ->
  Forall (Forall (fun lk => sl_ok (fst lk))) (conv_rows rs) -> first_rows_ok (conv_rows rs) ->
  JoinTri.jt_pixels t w al fill = Some ps -> JoinTri.jt_draw t w al fill = Some ds ->
  flat_map fill_writes ds = ps.
Proof.
  intros Hrs Hok Hfirst Hp Hd. rewrite jt_pixels_is_tri_styled_pixels, Hrs in Hp. cbn [option_map] in Hp. injection Hp as <-.
  rewrite jt_draw_is_tri_draw_styled, Hrs in Hd. cbn [option_map] in Hd.
  destruct (is_transparent (jt_style w al fill)) eqn:T.
  - injection Hd as <-. cbn [flat_map]. symmetry.
    apply (proj2 (tri_transparent_draws_nothing (jt_style w al fill) (conv_rows rs) T)).
  - injection Hd as <-. apply tri_glue_pixels_draw; assumption.
Qed.

(* ======================================================================== *)
(* 3. C02: thin polyline inside the STYLED bounding box                         *)
(* ======================================================================== *)

(* Styled<Polyline>::bounding_box() = untranslated_bounding_box(..).translate(self.translate) (polyline/styled.rs:16-41,
   186-188); for a visible stroke and at least two vertices the untranslated box is Model/Join.v poly_thick_bounding_box of
   the UNTRANSLATED vertices and the stroke width - computed through ThickSegmentIter / LineJoin also for width 1.
   Every pixel of the thin styled polyline (width <= 1; width 0 draws nothing) lies inside it. *)
Theorem poly_thin_in_styled_bbox st tr vs bb p c :
  0 <= stroke_width st <= 1 -> Forall (fun v => Join.pt_in_i32 v = true) vs ->
  Join.poly_thick_bounding_box vs (stroke_width st) = Some bb ->
  In (p, c) (poly_styled_pixels_thin st (PL tr vs)) -> contains (translate_rect bb tr) p = true.
Proof.
  intros Hw Hok Hbb Hin. unfold poly_styled_pixels_thin, effective_stroke_color in Hin.
  destruct (stroke_color st) as [c'|]; [|destruct Hin].
  destruct (0 <? stroke_width st) eqn:W; [|destruct Hin]. assert (Ew : stroke_width st = 1) by lia. rewrite Ew in Hbb.
  apply in_map_iff in Hin. destruct Hin as (q & E & Hq). injection E as -> _.
  destruct (polyline_point_on_segment _ _ Hq) as (l & Hl & Hp). cbn [pl_translate pl_vertices] in Hl.
  apply segments_ends in Hl. destruct Hl as [Ha Hb]. unfold shift in Ha, Hb.
  apply in_map_iff in Ha, Hb. destruct Ha as (u & Eu & Hu), Hb as (v & Ev & Hv).
  assert (Hlen : (2 <= length vs)%nat).
  { destruct vs as [|x [|y r]]; cbn [length]; try lia.
    - destruct Hu.
    - exfalso. rewrite polyline_points_spec in Hq. exact Hq. }
  pose proof (TriJoinW1.tj_polyline_w1_box_contains_vertices vs bb u Hlen Hok Hbb Hu) as Cu.
  pose proof (TriJoinW1.tj_polyline_w1_box_contains_vertices vs bb v Hlen Hok Hbb Hv) as Cv.
  apply line_points_hull in Hp. rewrite <- Eu, <- Ev in Hp.
  apply contains_spec in Cu, Cv. apply contains_spec.
  unfold translate_rect, padd in *. cbn [tl sz px py] in *. lia.
Qed.
