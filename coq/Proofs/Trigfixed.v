(* The trig hypothesis as a THEOREM for the `fixed_point` feature set.
   Model/Trigfixed.v is the exact integer model of the I16F16 trigonometry behind PlaneSector::new (table lookup of
   the nearest whole degree); here: every table entry is sin(d deg) up to 0.501 ulp (Coq Interval), the computed
   `degree` is within 0.5036 deg of the real angle, sin is 1-Lipschitz (mean value theorem), truncation of the scaled
   components loses at most 63/64 - so the integer normal of with_angle is within eps = 10 (componentwise) of
   1024 (-sin t, cos t) for the REAL angle t = bits / 65536, for every angle bit pattern within +-1_900_000
   (about +-1661 deg); and fx_plane_sector satisfies `trig_hypothesis ... 10` of Proofs/Sectorangle.v.
   Remaining trust: the model of the `fixed` crate operations (Model/Trigfixed.v header; tied by the fx_parts
   correspondence on the fixed_point binary) and the generated table (translate/gen_sin.py). *)
From EG Require Import Base.Prelude Base.Lemmas Model.Geometry Model.Sectormodel Gen.SinTable Model.Trigfixed
  Proofs.Sectormodel Proofs.Sectorreal Proofs.Sectorangle.
From Coq Require Import Reals Lra Lia ZifyBool.
From Interval Require Import Tactic.
Local Open Scope R_scope.
Set Default Timeout 300.
Ltac Zify.zify_post_hook ::= Z.to_euclidean_division_equations.

(* ---- 1. the table: every entry is sin(d degrees) in I16F16, up to 0.501 units of the last bit ---------- *)
Definition deg2rad (d : R) : R := d * PI / 180.

Definition table_ok (d v : Z) : Prop := Rabs (IZR v - 65536 * sin (deg2rad (IZR d))) <= 501 / 1000.

Lemma table_accurate_nat (n : nat) : (n <= 90)%nat -> table_ok (Z.of_nat n) (nth n sin_table 0%Z).
Proof.
  intros Hn. unfold table_ok, deg2rad.
  do 91 (destruct n as [|n]; [cbn [nth sin_table Z.of_nat Pos.of_succ_nat Pos.succ]; interval with (i_prec 64)|]).
  lia.
Qed.

Lemma table_accurate d : (0 <= d <= 90)%Z -> table_ok d (nth (Z.to_nat d) sin_table 0%Z).
Proof.
  intros Hd. rewrite <- (Z2Nat.id d) at 1 by lia. apply table_accurate_nat. lia.
Qed.

(* ---- 2. quadrant symmetry: fx_sin_of_degree r is sin(r degrees) for every r in 0..359 ------------------- *)
Lemma sin_pi_minus x : sin (PI - x) = sin x.
Proof. rewrite sin_minus, sin_PI, cos_PI. ring. Qed.
Lemma sin_minus_pi x : sin (x - PI) = - sin x.
Proof. rewrite sin_minus, sin_PI, cos_PI. ring. Qed.
Lemma sin_2pi_minus x : sin (2 * PI - x) = - sin x.
Proof. rewrite sin_minus, sin_2PI, cos_2PI. ring. Qed.

Lemma sin_of_degree_accurate r :
  (0 <= r < 360)%Z -> Rabs (IZR (fx_sin_of_degree r) - 65536 * sin (deg2rad (IZR r))) <= 501 / 1000.
Proof.
  intros Hr. unfold fx_sin_of_degree.
  destruct (Z.leb_spec r 90) as [H90|H90]; [apply table_accurate; lia|].
  destruct (Z.leb_spec r 180) as [H180|H180].
  - pose proof (table_accurate (180 - r) ltac:(lia)) as H. unfold table_ok in H.
    replace (deg2rad (IZR (180 - r))) with (PI - deg2rad (IZR r)) in H by (rewrite minus_IZR; unfold deg2rad; field).
    rewrite sin_pi_minus in H. exact H.
  - destruct (Z.leb_spec r 270) as [H270|H270].
    + pose proof (table_accurate (r - 180) ltac:(lia)) as H. unfold table_ok in H.
      replace (deg2rad (IZR (r - 180))) with (deg2rad (IZR r) - PI) in H by (rewrite minus_IZR; unfold deg2rad; field).
      rewrite sin_minus_pi in H. rewrite opp_IZR.
      replace (- IZR (nth (Z.to_nat (r - 180)) sin_table 0%Z) - 65536 * sin (deg2rad (IZR r)))
        with (- (IZR (nth (Z.to_nat (r - 180)) sin_table 0%Z) - 65536 * - sin (deg2rad (IZR r)))) by ring.
      rewrite Rabs_Ropp. exact H.
    + pose proof (table_accurate (360 - r) ltac:(lia)) as H. unfold table_ok in H.
      replace (deg2rad (IZR (360 - r))) with (2 * PI - deg2rad (IZR r)) in H by (rewrite minus_IZR; unfold deg2rad; field).
      rewrite sin_2pi_minus in H. rewrite opp_IZR.
      replace (- IZR (nth (Z.to_nat (360 - r)) sin_table 0%Z) - 65536 * sin (deg2rad (IZR r)))
        with (- (IZR (nth (Z.to_nat (360 - r)) sin_table 0%Z) - 65536 * - sin (deg2rad (IZR r)))) by ring.
      rewrite Rabs_Ropp. exact H.
Qed.

(* ---- 3. periodicity over Z ------------------------------------------------------------------------------ *)
Lemma sin_period_Z x (k : Z) : sin (x + 2 * IZR k * PI) = sin x.
Proof.
  destruct (Z_le_gt_dec 0 k) as [Hk|Hk].
  - rewrite <- (Z2Nat.id k Hk), <- INR_IZR_INZ. apply sin_period.
  - replace x with ((x + 2 * IZR k * PI) + 2 * INR (Z.to_nat (- k)) * PI) at 2.
    + symmetry. apply sin_period.
    + rewrite INR_IZR_INZ, Z2Nat.id by lia. rewrite opp_IZR. ring.
Qed.

Lemma sin_degree_mod (D : Z) : sin (deg2rad (IZR (D mod 360))) = sin (deg2rad (IZR D)).
Proof.
  rewrite (Z.div_mod D 360) at 2 by lia. rewrite plus_IZR, mult_IZR.
  replace (deg2rad (360 * IZR (D / 360) + IZR (D mod 360))) with (deg2rad (IZR (D mod 360)) + 2 * IZR (D / 360) * PI)
    by (unfold deg2rad; field).
  symmetry. apply sin_period_Z.
Qed.

(* the table lookup of an integer degree D is sin(D degrees) *)
Lemma sin_lookup_accurate (D : Z) :
  Rabs (IZR (fx_sin_of_degree (D mod 360)) - 65536 * sin (deg2rad (IZR D))) <= 501 / 1000.
Proof.
  rewrite <- sin_degree_mod. apply sin_of_degree_accurate. apply Z.mod_pos_bound. lia.
Qed.

(* ---- 4. `degree`: the integer nearest to 180 a / PI, computed in I16F16 --------------------------------- *)
(* range of the argument of sin in which the error budget of eps = 10 holds: about +-1751 degrees *)
Definition fx_sin_arg_bound : Z := 2003000.


Lemma fx_mul_180 a : fx_mul (fx_of_int 180) a = (180 * a)%Z.
Proof. unfold fx_mul, fx_of_int, fx_one. replace (180 * 65536 * a)%Z with (180 * a * 65536)%Z by ring. apply Z.div_mul. lia. Qed.

Lemma quot_bound n d : (0 < d)%Z -> (Z.abs (Z.quot n d * d - n) < d)%Z.
Proof. intros Hd. pose proof (Z.quot_rem' n d). pose proof (Z.rem_bound_abs n d ltac:(lia)). lia. Qed.

Lemma fx_round_int_bound b : (Z.abs (65536 * fx_round_int b - b) <= 32768)%Z.
Proof.
  unfold fx_round_int, fx_one.
  destruct (Z.ltb_spec (b mod 65536) 32768); [lia|].
  destruct ((b mod 65536 =? 32768)%Z && (b <? 0)%Z) eqn:E; lia.
Qed.

(* integer part of the error analysis *)
Lemma fx_degree_int a :
  exists e1 e2 : Z, (Z.abs e1 < 205887)%Z /\ (Z.abs e2 <= 32768)%Z /\
    (205887 * (65536 * fx_degree a + e2) = 180 * a * 65536 + e1)%Z.
Proof.
  unfold fx_degree. rewrite fx_mul_180. unfold fx_div, fx_one, pi_bits.
  set (y := Z.quot (180 * a * 65536) 205887).
  pose proof (quot_bound (180 * a * 65536) 205887 ltac:(lia)) as H1. fold y in H1.
  pose proof (fx_round_int_bound y) as H2.
  exists (y * 205887 - 180 * a * 65536)%Z, (y - 65536 * fx_round_int y)%Z.
  split; [lia|]. split; [lia|]. ring.
Qed.

Definition fx_theta_max : R := 8789 / 1000000.

Lemma fx_degree_close a :
  (Z.abs a <= fx_sin_arg_bound)%Z ->
  Rabs (deg2rad (IZR (fx_degree a)) - IZR a / 65536) <= fx_theta_max.
Proof.
  intros Ha. destruct (fx_degree_int a) as (e1 & e2 & H1 & H2 & H3).
  apply (f_equal IZR) in H3. rewrite !mult_IZR, !plus_IZR, !mult_IZR in H3.
  set (D := IZR (fx_degree a)) in *. set (A := IZR a) in *. set (E1 := IZR e1) in *. set (E2 := IZR e2) in *.
  assert (HD : D = (180 * A * 65536 + E1) / (205887 * 65536) - E2 / 65536) by (field_simplify_eq; lra).
  assert (BA : -2003000 <= A <= 2003000).
  { unfold fx_sin_arg_bound in Ha. split; [replace (-2003000) with (IZR (-2003000)) by reflexivity|]; apply IZR_le; lia. }
  assert (B1 : -205887 <= E1 <= 205887) by (split; [replace (-205887) with (IZR (-205887)) by reflexivity|]; apply IZR_le; lia).
  assert (B2 : -32768 <= E2 <= 32768) by (split; [replace (-32768) with (IZR (-32768)) by reflexivity|]; apply IZR_le; lia).
  unfold deg2rad, fx_theta_max. rewrite HD.
  replace (((180 * A * 65536 + E1) / (205887 * 65536) - E2 / 65536) * PI / 180 - A / 65536)
    with (A * ((65536 * PI / 205887 - 1) / 65536) + E1 * (PI / (180 * 205887 * 65536)) - E2 * (PI / (180 * 65536))) by field.
  clearbody A E1 E2. clear -BA B1 B2.
  interval with (i_prec 64).
Qed.

(* ---- 5. sin is 1-Lipschitz -------------------------------------------------------------------------------- *)
Lemma sin_lipschitz x y : Rabs (sin x - sin y) <= Rabs (x - y).
Proof.
  destruct (MVT_abs sin cos y x) as (c & Hc & _).
  - intros c _. apply derivable_pt_lim_sin.
  - rewrite Hc. rewrite <- (Rmult_1_l (Rabs (x - y))) at 2.
    apply Rmult_le_compat_r; [apply Rabs_pos|]. apply Rabs_le. pose proof (COS_bound c). lra.
Qed.

(* the real angle (radians) an I16F16 bit pattern stands for *)
Definition fx_val (a : Z) : R := IZR a / 65536.

(* ---- 6. sin / cos bits and the scaled components ----------------------------------------------------------- *)
Lemma fx_sin_accurate a :
  (Z.abs a <= fx_sin_arg_bound)%Z ->
  Rabs (IZR (fx_sin a) - 65536 * sin (fx_val a)) <= 501 / 1000 + 65536 * fx_theta_max.
Proof.
  intros Ha. unfold fx_sin, fx_val.
  pose proof (sin_lookup_accurate (fx_degree a)) as H1.
  pose proof (sin_lipschitz (deg2rad (IZR (fx_degree a))) (IZR a / 65536)) as H2.
  pose proof (fx_degree_close a Ha) as H3.
  set (T := IZR (fx_sin_of_degree (fx_degree a mod 360))) in *.
  set (s1 := sin (deg2rad (IZR (fx_degree a)))) in *. set (s2 := sin (IZR a / 65536)) in *.
  apply Rabs_le_both in H1. assert (H4 : Rabs (s1 - s2) <= fx_theta_max) by lra. apply Rabs_le_both in H4.
  apply Rabs_le. lra.
Qed.

(* i32::from(x * Real::from(1024)): the I16F16 bits T scaled by 1024 and truncated toward zero *)
Definition fx_component (T : Z) : Z := fx_to_i32 (fx_mul T (fx_of_int normal_vector_scale)).

Lemma fx_component_quot T : fx_component T = Z.quot T 64.
Proof.
  unfold fx_component, fx_to_i32, fx_mul, fx_of_int, fx_one, normal_vector_scale.
  replace (T * (1024 * 65536))%Z with (T * 1024 * 65536)%Z by ring. rewrite Z.div_mul by lia.
  lia.
Qed.

Lemma fx_component_bound T : (Z.abs (64 * fx_component T - T) <= 63)%Z.
Proof. rewrite fx_component_quot. lia. Qed.

Lemma fx_component_accurate T s e :
  Rabs (IZR T - 65536 * s) <= e -> Rabs (IZR (fx_component T) - 1024 * s) <= 63 / 64 + e / 64.
Proof.
  intros H. pose proof (fx_component_bound T) as Hb.
  assert (Hr : Rabs (64 * IZR (fx_component T) - IZR T) <= 63).
  { rewrite <- mult_IZR, <- minus_IZR, <- abs_IZR. apply IZR_le. exact Hb. }
  apply Rabs_le_both in H. apply Rabs_le_both in Hr. apply Rabs_le. lra.
Qed.

(* range of angle bit patterns for which both components are covered (cos adds FRAC_PI_2): about +-1661 degrees *)
Definition fx_angle_bound : Z := 1900000.

Lemma fx_sin_component a :
  (Z.abs a <= fx_angle_bound)%Z ->
  Rabs (IZR (fx_component (fx_sin a)) - 1024 * sin (fx_val a)) <= 9993 / 1000.
Proof.
  intros Ha. assert (Ha' : (Z.abs a <= fx_sin_arg_bound)%Z) by (unfold fx_angle_bound, fx_sin_arg_bound in *; lia).
  pose proof (fx_component_accurate _ _ _ (fx_sin_accurate a Ha')) as H.
  unfold fx_theta_max in H. apply Rabs_le_both in H. apply Rabs_le. lra.
Qed.

Lemma cos_as_sin x : cos x = sin (x + PI / 2).
Proof. rewrite sin_plus, sin_PI2, cos_PI2. ring. Qed.

Lemma fx_cos_component a :
  (Z.abs a <= fx_angle_bound)%Z ->
  Rabs (IZR (fx_component (fx_cos a)) - 1024 * cos (fx_val a)) <= 9998 / 1000.
Proof.
  intros Ha. unfold fx_cos, frac_pi_2_bits.
  assert (Ha' : (Z.abs (a + 102944) <= fx_sin_arg_bound)%Z) by (unfold fx_angle_bound, fx_sin_arg_bound in *; lia).
  pose proof (fx_component_accurate _ _ _ (fx_sin_accurate _ Ha')) as H.
  pose proof (sin_lipschitz (fx_val (a + 102944)) (fx_val a + PI / 2)) as HL.
  assert (Hd : Rabs (fx_val (a + 102944) - (fx_val a + PI / 2)) <= 5 / 1000000).
  { unfold fx_val. rewrite plus_IZR.
    replace ((IZR a + 102944) / 65536 - (IZR a / 65536 + PI / 2)) with (102944 / 65536 - PI / 2) by field. interval with (i_prec 64). }
  rewrite (cos_as_sin (fx_val a)).
  set (s1 := sin (fx_val (a + 102944))) in *. set (s2 := sin (fx_val a + PI / 2)) in *.
  assert (H4 : Rabs (s1 - s2) <= 5 / 1000000) by lra.
  unfold fx_theta_max in H. apply Rabs_le_both in H. apply Rabs_le_both in H4. apply Rabs_le. lra.
Qed.

(* ---- 7. the normal vector of with_angle -------------------------------------------------------------------- *)
Theorem fx_with_angle_close a :
  (Z.abs a <= fx_angle_bound)%Z -> normal_close (fx_with_angle a) (fx_val a) 10.
Proof.
  intros Ha. unfold fx_with_angle, angle_180deg_bits.
  destruct (Z.eqb_spec a 205887) as [->|Hne].
  - unfold normal_close, fx_val, normal_vector_scale. cbn [px py Z.opp]. split; interval with (i_prec 64).
  - fold (fx_component (fx_cos a)). fold (fx_component (fx_sin a)).
    unfold normal_close. cbn [px py]. rewrite opp_IZR.
    pose proof (fx_sin_component a Ha) as Hs. pose proof (fx_cos_component a Ha) as Hc.
    apply Rabs_le_both in Hs. apply Rabs_le_both in Hc. split; apply Rabs_le; lra.
Qed.

(* ---- 8. PlaneSector::new of the fixed_point build satisfies the trig hypothesis with eps = 10 --------------- *)
(* the angle in degrees an I16F16 bit pattern (radians) stands for *)
Definition fx_deg (b : Z) : R := fx_val b * 180 / PI.

Lemma rad_fx_deg b : rad (fx_deg b) = fx_val b.
Proof. unfold rad, fx_deg. field. pose proof PI_RGT_0. lra. Qed.

Lemma fx_deg_plus a b : fx_deg a + fx_deg b = fx_deg (a + b).
Proof. unfold fx_deg, fx_val. rewrite plus_IZR. field. pose proof PI_RGT_0. lra. Qed.

Lemma fx_deg_abs b : Rabs (fx_deg b) = fx_deg (Z.abs b).
Proof.
  unfold fx_deg, fx_val. rewrite abs_IZR. pose proof PI_RGT_0 as Hpi.
  replace (IZR b / 65536 * 180 / PI) with (IZR b * (180 / (65536 * PI))) by (field; lra).
  replace (Rabs (IZR b) / 65536 * 180 / PI) with (Rabs (IZR b) * (180 / (65536 * PI))) by (field; lra).
  rewrite Rabs_mult. f_equal. apply Rabs_pos_eq. apply Rlt_le. apply Rdiv_lt_0_compat; nra.
Qed.

(* comparisons of |angle| in degrees with a constant, as comparisons of the bit pattern *)
Lemma fx_deg_le_iff (n : Z) c : c <= fx_deg n <-> c * PI * 65536 / 180 <= IZR n.
Proof.
  unfold fx_deg, fx_val. pose proof PI_RGT_0 as Hpi.
  assert (E : IZR n / 65536 * 180 / PI = IZR n * (180 / (65536 * PI))) by (field; lra).
  rewrite E. assert (K : 0 < 180 / (65536 * PI)) by (apply Rdiv_lt_0_compat; nra).
  assert (E2 : c * PI * 65536 / 180 = c / (180 / (65536 * PI))) by (field; lra). rewrite E2.
  split; intros H.
  - apply Rmult_le_reg_r with (180 / (65536 * PI)); [assumption|].
    replace (c / (180 / (65536 * PI)) * (180 / (65536 * PI))) with c by (field; lra). exact H.
  - apply Rmult_le_compat_r with (r := 180 / (65536 * PI)) in H; [|lra].
    replace (c / (180 / (65536 * PI)) * (180 / (65536 * PI))) with c in H by (field; lra). exact H.
Qed.

Lemma ray_start_fx a s :
  rad (ray_start (fx_deg a) (fx_deg s)) = fx_val (if (s <? 0)%Z then a + s else a)%Z.
Proof.
  unfold ray_start. rewrite fx_deg_plus. pose proof PI_RGT_0 as Hpi.
  assert (Hmono : forall x y : Z, (x <= y)%Z -> fx_deg x <= fx_deg y).
  { intros x y Hxy. unfold fx_deg, fx_val. apply IZR_le in Hxy.
    apply Rmult_le_compat_r; [apply Rlt_le, Rinv_0_lt_compat, Hpi|]. lra. }
  destruct (Z.ltb_spec s 0).
  - rewrite Rmin_right by (apply Hmono; lia). apply rad_fx_deg.
  - rewrite Rmin_left by (apply Hmono; lia). apply rad_fx_deg.
Qed.

Lemma fx_val_end a s :
  fx_val (if (s <? 0)%Z then a + s else a)%Z + fx_val (Z.abs s) = fx_val (if (s <? 0)%Z then a else a + s)%Z.
Proof.
  unfold fx_val. destruct (Z.ltb_spec s 0).
  - rewrite Z.abs_neq by lia. rewrite plus_IZR, opp_IZR. field.
  - rewrite Z.abs_eq by lia. rewrite plus_IZR. field.
Qed.

Theorem fx_trig_hypothesis a s :
  (Z.abs a <= fx_angle_bound)%Z -> (Z.abs (a + s) <= fx_angle_bound)%Z ->
  trig_hypothesis (fx_plane_sector a s) (fx_deg a) (fx_deg s) 10.
Proof.
  intros Ha Hb. unfold trig_hypothesis. rewrite fx_deg_abs.
  assert (Habs : (0 <= Z.abs s)%Z) by lia.
  unfold fx_plane_sector, tau_bits, pi_bits, normal_vector_scale.
  split; [|split].
  - (* |sweep| >= 360 deg -> EntirePlane *)
    intros H. apply fx_deg_le_iff in H.
    assert (L : 411774 < 360 * PI * 65536 / 180) by interval with (i_prec 64).
    assert (Hz : (411774 < Z.abs s)%Z) by (apply lt_IZR; lra).
    destruct (Z.leb_spec 411775 (Z.abs s)); [reflexivity|lia].
  - (* EntirePlane only from 359.999 deg on *)
    intros H. destruct (Z.leb_spec 411775 (Z.abs s)) as [Hs|Hs].
    + exfalso. assert (Hc : 359999 / 1000 <= fx_deg (Z.abs s)).
      { apply fx_deg_le_iff. apply IZR_le in Hs.
        assert (359999 / 1000 * PI * 65536 / 180 <= 411775) by (interval with (i_prec 64)). lra. }
      lra.
    + destruct (s <? 0)%Z; destruct (205887 <=? Z.abs s)%Z; discriminate.
  - intros Hop. destruct (Z.leb_spec 411775 (Z.abs s)) as [Hs|Hs]; [exfalso; apply Hop; reflexivity|].
    rewrite ray_start_fx, rad_fx_deg, fx_val_end.
    assert (Hst : (Z.abs (if (s <? 0)%Z then a + s else a) <= fx_angle_bound)%Z) by (destruct (s <? 0)%Z; assumption).
    assert (Hen : (Z.abs (if (s <? 0)%Z then a else a + s) <= fx_angle_bound)%Z) by (destruct (s <? 0)%Z; assumption).
    split; [|split; [|split]].
    + destruct (s <? 0)%Z; cbn [ps_right]; apply fx_with_angle_close; assumption.
    + destruct (s <? 0)%Z; cbn [ps_left]; apply fx_with_angle_close; assumption.
    + (* below 179.999 deg: Intersection *)
      intros H. destruct (Z.leb_spec 205887 (Z.abs s)) as [Hp|Hp].
      * exfalso. assert (Hc : 179999 / 1000 <= fx_deg (Z.abs s)).
        { apply fx_deg_le_iff. apply IZR_le in Hp.
          assert (179999 / 1000 * PI * 65536 / 180 <= 205887) by (interval with (i_prec 64)). lra. }
        lra.
      * destruct (s <? 0)%Z; reflexivity.
    + (* from 180.001 deg on: Union *)
      intros H. apply fx_deg_le_iff in H.
      assert (L : 205887 <= 180001 / 1000 * PI * 65536 / 180) by interval with (i_prec 64).
      assert (Hz : (205887 <= Z.abs s)%Z) by (apply le_IZR; lra).
      destruct (Z.leb_spec 205887 (Z.abs s)); [|lia]. destruct (s <? 0)%Z; reflexivity.
Qed.

(* ---- 9. consequences for sectors whose plane sector is the fixed_point PlaneSector::new -------------------- *)
(* sweep_unambiguous on bit patterns *)
Lemma fx_sweep_unambiguous s :
  ((Z.abs s <= 205886 \/ 205889 <= Z.abs s) /\ (Z.abs s <= 411773 \/ 411775 <= Z.abs s))%Z ->
  sweep_unambiguous (fx_deg s).
Proof.
  intros [H1 H2]. unfold sweep_unambiguous. rewrite fx_deg_abs.
  assert (Hlt : forall (n : Z) c, IZR n < c * PI * 65536 / 180 -> fx_deg n < c).
  { intros n c H. destruct (Rlt_dec (fx_deg n) c) as [|N]; [assumption|]. exfalso.
    apply Rnot_lt_le in N. apply fx_deg_le_iff in N. lra. }
  split.
  - destruct H1 as [H|H]; [left|right].
    + apply Hlt. apply IZR_le in H. assert (205886 < 179999 / 1000 * PI * 65536 / 180) by (interval with (i_prec 64)). lra.
    + apply fx_deg_le_iff. apply IZR_le in H. assert (180001 / 1000 * PI * 65536 / 180 <= 205889) by (interval with (i_prec 64)). lra.
  - destruct H2 as [H|H]; [left|right].
    + apply Hlt. apply IZR_le in H. assert (411773 < 359999 / 1000 * PI * 65536 / 180) by (interval with (i_prec 64)). lra.
    + apply fx_deg_le_iff. apply IZR_le in H. assert (360 * PI * 65536 / 180 <= 411775) by (interval with (i_prec 64)). lra.
Qed.

Theorem fx_sector_near_cone (s : sector) (p : point) (a sw : Z) :
  se_ps s = fx_plane_sector a sw ->
  (Z.abs a <= fx_angle_bound)%Z -> (Z.abs (a + sw) <= fx_angle_bound)%Z ->
  ((Z.abs sw <= 205886 \/ 205889 <= Z.abs sw) /\ (Z.abs sw <= 411773 \/ 411775 <= Z.abs sw))%Z ->
  rays_proper (se_ps s) -> (0 <= se_d s <= 128)%Z ->
  se_contains s p = true -> near_true_sector (fx_deg a) (fx_deg sw) (sm_delta (se_center_2x s) p).
Proof.
  intros Hps Ha Hb Hu Hp Hd Hc.
  apply (sector_near_cone s p (fx_deg a) (fx_deg sw) 10); try assumption.
  - rewrite Hps. apply fx_trig_hypothesis; assumption.
  - apply fx_sweep_unambiguous, Hu.
  - lra.
Qed.

Theorem fx_sector_covers_cone (s : sector) (p : point) (a sw : Z) :
  se_ps s = fx_plane_sector a sw ->
  (Z.abs a <= fx_angle_bound)%Z -> (Z.abs (a + sw) <= fx_angle_bound)%Z ->
  ((Z.abs sw <= 205886 \/ 205889 <= Z.abs sw) /\ (Z.abs sw <= 411773 \/ 411775 <= Z.abs sw))%Z ->
  rays_proper (se_ps s) -> (0 <= se_d s <= 128)%Z ->
  sc_contains (se_to_circle s) p = true ->
  disc_strictly_inside (fx_deg a) (fx_deg sw) (sm_delta (se_center_2x s) p) ->
  se_contains s p = true.
Proof.
  intros Hps Ha Hb Hu Hp Hd Hc Hall.
  apply (sector_covers_cone s p (fx_deg a) (fx_deg sw) 10); try assumption.
  - rewrite Hps. apply fx_trig_hypothesis; assumption.
  - apply fx_sweep_unambiguous, Hu.
  - lra.
Qed.

Local Close Scope R_scope.
Local Open Scope Z_scope.
(* ---- 10. rays_proper for the fixed_point model: an integer argument + a finite check ----------------------- *)
(* the normal of with_angle as a function of the two whole degrees looked up (for sin and for cos) *)
Definition fx_normal_of_degrees (ds dc : Z) : point :=
  P (- fx_component (fx_sin_of_degree (ds mod 360))) (fx_component (fx_sin_of_degree (dc mod 360))).

Lemma fx_with_angle_degrees a :
  fx_with_angle a = fx_normal_of_degrees (fx_degree a) (fx_degree (a + frac_pi_2_bits)).
Proof.
  unfold fx_with_angle. destruct (Z.eqb_spec a angle_180deg_bits) as [->|_]; [vm_compute; reflexivity|].
  reflexivity.
Qed.

(* difference of the degrees of two angles k bits apart *)
Lemma fx_degree_diff a k :
  let d := (fx_degree (a + k) - fx_degree a)%Z in
  (205887 * 65536 * d >= 11796480 * k - 411772 - 205887 * 65536 /\
   205887 * 65536 * d <= 11796480 * k + 411772 + 205887 * 65536)%Z.
Proof.
  cbv zeta. destruct (fx_degree_int a) as (e1 & e2 & A1 & A2 & A3).
  destruct (fx_degree_int (a + k)) as (f1 & f2 & B1 & B2 & B3). lia.
Qed.

Lemma fx_cos_degree_offset a :
  (fx_degree (a + frac_pi_2_bits) - fx_degree a = 90 \/ fx_degree (a + frac_pi_2_bits) - fx_degree a = 91)%Z.
Proof. pose proof (fx_degree_diff a frac_pi_2_bits) as H. cbv zeta in H. unfold frac_pi_2_bits in *. lia. Qed.

(* finite check, arranged structurally (no indexing in the inner loops): ntab = the two candidate normals of every
   whole degree 0..539; every degree r < 360 against the degrees r + 2 .. r + 178 *)
Definition fx_np (r : Z) : point * point := (fx_normal_of_degrees r (r + 90), fx_normal_of_degrees r (r + 91)).
Definition fx_ntab : list (point * point) := Eval vm_compute in map fx_np (range 0 540).

Lemma fx_ntab_eq : fx_ntab = map fx_np (range 0 540).
Proof. vm_cast_no_check (eq_refl fx_ntab). Qed.

Definition fx_ok2 (x y : point * point) : bool :=
  (0 <? sm_det (fst x) (fst y)) && (0 <? sm_det (fst x) (snd y)) &&
  (0 <? sm_det (snd x) (fst y)) && (0 <? sm_det (snd x) (snd y)).

Fixpoint zipn {A} (ok : A -> A -> bool) (n : nat) (l1 l2 : list A) : bool :=
  match n, l1, l2 with
  | Datatypes.S n', x :: t1, y :: t2 => ok x y && zipn ok n' t1 t2
  | _, _, _ => true
  end.

Lemma zipn_nth {A} (ok : A -> A -> bool) n l1 l2 i d :
  zipn ok n l1 l2 = true -> (i < n)%nat -> (i < length l1)%nat -> (i < length l2)%nat ->
  ok (nth i l1 d) (nth i l2 d) = true.
Proof.
  revert l1 l2 i. induction n as [|n IH]; intros l1 l2 i H Hi H1 H2; [lia|].
  destruct l1 as [|x t1]; [cbn in H1; lia|]. destruct l2 as [|y t2]; [cbn in H2; lia|].
  cbn [zipn] in H. apply andb_prop in H. destruct H as [Hxy Ht].
  destruct i as [|i]; cbn [nth]; [exact Hxy|]. apply IH; cbn [length] in *; try assumption; lia.
Qed.

Lemma nth_skipn_add {A} (d : nat) (l : list A) i def : nth i (skipn d l) def = nth (d + i) l def.
Proof.
  revert l. induction d as [|d IH]; intros l; [reflexivity|].
  destruct l as [|x t]; cbn [skipn Nat.add nth]; [destruct i; reflexivity|]. apply IH.
Qed.

Lemma fx_det_check_ok :
  forallb (fun d => zipn fx_ok2 360 fx_ntab (skipn d fx_ntab)) (seq 2 177) = true.
Proof. vm_cast_no_check (eq_refl true). Qed.

Lemma fx_ntab_nth (r : nat) : (r < 540)%nat -> nth r fx_ntab (P 0 0, P 0 0) = fx_np (Z.of_nat r).
Proof.
  intros Hr. rewrite fx_ntab_eq.
  rewrite (nth_indep _ (P 0 0, P 0 0) (fx_np 0)) by (rewrite map_length; unfold range; rewrite length_range_from; exact Hr).
  rewrite map_nth. unfold range. rewrite nth_range_from by exact Hr. reflexivity.
Qed.

Lemma fx_det_check_spec (r diff : Z) (c c2 : Z) :
  0 <= r < 360 -> (c = 90 \/ c = 91) -> 2 <= diff <= 178 -> (c2 = 90 \/ c2 = 91) ->
  0 < sm_det (fx_normal_of_degrees r (r + c)) (fx_normal_of_degrees (r + diff) (r + diff + c2)).
Proof.
  intros Hr Hc Hd Hc2. pose proof fx_det_check_ok as H.
  rewrite forallb_forall in H. specialize (H (Z.to_nat diff) ltac:(apply in_seq; lia)).
  assert (Hlen : length fx_ntab = 540%nat) by (rewrite fx_ntab_eq, map_length; unfold range; apply length_range_from).
  apply (zipn_nth fx_ok2 360 _ _ (Z.to_nat r) (P 0 0, P 0 0)) in H; [|lia|lia|rewrite skipn_length; lia].
  rewrite nth_skipn_add, !fx_ntab_nth in H by lia.
  replace (Z.of_nat (Z.to_nat r)) with r in H by lia.
  replace (Z.of_nat (Z.to_nat diff + Z.to_nat r)) with (r + diff) in H by lia.
  unfold fx_ok2, fx_np in H. cbn [fst snd] in H.
  apply andb_prop in H. destruct H as [H H4]. apply andb_prop in H. destruct H as [H H3].
  apply andb_prop in H. destruct H as [H1 H2]. apply Z.ltb_lt in H1, H2, H3, H4.
  destruct Hc as [->| ->], Hc2 as [->| ->]; assumption.
Qed.

Lemma fx_normal_mod ds dc : fx_normal_of_degrees ds dc = fx_normal_of_degrees (ds mod 360) (dc mod 360).
Proof. unfold fx_normal_of_degrees. rewrite !Z.mod_mod by discriminate. reflexivity. Qed.

Lemma fx_det_degrees Ds Dcs De Dce :
  (Dcs - Ds = 90 \/ Dcs - Ds = 91) -> (Dce - De = 90 \/ Dce - De = 91) -> 2 <= De - Ds <= 178 ->
  0 < sm_det (fx_normal_of_degrees Ds Dcs) (fx_normal_of_degrees De Dce).
Proof.
  intros Hc Hc2 Hd.
  pose proof (Z.mod_pos_bound Ds 360 ltac:(lia)) as Hr.
  pose proof (fx_det_check_spec (Ds mod 360) (De - Ds) (Dcs - Ds) (Dce - De) Hr Hc Hd Hc2) as H.
  rewrite (fx_normal_mod Ds Dcs), (fx_normal_mod De Dce).
  rewrite (fx_normal_mod (Ds mod 360) _), (fx_normal_mod (Ds mod 360 + (De - Ds)) _) in H.
  rewrite Z.mod_mod in H by discriminate.
  rewrite <- (Z.add_assoc (Ds mod 360) (De - Ds) (Dce - De)) in H.
  rewrite !Zplus_mod_idemp_l in H.
  replace (Ds + (Dcs - Ds)) with Dcs in H by ring.
  replace (Ds + (De - Ds)) with De in H by ring.
  replace (Ds + (De - Ds + (Dce - De))) with Dce in H by ring.
  exact H.
Qed.

(* two with_angle normals whose angles are between 2.0003 and 176.9997 degrees apart (bit patterns 2288 .. 202455)
   are in proper counter-clockwise position *)
Lemma fx_det_with_angle a k :
  2288 <= k <= 202455 -> 0 < sm_det (fx_with_angle a) (fx_with_angle (a + k)).
Proof.
  intros Hk. rewrite !fx_with_angle_degrees.
  apply fx_det_degrees; try apply fx_cos_degree_offset.
  pose proof (fx_degree_diff a k) as H. cbv zeta in H. lia.
Qed.

Lemma fx_normal_period ds dc : fx_normal_of_degrees (ds + 360) (dc + 360) = fx_normal_of_degrees ds dc.
Proof.
  unfold fx_normal_of_degrees.
  replace (ds + 360) with (ds + 1 * 360) by ring. replace (dc + 360) with (dc + 1 * 360) by ring.
  rewrite !Z_mod_plus_full. reflexivity.
Qed.

(* ... and between 183.0003 and 357.9997 degrees apart: the complement cone is proper *)
Lemma fx_det_with_angle_reflex a k :
  209321 <= k <= 408341 -> 0 < sm_det (fx_with_angle (a + k)) (fx_with_angle a).
Proof.
  intros Hk. rewrite !fx_with_angle_degrees.
  rewrite <- (fx_normal_period (fx_degree a) (fx_degree (a + frac_pi_2_bits))).
  apply fx_det_degrees.
  - apply fx_cos_degree_offset.
  - pose proof (fx_cos_degree_offset a). lia.
  - pose proof (fx_degree_diff a k) as H. cbv zeta in H. lia.
Qed.

Theorem fx_rays_proper a s :
  (2288 <= Z.abs s <= 202455 \/ 209321 <= Z.abs s <= 408341 \/ 411775 <= Z.abs s) ->
  rays_proper (fx_plane_sector a s).
Proof.
  intros H. unfold rays_proper, fx_plane_sector, tau_bits, pi_bits.
  destruct (Z.leb_spec 411775 (Z.abs s)) as [Ht|Ht]; [exact I|].
  destruct (Z.leb_spec 205887 (Z.abs s)) as [Hp|Hp]; destruct (Z.ltb_spec s 0) as [Hs|Hs]; cbn [ps_op ps_left ps_right].
  - left. replace a with ((a + s) + Z.abs s) at 1 by lia. apply fx_det_with_angle_reflex. lia.
  - left. replace (a + s) with (a + Z.abs s) by lia. apply fx_det_with_angle_reflex. lia.
  - replace a with ((a + s) + Z.abs s) at 2 by lia. apply fx_det_with_angle. lia.
  - replace (a + s) with (a + Z.abs s) by lia. apply fx_det_with_angle. lia.
Qed.

(* ---- 11. no assumption left: sweeps of 2.0003 .. 176.9997, 183.0003 .. 357.9997 and >= 360 degrees ---------- *)
Definition fx_sweep_covered (sw : Z) : Prop :=
  2288 <= Z.abs sw <= 202455 \/ 209321 <= Z.abs sw <= 408341 \/ 411775 <= Z.abs sw.

Theorem fx_sector_near_cone_closed (s : sector) (p : point) (a sw : Z) :
  se_ps s = fx_plane_sector a sw ->
  Z.abs a <= fx_angle_bound -> Z.abs (a + sw) <= fx_angle_bound -> fx_sweep_covered sw -> 0 <= se_d s <= 128 ->
  se_contains s p = true -> near_true_sector (fx_deg a) (fx_deg sw) (sm_delta (se_center_2x s) p).
Proof.
  intros Hps Ha Hb Hsw Hd Hc. apply (fx_sector_near_cone s p a sw); try assumption.
  - unfold fx_sweep_covered in Hsw. lia.
  - rewrite Hps. apply fx_rays_proper, Hsw.
Qed.

Theorem fx_sector_covers_cone_closed (s : sector) (p : point) (a sw : Z) :
  se_ps s = fx_plane_sector a sw ->
  Z.abs a <= fx_angle_bound -> Z.abs (a + sw) <= fx_angle_bound -> fx_sweep_covered sw -> 0 <= se_d s <= 128 ->
  sc_contains (se_to_circle s) p = true ->
  disc_strictly_inside (fx_deg a) (fx_deg sw) (sm_delta (se_center_2x s) p) ->
  se_contains s p = true.
Proof.
  intros Hps Ha Hb Hsw Hd Hc Hall. apply (fx_sector_covers_cone s p a sw); try assumption.
  - unfold fx_sweep_covered in Hsw. lia.
  - rewrite Hps. apply fx_rays_proper, Hsw.
Qed.
