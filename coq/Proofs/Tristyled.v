(* Proofs about Model/Tristyled.v: the two consumers of the triangle / polyline scanline generators produce the
   same pixel writes (C01 b glue), transparent styles draw nothing and thin shapes stay inside their boxes (C02),
   thin shapes commute with translation (C07). *)
From EG Require Import Base.Prelude Base.Lemmas Model.Geometry Model.Line Model.Style Model.Polyline Model.Triangle
  Model.Tristyled Proofs.Geometry Proofs.TriLine Proofs.Polyline Proofs.Triangle.
From Coq Require Import ZifyBool Sorting.Sorted.

Ltac Zify.zify_post_hook ::= Z.to_euclidean_division_equations.
Set Default Timeout 60.

(* ======================================================================== *)
(* 1. Styled<Triangle>::pixels(): the iterator yields the flat list           *)
(* ======================================================================== *)

Definition color_of (st : style) (k : point_type) : option Z :=
  match k with PTStroke => effective_stroke_color st | PTFill => fill_color st end.

Definition colored (oc : option Z) (ps : list point) : list (point * Z) :=
  match oc with Some c => map (fun p => (p, c)) ps | None => [] end.

(* the consumer, flat: the points of every scanline that has a colour, in sequence order *)
Definition tri_pixels_ref (st : style) (lines : list tline) : list (point * Z) :=
  flat_map (fun lk => colored (color_of st (snd lk)) (sl_points (fst lk))) lines.

Definition tsp_kind_color (s : tsp_state) (k : point_type) : option Z :=
  match k with PTStroke => tsp_stroke s | PTFill => tsp_fill s end.

(* what a state still has to yield *)
Definition tsp_den (s : tsp_state) : list (point * Z) :=
  colored (tsp_color s) (tsp_current s) ++
  flat_map (fun lk => colored (tsp_kind_color s (snd lk)) (sl_points (fst lk))) (gen_run (tsp_gen s)).

Lemma colored_nil oc : colored oc [] = [].
Proof. destruct oc; reflexivity. Qed.

(* one call of ScanlineIterator::next against the sequence up to the first None *)
Lemma gen_next_run g :
  match gen_next g with
  | (Some x, g') => gen_run g = x :: gen_run g' /\ gen_size g = Datatypes.S (gen_size g')
  | (None, g') => gen_run g = [] /\ (gen_size g' <= gen_size g)%nat
  end.
Proof.
  destruct g as [cur rows]. unfold gen_next, gen_run, gen_size. cbn [g_cur g_rows].
  destruct cur as [|x r].
  - destruct rows as [|row rest].
    + cbn [g_cur g_rows gen_go app length fold_right]. split; [reflexivity | lia].
    + destruct row as [|x r]; cbn [g_cur g_rows gen_go app length fold_right]; split; try reflexivity; lia.
  - cbn [g_cur g_rows app length]. split; [reflexivity | lia].
Qed.

Lemma tsp_next_spec fuel : forall s,
  (gen_size (tsp_gen s) < fuel)%nat ->
  exists r s', tsp_next fuel s = Some (r, s') /\
    (gen_size (tsp_gen s') <= gen_size (tsp_gen s))%nat /\
    match r with
    | Some pc => tsp_den s = pc :: tsp_den s'
    | None => tsp_den s = []
    end.
Proof.
  induction fuel as [|k IH]; intros s Hf; [lia|].
  destruct s as [g cur col fc sc]. cbn [tsp_gen] in Hf.
  assert (Hfetch : colored col cur = [] ->
    exists r s',
      match gen_next g with
      | (None, g') => Some (None, TSP g' cur col fc sc)
      | (Some (l, kd), g') =>
          tsp_next k (TSP g' (sl_points l) (match kd with PTStroke => sc | PTFill => fc end) fc sc)
      end = Some (r, s') /\
      (gen_size (tsp_gen s') <= gen_size g)%nat /\
      match r with
      | Some pc => tsp_den (TSP g cur col fc sc) = pc :: tsp_den s'
      | None => tsp_den (TSP g cur col fc sc) = []
      end).
  { intros Hnil. pose proof (gen_next_run g) as Hg. destruct (gen_next g) as [[[l kd]|] g'].
    - destruct Hg as [Hrun Hsz].
      destruct (IH (TSP g' (sl_points l) (match kd with PTStroke => sc | PTFill => fc end) fc sc)) as (r & s' & Hn & Hl & Hd).
      { cbn [tsp_gen]. lia. }
      exists r, s'. split; [exact Hn|]. cbn [tsp_gen] in Hl. split; [lia|].
      assert (E : tsp_den (TSP g cur col fc sc) =
                  tsp_den (TSP g' (sl_points l) (match kd with PTStroke => sc | PTFill => fc end) fc sc)).
      { unfold tsp_den, tsp_kind_color. cbn [tsp_color tsp_current tsp_gen tsp_fill tsp_stroke].
        rewrite Hnil, Hrun. cbn [flat_map fst snd app]. reflexivity. }
      rewrite E. exact Hd.
    - destruct Hg as [Hrun Hsz]. eexists _, _. split; [reflexivity|]. cbn [tsp_gen]. split; [lia|].
      unfold tsp_den. cbn [tsp_color tsp_current tsp_gen]. rewrite Hnil, Hrun. reflexivity. }
  cbn [tsp_next tsp_gen tsp_current tsp_color tsp_fill tsp_stroke].
  destruct col as [c|].
  - destruct cur as [|p r].
    + apply Hfetch. reflexivity.
    + eexists _, _. split; [reflexivity|]. split; [cbn [tsp_gen]; lia|].
      unfold tsp_den. cbn [tsp_color tsp_current tsp_gen tsp_fill tsp_stroke colored map app]. reflexivity.
  - apply Hfetch. reflexivity.
Qed.

(* fuel is never exhausted with the fuel the model passes *)
Lemma tsp_next_fuel_ok s : tsp_next (tsp_next_fuel s) s <> None.
Proof.
  destruct (tsp_next_spec (tsp_next_fuel s) s) as (r & s' & H & _).
  { unfold tsp_next_fuel. lia. }
  rewrite H. discriminate.
Qed.

Lemma tsp_collect_spec n : forall s, (length (tsp_den s) < n)%nat -> tsp_collect n s = tsp_den s.
Proof.
  induction n as [|n IH]; intros s Hn; [lia|]. cbn [tsp_collect].
  destruct (tsp_next_spec (tsp_next_fuel s) s) as (r & s' & H & _ & Hd).
  { unfold tsp_next_fuel. lia. }
  rewrite H. destruct r as [pc|].
  - rewrite Hd. f_equal. apply IH. rewrite Hd in Hn. cbn [length] in Hn. lia.
  - symmetry. exact Hd.
Qed.

Lemma tsp_den_new st rows : tsp_den (tsp_new st rows) = tri_pixels_ref st (pixels_sequence rows).
Proof.
  unfold tsp_new, tri_pixels_ref, pixels_sequence. destruct (gen_next (gen_new rows)) as [[[l k]|] g].
  - unfold tsp_den, tsp_kind_color, color_of. cbn [tsp_color tsp_current tsp_gen tsp_fill tsp_stroke flat_map fst snd].
    reflexivity.
  - unfold tsp_den, tsp_kind_color, color_of. cbn [tsp_color tsp_current tsp_gen tsp_fill tsp_stroke].
    rewrite colored_nil. reflexivity.
Qed.

Lemma colored_length oc ps : (length (colored oc ps) <= length ps)%nat.
Proof. destruct oc; cbn [colored]; [rewrite map_length|cbn [length]]; lia. Qed.

Definition lines_weight (lines : list tline) : nat :=
  fold_right (fun lk acc => (length (sl_points (fst lk)) + acc)%nat) O lines.

Lemma lines_weight_app a b : lines_weight (a ++ b) = (lines_weight a + lines_weight b)%nat.
Proof. unfold lines_weight. induction a as [|x a IH]; cbn [app fold_right]; [reflexivity|]. rewrite IH. lia. Qed.

Lemma gen_go_weight rows : (lines_weight (gen_go rows) <= lines_weight (concat rows))%nat.
Proof.
  induction rows as [|r rest IH]; cbn [gen_go concat]; [lia|]. rewrite lines_weight_app.
  destruct r as [|x r]; [cbn; lia|]. rewrite lines_weight_app. lia.
Qed.

Lemma pixels_sequence_weight rows : (lines_weight (pixels_sequence rows) <= lines_weight (concat rows))%nat.
Proof.
  unfold pixels_sequence, gen_new, gen_next.
  destruct rows as [|r rest]; [cbn; lia|]. cbn [g_cur g_rows concat]. rewrite lines_weight_app.
  destruct r as [|x r].
  - destruct rest as [|r2 rest2]; [cbn; lia|]. cbn [concat]. rewrite lines_weight_app.
    pose proof (gen_go_weight rest2). destruct r2 as [|x2 r2]; unfold gen_run; cbn [g_cur g_rows app].
    + cbn. lia.
    + change (x2 :: r2 ++ gen_go rest2) with ((x2 :: r2) ++ gen_go rest2). rewrite lines_weight_app. lia.
  - unfold gen_run. cbn [g_cur g_rows]. pose proof (gen_go_weight rest).
    change (x :: r ++ gen_go rest) with ((x :: r) ++ gen_go rest). rewrite lines_weight_app. lia.
Qed.

Lemma tri_pixels_ref_length st lines : (length (tri_pixels_ref st lines) <= lines_weight lines)%nat.
Proof.
  unfold tri_pixels_ref, lines_weight. induction lines as [|x r IH]; cbn [flat_map fold_right length]; [lia|].
  rewrite app_length. pose proof (colored_length (color_of st (snd x)) (sl_points (fst x))). lia.
Qed.

(* pixels() = the consumer over the sequence pixels() sees, for ANY rows of the generator *)
Theorem tri_styled_pixels_spec st rows : tri_styled_pixels st rows = tri_pixels_ref st (pixels_sequence rows).
Proof.
  unfold tri_styled_pixels. rewrite tsp_collect_spec; rewrite tsp_den_new; [reflexivity|].
  pose proof (tri_pixels_ref_length st (pixels_sequence rows)). pose proof (pixels_sequence_weight rows).
  unfold tsp_fuel. fold (lines_weight (concat rows)). lia.
Qed.

(* The two consumers see the same sequence unless the first TWO rows of the bounding box yield nothing and a later row does:
   then draw()'s `for` loop ends at once while pixels() swallows the first None and goes on. *)
Definition first_rows_ok (rows : list (list tline)) : Prop :=
  match rows with
  | [] :: [] :: rest => gen_go rest = []
  | _ => True
  end.

Lemma pixels_sequence_for rows : first_rows_ok rows -> pixels_sequence rows = for_sequence rows.
Proof.
  unfold first_rows_ok, pixels_sequence, for_sequence, gen_new, gen_next, gen_run.
  destruct rows as [|r rest]; [reflexivity|]. cbn [g_cur g_rows].
  destruct r as [|x r]; [|reflexivity].
  destruct rest as [|r2 rest2]; [reflexivity|]. destruct r2 as [|x2 r2]; cbn [g_cur g_rows gen_go app].
  - intros ->. reflexivity.
  - reflexivity.
Qed.

Lemma pixels_sequence_unfold rows :
  pixels_sequence rows = match rows with [] :: [] :: rest => gen_go rest | _ => for_sequence rows end.
Proof.
  destruct rows as [|[|x r] [|[|x2 r2] rest2]]; try reflexivity.
Qed.

(* ======================================================================== *)
(* 2. draw() = pixels(), triangle                                             *)
(* ======================================================================== *)

(* scanline coordinates for which Rectangle::points of the one-row rectangle does not saturate *)
Definition sbound : Z := 268435456. (* 2^28 *)
Definition sl_ok (s : scanline) : Prop :=
  - sbound <= sl_start s /\ sl_end s <= sbound /\ - sbound <= sl_y s <= sbound.
Definition tr_ok (p : point) : Prop := - sbound <= px p <= sbound /\ - sbound <= py p <= sbound.

Lemma points_row a y w : 0 < w -> - 2 * sbound <= a -> a + w <= 2 * sbound -> - 2 * sbound <= y <= 2 * sbound ->
  points (R (P a y) (S w 1)) = map (fun x => P x y) (range a (a + w)).
Proof.
  intros Hw Ha Hb Hy. unfold sbound in *. unfold points, is_zero_sized, columns, rows. cbn [tl sz px py sw sh].
  assert (E : ((1 =? 0) || (w =? 0)) = false) by lia. rewrite E.
  unfold sat_add_i32, sat_u32_to_i32, i32_max, i32_min.
  replace (Z.max (-2147483648) (Z.min (a + Z.min w 2147483647) 2147483647)) with (a + w) by lia.
  replace (Z.max (-2147483648) (Z.min (y + Z.min 1 2147483647) 2147483647)) with (y + 1) by lia.
  rewrite (range_cons y (y + 1)) by lia. rewrite (range_nil (y + 1) (y + 1)) by lia. cbn [flat_map]. apply app_nil_r.
Qed.

(* fill_solid on the rectangle of a scanline writes the scanline's points (nothing for an empty one) *)
Lemma scanline_rect_writes l c : sl_ok l ->
  (if negb (is_zero_sized (sl_to_rectangle l)) then fill_writes (sl_to_rectangle l, c) else []) =
  map (fun p => (p, c)) (sl_points l).
Proof.
  intros (H1 & H2 & H3). unfold sl_to_rectangle, sl_is_empty, fill_writes, sl_points. cbn [fst snd].
  destruct (sl_start l <? sl_end l) eqn:E; cbn [negb].
  - unfold is_zero_sized. cbn [sz sw sh].
    assert (E2 : ((1 =? 0) || (sl_end l - sl_start l =? 0)) = false) by lia. rewrite E2. cbn [negb].
    rewrite points_row by (unfold sbound in *; lia).
    replace (sl_start l + (sl_end l - sl_start l)) with (sl_end l) by lia. reflexivity.
  - unfold is_zero_sized. cbn [sz sw sh]. cbn. rewrite range_nil by lia. reflexivity.
Qed.

Lemma flat_map_flat_map {A B C} (f : A -> list B) (g : B -> list C) l :
  flat_map g (flat_map f l) = flat_map (fun x => flat_map g (f x)) l.
Proof.
  induction l as [|x l IH]; [reflexivity|]. cbn [flat_map]. rewrite flat_map_app, IH. reflexivity.
Qed.

Lemma transparent_colors st : is_transparent st = true ->
  effective_stroke_color st = None /\ fill_color st = None.
Proof.
  unfold is_transparent, effective_stroke_color. intros H.
  destruct (fill_color st); [exfalso; destruct (stroke_color st); cbn [orb andb] in H; lia|].
  split; [|reflexivity]. destruct (stroke_color st); [|reflexivity].
  destruct (0 <? stroke_width st) eqn:E; [exfalso; cbn [orb andb] in H; lia | reflexivity].
Qed.

(* the consumer of draw() writes what the consumer of pixels() yields, on the same sequence *)
Lemma tri_draw_writes st lines : Forall (fun lk => sl_ok (fst lk)) lines ->
  flat_map fill_writes (tri_draw_styled st lines) = tri_pixels_ref st lines.
Proof.
  intros Hok. unfold tri_draw_styled, tri_pixels_ref.
  destruct (is_transparent st) eqn:T.
  - destruct (transparent_colors st T) as [E1 E2]. cbn [flat_map].
    induction lines as [|[l k] r IH]; [reflexivity|]. cbn [flat_map fst snd].
    inversion Hok; subst. rewrite <- IH by assumption. unfold color_of. destruct k; rewrite ?E1, ?E2; reflexivity.
  - rewrite flat_map_flat_map. induction lines as [|[l k] r IH]; [reflexivity|].
    inversion Hok as [|? ? Hl Hr]; subst. cbn [flat_map fst snd]. rewrite IH by assumption. f_equal.
    fold (color_of st k). destruct (color_of st k) as [c|]; [|reflexivity]. cbn [colored].
    rewrite <- (scanline_rect_writes l c Hl).
    destruct (negb (is_zero_sized (sl_to_rectangle l))); cbn [flat_map]; [apply app_nil_r | reflexivity].
Qed.

Lemma Forall_gen_go (Q : tline -> Prop) rows : Forall (Forall Q) rows -> Forall Q (gen_go rows).
Proof.
  induction 1 as [|r rest Hr Hrest IH]; cbn [gen_go]; [constructor|].
  destruct r; [constructor|]. apply Forall_app. split; assumption.
Qed.

Lemma Forall_for_sequence (Q : tline -> Prop) rows : Forall (Forall Q) rows -> Forall Q (for_sequence rows).
Proof.
  intros H. unfold for_sequence, gen_new, gen_run. destruct H as [|r rest Hr Hrest]; cbn [g_cur g_rows gen_go app]; [constructor|].
  apply Forall_app. split; [assumption | apply Forall_gen_go; assumption].
Qed.

(* triangle_glue_pixels_draw (DESIGN C01 b): for ANY rows of the scanline generator, driven through the un-fused iterator
   protocol by both consumers, the fill_solid calls of draw() write exactly the pixels of pixels(), in the same order -
   provided the first two rows of the bounding box are not both empty while a later one is not (first_rows_ok) *)
Theorem tri_glue_pixels_draw st rows :
  Forall (Forall (fun lk => sl_ok (fst lk))) rows -> first_rows_ok rows ->
  flat_map fill_writes (tri_draw_styled st (for_sequence rows)) = tri_styled_pixels st rows.
Proof.
  intros Hok Hfirst. rewrite tri_styled_pixels_spec, (pixels_sequence_for rows Hfirst).
  apply tri_draw_writes. apply Forall_for_sequence. assumption.
Qed.

(* ======================================================================== *)
(* 3. Styled<Polyline>                                                         *)
(* ======================================================================== *)

Lemma nonempty_sl_points s : sl_is_empty s = false -> sl_points s <> [].
Proof.
  unfold sl_is_empty, sl_points. intros H. rewrite range_cons by lia. discriminate.
Qed.

Lemma poly_scanlines_nonempty raw : Forall (fun l => sl_points l <> []) (poly_scanlines raw).
Proof.
  unfold poly_scanlines. apply Forall_forall. intros l Hl. apply filter_In in Hl. destruct Hl as [_ H].
  apply nonempty_sl_points. destruct (sl_is_empty l); [discriminate | reflexivity].
Qed.

Lemma poly_thick_points_spec n : forall lines cur,
  Forall (fun l => sl_points l <> []) lines ->
  (length cur + length (flat_map sl_points lines) < n)%nat ->
  poly_thick_points lines cur n = cur ++ flat_map sl_points lines.
Proof.
  induction n as [|n IH]; intros lines cur Hne Hn; [lia|]. cbn [poly_thick_points].
  destruct cur as [|p r].
  - destruct lines as [|l rest]; [reflexivity|]. inversion Hne as [|? ? Hl Hrest]; subst.
    cbn [flat_map app]. destruct (sl_points l) as [|p r] eqn:E; [contradiction|].
    cbn [app]. f_equal. apply IH; [assumption|].
    cbn [flat_map length app] in Hn. rewrite E in Hn. cbn [length app] in Hn. rewrite app_length in *. lia.
  - cbn [app]. f_equal. apply IH; [assumption|]. cbn [length] in Hn. lia.
Qed.

(* thick pixels(): the points of the (non-empty) scanlines, moved by the translate field *)
Theorem poly_styled_pixels_thick_spec st tr raw :
  poly_styled_pixels_thick st tr (poly_scanlines raw) =
  colored (effective_stroke_color st) (map (fun p => padd p tr) (flat_map sl_points (poly_scanlines raw))).
Proof.
  unfold poly_styled_pixels_thick. pose proof (poly_scanlines_nonempty raw) as Hne.
  destruct (effective_stroke_color st) as [c|]; [|reflexivity]. cbn [colored]. rewrite map_map.
  destruct (poly_scanlines raw) as [|l r]; [reflexivity|]. inversion Hne; subst.
  rewrite poly_thick_points_spec; [reflexivity | assumption |].
  cbn [fold_right].
  assert (length (flat_map sl_points r) <= fold_right (fun l acc => (length (sl_points l) + acc)%nat) O r)%nat.
  { clear. induction r as [|x r IH]; cbn [flat_map fold_right length]; [lia|]. rewrite app_length. lia. }
  lia.
Qed.

Lemma map_range_from_shift {A} (g : Z -> A) d n : forall a,
  map g (range_from (a + d) n) = map (fun x => g (x + d)) (range_from a n).
Proof.
  induction n as [|n IH]; intros a; [reflexivity|]. cbn [range_from map]. f_equal.
  replace (a + d + 1) with (a + 1 + d) by lia. apply IH.
Qed.

Lemma scanline_rect_writes_translated l tr c : sl_ok l -> tr_ok tr ->
  (if negb (is_zero_sized (sl_to_rectangle l)) then fill_writes (translate_rect (sl_to_rectangle l) tr, c) else []) =
  map (fun p => (padd p tr, c)) (sl_points l).
Proof.
  intros (H1 & H2 & H3) (T1 & T2). unfold sl_to_rectangle, sl_is_empty, fill_writes, sl_points, translate_rect. cbn [fst snd tl sz].
  destruct (sl_start l <? sl_end l) eqn:E; cbn [negb].
  - unfold is_zero_sized. cbn [sz sw sh].
    assert (E2 : ((1 =? 0) || (sl_end l - sl_start l =? 0)) = false) by lia. rewrite E2. cbn [negb].
    unfold padd at 1. cbn [px py].
    rewrite points_row by (unfold sbound in *; lia). rewrite !map_map.
    replace (sl_start l + px tr + (sl_end l - sl_start l)) with (sl_end l + px tr) by lia.
    unfold range. replace (sl_end l + px tr - (sl_start l + px tr)) with (sl_end l - sl_start l) by lia.
    rewrite map_range_from_shift. apply map_ext. intros x. unfold padd. cbn [px py]. reflexivity.
  - unfold is_zero_sized. cbn [sz sw sh]. cbn. rewrite range_nil by lia. reflexivity.
Qed.

(* polyline_glue_pixels_draw (DESIGN C01 b), width > 1: for ANY output of the per-row intersections *)
Theorem poly_glue_pixels_draw_thick st tr raw :
  1 < stroke_width st -> tr_ok tr -> Forall sl_ok raw ->
  flat_map fill_writes (poly_draw_styled_thick st tr (poly_scanlines raw)) =
  poly_styled_pixels_thick st tr (poly_scanlines raw).
Proof.
  intros Hw Htr Hok. rewrite poly_styled_pixels_thick_spec. unfold poly_draw_styled_thick, effective_stroke_color.
  destruct (stroke_color st) as [c|]; [|reflexivity].
  assert (E : (0 <? stroke_width st) = true) by lia. rewrite E. cbn [colored].
  assert (Hok' : Forall sl_ok (poly_scanlines raw)).
  { unfold poly_scanlines. apply Forall_forall. intros l Hl. apply filter_In in Hl.
    rewrite Forall_forall in Hok. apply Hok, Hl. }
  rewrite flat_map_flat_map. induction (poly_scanlines raw) as [|l r IH]; [reflexivity|].
  inversion Hok' as [|? ? Hl Hr]; subst. cbn [flat_map]. rewrite IH by assumption.
  rewrite map_app, map_app. f_equal. rewrite map_map.
  rewrite <- (scanline_rect_writes_translated l tr c Hl Htr).
  destruct (negb (is_zero_sized (sl_to_rectangle l))); cbn [flat_map]; [apply app_nil_r | reflexivity].
Qed.

(* width <= 1: both consumers use Polyline::points() *)
Theorem poly_glue_pixels_draw_thin st pl : 0 <= stroke_width st <= 1 ->
  poly_draw_styled_thin st pl = poly_styled_pixels_thin st pl.
Proof.
  intros Hw. unfold poly_draw_styled_thin, poly_styled_pixels_thin, effective_stroke_color.
  destruct (stroke_color st) as [c|]; [|reflexivity].
  destruct (stroke_width st =? 0) eqn:E.
  - assert (E2 : (0 <? stroke_width st) = false) by lia. rewrite E2. reflexivity.
  - assert (E2 : (0 <? stroke_width st) = true) by lia. rewrite E2. reflexivity.
Qed.

(* ======================================================================== *)
(* 4. thin shapes: what is drawn, bounding boxes, translation                  *)
(* ======================================================================== *)

Lemma tri_pixels_ref_fill st c lines : fill_color st = Some c ->
  tri_pixels_ref st (map (fun s => (s, PTFill)) lines) = map (fun p => (p, c)) (flat_map sl_points lines).
Proof.
  intros F. unfold tri_pixels_ref. induction lines as [|x l IH]; [reflexivity|].
  cbn [map flat_map fst snd]. rewrite IH, map_app. unfold color_of. rewrite F. reflexivity.
Qed.

(* the rows of the fill-only generator, and what the `for` loop sees of them: Model/Triangle.v tri_scanlines *)
Lemma gen_go_singletons (f : Z -> scanline) ys :
  gen_go (map (fun y => if sl_is_empty (f y) then [] else [(f y, PTFill)]) ys) =
  map (fun s => (s, PTFill)) (take_while (fun s => negb (sl_is_empty s)) (map f ys)).
Proof.
  induction ys as [|y r IH]; [reflexivity|]. cbn [map gen_go take_while].
  destruct (sl_is_empty (f y)); cbn [negb]; [reflexivity|]. cbn [app map]. rewrite IH. reflexivity.
Qed.

Lemma for_sequence_w0 t :
  for_sequence (tri_rows_w0 true t) = map (fun s => (s, PTFill)) (tri_scanlines t).
Proof.
  unfold tri_rows_w0, tri_scanlines, for_sequence, gen_new, gen_run.
  destruct (rows (tri_bounding_box t)) as [y0 y1]. destruct (range y0 y1) as [|y r]; [reflexivity|].
  cbn [map g_cur g_rows]. rewrite (gen_go_singletons (tri_scanline_intersection (sorted_clockwise t)) r), map_app.
  destruct (sl_is_empty (tri_scanline_intersection (sorted_clockwise t) y)); reflexivity.
Qed.

Lemma for_sequence_w0_nofill t : for_sequence (tri_rows_w0 false t) = [] /\ first_rows_ok (tri_rows_w0 false t).
Proof.
  unfold tri_rows_w0, for_sequence, gen_new, gen_run, first_rows_ok.
  destruct (rows (tri_bounding_box t)) as [y0 y1].
  assert (G : forall ys, gen_go (map (fun y => if sl_is_empty (sl_new_empty y) then [] else [(sl_new_empty y, PTFill)]) ys) = []).
  { intros ys. destruct ys; reflexivity. }
  destruct (range y0 y1) as [|y [|y2 r]]; cbn [map g_cur g_rows gen_go app]; try (split; reflexivity).
  split; [reflexivity | apply G].
Qed.

(* the first row of the bounding box always yields a scanline when there is a fill *)
Lemma first_rows_ok_w0 t : first_rows_ok (tri_rows_w0 true t).
Proof.
  unfold tri_rows_w0, first_rows_ok. unfold rows. cbn [fst snd].
  pose proof (sorted_bbox_coords t) as B. cbv zeta in B. destruct B as (_ & _ & B1 & _).
  set (y1 := sat_add_i32 _ _). destruct (range (py (tl (tri_bounding_box t))) y1) as [|y r] eqn:E; [exact I|].
  assert (Hy : y = py (tl (tri_bounding_box t))).
  { unfold range in E. destruct (Z.to_nat _); [discriminate|]. cbn [range_from] in E. congruence. }
  cbn [map].
  rewrite (scanline_intersection_perm t _ y (sorted_clockwise_perm t)).
  rewrite (tri_row_nonempty t y); [exact I|].
  pose proof (sorted_ys t) as Hs. cbv zeta in Hs. lia.
Qed.

(* Styled<Triangle> with stroke width 0: points() in the fill colour (nothing without fill) *)
Theorem tri_styled_pixels_w0_spec st t :
  tri_styled_pixels_w0 st t = colored (fill_color st) (tri_points t).
Proof.
  unfold tri_styled_pixels_w0. rewrite tri_styled_pixels_spec. unfold has_fill, tri_points.
  destruct (fill_color st) as [c|] eqn:F.
  - rewrite (pixels_sequence_for _ (first_rows_ok_w0 t)), for_sequence_w0. cbn [colored].
    apply tri_pixels_ref_fill. assumption.
  - destruct (for_sequence_w0_nofill t) as [E Hf]. rewrite (pixels_sequence_for _ Hf), E. reflexivity.
Qed.

(* C02: transparent draws nothing, whatever the generator yields *)
Theorem tri_transparent_draws_nothing st rows : is_transparent st = true ->
  tri_draw_styled st (for_sequence rows) = [] /\ tri_styled_pixels st rows = [].
Proof.
  intros T. split; [unfold tri_draw_styled; rewrite T; reflexivity|].
  rewrite tri_styled_pixels_spec. destruct (transparent_colors st T) as [E1 E2]. unfold tri_pixels_ref.
  induction (pixels_sequence rows) as [|[l k] r IH]; [reflexivity|]. cbn [flat_map fst snd]. rewrite IH.
  unfold color_of. destruct k; rewrite ?E1, ?E2; reflexivity.
Qed.

Theorem poly_transparent_draws_nothing_thin st pl : is_transparent st = true -> 0 <= stroke_width st <= 1 ->
  poly_styled_pixels_thin st pl = [] /\ poly_draw_styled_thin st pl = [].
Proof.
  intros T Hw. destruct (transparent_colors st T) as [E1 _].
  assert (Hthin : poly_styled_pixels_thin st pl = []) by (unfold poly_styled_pixels_thin; rewrite E1; reflexivity).
  split; [assumption|]. rewrite poly_glue_pixels_draw_thin; assumption.
Qed.

Theorem poly_transparent_draws_nothing_thick st tr lines : is_transparent st = true -> 1 < stroke_width st ->
  poly_styled_pixels_thick st tr lines = [] /\ poly_draw_styled_thick st tr lines = [].
Proof.
  intros T Hw. destruct (transparent_colors st T) as [E1 _].
  split; [unfold poly_styled_pixels_thick; rewrite E1; reflexivity|].
  unfold poly_draw_styled_thick. unfold effective_stroke_color in E1.
  destruct (stroke_color st) as [c|]; [|reflexivity].
  assert (E : (0 <? stroke_width st) = true) by lia. rewrite E in E1. discriminate.
Qed.

(* triangle/styled.rs:124-131: styled_bounding_box, the short-circuit arm (stroke width < 2 or inside alignment);
   the other arm (ClosedThickSegmentIter) is not modelled: None *)
Definition tri_styled_bbox_short (st : style) (t : triangle) : option rect :=
  if (stroke_width st <? 2) || match stroke_alignment st with Inside => true | _ => false end
  then Some (tri_bounding_box t) else None.

(* C02, triangle with stroke width 0: everything pixels() yields / draw() writes is inside the styled bounding box *)
Theorem tri_w0_in_bbox st t bb p c : tri_ok t -> stroke_width st = 0 ->
  tri_styled_bbox_short st t = Some bb ->
  In (p, c) (tri_styled_pixels_w0 st t) -> contains bb p = true.
Proof.
  intros Hok Hw Hbb Hin. unfold tri_styled_bbox_short in Hbb. rewrite Hw in Hbb. cbn in Hbb. injection Hbb as <-.
  rewrite tri_styled_pixels_w0_spec in Hin. destruct (fill_color st) as [c'|]; [|destruct Hin].
  cbn [colored] in Hin. apply in_map_iff in Hin. destruct Hin as (q & E & Hq). injection E as -> _.
  apply points_in_bbox; assumption.
Qed.

(* the scanlines of a triangle inside the range hypothesis are inside the range of sl_ok *)
Lemma bbox_point_ok t p : tri_ok t -> contains (tri_bounding_box t) p = true -> tpoint_ok p.
Proof.
  intros (A & B & C) H. apply contains_spec in H. destr_tri t. destruct p as [qx qy].
  unfold tri_bounding_box, with_corners, size_from_bounding_box, tpoint_ok, tbound in *.
  cbn [v1 v2 v3 px py tl sz sw sh] in *. lia.
Qed.

Lemma tri_scanlines_ok t : tri_ok t -> Forall sl_ok (tri_scanlines t).
Proof.
  intros Hok. rewrite tri_scanlines_all by assumption. apply Forall_forall. intros s Hs.
  apply in_map_iff in Hs. destruct Hs as (y & <- & Hy). apply In_range in Hy.
  pose proof (tri_row_nonempty t y ltac:(lia)) as Hne.
  destruct (tri_scanline_hull t y) as [Ey (xs & Hh & Hx)].
  destruct Hh as [[He _] | (Ha & Hb & _)]; [congruence|].
  apply Hx in Ha, Hb. apply fill_edges_in_bbox in Ha, Hb.
  apply (bbox_point_ok t _ Hok) in Ha, Hb. unfold tpoint_ok, tbound in *. cbn [px py] in *.
  unfold sl_ok, sbound. rewrite Ey. lia.
Qed.

Lemma tri_rows_w0_ok hf t : tri_ok t -> Forall (Forall (fun lk => sl_ok (fst lk))) (tri_rows_w0 hf t).
Proof.
  intros Hok. unfold tri_rows_w0. rewrite tri_rows by assumption. apply Forall_forall. intros row Hrow.
  apply in_map_iff in Hrow. destruct Hrow as (y & <- & Hy). apply In_range in Hy.
  destruct hf.
  - destruct (sl_is_empty _) eqn:E; [constructor|]. constructor; [|constructor]. cbn [fst].
    rewrite (scanline_intersection_perm t _ y (sorted_clockwise_perm t)).
    pose proof (tri_scanlines_ok t Hok) as H. rewrite tri_scanlines_all in H by assumption.
    rewrite Forall_forall in H. apply H. apply in_map. apply In_range. lia.
  - cbn. constructor.
Qed.

(* draw() = pixels() for the fill-only triangle, generator included *)
Theorem tri_w0_pixels_draw st t : tri_ok t ->
  flat_map fill_writes (tri_draw_styled_w0 st t) = tri_styled_pixels_w0 st t.
Proof.
  intros Hok. unfold tri_draw_styled_w0, tri_styled_pixels_w0. apply tri_glue_pixels_draw.
  - apply tri_rows_w0_ok. assumption.
  - unfold has_fill. destruct (fill_color st); [apply first_rows_ok_w0 | apply for_sequence_w0_nofill].
Qed.

(* ---- thin polyline inside the bounding box of the primitive ------------------------------------- *)
Lemma In_tl {A} (x : A) l : In x (List.tl l) -> In x l.
Proof. destruct l; cbn [List.tl]; [auto | right; assumption]. Qed.

Lemma segments_ends vs l : In l (segments vs) -> In (l_start l) vs /\ In (l_end l) vs.
Proof.
  induction vs as [|a t IH]; [cbn [segments]; intros []|]. destruct t as [|b r]; [cbn [segments]; intros []|].
  rewrite segments_cons2. intros [<-|H].
  - cbn [l_start l_end]. split; [left; reflexivity | right; left; reflexivity].
  - destruct (IH H) as [H1 H2]. split; right; assumption.
Qed.

Lemma polyline_point_on_segment pl p : In p (polyline_points pl) ->
  exists l, In l (segments (shift (pl_translate pl) (pl_vertices pl))) /\ In p (line_points l).
Proof.
  rewrite polyline_points_spec. unfold polyline_points_ref.
  destruct (segments _) as [|s r]; [intros []|]. intros H. apply in_app_iff in H. destruct H as [H|H].
  - exists s. split; [left; reflexivity | assumption].
  - apply in_flat_map in H. destruct H as (l & Hl & Hp). exists l. split; [right; assumption|].
    apply In_tl. exact Hp.
Qed.

Definition fmin (acc v : point) : point := P (Z.min (px acc) (px v)) (Z.min (py acc) (py v)).
Definition fmax (acc v : point) : point := P (Z.max (px acc) (px v)) (Z.max (py acc) (py v)).

Lemma fold_fmin_le vs : forall acc v, In v vs ->
  px (fold_left fmin vs acc) <= px v /\ py (fold_left fmin vs acc) <= py v.
Proof.
  induction vs as [|a r IH]; [intros acc v []|]. intros acc v [<-|H]; cbn [fold_left].
  - clear IH.
    assert (G : forall l q, px (fold_left fmin l q) <= px q /\ py (fold_left fmin l q) <= py q).
    { induction l as [|x l IHl]; intros q0; cbn [fold_left]; [lia|].
      specialize (IHl (fmin q0 x)). unfold fmin in *. cbn [px py] in *. lia. }
    specialize (G r (fmin acc a)). unfold fmin in *. cbn [px py] in *. lia.
  - apply IH. assumption.
Qed.

Lemma fold_fmax_ge vs : forall acc v, In v vs ->
  px v <= px (fold_left fmax vs acc) /\ py v <= py (fold_left fmax vs acc).
Proof.
  induction vs as [|a r IH]; [intros acc v []|]. intros acc v [<-|H]; cbn [fold_left].
  - assert (G : forall l q, px q <= px (fold_left fmax l q) /\ py q <= py (fold_left fmax l q)).
    { induction l as [|x l IHl]; intros q0; cbn [fold_left]; [lia|].
      specialize (IHl (fmax q0 x)). unfold fmax in *. cbn [px py] in *. lia. }
    specialize (G r (fmax acc a)). unfold fmax in *. cbn [px py] in *. lia.
  - apply IH. assumption.
Qed.

(* C02, thin polyline: every point of points() lies in Polyline::bounding_box() (the unstyled box; the styled box of
   a polyline is computed from the thick segments even for width 1 and is compared by the search suite) *)
Theorem polyline_points_in_bbox pl p : In p (polyline_points pl) -> contains (polyline_bounding_box pl) p = true.
Proof.
  intros H. destruct (polyline_point_on_segment pl p H) as (l & Hl & Hp).
  apply segments_ends in Hl. destruct Hl as [Ha Hb]. apply line_points_hull in Hp.
  unfold polyline_bounding_box. unfold shift in Ha, Hb.
  destruct (pl_vertices pl) as [|v0 [|v1 r]] eqn:E.
  - destruct Ha.
  - (* one vertex: no segment *)
    exfalso. rewrite polyline_points_spec in H. unfold polyline_points_ref in H. rewrite E in H. exact H.
  - set (tvs := map (fun v => padd v (pl_translate pl)) (v0 :: v1 :: r)) in *.
    change (fold_left (fun acc v => P (Z.min (px acc) (px v)) (Z.min (py acc) (py v))) tvs (P i32_max i32_max))
      with (fold_left fmin tvs (P i32_max i32_max)).
    change (fold_left (fun acc v => P (Z.max (px acc) (px v)) (Z.max (py acc) (py v))) tvs (P i32_min i32_min))
      with (fold_left fmax tvs (P i32_min i32_min)).
    pose proof (fold_fmin_le tvs (P i32_max i32_max) _ Ha) as A1.
    pose proof (fold_fmin_le tvs (P i32_max i32_max) _ Hb) as A2.
    pose proof (fold_fmax_ge tvs (P i32_min i32_min) _ Ha) as B1.
    pose proof (fold_fmax_ge tvs (P i32_min i32_min) _ Hb) as B2.
    apply contains_spec. unfold with_corners, size_from_bounding_box. cbn [tl sz px py sw sh].
    set (lo := fold_left fmin tvs (P i32_max i32_max)) in *. set (hi := fold_left fmax tvs (P i32_min i32_min)) in *.
    clearbody lo hi. lia.
Qed.

Theorem poly_thin_in_bbox st pl p c : In (p, c) (poly_styled_pixels_thin st pl) ->
  contains (polyline_bounding_box pl) p = true.
Proof.
  unfold poly_styled_pixels_thin. destruct (effective_stroke_color st) as [c'|]; [|intros []].
  intros H. apply in_map_iff in H. destruct H as (q & E & Hq). injection E as -> _.
  apply polyline_points_in_bbox. assumption.
Qed.

(* ---- C07: translation ---------------------------------------------------------------------------- *)
Definition shift_px (d : point) (pc : point * Z) : point * Z := (padd (fst pc) d, snd pc).

Lemma colored_shift oc d ps : colored oc (map (fun p => padd p d) ps) = map (shift_px d) (colored oc ps).
Proof. destruct oc; cbn [colored]; [rewrite !map_map; reflexivity | reflexivity]. Qed.

(* Styled<Triangle> with stroke width 0 *)
Theorem tri_w0_translate st t d : tri_ok t -> tri_ok (tri_translate t d) ->
  tri_styled_pixels_w0 st (tri_translate t d) = map (shift_px d) (tri_styled_pixels_w0 st t).
Proof.
  intros H1 H2. rewrite !tri_styled_pixels_w0_spec, tri_points_translate by assumption. apply colored_shift.
Qed.

Theorem poly_thin_translate st pl d :
  poly_styled_pixels_thin st (polyline_translate pl d) = map (shift_px d) (poly_styled_pixels_thin st pl).
Proof.
  unfold poly_styled_pixels_thin. rewrite polyline_translate_points.
  fold (colored (effective_stroke_color st) (map (fun p => padd p d) (polyline_points pl))).
  fold (colored (effective_stroke_color st) (polyline_points pl)). apply colored_shift.
Qed.

(* Polyline::bounding_box with at least two vertices moves with the translate field (a single vertex: the box
   ignores `translate`, polyline/mod.rs:93 - outside C07's statement, which is about non-empty boxes of drawn shapes) *)
Definition ppoint_ok (p : point) : Prop := i32_min <= px p <= i32_max /\ i32_min <= py p <= i32_max.

Lemma fold_fmin_shift d vs : forall acc,
  fold_left fmin (map (fun v => padd v d) vs) (padd acc d) = padd (fold_left fmin vs acc) d.
Proof.
  induction vs as [|a r IH]; intros acc; [reflexivity|]. cbn [map fold_left]. rewrite <- IH. f_equal.
  unfold fmin, padd. cbn [px py]. f_equal; lia.
Qed.

Lemma fold_fmax_shift d vs : forall acc,
  fold_left fmax (map (fun v => padd v d) vs) (padd acc d) = padd (fold_left fmax vs acc) d.
Proof.
  induction vs as [|a r IH]; intros acc; [reflexivity|]. cbn [map fold_left]. rewrite <- IH. f_equal.
  unfold fmax, padd. cbn [px py]. f_equal; lia.
Qed.

Theorem polyline_bounding_box_translate pl d :
  (2 <= length (pl_vertices pl))%nat ->
  Forall (fun v => ppoint_ok (padd v (pl_translate pl)) /\ ppoint_ok (padd v (padd (pl_translate pl) d))) (pl_vertices pl) ->
  polyline_bounding_box (polyline_translate pl d) = translate_rect (polyline_bounding_box pl) d.
Proof.
  intros Hlen Hok. unfold polyline_bounding_box, polyline_translate. cbn [pl_vertices pl_translate].
  destruct (pl_vertices pl) as [|v0 [|v1 r]] eqn:E; cbn [length] in Hlen; try lia.
  inversion Hok as [|? ? [O1 O2] _]; subst.
  set (tr := pl_translate pl) in *.
  change (fold_left (fun acc v => P (Z.min (px acc) (px v)) (Z.min (py acc) (py v)))) with (fold_left fmin).
  change (fold_left (fun acc v => P (Z.max (px acc) (px v)) (Z.max (py acc) (py v)))) with (fold_left fmax).
  assert (Emap : map (fun v => padd v (padd tr d)) (v0 :: v1 :: r) =
                 map (fun v => padd v d) (map (fun v => padd v tr) (v0 :: v1 :: r))).
  { rewrite map_map. apply map_ext. intros [x y]. destruct tr as [tx ty], d as [dx dy]. unfold padd. cbn [px py]. f_equal; lia. }
  rewrite Emap. set (rest := map (fun v => padd v tr) (v1 :: r)).
  change (map (fun v => padd v tr) (v0 :: v1 :: r)) with (padd v0 tr :: rest).
  assert (Ed : padd v0 (padd tr d) = padd (padd v0 tr) d).
  { destruct v0 as [x y], tr as [tx ty], d as [dx dy]. unfold padd. cbn [px py]. f_equal; lia. }
  rewrite Ed in O2. set (w := padd v0 tr) in *.
  assert (Fmin : forall q l, ppoint_ok q -> fold_left fmin (q :: l) (P i32_max i32_max) = fold_left fmin l q).
  { intros q l [Q1 Q2]. cbn [fold_left]. f_equal. unfold fmin. cbn [px py]. destruct q as [x y]. cbn [px py] in *. f_equal; lia. }
  assert (Fmax : forall q l, ppoint_ok q -> fold_left fmax (q :: l) (P i32_min i32_min) = fold_left fmax l q).
  { intros q l [Q1 Q2]. cbn [fold_left]. f_equal. unfold fmax. cbn [px py]. destruct q as [x y]. cbn [px py] in *. f_equal; lia. }
  change (map (fun v => padd v d) (w :: rest)) with (padd w d :: map (fun v => padd v d) rest).
  rewrite (Fmin (padd w d)), (Fmax (padd w d)), (Fmin w), (Fmax w) by assumption.
  rewrite fold_fmin_shift, fold_fmax_shift.
  set (lo := fold_left fmin _ w). set (hi := fold_left fmax _ w). clearbody lo hi.
  destruct lo as [lx ly], hi as [hx hy], d as [dx dy].
  unfold with_corners, translate_rect, size_from_bounding_box, padd. cbn [px py tl sz]. f_equal; f_equal; lia.
Qed.

(* C19: the one pixel wide styled polyline is the segment lines with the shared joints emitted once *)
Theorem poly_w1_pixels st pl c : stroke_color st = Some c -> stroke_width st = 1 ->
  poly_styled_pixels_thin st pl =
  map (fun p => (p, c))
    match segments (shift (pl_translate pl) (pl_vertices pl)) with
    | [] => []
    | s :: r => line_points s ++ flat_map (fun l => List.tl (line_points l)) r
    end /\
  poly_draw_styled_thin st pl = poly_styled_pixels_thin st pl.
Proof.
  intros Hc Hw. split; [|apply poly_glue_pixels_draw_thin; lia].
  unfold poly_styled_pixels_thin, effective_stroke_color. rewrite Hc, Hw. change (0 <? 1) with true. cbv iota.
  rewrite polyline_points_spec. reflexivity.
Qed.
