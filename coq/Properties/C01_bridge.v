(* C01 bridge, families rectangle / circle / ellipse: C01(b) "pixels() and draw() give the same image" stated on the draw-target
   model of part (a) (Model/Target.v): the pixels() items handed to draw_iter and the fill_solid calls of draw(), on ANY
   pair of target kinds (draw_iter-only with the trait defaults / native) with ANY target bounding box, give the same pixel
   map.  Statements only; proofs in Proofs/Targetbridge.v (from C01_circle_*_pixels_draw, C01_targets_render_default_native
   and the fact that every fill_solid area of these draw() methods fits).
     fill_calls l  = the fill_solid calls of a draw() as Model/Target.v calls; iter_call ws = one draw_iter over ws
     Target.render bb k calls p = pixel map of a target of kind k with bounding box bb after the calls *)
From EG Require Import Base.Prelude Model.Geometry Model.Style Model.Circle Model.Ellipse Model.Styledrect Model.Target
  Proofs.Geometry Proofs.Scanline Proofs.Circle Proofs.Ellipse Proofs.Circlestyled Proofs.Ellipsestyled Proofs.Styledrect
  Proofs.Circleparts Proofs.Target Proofs.Targetbridge.

(* the call-list pixel maps of the C06 / C01(b) theorems are the target model's, inside the target box *)
Theorem C01_bridge_render_fill_solid : forall bb k l p,
  rect_fits bb -> Forall call_fits (fill_calls l) ->
  Target.render bb k (fill_calls l) p = if contains bb p then Scanline.render l p else None.
Proof. exact render_fill_any_kind. Qed.

Theorem C01_bridge_render_draw_iter : forall bb k ws p,
  Target.render bb k (iter_call ws) p = if contains bb p then Scanline.last_write ws p else None.
Proof. exact render_iter. Qed.

Theorem C01_bridge_circle_calls_fit : forall c st,
  circle_sok c -> style_ok st -> Forall call_fits (fill_calls (circle_draw_styled c st)).
Proof. exact circle_calls_fit. Qed.
Theorem C01_bridge_ellipse_calls_fit : forall e st,
  ellipse_sok e -> style_ok st -> Forall call_fits (fill_calls (ellipse_draw_styled e st)).
Proof. exact ellipse_calls_fit. Qed.
Theorem C01_bridge_rect_calls_fit : forall r st,
  rect_sok r -> style_ok st -> stroke_kind st = Solid -> Forall call_fits (fill_calls (rect_draw_styled r st)).
Proof. exact rect_calls_fit. Qed.

Theorem C01_bridge_circle_pixels_draw_target : forall c st bb k k' p,
  circle_sok c -> style_ok st -> rect_fits bb ->
  Target.render bb k (iter_call (circle_styled_pixels c st)) p = Target.render bb k' (fill_calls (circle_draw_styled c st)) p.
Proof. exact circle_pixels_draw_target. Qed.

Theorem C01_bridge_ellipse_pixels_draw_target : forall e st bb k k' p,
  ellipse_sok e -> style_ok st -> rect_fits bb ->
  Target.render bb k (iter_call (ellipse_styled_pixels e st)) p = Target.render bb k' (fill_calls (ellipse_draw_styled e st)) p.
Proof. exact ellipse_pixels_draw_target. Qed.

Theorem C01_bridge_rect_pixels_draw_target : forall r st bb k k' p,
  rect_sok r -> style_ok st -> stroke_kind st = Solid -> rect_fits bb ->
  Target.render bb k (iter_call (rect_styled_pixels r st)) p = Target.render bb k' (fill_calls (rect_draw_styled r st)) p.
Proof. exact rect_pixels_draw_target. Qed.

(* C06 on the target model: draw() on either kind of target with box bb *)
Theorem C01_bridge_circle_styled_spec_target : forall c st bb k p,
  circle_sok c -> style_ok st -> rect_fits bb ->
  Target.render bb k (fill_calls (circle_draw_styled c st)) p =
  if contains bb p
  then styled_map (circle_contains (circle_fill_area c st)) (circle_contains (circle_stroke_area c st)) st p else None.
Proof. exact circle_styled_spec_target. Qed.

Theorem C01_bridge_ellipse_styled_spec_target : forall e st bb k p,
  ellipse_sok e -> style_ok st -> rect_fits bb ->
  Target.render bb k (fill_calls (ellipse_draw_styled e st)) p =
  if contains bb p
  then styled_map (ellipse_contains (ellipse_fill_area e st)) (ellipse_contains (ellipse_stroke_area e st)) st p else None.
Proof. exact ellipse_styled_spec_target. Qed.

Theorem C01_bridge_rect_styled_spec_target : forall r st bb k p,
  rect_sok r -> style_ok st -> stroke_kind st = Solid -> rect_fits bb ->
  Target.render bb k (fill_calls (rect_draw_styled r st)) p =
  if contains bb p
  then styled_map (contains (rect_fill_area r st)) (contains (rect_stroke_area r st)) st p else None.
Proof. exact rect_styled_spec_target. Qed.

(* non-vacuity: a circle partly outside a small target box, draw_iter-only target vs native target *)
Example C01_bridge_example :
  let c := Circ (P (-2) (-2)) 6 in let st := Style (Some 2) (Some 1) 1 Inside Solid in let bb := R (P 0 0) (S 8 8) in
  circle_sok c /\ style_ok st /\ rect_fits bb /\
  Target.render bb DefaultOnly (iter_call (circle_styled_pixels c st)) (P 1 1) = Some 2 /\
  Target.render bb Native (fill_calls (circle_draw_styled c st)) (P 1 1) = Some 2 /\
  Target.render bb Native (fill_calls (circle_draw_styled c st)) (P 3 1) = Some 1 /\
  Target.render bb Native (fill_calls (circle_draw_styled c st)) (P (-1) 1) = None.
Proof.
  cbv zeta. unfold circle_sok, point_sok, style_ok, sbound, rect_fits, size_fits, i32_max, i32_min.
  cbn [c_tl c_d px py stroke_width tl sz sw sh]. repeat split; try lia; vm_compute; reflexivity.
Qed.
