(* C01 bridge, family triangle / polyline: C01(b) "pixels() and draw() give the same image" stated on the draw-target model of
   part (a) (Model/Target.v), and the tie of the consumer model Model/Tristyled.v to the thick-stroke pipeline model
   Model/JoinTri.v.  Statements only; proofs in Proofs/Tribridge.v.
     iter_call ws / fill_calls l       one draw_iter over ws / the fill_solid calls l, as Model/Target.v calls (Proofs/Targetbridge.v)
     Target.render bb k calls p        pixel map of a target of kind k (draw_iter-only with the trait defaults / native) with box bb
     rows, for_sequence, first_rows_ok the un-fused scanline generator of the triangle, see Properties/C01_tri.v
     conv_rows                         Model/JoinTri.v rows (own scanline / point-type records) as Model/Tristyled.v rows
     jt_style w al fill                the style Model/JoinTri.v stands for: stroke colour 1, width w, alignment al, the given fill *)
From EG Require Import Base.Prelude Model.Geometry Model.Style Model.Target Proofs.Geometry Proofs.Scanline Proofs.Target Proofs.Targetbridge.
From EG Require Model.Join Model.JoinTri.
From EG Require Import Model.Line Model.Polyline Model.Triangle Model.Tristyled Proofs.Triangle Proofs.Tristyled Proofs.Tribridge.

(* the private write-list semantics of Model/Tristyled.v is the call-list semantics of the closed shapes *)
Theorem C01_bridge_tri_render_is_last_write : forall (l : list (rect * Z)) p, Forall (fun rc => rect_ok (fst rc)) l ->
  Scanline.render l p = Scanline.last_write (flat_map fill_writes l) p.
Proof. exact render_is_last_write. Qed.

(* any generator rows (un-fused protocol), any pair of target kinds, any target box *)
Theorem C01_bridge_tri_triangle_pixels_draw_target : forall st rows bb k k' p,
  Forall (Forall (fun lk => sl_ok (fst lk))) rows -> first_rows_ok rows -> rect_fits bb ->
  Target.render bb k (iter_call (tri_styled_pixels st rows)) p =
  Target.render bb k' (fill_calls (tri_draw_styled st (for_sequence rows))) p.
Proof. exact tri_pixels_draw_target. Qed.

(* stroke width 0, generator included *)
Theorem C01_bridge_tri_triangle_w0_pixels_draw_target : forall st t bb k k' p, tri_ok t -> rect_fits bb ->
  Target.render bb k (iter_call (tri_styled_pixels_w0 st t)) p = Target.render bb k' (fill_calls (tri_draw_styled_w0 st t)) p.
Proof. exact tri_w0_pixels_draw_target. Qed.

(* ... and what it looks like: Triangle::points() in the fill colour, clipped to the target box *)
Theorem C01_bridge_tri_triangle_w0_render : forall st t bb k p, tri_ok t -> rect_fits bb ->
  Target.render bb k (fill_calls (tri_draw_styled_w0 st t)) p =
  if contains bb p then
    match fill_color st with
    | Some c => if existsb (fun q => point_eqb q p) (tri_points t) then Some c else None
    | None => None
    end
  else None.
Proof. exact tri_w0_render_target. Qed.

Theorem C01_bridge_tri_polyline_thick_pixels_draw_target : forall st tr raw bb k k' p,
  1 < stroke_width st -> tr_ok tr -> Forall sl_ok raw -> rect_fits bb ->
  Target.render bb k (iter_call (poly_styled_pixels_thick st tr (poly_scanlines raw))) p =
  Target.render bb k' (fill_calls (poly_draw_styled_thick st tr (poly_scanlines raw))) p.
Proof. exact poly_thick_pixels_draw_target. Qed.

Theorem C01_bridge_tri_polyline_thin_pixels_draw_target : forall st pl bb k k' p, 0 <= stroke_width st <= 1 ->
  Target.render bb k (iter_call (poly_styled_pixels_thin st pl)) p = Target.render bb k' (iter_call (poly_draw_styled_thin st pl)) p.
Proof. exact poly_thin_pixels_draw_target. Qed.

(* ---- the consumers of Model/Tristyled.v are the consumers inside the pipeline model Model/JoinTri.v -----------------------
   jt_pixels / jt_draw (corresponded with the implementation for every stroke width and alignment by the suites
   join_tri_pixels / join_tri_rects) are tri_styled_pixels / tri_draw_styled applied to the rows jt_rows computes; this is
   what ties the PTStroke branches of Model/Tristyled.v to the code (the real consumers are reachable only through the real
   generator: ScanlineIterator and its item type are private to the crate). *)
Theorem C01_bridge_tri_jt_pixels : forall t w al fill,
  JoinTri.jt_pixels t w al fill =
  option_map (fun rs => tri_styled_pixels (jt_style w al fill) (conv_rows rs))
             (JoinTri.jt_rows t w al (match fill with Some _ => true | None => false end)).
Proof. exact jt_pixels_is_tri_styled_pixels. Qed.

Theorem C01_bridge_tri_jt_draw : forall t w al fill,
  JoinTri.jt_draw t w al fill =
  if is_transparent (jt_style w al fill) then Some []
  else option_map (fun rs => tri_draw_styled (jt_style w al fill) (for_sequence (conv_rows rs)))
                  (JoinTri.jt_rows t w al (match fill with Some _ => true | None => false end)).
Proof. exact jt_draw_is_tri_draw_styled. Qed.

(* hence C01 (b) for stroked triangles whenever the first two rows of the styled box are not both empty while a later one is not
   (PARTIAL: first_rows_ok of the real generator is a computable hypothesis here, not a theorem) *)
Theorem C01_bridge_tri_stroked_pixels_draw_partial : forall t w al fill rs ps ds,
  JoinTri.jt_rows t w al (match fill with Some _ => true | None => false end) = Some rs ->
  Forall (Forall (fun lk => sl_ok (fst lk))) (conv_rows rs) -> first_rows_ok (conv_rows rs) ->
  JoinTri.jt_pixels t w al fill = Some ps -> JoinTri.jt_draw t w al fill = Some ds ->
  flat_map fill_writes ds = ps.
Proof. exact jt_pixels_draw. Qed.

(* non-vacuity: a stroked and filled triangle of the pipeline model through the Tristyled consumers; a clipped fill *)
Example C01_bridge_tri_example :
  let t := (P 0 0, P 9 2, P 3 8) in
  (match JoinTri.jt_rows t 1 Center true with
   | Some rs => first_rows_ok (conv_rows rs) /\
                Some (tri_styled_pixels (jt_style 1 Center (Some 2)) (conv_rows rs)) = JoinTri.jt_pixels t 1 Center (Some 2) /\
                length (tri_styled_pixels (jt_style 1 Center (Some 2)) (conv_rows rs)) = 45%nat
   | None => False
   end) /\
  Target.render (R (P 0 0) (S 3 3)) DefaultOnly (fill_calls (tri_draw_styled_w0 (Style (Some 7) None 0 Center Solid) (T (P 0 0) (P 5 2) (P 1 4)))) (P 1 1) = Some 7 /\
  Target.render (R (P 0 0) (S 3 3)) Native (fill_calls (tri_draw_styled_w0 (Style (Some 7) None 0 Center Solid) (T (P 0 0) (P 5 2) (P 1 4)))) (P 3 1) = None.
Proof. vm_compute. repeat split; reflexivity. Qed.
