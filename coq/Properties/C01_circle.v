(* C01(b), families rectangle / circle / ellipse: pixels() and draw() of a styled shape give the same pixel map.
   Statements only; proofs in Proofs/Circleparts.v (from the two C06 specifications).
   render = pixel map after the fill_solid calls of draw(); last_write = pixel map after draw_iter over pixels().
   Note the code matches on effective_stroke_color() in draw_styled but on stroke_color in the pixel iterators
   (circle/ellipse) - the theorem covers stroke width 0 with a stroke colour set. *)
From EG Require Import Base.Prelude Model.Geometry Model.Style Model.Circle Model.Ellipse Model.Styledrect
  Proofs.Geometry Proofs.Scanline Proofs.Circle Proofs.Ellipse Proofs.Circlestyled Proofs.Ellipsestyled Proofs.Styledrect
  Proofs.Circleparts.

Theorem C01_circle_rect_pixels_draw : forall r st p,
  rect_sok r -> style_ok st -> stroke_kind st = Solid ->
  last_write (rect_styled_pixels r st) p = render (rect_draw_styled r st) p.
Proof. exact rect_pixels_draw. Qed.

Theorem C01_circle_circle_pixels_draw : forall c st p,
  circle_sok c -> style_ok st -> last_write (circle_styled_pixels c st) p = render (circle_draw_styled c st) p.
Proof. exact circle_pixels_draw. Qed.

Theorem C01_circle_ellipse_pixels_draw : forall e st p,
  ellipse_sok e -> style_ok st -> last_write (ellipse_styled_pixels e st) p = render (ellipse_draw_styled e st) p.
Proof. exact ellipse_pixels_draw. Qed.

(* non-vacuity: stroke colour set, stroke width 0, no fill: draw() issues nothing, pixels() yields nothing *)
Example C01_circle_example :
  let c := Circ (P 0 0) 6 in let st := Style None (Some 1) 0 Center Solid in
  circle_sok c /\ style_ok st /\ circle_draw_styled c st = [] /\ circle_styled_pixels c st = [] /\
  length (circle_styled_pixels c (Style (Some 2) (Some 1) 1 Inside Solid)) = 32%nat.
Proof. cbv zeta. unfold circle_sok, point_sok, style_ok, sbound. cbn [c_tl c_d px py stroke_width]. repeat split; try lia; reflexivity. Qed.
