(* C01 part (b) for the styled primitives whose draw() is, by construction, "hand the pixels() iterator to draw_iter":
   Line, Arc, Sector.  The shape of the two function bodies is regenerated from the source on every run
   (translate/gen_drawpaths.py -> Gen/DrawPaths.v); the reflection theorem fails as soon as one of them is anything
   else than `target.draw_iter(StyledPixelsIterator::new(self, style))` / `StyledPixelsIterator::new(self, style)`.
   Under that shape draw() issues exactly one draw_iter call whose items are the items of pixels(), whatever the iterator
   yields, so the three paths of C01 coincide for any iterator content `it` (theorems below, over Model/Target.v). *)
From EG Require Import Base.Prelude Model.Geometry Model.Target Proofs.Geometry Proofs.Target Gen.DrawPaths.
From Coq Require Import String.

Definition shape_ok (row : string * body_shape * body_shape) : bool :=
  match row with
  | (_, DrawIterOfNewIterator, NewIterator) => true
  | _ => false
  end.

(* the call list of draw() and the item list of pixels() for a primitive of that shape, `it` = StyledPixelsIterator::new(self, style) as a list *)
Definition direct_draw (it : list (point * color)) : list call := [DrawIter it].
Definition direct_pixels (it : list (point * color)) : list (point * color) := it.

Theorem C01_direct_shapes_are_draw_iter_of_pixels :
  forallb shape_ok direct_families = true /\ map (fun r => fst (fst r)) direct_families = ["line"; "arc"; "sector"]%string.
Proof. split; vm_compute; reflexivity. Qed.

(* pixels() fed to draw_iter = draw(), on either kind of target, at every point *)
Theorem C01_direct_pixels_draw : forall bb k it p,
  render bb k [DrawIter (direct_pixels it)] p = render bb k (direct_draw it) p.
Proof. reflexivity. Qed.

(* draw() on a draw_iter-only target = draw() on a native target *)
Theorem C01_direct_default_native : forall bb it p,
  rect_fits bb -> render bb DefaultOnly (direct_draw it) p = render bb Native (direct_draw it) p.
Proof.
  intros bb it p Hbb. apply render_default_native; [assumption|]. repeat constructor.
Qed.

Example C01_direct_example :
  render (R (P 0 0) (S 4 4)) DefaultOnly (direct_draw [(P 1 1, 5); (P 9 9, 6); (P 1 1, 7)]) (P 1 1) = Some 7.
Proof. vm_compute. reflexivity. Qed.
