(* C01, image part - an Image / SubImage gives the same pixel map on a draw_iter-only target (trait default of
   fill_contiguous: `area.points().zip(colors)` into draw_iter) and on a target with a native fill_contiguous
   (documented meaning: area clipped to the target, colour = item at the point's row-major position).
   Statements only; proofs in Proofs/Imagecross.v. *)
From EG Require Import Base.Prelude Model.Geometry Proofs.Geometry Model.Imageraw Proofs.Imageraw Proofs.Imagecross.

(* the call list: one fill_contiguous over the image's box with the row-major pixel stream (nothing for a zero
   sized SubImage) *)
Theorem C01_image_one_call : forall d o,
  d_wf d ->
  (exists cs, image_draw (Img d o) = [FillContiguous (image_box (Img d o)) cs] /\
              map Some cs = map (d_pixel d) (row_major 0 (sw (d_size d)) 0 (sh (d_size d)))) \/
  (image_draw (Img d o) = [] /\ is_zero_sized (image_box (Img d o)) = true).
Proof. exact image_draw_calls. Qed.

(* default = native for a single fill_contiguous call: every area in range, EVERY stream (short, exact, too long) *)
Theorem C01_image_fill_contiguous_default_eq_native : forall bb area cs q,
  rect_ok area -> default_pix bb (FillContiguous area cs) q = native_pix bb (FillContiguous area cs) q.
Proof. exact fill_contiguous_default_eq_native. Qed.

(* ... and for call lists *)
Theorem C01_image_render_default_eq_native : forall bb calls q,
  Forall (fun c => rect_ok (call_area c)) calls ->
  render_default bb calls q = render_native bb calls q.
Proof. exact render_default_eq_native. Qed.

(* images: the two targets agree, and show pixel(q - o) inside the box and nothing else *)
Theorem C01_image_default_eq_native : forall d o bb q,
  d_wf d -> point_ok o ->
  render_default bb (image_draw (Img d o)) q = render_native bb (image_draw (Img d o)) q /\
  render_native bb (image_draw (Img d o)) q =
    (if contains bb q && contains (image_box (Img d o)) q then d_pixel d (psub q o) else None).
Proof. exact image_default_eq_native. Qed.

Example C01_image_nonvacuous :
  let c := FillContiguous (R (P 2 3) (S 3 2)) [10; 11; 12; 13] in   (* a stream that ends early *)
  let bb := R (P 0 0) (S 4 9) in                                     (* a target that cuts the area *)
  rect_ok (call_area c) /\
  default_pix bb c (P 3 3) = Some 11 /\ native_pix bb c (P 3 3) = Some 11 /\
  default_pix bb c (P 4 3) = None /\ native_pix bb c (P 4 3) = None /\
  default_pix bb c (P 2 4) = Some 13 /\ native_pix bb c (P 3 4) = None.
Proof.
  cbv zeta. split.
  - unfold rect_ok, point_ok, size_ok, bound. cbn. lia.
  - vm_compute. repeat split; reflexivity.
Qed.
