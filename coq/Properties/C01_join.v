(* C01 (b) - pixels() and draw() give one image; part: thick polylines (stroke width > 1), with the CONCRETE scanline
   generator of Model/Join.v (polyline::ScanlineIterator over the thick segments and line joins) instead of the abstract
   one of C01_tri.v.
     poly_thick_points pts tr w   the points of Styled<Polyline>::pixels() (every item carries the stroke colour)
     poly_thick_rects pts w       the rectangles draw() hands to fill_solid, in order, before the target translation
     rect_points_tr tr r          what fill_solid(r) on target.translated(tr) writes: every point of r moved by tr, row-major
   "Same list of writes" gives the same pixel map on every target that follows the fill_solid contract (C01 a).
   Statements only; proofs in Proofs/JoinDraw.v, Proofs/JoinRange.v. *)
From EG Require Import Base.Prelude Model.Geometry Model.Line Model.Thickline Model.Join.
From EG Require Import Proofs.Join Proofs.JoinRange Proofs.JoinDraw.
Set Default Timeout 60.

(* for every vertex list and width: hypothesis = the corners of the thick segments lie within +-2^29 (one-row
   Rectangle::points and Rectangle::rows do not saturate) *)
Theorem C01_join_polyline_pixels_draw : forall pts tr w, poly_box_ok pts w ->
  poly_thick_points pts tr w = option_map (flat_map (rect_points_tr tr)) (poly_thick_rects pts w).
Proof. exact poly_pixels_draw_ok. Qed.

(* ... in particular for all vertices within +-V with V + 6 w + 8 <= 322 (input-only form) *)
Theorem C01_join_polyline_pixels_draw_range : forall V pts tr w, range_ok V w -> Forall (within V) pts ->
  poly_thick_points pts tr w = option_map (flat_map (rect_points_tr tr)) (poly_thick_rects pts w).
Proof. intros V pts tr w R F. apply poly_pixels_draw_ok. exact (poly_box_ok_range V w pts R F). Qed.

(* the segments whose edges make the bounding box are the segments that are drawn *)
Theorem C01_join_polyline_segments_agree : forall pts w, poly_segments pts w = thick_segment_iter pts w.
Proof. exact poly_segments_eq_iter. Qed.

Example C01_join_nonvacuous :
  let pts := [P 0 0; P 3 0; P 0 6] in
  poly_box_ok pts 4 /\
  option_map (@length point) (poly_thick_points pts (P 5 5) 4) = Some 53%nat /\
  option_map (@length rect) (poly_thick_rects pts 4) = Some 10%nat.
Proof.
  cbv zeta. split.
  - apply poly_box_okb_ok. vm_compute. reflexivity.
  - vm_compute. split; reflexivity.
Qed.
