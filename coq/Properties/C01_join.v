(* C01 (b) - pixels() and draw() give one image; part: thick polylines (stroke width > 1), with the CONCRETE scanline
   generator of Model/Join.v (polyline::ScanlineIterator over the thick segments and line joins) instead of the abstract
   one of C01_tri.v.
     poly_thick_points pts tr w   the points of Styled<Polyline>::pixels() (every item carries the stroke colour)
     poly_thick_rects pts w       the rectangles draw() hands to fill_solid, in order, before the target translation
     rect_points_tr tr r          what fill_solid(r) on target.translated(tr) writes: every point of r moved by tr, row-major
   "Same list of writes" gives the same pixel map on every target that follows the fill_solid contract (C01 a).
   Statements only; proofs in Proofs/JoinDraw.v, Proofs/JoinRange.v. *)
From EG Require Import Base.Prelude Model.Geometry Model.Style Model.Line Model.Thickline Model.Join Model.JoinTri.
From EG Require Import Proofs.Join Proofs.JoinTri Proofs.JoinRange Proofs.JoinDraw Proofs.JoinTriDraw.
From EG Require Proofs.Tristyled Proofs.Tribridge Proofs.JoinTriBridge Proofs.JoinTriFill Proofs.JoinOutlineAny Proofs.JoinW1Fill Proofs.JoinW1All.
Set Default Timeout 60.

(* for every vertex list and width: hypothesis = the corners of the thick segments lie within +-2^29 (one-row
   Rectangle::points and Rectangle::rows do not saturate) *)
Theorem C01_join_polyline_pixels_draw : forall pts tr w, poly_box_ok pts w ->
  poly_thick_points pts tr w = option_map (flat_map (rect_points_tr tr)) (poly_thick_rects pts w).
Proof. exact poly_pixels_draw_ok. Qed.

(* ... in particular for all vertices within +-V with V + 6 w + 8 <= 8191 (input-only form) *)
Theorem C01_join_polyline_pixels_draw_range : forall V pts tr w, range_ok V w -> Forall (within V) pts ->
  poly_thick_points pts tr w = option_map (flat_map (rect_points_tr tr)) (poly_thick_rects pts w).
Proof. intros V pts tr w R F. apply poly_pixels_draw_ok. exact (poly_box_ok_range V w pts R F). Qed.

(* the segments whose edges make the bounding box are the segments that are drawn *)
Theorem C01_join_polyline_segments_agree : forall pts w, poly_segments pts w = thick_segment_iter pts w.
Proof. exact poly_segments_eq_iter. Qed.

(* ---- stroked / filled triangles (Model/JoinTri.v: every stroke width incl. 0 and 1, all three alignments, with and
   without fill colour; stroke colour 1, fill colour as given) ----------------------------------------------------------
     jt_pixels     the items of Styled<Triangle>::pixels(), in order
     jt_draw       the (rectangle, colour) pairs draw() hands to fill_solid, in order
     rect_writes   what fill_solid(rect, c) writes: c at every point of rect, row-major
     jt_rows       what every row of the styled bounding box yields (the generator both consumers share)
     jt_fused rs   the one situation in which the two consumers see different sequences is excluded: pixels() calls the
                   non-fused triangle::ScanlineIterator once in new() and goes on calling it after a None (styled.rs:36-38,
                   58-76), draw()'s for loop stops at the first None; they differ only when the first two rows of the
                   styled bounding box yield nothing and a later row does.  Computable; the model oracle evaluates it on
                   every generated case (suite join_tri_fused; never false), it is not proved unreachable.
   Range hypotheses: vertices and the corners of the three thick segments within +-2^29. *)
Theorem C01_join_triangle_pixels_draw : forall t w al fill segs rs, tri_big t ->
  tri_segs (jt_sorted_clockwise t) w (so_of_alignment al) = Some segs -> Forall seg_ok segs ->
  jt_rows t w al (match fill with Some _ => true | None => false end) = Some rs -> jt_fused rs = true ->
  exists px dr, jt_pixels t w al fill = Some px /\ jt_draw t w al fill = Some dr /\ flat_map rect_writes dr = px.
Proof. exact jt_pixels_draw. Qed.

(* input-only form of the range hypotheses: vertices within +-V, V + 6 w + 8 <= 8191 *)
Theorem C01_join_triangle_pixels_draw_range : forall V t w al fill rs, range_ok V w -> tri_within V t ->
  jt_rows t w al (match fill with Some _ => true | None => false end) = Some rs -> jt_fused rs = true ->
  exists px dr, jt_pixels t w al fill = Some px /\ jt_draw t w al fill = Some dr /\ flat_map rect_writes dr = px.
Proof. exact jt_pixels_draw_range. Qed.

(* jt_fused is a THEOREM for the triangles whose rows come from Triangle::scanline_intersection alone: stroke width 0 (fill
   only, every alignment) and the collapsed Inside stroke.  Every row between the top and the bottom vertex then has a pixel
   (or no row has one), so the un-fused iterator cannot make pixels() and draw() differ.  For the remaining strokes jt_fused
   stays a computable hypothesis: never false on 151 848 triangles of an exhaustive 6 x 6 grid (widths 1..3, all alignments,
   fill on and off), on 120 000 random ones, nor on any generated case; for stroke width 1 with Center alignment it follows from
   C19_join_tri_outline_w1 (every row has a pixel). *)
Theorem C01_join_triangle_fused_fill_like : forall t w al hf rs, tri_big t ->
  (w = 0 \/ exists c, jt_is_collapsed (jt_sorted_clockwise t) w (so_of_alignment al) = Some c /\
                      (0 <? w) && c && so_eqb (so_of_alignment al) SORight = true) ->
  jt_rows t w al hf = Some rs -> jt_fused rs = true.
Proof. exact Proofs.JoinTriFill.fill_like_fused. Qed.

(* ... hence C01 (b) for them without that hypothesis *)
Theorem C01_join_triangle_pixels_draw_fill_like : forall t w al fill segs rs, tri_big t ->
  tri_segs (jt_sorted_clockwise t) w (so_of_alignment al) = Some segs -> Forall seg_ok segs ->
  (w = 0 \/ exists c, jt_is_collapsed (jt_sorted_clockwise t) w (so_of_alignment al) = Some c /\
                      (0 <? w) && c && so_eqb (so_of_alignment al) SORight = true) ->
  jt_rows t w al (match fill with Some _ => true | None => false end) = Some rs ->
  exists px dr, jt_pixels t w al fill = Some px /\ jt_draw t w al fill = Some dr /\ flat_map rect_writes dr = px.
Proof. exact Proofs.JoinTriFill.jt_pixels_draw_fill_like. Qed.

(* jt_fused is also a THEOREM for the 1 px outline with every alignment (Center, Outside; Inside unless Triangle::is_collapsed
   holds - that case is the fill-like one above): every row between the top and the bottom vertex meets one of the three
   edge lines (Proofs/JoinOutlineAny.v). *)
Theorem C01_join_triangle_fused_w1_any : forall t al rs, tri_big t -> Proofs.JoinOutlineAny.w1_outline_case t al ->
  jt_rows t 1 al false = Some rs -> jt_fused rs = true.
Proof. exact Proofs.JoinOutlineAny.jt_fused_w1_any. Qed.

(* ... hence C01 (b) for the stroke-only triangle of width 1 (vertices within +-V, V + 14 <= 8191; still under w1_outline_case -
   the input-only form is C01_join_triangle_pixels_draw_w1_all below) *)
Theorem C01_join_triangle_pixels_draw_w1_any : forall V t al, range_ok V 1 -> tri_within V t ->
  Proofs.JoinOutlineAny.w1_outline_case t al ->
  exists px dr, jt_pixels t 1 al None = Some px /\ jt_draw t 1 al None = Some dr /\ flat_map rect_writes dr = px.
Proof. exact Proofs.JoinOutlineAny.jt_pixels_draw_w1_any. Qed.

(* ... and for a stroke of width 1 TOGETHER WITH a fill colour (Proofs/JoinW1Fill.v): every row holds the stroke scanlines of the
   three edge lines, preceded by the fill line between them, so no row is empty *)
Theorem C01_join_triangle_fused_w1_fill : forall t al rs, tri_big t -> Proofs.JoinOutlineAny.w1_outline_case t al ->
  jt_rows t 1 al true = Some rs -> jt_fused rs = true.
Proof. exact Proofs.JoinW1Fill.jt_fused_w1_fill. Qed.

Theorem C01_join_triangle_pixels_draw_w1_fill : forall V t al f, range_ok V 1 -> tri_within V t ->
  Proofs.JoinOutlineAny.w1_outline_case t al ->
  exists px dr, jt_pixels t 1 al (Some f) = Some px /\ jt_draw t 1 al (Some f) = Some dr /\ flat_map rect_writes dr = px.
Proof. exact Proofs.JoinW1Fill.jt_pixels_draw_w1_fill. Qed.

(* ... and, with Triangle::is_collapsed decided for width 1 (C19_join_is_collapsed_w1: collapsed <-> no area), C01 (b) for EVERY
   triangle with a stroke of width 1, every alignment, with or without a fill colour, input-only (Proofs/JoinW1All.v) *)
Theorem C01_join_triangle_pixels_draw_w1_all : forall V t al fill, range_ok V 1 -> tri_within V t ->
  exists px dr, jt_pixels t 1 al fill = Some px /\ jt_draw t 1 al fill = Some dr /\ flat_map rect_writes dr = px.
Proof. exact Proofs.JoinW1All.jt_pixels_draw_w1_all. Qed.

(* the computable hypothesis of the tri builder's C01_bridge_tri_stroked_pixels_draw_partial (the same consumers, modelled
   in Model/Tristyled.v) is this file's jt_fused: the two statements have the same reach *)
Theorem C01_join_fused_is_first_rows_ok : forall rs,
  jt_fused rs = true <-> Proofs.Tristyled.first_rows_ok (Proofs.Tribridge.conv_rows rs).
Proof. exact Proofs.JoinTriBridge.jt_fused_first_rows_ok. Qed.

Example C01_join_nonvacuous :
  let pts := [P 0 0; P 3 0; P 0 6] in
  poly_box_ok pts 4 /\
  option_map (@length point) (poly_thick_points pts (P 5 5) 4) = Some 53%nat /\
  option_map (@length rect) (poly_thick_rects pts 4) = Some 10%nat.
Proof.
  cbv zeta. split.
  - apply poly_box_okb_ok. vm_compute. reflexivity.
  - vm_compute. split; reflexivity.
Qed.

Example C01_join_triangle_nonvacuous :
  let t := (P 0 0, P 3 1, P 3 9) in
  tri_fused t 4 Style.Center true = true /\ tri_fused t 1 Style.Inside false = true /\ tri_fused t 0 Style.Outside true = true /\
  option_map (@length (point * Z)) (jt_pixels t 4 Style.Center (Some 2)) = Some 85%nat /\
  option_map (fun dr => length (flat_map rect_writes dr)) (jt_draw t 4 Style.Center (Some 2)) = Some 85%nat.
Proof. vm_compute. repeat split; reflexivity. Qed.
