(* C01(b), RoundedRectangle part: pixels() and draw() give the same image.
   Statements only; proofs are in Proofs/Rrect.v.  pixels() branches on stroke_color, draw_styled on
   effective_stroke_color, and the fill-only arm of draw_styled bypasses StyledScanlines: both differences are covered.
   KNOWN FINDING (class K06_rrect_fill_outside_stroke = K01_rrect_fill_outside_stroke): fill only + width > 0 with a
   fill_area() point outside stroke_area(): draw() paints it, pixels() does not.
   Domain styled_dom: see C06_rrect.v. *)
From EG Require Import Base.Prelude Model.Geometry Model.Style Model.Rrect Proofs.Geometry Proofs.Curvefacts Proofs.Rrect Proofs.Rrect2.

Theorem C01_rrect_pixels_draw : forall r st bb p,
  styled_dom r st -> 0 <= stroke_width st -> K06_rrect_fill_outside_stroke r st = false ->
  pix_get (writes_of_pixels bb (rr_pixels r st)) p = pix_get (writes_of_calls bb (rr_draw r st)) p.
Proof. intros; eapply rr_pixels_draw; eauto using rr_dom_ok, styled_dom_ok. Qed.

Example C01_rrect_nonvacuous :
  let r := RR (R (P (-3) 2) (S 12 9)) (CR (S 3 4) (S 20 1) (S 2 2) (S 0 5)) in
  let st := Style (Some 5) (Some 7) 0 Center Solid in
  styled_dom r st /\ K06_rrect_fill_outside_stroke r st = false /\ length (rr_pixels r st) = 108%nat /\ length (rr_draw r st) = 9%nat.
Proof. cbv zeta. split; [split; apply rr_dom_b; vm_compute; reflexivity|]. vm_compute. repeat split; reflexivity. Qed.
