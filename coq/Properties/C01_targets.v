(* C01 part (a) - a target that implements only draw_iter (and inherits the trait defaults of
   core/src/draw_target/mod.rs:388-424) ends up with the same pixel map as a target that implements
   fill_contiguous / fill_solid / clear natively with their documented meaning.  Every built-in drawable
   and every adapter stack reaches a target only through these four methods, so this covers all of
   them at once.  Statements only; proofs in Proofs/Target.v.
     rect_fits r : extents and far edges of r fit i32 (Rectangle::points does not saturate)
     call_fits c : the area of a fill call is rect_fits (no condition on draw_iter / clear)          *)
From EG Require Import Base.Prelude Model.Geometry Model.Target Proofs.Geometry Proofs.Target.

Theorem C01_targets_paint_default_native : forall bb c m p,
  rect_fits bb -> call_fits c ->
  paint bb DefaultOnly c m p = paint bb Native c m p.
Proof. exact paint_default_native. Qed.

(* any list of calls, from maps that agree at p *)
Theorem C01_targets_paint_all_default_native : forall bb cs,
  rect_fits bb -> Forall call_fits cs ->
  forall m m' p, m p = m' p -> paint_all bb DefaultOnly cs m p = paint_all bb Native cs m' p.
Proof. exact paint_all_default_native. Qed.

Theorem C01_targets_render_default_native : forall bb cs p,
  rect_fits bb -> Forall call_fits cs -> render bb DefaultOnly cs p = render bb Native cs p.
Proof. exact render_default_native. Qed.

(* the same through adapter stacks: both kinds of root agree on every history *)
Theorem C01_targets_stack_default_native : forall st bb ops p,
  rect_fits bb -> Forall call_fits (flat_map (lower st bb) ops) ->
  render bb DefaultOnly (flat_map (lower st bb) ops) p = render bb Native (flat_map (lower st bb) ops) p.
Proof. intros st bb ops p. exact (render_default_native bb (flat_map (lower st bb) ops) p). Qed.

Definition C01_ex_bb := R (P (-2) 1) (S 5 4).
Definition C01_ex_calls :=
  [Clear 3; FillContiguous (R (P (-4) 0) (S 5 3)) (Fin [1;2;3;4;5;6;7;8;9;10;11]); FillSolid (R (P 1 3) (S 9 1)) 8].

Example C01_targets_example :
  render C01_ex_bb DefaultOnly C01_ex_calls (P (-1) 1) = Some 9 /\ render C01_ex_bb Native C01_ex_calls (P (-1) 1) = Some 9
  /\ render C01_ex_bb DefaultOnly C01_ex_calls (P 2 3) = Some 8 /\ render C01_ex_bb DefaultOnly C01_ex_calls (P 2 4) = Some 3
  /\ render C01_ex_bb DefaultOnly C01_ex_calls (P 3 3) = None.
Proof. split; [|split; [|split; [|split]]]; vm_compute; reflexivity. Qed.

Example C01_targets_hypotheses_satisfiable : rect_fits C01_ex_bb /\ Forall call_fits C01_ex_calls.
Proof.
  assert (forall x y w h, 0 <= w <= 1000 -> 0 <= h <= 1000 -> -1000 <= x <= 1000 -> -1000 <= y <= 1000 ->
          rect_fits (R (P x y) (S w h))) as Hf.
  { intros. unfold rect_fits, size_fits, i32_max, i32_min. cbn [tl sz px py sw sh]. lia. }
  split; [apply Hf; lia|]. unfold C01_ex_calls. repeat constructor; cbn [call_fits]; try exact I; apply Hf; lia.
Qed.
