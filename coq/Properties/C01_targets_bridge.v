(* C01 - bridges from the families with a private target semantics to the draw-target model (Model/Target.v), so that
   C01(a) "draw_iter-only target = native target" and C01(b) "pixels() = draw()" compose on ONE model for rounded
   rectangles, images / sub-images and text (rectangle / circle / ellipse: Properties/C01_bridge.v).
   Statements only; proofs in Proofs/TargetRrect.v, TargetImage.v, TargetText.v.
     render bb k calls p   pixel map of a target with bounding box bb of kind k (DefaultOnly: real trait defaults)
     rect_fits / call_fits extents and far edges inside i32 (Rectangle::points does not saturate)                  *)
From EG Require Import Base.Prelude Model.Geometry Model.Style Proofs.Geometry Model.Target Proofs.Target.
From EG Require Model.Rrect Proofs.Rrect Model.Imageraw Proofs.Imageraw Proofs.Imagecross
  Model.Fontmodel Proofs.Fontmodel Model.Textmodel Proofs.Textbox.
From EG Require Import Proofs.TargetRrect Proofs.TargetImage Proofs.TargetText.

(* ---- RoundedRectangle: Model/Rrect.v writes_of_calls / writes_of_pixels / pix_get ------------------------------ *)
Theorem C01_bridge_rrect_render_default : forall bb l p,
  render bb DefaultOnly (rr_fill_calls l) p = Model.Rrect.pix_get (Model.Rrect.writes_of_calls bb l) p.
Proof. exact rr_render_default. Qed.

Theorem C01_bridge_rrect_render_iter : forall bb k ps p,
  render bb k [DrawIter ps] p = Model.Rrect.pix_get (Model.Rrect.writes_of_pixels bb ps) p.
Proof. exact rr_render_iter. Qed.

Theorem C01_bridge_rrect_calls_fit : forall r st,
  Proofs.Rrect.styled_ok r st -> Forall call_fits (rr_fill_calls (Model.Rrect.rr_draw r st)).
Proof. exact rr_calls_fit. Qed.

Theorem C01_bridge_rrect_render_any_kind : forall r st bb k p,
  Proofs.Rrect.styled_ok r st -> rect_fits bb ->
  render bb k (rr_fill_calls (Model.Rrect.rr_draw r st)) p =
  Model.Rrect.pix_get (Model.Rrect.writes_of_calls bb (Model.Rrect.rr_draw r st)) p.
Proof. exact rr_render_any_kind. Qed.

(* C01(b) and C01(a) together: pixels() into draw_iter on a target of kind k = draw() on a target of kind k' *)
Theorem C01_bridge_rrect_pixels_draw_target : forall r st bb k k' p,
  Proofs.Rrect.styled_ok r st -> 0 <= stroke_width st -> Model.Rrect.K06_rrect_fill_outside_stroke r st = false ->
  rect_fits bb ->
  render bb k [DrawIter (Model.Rrect.rr_pixels r st)] p = render bb k' (rr_fill_calls (Model.Rrect.rr_draw r st)) p.
Proof. exact rr_pixels_draw_target. Qed.

(* ---- Image / SubImage: Proofs/Imagecross.v render_default / render_native --------------------------------------- *)
Theorem C01_bridge_image_render_default : forall bb l q,
  Proofs.Imagecross.render_default bb l q = render bb DefaultOnly (image_calls l) q.
Proof. exact image_render_default. Qed.

Theorem C01_bridge_image_render_native : forall bb l q,
  Proofs.Imagecross.render_native bb l q = render bb Native (image_calls l) q.
Proof. exact image_render_native. Qed.

Theorem C01_bridge_image_target : forall d o bb k q,
  Proofs.Imageraw.d_wf d -> point_ok o ->
  render bb k (image_calls (Model.Imageraw.image_draw (Model.Imageraw.Img d o))) q =
  (if contains bb q && contains (Model.Imageraw.image_box (Model.Imageraw.Img d o)) q
   then Proofs.Imageraw.d_pixel d (psub q o) else None).
Proof. exact image_render_target. Qed.

Theorem C01_bridge_image_default_native : forall d o bb q,
  Proofs.Imageraw.d_wf d -> point_ok o ->
  render bb DefaultOnly (image_calls (Model.Imageraw.image_draw (Model.Imageraw.Img d o))) q =
  render bb Native (image_calls (Model.Imageraw.image_draw (Model.Imageraw.Img d o))) q.
Proof. exact image_default_native_target. Qed.

(* ---- Text: every area MonoFontDrawTarget / MonoTextStyle / Text::draw forwards to the target fits --------------- *)
Theorem C01_text_draw_string_calls_fit : forall FF s text pos b,
  Proofs.Fontmodel.font_ok (Model.Fontmodel.mf_geom FF) ->
  Proofs.Fontmodel.draw_ok (Model.Fontmodel.mf_geom FF) pos (length text) ->
  Forall call_fits (text_calls (fst (Model.Fontmodel.draw_string FF s text pos b))).
Proof. exact draw_string_calls_fit. Qed.

Theorem C01_text_calls_fit : forall FF s ts pos text,
  Proofs.Fontmodel.font_ok (Model.Fontmodel.mf_geom FF) -> Proofs.Textbox.text_in_range FF s ts pos text ->
  Forall call_fits (text_calls (fst (Model.Textmodel.text_draw FF s ts pos text))).
Proof. exact text_calls_fit. Qed.

(* the text model's unbounded-canvas pixel map = the target model inside the box, draw_iter-only target: no hypothesis *)
Theorem C01_text_render_default : forall bb l p,
  render bb DefaultOnly (text_calls l) p = if contains bb p then Model.Fontmodel.render l p else None.
Proof. exact text_render_default. Qed.

Theorem C01_text_render_target : forall FF s ts pos text bb k p,
  Proofs.Fontmodel.font_ok (Model.Fontmodel.mf_geom FF) -> Proofs.Textbox.text_in_range FF s ts pos text -> rect_fits bb ->
  render bb k (text_calls (fst (Model.Textmodel.text_draw FF s ts pos text))) p =
  if contains bb p then Model.Fontmodel.render (fst (Model.Textmodel.text_draw FF s ts pos text)) p else None.
Proof. exact text_render_target. Qed.

Theorem C01_text_default_native : forall FF s ts pos text bb p,
  Proofs.Fontmodel.font_ok (Model.Fontmodel.mf_geom FF) -> Proofs.Textbox.text_in_range FF s ts pos text -> rect_fits bb ->
  render bb DefaultOnly (text_calls (fst (Model.Textmodel.text_draw FF s ts pos text))) p =
  render bb Native (text_calls (fst (Model.Textmodel.text_draw FF s ts pos text))) p.
Proof. exact text_default_native. Qed.

(* ---- non-vacuity ---- *)
Definition C01_tb_rr := Model.Rrect.RR (R (P (-3) 2) (S 12 9))
                          (Model.Rrect.CR (S 3 4) (S 20 1) (S 2 2) (S 0 5)).
Definition C01_tb_st := Style (Some 5) (Some 7) 2 Center Solid.
Definition C01_tb_bb := R (P 0 0) (S 6 20).
Definition C01_tb_font : Model.Fontmodel.mfont :=
  Model.Fontmodel.MFont (Model.Fontmodel.Font 8 6 4 3 1 2 (Model.Fontmodel.Deco 4 1) (Model.Fontmodel.Deco 1 1))
    (fun c => Model.Fontmodel.str_index [0; 97; 100] 1 c) (fun x y => Z.even (x + y)).
Definition C01_tb_text_calls :=
  text_calls (fst (Model.Fontmodel.draw_string C01_tb_font
     (Model.Fontmodel.CStyle (Some 7) (Some 9) Model.Fontmodel.DTextColor Model.Fontmodel.DNone) [99; 120] (P 10 20) Model.Fontmodel.BTop)).

Example C01_targets_bridge_example :
  render C01_tb_bb Native (rr_fill_calls (Model.Rrect.rr_draw C01_tb_rr C01_tb_st)) (P 2 5) = Some 5
  /\ render C01_tb_bb DefaultOnly [DrawIter (Model.Rrect.rr_pixels C01_tb_rr C01_tb_st)] (P 0 2) = Some 7
  /\ render C01_tb_bb Native (rr_fill_calls (Model.Rrect.rr_draw C01_tb_rr C01_tb_st)) (P (-1) 5) = None
  /\ length C01_tb_text_calls = 4%nat
  /\ render (R (P 11 19) (S 5 9)) Native C01_tb_text_calls (P 11 20) = Some 7
  /\ render (R (P 11 19) (S 5 9)) DefaultOnly C01_tb_text_calls (P 10 20) = None.
Proof. split; [|split; [|split; [|split; [|split]]]]; vm_compute; reflexivity. Qed.
