(* C01 (b), triangle / polyline part - pixels() and draw() of Styled<Triangle> / Styled<Polyline> give one image.
   Statements only; proofs in Proofs/Tristyled.v.  Both methods consume the SAME scanline / segment generator; the
   theorems are about the two consumers (Model/Tristyled.v) for ANY list the generator may yield:
     tri_styled_pixels st lines       the items of StyledPixelsIterator (triangle/styled.rs:27-76), as a list
     tri_draw_styled st lines         the fill_solid calls of draw_styled (triangle/styled.rs:86-121)
     fill_writes (rect, c)            what fill_solid(rect, c) writes: c at every point of rect, row-major
     poly_scanlines raw               polyline::ScanlineIterator: the non-empty ones of the per-row intersections `raw`
     poly_styled_pixels_thick / poly_draw_styled_thick, poly_styled_pixels_thin / poly_draw_styled_thin
     sl_ok / tr_ok                    scanline / translate coordinates within +-2^28 (one-row Rectangle::points does not saturate)
   "Same list of writes" implies the same pixel map on every target that follows the fill_solid contract (C01 a). *)
From EG Require Import Base.Prelude Model.Geometry Model.Line Model.Style Model.Polyline Model.Triangle Model.Tristyled
  Proofs.Triangle Proofs.Tristyled.

(* The generator of the triangle is an UN-FUSED iterator and is modelled as such (Model/Tristyled.v gen_state / gen_next:
   when a row is used up exactly one further row is loaded; an empty row makes next() return None once, later calls go on).
   `rows` = what every row of the bounding box yields.  for_sequence rows = what the `for` loop of draw() sees (up to the
   first None); pixels_sequence rows = what StyledPixelsIterator sees (its new() swallows one None). *)

(* the step-by-step pixel iterator never runs out of fuel and yields the points of every scanline that has a colour,
   over the sequence pixels() sees, which is the `for` sequence unless the first two rows are both empty *)
Theorem C01_tri_triangle_pixels_spec : forall st rows,
  tri_styled_pixels st rows =
  flat_map (fun lk => match (match snd lk with PTStroke => effective_stroke_color st | PTFill => fill_color st end) with
                      | Some c => map (fun p => (p, c)) (sl_points (fst lk))
                      | None => []
                      end)
           (match rows with [] :: [] :: rest => gen_go rest | _ => for_sequence rows end).
Proof. intros st rows. rewrite tri_styled_pixels_spec, pixels_sequence_unfold. reflexivity. Qed.

(* triangle_glue_pixels_draw: draw() writes exactly the items of pixels(), in the same order, whatever the rows of the generator
   yield (stroke and fill scanlines, empty scanlines, colourless scanlines, transparent styles included), provided
   first_rows_ok rows := not (the first two rows yield nothing while a later row yields something).
   That proviso is a property of the GENERATOR (the first row of the styled bounding box contains a scanline); it is proved
   for stroke width 0 below and is the remaining obligation for stroked triangles (PARTIAL, see props/C01_tri.py). *)
Theorem C01_tri_triangle_glue_pixels_draw : forall st rows,
  Forall (Forall (fun lk => sl_ok (fst lk))) rows -> first_rows_ok rows ->
  flat_map fill_writes (tri_draw_styled st (for_sequence rows)) = tri_styled_pixels st rows.
Proof. exact tri_glue_pixels_draw. Qed.

(* without the proviso: the two consumers agree on any common sequence *)
Theorem C01_tri_triangle_consumers_agree : forall st lines,
  Forall (fun lk => sl_ok (fst lk)) lines ->
  flat_map fill_writes (tri_draw_styled st lines) =
  flat_map (fun lk => match (match snd lk with PTStroke => effective_stroke_color st | PTFill => fill_color st end) with
                      | Some c => map (fun p => (p, c)) (sl_points (fst lk))
                      | None => []
                      end) lines.
Proof. exact tri_draw_writes. Qed.

(* ... and with the generator of a triangle with stroke width 0 (Model/Triangle.v tri_scanlines) put in *)
Theorem C01_tri_triangle_w0_pixels_draw : forall st t, tri_ok t ->
  flat_map fill_writes (tri_draw_styled_w0 st t) = tri_styled_pixels_w0 st t.
Proof. exact tri_w0_pixels_draw. Qed.

(* polyline_glue_pixels_draw, stroke width > 1: for ANY output `raw` of the per-row intersections *)
Theorem C01_tri_polyline_glue_pixels_draw : forall st tr raw,
  1 < stroke_width st -> tr_ok tr -> Forall sl_ok raw ->
  flat_map fill_writes (poly_draw_styled_thick st tr (poly_scanlines raw)) =
  poly_styled_pixels_thick st tr (poly_scanlines raw).
Proof. exact poly_glue_pixels_draw_thick. Qed.

(* stroke width 0 and 1: the single draw_iter of draw() carries exactly the items of pixels() *)
Theorem C01_tri_polyline_thin_pixels_draw : forall st pl, 0 <= stroke_width st <= 1 ->
  poly_draw_styled_thin st pl = poly_styled_pixels_thin st pl.
Proof. exact poly_glue_pixels_draw_thin. Qed.

(* non-vacuity: a fill scanline, an empty one, a stroke scanline without stroke colour, a stroke scanline *)
Example C01_tri_example :
  let st := Style (Some 7) (Some 9) 2 Center Solid in
  let rows := [[(SL 0 1 3, PTFill); (SL 0 4 5, PTStroke)]; [(SL 1 0 0, PTStroke)]; [(SL 2 5 6, PTStroke)]; []; [(SL 4 0 1, PTFill)]] in
  tri_styled_pixels st rows = [(P 1 0, 7); (P 2 0, 7); (P 4 0, 9); (P 5 2, 9)] /\
  tri_draw_styled st (for_sequence rows) = [(R (P 1 0) (S 2 1), 7); (R (P 4 0) (S 1 1), 9); (R (P 5 2) (S 1 1), 9)] /\
  tri_styled_pixels (Style (Some 7) None 2 Center Solid) rows = [(P 1 0, 7); (P 2 0, 7)] /\
  (* the un-fused protocol: two empty first rows end the `for` loop, not pixels() *)
  for_sequence [[]; []; [(SL 2 0 1, PTFill)]] = [] /\ tri_styled_pixels st [[]; []; [(SL 2 0 1, PTFill)]] = [(P 0 2, 7)].
Proof. cbv zeta. repeat split; vm_compute; reflexivity. Qed.
