(* C02, families rectangle / circle / ellipse: everything a styled shape draws lies in its styled bounding box;
   transparent styles draw nothing.  Statements only; proofs in Proofs/Circleparts.v. *)
From EG Require Import Base.Prelude Model.Geometry Model.Style Model.Circle Model.Ellipse Model.Styledrect
  Proofs.Geometry Proofs.Scanline Proofs.Circle Proofs.Ellipse Proofs.Circlestyled Proofs.Ellipsestyled Proofs.Styledrect
  Proofs.Circleparts.

(* the styled bounding box is the bounding box of the stroke area (same offset on both sides) *)
Theorem C02_circle_circle_stroke_area_bbox : forall c st, circle_bbox (circle_stroke_area c st) = circle_styled_bbox c st.
Proof. exact circle_stroke_area_bbox. Qed.
Theorem C02_circle_ellipse_stroke_area_bbox : forall e st, ellipse_bbox (ellipse_stroke_area e st) = ellipse_styled_bbox e st.
Proof. exact ellipse_stroke_area_bbox. Qed.
Theorem C02_circle_rect_stroke_area_bbox : forall r st, rect_bbox (rect_stroke_area r st) = rect_styled_bbox r st.
Proof. exact rect_stroke_area_bbox. Qed.

Theorem C02_circle_circle_drawn_in_bbox : forall c st p,
  circle_sok c -> style_ok st ->
  render (circle_draw_styled c st) p <> None -> contains (circle_styled_bbox c st) p = true.
Proof. exact circle_drawn_in_bbox. Qed.

Theorem C02_circle_ellipse_drawn_in_bbox : forall e st p,
  ellipse_sok e -> style_ok st ->
  render (ellipse_draw_styled e st) p <> None -> contains (ellipse_styled_bbox e st) p = true.
Proof. exact ellipse_drawn_in_bbox. Qed.

Theorem C02_circle_rect_drawn_in_bbox : forall r st p,
  rect_sok r -> style_ok st -> stroke_kind st = Solid ->
  render (rect_draw_styled r st) p <> None -> contains (rect_styled_bbox r st) p = true.
Proof. exact rect_drawn_in_bbox. Qed.

Theorem C02_circle_circle_pixels_in_bbox : forall c st p col,
  circle_sok c -> style_ok st -> In (p, col) (circle_styled_pixels c st) -> contains (circle_styled_bbox c st) p = true.
Proof. exact circle_pixels_in_bbox. Qed.

Theorem C02_circle_ellipse_pixels_in_bbox : forall e st p col,
  ellipse_sok e -> style_ok st -> In (p, col) (ellipse_styled_pixels e st) -> contains (ellipse_styled_bbox e st) p = true.
Proof. exact ellipse_pixels_in_bbox. Qed.

Theorem C02_circle_rect_pixels_in_bbox : forall r st p col,
  rect_sok r -> style_ok st -> stroke_kind st = Solid ->
  In (p, col) (rect_styled_pixels r st) -> contains (rect_styled_bbox r st) p = true.
Proof. exact rect_pixels_in_bbox. Qed.

(* transparent styles (no fill colour, and no stroke colour or stroke width 0): no call, no pixel *)
Theorem C02_circle_circle_transparent : forall c st, is_transparent st = true -> circle_draw_styled c st = [].
Proof. exact circle_transparent. Qed.
Theorem C02_circle_ellipse_transparent : forall e st, is_transparent st = true -> ellipse_draw_styled e st = [].
Proof. exact ellipse_transparent. Qed.
Theorem C02_circle_rect_transparent : forall r st, is_transparent st = true -> rect_draw_styled r st = [].
Proof. exact rect_transparent. Qed.
Theorem C02_circle_circle_pixels_transparent : forall c st,
  circle_sok c -> style_ok st -> is_transparent st = true -> circle_styled_pixels c st = [].
Proof. exact circle_pixels_transparent. Qed.
Theorem C02_circle_ellipse_pixels_transparent : forall e st,
  ellipse_sok e -> style_ok st -> is_transparent st = true -> ellipse_styled_pixels e st = [].
Proof. exact ellipse_pixels_transparent. Qed.
Theorem C02_circle_rect_pixels_transparent : forall r st, is_transparent st = true -> rect_styled_pixels r st = [].
Proof. exact rect_pixels_transparent. Qed.

Example C02_circle_example :
  let e := Ell (P (-3) 2) (S 4 7) in let st := Style None (Some 1) 5 Outside Solid in
  ellipse_sok e /\ style_ok st /\ ellipse_styled_bbox e st = R (P (-8) (-3)) (S 14 17) /\
  render (ellipse_draw_styled e st) (P (-8) 5) = Some 1 /\ contains (ellipse_styled_bbox e st) (P (-8) 5) = true.
Proof. cbv zeta. unfold ellipse_sok, point_sok, size_sok, style_ok, sbound. cbn [e_tl e_sz px py sw sh stroke_width]. repeat split; try lia; reflexivity. Qed.
