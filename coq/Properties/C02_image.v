(* C02, image part - everything Image / SubImage draw lies inside bounding_box().
   Statements only; proofs in Proofs/Imagecross.v (on top of the C09 theorems of Proofs/Imageraw.v).
   d_wf d: an ImageRaw accepted by ImageRaw::new (extents <= 2^29) or any chain of sub_image calls on one;
   render bb calls q: the colour the calls leave at q on a target with bounding box bb (None = untouched). *)
From EG Require Import Base.Prelude Model.Geometry Proofs.Geometry Model.Imageraw Proofs.Imageraw Proofs.Imagecross.

(* call level: the only call is a fill_contiguous whose area IS the bounding box *)
Theorem C02_image_calls_in_bbox : forall d o,
  d_wf d -> Forall (fun c => call_area c = image_box (Img d o)) (image_draw (Img d o)).
Proof. exact image_calls_in_bbox. Qed.

(* pixel level: whatever ends up on the target lies in the bounding box (and in the target) *)
Theorem C02_image_drawn_in_bbox : forall d o bb q,
  d_wf d -> point_ok o ->
  render bb (image_draw (Img d o)) q <> None ->
  contains (image_box (Img d o)) q = true /\ contains bb q = true.
Proof. exact image_drawn_in_bbox. Qed.

(* the box is tight: every point of it that the target has is drawn *)
Theorem C02_image_bbox_tight : forall d o bb q,
  d_wf d -> point_ok o ->
  contains (image_box (Img d o)) q = true -> contains bb q = true ->
  render bb (image_draw (Img d o)) q <> None.
Proof. exact image_bbox_tight. Qed.

Example C02_image_nonvacuous :
  let img := IR [160; 64] (S 3 2) 1 false in
  let d := sub_image (Raw img) (R (P 1 0) (S 5 2)) in
  d_wf d /\ image_box (Img d (P 5 5)) = R (P 5 5) (S 2 2) /\
  render (R (P 0 0) (S 9 9)) (image_draw (Img d (P 5 5))) (P 6 6) = Some 0 /\
  render (R (P 0 0) (S 9 9)) (image_draw (Img d (P 5 5))) (P 7 6) = None.
Proof.
  cbv zeta. split.
  - apply sub_image_wf; [|unfold size_nonneg; cbn; lia].
    unfold d_wf, img_ok, bpp_ok, size_ok, bound. cbn. repeat split; try lia; tauto.
  - vm_compute. repeat split; reflexivity.
Qed.
