(* C02 - Bounding boxes contain everything drawn; part: thick strokes of polylines and triangles.
   The styled bounding box of a thick polyline / stroked triangle is `segments_bounding_box` of the thick
   segments (polyline/styled.rs:16-41 over ThickSegmentIter, triangle/styled.rs:128-157 over
   ClosedThickSegmentIter).  Statements only; proofs are in Proofs/Join.v.  No range hypothesis is needed.

   Known finding K02_thick_skeleton_bbox (FINDINGS-C02-join.md): a segment of a stroke wider than 1 px whose start
   join has coinciding corners is taken for a skeleton; it is then DRAWN along its right edge but BOXED by its left
   edge.  The class predicate is `K02_thick_skeleton_bbox segs = existsb is_skeleton segs`. *)
From EG Require Import Base.Prelude Model.Geometry Model.Line Model.Thickline Model.Join Proofs.Join.
Set Default Timeout 60.

(* every corner of every segment that is not a skeleton, and the left edge of every skeleton, lies in the box *)
Theorem C02_join_bbox_contains_segment_corners : forall segs seg p, In seg segs ->
  (is_skeleton seg = false /\ seg_corner seg p) \/ (is_skeleton seg = true /\ seg_left_corner seg p) ->
  contains (segments_bounding_box segs) p = true.
Proof. exact segments_bounding_box_contains. Qed.

(* outside the class of the known finding: all four corners of all segments *)
Theorem C02_join_bbox_contains_all_corners : forall segs seg p,
  K02_thick_skeleton_bbox segs = false -> In seg segs -> seg_corner seg p ->
  contains (segments_bounding_box segs) p = true.
Proof. exact segments_bounding_box_contains_all. Qed.

(* ... instantiated for the styled bounding box of a thick polyline *)
Theorem C02_join_polyline_bbox_contains_corners : forall pts w segs bb seg p,
  thick_segment_iter pts w = Some segs -> poly_thick_bounding_box pts w = Some bb ->
  K02_thick_skeleton_bbox segs = false -> In seg segs -> seg_corner seg p ->
  contains bb p = true.
Proof.
  intros pts w segs bb seg p T B K I C. unfold poly_thick_bounding_box in B. rewrite T in B.
  injection B as <-. exact (segments_bounding_box_contains_all segs seg p K I C).
Qed.

(* the finding is machine checked: in the class, the property fails.  Polyline [(-7,-7),(-9,-10),(-3,-21)], stroke 2:
   the second segment is a skeleton, its right edge (the one that is drawn) ends in (-3,-21), the box stops at x = -4 *)
Theorem C02_join_skeleton_bbox_refuted :
  exists pts w segs seg p,
    thick_segment_iter pts w = Some segs /\ K02_thick_skeleton_bbox segs = true /\ In seg segs /\ seg_corner seg p /\
    In p (match poly_thick_points pts (P 0 0) w with Some l => l | None => [] end) /\
    contains (segments_bounding_box segs) p = false.
Proof.
  exists [P (-7) (-7); P (-9) (-10); P (-3) (-21)], 2.
  eexists. eexists. exists (P (-3) (-21)).
  split; [vm_compute; reflexivity|].
  split; [vm_compute; reflexivity|].
  split; [right; left; reflexivity|].
  split; [right; left; reflexivity|].
  split; [vm_compute; tauto|].
  vm_compute; reflexivity.
Qed.

(* non-vacuity: a polyline outside the class whose box is not trivial *)
Example C02_join_nonvacuous :
  let pts := [P 0 0; P 10 0; P 10 10] in
  match thick_segment_iter pts 4 with
  | Some segs => K02_thick_skeleton_bbox segs = false /\ length segs = 2%nat /\
                 segments_bounding_box segs = R (P 0 (-2)) (S 13 13)
  | None => False
  end.
Proof. vm_compute. repeat split; reflexivity. Qed.
