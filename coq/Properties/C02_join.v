(* C02 - Bounding boxes contain everything drawn; part: thick strokes of polylines and triangles.
   The styled bounding box of a thick polyline / stroked triangle is `segments_bounding_box` of the thick
   segments (polyline/styled.rs:16-41 over ThickSegmentIter, triangle/styled.rs:128-157 over
   ClosedThickSegmentIter).  Statements only; proofs are in Proofs/Join.v.  No range hypothesis is needed.

   History: until /repo 3241194 a segment of a stroke wider than 1 px whose start join has coinciding corners
   (ThickSegment::is_skeleton) was DRAWN along its right edge but BOXED by its left edge, and a drawn pixel could lie
   outside the box (finding K02_thick_skeleton_bbox, FINDINGS-C02-join.md; found by the search p_thick_bbox).  The model
   follows the repaired code; the formerly failing input is part of the non-vacuity example below. *)
From EG Require Import Base.Prelude Model.Geometry Model.Style Model.Line Model.Thickline Model.Join Model.JoinTri.
From EG Require Import Proofs.Join Proofs.JoinTri Proofs.JoinHull Proofs.JoinDraw Proofs.JoinTriDraw.
From EG Require Proofs.JoinTriFill Proofs.JoinOutlineAny Proofs.JoinW1Fill Proofs.JoinW1All Proofs.JoinRange.
Set Default Timeout 60.

(* every corner of every segment that is not a skeleton, and the drawn (right) edge of every skeleton, lies in the box *)
Theorem C02_join_bbox_contains_segment_corners : forall segs seg p, In seg segs ->
  (is_skeleton seg = false /\ seg_corner seg p) \/ (is_skeleton seg = true /\ seg_drawn_corner seg p) ->
  contains (segments_bounding_box segs) p = true.
Proof. exact segments_bounding_box_contains. Qed.

(* in particular the end points of the edge a skeleton is drawn along are inside the box, for every segment *)
Theorem C02_join_bbox_contains_drawn_edge : forall segs seg p, In seg segs -> seg_drawn_corner seg p ->
  contains (segments_bounding_box segs) p = true.
Proof. exact segments_bounding_box_contains_drawn. Qed.

(* ... instantiated for the styled bounding box of a thick polyline *)
Theorem C02_join_polyline_bbox_contains_corners : forall pts w segs bb seg p,
  thick_segment_iter pts w = Some segs -> poly_thick_bounding_box pts w = Some bb -> In seg segs ->
  (is_skeleton seg = false /\ seg_corner seg p) \/ (is_skeleton seg = true /\ seg_drawn_corner seg p) ->
  contains bb p = true.
Proof.
  intros pts w segs bb seg p T B I C. unfold poly_thick_bounding_box in B. rewrite T in B.
  injection B as <-. exact (segments_bounding_box_contains segs seg p I C).
Qed.

(* pixel level: every point of every scanline of a thick polyline - i.e. every item of pixels() and every point of every
   fill_solid rectangle of draw(), before the translate field is added to pixels and box alike - lies in the styled
   bounding box.  Hypotheses: no segment is taken for a skeleton (existsb is_skeleton segs = false; about 1 in 3000 random
   width-2 polylines has one: then the box covers only the drawn edge of that segment and the proof would need the filler
   line of the neighbouring join to stay inside it - searched by p_thick_bbox, no counterexample); corners within +-2^29. *)
Theorem C02_join_polyline_drawn_in_bbox_partial : forall pts w segs ls s p,
  thick_segment_iter pts w = Some segs -> existsb is_skeleton segs = false -> Forall seg_ok segs ->
  poly_scanlines pts w = Some ls -> In s ls -> In p (sl_points s) ->
  contains (segments_bounding_box segs) p = true.
Proof. exact poly_drawn_in_bbox. Qed.

(* stroked triangles, Center / Outside alignment, width >= 2 (the cases in which the styled bounding box is the box of the
   thick segments): every point of every STROKE line of every row - the stroke pixels of pixels() and draw() - lies in the
   styled bounding box.  Not covered: the fill lines (rows without stroke intersections take Triangle::scanline_intersection,
   whose relation to the box of the stroke is not proved), Inside alignment and widths < 2 (box = Triangle::bounding_box),
   skeleton segments. *)
Theorem C02_join_triangle_stroke_in_bbox_partial : forall t w al hf segs rs row s p, al <> Inside -> 2 <= w ->
  tri_segs (jt_sorted_clockwise t) w (so_of_alignment al) = Some segs ->
  existsb is_skeleton segs = false -> Forall seg_ok segs ->
  jt_rows t w al hf = Some rs -> In row rs -> In (s, PStroke) row -> In p (sl_points s) ->
  contains (segments_bounding_box segs) p = true.
Proof. exact tri_stroke_in_bbox. Qed.

(* triangles whose styled bounding box is Triangle::bounding_box:
   (a) stroke width 0 (the fill, every alignment) and the collapsed Inside stroke: every point of every line lies in it *)
Theorem C02_join_triangle_fill_like_in_bbox : forall t w al hf rs row lk p, tri_big t ->
  (w = 0 \/ exists c, jt_is_collapsed (jt_sorted_clockwise t) w (so_of_alignment al) = Some c /\
                      (0 <? w) && c && so_eqb (so_of_alignment al) SORight = true) ->
  jt_rows t w al hf = Some rs -> In row rs -> In lk row -> In p (sl_points (fst lk)) ->
  jt_styled_bounding_box t w al = Some (jt_bounding_box t) /\ contains (jt_bounding_box t) p = true.
Proof. exact Proofs.JoinTriFill.fill_like_in_bbox. Qed.

(* (b) stroke width 1, Center: the outline is the union of three Bresenham lines between vertices (C19_join_tri_outline_w1),
   which lie in the box of the vertices *)
Theorem C02_join_triangle_outline_w1_in_bbox : forall t p,
  let '(a, b, c) := jt_sorted_clockwise t in
  In p (line_points (L b c)) \/ In p (line_points (L c a)) \/ In p (line_points (L a b)) ->
  contains (jt_bounding_box t) p = true.
Proof. exact Proofs.JoinTriFill.outline_in_bbox. Qed.

(* (b') stroke width 1, EVERY alignment (Center, Outside; Inside unless Triangle::is_collapsed): every pixel of pixels() lies in
   the styled bounding box, which for width 1 is the box of the vertices (C19_join_tri_outline_w1_any) *)
Theorem C02_join_triangle_w1_any_drawn_in_bbox : forall t al px p, tri_big t -> Proofs.JoinOutlineAny.w1_outline_case t al ->
  jt_pixels t 1 al None = Some px -> In p (map fst px) ->
  jt_styled_bounding_box t 1 al = Some (jt_bounding_box t) /\ contains (jt_bounding_box t) p = true.
Proof. exact Proofs.JoinOutlineAny.tri_outline_w1_any_in_bbox. Qed.

(* (b'') stroke width 1 together with a fill colour, every alignment (Inside unless collapsed): the fill line of a row lies
   between two stroke scanlines of that row, so every pixel of pixels() is in the styled bounding box *)
Theorem C02_join_triangle_w1_fill_drawn_in_bbox : forall t al f px p, tri_big t -> Proofs.JoinOutlineAny.w1_outline_case t al ->
  jt_pixels t 1 al (Some f) = Some px -> In p (map fst px) ->
  jt_styled_bounding_box t 1 al = Some (jt_bounding_box t) /\ contains (jt_bounding_box t) p = true.
Proof. exact Proofs.JoinW1Fill.tri_w1_fill_in_bbox. Qed.

(* (b3) stroke width 1, EVERY triangle, every alignment, with or without a fill colour: every pixel of pixels() lies in the
   styled bounding box (Proofs/JoinW1All.v: proper triangles, triangles without area, collapsed Inside).  tri_big (+-2^29) is a
   statement about the unbounded model; the `_range` form below carries the machine range (V + 14 <= 8191) in which the i32
   arithmetic of is_collapsed / sorted_clockwise agrees with the model, and is the one the tie to the code is claimed for. *)
Theorem C02_join_triangle_w1_all_drawn_in_bbox : forall t al fill px p, tri_big t ->
  jt_pixels t 1 al fill = Some px -> In p (map fst px) ->
  jt_styled_bounding_box t 1 al = Some (jt_bounding_box t) /\ contains (jt_bounding_box t) p = true.
Proof. exact Proofs.JoinW1All.tri_w1_all_in_bbox. Qed.

Theorem C02_join_triangle_w1_all_drawn_in_bbox_range : forall V t al fill px p, Proofs.JoinRange.range_ok V 1 -> Proofs.JoinRange.tri_within V t ->
  jt_pixels t 1 al fill = Some px -> In p (map fst px) ->
  jt_styled_bounding_box t 1 al = Some (jt_bounding_box t) /\ contains (jt_bounding_box t) p = true.
Proof. exact Proofs.JoinW1All.tri_w1_all_in_bbox_range. Qed.

(* the geometric core: the scanline of a thick segment stays inside the x hull of the corners of its two joins *)
Theorem C02_join_thick_segment_scanline_in_hull : forall lo hi t y,
  join_xin lo hi (ts_start_join t) -> join_xin lo hi (ts_end_join t) ->
  xin lo hi (ts_intersection t y) /\ sl_y (ts_intersection t y) = y.
Proof. exact ts_intersection_xin. Qed.

(* non-vacuity: an ordinary polyline; and the input of the repaired finding, Polyline [(-7,-7),(-9,-10),(-3,-21)] with
   stroke 2: its second segment is a skeleton, the pixel (-3,-21) is drawn, and the box now contains it *)
Example C02_join_nonvacuous :
  (match thick_segment_iter [P 0 0; P 10 0; P 10 10] 4 with
   | Some segs => existsb is_skeleton segs = false /\ length segs = 2%nat /\
                  segments_bounding_box segs = R (P 0 (-2)) (S 13 13)
   | None => False
   end) /\
  (match thick_segment_iter [P (-7) (-7); P (-9) (-10); P (-3) (-21)] 2 with
   | Some segs => existsb is_skeleton segs = true /\
                  contains (segments_bounding_box segs) (P (-3) (-21)) = true /\
                  In (P (-3) (-21)) (match poly_thick_points [P (-7) (-7); P (-9) (-10); P (-3) (-21)] (P 0 0) 2 with
                                     | Some l => l | None => [] end)
   | None => False
   end).
Proof. vm_compute. repeat split; try reflexivity; tauto. Qed.
