(* Property C02 (bounding boxes contain everything drawn; transparent draws nothing), line part.
   Statements only; proofs in Proofs/ThicklineBox.v, Proofs/ThicklineBoxGrid.v, Proofs/Thickline.v.
   line_bbox l = Rectangle::with_corners(start, end) (Line::bounding_box, mod.rs:71-75);
   styled_line_bounding_box = StyledDimensions::styled_bounding_box (styled.rs:72-88), built from Line::extents. *)
From EG Require Import Base.Prelude Model.Geometry Model.Style Model.Line Model.Thickline
                       Proofs.Line Proofs.Thickline Proofs.ThicklineBox Proofs.ThicklineBoxGrid.

(* every point of Line::points() lies in Line::bounding_box() -- all lines *)
Theorem C02_line_points_in_bbox : forall l p, In p (line_points l) -> contains (line_bbox l) p = true.
Proof. exact line_points_in_bbox. Qed.

(* stroke width 0 or 1: the styled bounding box is the bounding box of the primitive ... *)
Theorem C02_line_styled_bbox_thin : forall l st,
  0 <= stroke_width st <= 1 -> styled_line_bounding_box l st = Some (line_bbox l).
Proof. exact styled_bbox_thin. Qed.

(* ... and contains every pixel Styled<Line>::pixels() yields (hence everything draw() paints: draw_styled is
   target.draw_iter(pixels), styled.rs:56-69) -- all lines *)
Theorem C02_line_styled_thin_in_bbox : forall l st pcs r pc,
  0 <= stroke_width st <= 1 ->
  styled_line_pixels l st = Some pcs -> styled_line_bounding_box l st = Some r ->
  In pc pcs -> contains r (fst pc) = true.
Proof. exact styled_thin_in_bbox. Qed.

(* a transparent style (no stroke colour, or stroke width 0; lines have no fill) draws nothing -- all lines *)
Theorem C02_line_transparent_draws_nothing : forall l st,
  stroke_color st = None \/ stroke_width st = 0 -> styled_line_pixels l st = Some [].
Proof. exact styled_no_stroke. Qed.

(* wider strokes: the box computed from `extents` contains every pixel, for every line with |dx|,|dy| <= 24
   anywhere in the plane and widths 0..16 (by computation + translation invariance).
   thick_in_box l w := exists ps r, thick_points l w = Some ps /\
                        (forall st, stroke_width st = w -> styled_line_bounding_box l st = Some r) /\
                        forall p, In p ps -> contains r p = true.
   `_partial`: OPEN for arbitrary lines and widths (see Proofs/ThicklineBox.v); searched on the implementation
   by p_line_bbox (props/C02_line.py) and by the zoo-based p_bbox of props/C02.py. *)
Theorem C02_line_thick_in_bbox_grid_partial : forall l w,
  -24 <= ldx l <= 24 -> -24 <= ldy l <= 24 -> 0 <= w <= 16 -> thick_in_box l w.
Proof. exact thick_in_box_grid. Qed.

Example C02_line_example :
  styled_line_bounding_box (L (P 0 0) (P 5 2)) (Style None (Some 1) 3 Center Solid) = Some (R (P 0 (-1)) (S 6 5)) /\
  line_bbox (L (P 4 7) (P (-1) 2)) = R (P (-1) 2) (S 6 6).
Proof. split; vm_compute; reflexivity. Qed.
