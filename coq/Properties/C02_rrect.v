(* C02, RoundedRectangle part: everything drawn lies in the styled bounding box; transparent styles draw nothing.
   Statements only; proofs are in Proofs/Rrect.v. (No class exclusion needed.)  Domain styled_dom: see C06_rrect.v. *)
From EG Require Import Base.Prelude Model.Geometry Model.Style Model.Rrect Proofs.Geometry Proofs.Curvefacts Proofs.Rrect Proofs.Rrect2.

Theorem C02_rrect_drawn_in_bbox : forall r st bb p,
  styled_dom r st -> rect_ok (rr_rect r) -> 0 <= stroke_width st <= bound ->
  pix_get (writes_of_calls bb (rr_draw r st)) p <> None -> contains (rr_styled_bounding_box r st) p = true.
Proof. intros; eapply rr_drawn_in_bbox; eauto using rr_dom_ok, styled_dom_ok. Qed.

Theorem C02_rrect_pixels_in_bbox : forall r st bb p,
  styled_dom r st ->
  pix_get (writes_of_pixels bb (rr_pixels r st)) p <> None -> contains (rr_styled_bounding_box r st) p = true.
Proof. intros; eapply rr_pixels_in_bbox; eauto using rr_dom_ok, styled_dom_ok. Qed.

Theorem C02_rrect_transparent_draws_nothing : forall r st,
  is_transparent st = true -> rr_draw r st = [].
Proof. intros; eapply rr_transparent_draw; eauto using rr_dom_ok, styled_dom_ok. Qed.

Theorem C02_rrect_transparent_pixels_nothing : forall r st bb p,
  styled_dom r st -> is_transparent st = true -> pix_get (writes_of_pixels bb (rr_pixels r st)) p = None.
Proof. intros; eapply rr_transparent_pixels; eauto using rr_dom_ok, styled_dom_ok. Qed.

Example C02_rrect_nonvacuous :
  let r := rr_with_equal_corners (R (P 2 3) (S 10 8)) (S 3 3) in
  let st := Style (Some 5) (Some 7) 4 Center Solid in
  styled_dom r st /\ rr_styled_bounding_box r st = R (P 0 1) (S 14 12) /\ length (rr_draw r st) = 20%nat.
Proof. cbv zeta. split; [split; apply rr_dom_b; vm_compute; reflexivity|]. vm_compute. repeat split; reflexivity. Qed.
