(* C02, sector + arc part: a styled sector / arc draws only inside its styled bounding box (the iterators
   visit nothing but the bounding box of the stroke-area circle, which IS the styled bounding box), and a
   transparent style draws nothing.  For ALL plane sectors and bevel lines (i.e. all angles).
   Statements only; proofs in Proofs/Sectorstyled.v.
   `se_styled_pixels` / `ar_styled_pixels` are the pixel sequences handed to `draw_iter` by draw_styled. *)
From EG Require Import Base.Prelude Model.Geometry Model.Style Model.Sectormodel Proofs.Geometry Proofs.Sectorstyled.
From Coq Require Import Sorting.Sorted.

Theorem C02_sector_drawn_in_bbox : forall s st bev p c,
  0 <= stroke_width st -> rect_ok (se_styled_bbox s st) ->
  In (p, c) (se_styled_pixels s st bev) -> contains (se_styled_bbox s st) p = true.
Proof. exact sector_drawn_in_bbox. Qed.

Theorem C02_arc_drawn_in_bbox : forall a st p c,
  0 <= stroke_width st -> rect_ok (ar_styled_bbox a st) ->
  In (p, c) (ar_styled_pixels a st) -> contains (ar_styled_bbox a st) p = true.
Proof. exact arc_drawn_in_bbox. Qed.

(* the bounding box of the stroke-area circle the iterators scan is the styled bounding box *)
Theorem C02_sector_stroke_area_bbox : forall s st,
  0 <= stroke_width st ->
  sc_bbox (se_to_circle (se_offset s (stroke_area_offset st))) = se_styled_bbox s st.
Proof. exact se_stroke_area_bbox. Qed.

Theorem C02_sector_transparent : forall s st bev, is_transparent st = true -> se_styled_pixels s st bev = [].
Proof. exact sector_transparent. Qed.

Theorem C02_arc_transparent : forall a st, is_transparent st = true -> ar_styled_pixels a st = [].
Proof. exact arc_transparent. Qed.

(* the pixel sequences handed to draw_iter are strictly increasing in (y, x): no pixel is written twice, so the
   image does not depend on the order in which a target applies them *)
Theorem C02_sector_pixels_row_major_once : forall s st bev,
  0 <= stroke_width st -> rect_ok (se_styled_bbox s st) ->
  StronglySorted lt_yx (map fst (se_styled_pixels s st bev)).
Proof. exact sector_styled_sorted. Qed.

Theorem C02_arc_pixels_row_major_once : forall a st,
  0 <= stroke_width st -> rect_ok (ar_styled_bbox a st) ->
  StronglySorted lt_yx (map fst (ar_styled_pixels a st)).
Proof. exact arc_styled_sorted. Qed.

(* non-vacuity: the `tiny_sector` of sector/styled.rs draws 20 stroke pixels, all inside its box *)
Example C02_sector_example :
  let s := Sec (P 0 0) 9 (PS (P 511 887) (P 512 (-887)) OpIntersection) in
  let st := Style None (Some 1) 1 Center Solid in
  length (se_styled_pixels s st None) = 20%nat /\ se_styled_bbox s st = R (P 0 0) (S 9 9) /\
  forallb (fun pc => contains (se_styled_bbox s st) (fst pc)) (se_styled_pixels s st None) = true.
Proof. vm_compute. repeat split. Qed.
