(* C02, translator tie: styled_bounding_box of Circle, Ellipse, Rectangle and RoundedRectangle
   (src/primitives/{circle,ellipse,rectangle,rounded_rectangle}/styled.rs), regenerated from the source on every run by
   translate/r2c (coq/Gen/SrcStyledBox.v), equal the models' styled boxes (Model/Circle.v, Ellipse.v, Styledrect.v,
   Rrect.v) for extents that are values of u32 and non-negative stroke widths.  The styled boxes of Line, Triangle and
   Polyline go through Line::extents / thick segment iterators (loops over iterators) and are not translated.
   Statements only (proofs: Proofs/SrcStyledBox.v). *)
From EG Require Import Base.Prelude Base.Casts Model.Geometry Model.Style Model.Circle Model.Ellipse Model.Styledrect Model.Rrect.
From EG Require Import Gen.SrcGeometry Gen.SrcStyledBox Proofs.SrcGeometry Proofs.SrcStyledBox.

Theorem C02_src_circle_styled_box_is_model : forall c st,
  0 <= c_d c <= u32_max -> 0 <= stroke_width st -> src_Circle_styled_bounding_box c st = circle_styled_bbox c st.
Proof. exact src_circle_styled_bbox_eq. Qed.
Theorem C02_src_ellipse_styled_box_is_model : forall e st,
  size_u32 (e_sz e) -> 0 <= stroke_width st -> src_Ellipse_styled_bounding_box e st = ellipse_styled_bbox e st.
Proof. exact src_ellipse_styled_bbox_eq. Qed.
Theorem C02_src_rectangle_styled_box_is_model : forall r st,
  size_u32 (sz r) -> 0 <= stroke_width st -> src_Rectangle_styled_bounding_box r st = rect_styled_bbox r st.
Proof. exact src_rect_styled_bbox_eq. Qed.
Theorem C02_src_rounded_rectangle_styled_box_is_model : forall r st,
  size_u32 (sz (rr_rect r)) -> 0 <= stroke_width st ->
  src_RoundedRectangle_styled_bounding_box r st = rr_styled_bounding_box r st.
Proof. exact src_rr_styled_bbox_eq. Qed.

Example C02_src_nonvacuous :
  src_Circle_styled_bounding_box (Circ (P 10 10) 5) (Style None (Some 1) 4 Center Solid) = R (P 8 8) (S 9 9).
Proof. vm_compute. reflexivity. Qed.
