(* C02, translator tie (line): Line::styled_bounding_box (src/primitives/line/styled.rs), regenerated from the source on
   every run by translate/r2c (coq/Gen/SrcLineJoin2.v), answers what Model/Thickline.v styled_line_bounding_box answers,
   for every fuel above the number of parallels.  Statement only (proof: Proofs/SrcLineJoin2.v). *)
From EG Require Import Base.Prelude Base.Casts Model.Geometry Model.Style Model.Line Model.Thickline.
From EG Require Import Gen.SrcGeometry Gen.SrcLineJoin2 Proofs.SrcLineJoin2.

Theorem C02_src_line_styled_box_is_model : forall l st r F,
  styled_line_bounding_box l st = Some r -> ext_fuel l (stroke_width st) F -> src_Line_styled_bounding_box F l st = Some r.
Proof. exact src_line_styled_bbox_eq. Qed.

Example C02_src_line_nonvacuous :
  src_Line_styled_bounding_box 40 (L (P 0 0) (P 10 0)) (Style None (Some 1) 3 Center Solid) = Some (R (P 0 (-1)) (S 11 3)).
Proof. vm_compute. reflexivity. Qed.
