(* C02, translator tie (styled bounding boxes of Triangle and Polyline): Triangle::styled_bounding_box
   (src/primitives/triangle/styled.rs), polyline::styled::untranslated_bounding_box, Polyline::styled_bounding_box
   (src/primitives/polyline/styled.rs) and Polyline::bounding_box (polyline/mod.rs), regenerated from the source on every run by
   translate/r2c (coq/Gen/SrcStyledBox2.v).  `<segment iterator>.fold(..)` is a fuelled driver over the generated `next`
   of the thick segment iterators (tied by C07_src_segiter.v), `slice.iter().map(..).fold(..)` a List.fold_left.
   Whenever the model yields a box (JoinTri.jt_styled_bounding_box, Join.poly_thick_bounding_box), the fuel F covers the
   extents of the lines between the points and the number of segments, and the edge boxes of the segments have i32 sizes
   (box_i32), the generated functions yield the same box.  Polyline::bounding_box equals Polyline.polyline_bounding_box
   unconditionally.  Statements only (proofs: Proofs/SrcStyledBox2.v). *)
From EG Require Import Base.Prelude Base.Casts Model.Geometry Model.Rrect Model.Style Model.Line Model.Thickline Model.Join Model.JoinTri Model.Polyline.
From EG Require Import Gen.SrcGeometry Gen.SrcStyle Gen.SrcCircle Gen.SrcJoin Gen.SrcLine Gen.SrcThick Gen.SrcTriangle Gen.SrcLineJoin Gen.SrcLineJoin2 Gen.SrcSegIter Gen.SrcRrect Gen.SrcRrect2 Gen.SrcTraitCopies Gen.SrcStyledBox2.
From EG Require Import Proofs.SrcSegIter Proofs.SrcStyledBox2.

Theorem C02_src_triangle_styled_box : forall F t st r,
  let w := stroke_width st in let al := stroke_alignment st in
  let '(a, b, c) := jt_sorted_clockwise t in
  jt_styled_bounding_box t w al = Some r ->
  fuel_ok [a; b; c] w F -> (8 <= F)%nat ->
  (forall segs, closed_thick_segment_iter [a; b; c] w (so_of_alignment al) = Some segs -> Forall box_i32 segs) ->
  src_Triangle_styled_bounding_box F (Build_Triangle t) st = Some r.
Proof. exact src_triangle_styled_bbox_eq. Qed.

Theorem C02_src_polyline_untranslated_box : forall F pl st c r,
  effective_stroke_color st = Some c -> (1 < length (Polyline_vertices pl))%nat ->
  poly_thick_bounding_box (Polyline_vertices pl) (stroke_width st) = Some r ->
  fuel_ok (Polyline_vertices pl) (stroke_width st) F -> (length (Polyline_vertices pl) + 2 <= F)%nat ->
  (forall segs, thick_segment_iter (Polyline_vertices pl) (stroke_width st) = Some segs -> Forall box_i32 segs) ->
  src_untranslated_bounding_box F pl st = Some r.
Proof. exact src_polyline_untranslated_bbox_eq. Qed.

Theorem C02_src_polyline_styled_box : forall F pl st c r,
  effective_stroke_color st = Some c -> (1 < length (Polyline_vertices pl))%nat ->
  poly_thick_bounding_box (Polyline_vertices pl) (stroke_width st) = Some r ->
  fuel_ok (Polyline_vertices pl) (stroke_width st) F -> (length (Polyline_vertices pl) + 2 <= F)%nat ->
  (forall segs, thick_segment_iter (Polyline_vertices pl) (stroke_width st) = Some segs -> Forall box_i32 segs) ->
  src_Polyline_styled_bounding_box F pl st = Some (translate_rect r (Polyline_translate pl)).
Proof. exact src_polyline_styled_bbox_eq. Qed.

Theorem C02_src_polyline_bounding_box_is_model : forall pl,
  src_Polyline_bounding_box pl = polyline_bounding_box (PL (Polyline_translate pl) (Polyline_vertices pl)).
Proof. exact src_polyline_bounding_box_eq. Qed.

Example C02_src_polytri_nonvacuous :
  src_Triangle_styled_bounding_box 60 (Build_Triangle (P 0 0, P 20 0, P 0 20)) (Style.Style None (Some 1) 4 Style.Outside Style.Solid)
    = jt_styled_bounding_box (P 0 0, P 20 0, P 0 20) 4 Style.Outside /\
  jt_styled_bounding_box (P 0 0, P 20 0, P 0 20) 4 Style.Outside <> None /\
  src_Polyline_styled_bounding_box 60 (Build_Polyline (P 5 5) [P 0 0; P 10 0; P 10 10]) (Style.Style None (Some 1) 3 Style.Center Style.Solid)
    = option_map (fun r => translate_rect r (P 5 5)) (poly_thick_bounding_box [P 0 0; P 10 0; P 10 10] 3).
Proof. split; [vm_compute; reflexivity|]. split; [vm_compute; discriminate|vm_compute; reflexivity]. Qed.
