(* C02 (text clause) - everything Text::draw draws lies inside Text::bounding_box(); a transparent
   character style draws nothing.  Statements only; proofs in Proofs/Textbox.v, Proofs/Textbuiltin.v.
   Vocabulary: see Properties/C14.v and C15.v.  text_ok f s ts pos text = every line that Text::lines yields is
   inside the coordinate range (draw_ok), its glyph indices fit MonoFont::glyph's arithmetic (index_ok, see C14) and it is advance_consistent (spacing 0, or a text/background colour set,
   or the line is empty); deco_inside f = strikethrough offset + height <= character height (part of font_wf);
   lines_in_range = the draw_ok part of text_ok (index_ok and spacing 0 are proved for the built-in fonts). *)
From EG Require Import Base.Prelude Model.Geometry Proofs.Geometry Model.Fontmodel Proofs.Fontmodel
  Model.Textmodel Proofs.Textmodel Proofs.Textbox Gen.FontTable Model.Fontbuiltin Proofs.Fontbuiltin Proofs.Textbuiltin.

(* one line: glyph cells, spacing fills and both decoration rectangles lie in the measure_string box *)
Theorem C02_text_line_drawn_in_measured_box : forall F s line p b q,
  font_ok (mf_geom F) -> deco_inside (mf_geom F) -> draw_ok (mf_geom F) p (length line) -> index_ok F line ->
  advance_consistent (mf_geom F) s line ->
  render (fst (draw_string F s line p b)) q <> None ->
  contains (fst (measure_string (mf_geom F) s line p b)) q = true.
Proof. exact line_drawn_in_box. Qed.

(* every font record with font_wf's geometry, every style, alignment, baseline, line height, string *)
Theorem C02_text_drawn_in_bbox : forall F s ts pos text q,
  font_ok (mf_geom F) -> deco_inside (mf_geom F) -> text_ok F s ts pos text ->
  render (fst (text_draw F s ts pos text)) q <> None ->
  contains (text_bbox (mf_geom F) s ts pos text) q = true.
Proof. exact text_drawn_in_bbox. Qed.

Theorem C02_text_font_wf_suffices : forall f, font_wf f -> font_ok f /\ deco_inside f.
Proof. exact font_wf_deco_inside. Qed.

(* every built-in font (any glyph data, any index function), by reflection over the regenerated table *)
Theorem C02_text_builtin_drawn_in_bbox : forall b atlas s ts pos text q,
  In b fonts ->
  let F := MFont (bf_font b) (builtin_index b) atlas in
  lines_in_range (bf_font b) s ts pos text ->
  render (fst (text_draw F s ts pos text)) q <> None ->
  contains (text_bbox (bf_font b) s ts pos text) q = true.
Proof. exact builtin_text_drawn_in_bbox. Qed.

(* a completely transparent style: no call reaches the target *)
Theorem C02_text_transparent_draws_nothing : forall F s ts pos text,
  cs_is_transparent s = true -> fst (text_draw F s ts pos text) = [].
Proof. exact text_transparent_draws_nothing. Qed.

(* NULL_FONT (default font of MonoTextStyleBuilder::new()): nothing is drawn, the box is the zero-sized rectangle at the position *)
Theorem C02_text_null_font_in_bbox : forall idx atlas s ts pos text q,
  render (fst (text_draw (MFont (bf_font null_font) idx atlas) s ts pos text)) q <> None ->
  contains (text_bbox (bf_font null_font) s ts pos text) q = true.
Proof. exact null_font_text_in_bbox. Qed.

Theorem C02_text_null_font_bbox : forall s ts pos text,
  text_bbox (bf_font null_font) s ts pos text = R pos (S 0 0).
Proof. exact null_font_bbox. Qed.

(* non-vacuity: an underlined, struck-through two-line text whose decorations reach the box edges *)
Example C02_text_example :
  let F := MFont (Font 8 6 4 3 1 2 (Deco 4 2) (Deco 1 2)) (fun c => str_index [0; 97; 100] 1 c) (fun x y => Z.even (x + y)) in
  let s := CStyle (Some 7) None (DCustom 5) DTextColor in
  let ts := TStyle ACenter BAlphabetic (LHPercent 200) in
  text_bbox (mf_geom F) s ts (P 10 20) [97; 98; 10; 99] = R (P 6 18) (S 9 12) /\
  map (render (fst (text_draw F s ts (P 10 20) [97; 98; 10; 99]))) [P 6 22; P 14 23; P 9 29; P 5 22; P 15 23] =
  [Some 5; Some 5; Some 5; None; None] /\
  font_ok (mf_geom F) /\ deco_inside (mf_geom F).
Proof. cbn zeta. unfold font_ok, deco_inside, half. cbn [mf_geom f_iw f_ih f_cw f_sp f_ch f_base f_ul f_st d_off d_h].
  repeat split; try lia; vm_compute; reflexivity. Qed.
