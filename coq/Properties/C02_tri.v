(* C02, triangle / polyline part - bounding boxes contain everything drawn; transparent draws nothing.
   Statements only; proofs in Proofs/Triangle.v, Proofs/Tristyled.v.  Proved for what does not go through the thick-stroke
   machinery (ThickSegment / LineJoin / edges_bounding_box): triangles with stroke width 0, the unstyled points, thin
   polylines against the styled box; thick strokes: Properties/C02_join.v and the search suites p_bbox, p_tri_styled. *)
From EG Require Import Base.Prelude Model.Geometry Model.Line Model.Style Model.Polyline Model.Triangle Model.Tristyled
  Proofs.Triangle Proofs.Tristyled Proofs.Tribridge.
From EG Require Model.Join.

(* transparent styles draw nothing, whatever the scanline generator yields *)
Theorem C02_tri_triangle_transparent : forall st rows, is_transparent st = true ->
  tri_draw_styled st (for_sequence rows) = [] /\ tri_styled_pixels st rows = [].
Proof. exact tri_transparent_draws_nothing. Qed.

Theorem C02_tri_polyline_transparent_thin : forall st pl, is_transparent st = true -> 0 <= stroke_width st <= 1 ->
  poly_styled_pixels_thin st pl = [] /\ poly_draw_styled_thin st pl = [].
Proof. exact poly_transparent_draws_nothing_thin. Qed.

Theorem C02_tri_polyline_transparent_thick : forall st tr lines, is_transparent st = true -> 1 < stroke_width st ->
  poly_styled_pixels_thick st tr lines = [] /\ poly_draw_styled_thick st tr lines = [].
Proof. exact poly_transparent_draws_nothing_thick. Qed.

(* Triangle::points() lies in Triangle::bounding_box() *)
Theorem C02_tri_points_in_bbox : forall t q, tri_ok t -> In q (tri_points t) -> contains (tri_bounding_box t) q = true.
Proof. exact points_in_bbox. Qed.

(* styled triangle with stroke width 0: everything pixels() yields (= everything draw() writes, C01_tri_triangle_w0_pixels_draw)
   lies in the styled bounding box (tri_styled_bbox_short = the `stroke_width < 2 || Inside` arm of styled_bounding_box) *)
Theorem C02_tri_triangle_w0_in_bbox : forall st t bb p c, tri_ok t -> stroke_width st = 0 ->
  tri_styled_bbox_short st t = Some bb -> In (p, c) (tri_styled_pixels_w0 st t) -> contains bb p = true.
Proof. exact tri_w0_in_bbox. Qed.

(* the Bresenham lines between the sorted vertices (the 1px outline is made of lines between vertices, compared by
   p_tri_outline) stay inside the bounding box *)
Theorem C02_tri_edge_lines_in_bbox : forall t p, In p (tri_fill_edges t) -> contains (tri_bounding_box t) p = true.
Proof. exact fill_edges_in_bbox. Qed.

(* thin polyline (stroke width <= 1): every pixel lies in the STYLED bounding box.  Styled<Polyline>::bounding_box() is
   untranslated_bounding_box(..).translate(self.translate) (polyline/styled.rs:16-41, 186-188): for a visible stroke and at least
   two vertices the box of the thick segments of the untranslated vertices (Model/Join.v poly_thick_bounding_box, built through
   ThickSegmentIter / LineJoin also for width 1), moved by the translate field.  pt_in_i32: vertex coordinates are i32.
   With width 1 every line join collapses to its middle vertex (Proofs/TriJoinW1.v), so the box contains every vertex. *)
Theorem C02_tri_polyline_thin_in_styled_bbox : forall st tr vs bb p c,
  0 <= stroke_width st <= 1 -> Forall (fun v => Join.pt_in_i32 v = true) vs ->
  Join.poly_thick_bounding_box vs (stroke_width st) = Some bb ->
  In (p, c) (poly_styled_pixels_thin st (PL tr vs)) -> contains (translate_rect bb tr) p = true.
Proof. exact poly_thin_in_styled_bbox. Qed.

(* ... and in the box of the unstyled primitive, Polyline::bounding_box() *)
Theorem C02_tri_polyline_thin_in_primitive_bbox : forall st pl p c,
  In (p, c) (poly_styled_pixels_thin st pl) -> contains (polyline_bounding_box pl) p = true.
Proof. exact poly_thin_in_bbox. Qed.

Example C02_tri_example :
  let t := T (P 0 0) (P 5 2) (P 1 4) in
  let st := Style (Some 7) None 0 Inside Solid in
  tri_ok t /\ tri_styled_bbox_short st t = Some (R (P 0 0) (S 6 5)) /\ length (tri_styled_pixels_w0 st t) = 16%nat /\
  is_transparent (Style None (Some 1) 0 Center Solid) = true.
Proof. cbv zeta. repeat split; try (vm_compute; reflexivity); unfold tpoint_ok, tbound; cbn; lia. Qed.
