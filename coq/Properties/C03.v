(* C03 - Clipped / cropped / translated / colour-converted targets and the DrawTarget trait defaults.
   Statements only; every proof is `exact <lemma>` from Proofs/Target.v.

   Vocabulary (Model/Target.v, Proofs/Target.v):
     paint bb k c m          the pixel map of a real parent target with bounding box bb after call c
                             (k = DefaultOnly: only draw_iter implemented, the trait defaults of
                             core/src/draw_target/mod.rs unfolded literally; k = Native: documented meaning)
     lower1c ad bb c         the call an adapter issues on its parent for call c (one for one)
     lower st bb c           the same through a whole stack (head = outermost adapter)
     free_paint own F c m    set-theoretic reference: call c on an unbounded canvas, every stored colour
                             mapped through F, Clear = fill of `own`
     geo_of st bb            box / visible set / offset / colour map obtained by composing the adapters'
                             geometric transformations
     rect_fits r             extents and far edges of r fit i32 (Rectangle::points does not saturate);
                             implied by rect_ok (|coordinates|, extents <= 2^29)
     size_fits s             0 <= w,h <= i32::MAX                                                      *)
From EG Require Import Base.Prelude Model.Geometry Model.Target Model.TargetOk Proofs.Geometry Proofs.Target Proofs.TargetOk.

(* ---- trait defaults: exactly the row-major points of the area paired with the colour stream ---------- *)
Theorem C03_default_fill_contiguous_spec : forall bb area cs m p,
  rect_fits area ->
  default_fill_contiguous bb area cs m p =
  (if contains area p && contains bb p
   then match sget cs (idx_in area p) with Some c => Some c | None => m p end
   else m p).
Proof. exact default_fill_contiguous_spec. Qed.

Theorem C03_default_fill_solid_spec : forall bb area c m p,
  rect_fits area ->
  default_fill_solid bb area c m p = (if contains area p && contains bb p then Some c else m p).
Proof. exact default_fill_solid_spec. Qed.

Theorem C03_default_clear_spec : forall bb c m p,
  rect_fits bb ->
  default_clear bb c m p = (if contains bb p then Some c else m p).
Proof. exact default_clear_spec. Qed.

(* both kinds of parent = the reference semantics restricted to the bounding box *)
Theorem C03_paint_is_reference_inside_box : forall bb k c m q,
  (k = DefaultOnly -> rect_fits bb /\ call_fits c) ->
  paint bb k c m q = if contains bb q then free_paint bb idc c m q else m q.
Proof. exact paint_root. Qed.

(* ContiguousIteratorExt::into_pixels (IntoPixels): the same pairing - the colour paired with point p is the one at its
   row-major index; it IS the iterator the default fill_contiguous hands to draw_iter; positions = a prefix of points() *)
Theorem C03_into_pixels_spec : forall area cs p,
  rect_fits area ->
  last_write p (into_pixels area cs) = if contains area p then sget cs (idx_in area p) else None.
Proof. exact into_pixels_spec. Qed.

Theorem C03_into_pixels_is_default_fill : forall bb area cs m,
  draw_iter bb (into_pixels area cs) m = default_fill_contiguous bb area cs m.
Proof. exact into_pixels_default_fill. Qed.

Theorem C03_into_pixels_positions : forall area (l : list color),
  map fst (into_pixels area (Fin l)) = firstn (length l) (points area).
Proof. exact into_pixels_positions. Qed.

(* ---- the Cropped colour iterator (initial skip, per-row skip, nth) ----------------------------------- *)
(* what a `for` loop sees = the colours at the row-major indices (in the size.width-wide area) of the points
   of crop /\ (0,0,size), up to the first exhausted position; zero-sized and disjoint crops give [] *)
Theorem C03_cropped_iter_spec : forall cs size crop,
  size_fits size -> size_nonneg crop ->
  cropped_iter cs size crop =
  take_some (map (fun q => sget cs (idx_in (R (P 0 0) size) q))
                 (points (intersection (R (P 0 0) size) crop))).
Proof. exact cropped_iter_spec. Qed.

Theorem C03_cropped_iter_fuel_never_runs_out : forall cs size crop,
  size_fits size -> size_nonneg crop ->
  let st := cropped_new cs size crop in cropped_collect (cropped_fuel st) st <> None.
Proof. exact cropped_fuel_ok. Qed.

(* as used by Clipped::fill_contiguous: the i-th colour of the re-cut stream is the colour the original
   stream pairs with the i-th point of (clip /\ area) *)
Theorem C03_cropped_iter_keeps_pairing : forall cs ca area q,
  size_fits (sz area) -> size_nonneg ca ->
  contains (intersection ca area) q = true ->
  nth_error (cropped_iter cs (sz area) (translate_rect (intersection ca area) (pneg (tl area))))
            (Z.to_nat (idx_in (intersection ca area) q))
  = sget cs (idx_in area q).
Proof. exact cropped_iter_nth. Qed.

(* ---- clipped ------------------------------------------------------------------------------------- *)
Theorem C03_clip_no_escape : forall a bb k c m p,
  rect_fits a -> rect_fits bb -> call_fits c ->
  contains (intersection a bb) p = false ->
  paint bb k (lower1c (Clip a) bb c) m p = m p.
Proof. exact clip_no_escape. Qed.

Theorem C03_clip_exact : forall a bb k c m p,
  rect_fits a -> rect_fits bb -> call_fits c ->
  contains (intersection a bb) p = true ->
  paint bb k (lower1c (Clip a) bb c) m p = paint bb k c m p.
Proof. exact clip_exact. Qed.

(* call level (for a parent that does not bounds-check): whatever a clipped target hands to its parent lies inside
   clip /\ parent box - every pixel of a draw_iter, the whole AREA of a fill_contiguous / fill_solid; a Clear is
   never forwarded.  No hypothesis.
     call_within r c := DrawIter ps: every point of ps is in r | Fill* a: contains a p -> contains r p | Clear: False *)
Theorem C03_clip_call_area_inside : forall a bb c, call_within (intersection a bb) (lower1c (Clip a) bb c).
Proof. exact clip_lower_within. Qed.

(* ... hence nothing outside clip /\ parent box changes even on an UNBOUNDED canvas (a parent that stores every pixel
   it is handed), and inside the effect is that of the original call *)
Theorem C03_clip_call_confined : forall own F a bb c m q,
  call_sizes c -> size_nonneg (intersection a bb) ->
  free_paint own F (lower1c (Clip a) bb c) m q =
  if contains (intersection a bb) q then free_paint (intersection a bb) F c m q else m q.
Proof. exact clip_call_confined. Qed.

Theorem C03_call_within_untouched : forall own F r c m q,
  call_within r c -> contains r q = false -> free_paint own F c m q = m q.
Proof. exact call_within_untouched. Qed.

(* ---- translated ------------------------------------------------------------------------------------ *)
Theorem C03_transl_bbox : forall d bb q,
  contains (bbox_of (Transl d) bb) q = contains bb (padd q d) /\ sz (bbox_of (Transl d) bb) = sz bb.
Proof. exact transl_bbox. Qed.

Theorem C03_transl_exact : forall d bb k c m q,
  (k = DefaultOnly -> rect_fits bb /\ call_fits (transl_call d c)) ->
  paint bb k (lower1c (Transl d) bb c) m (padd q d) =
  if contains (bbox_of (Transl d) bb) q
  then free_paint (bbox_of (Transl d) bb) idc c (shift d m) q
  else m (padd q d).
Proof. exact transl_exact. Qed.

Theorem C03_transl_exact_as_target : forall d bb k c m q,
  (k = DefaultOnly -> rect_fits bb /\ call_fits (transl_call d c) /\ rect_fits (bbox_of (Transl d) bb) /\ call_fits c) ->
  paint bb k (lower1c (Transl d) bb c) m (padd q d) = paint (bbox_of (Transl d) bb) k c (shift d m) q.
Proof. exact transl_exact_paint. Qed.

(* ---- cropped: shift by the top left of (area /\ parent box), box (0,0,size), no clipping -------------- *)
Theorem C03_crop_exact : forall a bb k c m q,
  let i := intersection a bb in
  (k = DefaultOnly -> rect_fits bb /\ call_fits (crop_call (tl i) (sz i) c)) ->
  bbox_of (Crop a) bb = R (P 0 0) (sz i) /\
  paint bb k (lower1c (Crop a) bb c) m (padd q (tl i)) =
  if contains bb (padd q (tl i))
  then free_paint (R (P 0 0) (sz i)) idc c (shift (tl i) m) q
  else m (padd q (tl i)).
Proof. exact crop_exact. Qed.

(* ---- colour converted: every colour through f, geometry untouched -------------------------------------- *)
Theorem C03_conv_exact : forall f bb k c m q,
  (k = DefaultOnly -> rect_fits bb /\ call_fits c) ->
  bbox_of (Conv f) bb = bb /\
  paint bb k (lower1c (Conv f) bb c) m q = if contains bb q then free_paint bb f c m q else m q.
Proof. exact conv_exact. Qed.

(* ---- stacks of ANY depth compose like the geometric transformations ------------------------------------- *)
Theorem C03_lower_is_one_call : forall st bb c, lower st bb c = [lower_call st bb c].
Proof. exact lower_singleton. Qed.

Theorem C03_stack_box : forall st bb, g_box (geo_of st bb) = bbox_stack st bb.
Proof. exact geo_box. Qed.

Theorem C03_stack_compose : forall st bb k,
  size_fits (sz bb) -> Forall adapter_sizes st ->
  forall c m q, call_sizes c ->
  (k = DefaultOnly -> rect_fits bb /\ call_fits (lower_call st bb c)) ->
  paint_all bb k (lower st bb c) m (padd q (g_off (geo_of st bb))) =
  if g_vis (geo_of st bb) q
  then free_paint (g_box (geo_of st bb)) (g_col (geo_of st bb)) c (shift (g_off (geo_of st bb)) m) q
  else m (padd q (g_off (geo_of st bb))).
Proof. exact stack_compose. Qed.

(* the same with input-level hypotheses only: parent box, adapter rectangles / offsets and the call have
   |coordinates| <= 1024 and extents <= 1024, depth <= 64 (then every intermediate is in range, both parent kinds) *)
Theorem C03_stack_compose_display_scale : forall st bb k c m q,
  display_scale st bb c ->
  paint_all bb k (lower st bb c) m (padd q (g_off (geo_of st bb))) =
  if g_vis (geo_of st bb) q
  then free_paint (g_box (geo_of st bb)) (g_col (geo_of st bb)) c (shift (g_off (geo_of st bb)) m) q
  else m (padd q (g_off (geo_of st bb))).
Proof. exact stack_compose_display_scale. Qed.

(* ... and for any magnitudes: |coordinates| of parent box / adapters <= D, of the call <= C, extents <= S, depth <= L
   with C + L*(L+2)*D + S <= 2^28 (e.g. the +-2^20 correspondence cases: D = C = 2^20+40, S = 40, L = 4) *)
Theorem C03_stack_compose_small : forall D S L C st bb k c m q,
  rect_small D S bb -> Forall (ad_small D S) st -> call_small C S c ->
  0 <= D -> 0 <= S -> 0 <= C -> Z.of_nat (length st) <= L ->
  C + L * ((L + 2) * D) + S <= lim -> D + S <= lim ->
  paint_all bb k (lower st bb c) m (padd q (g_off (geo_of st bb))) =
  if g_vis (geo_of st bb) q
  then free_paint (g_box (geo_of st bb)) (g_col (geo_of st bb)) c (shift (g_off (geo_of st bb)) m) q
  else m (padd q (g_off (geo_of st bb))).
Proof. exact stack_compose_small. Qed.

(* whole histories of calls *)
Theorem C03_stack_history : forall st bb k ops,
  size_fits (sz bb) -> Forall adapter_sizes st -> Forall (op_ok st bb k) ops ->
  forall m q,
  paint_all bb k (flat_map (lower st bb) ops) m (padd q (g_off (geo_of st bb))) =
  if g_vis (geo_of st bb) q
  then free_all (g_box (geo_of st bb)) (g_col (geo_of st bb)) ops (shift (g_off (geo_of st bb)) m) q
  else m (padd q (g_off (geo_of st bb))).
Proof. exact stack_history. Qed.

(* every point of the box a stack reports is drawable; a clipped stack draws nowhere else *)
Theorem C03_stack_box_is_visible : forall st bb q,
  contains (bbox_stack st bb) q = true -> g_vis (geo_of st bb) q = true.
Proof. exact bbox_visible. Qed.

Theorem C03_clipped_stack_draws_only_in_its_box : forall a rest bb q,
  g_vis (geo_of (Clip a :: rest) bb) q = true -> contains (bbox_stack (Clip a :: rest) bb) q = true.
Proof. exact clip_vis_in_box. Qed.

(* ---- executable side: the extracted model replays exactly this list of stores --------------------------- *)
Theorem C03_render_writes : forall bb k cs p,
  rect_fits bb -> Forall call_fits cs -> render bb k cs p = last_write p (writes_all bb k cs).
Proof. exact render_writes. Qed.

Theorem C03_run_stack_render : forall bb k st ops p,
  rect_fits bb -> Forall call_fits (flat_map (lower st bb) ops) ->
  last_write p (run_stack bb k st ops) = render bb k (flat_map (lower st bb) ops) p.
Proof. exact run_stack_render. Qed.

(* ---- non-vacuity: the functions compute something non-trivial and the hypotheses are satisfiable ---------- *)
Example C03_cropped_iter_example :
  cropped_iter (Fin [0;1;2;3;4;5;6;7;8;9;10;11;12;13]) (S 4 4) (R (P 1 1) (S 5 2)) = [5;6;7;9;10;11]
  /\ cropped_iter (Rep 7) (S 4 4) (R (P (-1) 3) (S 3 9)) = [7;7]
  /\ cropped_iter (Fin [1;2;3]) (S 4 0) (R (P 1 0) (S 9 0)) = [].
Proof. split; [|split]; vm_compute; reflexivity. Qed.

Definition C03_ex_stack := [Clip (R (P 0 0) (S 3 2)); Crop (R (P 4 4) (S 9 9)); Transl (P 1 1); Conv conv_test].
Definition C03_ex_bb := R (P 2 2) (S 6 6).

Example C03_stack_example :
  bbox_stack C03_ex_stack C03_ex_bb = R (P 0 0) (S 3 2)
  /\ g_off (geo_of C03_ex_stack C03_ex_bb) = P 5 5
  /\ lower C03_ex_stack C03_ex_bb (FillContiguous (R (P (-1) 0) (S 3 3)) (Fin [1;2;3;4;5;6;7;8;9]))
     = [FillContiguous (R (P 5 5) (S 2 2)) (Fin [17;24;38;45])]
  /\ render C03_ex_bb DefaultOnly (lower C03_ex_stack C03_ex_bb (Clear 1)) (P 7 6) = Some 10.
Proof. split; [|split; [|split]]; vm_compute; reflexivity. Qed.

Example C03_hypotheses_satisfiable :
  rect_fits C03_ex_bb /\ size_fits (sz C03_ex_bb) /\ Forall adapter_sizes C03_ex_stack
  /\ op_ok C03_ex_stack C03_ex_bb DefaultOnly (FillContiguous (R (P (-1) 0) (S 3 3)) (Fin [1;2;3])).
Proof.
  assert (forall x y w h, 0 <= w <= 1000 -> 0 <= h <= 1000 -> -1000 <= x <= 1000 -> -1000 <= y <= 1000 ->
          rect_fits (R (P x y) (S w h))) as Hf.
  { intros. unfold rect_fits, size_fits, i32_max, i32_min. cbn [tl sz px py sw sh]. lia. }
  assert (forall w h, 0 <= w <= 1000 -> 0 <= h <= 1000 -> size_fits (S w h)) as Hs.
  { intros. unfold size_fits, i32_max. cbn [sw sh]. lia. }
  split; [apply Hf; lia|]. split; [apply Hs; lia|]. split.
  - unfold C03_ex_stack. repeat constructor; cbn [adapter_sizes sz]; try apply Hs; try lia; exact I.
  - split; [cbn [call_sizes sz]; apply Hs; lia|]. intros _. split; [apply Hf; lia|].
    vm_compute lower_call. cbn [call_fits]. apply Hf; lia.
Qed.
