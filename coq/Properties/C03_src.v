(* C03, translator tie (the Cropped colour iterator): Cropped::new and its Iterator::next (src/iterator/contiguous.rs),
   regenerated from the source on every run by translate/r2c (coq/Gen/SrcCropped.v).  The struct is read as the model record
   Target.cropped_st; the generic iterator I is the model's colour stream, and `iter.next()` / `iter.nth(n)` - `&mut self`
   methods of the generic parameter - are FUNCTION PARAMETERS of the generated definitions, returning (new iterator, item).
   Instantiated with the stream primitives (st_next / st_nth = Target.snext / snth with the components swapped) the
   generated functions equal Target.cropped_new / cropped_next.  `new`: for i32-sized areas (that the intersection
   with the origin rectangle has a corner in 0 .. i32_max is derived: Proofs/SrcRectFacts.v).
   Statements only (proofs: Proofs/SrcCropped.v). *)
From EG Require Import Base.Prelude Base.Casts Model.Geometry Model.Target Gen.SrcGeometry Gen.SrcCropped Proofs.SrcGeometry Proofs.SrcCropped.
(* the generated definitions that cast to usize (`as usize`, `usize::try_from`) take the width of usize as Casts.UsizeW; the model
   of this property works with 64-bit usize (exact integers in range): taken at that width *)
#[local] Existing Instance Casts.usize64_w.

Theorem C03_src_cropped_next_is_model : forall st,
  src_Cropped_next st_next st_nth st = (snd (cropped_next st), fst (cropped_next st)).
Proof. exact src_cropped_next_eq. Qed.

Theorem C03_src_cropped_new_is_model : forall it size crop,
  size_i32 size -> size_i32 (sz crop) ->
  src_Cropped_new st_nth it size crop = cropped_new it size crop.
Proof. exact src_cropped_new_eq. Qed.

Example C03_src_nonvacuous :
  let st := src_Cropped_new st_nth (Fin [0; 1; 2; 3; 4; 5; 6; 7; 8; 9; 10; 11]) (Geometry.S 4 3) (R (P 1 1) (Geometry.S 2 2)) in
  let '(s1, a) := src_Cropped_next st_next st_nth st in
  let '(s2, b) := src_Cropped_next st_next st_nth s1 in
  let '(s3, c) := src_Cropped_next st_next st_nth s2 in
  let '(s4, d) := src_Cropped_next st_next st_nth s3 in
  let '(_, e) := src_Cropped_next st_next st_nth s4 in
  (a, b, c, d, e) = (Some 5, Some 6, Some 9, Some 10, None).
Proof. vm_compute. reflexivity. Qed.
