(* C03, translator tie (draw target adapters as call lowerings): Translated::new / fill_contiguous / fill_solid / clear /
   bounding_box (src/draw_target/translated.rs) and Clipped::new / fill_solid / bounding_box (src/draw_target/clipped.rs),
   regenerated from the source on every run by translate/r2c (coq/Gen/SrcAdapters.v).  The generic parent target T is the list
   of calls it has received (Target.call; a `&'a mut T` field holds that state); its `&mut self` methods fill_solid /
   fill_contiguous / clear and bounding_box are FUNCTION PARAMETERS of the generated definitions, instantiated with "append
   the call to the log" (log_solid / log_contiguous / log_clear) and a constant parent box.  One call on the adapter appends
   exactly the call of Target.transl_call / clip_call (= lower1c); the boxes are Target.bbox_of.
   Not covered: draw_iter (iterator adaptors `translated` / `filter` over a generic pixel iterator), Clipped::fill_contiguous
   (the parent's generic fill_contiguous is called at two different iterator types).
   Statements only (proofs: Proofs/SrcAdapters.v). *)
From EG Require Import Base.Prelude Base.Casts Model.Geometry Model.Rrect Model.Target.
From EG Require Import Gen.SrcGeometry Gen.SrcCircle Gen.SrcRrect Gen.SrcRrect2 Gen.SrcAdapters Proofs.SrcGeometry Proofs.SrcAdapters.

Theorem C03_src_translated_fill_solid_is_lowering : forall log d area col,
  Translated_parent (fst (src_Translated_fill_solid log_solid (Build_Translated log d) area col)) = log ++ [lower1c (Transl d) (R (P 0 0) (Geometry.S 0 0)) (FillSolid area col)].
Proof. exact src_translated_fill_solid_eq. Qed.
Theorem C03_src_translated_fill_contiguous_is_lowering : forall log d area cs,
  Translated_parent (fst (src_Translated_fill_contiguous log_contiguous (Build_Translated log d) area cs)) = log ++ [transl_call d (FillContiguous area cs)].
Proof. exact src_translated_fill_contiguous_eq. Qed.
Theorem C03_src_translated_clear_is_lowering : forall log d col,
  Translated_parent (fst (src_Translated_clear log_clear (Build_Translated log d) col)) = log ++ [transl_call d (Clear col)].
Proof. exact src_translated_clear_eq. Qed.
Theorem C03_src_translated_bounding_box_is_model : forall log d pbb,
  src_Translated_bounding_box (fun _ => pbb) (Build_Translated log d) = bbox_of (Transl d) pbb.
Proof. exact src_translated_bounding_box_eq. Qed.
Theorem C03_src_clipped_new_is_model : forall log a pbb, size_i32 (sz a) -> size_i32 (sz pbb) ->
  src_Clipped_new (fun _ => pbb) log a = (log, Build_Clipped log (bbox_of (Clip a) pbb)).
Proof. exact src_clipped_new_eq. Qed.
Theorem C03_src_clipped_fill_solid_is_lowering : forall log clip area col, size_i32 (sz area) -> size_i32 (sz clip) ->
  Clipped_parent (fst (src_Clipped_fill_solid log_solid (Build_Clipped log clip) area col)) = log ++ [clip_call clip (FillSolid area col)].
Proof. exact src_clipped_fill_solid_eq. Qed.
Theorem C03_src_clipped_bounding_box_is_model : forall log clip, src_Clipped_bounding_box (Build_Clipped log clip) = clip.
Proof. exact src_clipped_bounding_box_eq. Qed.

(* round 5: Translated::new stores the parent and the offset (translated.rs:30-32; the generated constructor also returns the
   `&mut` parent unchanged) *)
Theorem C03_src_translated_new : forall parent offset,
  src_Translated_new parent offset = (parent, Build_Translated parent offset).
Proof. reflexivity. Qed.

(* round 5: for an ARBITRARY parent F (any function of the parent's state, failing or not): the adapter hands the parent exactly the
   lowered call, keeps the state the parent returns, and returns the parent's Result unchanged *)
Theorem C03_src_translated_fill_solid_any_parent : forall (F : list call -> rect -> Z -> list call * (unit + unit)) log d area col,
  src_Translated_fill_solid F (Build_Translated log d) area col
  = (Build_Translated (fst (F log (translate_rect area d) col)) d, snd (F log (translate_rect area d) col)).
Proof. exact src_translated_fill_solid_any. Qed.
Theorem C03_src_translated_fill_contiguous_any_parent : forall (F : list call -> rect -> stream -> list call * (unit + unit)) log d area cs,
  src_Translated_fill_contiguous F (Build_Translated log d) area cs
  = (Build_Translated (fst (F log (translate_rect area d) cs)) d, snd (F log (translate_rect area d) cs)).
Proof. exact src_translated_fill_contiguous_any. Qed.
Theorem C03_src_translated_clear_any_parent : forall (F : list call -> Z -> list call * (unit + unit)) log d col,
  src_Translated_clear F (Build_Translated log d) col = (Build_Translated (fst (F log col)) d, snd (F log col)).
Proof. exact src_translated_clear_any. Qed.
Theorem C03_src_clipped_fill_solid_any_parent : forall (F : list call -> rect -> Z -> list call * (unit + unit)) log clip area col,
  size_i32 (sz area) -> size_i32 (sz clip) ->
  src_Clipped_fill_solid F (Build_Clipped log clip) area col
  = (Build_Clipped (fst (F log (intersection area clip) col)) clip, snd (F log (intersection area clip) col)).
Proof. exact src_clipped_fill_solid_any. Qed.
(* a failing parent: the error comes back *)
Theorem C03_src_translated_fill_solid_failing_parent : forall log d area col,
  src_Translated_fill_solid fail_solid (Build_Translated log d) area col = (Build_Translated log d, inr tt).
Proof. exact src_translated_fill_solid_failing. Qed.
Theorem C03_src_clipped_fill_solid_failing_parent : forall log clip area col,
  src_Clipped_fill_solid fail_solid (Build_Clipped log clip) area col = (Build_Clipped log clip, inr tt).
Proof. exact src_clipped_fill_solid_failing. Qed.

Example C03_src_adapters_nonvacuous :
  Translated_parent (fst (src_Translated_fill_solid log_solid (Build_Translated [] (P 2 3)) (R (P 1 1) (Geometry.S 2 2)) 7)) = [FillSolid (R (P 3 4) (Geometry.S 2 2)) 7] /\
  Clipped_parent (fst (src_Clipped_fill_solid log_solid (Build_Clipped [] (R (P 0 0) (Geometry.S 4 4))) (R (P 2 2) (Geometry.S 5 5)) 7)) = [FillSolid (R (P 2 2) (Geometry.S 2 2)) 7].
Proof. split; vm_compute; reflexivity. Qed.
