(* C04 - Target errors stop drawing immediately and are returned unchanged.

   Statements only.  [Gen.ErrFlow.functions] is regenerated from the Rust source by translate/errflow on every
   run: one control-flow skeleton per function returning Result<_, X::Error> (59 functions, 79 call sites on the
   unchanged tree).  The two [C04_repo_*] theorems are decided by vm_compute over that table and fail the moment a
   call site is `let _ =` / `;` / `.ok()` (Discarded), bound to a variable (Deferred) or of a shape the translator
   does not know (Other).  [C04_propagating_stops] is the generic theorem about the skeleton semantics
   (Model/Errlang.v); [C04_repo_errors_stop_drawing] is its instance for the repository's table. *)
From Coq Require Import String List Arith Bool.
From EG Require Import Model.Errlang Proofs.Errlang Gen.ErrFlow.
Import ListNotations.
Open Scope string_scope.
Open Scope list_scope.

(* the generic theorem: for ANY table of skeletons, entry function, oracle (loop counts, branch choices, dynamic
   dispatch of every call to the target itself or to any translated function of that name) and call depth *)
Theorem C04_propagating_stops : forall (E : Type) (prog : list fndef),
  forallb all_propagated prog = true -> forallb no_other prog = true ->
  forall fuel entry o r0 log0, In entry prog ->
  run E prog fuel None entry o = Some (r0, log0) ->
  r0 = ROk /\
  forall k e d, k < n_calls E prog fuel entry o ->
    exists logk,
      run E prog fuel (Some (k, e)) entry o = Some (RErr e, logk) /\
      logk = firstn k log0 ++ [nth k log0 d] /\
      length logk = S k.
Proof. exact propagating_stops. Qed.

Theorem C04_unreached_fault_is_invisible : forall (E : Type) (prog : list fndef),
  forallb all_propagated prog = true -> forallb no_other prog = true ->
  forall fuel entry o r0 log0 k e, In entry prog ->
  run E prog fuel None entry o = Some (r0, log0) -> length log0 <= k ->
  run E prog fuel (Some (k, e)) entry o = Some (r0, log0).
Proof. exact unreached_fault_is_invisible. Qed.

(* per-run reflection over the regenerated skeletons; the first one is stated so that a failure names the sites *)
Theorem C04_repo_offending_sites_none : offenders functions = [].
Proof. vm_compute. reflexivity. Qed.

Theorem C04_repo_errflow_ok : forallb all_propagated functions = true.
Proof. vm_compute. reflexivity. Qed.

Theorem C04_repo_no_other : forallb no_other functions = true.
Proof. vm_compute. reflexivity. Qed.

(* ---- the table covers what the property quantifies over, by (function, file) name: every built-in drawable ... *)
Definition has_fn_with_sites (min_sites : nat) (p : string * string) : bool :=
  match find_fn functions (fst p) (snd p) with
  | Some f => Nat.leb min_sites (sk_calls (fbody f))
  | None => false
  end.

Theorem C04_repo_covers_builtin :
  forallb (has_fn_with_sites 1)
    [("draw_styled", "src/primitives/rectangle/styled.rs:"); ("draw_styled", "src/primitives/circle/styled.rs:");
     ("draw_styled", "src/primitives/ellipse/styled.rs:"); ("draw_styled", "src/primitives/rounded_rectangle/styled.rs:");
     ("draw_styled", "src/primitives/triangle/styled.rs:"); ("draw_styled", "src/primitives/polyline/styled.rs:");
     ("draw_styled", "src/primitives/line/styled.rs:"); ("draw_styled", "src/primitives/arc/styled.rs:");
     ("draw_styled", "src/primitives/sector/styled.rs:"); ("draw", "src/primitives/styled.rs:");
     ("draw_thick", "src/primitives/polyline/styled.rs:");
     ("draw_dotted_rectangle_border_with_dotted_corners", "src/primitives/rectangle/styled.rs:");
     ("draw_dotted_rectangle_border_in_clockwise_order", "src/primitives/rectangle/styled.rs:");
     ("draw", "src/primitives/common/scanline.rs:"); ("draw_stroke", "src/primitives/common/styled_scanline.rs:");
     ("draw_stroke_and_fill", "src/primitives/common/styled_scanline.rs:");
     ("draw", "src/text/text.rs:"); ("draw_string", "src/mono_font/mono_text_style.rs:");
     ("draw_whitespace", "src/mono_font/mono_text_style.rs:"); ("draw_string_binary", "src/mono_font/mono_text_style.rs:");
     ("draw_decorations", "src/mono_font/mono_text_style.rs:");
     ("draw", "src/image/mod.rs:"); ("draw", "src/image/image_raw.rs:"); ("draw_sub_image", "src/image/image_raw.rs:");
     ("draw", "src/image/sub_image.rs:"); ("draw_sub_image", "src/image/sub_image.rs:");
     ("draw", "core/src/drawable.rs:"); ("draw", "src/iterator/mod.rs:")] = true.
Proof. vm_compute. reflexivity. Qed.

(* ... and every target adapter method and trait default *)
Theorem C04_repo_covers_adapters :
  forallb (has_fn_with_sites 1)
    [("draw_iter", "src/draw_target/clipped.rs:"); ("fill_contiguous", "src/draw_target/clipped.rs:"); ("fill_solid", "src/draw_target/clipped.rs:");
     ("draw_iter", "src/draw_target/cropped.rs:"); ("fill_contiguous", "src/draw_target/cropped.rs:"); ("fill_solid", "src/draw_target/cropped.rs:");
     ("draw_iter", "src/draw_target/translated.rs:"); ("fill_contiguous", "src/draw_target/translated.rs:");
     ("fill_solid", "src/draw_target/translated.rs:"); ("clear", "src/draw_target/translated.rs:");
     ("draw_iter", "src/draw_target/color_converted.rs:"); ("fill_contiguous", "src/draw_target/color_converted.rs:");
     ("fill_solid", "src/draw_target/color_converted.rs:"); ("clear", "src/draw_target/color_converted.rs:");
     ("fill_contiguous", "core/src/draw_target/mod.rs:"); ("fill_solid", "core/src/draw_target/mod.rs:"); ("clear", "core/src/draw_target/mod.rs:")] = true
  /\
  (* the three MonoFontDrawTarget impls (Foreground / Background / Both): fill_contiguous and fill_solid each *)
  forallb (fun pat => Nat.eqb (length (filter (fun f => place_has pat f && place_has "src/mono_font/draw_target.rs:" f
                                               && (String.eqb (fname f) "fill_contiguous" || String.eqb (fname f) "fill_solid")
                                               && Nat.leb 1 (sk_calls (fbody f))) functions)) 2)
          ["Foreground<"; "Background<"; "Both<"] = true.
Proof. vm_compute. split; reflexivity. Qed.

(* ---- no call site is lost: per file, the number of Call sites in the table equals an INDEPENDENT token census of
   the whole non-test code of that file (`name(` tokens with a propagating name; Gen.ErrFlow.site_census) *)
Theorem C04_repo_site_census :
  forallb (fun p => Nat.eqb (sites_in_file functions (fst p)) (snd p)) site_census = true /\
  total_sites functions = fold_right (fun p n => snd p + n) 0 site_census /\
  Nat.leb 60 (total_sites functions) = true.
Proof. vm_compute. repeat split. Qed.

(* ---- "returned unchanged": `?` / tail calls are the identity on the error value only if caller and callee have the
   same error type.  Every `impl DrawTarget` of the tree declares `type Error = T::Error` for its own type parameter
   T: DrawTarget (the wrapped parent) or is infallible, and all seven adapter impls are among them *)
Theorem C04_repo_adapter_error_is_parent_error :
  forallb (fun p => match p with (_, ty, par) =>
                      (String.eqb ty "T::Error" && par) || String.eqb ty "Infallible" || String.eqb ty "core::convert::Infallible"
                    end) target_error_types = true /\
  forallb (fun pat => existsb (fun p => match p with (place, ty, par) =>
                                 (match String.index 0 pat place with Some _ => true | None => false end) && String.eqb ty "T::Error" && par
                               end) target_error_types)
          ["src/draw_target/clipped.rs:"; "src/draw_target/cropped.rs:"; "src/draw_target/translated.rs:";
           "src/draw_target/color_converted.rs:"; "Foreground<"; "Background<"; "Both<"] = true.
Proof. vm_compute. split; reflexivity. Qed.

Theorem C04_repo_errors_stop_drawing : forall (E : Type) fuel entry o r0 log0, In entry functions ->
  run E functions fuel None entry o = Some (r0, log0) ->
  r0 = ROk /\
  forall k e d, k < n_calls E functions fuel entry o ->
    exists logk,
      run E functions fuel (Some (k, e)) entry o = Some (RErr e, logk) /\
      logk = firstn k log0 ++ [nth k log0 d] /\
      length logk = S k.
Proof.
  intros E. exact (propagating_stops E functions C04_repo_errflow_ok C04_repo_no_other).
Qed.

(* ---------------------------------------------------------------------------------------------- non-vacuity *)
(* A hand-written table shaped like Rectangle::draw_styled over Clipped: fill, then a loop of border rectangles. *)
Definition ex_prog (d : disp) : list fndef :=
  [ {| fname := "draw_styled"; fwhere := "example";
       fbody := Seq (Branch (Call "fill_solid" 1 Propagated) Skip)
                    (Seq (Loop (Seq (Call "fill_solid" 2 d) (Call "fill_solid" 3 Propagated))) Ret) |};
    {| fname := "fill_solid"; fwhere := "example adapter";
       fbody := Seq (Call "fill_solid" 4 Propagated) Ret |} ].
Definition ex_entry (d : disp) : fndef := nth 0 (ex_prog d) {| fname := ""; fwhere := ""; fbody := Skip |}.
(* oracle: take the fill branch, dispatch it through the adapter and then to the target; 2 loop iterations,
   all remaining calls directly on the target *)
Definition ex_orc : list nat := [0; 1; 0; 2].

Example C04_example_propagating_run :
  run nat (ex_prog Propagated) 5 None (ex_entry Propagated) ex_orc
    = Some (ROk, [("fill_solid", 4); ("fill_solid", 2); ("fill_solid", 3); ("fill_solid", 2); ("fill_solid", 3)]) /\
  n_calls nat (ex_prog Propagated) 5 (ex_entry Propagated) ex_orc = 5 /\
  run nat (ex_prog Propagated) 5 (Some (3, 77)) (ex_entry Propagated) ex_orc
    = Some (RErr 77, [("fill_solid", 4); ("fill_solid", 2); ("fill_solid", 3); ("fill_solid", 2)]) /\
  forallb all_propagated (ex_prog Propagated) = true /\ forallb no_other (ex_prog Propagated) = true.
Proof. vm_compute. repeat split. Qed.

(* the hypothesis is needed: with one Discarded / Deferred site the conclusion fails in the semantics *)
Example C04_example_discarded_violates :
  forallb all_propagated (ex_prog Discarded) = false /\
  run nat (ex_prog Discarded) 5 (Some (1, 77)) (ex_entry Discarded) ex_orc
    = Some (ROk, [("fill_solid", 4); ("fill_solid", 2); ("fill_solid", 3); ("fill_solid", 2); ("fill_solid", 3)]).
Proof. vm_compute. split; reflexivity. Qed.

Example C04_example_deferred_violates :
  forallb all_propagated (ex_prog Deferred) = false /\
  run nat (ex_prog Deferred) 5 (Some (1, 77)) (ex_entry Deferred) ex_orc
    = Some (RErr 77, [("fill_solid", 4); ("fill_solid", 2); ("fill_solid", 3); ("fill_solid", 2); ("fill_solid", 3)]).
Proof. vm_compute. split; reflexivity. Qed.

(* and on the repository's own table: Text::draw, two lines, each through MonoTextStyle::draw_string; the run
   reaches the target, and the theorem above applies to it (entry found by name) *)
Example C04_example_repo_text_draw :
  match find_fn functions "draw" "src/text/text.rs" with
  | Some entry =>
    In entry functions /\
    exists o, Nat.leb 2 (n_calls nat functions 8 entry o) = true
  | None => False
  end.
Proof.
  destruct (find_fn functions "draw" "src/text/text.rs") as [entry|] eqn:Ef; [|vm_compute in Ef; discriminate].
  split.
  - unfold find_fn in Ef. apply find_some in Ef. tauto.
  - exists [2; 0; 0]. vm_compute in Ef. inversion Ef; subst entry. vm_compute. reflexivity.
Qed.

(* a run through seven layers of the repository's own table: Text::draw -> MonoTextStyle::draw_string ->
   draw_string_binary -> Image::draw -> ImageRaw::draw -> MonoFontDrawTarget<Both>::fill_contiguous ->
   Clipped::fill_contiguous -> target; then the inter-character fill through MonoFontDrawTarget<Both>::fill_solid and a
   decoration.  Fuel 6 is not enough (the chain really is 7 deep); the fault at call 1 stops the run there. *)
Definition ex_deep_oracle : list nat :=
  let d := dispatch_to functions in
  [1; d "draw_string" "mono_text_style.rs"; 0; d "draw_string_binary" "mono_text_style.rs"; 2;
   0; d "draw" "src/image/mod.rs"; d "draw" "src/image/image_raw.rs"; d "fill_contiguous" "Both<";
   d "fill_contiguous" "src/draw_target/clipped.rs"; 0; 0;
   1; 0; 0; d "fill_solid" "Both<"; 0; 0;
   0; d "draw_decorations" "mono_text_style.rs"; 0; 0; 1].

Example C04_example_repo_text_through_clipped :
  match find_fn functions "draw" "src/text/text.rs" with
  | Some entry =>
    run nat functions 6 None entry ex_deep_oracle = None /\
    match run nat functions 7 None entry ex_deep_oracle, run nat functions 7 (Some (1, 77)) entry ex_deep_oracle with
    | Some (r0, log0), Some (r1, log1) =>
      r0 = ROk /\ map fst log0 = ["fill_contiguous"; "fill_solid"; "fill_solid"] /\
      r1 = RErr 77 /\ log1 = firstn 2 log0
    | _, _ => False
    end
  | None => False
  end.
Proof. vm_compute. repeat split. Qed.
