(* C04 - Target errors stop drawing immediately and are returned unchanged.

   Statements only.  [Gen.ErrFlow.functions] is regenerated from the Rust source by translate/errflow on every
   run: one control-flow skeleton per function returning Result<_, X::Error> (59 functions, 79 call sites on the
   unchanged tree).  The two [C04_repo_*] theorems are decided by vm_compute over that table and fail the moment a
   call site is `let _ =` / `;` / `.ok()` (Discarded), bound to a variable (Deferred) or of a shape the translator
   does not know (Other).  [C04_propagating_stops] is the generic theorem about the skeleton semantics
   (Model/Errlang.v); [C04_repo_errors_stop_drawing] is its instance for the repository's table. *)
From Coq Require Import String List Arith Bool.
From EG Require Import Model.Errlang Proofs.Errlang Gen.ErrFlow.
Import ListNotations.
Open Scope string_scope.
Open Scope list_scope.

(* the generic theorem: for ANY table of skeletons, entry function, oracle (loop counts, branch choices, dynamic
   dispatch of every call to the target itself or to any translated function of that name) and call depth *)
Theorem C04_propagating_stops : forall (E : Type) (prog : list fndef),
  forallb all_propagated prog = true -> forallb no_other prog = true ->
  forall fuel entry o r0 log0, In entry prog ->
  run E prog fuel None entry o = Some (r0, log0) ->
  r0 = ROk /\
  forall k e d, k < n_calls E prog fuel entry o ->
    exists logk,
      run E prog fuel (Some (k, e)) entry o = Some (RErr e, logk) /\
      logk = firstn k log0 ++ [nth k log0 d] /\
      length logk = S k.
Proof. exact propagating_stops. Qed.

Theorem C04_unreached_fault_is_invisible : forall (E : Type) (prog : list fndef),
  forallb all_propagated prog = true -> forallb no_other prog = true ->
  forall fuel entry o r0 log0 k e, In entry prog ->
  run E prog fuel None entry o = Some (r0, log0) -> length log0 <= k ->
  run E prog fuel (Some (k, e)) entry o = Some (r0, log0).
Proof. exact unreached_fault_is_invisible. Qed.

(* per-run reflection over the regenerated skeletons; the first one is stated so that a failure names the sites *)
Theorem C04_repo_offending_sites_none : offenders functions = [].
Proof. vm_compute. reflexivity. Qed.

Theorem C04_repo_errflow_ok : forallb all_propagated functions = true.
Proof. vm_compute. reflexivity. Qed.

Theorem C04_repo_no_other : forallb no_other functions = true.
Proof. vm_compute. reflexivity. Qed.

(* the table is not empty and has call sites to speak about *)
Theorem C04_repo_table_nontrivial :
  Nat.leb 40 (length functions) = true /\
  Nat.leb 60 (fold_right (fun f n => sk_calls (fbody f) + n) 0 functions) = true /\
  forallb (fun n => existsb (fun f => String.eqb (fname f) n) functions)
          ["draw"; "draw_iter"; "fill_solid"; "fill_contiguous"; "clear"; "draw_styled"; "draw_string"; "draw_sub_image"] = true.
Proof. vm_compute. repeat split. Qed.

Theorem C04_repo_errors_stop_drawing : forall (E : Type) fuel entry o r0 log0, In entry functions ->
  run E functions fuel None entry o = Some (r0, log0) ->
  r0 = ROk /\
  forall k e d, k < n_calls E functions fuel entry o ->
    exists logk,
      run E functions fuel (Some (k, e)) entry o = Some (RErr e, logk) /\
      logk = firstn k log0 ++ [nth k log0 d] /\
      length logk = S k.
Proof.
  intros E. exact (propagating_stops E functions C04_repo_errflow_ok C04_repo_no_other).
Qed.

(* ---------------------------------------------------------------------------------------------- non-vacuity *)
(* A hand-written table shaped like Rectangle::draw_styled over Clipped: fill, then a loop of border rectangles. *)
Definition ex_prog (d : disp) : list fndef :=
  [ {| fname := "draw_styled"; fwhere := "example";
       fbody := Seq (Branch (Call "fill_solid" 1 Propagated) Skip)
                    (Seq (Loop (Seq (Call "fill_solid" 2 d) (Call "fill_solid" 3 Propagated))) Ret) |};
    {| fname := "fill_solid"; fwhere := "example adapter";
       fbody := Seq (Call "fill_solid" 4 Propagated) Ret |} ].
Definition ex_entry (d : disp) : fndef := nth 0 (ex_prog d) {| fname := ""; fwhere := ""; fbody := Skip |}.
(* oracle: take the fill branch, dispatch it through the adapter and then to the target; 2 loop iterations,
   all remaining calls directly on the target *)
Definition ex_orc : list nat := [0; 1; 0; 2].

Example C04_example_propagating_run :
  run nat (ex_prog Propagated) 5 None (ex_entry Propagated) ex_orc
    = Some (ROk, [("fill_solid", 4); ("fill_solid", 2); ("fill_solid", 3); ("fill_solid", 2); ("fill_solid", 3)]) /\
  n_calls nat (ex_prog Propagated) 5 (ex_entry Propagated) ex_orc = 5 /\
  run nat (ex_prog Propagated) 5 (Some (3, 77)) (ex_entry Propagated) ex_orc
    = Some (RErr 77, [("fill_solid", 4); ("fill_solid", 2); ("fill_solid", 3); ("fill_solid", 2)]) /\
  forallb all_propagated (ex_prog Propagated) = true /\ forallb no_other (ex_prog Propagated) = true.
Proof. vm_compute. repeat split. Qed.

(* the hypothesis is needed: with one Discarded / Deferred site the conclusion fails in the semantics *)
Example C04_example_discarded_violates :
  forallb all_propagated (ex_prog Discarded) = false /\
  run nat (ex_prog Discarded) 5 (Some (1, 77)) (ex_entry Discarded) ex_orc
    = Some (ROk, [("fill_solid", 4); ("fill_solid", 2); ("fill_solid", 3); ("fill_solid", 2); ("fill_solid", 3)]).
Proof. vm_compute. split; reflexivity. Qed.

Example C04_example_deferred_violates :
  forallb all_propagated (ex_prog Deferred) = false /\
  run nat (ex_prog Deferred) 5 (Some (1, 77)) (ex_entry Deferred) ex_orc
    = Some (RErr 77, [("fill_solid", 4); ("fill_solid", 2); ("fill_solid", 3); ("fill_solid", 2); ("fill_solid", 3)]).
Proof. vm_compute. split; reflexivity. Qed.

(* and on the repository's own table: Text::draw, two lines, each through MonoTextStyle::draw_string; the run
   reaches the target, and the theorem above applies to it (entry found by name) *)
Example C04_example_repo_text_draw :
  match find_fn functions "draw" "src/text/text.rs" with
  | Some entry =>
    In entry functions /\
    exists o, Nat.leb 2 (n_calls nat functions 8 entry o) = true
  | None => False
  end.
Proof.
  destruct (find_fn functions "draw" "src/text/text.rs") as [entry|] eqn:Ef; [|vm_compute in Ef; discriminate].
  split.
  - unfold find_fn in Ef. apply find_some in Ef. tauto.
  - exists [2; 0; 0]. vm_compute in Ef. inversion Ef; subst entry. vm_compute. reflexivity.
Qed.
