(* C05 - points() enumerates exactly the points contains() accepts: Rectangle, Circle, Ellipse.
   Statements only; proofs are in Proofs/{Scanline,Circle,Ellipse,Styledrect}.v.
   box_points r = the points of rectangle r in row-major order; X_ok = top-left within +-2^29 and extents
   within 0..2^29 (no saturating operation of the model is reached).
   "points X = filter (contains X) (box_points (bbox X))" says in one equation: every accepted point of the
   bounding box is yielded, nothing else is, each exactly once, in row-major order; together with
   X_contains_in_bbox (nothing outside the box is accepted) points() is exactly the set contains() accepts. *)
From EG Require Import Base.Prelude Model.Geometry Model.Style Model.Circle Model.Ellipse Model.Styledrect
  Proofs.Geometry Proofs.Scanline Proofs.Circle Proofs.Ellipse Proofs.Styledrect.
From Coq Require Import Sorting.Sorted.

(* ---- Rectangle ---- *)
Theorem C05_rect_points_spec : forall r,
  rect_ok r -> points r = filter (contains r) (box_points (rect_bbox r)).
Proof. exact rect_points_spec. Qed.

Theorem C05_rect_contains_in_bbox : forall r p, contains r p = true -> contains (rect_bbox r) p = true.
Proof. exact rect_contains_in_bbox. Qed.

(* ---- Circle: scanline iterator as written (first hit per row, mirrored right end, a row without hit
        ends the iteration) ---- *)
Theorem C05_circle_points_spec : forall c,
  circle_ok c -> circle_points c = filter (circle_contains c) (box_points (circle_bbox c)).
Proof. exact circle_points_spec. Qed.

Theorem C05_circle_contains_in_bbox : forall c p,
  circle_ok c -> circle_contains c p = true -> contains (circle_bbox c) p = true.
Proof. exact circle_contains_in_bbox. Qed.

Theorem C05_circle_points_iff_contains : forall c p,
  circle_ok c -> (In p (circle_points c) <-> circle_contains c p = true).
Proof. exact circle_points_in. Qed.

(* ---- Ellipse: same iterator, rows without hit are skipped (repair 4fd6e1d), test in 64 bit (c18b215) ---- *)
Theorem C05_ellipse_points_spec : forall e,
  ellipse_ok e -> ellipse_points e = filter (ellipse_contains e) (box_points (ellipse_bbox e)).
Proof. exact ellipse_points_spec. Qed.

Theorem C05_ellipse_contains_in_bbox : forall e p,
  ellipse_ok e -> ellipse_contains e p = true -> contains (ellipse_bbox e) p = true.
Proof. exact ellipse_contains_in_bbox. Qed.

Theorem C05_ellipse_points_iff_contains : forall e p,
  ellipse_ok e -> (In p (ellipse_points e) <-> ellipse_contains e p = true).
Proof. exact ellipse_points_in. Qed.

(* ---- what the filter form means, for any predicate: strictly row-major (hence each point once) ---- *)
Theorem C05_filter_of_box_is_strictly_row_major : forall (f : point -> bool) r,
  StronglySorted lt_yx (filter f (box_points r)).
Proof. exact filter_box_sorted. Qed.

Theorem C05_filter_of_box_has_no_duplicates : forall (f : point -> bool) r, NoDup (filter f (box_points r)).
Proof. exact filter_box_nodup. Qed.

Theorem C05_box_points_are_the_box : forall r p, In p (box_points r) <-> contains r p = true.
Proof. exact In_box_points. Qed.

(* ---- non-vacuity: the hypotheses are satisfiable and the functions compute something ---- *)
Example C05_circle_example :
  circle_ok (Circ (P (-2) 3) 3) /\
  circle_points (Circ (P (-2) 3) 3) = [P (-1) 3; P (-2) 4; P (-1) 4; P 0 4; P (-1) 5] /\
  ellipse_ok (Ell (P 0 0) (S 2 20)) /\
  (* thin ellipse whose first and last rows are empty (the case the repaired iterator skips) *)
  (length (ellipse_points (Ell (P 0 0) (S 2 20))) = 36%nat /\ hd_error (ellipse_points (Ell (P 0 0) (S 2 20))) = Some (P 0 1)).
Proof. unfold circle_ok, ellipse_ok, point_ok, size_ok, bound. cbn [c_tl c_d e_tl e_sz px py sw sh]. repeat split; try lia; reflexivity. Qed.
