(* C05 - points() enumerates exactly the points contains() accepts: Rectangle, Circle, Ellipse.
   Statements only; proofs are in Proofs/{Scanline,Circle,Ellipse,Styledrect}.v.
   box_points r = the points of rectangle r in row-major order; X_ok = top-left within +-2^29 and extents
   within 0..2^29 (no saturating operation of the model is reached).
   "points X = filter (contains X) (box_points (bbox X))" says in one equation: every accepted point of the
   bounding box is yielded, nothing else is, each exactly once, in row-major order; together with
   X_contains_in_bbox (nothing outside the box is accepted) points() is exactly the set contains() accepts. *)
From EG Require Import Base.Prelude Model.Geometry Model.Style Model.Circle Model.Ellipse Model.Styledrect
  Proofs.Geometry Proofs.Scanline Proofs.Circle Proofs.Ellipse Proofs.Styledrect Proofs.Curvefacts Proofs.Circlefits.
From Coq Require Import Sorting.Sorted.

(* ---- Rectangle ---- *)
Theorem C05_rect_points_spec : forall r,
  rect_ok r -> points r = filter (contains r) (box_points (rect_bbox r)).
Proof. exact rect_points_spec. Qed.

Theorem C05_rect_contains_in_bbox : forall r p, contains r p = true -> contains (rect_bbox r) p = true.
Proof. exact rect_contains_in_bbox. Qed.

(* ---- machine ranges ----
   probe_ok c p  := every intermediate result of Circle::contains(p) fits the Rust type it is computed in (the exact
                    condition: outside it a build with overflow checks panics and a release build wraps; e.g.
                    Circle::new((0,0),11).contains((32773,5)) wraps to `true`).  For d < 2^16 this is
                    4*dist^2 <= i32::MAX, i.e. p within about 23170 px of the centre (C05_circle_probe_ok_exact).
   circle_mok c  := top-left within +-2^29 and d <= 2^15: every probe points() / draw() make themselves is probe_ok.
   eprobe_ok / ellipse_mok: the same for Ellipse::contains (i32 differences, u64 products); w*h <= 2^31.
   Under these hypotheses the unbounded model used below IS the machine computation (C05_*_machine_agrees). *)
Theorem C05_circle_probe_ok_exact : forall c p,
  circle_ok c -> c_d c <= 65535 -> (probe_ok c p <-> cdist2m c p <= i32_max).
Proof. exact probe_ok_iff. Qed.

Theorem C05_circle_machine_agrees : forall c p,
  probe_ok c p -> circle_contains_checked c p = Some (circle_contains c p).
Proof. exact circle_checked_agrees. Qed.

Theorem C05_circle_box_probes_ok : forall c p, circle_mok c -> In p (box_points (circle_bbox c)) -> probe_ok c p.
Proof. exact circle_points_probes_ok. Qed.

Theorem C05_ellipse_machine_agrees : forall e p,
  eprobe_ok e p -> ellipse_contains_checked e p = Some (ellipse_contains e p).
Proof. exact ellipse_checked_agrees. Qed.

Theorem C05_ellipse_box_probes_ok : forall e p, ellipse_mok e -> In p (box_points (ellipse_bbox e)) -> eprobe_ok e p.
Proof. exact ellipse_points_probes_ok. Qed.

(* ---- Circle: scanline iterator as written (first hit per row, mirrored right end, a row without hit
        ends the iteration) ---- *)
Theorem C05_circle_points_spec : forall c,
  circle_mok c -> circle_points c = filter (circle_contains c) (box_points (circle_bbox c)).
Proof. exact circle_points_spec_m. Qed.

Theorem C05_circle_contains_in_bbox : forall c p,
  circle_mok c -> probe_ok c p -> circle_contains c p = true -> contains (circle_bbox c) p = true.
Proof. exact circle_contains_in_bbox_m. Qed.

Theorem C05_circle_points_iff_contains : forall c p,
  circle_mok c -> probe_ok c p -> (In p (circle_points c) <-> circle_contains c p = true).
Proof. exact circle_points_in_m. Qed.

(* ---- Ellipse: same iterator, rows without hit are skipped (repair 4fd6e1d), test in 64 bit (c18b215) ---- *)
Theorem C05_ellipse_points_spec : forall e,
  ellipse_mok e -> ellipse_points e = filter (ellipse_contains e) (box_points (ellipse_bbox e)).
Proof. exact ellipse_points_spec_m. Qed.

Theorem C05_ellipse_contains_in_bbox : forall e p,
  ellipse_mok e -> eprobe_ok e p -> ellipse_contains e p = true -> contains (ellipse_bbox e) p = true.
Proof. exact ellipse_contains_in_bbox_m. Qed.

Theorem C05_ellipse_points_iff_contains : forall e p,
  ellipse_mok e -> eprobe_ok e p -> (In p (ellipse_points e) <-> ellipse_contains e p = true).
Proof. exact ellipse_points_in_m. Qed.

(* ---- what the filter form means, for any predicate: strictly row-major (hence each point once) ---- *)
Theorem C05_filter_of_box_is_strictly_row_major : forall (f : point -> bool) r,
  StronglySorted lt_yx (filter f (box_points r)).
Proof. exact filter_box_sorted. Qed.

Theorem C05_filter_of_box_has_no_duplicates : forall (f : point -> bool) r, NoDup (filter f (box_points r)).
Proof. exact filter_box_nodup. Qed.

Theorem C05_box_points_are_the_box : forall r p, In p (box_points r) <-> contains r p = true.
Proof. exact In_box_points. Qed.

(* ---- non-vacuity: the hypotheses are satisfiable and the functions compute something ---- *)
Example C05_circle_example :
  circle_contains_checked (Circ (P 0 0) 11) (P 32773 5) = None /\
  ellipse_contains_checked (Ell (P 0 0) (S 1001 500)) (P 536871412 250) = None /\ circle_contains_checked (Circ (P 0 0) 11) (P 23175 5) = Some false /\
  circle_ok (Circ (P (-2) 3) 3) /\
  circle_points (Circ (P (-2) 3) 3) = [P (-1) 3; P (-2) 4; P (-1) 4; P 0 4; P (-1) 5] /\
  ellipse_ok (Ell (P 0 0) (S 2 20)) /\
  (* thin ellipse whose first and last rows are empty (the case the repaired iterator skips) *)
  (length (ellipse_points (Ell (P 0 0) (S 2 20))) = 36%nat /\ hd_error (ellipse_points (Ell (P 0 0) (S 2 20))) = Some (P 0 1)).
Proof. unfold circle_ok, ellipse_ok, point_ok, size_ok, bound. cbn [c_tl c_d e_tl e_sz px py sw sh]. repeat split; try lia; reflexivity. Qed.
