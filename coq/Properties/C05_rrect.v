(* C05, RoundedRectangle part: points() enumerates exactly what contains() accepts.
   Statements only; proofs are in Proofs/Rrect.v.  Model: Model/Rrect.v (line-by-line model of
   rounded_rectangle/{mod,corner_radii,ellipse_quadrant,points}.rs as of the repairs 00acb94, bf458c0, 8393dcf).
   Domain: rr_dom r = rr_ok r (base rectangle within +-2^29 / extents within 2^29: no i32/u32 saturation; radii non-negative)
   /\ rr_arith_ok r = true (every intermediate of confine [u32 products radius x side], EllipseQuadrant / EllipseContains
   [u32, u64], RoundedRectangleContains::new and the scanlines [i32] fits its Rust type), so that the unbounded model and the
   code compute the same values.  C08_rrect_arith_fits: sides <= 16383 and radii <= 65535 suffice (display scale is far inside).
   styled_dom r st = rr_dom of stroke_area() and of fill_area(). *)
From EG Require Import Base.Prelude Model.Geometry Model.Style Model.Rrect Proofs.Geometry Proofs.Curvefacts Proofs.Rrect Proofs.Rrect2.
From Coq Require Import Sorting.Sorted.

(* contains() is false for every point outside the bounding box *)
Theorem C05_rrect_contains_in_bbox : forall r p,
  rr_dom r -> rr_contains r p = true -> contains (rr_bounding_box r) p = true.
Proof. intros; eapply rr_contains_in_bbox; eauto using rr_dom_ok, styled_dom_ok. Qed.

(* points() = the row-major enumeration of the bounding box filtered by contains():
   each accepted point once, in row-major order, all inside the box, nothing else.
   All corner radii (equal, unequal, oversized = confined, overlapping diagonal corners), all sizes incl. 0. *)
Theorem C05_rrect_points_spec : forall r,
  rr_dom r -> rr_points r = filter (rr_contains r) (points (rr_bounding_box r)).
Proof. intros; eapply rr_points_spec; eauto using rr_dom_ok, styled_dom_ok. Qed.

Theorem C05_rrect_points_iff_contains : forall r p,
  rr_dom r -> (In p (rr_points r) <-> rr_contains r p = true).
Proof. intros; eapply rr_points_iff; eauto using rr_dom_ok, styled_dom_ok. Qed.

Theorem C05_rrect_points_row_major_once : forall r,
  rr_dom r -> StronglySorted lt_yx (rr_points r) /\ NoDup (rr_points r).
Proof. intros r H. split; [apply rr_points_sorted|apply rr_points_nodup]; exact (rr_dom_ok r H). Qed.

(* non-vacuity: the shape of the repaired defect i (20x40, corners (1,10)) and a shape with overlapping
   diagonal corners satisfy the hypotheses and have non-trivial point sets *)
Example C05_rrect_nonvacuous :
  let r1 := rr_with_equal_corners (R (P 0 0) (S 20 40)) (S 1 10) in
  let r2 := RR (R (P (-3) 2) (S 10 10)) (CR (S 10 10) (S 0 0) (S 10 10) (S 0 0)) in
  rr_dom r1 /\ rr_dom r2 /\ length (rr_points r1) = 796%nat /\ rr_contains r1 (P 0 0) = false /\
  length (rr_points r2) = 58%nat.
Proof.
  cbv zeta. unfold rr_dom, rr_ok, rect_ok, point_ok, size_ok, radii_nonneg, sz_nonneg, bound.
  cbn [rr_rect rr_corners rr_with_equal_corners radii_equal r_tl r_tr r_br r_bl tl sz px py sw sh].
  repeat split; try lia; vm_compute; reflexivity.
Qed.
