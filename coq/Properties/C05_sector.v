(* C05, sector part: `Sector::points()` enumerates exactly the points `Sector::contains()` accepts -
   each once, in row-major order, all inside the bounding box - for ALL plane sectors (normals, operation),
   i.e. for all start/sweep angles whatever the trigonometry returns.  Statements only. *)
From EG Require Import Base.Prelude Model.Geometry Model.Sectormodel Proofs.Geometry Proofs.Sectormodel.
From Coq Require Import Sorting.Sorted.

(* points() = filter contains over the row-major points of the bounding box: no range hypothesis needed *)
Theorem C05_sector_points_spec : forall s,
  se_points s = filter (se_contains s) (points (se_bbox s)).
Proof. exact sector_points_contains. Qed.

(* contains() is false outside the bounding box *)
Theorem C05_sector_contains_in_bbox : forall s p,
  0 <= se_d s -> se_contains s p = true -> contains (se_bbox s) p = true.
Proof. exact sector_contains_in_bbox. Qed.

Theorem C05_sector_points_iff_contains : forall s p,
  rect_ok (se_bbox s) -> (In p (se_points s) <-> se_contains s p = true).
Proof. exact sector_points_iff. Qed.

(* strictly increasing in (y, x): row-major, each point once *)
Theorem C05_sector_points_row_major : forall s,
  rect_ok (se_bbox s) -> StronglySorted lt_yx (se_points s).
Proof. exact sector_points_sorted. Qed.

Theorem C05_sector_points_nodup : forall s, rect_ok (se_bbox s) -> NoDup (se_points s).
Proof. exact sector_points_nodup. Qed.

Example C05_sector_example :
  rect_ok (se_bbox (Sec (P (-3) 2) 9 (PS (P 511 887) (P 512 (-887)) OpIntersection))) /\
  se_points (Sec (P 0 0) 5 (PS (P (-1024) 0) (P 0 1024) OpIntersection))
  = [P 2 2; P 3 2; P 4 2; P 2 3; P 3 3; P 4 3; P 2 4; P 3 4].
Proof. split; [unfold rect_ok, point_ok, size_ok, bound; cbn; lia | vm_compute; reflexivity]. Qed.
