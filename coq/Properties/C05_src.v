(* C05, translator tie: Circle / Ellipse arithmetic (src/primitives/circle/mod.rs, ellipse/mod.rs, PointExt::length_squared),
   regenerated from the source on every run by translate/r2c (coq/Gen/SrcCircle.v), equals coq/Model/Circle.v and
   coq/Model/Ellipse.v.  Statements only (proofs: Proofs/SrcCircle.v).
   Hypotheses: the diameter / size is a value of i32 (the code casts it to i32 in `Point + Size`), the squared distance
   of Circle::contains is a value of u32 (it is computed in i32 and cast), the doubled probe offset of Ellipse::contains
   is a value of i32 (it is cast to i64).  All are implied by the src_probe_ok / circle_mok hypotheses of the C05 theorems. *)
From EG Require Import Base.Prelude Base.Casts Model.Geometry Model.Style Model.Circle Model.Ellipse.
From EG Require Import Gen.SrcGeometry Gen.SrcCircle Proofs.SrcGeometry Proofs.SrcCircle.

Theorem C05_src_length_squared_is_model : forall p, src_Point_length_squared p = length_squared p.
Proof. exact src_length_squared_eq. Qed.
Theorem C05_src_diameter_to_threshold_is_model : forall d, src_diameter_to_threshold d = diameter_to_threshold d.
Proof. exact src_diameter_to_threshold_eq. Qed.
Theorem C05_src_circle_threshold_is_model : forall c, src_Circle_threshold c = circle_threshold c.
Proof. exact src_Circle_threshold_eq. Qed.
Theorem C05_src_circle_bounding_box_is_model : forall c, src_Circle_bounding_box c = circle_bbox c.
Proof. exact src_Circle_bounding_box_eq. Qed.
Theorem C05_src_circle_center_2x_is_model : forall c, 0 <= c_d c <= i32_max -> src_Circle_center_2x c = circle_center_2x c.
Proof. exact src_Circle_center_2x_eq. Qed.
Theorem C05_src_circle_center_is_model : forall c, 0 <= c_d c <= u32_max -> src_Circle_center c = circle_center c.
Proof. exact src_Circle_center_eq. Qed.
Theorem C05_src_circle_with_center_is_model : forall ctr d, 0 <= d <= u32_max -> src_Circle_with_center ctr d = circle_with_center ctr d.
Proof. exact src_Circle_with_center_eq. Qed.
Theorem C05_src_circle_offset_is_model : forall c n,
  0 <= c_d c <= u32_max -> i32_min <= n <= i32_max -> src_Circle_offset c n = circle_offset c n.
Proof. exact src_Circle_offset_eq. Qed.
Theorem C05_src_circle_contains_is_model : forall c p,
  0 <= c_d c <= i32_max ->
  length_squared (psub (circle_center_2x c) (P (px p * 2) (py p * 2))) <= u32_max ->
  src_Circle_contains c p = circle_contains c p.
Proof. exact src_Circle_contains_eq. Qed.

Theorem C05_src_ellipse_center_2x_is_model : forall e, size_i32 (e_sz e) -> src_Ellipse_center_2x e = ellipse_center_2x e.
Proof. exact src_Ellipse_center_2x_eq. Qed.
Theorem C05_src_ellipse_center_is_model : forall e, size_u32 (e_sz e) -> src_Ellipse_center e = ellipse_center e.
Proof. exact src_Ellipse_center_eq. Qed.
Theorem C05_src_ellipse_offset_is_model : forall e n,
  size_u32 (e_sz e) -> i32_min <= n <= i32_max -> src_Ellipse_offset e n = ellipse_offset e n.
Proof. exact src_Ellipse_offset_eq. Qed.
Theorem C05_src_ellipse_test_new_is_model : forall s, size_u32 s -> src_EllipseContains_new s = ellipse_test_new s.
Proof. exact src_EllipseContains_new_eq. Qed.
Theorem C05_src_ellipse_test_contains_is_model : forall t p,
  i32_min <= px p <= i32_max -> i32_min <= py p <= i32_max ->
  src_EllipseContains_contains t p = ellipse_test_contains t p.
Proof. exact src_EllipseContains_contains_eq. Qed.
Theorem C05_src_ellipse_contains_is_model : forall e p,
  size_i32 (e_sz e) ->
  i32_min <= px p * 2 - px (ellipse_center_2x e) <= i32_max ->
  i32_min <= py p * 2 - py (ellipse_center_2x e) <= i32_max ->
  src_Ellipse_contains e p = ellipse_contains e p.
Proof. exact src_Ellipse_contains_eq. Qed.

Example C05_src_nonvacuous :
  src_Circle_contains (Circ (P 0 0) 5) (P 2 2) = true /\ src_Circle_contains (Circ (P 0 0) 5) (P 0 0) = false /\
  src_Ellipse_contains (Ell (P 0 0) (S 7 3)) (P 3 1) = true /\ src_Ellipse_contains (Ell (P 0 0) (S 7 3)) (P 0 0) = false.
Proof. repeat split; vm_compute; reflexivity. Qed.
