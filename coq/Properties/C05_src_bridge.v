(* C05, translator tie (domain bridge; audit3 1.1, A3): the domain of the property theorems implies the hypotheses of the src
   theorems.  Circle: circle_mok c and probe_ok c p (Proofs/Circlefits.v, the domain of C05's circle theorems) imply the two
   hypotheses of C05_src_circle_contains_is_model, so the generated Circle::contains is the model's on the property's own domain.
   Rounded rectangle: Proofs.Rrect.rr_ok (the property's) implies src_rr_ok (the src layer's; the two used to share a name);
   src_rprobe_ok r p collects the four probe conditions of C05_src_rounded_rectangle_contains_is_model - the property quantifies
   over all probes of the exact-integer model, the source computes `p * 2 - center_2x` in i32, so far probes are outside the tie.
   Statements only (proofs: Proofs/SrcBridges.v). *)
From EG Require Import Base.Prelude Base.Casts Model.Geometry Model.Rrect Model.Circle Proofs.Geometry.
From EG Require Proofs.Rrect Proofs.Circlefits.
From EG Require Import Gen.SrcGeometry Gen.SrcCircle Gen.SrcRrect Gen.SrcRrect2 Proofs.SrcGeometry Proofs.SrcRrect2 Proofs.SrcBridges.

Theorem C05_src_circle_domain_bridge : forall c p, Proofs.Circlefits.circle_mok c -> Proofs.Circlefits.probe_ok c p ->
  0 <= c_d c <= i32_max /\ length_squared (psub (circle_center_2x c) (P (px p * 2) (py p * 2))) <= u32_max.
Proof. exact circle_bridge. Qed.
Theorem C05_src_circle_contains_on_property_domain : forall c p, Proofs.Circlefits.circle_mok c -> Proofs.Circlefits.probe_ok c p ->
  src_Circle_contains c p = circle_contains c p.
Proof. exact src_circle_contains_on_property_domain. Qed.
Theorem C05_src_rrect_domain_bridge : forall r, Proofs.Rrect.rr_ok r -> src_rr_ok r.
Proof. exact rr_ok_bridge. Qed.
Theorem C05_src_rrect_contains_on_probe : forall r p, src_rr_ok r -> src_rprobe_ok r p ->
  src_RoundedRectangle_contains r p = rr_contains r p.
Proof. exact src_rr_contains_on_probe. Qed.

Example C05_src_bridge_nonvacuous :
  let r := RR (R (P 0 0) (S 10 8)) (CR (S 3 3) (S 3 3) (S 3 3) (S 3 3)) in src_rprobe_ok r (P 1 1) /\ src_rprobe_ok r (P (-5) 100).
Proof. cbv zeta. split; unfold src_rprobe_ok, src_probe_ok; vm_compute; repeat split; discriminate. Qed.
