(* C05, translator tie (definitions that no theorem referenced; audit3): RoundedRectangle::contains as a whole
   (`RoundedRectangleContains::new(self).contains(point)`; its two halves are C05_src_rrect_contains_new_is_model /
   C05_src_rrect_contains_is_model) against Rrect.rr_contains, and Ellipse::new; regenerated from the source on every run by
   translate/r2c (coq/Gen/SrcRrect2.v, coq/Gen/SrcCircle.v).  Hypotheses as in C05_src_rrect2 (src_rr_ok, src_probe_ok on the four corner
   quadrants the constructor computes).  Statements only (proofs: Proofs/SrcHelpers.v). *)
From EG Require Import Base.Prelude Base.Casts Model.Geometry Model.Style Model.Circle Model.Ellipse Model.Rrect.
From EG Require Import Gen.SrcGeometry Gen.SrcCircle Gen.SrcRrect Gen.SrcRrect2 Proofs.SrcGeometry Proofs.SrcRrect2 Proofs.SrcHelpers.

Theorem C05_src_rounded_rectangle_contains_is_model : forall r p, src_rr_ok r ->
  let c := src_RoundedRectangleContains_new r in
  src_probe_ok (EllipseQuadrant_center_2x (RoundedRectangleContains_top_left c)) p ->
  src_probe_ok (EllipseQuadrant_center_2x (RoundedRectangleContains_top_right c)) p ->
  src_probe_ok (EllipseQuadrant_center_2x (RoundedRectangleContains_bottom_left c)) p ->
  src_probe_ok (EllipseQuadrant_center_2x (RoundedRectangleContains_bottom_right c)) p ->
  src_RoundedRectangle_contains r p = rr_contains r p.
Proof. exact src_rr_contains_eq. Qed.

Theorem C05_src_ellipse_new_is_model : forall t s, src_Ellipse_new t s = Ell t s.
Proof. exact src_ellipse_new_eq. Qed.

Example C05_src_helpers_nonvacuous :
  let r := RR (R (P 0 0) (S 10 8)) (CR (S 3 3) (S 3 3) (S 3 3) (S 3 3)) in
  src_RoundedRectangle_contains r (P 0 0) = rr_contains r (P 0 0) /\ rr_contains r (P 0 0) = false /\ rr_contains r (P 1 1) = true.
Proof. repeat split; vm_compute; reflexivity. Qed.
