(* C05 / C06, translator tie (rounded rectangle part): CornerRadii::new and CornerRadii::confine of
   src/primitives/rounded_rectangle/corner_radii.rs, regenerated from the source on every run by translate/r2c
   (coq/Gen/SrcRrect.v; the loop over the four sides is an array-literal `for`, which the translator unrolls),
   equal radii_equal / confine of Model/Rrect.v.  No hypotheses.  Statements only (proofs: Proofs/SrcRrect.v). *)
From EG Require Import Base.Prelude Base.Casts Model.Geometry Model.Rrect Gen.SrcGeometry Gen.SrcRrect Proofs.SrcRrect.

Theorem C05_src_rrect_radii_new_is_model : forall s, src_CornerRadii_new s = radii_equal s.
Proof. exact src_CornerRadii_new_eq. Qed.
Theorem C05_src_rrect_confine_is_model : forall c bb, src_CornerRadii_confine c bb = confine c bb.
Proof. exact src_CornerRadii_confine_eq. Qed.

Example C05_src_rrect_nonvacuous :
  src_CornerRadii_confine (CR (S 10 10) (S 10 10) (S 10 10) (S 10 10)) (S 10 40) = CR (S 5 5) (S 5 5) (S 5 5) (S 5 5).
Proof. vm_compute. reflexivity. Qed.
