(* C05 / C18 / C06, translator tie (rounded rectangle, part 2): EllipseQuadrant::new / contains, RoundedRectangle::
   get_confined_corner_quadrant / offset / translate / bounding_box, RoundedRectangleContains::new / contains,
   regenerated from the source on every run by translate/r2c (coq/Gen/SrcRrect2.v), equal Model/Rrect.v through the
   field-by-field conversions eq_of / rrc_of (Proofs/SrcRrect2.v).  Hypotheses (src_rr_ok, radius_ok, src_probe_ok): the extents and
   doubled probe offsets the code casts to i32 / i64 are values of i32.  Statements only. *)
From EG Require Import Base.Prelude Base.Casts Model.Geometry Model.Style Model.Circle Model.Ellipse Model.Rrect.
From EG Require Import Gen.SrcGeometry Gen.SrcCircle Gen.SrcRrect Gen.SrcRrect2 Proofs.SrcGeometry Proofs.SrcRrect2.

Theorem C05_src_rrect_quadrant_new_is_model : forall tl0 radius q,
  radius_ok radius -> eq_of (src_EllipseQuadrant_new tl0 radius q) = eq_new tl0 radius q.
Proof. exact src_eq_new_eq. Qed.
Theorem C05_src_rrect_quadrant_contains_is_model : forall q p,
  src_probe_ok (EllipseQuadrant_center_2x q) p -> src_EllipseQuadrant_contains q p = eq_contains (eq_of q) p.
Proof. exact src_eq_contains_eq. Qed.
Theorem C05_src_rrect_corner_quadrant_is_model : forall r q,
  src_rr_ok r -> eq_of (src_RoundedRectangle_get_confined_corner_quadrant r q) = corner_quadrant r q.
Proof. exact src_corner_quadrant_eq. Qed.
Theorem C05_src_rrect_contains_new_is_model : forall r, src_rr_ok r -> rrc_of (src_RoundedRectangleContains_new r) = rrc_new r.
Proof. exact src_rrc_new_eq. Qed.
Theorem C05_src_rrect_contains_is_model : forall c p,
  src_probe_ok (EllipseQuadrant_center_2x (RoundedRectangleContains_top_left c)) p ->
  src_probe_ok (EllipseQuadrant_center_2x (RoundedRectangleContains_top_right c)) p ->
  src_probe_ok (EllipseQuadrant_center_2x (RoundedRectangleContains_bottom_left c)) p ->
  src_probe_ok (EllipseQuadrant_center_2x (RoundedRectangleContains_bottom_right c)) p ->
  src_RoundedRectangleContains_contains c p = rrc_contains (rrc_of c) p.
Proof. exact src_rrc_contains_eq. Qed.
Theorem C05_src_rrect_offset_is_model : forall r n,
  size_u32 (sz (rr_rect r)) -> i32_min <= n <= i32_max -> src_RoundedRectangle_offset r n = rr_offset r n.
Proof. exact src_rr_offset_eq. Qed.
Theorem C05_src_rrect_translate_is_model : forall r d, src_RoundedRectangle_translate r d = rr_translate r d.
Proof. exact src_rr_translate_eq. Qed.

Example C05_src_rrect2_nonvacuous :
  let r := RR (R (P 0 0) (S 10 8)) (CR (S 3 3) (S 3 3) (S 3 3) (S 3 3)) in
  src_RoundedRectangle_contains r (P 0 0) = false /\ src_RoundedRectangle_contains r (P 1 1) = true /\
  src_RoundedRectangle_contains r (P 5 0) = true.
Proof. repeat split; vm_compute; reflexivity. Qed.
