(* C05, triangle part - `points()` enumerates exactly what `contains()` accepts (Triangle with non-zero area).
   Statements only; proofs are in Proofs/Triangle.v.  Vocabulary: see Properties/C19.v
   (tri_ok = coordinates within +-8192, in_closed_tri, tri_fill_edges, lt_yx). *)
From EG Require Import Base.Prelude Model.Geometry Model.Line Model.Triangle Proofs.Geometry Proofs.Triangle.
From Coq Require Import Sorting.Sorted.

(* contains() is false for every point outside the bounding box *)
Theorem C05_tri_contains_in_bbox : forall t p, tri_contains t p = true -> contains (tri_bounding_box t) p = true.
Proof. exact tri_contains_in_bbox. Qed.

(* superset direction: every point accepted by contains() is yielded by points() *)
Theorem C05_tri_contains_in_points : forall t p, tri_ok t -> area_doubled t <> 0 ->
  tri_contains t p = true -> In p (tri_points t).
Proof. exact contains_in_points. Qed.

(* points(): each point once, in row-major order, all inside the bounding box *)
Theorem C05_tri_points_row_major : forall t, tri_ok t -> StronglySorted lt_yx (tri_points t).
Proof. exact tri_points_row_major. Qed.

Theorem C05_tri_points_once : forall t, tri_ok t -> NoDup (tri_points t).
Proof. exact tri_points_NoDup. Qed.

Theorem C05_tri_points_in_bbox : forall t q, tri_ok t -> In q (tri_points t) -> contains (tri_bounding_box t) q = true.
Proof. exact points_in_bbox. Qed.

(* what contains() accepts, exactly: the closed triangle and the Bresenham pixels of the three sorted edges *)
Theorem C05_tri_contains_spec : forall t p, tri_ok t -> area_doubled t <> 0 ->
  (tri_contains t p = true <-> in_closed_tri t p \/ In p (tri_fill_edges t)).
Proof. exact tri_contains_spec. Qed.

(* subset direction: every point yielded by points() is accepted by contains() *)
Theorem C05_tri_points_in_contains : forall t q, tri_ok t -> area_doubled t <> 0 ->
  In q (tri_points t) -> tri_contains t q = true.
Proof. exact points_in_contains. Qed.

(* C05 for Triangle in one statement (DESIGN: X_points_spec): points() is the row-major filter of contains() over the
   points of the bounding box - exactly the accepted points, each once, in row-major order, all inside the box *)
Theorem C05_tri_points_spec : forall t, tri_ok t -> area_doubled t <> 0 ->
  tri_points t = filter (tri_contains t) (points (tri_bounding_box t)).
Proof. exact tri_points_filter_contains. Qed.

(* non-vacuity: contains() over the bounding box of a triangle equals its points (checked by computation) *)
Example C05_tri_example :
  let t := T (P 0 0) (P 5 2) (P 1 4) in
  tri_ok t /\ area_doubled t <> 0 /\
  filter (tri_contains t) (points (tri_bounding_box t)) = tri_points t /\ length (tri_points t) = 16%nat.
Proof. cbv zeta. repeat split; try (vm_compute; reflexivity); try (unfold tpoint_ok, tbound; cbn; lia). Qed.
