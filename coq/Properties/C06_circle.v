(* C06 - Stroke and fill of closed shapes follow fill_area()/stroke_area(): Rectangle, Circle, Ellipse.
   Statements only; proofs in Proofs/{Scanline,Circlestyled,Ellipsestyled,Styledrect}.v.

   render calls p      = colour a correct target shows at p after the fill_solid calls of draw() (later calls win)
   last_write pixels p = colour at p after draw_iter over the items of pixels()
   styled_map F S st p = if F p then fill_color st else if S p && (0 <? stroke_width st) then stroke_color st else None
                         (F, S = contains() of the shapes returned by fill_area() / stroke_area(); a colour that is
                          not set paints nothing)
   X_sok / style_ok    = coordinates, extents and stroke width within 2^27 (no saturating operation is reached, also
                         not in the stroke area).  No other hypothesis: every stroke width (also wider than the
                         shape, where the fill area collapses in one or both dimensions), the three alignments, colours
                         present or absent, zero-sized shapes.  The rectangle model covers the solid stroke style
                         (the property is about solid strokes); the circle / ellipse code does not look at the stroke style except through
                         fill_area() (not shrunk for Dotted) - their theorems hold for both kinds, the correspondence runs Solid only.
   Machine range: squared distances / products are unbounded in the model; they equal the code's i32/u32/u64 arithmetic when
                         the stroke area satisfies d + 2*width <= 2^15 resp. (w + 2*width)(h + 2*width) <= 2^31 (theorems
                         C06_*_areas_in_machine_range + C05_*_box_probes_ok). *)
From EG Require Import Base.Prelude Model.Geometry Model.Style Model.Circle Model.Ellipse Model.Styledrect
  Proofs.Geometry Proofs.Scanline Proofs.Circle Proofs.Ellipse Proofs.Circlestyled Proofs.Ellipsestyled Proofs.Styledrect Proofs.Pixnodup Proofs.Curvefacts Proofs.Circlefits.
From Coq Require Import Sorting.Sorted.

(* ---- the split of the stroke width (Inside: all inside; Outside: all outside; Center: the larger half inside) ---- *)
Theorem C06_stroke_split : forall st,
  style_ok st ->
  inside_stroke_width st + outside_stroke_width st = stroke_width st /\
  match stroke_alignment st with
  | Inside => outside_stroke_width st = 0
  | Outside => inside_stroke_width st = 0
  | Center => outside_stroke_width st <= inside_stroke_width st <= outside_stroke_width st + 1
  end.
Proof. exact stroke_split. Qed.

(* ... and for EVERY u32 stroke width, the saturating operations included: the only width whose parts do not add up is
   u32::MAX with Center alignment (saturating_add(1)); the offsets handed to OffsetOutline::offset saturate at i32::MAX *)
Theorem C06_stroke_split_saturating : forall st,
  0 <= stroke_width st <= u32_max ->
  (inside_stroke_width st + outside_stroke_width st = stroke_width st \/
   (stroke_alignment st = Center /\ stroke_width st = u32_max /\
    inside_stroke_width st = 2147483647 /\ outside_stroke_width st = 2147483647)) /\
  0 <= stroke_area_offset st <= i32_max /\ - i32_max <= fill_area_offset st <= 0 /\
  stroke_area_offset st = Z.min (outside_stroke_width st) i32_max /\
  (stroke_kind st = Solid -> fill_area_offset st = - Z.min (inside_stroke_width st) i32_max).
Proof. exact stroke_split_sat. Qed.

(* machine range: when the stroke area (shape + 2 * stroke width) is within the range of C05, both areas are, so every
   distance / product draw() and pixels() compute fits its Rust type and the unbounded model is the machine computation *)
Theorem C06_circle_areas_in_machine_range : forall c st,
  circle_sok c -> style_ok st -> c_d c + 2 * stroke_width st <= 32768 ->
  circle_mok (circle_stroke_area c st) /\ circle_mok (circle_fill_area c st).
Proof. exact circle_styled_machine_ok. Qed.

Theorem C06_ellipse_areas_in_machine_range : forall e st,
  ellipse_sok e -> style_ok st ->
  (sw (e_sz e) + 2 * stroke_width st) * (sh (e_sz e) + 2 * stroke_width st) <= 2147483648 ->
  ellipse_mok (ellipse_stroke_area e st) /\ ellipse_mok (ellipse_fill_area e st).
Proof. exact ellipse_styled_machine_ok. Qed.

(* ---- Rectangle ---- *)
Theorem C06_rect_styled_spec : forall r st p,
  rect_sok r -> style_ok st -> stroke_kind st = Solid ->
  render (rect_draw_styled r st) p =
  styled_map (contains (rect_fill_area r st)) (contains (rect_stroke_area r st)) st p.
Proof. exact rect_styled_spec. Qed.

Theorem C06_rect_pixels_spec : forall r st p,
  rect_sok r -> style_ok st -> stroke_kind st = Solid ->
  last_write (rect_styled_pixels r st) p =
  styled_map (contains (rect_fill_area r st)) (contains (rect_stroke_area r st)) st p.
Proof. exact rect_pixels_spec. Qed.

Theorem C06_rect_pixels_no_duplicates : forall r st,
  rect_sok r -> style_ok st -> NoDup (map fst (rect_styled_pixels r st)).
Proof. exact rect_pixels_nodup. Qed.

Theorem C06_rect_stroke_area_grow : forall r st,
  rect_sok r -> style_ok st -> 1 <= sw (sz r) -> 1 <= sh (sz r) ->
  rect_stroke_area r st =
  R (P (px (tl r) - outside_stroke_width st) (py (tl r) - outside_stroke_width st))
    (S (sw (sz r) + 2 * outside_stroke_width st) (sh (sz r) + 2 * outside_stroke_width st)).
Proof. exact rect_stroke_area_grow. Qed.

Theorem C06_rect_fill_area_shrink : forall r st,
  rect_sok r -> style_ok st -> stroke_kind st = Solid ->
  let ins := inside_stroke_width st in
  let fa := rect_fill_area r st in
  (2 * ins < sw (sz r) -> px (tl fa) = px (tl r) + ins /\ sw (sz fa) = sw (sz r) - 2 * ins) /\
  (2 * ins < sh (sz r) -> py (tl fa) = py (tl r) + ins /\ sh (sz fa) = sh (sz r) - 2 * ins) /\
  (sw (sz r) <= 2 * ins \/ sh (sz r) <= 2 * ins -> forall p, contains fa p = false).
Proof. exact rect_fill_area_shrink. Qed.

Theorem C06_rect_inside_stroke_stays_in : forall r st p,
  rect_sok r -> style_ok st -> stroke_kind st = Solid -> stroke_alignment st = Inside ->
  render (rect_draw_styled r st) p <> None -> contains r p = true.
Proof. exact rect_inside_stroke_stays_in. Qed.

Theorem C06_rect_outside_stroke_stays_out : forall r st p,
  rect_sok r -> style_ok st -> stroke_kind st = Solid -> stroke_alignment st = Outside ->
  contains r p = true -> render (rect_draw_styled r st) p = fill_color st.
Proof. exact rect_outside_stroke_stays_out. Qed.

(* ---- Circle ---- *)
Theorem C06_circle_styled_spec : forall c st p,
  circle_sok c -> style_ok st ->
  render (circle_draw_styled c st) p =
  styled_map (circle_contains (circle_fill_area c st)) (circle_contains (circle_stroke_area c st)) st p.
Proof. exact circle_styled_spec. Qed.

Theorem C06_circle_pixels_spec : forall c st p,
  circle_sok c -> style_ok st ->
  last_write (circle_styled_pixels c st) p =
  styled_map (circle_contains (circle_fill_area c st)) (circle_contains (circle_stroke_area c st)) st p.
Proof. exact circle_pixels_spec. Qed.

(* pixels() yields its items in strictly row-major order (lt_yx), hence no point twice *)
Theorem C06_circle_pixels_row_major : forall c st,
  circle_sok c -> style_ok st -> StronglySorted lt_yx (map fst (circle_styled_pixels c st)).
Proof. exact circle_pixels_sorted. Qed.

Theorem C06_circle_pixels_no_duplicates : forall c st,
  circle_sok c -> style_ok st -> NoDup (map fst (circle_styled_pixels c st)).
Proof. exact circle_pixels_nodup. Qed.

Theorem C06_circle_stroke_area_grow : forall c st,
  circle_sok c -> style_ok st -> 1 <= c_d c ->
  circle_stroke_area c st =
  Circ (P (px (c_tl c) - outside_stroke_width st) (py (c_tl c) - outside_stroke_width st))
       (c_d c + 2 * outside_stroke_width st).
Proof. exact circle_stroke_area_grow. Qed.

Theorem C06_circle_fill_area_shrink : forall c st,
  circle_sok c -> style_ok st -> stroke_kind st = Solid ->
  let ins := inside_stroke_width st in
  (2 * ins < c_d c -> circle_fill_area c st = Circ (P (px (c_tl c) + ins) (py (c_tl c) + ins)) (c_d c - 2 * ins)) /\
  (c_d c <= 2 * ins -> forall p, circle_contains (circle_fill_area c st) p = false).
Proof. exact circle_fill_area_shrink. Qed.

Theorem C06_circle_inside_stroke_stays_in : forall c st p,
  circle_sok c -> style_ok st -> stroke_alignment st = Inside ->
  render (circle_draw_styled c st) p <> None -> circle_contains c p = true.
Proof. exact circle_inside_stroke_stays_in. Qed.

Theorem C06_circle_outside_stroke_stays_out : forall c st p,
  circle_sok c -> style_ok st -> stroke_alignment st = Outside ->
  circle_contains c p = true -> render (circle_draw_styled c st) p = fill_color st.
Proof. exact circle_outside_stroke_stays_out. Qed.

(* ---- Ellipse ---- *)
Theorem C06_ellipse_styled_spec : forall e st p,
  ellipse_sok e -> style_ok st ->
  render (ellipse_draw_styled e st) p =
  styled_map (ellipse_contains (ellipse_fill_area e st)) (ellipse_contains (ellipse_stroke_area e st)) st p.
Proof. exact ellipse_styled_spec. Qed.

Theorem C06_ellipse_pixels_spec : forall e st p,
  ellipse_sok e -> style_ok st ->
  last_write (ellipse_styled_pixels e st) p =
  styled_map (ellipse_contains (ellipse_fill_area e st)) (ellipse_contains (ellipse_stroke_area e st)) st p.
Proof. exact ellipse_pixels_spec. Qed.

Theorem C06_ellipse_pixels_row_major : forall e st,
  ellipse_sok e -> style_ok st -> StronglySorted lt_yx (map fst (ellipse_styled_pixels e st)).
Proof. exact ellipse_pixels_sorted. Qed.

Theorem C06_ellipse_pixels_no_duplicates : forall e st,
  ellipse_sok e -> style_ok st -> NoDup (map fst (ellipse_styled_pixels e st)).
Proof. exact ellipse_pixels_nodup. Qed.

Theorem C06_ellipse_stroke_area_grow : forall e st,
  ellipse_sok e -> style_ok st -> 1 <= sw (e_sz e) -> 1 <= sh (e_sz e) ->
  ellipse_stroke_area e st =
  Ell (P (px (e_tl e) - outside_stroke_width st) (py (e_tl e) - outside_stroke_width st))
      (S (sw (e_sz e) + 2 * outside_stroke_width st) (sh (e_sz e) + 2 * outside_stroke_width st)).
Proof. exact ellipse_stroke_area_grow. Qed.

Theorem C06_ellipse_fill_area_shrink : forall e st,
  ellipse_sok e -> style_ok st -> stroke_kind st = Solid ->
  let ins := inside_stroke_width st in
  let fa := ellipse_fill_area e st in
  (2 * ins < sw (e_sz e) -> px (e_tl fa) = px (e_tl e) + ins /\ sw (e_sz fa) = sw (e_sz e) - 2 * ins) /\
  (2 * ins < sh (e_sz e) -> py (e_tl fa) = py (e_tl e) + ins /\ sh (e_sz fa) = sh (e_sz e) - 2 * ins) /\
  (sw (e_sz e) <= 2 * ins \/ sh (e_sz e) <= 2 * ins -> forall p, ellipse_contains fa p = false).
Proof. exact ellipse_fill_area_shrink. Qed.

Theorem C06_ellipse_inside_stroke_stays_in : forall e st p,
  ellipse_sok e -> style_ok st -> stroke_alignment st = Inside ->
  render (ellipse_draw_styled e st) p <> None -> ellipse_contains e p = true.
Proof. exact ellipse_inside_stroke_stays_in. Qed.

Theorem C06_ellipse_outside_stroke_stays_out : forall e st p,
  ellipse_sok e -> style_ok st -> stroke_alignment st = Outside ->
  ellipse_contains e p = true -> render (ellipse_draw_styled e st) p = fill_color st.
Proof. exact ellipse_outside_stroke_stays_out. Qed.

(* ---- non-vacuity: a circle of diameter 5 with a centred stroke of width 3 (2 inside, 1 outside), both colours ---- *)
Example C06_example :
  let c := Circ (P 1 1) 5 in
  let st := Style (Some 2) (Some 1) 3 Center Solid in
  circle_sok c /\ style_ok st /\
  circle_stroke_area c st = Circ (P 0 0) 7 /\ circle_fill_area c st = Circ (P 3 3) 1 /\
  render (circle_draw_styled c st) (P 3 3) = Some 2 /\ render (circle_draw_styled c st) (P 3 0) = Some 1 /\
  render (circle_draw_styled c st) (P 0 0) = None /\ last_write (circle_styled_pixels c st) (P 2 3) = Some 1.
Proof.
  cbv zeta. unfold circle_sok, point_sok, style_ok, sbound. cbn [c_tl c_d px py stroke_width].
  repeat split; try lia; reflexivity.
Qed.
