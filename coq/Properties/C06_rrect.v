(* C06, RoundedRectangle part: stroke and fill follow fill_area() / stroke_area().
   Statements only; proofs are in Proofs/Rrect.v.  Model: Model/Rrect.v + Model/Style.v
   (rounded_rectangle/styled.rs as repaired by 706995e, common/{scanline,styled_scanline}.rs, primitive_style.rs).
   pix_get (writes_of_calls bb calls) p = colour of p after the fill_solid calls of draw_styled on a target with
   bounding box bb (None = untouched).  styled_ok r st: stroke area and fill area lie in the no-saturation range.
   KNOWN FINDING (FINDINGS-C06.md, known_findings.txt class K06_rrect_fill_outside_stroke): the implementation violates the
   property when some fill_area() point lies outside stroke_area(); the theorem excludes exactly that class and
   C06_rrect_styled_spec_refuted shows the exclusion is necessary. *)
From EG Require Import Base.Prelude Model.Geometry Model.Style Model.Rrect Proofs.Geometry Proofs.Rrect.

(* fill colour iff fill_area() contains the point; stroke colour iff stroke_area() contains it, fill_area() does not
   and the width is non-zero; everything else untouched; nothing outside the target box *)
Theorem C06_rrect_styled_spec : forall r st bb p,
  styled_ok r st -> K06_rrect_fill_outside_stroke r st = false ->
  pix_get (writes_of_calls bb (rr_draw r st)) p =
  if contains bb p
  then (if rr_contains (rr_fill_area r st) p then fill_color st
        else if rr_contains (rr_stroke_area r st) p && (0 <? stroke_width st) then stroke_color st else None)
  else None.
Proof. exact rr_styled_spec. Qed.

(* without the exclusion (every input in range): what draw_styled paints in terms of the two areas *)
Theorem C06_rrect_draw_image : forall r st bb p,
  styled_ok r st ->
  pix_get (writes_of_calls bb (rr_draw r st)) p =
  if contains bb p
  then match effective_stroke_color st with
       | Some sc => if rr_contains (rr_stroke_area r st) p
                    then (if rr_contains (rr_fill_area r st) p then fill_color st else Some sc) else None
       | None => if rr_contains (rr_fill_area r st) p then fill_color st else None
       end
  else None.
Proof. exact rr_draw_pixmap. Qed.

(* the same for pixels() *)
Theorem C06_rrect_pixels_image : forall r st bb p,
  styled_ok r st ->
  pix_get (writes_of_pixels bb (rr_pixels r st)) p =
  if contains bb p
  then (if rr_contains (rr_stroke_area r st) p
        then (if rr_contains (rr_fill_area r st) p then fill_color st else stroke_color st) else None)
  else None.
Proof. exact rr_pixels_pixmap. Qed.

(* the finding is machine-checked: an input in range, inside the class, on which the unrestricted statement fails *)
Theorem C06_rrect_styled_spec_refuted :
  exists r st bb p,
    styled_ok r st /\ rr_ok r /\ K06_rrect_fill_outside_stroke r st = true /\ contains bb p = true /\
    pix_get (writes_of_calls bb (rr_draw r st)) p <>
    (if rr_contains (rr_fill_area r st) p then fill_color st
     else if rr_contains (rr_stroke_area r st) p && (0 <? stroke_width st) then stroke_color st else None).
Proof. exact rr_styled_spec_refuted. Qed.

(* geometry of the two areas: the base rectangle grown by the outside part / shrunk by the inside part of the width
   (C16_offset_grow / C16_offset_shrink describe `offset`), every corner radius changed by the same amount *)
Theorem C06_rrect_area_boxes : forall r st,
  rr_rect (rr_stroke_area r st) = offset (rr_rect r) (sat_u32_to_i32 (outside_stroke_width st)) /\
  rr_rect (rr_fill_area r st) =
    offset (rr_rect r) (match stroke_kind st with Solid => - sat_u32_to_i32 (inside_stroke_width st) | Dotted => 0 end).
Proof. intros r st. split; reflexivity. Qed.

Theorem C06_rrect_inside_stroke_stays_in : forall r st bb p,
  styled_ok r st -> rr_ok r -> radii_u32 r -> K06_rrect_fill_outside_stroke r st = false ->
  stroke_alignment st = Inside ->
  pix_get (writes_of_calls bb (rr_draw r st)) p <> None -> rr_contains r p = true.
Proof. exact rr_inside_stroke_stays_in. Qed.

Theorem C06_rrect_outside_stroke_stays_out : forall r st bb p,
  styled_ok r st -> rr_ok r -> radii_u32 r -> K06_rrect_fill_outside_stroke r st = false ->
  stroke_alignment st = Outside -> rr_contains r p = true ->
  pix_get (writes_of_calls bb (rr_draw r st)) p = if contains bb p then fill_color st else None.
Proof. exact rr_outside_stroke_stays_out. Qed.

(* non-vacuity: the shape of the repaired defect j (4x20, inside stroke 3, collapsed fill) is in range, outside the class,
   and paints the stroke colour over the whole shape *)
Example C06_rrect_nonvacuous :
  let r := rr_with_equal_corners (R (P 0 0) (S 4 20)) (S 1 1) in
  let st := Style (Some 5) (Some 7) 3 Inside Solid in
  K06_rrect_fill_outside_stroke r st = false /\
  pix_get (writes_of_calls (R (P (-5) (-5)) (S 30 30)) (rr_draw r st)) (P 1 10) = Some 7 /\
  length (rr_draw r st) = 20%nat.
Proof. vm_compute. repeat split; reflexivity. Qed.
