(* C06, RoundedRectangle part: stroke and fill follow fill_area() / stroke_area().
   Statements only; proofs are in Proofs/Rrect.v.  Model: Model/Rrect.v + Model/Style.v
   (rounded_rectangle/styled.rs as repaired by 706995e, common/{scanline,styled_scanline}.rs, primitive_style.rs).
   pix_get (writes_of_calls bb calls) p = colour of p after the fill_solid calls of draw_styled on a target with
   bounding box bb (None = untouched).  styled_dom r st: stroke area and fill area lie in the no-saturation range.
   KNOWN FINDING (FINDINGS-C06.md, known_findings.txt class K06_rrect_fill_outside_stroke): the implementation violates the
   property when some fill_area() point lies outside stroke_area(); the theorem excludes exactly that class and
   C06_rrect_styled_spec_refuted shows the exclusion is necessary. *)
From EG Require Import Base.Prelude Model.Geometry Model.Style Model.Rrect Proofs.Geometry Proofs.Curvefacts Proofs.Rrect Proofs.Rrect2.

(* fill colour iff fill_area() contains the point; stroke colour iff stroke_area() contains it, fill_area() does not
   and the width is non-zero; everything else untouched; nothing outside the target box *)
Theorem C06_rrect_styled_spec : forall r st bb p,
  styled_dom r st -> K06_rrect_fill_outside_stroke r st = false ->
  pix_get (writes_of_calls bb (rr_draw r st)) p =
  if contains bb p
  then (if rr_contains (rr_fill_area r st) p then fill_color st
        else if rr_contains (rr_stroke_area r st) p && (0 <? stroke_width st) then stroke_color st else None)
  else None.
Proof. intros; eapply rr_styled_spec; eauto using rr_dom_ok, styled_dom_ok. Qed.

(* without the exclusion (every input in range): what draw_styled paints in terms of the two areas *)
Theorem C06_rrect_draw_image : forall r st bb p,
  styled_dom r st ->
  pix_get (writes_of_calls bb (rr_draw r st)) p =
  if contains bb p
  then match effective_stroke_color st with
       | Some sc => if rr_contains (rr_stroke_area r st) p
                    then (if rr_contains (rr_fill_area r st) p then fill_color st else Some sc) else None
       | None => if rr_contains (rr_fill_area r st) p then fill_color st else None
       end
  else None.
Proof. intros; eapply rr_draw_pixmap; eauto using rr_dom_ok, styled_dom_ok. Qed.

(* the same for pixels() *)
Theorem C06_rrect_pixels_image : forall r st bb p,
  styled_dom r st ->
  pix_get (writes_of_pixels bb (rr_pixels r st)) p =
  if contains bb p
  then (if rr_contains (rr_stroke_area r st) p
        then (if rr_contains (rr_fill_area r st) p then fill_color st else stroke_color st) else None)
  else None.
Proof. intros; eapply rr_pixels_pixmap; eauto using rr_dom_ok, styled_dom_ok. Qed.

(* pixels() in the same form (the class exclusion is needed here as well: pixels() only ever looks inside the stroke area) *)
Theorem C06_rrect_pixels_spec : forall r st bb p,
  styled_dom r st -> 0 <= stroke_width st -> K06_rrect_fill_outside_stroke r st = false ->
  pix_get (writes_of_pixels bb (rr_pixels r st)) p =
  if contains bb p
  then (if rr_contains (rr_fill_area r st) p then fill_color st
        else if rr_contains (rr_stroke_area r st) p && (0 <? stroke_width st) then stroke_color st else None)
  else None.
Proof. intros; eapply rr_pixels_spec; eauto using rr_dom_ok, styled_dom_ok. Qed.

(* no visible stroke - stroke colour absent, or stroke width 0 (whatever the stroke colour) -: both renderers paint the fill
   colour on fill_area() and nothing else; with width 0 the input is never in the class *)
Theorem C06_rrect_no_visible_stroke : forall r st bb p,
  styled_dom r st -> 0 <= stroke_width st -> K06_rrect_fill_outside_stroke r st = false ->
  stroke_color st = None \/ stroke_width st = 0 ->
  let img := if contains bb p && rr_contains (rr_fill_area r st) p then fill_color st else None in
  pix_get (writes_of_calls bb (rr_draw r st)) p = img /\ pix_get (writes_of_pixels bb (rr_pixels r st)) p = img.
Proof. intros; eapply rr_no_stroke_image; eauto using rr_dom_ok, styled_dom_ok. Qed.

Theorem C06_rrect_width0_not_in_class : forall r st,
  stroke_width st = 0 -> K06_rrect_fill_outside_stroke r st = false.
Proof. exact K06_false_width0. Qed.

(* the class is empty whenever no radius needs confinement in either area (sums of the radii on every side <= that side, for the
   stroke area and for the fill area) ... *)
Theorem C06_rrect_no_oversize_no_K06 : forall r st,
  rr_dom r -> radii_le (rr_corners r) bound -> 0 <= stroke_width st <= bound -> styled_dom r st ->
  radii_fit (rr_corners (rr_stroke_area r st)) (sz (rr_rect (rr_stroke_area r st))) ->
  radii_fit (rr_corners (rr_fill_area r st)) (sz (rr_rect (rr_fill_area r st))) ->
  K06_rrect_fill_outside_stroke r st = false.
Proof. intros; eapply rr_no_oversize_no_K06; eauto using rr_dom_ok, styled_dom_ok. Qed.

(* ... stated on the input alone: the shape's radii fit its sides, and the radii shrunk by the inside width (clamped at 0) fit
   the sides shrunk by twice that width (only asked when the fill area is not empty) *)
Theorem C06_rrect_input_no_K06 : forall r st,
  rr_dom r -> radii_le (rr_corners r) bound -> 0 <= stroke_width st <= bound -> styled_dom r st ->
  1 <= sw (sz (rr_rect r)) -> 1 <= sh (sz (rr_rect r)) ->
  radii_fit (rr_corners r) (sz (rr_rect r)) ->
  (2 * fill_inset st < sw (sz (rr_rect r)) -> 2 * fill_inset st < sh (sz (rr_rect r)) ->
   radii_fit (map_radii (shrink_size (fill_inset st)) (rr_corners r))
             (S (sw (sz (rr_rect r)) - 2 * fill_inset st) (sh (sz (rr_rect r)) - 2 * fill_inset st))) ->
  K06_rrect_fill_outside_stroke r st = false.
Proof. intros; eapply rr_input_no_K06; eauto using rr_dom_ok, styled_dom_ok. Qed.

(* the finding is machine-checked: an input in range, inside the class, on which the unrestricted statement fails *)
Theorem C06_rrect_styled_spec_refuted :
  exists r st bb p,
    styled_dom r st /\ rr_dom r /\ K06_rrect_fill_outside_stroke r st = true /\ contains bb p = true /\
    pix_get (writes_of_calls bb (rr_draw r st)) p <>
    (if rr_contains (rr_fill_area r st) p then fill_color st
     else if rr_contains (rr_stroke_area r st) p && (0 <? stroke_width st) then stroke_color st else None).
Proof. exact rr_styled_spec_refuted_dom. Qed.

(* geometry of the two areas: the base rectangle grown by the outside part / shrunk by the inside part of the width
   (C16_offset_grow / C16_offset_shrink describe `offset`), every corner radius changed by the same amount *)
Theorem C06_rrect_area_boxes : forall r st,
  rr_rect (rr_stroke_area r st) = offset (rr_rect r) (sat_u32_to_i32 (outside_stroke_width st)) /\
  rr_rect (rr_fill_area r st) =
    offset (rr_rect r) (match stroke_kind st with Solid => - sat_u32_to_i32 (inside_stroke_width st) | Dotted => 0 end).
Proof. intros r st. split; reflexivity. Qed.

(* the radii: every corner radius grows by the outside part / shrinks by the inside part of the width (both components, clamped
   at 0); contains()/points()/draw() then use these radii confined (CornerRadii::confine) to the area's own box.
   fill_inset st = the inside part for solid strokes (0 for dotted ones) *)
Theorem C06_rrect_area_radii : forall r st,
  radii_nonneg (rr_corners r) -> radii_le (rr_corners r) bound -> 0 <= stroke_width st <= bound ->
  rr_corners (rr_stroke_area r st) = map_radii (grow_size (outside_stroke_width st)) (rr_corners r) /\
  rr_corners (rr_fill_area r st) = map_radii (shrink_size (fill_inset st)) (rr_corners r) /\
  conf (rr_stroke_area r st) =
    confine (map_radii (grow_size (outside_stroke_width st)) (rr_corners r)) (sz (rr_rect (rr_stroke_area r st))) /\
  conf (rr_fill_area r st) =
    confine (map_radii (shrink_size (fill_inset st)) (rr_corners r)) (sz (rr_rect (rr_fill_area r st))).
Proof. exact rr_area_radii. Qed.

(* geometric meaning, non-degenerate shape whose radii fit: the stroke area is the shape grown by the outside width n on every
   side: rows and columns of the box extend by n at both ends, every radius grows by n and still fits (nothing is confined),
   and the straight rows (rows without a corner on the left / right side) are those of the shape itself *)
Theorem C06_rrect_stroke_area_grow : forall r st,
  rr_dom r -> radii_le (rr_corners r) bound -> 0 <= stroke_width st <= bound -> rr_dom (rr_stroke_area r st) ->
  1 <= sw (sz (rr_rect r)) -> 1 <= sh (sz (rr_rect r)) -> radii_fit (rr_corners r) (sz (rr_rect r)) ->
  let n := outside_stroke_width st in
  let sa := rr_stroke_area r st in
  rr_rect sa = R (P (px (tl (rr_rect r)) - n) (py (tl (rr_rect r)) - n)) (S (sw (sz (rr_rect r)) + 2 * n) (sh (sz (rr_rect r)) + 2 * n)) /\
  conf sa = map_radii (grow_size n) (rr_corners r) /\
  c_rows (rrc_new sa) = (fst (c_rows (rrc_new r)) - n, snd (c_rows (rrc_new r)) + n) /\
  c_columns (rrc_new sa) = (fst (c_columns (rrc_new r)) - n, snd (c_columns (rrc_new r)) + n) /\
  c_srl (rrc_new sa) = c_srl (rrc_new r) /\ c_srr (rrc_new sa) = c_srr (rrc_new r).
Proof. intros; eapply rr_stroke_area_grow; eauto using rr_dom_ok, styled_dom_ok. Qed.

(* the fill area is the shape shrunk by the inside width m on every side; empty as soon as a side is <= 2m *)
Theorem C06_rrect_fill_area_shrink : forall r st,
  rr_dom r -> rr_dom (rr_fill_area r st) -> 0 <= stroke_width st <= bound ->
  let m := fill_inset st in
  (2 * m < sw (sz (rr_rect r)) -> 2 * m < sh (sz (rr_rect r)) ->
   rr_rect (rr_fill_area r st) =
     R (P (px (tl (rr_rect r)) + m) (py (tl (rr_rect r)) + m)) (S (sw (sz (rr_rect r)) - 2 * m) (sh (sz (rr_rect r)) - 2 * m))) /\
  (sw (sz (rr_rect r)) <= 2 * m \/ sh (sz (rr_rect r)) <= 2 * m -> 0 < m -> forall p, rr_contains (rr_fill_area r st) p = false).
Proof. intros; eapply rr_fill_area_shrink; eauto using rr_dom_ok, styled_dom_ok. Qed.

Theorem C06_rrect_inside_stroke_stays_in : forall r st bb p,
  styled_dom r st -> rr_dom r -> radii_u32 r -> K06_rrect_fill_outside_stroke r st = false ->
  stroke_alignment st = Inside ->
  pix_get (writes_of_calls bb (rr_draw r st)) p <> None -> rr_contains r p = true.
Proof. intros; eapply rr_inside_stroke_stays_in; eauto using rr_dom_ok, styled_dom_ok. Qed.

Theorem C06_rrect_outside_stroke_stays_out : forall r st bb p,
  styled_dom r st -> rr_dom r -> radii_u32 r -> K06_rrect_fill_outside_stroke r st = false ->
  stroke_alignment st = Outside -> rr_contains r p = true ->
  pix_get (writes_of_calls bb (rr_draw r st)) p = if contains bb p then fill_color st else None.
Proof. intros; eapply rr_outside_stroke_stays_out; eauto using rr_dom_ok, styled_dom_ok. Qed.

(* non-vacuity: the shape of the repaired defect j (4x20, inside stroke 3, collapsed fill) is in range, outside the class,
   and paints the stroke colour over the whole shape *)
Example C06_rrect_nonvacuous :
  let r := rr_with_equal_corners (R (P 0 0) (S 4 20)) (S 1 1) in
  let st := Style (Some 5) (Some 7) 3 Inside Solid in
  styled_dom r st /\ K06_rrect_fill_outside_stroke r st = false /\
  pix_get (writes_of_calls (R (P (-5) (-5)) (S 30 30)) (rr_draw r st)) (P 1 10) = Some 7 /\
  length (rr_draw r st) = 20%nat.
Proof. cbv zeta. split; [split; apply rr_dom_b; vm_compute; reflexivity|]. vm_compute. repeat split; reflexivity. Qed.
