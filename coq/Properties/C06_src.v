(* C06, translator tie: the stroke-width / colour helpers of src/primitives/primitive_style.rs, regenerated from the
   source on every run by translate/r2c (coq/Gen/SrcStyle.v), equal coq/Model/Style.v (no hypotheses).
   Statements only (proofs: Proofs/SrcCircle.v).  The colour type parameter C is Z (abstract colour tags), as in the model. *)
From EG Require Import Base.Prelude Base.Casts Model.Style Gen.SrcStyle Proofs.SrcCircle.

Theorem C06_src_outside_stroke_width_is_model : forall s, src_PrimitiveStyle_outside_stroke_width s = outside_stroke_width s.
Proof. exact src_outside_stroke_width_eq. Qed.
Theorem C06_src_inside_stroke_width_is_model : forall s, src_PrimitiveStyle_inside_stroke_width s = inside_stroke_width s.
Proof. exact src_inside_stroke_width_eq. Qed.
Theorem C06_src_is_transparent_is_model : forall s, src_PrimitiveStyle_is_transparent s = is_transparent s.
Proof. exact src_is_transparent_eq. Qed.
Theorem C06_src_effective_stroke_color_is_model : forall s, src_PrimitiveStyle_effective_stroke_color s = effective_stroke_color s.
Proof. exact src_effective_stroke_color_eq. Qed.

Example C06_src_nonvacuous :
  src_PrimitiveStyle_inside_stroke_width (Style None (Some 1) 5 Center Solid) = 3 /\
  src_PrimitiveStyle_outside_stroke_width (Style None (Some 1) 5 Center Solid) = 2 /\
  src_PrimitiveStyle_effective_stroke_color (Style None (Some 1) 0 Center Solid) = None.
Proof. repeat split; vm_compute; reflexivity. Qed.
