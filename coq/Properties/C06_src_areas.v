(* C06, translator tie (stroke / fill areas): PrimitiveStyle::stroke_area / fill_area (src/primitives/primitive_style.rs),
   regenerated from the source on every run by translate/r2c (coq/Gen/SrcAreas.v) as one monomorphic instance per closed
   shape (P = Rectangle, Circle, Ellipse, RoundedRectangle; `primitive.offset(..)` is the OffsetOutline impl of the instance
   type, resolved through the bound `P: OffsetOutline`), equal the models' <shape>_stroke_area / <shape>_fill_area - the
   areas whose difference the C06 theorems are about - for shapes with u32 extents and non-negative stroke widths.
   Not covered: Sector (its angles are f32).  Statements only (proofs: Proofs/SrcAreas.v). *)
From EG Require Import Base.Prelude Base.Casts Model.Geometry Model.Style Model.Circle Model.Ellipse Model.Styledrect Model.Rrect.
From EG Require Import Gen.SrcGeometry Gen.SrcStyle Gen.SrcCircle Gen.SrcRrect Gen.SrcRrect2 Gen.SrcAreas Proofs.SrcGeometry Proofs.SrcAreas.

Theorem C06_src_rect_stroke_area_is_model : forall st r, size_u32 (sz r) -> 0 <= stroke_width st -> src_stroke_area_Rectangle st r = rect_stroke_area r st.
Proof. exact src_stroke_area_rect_eq. Qed.
Theorem C06_src_rect_fill_area_is_model : forall st r, size_u32 (sz r) -> 0 <= stroke_width st -> src_fill_area_Rectangle st r = rect_fill_area r st.
Proof. exact src_fill_area_rect_eq. Qed.
Theorem C06_src_circle_stroke_area_is_model : forall st c, 0 <= c_d c <= u32_max -> 0 <= stroke_width st -> src_stroke_area_Circle st c = circle_stroke_area c st.
Proof. exact src_stroke_area_circle_eq. Qed.
Theorem C06_src_circle_fill_area_is_model : forall st c, 0 <= c_d c <= u32_max -> 0 <= stroke_width st -> src_fill_area_Circle st c = circle_fill_area c st.
Proof. exact src_fill_area_circle_eq. Qed.
Theorem C06_src_ellipse_stroke_area_is_model : forall st e, size_u32 (e_sz e) -> 0 <= stroke_width st -> src_stroke_area_Ellipse st e = ellipse_stroke_area e st.
Proof. exact src_stroke_area_ellipse_eq. Qed.
Theorem C06_src_ellipse_fill_area_is_model : forall st e, size_u32 (e_sz e) -> 0 <= stroke_width st -> src_fill_area_Ellipse st e = ellipse_fill_area e st.
Proof. exact src_fill_area_ellipse_eq. Qed.
Theorem C06_src_rrect_stroke_area_is_model : forall st r, size_u32 (sz (rr_rect r)) -> 0 <= stroke_width st -> src_stroke_area_RoundedRectangle st r = rr_stroke_area r st.
Proof. exact src_stroke_area_rrect_eq. Qed.
Theorem C06_src_rrect_fill_area_is_model : forall st r, size_u32 (sz (rr_rect r)) -> 0 <= stroke_width st -> src_fill_area_RoundedRectangle st r = rr_fill_area r st.
Proof. exact src_fill_area_rrect_eq. Qed.

Example C06_src_areas_nonvacuous :
  src_fill_area_Circle (Style.Style None (Some 1) 3 Style.Inside Style.Solid) (Circ (P 0 0) 10) = Circ (P 3 3) 4 /\
  src_fill_area_Circle (Style.Style None (Some 1) 3 Style.Inside Style.Dotted) (Circ (P 0 0) 10) = Circ (P 0 0) 10 /\
  src_stroke_area_Rectangle (Style.Style None (Some 1) 2 Style.Outside Style.Solid) (R (P 0 0) (Geometry.S 4 4)) = R (P (-2) (-2)) (Geometry.S 8 8).
Proof. repeat split; vm_compute; reflexivity. Qed.
