(* C06, translator tie (the stroke / fill areas of a Sector; see C07_src_sector_arc.v) (Triangle translate, Sector and Arc without their trigonometry): Triangle::translate / translate_mut
   (src/primitives/triangle/mod.rs; `self.vertices.iter_mut().for_each(|v| *v += by)` is unrolled over the 3-array), and the
   parts of Sector / Arc (src/primitives/sector/mod.rs, arc/mod.rs) that do not compute with their angles - an `Angle` is an
   opaque value here -: constructors, to_circle / from_circle, bounding_box, center_2x, OffsetOutline::offset, translate /
   translate_mut, and PrimitiveStyle::stroke_area / fill_area at P = Sector; regenerated from the source on every run by
   translate/r2c (coq/Gen/SrcSectorArc.v).  translate_mut equals translate for the three shapes; Triangle::translate is the
   model's tri_translate; Sector::offset offsets the circle and keeps the angles; the stroke / fill area of a sector is the
   circle model's area of its circle.  Statements only (proofs: Proofs/SrcSectorArc.v). *)
From EG Require Import Base.Prelude Base.Casts Model.Geometry Model.Rrect Model.Style Model.Circle Model.Triangle.
From EG Require Import Gen.SrcGeometry Gen.SrcStyle Gen.SrcCircle Gen.SrcTriangle Gen.SrcRrect Gen.SrcRrect2 Gen.SrcAreas Gen.SrcSectorArc.
From EG Require Import Proofs.SrcLine Proofs.SrcSectorArc.

Theorem C06_src_sector_offset_is_model : forall s n, 0 <= Sector_diameter s <= u32_max -> i32_min <= n <= i32_max ->
  src_Sector_to_circle (src_Sector_offset s n) = circle_offset (src_Sector_to_circle s) n /\
  Sector_angle_start (src_Sector_offset s n) = Sector_angle_start s /\ Sector_angle_sweep (src_Sector_offset s n) = Sector_angle_sweep s.
Proof. exact src_sector_offset_eq. Qed.
Theorem C06_src_sector_stroke_area_is_model : forall st s, 0 <= Sector_diameter s <= u32_max -> 0 <= stroke_width st ->
  src_Sector_to_circle (src_stroke_area_Sector st s) = circle_stroke_area (src_Sector_to_circle s) st.
Proof. exact src_stroke_area_sector_eq. Qed.
Theorem C06_src_sector_fill_area_is_model : forall st s, 0 <= Sector_diameter s <= u32_max -> 0 <= stroke_width st ->
  src_Sector_to_circle (src_fill_area_Sector st s) = circle_fill_area (src_Sector_to_circle s) st.
Proof. exact src_fill_area_sector_eq. Qed.

(* the stroke / fill area of a sector keeps its angles (round 5) *)
Theorem C06_src_sector_stroke_area_keeps_angles : forall st s, 0 <= Sector_diameter s <= u32_max -> 0 <= stroke_width st ->
  Sector_angle_start (src_stroke_area_Sector st s) = Sector_angle_start s /\ Sector_angle_sweep (src_stroke_area_Sector st s) = Sector_angle_sweep s.
Proof. exact src_stroke_area_sector_angles. Qed.
Theorem C06_src_sector_fill_area_keeps_angles : forall st s, 0 <= Sector_diameter s <= u32_max -> 0 <= stroke_width st ->
  Sector_angle_start (src_fill_area_Sector st s) = Sector_angle_start s /\ Sector_angle_sweep (src_fill_area_Sector st s) = Sector_angle_sweep s.
Proof. exact src_fill_area_sector_angles. Qed.

Example C06_src_sector_nonvacuous :
  src_Sector_to_circle (src_fill_area_Sector (Style.Style None (Some 1) 2 Style.Inside Style.Solid) (Build_Sector (P 0 0) 10 77 88)) = Circ (P 2 2) 6.
Proof. vm_compute. reflexivity. Qed.
