(* C07, families rectangle / circle / ellipse: contains / points / bounding boxes / draw / pixels commute with
   translation.  Statements only; proofs in Proofs/Circleparts.v.
   X_translate x d moves only the top-left corner (Transform::translate of each primitive); padd p d = p + d. *)
From EG Require Import Base.Prelude Model.Geometry Model.Style Model.Circle Model.Ellipse Model.Styledrect
  Proofs.Geometry Proofs.Scanline Proofs.Circle Proofs.Ellipse Proofs.Circlestyled Proofs.Ellipsestyled Proofs.Styledrect
  Proofs.Circleparts.

Theorem C07_circle_rect_contains_translate : forall r d p, contains (translate_rect r d) (padd p d) = contains r p.
Proof. exact contains_translate. Qed.
Theorem C07_circle_circle_contains_translate : forall c d p,
  circle_contains (circle_translate c d) (padd p d) = circle_contains c p.
Proof. exact circle_contains_translate. Qed.
Theorem C07_circle_ellipse_contains_translate : forall e d p,
  ellipse_contains (ellipse_translate e d) (padd p d) = ellipse_contains e p.
Proof. exact ellipse_contains_translate. Qed.

Theorem C07_circle_circle_bbox_translate : forall c d, circle_bbox (circle_translate c d) = translate_rect (circle_bbox c) d.
Proof. exact circle_bbox_translate. Qed.
Theorem C07_circle_ellipse_bbox_translate : forall e d, ellipse_bbox (ellipse_translate e d) = translate_rect (ellipse_bbox e) d.
Proof. exact ellipse_bbox_translate. Qed.
Theorem C07_circle_circle_styled_bbox_translate : forall c d st,
  circle_styled_bbox (circle_translate c d) st = translate_rect (circle_styled_bbox c st) d.
Proof. exact circle_styled_bbox_translate. Qed.
Theorem C07_circle_ellipse_styled_bbox_translate : forall e d st,
  ellipse_styled_bbox (ellipse_translate e d) st = translate_rect (ellipse_styled_bbox e st) d.
Proof. exact ellipse_styled_bbox_translate. Qed.
Theorem C07_circle_rect_styled_bbox_translate : forall r d st,
  rect_styled_bbox (translate_rect r d) st = translate_rect (rect_styled_bbox r st) d.
Proof. exact rect_styled_bbox_translate. Qed.

Theorem C07_circle_rect_points_translate : forall r d,
  rect_ok r -> rect_ok (translate_rect r d) -> points (translate_rect r d) = map (fun p => padd p d) (points r).
Proof. exact rect_points_translate. Qed.
Theorem C07_circle_circle_points_translate : forall c d,
  circle_ok c -> circle_ok (circle_translate c d) ->
  circle_points (circle_translate c d) = map (fun p => padd p d) (circle_points c).
Proof. exact circle_points_translate. Qed.
Theorem C07_circle_ellipse_points_translate : forall e d,
  ellipse_ok e -> ellipse_ok (ellipse_translate e d) ->
  ellipse_points (ellipse_translate e d) = map (fun p => padd p d) (ellipse_points e).
Proof. exact ellipse_points_translate. Qed.

Theorem C07_circle_rect_draw_translate : forall r d st p,
  rect_sok r -> rect_sok (translate_rect r d) -> style_ok st -> stroke_kind st = Solid ->
  render (rect_draw_styled (translate_rect r d) st) (padd p d) = render (rect_draw_styled r st) p.
Proof. exact rect_draw_translate. Qed.
Theorem C07_circle_circle_draw_translate : forall c d st p,
  circle_sok c -> circle_sok (circle_translate c d) -> style_ok st ->
  render (circle_draw_styled (circle_translate c d) st) (padd p d) = render (circle_draw_styled c st) p.
Proof. exact circle_draw_translate. Qed.
Theorem C07_circle_ellipse_draw_translate : forall e d st p,
  ellipse_sok e -> ellipse_sok (ellipse_translate e d) -> style_ok st ->
  render (ellipse_draw_styled (ellipse_translate e d) st) (padd p d) = render (ellipse_draw_styled e st) p.
Proof. exact ellipse_draw_translate. Qed.

Theorem C07_circle_rect_pixels_translate : forall r d st p,
  rect_sok r -> rect_sok (translate_rect r d) -> style_ok st -> stroke_kind st = Solid ->
  last_write (rect_styled_pixels (translate_rect r d) st) (padd p d) = last_write (rect_styled_pixels r st) p.
Proof. exact rect_pixels_translate. Qed.
Theorem C07_circle_circle_pixels_translate : forall c d st p,
  circle_sok c -> circle_sok (circle_translate c d) -> style_ok st ->
  last_write (circle_styled_pixels (circle_translate c d) st) (padd p d) = last_write (circle_styled_pixels c st) p.
Proof. exact circle_pixels_translate. Qed.
Theorem C07_circle_ellipse_pixels_translate : forall e d st p,
  ellipse_sok e -> ellipse_sok (ellipse_translate e d) -> style_ok st ->
  last_write (ellipse_styled_pixels (ellipse_translate e d) st) (padd p d) = last_write (ellipse_styled_pixels e st) p.
Proof. exact ellipse_pixels_translate. Qed.

Example C07_circle_example :
  let c := Circ (P 2 (-1)) 5 in let d := P (-7) 9 in
  circle_ok c /\ circle_ok (circle_translate c d) /\
  circle_points (circle_translate c d) = map (fun p => padd p d) (circle_points c) /\ length (circle_points c) = 21%nat.
Proof. cbv zeta. unfold circle_ok, point_ok, bound. cbn [c_tl c_d px py circle_translate padd]. repeat split; try lia; reflexivity. Qed.
