(* Property C07 (rendering commutes with translation), geometry part: Rectangle.
   Statements only; proofs are in Proofs/GeometryTranslate.v and Proofs/Geometry.v. *)
From EG Require Import Base.Prelude Model.Geometry Proofs.Geometry Proofs.GeometryTranslate.

(* contains() of a rectangle moved by d, asked at p + d, is contains() of the original at p — all rectangles, all d *)
Theorem C07_geometry_contains_translate : forall r d p,
  contains (translate_rect r d) (padd p d) = contains r p.
Proof. exact contains_translate. Qed.

(* points() of the moved rectangle is the moved list (same order, same multiplicity) *)
Theorem C07_geometry_points_translate : forall r d,
  rect_ok r -> rect_ok (translate_rect r d) ->
  points (translate_rect r d) = map (fun p => padd p d) (points r).
Proof. exact points_translate. Qed.

Theorem C07_geometry_bottom_right_translate : forall r d,
  bottom_right (translate_rect r d) = option_map (fun p => padd p d) (bottom_right r).
Proof. exact bottom_right_translate. Qed.

Theorem C07_geometry_center_translate : forall r d, center (translate_rect r d) = padd (center r) d.
Proof. exact center_translate. Qed.

Theorem C07_geometry_anchor_point_translate : forall r a d,
  anchor_point (translate_rect r d) a = padd (anchor_point r a) d.
Proof. exact anchor_point_translate. Qed.

(* the bounding box of a moved rectangle keeps its size; clipping two moved rectangles is the moved clip *)
Theorem C07_geometry_size_translate : forall r d, sz (translate_rect r d) = sz r.
Proof. exact size_translate. Qed.

Theorem C07_geometry_intersection_translate : forall a b d p,
  contains (intersection (translate_rect a d) (translate_rect b d)) (padd p d) = contains (intersection a b) p.
Proof. exact intersection_translate. Qed.

Theorem C07_geometry_translate_compose : forall r d e,
  translate_rect (translate_rect r d) e = translate_rect r (padd d e).
Proof. exact translate_compose. Qed.

(* non-vacuity: a rectangle crossing both axes after the move *)
Example C07_geometry_example :
  rect_ok (R (P 3 2) (S 4 3)) /\ rect_ok (translate_rect (R (P 3 2) (S 4 3)) (P (-5) (-4))) /\
  points (translate_rect (R (P 3 2) (S 2 2)) (P (-4) (-3))) = [P (-1) (-1); P 0 (-1); P (-1) 0; P 0 0].
Proof. unfold rect_ok, point_ok, size_ok, bound, translate_rect, padd. cbn [tl sz px py sw sh]. repeat split; try reflexivity; lia. Qed.
