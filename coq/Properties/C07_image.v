(* C07, image part - Image::translate / translate_mut commute with drawing and with bounding_box().
   Statements only; proofs in Proofs/Imagecross.v. *)
From EG Require Import Base.Prelude Model.Geometry Proofs.Geometry Model.Imageraw Proofs.Imageraw Proofs.Imagecross.

Theorem C07_image_bbox_translate : forall i t,
  image_box (image_translate i t) = translate_rect (image_box i) t.
Proof. exact image_translate_box. Qed.

Theorem C07_image_translate_mut_eq : forall i t, image_translate_mut i t = image_translate i t.
Proof. exact image_translate_mut_eq. Qed.

(* call level, for every image and every offset: the same fill_contiguous calls, areas moved by t *)
Theorem C07_image_calls_translate : forall i t,
  image_draw (image_translate i t) = map (translated_call t) (image_draw i).
Proof. exact image_translate_calls. Qed.

(* pixel level: q + t on the second target shows what q shows on the first, whenever the two targets agree on
   having those points (in particular for one target containing both, or for a target moved by t) *)
Theorem C07_image_draw_translate : forall i t bb bb' q,
  d_wf (im_drawable i) -> point_ok (im_offset i) -> point_ok (padd (im_offset i) t) ->
  contains bb' (padd q t) = contains bb q ->
  render bb' (image_draw (image_translate i t)) (padd q t) = render bb (image_draw i) q.
Proof. exact image_translate_render. Qed.

Theorem C07_image_draw_translate_moved_target : forall i t bb q,
  d_wf (im_drawable i) -> point_ok (im_offset i) -> point_ok (padd (im_offset i) t) ->
  render (translate_rect bb t) (image_draw (image_translate i t)) (padd q t) = render bb (image_draw i) q.
Proof. exact image_translate_render_moved_target. Qed.

Example C07_image_nonvacuous :
  let img := IR [160; 64] (S 3 2) 1 false in
  let i := Img (Raw img) (P 1 1) in
  d_wf (im_drawable i) /\ point_ok (im_offset i) /\ point_ok (padd (im_offset i) (P (-4) 3)) /\
  image_draw (image_translate i (P (-4) 3)) = [FillContiguous (R (P (-3) 4) (S 3 2)) [1; 0; 1; 0; 1; 0]] /\
  render (R (P (-9) (-9)) (S 20 20)) (image_draw (image_translate i (P (-4) 3))) (P (-1) 4) = Some 1 /\
  render (R (P (-9) (-9)) (S 20 20)) (image_draw i) (P 3 1) = Some 1.
Proof.
  cbv zeta. split; [|split; [|split]].
  - unfold d_wf, im_drawable, img_ok, bpp_ok, size_ok, bound. cbn. repeat split; try lia; tauto.
  - unfold point_ok, bound. cbn. lia.
  - unfold point_ok, bound. cbn. lia.
  - vm_compute. repeat split; reflexivity.
Qed.
