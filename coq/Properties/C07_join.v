(* C07 - Rendering commutes with translation; part: the thick stroke join machinery
   (LinearEquation, IntersectionParams, Line::extents, LineJoin) that computes the corners of thick
   polylines and triangles.  Statements only; every proof is `exact <lemma>` from Proofs/Join.v.

   Translation by d is `padd _ d` on points, `translate_line _ d` on lines, `tr_join d` on joins (every
   corner moves by d, the JoinKind is kept), `tr_isect d` on intersection results.
   Arithmetic is unbounded Z except the one saturating cast of this code (round_div's
   `saturating_as::<i32>()`), which IS modelled; the hypotheses `isect_nosat` / `join_nosat` say that the
   cast is not reached (the rounded quotient fits an i32), `jline_ok` is the coordinate range +-511 in
   which that is guaranteed for arbitrary pairs of lines. *)
From EG Require Import Base.Prelude Model.Geometry Model.Line Model.Thickline Model.Join Proofs.Join.

(* the arithmetic core of repair a4a7ab8 (floor-based rounding): adding k divisors to the numerator moves the
   rounded quotient by exactly k *)
Theorem C07_join_round_div_shift : forall n k d, 0 < d ->
  (n + k * d + d / 2) / d = (n + d / 2) / d + k.
Proof. exact round_div_shift. Qed.

(* ... and the closure `round_div` as written (negative denominators flipped first, i64::div_euclid), before
   the cast, for every non-zero denominator *)
Theorem C07_join_round_div_as_written_shift : forall den num k, den <> 0 ->
  round_div_raw den (num + k * den) = round_div_raw den num + k.
Proof. exact round_div_raw_shift. Qed.

(* LinearEquation::from_line / distance / check_side: invariant when point and line move together *)
Theorem C07_join_linear_equation_translate : forall l p d,
  le_distance (le_from_line (translate_line l d)) (padd p d) = le_distance (le_from_line l) p.
Proof. exact le_distance_translate. Qed.

Theorem C07_join_check_side_translate : forall l p d s,
  le_check_side (le_from_line (translate_line l d)) (padd p d) s = le_check_side (le_from_line l) p s.
Proof. exact le_check_side_translate. Qed.

(* the determinant and the nearly-colinear test do not see the position *)
Theorem C07_join_nearly_colinear_translate : forall l1 l2 d,
  nearly_colinear_has_error (ip_from_lines (translate_line l1 d) (translate_line l2 d)) =
  nearly_colinear_has_error (ip_from_lines l1 l2).
Proof. exact nearly_colinear_translate. Qed.

(* IntersectionParams::intersection: before the cast, exact for ALL lines that are not parallel *)
Theorem C07_join_intersection_raw_translate : forall l1 l2 d, ip_den (ip_from_lines l1 l2) <> 0 ->
  ip_intersection_raw (ip_from_lines (translate_line l1 d) (translate_line l2 d)) =
  padd (ip_intersection_raw (ip_from_lines l1 l2)) d.
Proof. exact ip_intersection_raw_translate. Qed.

(* ... with the cast, whenever neither computation saturates *)
Theorem C07_join_intersection_translate_nosat : forall l1 l2 d,
  isect_nosat (ip_from_lines l1 l2) = true ->
  isect_nosat (ip_from_lines (translate_line l1 d) (translate_line l2 d)) = true ->
  ip_intersection (ip_from_lines (translate_line l1 d) (translate_line l2 d)) =
  tr_isect d (ip_intersection (ip_from_lines l1 l2)).
Proof. exact ip_intersection_translate. Qed.

(* ... in particular for all lines within +-511 before and after the move *)
Theorem C07_join_intersection_translate : forall l1 l2 d,
  jline_ok l1 -> jline_ok l2 -> jline_ok (translate_line l1 d) -> jline_ok (translate_line l2 d) ->
  ip_intersection (ip_from_lines (translate_line l1 d) (translate_line l2 d)) =
  tr_isect d (ip_intersection (ip_from_lines l1 l2)).
Proof. exact ip_intersection_translate_range. Qed.

(* Line::extents (the ParallelsIterator walk included): no hypothesis *)
Theorem C07_join_extents_translate : forall l w so d,
  extents (translate_line l d) w so = option_map (tr_line2 d) (extents l w so).
Proof. exact extents_translate. Qed.

(* LineJoin::start / end / from_points: every corner moves by d, the kind is unchanged *)
Theorem C07_join_linejoin_start_translate : forall s m w so d,
  lj_start (padd s d) (padd m d) w so = option_map (tr_join d) (lj_start s m w so).
Proof. exact lj_start_translate. Qed.

Theorem C07_join_linejoin_end_translate : forall m e w so d,
  lj_end (padd m d) (padd e d) w so = option_map (tr_join d) (lj_end m e w so).
Proof. exact lj_end_translate. Qed.

Theorem C07_join_linejoin_translate : forall s m e w so d,
  join_nosat s m e w so = true ->
  join_nosat (padd s d) (padd m d) (padd e d) w so = true ->
  lj_from_points (padd s d) (padd m d) (padd e d) w so = option_map (tr_join d) (lj_from_points s m e w so).
Proof. exact lj_from_points_translate. Qed.

(* non-vacuity: the hypotheses hold and the functions compute something non-trivial.
   The lines of finding l (Triangle (0,0),(3,1),(3,9), stroke 4, moved by (13,-11)): a miter join whose
   corners are rounded intersection points, and the same join after the move. *)
Example C07_join_nonvacuous :
  let s := P 0 0 in let m := P 3 1 in let e := P 3 9 in let d := P 13 (-11) in
  join_nosat s m e 4 SONone = true /\
  join_nosat (padd s d) (padd m d) (padd e d) 4 SONone = true /\
  lj_from_points s m e 4 SONone = Some (LJ JMiter (EC (P 5 (-1)) (P 2 2)) (EC (P 5 (-1)) (P 2 2))) /\
  lj_from_points (padd s d) (padd m d) (padd e d) 4 SONone =
    Some (LJ JMiter (EC (P 18 (-12)) (P 15 (-9))) (EC (P 18 (-12)) (P 15 (-9)))) /\
  jline_ok (L (P (-500) 3) (P 498 (-7))) /\
  ip_intersection (ip_from_lines (L (P 0 0) (P 10 1)) (L (P 0 5) (P 7 (-9)))) = IPoint (P 2 0) SLeft /\
  round_div_raw (-4) 6 = -1 /\ round_div_raw 4 (-6) = -1 /\ round_div_raw 4 6 = 2.
Proof. vm_compute. repeat split; try reflexivity; discriminate. Qed.
