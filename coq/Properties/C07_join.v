(* C07 - Rendering commutes with translation; part: the thick stroke join machinery
   (LinearEquation, IntersectionParams, Line::extents, LineJoin) that computes the corners of thick
   polylines and triangles.  Statements only; every proof is `exact <lemma>` from Proofs/Join.v.

   Translation by d is `padd _ d` on points, `translate_line _ d` on lines, `tr_join d` on joins (every
   corner moves by d, the JoinKind is kept), `tr_isect d` on intersection results.
   Arithmetic is unbounded Z except the one saturating cast of this code (round_div's
   `saturating_as::<i32>()`), which IS modelled; the hypotheses `isect_nosat` / `join_nosat` say that the
   cast is not reached (the rounded quotient fits an i32), `jline_ok` is the coordinate range +-511 in
   which that is guaranteed for arbitrary pairs of lines. *)
From EG Require Import Base.Prelude Model.Geometry Model.Style Model.Line Model.Thickline Model.Join Model.JoinTri Proofs.Join Proofs.JoinTri.
Set Default Timeout 60.

(* the arithmetic core of repair a4a7ab8 (floor-based rounding): adding k divisors to the numerator moves the
   rounded quotient by exactly k *)
Theorem C07_join_round_div_shift : forall n k d, 0 < d ->
  (n + k * d + d / 2) / d = (n + d / 2) / d + k.
Proof. exact round_div_shift. Qed.

(* ... and the closure `round_div` as written (negative denominators flipped first, i64::div_euclid), before
   the cast, for every non-zero denominator *)
Theorem C07_join_round_div_as_written_shift : forall den num k, den <> 0 ->
  round_div_raw den (num + k * den) = round_div_raw den num + k.
Proof. exact round_div_raw_shift. Qed.

(* LinearEquation::from_line / distance / check_side: invariant when point and line move together *)
Theorem C07_join_linear_equation_translate : forall l p d,
  le_distance (le_from_line (translate_line l d)) (padd p d) = le_distance (le_from_line l) p.
Proof. exact le_distance_translate. Qed.

Theorem C07_join_check_side_translate : forall l p d s,
  le_check_side (le_from_line (translate_line l d)) (padd p d) s = le_check_side (le_from_line l) p s.
Proof. exact le_check_side_translate. Qed.

(* the determinant and the nearly-colinear test do not see the position *)
Theorem C07_join_nearly_colinear_translate : forall l1 l2 d,
  nearly_colinear_has_error (ip_from_lines (translate_line l1 d) (translate_line l2 d)) =
  nearly_colinear_has_error (ip_from_lines l1 l2).
Proof. exact nearly_colinear_translate. Qed.

(* IntersectionParams::intersection: before the cast, exact for ALL lines that are not parallel *)
Theorem C07_join_intersection_raw_translate : forall l1 l2 d, ip_den (ip_from_lines l1 l2) <> 0 ->
  ip_intersection_raw (ip_from_lines (translate_line l1 d) (translate_line l2 d)) =
  padd (ip_intersection_raw (ip_from_lines l1 l2)) d.
Proof. exact ip_intersection_raw_translate. Qed.

(* ... with the cast, whenever neither computation saturates *)
Theorem C07_join_intersection_translate_nosat : forall l1 l2 d,
  isect_nosat (ip_from_lines l1 l2) = true ->
  isect_nosat (ip_from_lines (translate_line l1 d) (translate_line l2 d)) = true ->
  ip_intersection (ip_from_lines (translate_line l1 d) (translate_line l2 d)) =
  tr_isect d (ip_intersection (ip_from_lines l1 l2)).
Proof. exact ip_intersection_translate. Qed.

(* ... in particular for all lines within +-511 before and after the move *)
Theorem C07_join_intersection_translate : forall l1 l2 d,
  jline_ok l1 -> jline_ok l2 -> jline_ok (translate_line l1 d) -> jline_ok (translate_line l2 d) ->
  ip_intersection (ip_from_lines (translate_line l1 d) (translate_line l2 d)) =
  tr_isect d (ip_intersection (ip_from_lines l1 l2)).
Proof. exact ip_intersection_translate_range. Qed.

(* Line::extents (the ParallelsIterator walk included): no hypothesis *)
Theorem C07_join_extents_translate : forall l w so d,
  extents (translate_line l d) w so = option_map (tr_line2 d) (extents l w so).
Proof. exact extents_translate. Qed.

(* LineJoin::start / end / from_points: every corner moves by d, the kind is unchanged *)
Theorem C07_join_linejoin_start_translate : forall s m w so d,
  lj_start (padd s d) (padd m d) w so = option_map (tr_join d) (lj_start s m w so).
Proof. exact lj_start_translate. Qed.

Theorem C07_join_linejoin_end_translate : forall m e w so d,
  lj_end (padd m d) (padd e d) w so = option_map (tr_join d) (lj_end m e w so).
Proof. exact lj_end_translate. Qed.

Theorem C07_join_linejoin_translate : forall s m e w so d,
  join_nosat s m e w so = true ->
  join_nosat (padd s d) (padd m d) (padd e d) w so = true ->
  lj_from_points (padd s d) (padd m d) (padd e d) w so = option_map (tr_join d) (lj_from_points s m e w so).
Proof. exact lj_from_points_translate. Qed.

(* ThickSegment::intersection(scanline_y): the scanline of the moved segment at y + dy is the moved scanline
   (sl_rel: equally empty, and the same x range moved by dx when not empty) *)
Theorem C07_join_thick_segment_scanline_translate : forall d t y,
  sl_rel d (ts_intersection t y) (ts_intersection (tr_segment d t) (y + py d)).
Proof. exact ts_intersection_rel. Qed.

(* ---- composition: thick polylines (the whole pipeline of polyline/styled.rs for stroke widths > 1) ----------
   Hypotheses: poly_nosat  - in no join of three consecutive vertices a *used* rounded intersection reaches the
                             saturating cast, before and after the move (a computable predicate of the input);
               poly_box_ok - the corners of every thick segment lie within +-2^29 (then Rectangle::rows and the
                             i32::MAX / i32::MIN start values of the bounding box fold do not interfere). *)

(* vertices moved by d: pixels() yields the moved pixels in the same order *)
Theorem C07_join_polyline_vertices_translate : forall w d pts t,
  poly_nosat pts w d = true -> poly_box_ok pts w -> poly_box_ok (map (tr_pt d) pts) w ->
  poly_thick_points (map (tr_pt d) pts) t w = option_map (map (tr_pt d)) (poly_thick_points pts t w).
Proof. exact poly_thick_points_tr. Qed.

(* ... and draw() issues the moved fill_solid rectangles in the same order *)
Theorem C07_join_polyline_draw_translate : forall w d pts,
  poly_nosat pts w d = true -> poly_box_ok pts w -> poly_box_ok (map (tr_pt d) pts) w ->
  poly_thick_rects (map (tr_pt d) pts) w = option_map (map (fun r => translate_rect r d)) (poly_thick_rects pts w).
Proof. exact poly_thick_rects_tr. Qed.

(* the same two statements under the single computable hypothesis poly_hyps (Model/Join.v), which the model oracle
   evaluates on every generated case (suite join_poly_hyp) *)
Theorem C07_join_polyline_vertices_translate_computable : forall w d pts t, poly_hyps pts w d = true ->
  poly_thick_points (map (tr_pt d) pts) t w = option_map (map (tr_pt d)) (poly_thick_points pts t w).
Proof. exact poly_thick_points_tr_hyps. Qed.

Theorem C07_join_polyline_draw_translate_computable : forall w d pts, poly_hyps pts w d = true ->
  poly_thick_rects (map (tr_pt d) pts) w = option_map (map (fun r => translate_rect r d)) (poly_thick_rects pts w).
Proof. exact poly_thick_rects_tr_hyps. Qed.

(* the translate field of Polyline (Transform::translate): added to every pixel, no hypothesis *)
Theorem C07_join_polyline_field_translate : forall w pts t d,
  poly_thick_points pts (padd t d) w = option_map (map (tr_pt d)) (poly_thick_points pts t w).
Proof. exact poly_thick_points_field. Qed.

(* hence moving the vertices and using the translate field give the same pixels *)
Theorem C07_join_polyline_vertices_vs_field : forall w d pts t,
  poly_nosat pts w d = true -> poly_box_ok pts w -> poly_box_ok (map (tr_pt d) pts) w ->
  poly_thick_points (map (tr_pt d) pts) t w = poly_thick_points pts (padd t d) w.
Proof. intros. rewrite poly_thick_points_field. apply poly_thick_points_tr; assumption. Qed.

(* the (non-empty) styled bounding box moves with the vertices *)
Theorem C07_join_polyline_bbox_translate : forall w d a b r,
  poly_nosat (a :: b :: r) w d = true -> poly_box_ok (a :: b :: r) w -> poly_box_ok (map (tr_pt d) (a :: b :: r)) w ->
  poly_thick_bounding_box (map (tr_pt d) (a :: b :: r)) w =
  option_map (fun bb => translate_rect bb d) (poly_thick_bounding_box (a :: b :: r) w).
Proof. exact poly_thick_bounding_box_tr. Qed.

(* ---- composition: stroked (and filled) triangles, all three stroke alignments (Model/JoinTri.v: the whole pipeline of
   triangle/{scanline_intersections,scanline_iterator,styled}.rs incl. is_collapsed and the clockwise ordering) ----------
   Hypotheses: tri_nosat  - as poly_nosat, for the three joins of the clockwise triangle;
               tri_box_ok - vertices and segment corners within +-2^29.  tri_hyps is their computable conjunction. *)

(* the scanline of every thick edge of the stroke moves with the triangle *)
Theorem C07_join_triangle_edge_scanline_translate : forall t w so d idx y, tri_nosat t w so d = true ->
  match jt_edge_scanline t w so idx y, jt_edge_scanline (tr_tri d t) w so idx (y + py d) with
  | Some s, Some s' => sl_rel d s s'
  | None, None => True
  | _, _ => False
  end.
Proof. exact jt_edge_scanline_rel. Qed.

(* pixels(): the moved pixels, same colours, same order *)
Theorem C07_join_triangle_pixels_translate : forall d t w al fill,
  tri_nosat (jt_sorted_clockwise t) w (so_of_alignment al) d = true ->
  tri_box_ok t w (so_of_alignment al) -> tri_box_ok (tr_tri d t) w (so_of_alignment al) ->
  jt_pixels (tr_tri d t) w al fill = option_map (map (tr_pc d)) (jt_pixels t w al fill).
Proof. exact jt_pixels_tr. Qed.

(* draw(): the moved fill_solid rectangles, same colours, same order *)
Theorem C07_join_triangle_draw_translate : forall d t w al fill,
  tri_nosat (jt_sorted_clockwise t) w (so_of_alignment al) d = true ->
  tri_box_ok t w (so_of_alignment al) -> tri_box_ok (tr_tri d t) w (so_of_alignment al) ->
  jt_draw (tr_tri d t) w al fill = option_map (map (fun rc => (translate_rect (fst rc) d, snd rc))) (jt_draw t w al fill).
Proof. exact jt_draw_tr. Qed.

(* the same with the single computable hypothesis tri_hyps (evaluated by the model oracle, suite join_tri_hyp) *)
Theorem C07_join_triangle_pixels_translate_computable : forall d t w al fill, tri_hyps t w al d = true ->
  jt_pixels (tr_tri d t) w al fill = option_map (map (tr_pc d)) (jt_pixels t w al fill).
Proof. exact jt_pixels_tr_hyps. Qed.

Theorem C07_join_triangle_draw_translate_computable : forall d t w al fill, tri_hyps t w al d = true ->
  jt_draw (tr_tri d t) w al fill = option_map (map (fun rc => (translate_rect (fst rc) d, snd rc))) (jt_draw t w al fill).
Proof. exact jt_draw_tr_hyps. Qed.

(* the styled bounding box moves with the triangle *)
Theorem C07_join_triangle_bbox_translate : forall d t w al, tri_hyps t w al d = true ->
  jt_styled_bounding_box (tr_tri d t) w al = option_map (fun bb => translate_rect bb d) (jt_styled_bounding_box t w al).
Proof. exact jt_styled_bounding_box_tr_hyps. Qed.

(* non-vacuity: the hypotheses hold and the functions compute something non-trivial.
   The lines of finding l (Triangle (0,0),(3,1),(3,9), stroke 4, moved by (13,-11)): a miter join whose
   corners are rounded intersection points, and the same join after the move. *)
Example C07_join_nonvacuous :
  let s := P 0 0 in let m := P 3 1 in let e := P 3 9 in let d := P 13 (-11) in
  join_nosat s m e 4 SONone = true /\
  join_nosat (padd s d) (padd m d) (padd e d) 4 SONone = true /\
  lj_from_points s m e 4 SONone = Some (LJ JMiter (EC (P 5 (-1)) (P 2 2)) (EC (P 5 (-1)) (P 2 2))) /\
  lj_from_points (padd s d) (padd m d) (padd e d) 4 SONone =
    Some (LJ JMiter (EC (P 18 (-12)) (P 15 (-9))) (EC (P 18 (-12)) (P 15 (-9)))) /\
  jline_ok (L (P (-500) 3) (P 498 (-7))) /\
  ip_intersection (ip_from_lines (L (P 0 0) (P 10 1)) (L (P 0 5) (P 7 (-9)))) = IPoint (P 2 0) SLeft /\
  round_div_raw (-4) 6 = -1 /\ round_div_raw 4 (-6) = -1 /\ round_div_raw 4 6 = 2.
Proof. vm_compute. repeat split; try reflexivity; discriminate. Qed.

(* non-vacuity of the composition: the polyline of finding l, [(0,0),(3,0),(0,6)] with stroke 4 moved by (-7,-9) *)
Example C07_join_polyline_nonvacuous :
  let pts := [P 0 0; P 3 0; P 0 6] in let d := P (-7) (-9) in
  poly_nosat pts 4 d = true /\ poly_box_ok pts 4 /\ poly_box_ok (map (tr_pt d) pts) 4 /\
  option_map (@length point) (poly_thick_points pts (P 0 0) 4) = Some 53%nat /\
  poly_thick_bounding_box pts 4 = Some (R (P (-1) (-2)) (S 9 10)).
Proof.
  cbv zeta. split; [vm_compute; reflexivity|]. split; [|split].
  - unfold poly_box_ok.
    let x := eval vm_compute in (thick_segment_iter [P 0 0; P 3 0; P 0 6] 4) in
      change (thick_segment_iter [P 0 0; P 3 0; P 0 6] 4) with x.
    cbv iota beta. repeat (constructor; try (unfold seg_ok, jpt_big, jbig; cbn; lia)).
  - unfold poly_box_ok.
    let x := eval vm_compute in (thick_segment_iter (map (tr_pt (P (-7) (-9))) [P 0 0; P 3 0; P 0 6]) 4) in
      change (thick_segment_iter (map (tr_pt (P (-7) (-9))) [P 0 0; P 3 0; P 0 6]) 4) with x.
    cbv iota beta. repeat (constructor; try (unfold seg_ok, jpt_big, jbig; cbn; lia)).
  - vm_compute. split; reflexivity.
Qed.

(* non-vacuity of the triangle composition: the triangle of finding l, (0,0),(3,1),(3,9) with stroke 4 moved by (13,-11),
   all three alignments, with a fill colour *)
Example C07_join_triangle_nonvacuous :
  let t := (P 0 0, P 3 1, P 3 9) in let d := P 13 (-11) in
  tri_hyps t 4 Style.Inside d = true /\ tri_hyps t 4 Style.Center d = true /\ tri_hyps t 4 Style.Outside d = true /\
  option_map (@length (point * Z)) (jt_pixels t 4 Style.Center (Some 2)) = Some 85%nat /\
  jt_styled_bounding_box t 4 Style.Outside = Some (R (P (-5) (-5)) (S 12 16)).
Proof. vm_compute. repeat split; reflexivity. Qed.
