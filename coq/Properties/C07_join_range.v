(* C07 - Rendering commutes with translation; thick strokes, stated on the INPUT alone.
   The composition theorems of C07_join.v carry hypotheses on internal values (no saturating cast reached, segment
   corners within +-2^29).  Here they are discharged from a bound on the coordinates and the stroke width:

       range_ok V w  :=  0 <= w  /\  0 <= V  /\  V + 6 * w + 8 <= 8191

   with all vertices within +-V before and after the move.  (Every parallel of Line::extents starts within 6w+7 of the
   line - Proofs/ThicklineOverflow.v parallels_states_fit by the line builder -, so the four thick-line edges of a join
   lie within +-8191, and Proofs/JoinPointBound.v - the argument of the overflow builder's C08_join_point_bound with a larger
   constant - bounds the USED join point by 536 748 040 < 2^29: the rounded intersection when nearly_colinear_has_error is
   false, the edge end otherwise.)  E.g. coordinates within +-4096 with stroke widths up to 681, +-7000 with widths up to 197;
   beyond about +-2^13 the i32 arithmetic of the code (not the unbounded model) is the limit anyway.
   Statements only; proofs in Proofs/JoinRange.v. *)
From EG Require Import Base.Prelude Model.Geometry Model.Style Model.Line Model.Thickline Model.Join Model.JoinTri.
From EG Require Import Proofs.Join Proofs.JoinTri Proofs.JoinRange Proofs.JoinTotal.
Set Default Timeout 60.

(* Line::extents never fails (the model's fuel suffices) and stays within 6w+8 of the line *)
Theorem C07_join_extents_within : forall l w so V, 0 <= w <= 100000 -> 0 <= V -> lwithin V l ->
  exists a b, extents l w so = Some (a, b) /\ lwithin (V + 6 * w + 8) a /\ lwithin (V + 6 * w + 8) b.
Proof. exact extents_within. Qed.

(* thick polylines, vertices moved by d: pixels() yields the moved pixels in the same order ... *)
Theorem C07_join_polyline_vertices_translate_range : forall V w d pts t, range_ok V w ->
  Forall (within V) pts -> Forall (within V) (map (tr_pt d) pts) ->
  poly_thick_points (map (tr_pt d) pts) t w = option_map (map (tr_pt d)) (poly_thick_points pts t w).
Proof. exact poly_thick_points_tr_range. Qed.

(* ... and draw() issues the moved fill_solid rectangles in the same order *)
Theorem C07_join_polyline_draw_translate_range : forall V w d pts, range_ok V w ->
  Forall (within V) pts -> Forall (within V) (map (tr_pt d) pts) ->
  poly_thick_rects (map (tr_pt d) pts) w = option_map (map (fun r => translate_rect r d)) (poly_thick_rects pts w).
Proof. exact poly_thick_rects_tr_range. Qed.

(* stroked / filled triangles, all three stroke alignments *)
Theorem C07_join_triangle_pixels_translate_range : forall V d t w al fill, range_ok V w ->
  tri_within V t -> tri_within V (tr_tri d t) ->
  jt_pixels (tr_tri d t) w al fill = option_map (map (tr_pc d)) (jt_pixels t w al fill).
Proof. exact jt_pixels_tr_range. Qed.

Theorem C07_join_triangle_draw_translate_range : forall V d t w al fill, range_ok V w ->
  tri_within V t -> tri_within V (tr_tri d t) ->
  jt_draw (tr_tri d t) w al fill = option_map (map (fun rc => (translate_rect (fst rc) d, snd rc))) (jt_draw t w al fill).
Proof. exact jt_draw_tr_range. Qed.

Theorem C07_join_triangle_bbox_translate_range : forall V d t w al, range_ok V w ->
  tri_within V t -> tri_within V (tr_tri d t) ->
  jt_styled_bounding_box (tr_tri d t) w al = option_map (fun bb => translate_rect bb d) (jt_styled_bounding_box t w al).
Proof. exact jt_styled_bounding_box_tr_range. Qed.

(* the (non-empty) styled bounding box of a thick polyline moves with the vertices *)
Theorem C07_join_polyline_bbox_translate_range : forall V w d a b r, range_ok V w ->
  Forall (within V) (a :: b :: r) -> Forall (within V) (map (tr_pt d) (a :: b :: r)) ->
  poly_thick_bounding_box (map (tr_pt d) (a :: b :: r)) w =
  option_map (fun bb => translate_rect bb d) (poly_thick_bounding_box (a :: b :: r) w).
Proof. exact poly_thick_bounding_box_tr_range. Qed.

(* totality: inside the range the model functions answer Some (None would mean: fuel of Line::extents exhausted), so the
   equations above are not satisfied by None = option_map _ None *)
Theorem C07_join_polyline_total_range : forall V w pts tr, range_ok V w -> Forall (within V) pts ->
  (exists l, poly_thick_points pts tr w = Some l) /\ (exists rs, poly_thick_rects pts w = Some rs) /\
  (exists bb, poly_thick_bounding_box pts w = Some bb).
Proof. exact poly_total_range. Qed.

Theorem C07_join_triangle_total_range : forall V w al fill t, range_ok V w -> tri_within V t ->
  (exists px, jt_pixels t w al fill = Some px) /\ (exists dr, jt_draw t w al fill = Some dr) /\
  (exists bb, jt_styled_bounding_box t w al = Some bb).
Proof. exact tri_total_range. Qed.

(* non-vacuity: the range contains +-4096 with stroke 681 and +-7000 with stroke 197, and the triangle of finding l moved across both
   axes is inside it *)
Example C07_join_range_nonvacuous :
  range_ok 4096 681 /\ range_ok 7000 197 /\
  tri_within 239 (P 0 0, P 3 1, P 3 9) /\ tri_within 239 (tr_tri (P 13 (-11)) (P 0 0, P 3 1, P 3 9)) /\
  option_map (@length (point * Z)) (jt_pixels (P 0 0, P 3 1, P 3 9) 4 Style.Center (Some 2)) = Some 85%nat.
Proof.
  unfold range_ok, rbound, tri_within, within. cbn [fst snd tr_tri padd px py].
  repeat match goal with |- _ /\ _ => split end; try lia. vm_compute. reflexivity.
Qed.
