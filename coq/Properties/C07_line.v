(* Property C07 (rendering commutes with translation), line part.
   Statements only; proofs in Proofs/Line.v, Proofs/Thickline.v, Proofs/ThicklineBox.v.
   translate_line l d = Line::translate (mod.rs:188-193; translate_mut performs the same two additions). *)
From EG Require Import Base.Prelude Model.Geometry Model.Style Model.Line Model.Thickline
                       Proofs.Line Proofs.Thickline Proofs.ThicklineBox.

(* Line::points() of the moved line is the moved sequence -- all lines, all offsets *)
Theorem C07_line_points_translate : forall l d,
  line_points (translate_line l d) = map (fun p => padd p d) (line_points l).
Proof. exact line_points_translate. Qed.

Theorem C07_line_bbox_translate : forall l d, line_bbox (translate_line l d) = translate_rect (line_bbox l) d.
Proof. exact line_bbox_translate. Qed.

(* ThickPoints / Styled<Line>::pixels() of the moved line: the moved sequence, same order, same colours --
   all lines, all stroke widths, all offsets (the whole ParallelsIterator state machine is relative to start) *)
Theorem C07_line_thick_points_translate : forall l d w,
  thick_points (translate_line l d) w = option_map (shift d) (thick_points l w).
Proof. exact thick_points_translate. Qed.

Theorem C07_line_styled_pixels_translate : forall l d st,
  styled_line_pixels (translate_line l d) st
  = option_map (map (fun pc => (padd (fst pc) d, snd pc))) (styled_line_pixels l st).
Proof. exact styled_line_pixels_translate. Qed.

(* ParallelsIterator (all three stroke offsets, as used by thick polylines and triangles) and Line::extents *)
Theorem C07_line_parallels_translate : forall l d w so,
  parallels (translate_line l d) w so = option_map (tr_pars d) (parallels l w so).
Proof. exact parallels_tr. Qed.

Theorem C07_line_extents_translate : forall l d w so,
  extents (translate_line l d) w so =
  option_map (fun ab => (translate_line (fst ab) d, translate_line (snd ab) d)) (extents l w so).
Proof. exact extents_translate. Qed.

Theorem C07_line_styled_bbox_translate : forall l d st,
  styled_line_bounding_box (translate_line l d) st
  = option_map (fun r => translate_rect r d) (styled_line_bounding_box l st).
Proof. exact styled_bbox_translate. Qed.

Example C07_line_example :
  thick_points (translate_line (L (P 0 0) (P 3 1)) (P (-7) 40)) 2
  = Some [P (-7) 40; P (-6) 40; P (-5) 41; P (-4) 41; P (-7) 39; P (-6) 39; P (-5) 40; P (-4) 40].
Proof. vm_compute. reflexivity. Qed.
