(* C07, RoundedRectangle part: rendering commutes with translation.
   Statements only; proofs are in Proofs/RrectTranslate.v.  rr_translate = Transform::translate (translate_mut moves the same
   field in place; the correspondence suite rr_translate compares both with the model).
   Hypotheses: the shape (and its stroke/fill areas) before and after the move lie in the no-saturation range. *)
From EG Require Import Base.Prelude Model.Geometry Model.Style Model.Rrect Proofs.Geometry Proofs.Rrect Proofs.RrectTranslate.

Theorem C07_rrect_contains_translate : forall r d p,
  rr_ok r -> rr_ok (rr_translate r d) ->
  rr_contains (rr_translate r d) (padd p d) = rr_contains r p.
Proof. exact rr_contains_translate. Qed.

Theorem C07_rrect_points_translate : forall r d,
  rr_ok r -> rr_ok (rr_translate r d) ->
  rr_points (rr_translate r d) = map (fun p => padd p d) (rr_points r).
Proof. exact rr_points_translate. Qed.

Theorem C07_rrect_bbox_translate : forall r d st,
  rr_bounding_box (rr_translate r d) = translate_rect (rr_bounding_box r) d /\
  rr_styled_bounding_box (rr_translate r d) st = translate_rect (rr_styled_bounding_box r st) d.
Proof. intros r d st. split; [apply rr_bounding_box_translate|apply rr_styled_bbox_translate]. Qed.

Theorem C07_rrect_draw_translate : forall r d st bb p,
  styled_ok r st -> styled_ok (rr_translate r d) st ->
  pix_get (writes_of_calls (translate_rect bb d) (rr_draw (rr_translate r d) st)) (padd p d) =
  pix_get (writes_of_calls bb (rr_draw r st)) p.
Proof. exact rr_draw_translate. Qed.

Theorem C07_rrect_pixels_translate : forall r d st bb p,
  styled_ok r st -> styled_ok (rr_translate r d) st ->
  pix_get (writes_of_pixels (translate_rect bb d) (rr_pixels (rr_translate r d) st)) (padd p d) =
  pix_get (writes_of_pixels bb (rr_pixels r st)) p.
Proof. exact rr_pixels_translate. Qed.

Example C07_rrect_nonvacuous :
  let r := RR (R (P (-3) 2) (S 12 9)) (CR (S 3 4) (S 20 1) (S 2 2) (S 0 5)) in
  rr_points (rr_translate r (P 13 (-11))) = map (fun p => padd p (P 13 (-11))) (rr_points r) /\ length (rr_points r) = 108%nat.
Proof. vm_compute. split; reflexivity. Qed.
