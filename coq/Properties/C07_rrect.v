(* C07, RoundedRectangle part: rendering commutes with translation.
   Statements only; proofs are in Proofs/RrectTranslate.v.  rr_translate = Transform::translate (translate_mut moves the same
   field in place; the correspondence suite rr_translate compares both with the model).
   Hypotheses: the shape (and its stroke/fill areas) before and after the move lie in the domain rr_dom / styled_dom
   (no saturation, every intermediate fits its type; see C05_rrect.v). *)
From EG Require Import Base.Prelude Model.Geometry Model.Style Model.Rrect Proofs.Geometry Proofs.Curvefacts Proofs.Rrect Proofs.RrectTranslate Proofs.Rrect2.

Theorem C07_rrect_contains_translate : forall r d p,
  rr_dom r -> rr_dom (rr_translate r d) ->
  rr_contains (rr_translate r d) (padd p d) = rr_contains r p.
Proof. intros; eapply rr_contains_translate; eauto using rr_dom_ok, styled_dom_ok. Qed.

Theorem C07_rrect_points_translate : forall r d,
  rr_dom r -> rr_dom (rr_translate r d) ->
  rr_points (rr_translate r d) = map (fun p => padd p d) (rr_points r).
Proof. intros; eapply rr_points_translate; eauto using rr_dom_ok, styled_dom_ok. Qed.

Theorem C07_rrect_bbox_translate : forall r d st,
  rr_bounding_box (rr_translate r d) = translate_rect (rr_bounding_box r) d /\
  rr_styled_bounding_box (rr_translate r d) st = translate_rect (rr_styled_bounding_box r st) d.
Proof. intros r d st. split; [apply rr_bounding_box_translate|apply rr_styled_bbox_translate]. Qed.

Theorem C07_rrect_draw_translate : forall r d st bb p,
  styled_dom r st -> styled_dom (rr_translate r d) st ->
  pix_get (writes_of_calls (translate_rect bb d) (rr_draw (rr_translate r d) st)) (padd p d) =
  pix_get (writes_of_calls bb (rr_draw r st)) p.
Proof. intros; eapply rr_draw_translate; eauto using rr_dom_ok, styled_dom_ok. Qed.

Theorem C07_rrect_pixels_translate : forall r d st bb p,
  styled_dom r st -> styled_dom (rr_translate r d) st ->
  pix_get (writes_of_pixels (translate_rect bb d) (rr_pixels (rr_translate r d) st)) (padd p d) =
  pix_get (writes_of_pixels bb (rr_pixels r st)) p.
Proof. intros; eapply rr_pixels_translate; eauto using rr_dom_ok, styled_dom_ok. Qed.

Example C07_rrect_nonvacuous :
  let r := RR (R (P (-3) 2) (S 12 9)) (CR (S 3 4) (S 20 1) (S 2 2) (S 0 5)) in
  rr_dom r /\ rr_dom (rr_translate r (P 13 (-11))) /\
  rr_points (rr_translate r (P 13 (-11))) = map (fun p => padd p (P 13 (-11))) (rr_points r) /\ length (rr_points r) = 108%nat.
Proof. cbv zeta. split; [apply rr_dom_b; vm_compute; reflexivity|]. split; [apply rr_dom_b; vm_compute; reflexivity|]. vm_compute. split; reflexivity. Qed.
