(* C07, sector + arc part: contains, points, bounding boxes and the styled pixel sequences commute with
   translation - every test of the model is on delta = 2p - center_2x, which does not change when the shape
   and the point move together.  For ALL plane sectors / bevel lines (the angles are untouched by translate).
   Statements only; proofs in Proofs/Sectorstyled.v.  rect_ok = within +-2^29 (before and after the move). *)
From EG Require Import Base.Prelude Model.Geometry Model.Style Model.Sectormodel Proofs.Geometry Proofs.Sectorstyled.

Theorem C07_sector_contains_translate : forall s by_ p,
  se_contains (se_translate s by_) (padd p by_) = se_contains s p.
Proof. exact sector_contains_translate. Qed.

Theorem C07_sector_points_translate : forall s by_,
  rect_ok (se_bbox s) -> rect_ok (se_bbox (se_translate s by_)) ->
  se_points (se_translate s by_) = map (fun p => padd p by_) (se_points s).
Proof. exact sector_points_translate. Qed.

Theorem C07_arc_points_translate : forall a by_,
  rect_ok (ar_bbox a) -> rect_ok (ar_bbox (ar_translate a by_)) ->
  ar_points (ar_translate a by_) = map (fun p => padd p by_) (ar_points a).
Proof. exact arc_points_translate. Qed.

Theorem C07_sector_draw_translate : forall s st bev by_,
  0 <= stroke_width st ->
  rect_ok (se_styled_bbox s st) -> rect_ok (se_styled_bbox (se_translate s by_) st) ->
  se_styled_pixels (se_translate s by_) st bev
  = map (fun pc => (padd (fst pc) by_, snd pc)) (se_styled_pixels s st bev).
Proof. exact sector_styled_translate. Qed.

Theorem C07_arc_draw_translate : forall a st by_,
  0 <= stroke_width st ->
  rect_ok (ar_styled_bbox a st) -> rect_ok (ar_styled_bbox (ar_translate a by_) st) ->
  ar_styled_pixels (ar_translate a by_) st
  = map (fun pc => (padd (fst pc) by_, snd pc)) (ar_styled_pixels a st).
Proof. exact arc_styled_translate. Qed.

Theorem C07_sector_bbox_translate : forall s st by_,
  se_bbox (se_translate s by_) = translate_rect (se_bbox s) by_ /\
  se_styled_bbox (se_translate s by_) st = translate_rect (se_styled_bbox s st) by_.
Proof. exact sector_bbox_translate. Qed.

Theorem C07_arc_bbox_translate : forall a st by_,
  ar_bbox (ar_translate a by_) = translate_rect (ar_bbox a) by_ /\
  ar_styled_bbox (ar_translate a by_) st = translate_rect (ar_styled_bbox a st) by_.
Proof. exact arc_bbox_translate. Qed.

Example C07_sector_example :
  let s := Sec (P 0 0) 9 (PS (P 511 887) (P 512 (-887)) OpIntersection) in
  let st := Style (Some 2) (Some 1) 2 Center Solid in
  se_styled_pixels (se_translate s (P 13 (-11))) st None
  = map (fun pc => (padd (fst pc) (P 13 (-11)), snd pc)) (se_styled_pixels s st None)
  /\ length (se_styled_pixels s st None) = 51%nat.
Proof. vm_compute. repeat split. Qed.
