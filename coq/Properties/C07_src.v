(* C07, translator tie: the join arithmetic of the thick stroke (PointExt of src/geometry/mod.rs, Line::delta / midpoint,
   src/primitives/common/linear_equation.rs, src/primitives/line/intersection_params.rs incl. its two closures),
   regenerated from the source on every run by translate/r2c (coq/Gen/SrcCircle.v, SrcJoin.v), equals coq/Model/Join.v.
   No hypotheses: the code has only lossless casts and one saturating cast, which the model has too.
   Statements only (proofs: Proofs/SrcJoin.v). *)
From EG Require Import Base.Prelude Base.Casts Model.Geometry Model.Line Model.Thickline Model.Join.
From EG Require Import Gen.SrcGeometry Gen.SrcCircle Gen.SrcJoin Proofs.SrcJoin.

Theorem C07_src_rotate_90_is_model : forall p, src_Point_rotate_90 p = rotate_90 p.
Proof. exact src_rotate_90_eq. Qed.
Theorem C07_src_dot_product_is_model : forall a b, src_Point_dot_product a b = dot_product a b.
Proof. exact src_dot_product_eq. Qed.
Theorem C07_src_determinant_is_model : forall a b, src_Point_determinant a b = determinant a b.
Proof. exact src_determinant_eq. Qed.
Theorem C07_src_line_delta_is_model : forall l, src_Line_delta l = line_delta l.
Proof. exact src_Line_delta_eq. Qed.
Theorem C07_src_line_midpoint_is_model : forall l, src_Line_midpoint l = line_midpoint l.
Proof. exact src_Line_midpoint_eq. Qed.
Theorem C07_src_from_line_is_model : forall l, src_LinearEquation_from_line l = le_from_line l.
Proof. exact src_from_line_eq. Qed.
Theorem C07_src_distance_is_model : forall e p, src_LinearEquation_distance e p = le_distance e p.
Proof. exact src_distance_eq. Qed.
Theorem C07_src_check_side_is_model : forall e p s, src_LinearEquation_check_side e p s = le_check_side e p s.
Proof. exact src_check_side_eq. Qed.
Theorem C07_src_from_lines_is_model : forall l1 l2, src_IntersectionParams_from_lines l1 l2 = ip_from_lines l1 l2.
Proof. exact src_from_lines_eq. Qed.
Theorem C07_src_nearly_colinear_has_error_is_model : forall ip,
  src_IntersectionParams_nearly_colinear_has_error ip = nearly_colinear_has_error ip.
Proof. exact src_nearly_colinear_has_error_eq. Qed.
Theorem C07_src_intersection_is_model : forall ip, src_IntersectionParams_intersection ip = ip_intersection ip.
Proof. exact src_intersection_eq. Qed.

Example C07_src_nonvacuous :
  src_IntersectionParams_intersection
    (src_IntersectionParams_from_lines (L (P 0 0) (P 10 0)) (L (P 5 (-5)) (P 5 5))) = IPoint (P 5 0) SRight.
Proof. vm_compute. reflexivity. Qed.
