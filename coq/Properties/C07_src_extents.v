(* C07 / C17, translator tie (Line::extents and the joins built on it): Line::extents (src/primitives/line/mod.rs, a `loop`
   and `Iterator::last` over the ParallelsIterator: generated as Fixpoints over explicit fuel), LineJoin::start / end /
   from_points (src/primitives/common/line_join.rs), regenerated from the source on every run by translate/r2c
   (coq/Gen/SrcThick.v, SrcLineJoin2.v): whenever the model (Model/Thickline.v extents, Model/Join.v lj_start, lj_end, lj_from_points) answers Some x,
   the generated definition answers Some x for every fuel F above the number of parallels (ext_fuel: F > parallels_fuel).
   The model always answers for thickness >= 0 (Proofs/Thickline.v).  Statements only (proofs: Proofs/SrcExtents.v,
   Proofs/SrcLineJoin2.v). *)
From EG Require Import Base.Prelude Base.Casts Model.Geometry Model.Style Model.Line Model.Thickline Model.Join.
From EG Require Import Gen.SrcGeometry Gen.SrcThick Gen.SrcLineJoin2 Proofs.SrcExtents Proofs.SrcLineJoin2 Proofs.SrcExtentsTotal.

Theorem C07_src_extents_is_model : forall l t so r F,
  extents l t so = Some r -> (parallels_fuel l (sat_u32_to_i32 t) < F)%nat -> src_Line_extents F l t so = Some r.
Proof. exact src_extents_eq. Qed.
Theorem C07_src_linejoin_start_is_model : forall start mid w so j F,
  lj_start start mid w so = Some j -> ext_fuel (L start mid) w F -> src_LineJoin_start F start mid w so = Some j.
Proof. exact src_lj_start_eq. Qed.
Theorem C07_src_linejoin_end_is_model : forall mid end_ w so j F,
  lj_end mid end_ w so = Some j -> ext_fuel (L mid end_) w F -> src_LineJoin_end F mid end_ w so = Some j.
Proof. exact src_lj_end_eq. Qed.
Theorem C07_src_linejoin_from_points_is_model : forall start mid end_ w so j F,
  lj_from_points start mid end_ w so = Some j -> ext_fuel (L start mid) w F -> ext_fuel (L mid end_) w F ->
  src_LineJoin_from_points F start mid end_ w so = Some j.
Proof. exact src_lj_from_points_eq. Qed.

(* round 5: the other direction.  The model never answers None for widths up to 100000 (Proofs/JoinRange.v extents_within), so
   there the generated definitions answer exactly the model's value for every sufficient fuel *)
Theorem C07_src_extents_total : forall l w so, 0 <= w <= 100000 ->
  exists r, extents l w so = Some r /\
            forall F, (parallels_fuel l (sat_u32_to_i32 w) < F)%nat -> src_Line_extents F l w so = Some r.
Proof. exact src_extents_total. Qed.
Theorem C07_src_linejoin_start_total : forall start mid w so, 0 <= w <= 100000 ->
  exists j, lj_start start mid w so = Some j /\
            forall F, ext_fuel (L start mid) w F -> src_LineJoin_start F start mid w so = Some j.
Proof. exact src_lj_start_total. Qed.
Theorem C07_src_linejoin_end_total : forall mid end_ w so, 0 <= w <= 100000 ->
  exists j, lj_end mid end_ w so = Some j /\
            forall F, ext_fuel (L mid end_) w F -> src_LineJoin_end F mid end_ w so = Some j.
Proof. exact src_lj_end_total. Qed.
Theorem C07_src_linejoin_from_points_total : forall start mid end_ w so, 0 <= w <= 100000 ->
  exists j, lj_from_points start mid end_ w so = Some j /\
            forall F, ext_fuel (L start mid) w F -> ext_fuel (L mid end_) w F -> src_LineJoin_from_points F start mid end_ w so = Some j.
Proof. exact src_lj_from_points_total. Qed.

Example C07_src_extents_nonvacuous :
  src_Line_extents 40 (L (P 0 0) (P 10 0)) 3 SONone = Some (L (P 0 (-1)) (P 10 (-1)), L (P 0 1) (P 10 1)) /\
  extents (L (P 0 0) (P 10 0)) 3 SONone = Some (L (P 0 (-1)) (P 10 (-1)), L (P 0 1) (P 10 1)).
Proof. split; vm_compute; reflexivity. Qed.
