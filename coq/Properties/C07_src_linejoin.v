(* C07 / C02, translator tie (line joins and thick segments): `intersections`, LineJoin::empty / filler_line / cap /
   start_cap_lines / end_cap_lines / is_degenerate (src/primitives/common/line_join.rs) and ThickSegment::is_skeleton /
   edges / edges_bounding_box (thick_segment.rs), regenerated from the source on every run by translate/r2c
   (coq/Gen/SrcLineJoin.v), equal Model/Join.v.  No hypotheses.  Statements only (proofs: Proofs/SrcLineJoin.v).
   Not translated: LineJoin::start / end / from_points (they call Line::extents, whose model is list based). *)
From EG Require Import Base.Prelude Base.Casts Model.Geometry Model.Line Model.Thickline Model.Join.
From EG Require Import Gen.SrcGeometry Gen.SrcJoin Gen.SrcLineJoin Proofs.SrcLineJoin.

Theorem C07_src_intersections_is_model : forall fl fr sl sr, src_intersections fl fr sl sr = intersections fl fr sl sr.
Proof. exact src_intersections_eq. Qed.
Theorem C07_src_linejoin_empty_is_model : src_LineJoin_empty = lj_empty.
Proof. exact src_lj_empty_eq. Qed.
Theorem C07_src_filler_line_is_model : forall j, src_LineJoin_filler_line j = filler_line j.
Proof. exact src_filler_line_eq. Qed.
Theorem C07_src_cap_is_model : forall j c, src_LineJoin_cap j c = lj_cap j c.
Proof. exact src_lj_cap_eq. Qed.
Theorem C07_src_start_cap_lines_is_model : forall j, src_LineJoin_start_cap_lines j = start_cap_lines j.
Proof. exact src_start_cap_lines_eq. Qed.
Theorem C07_src_end_cap_lines_is_model : forall j, src_LineJoin_end_cap_lines j = end_cap_lines j.
Proof. exact src_end_cap_lines_eq. Qed.
Theorem C07_src_is_degenerate_is_model : forall j, src_LineJoin_is_degenerate j = is_degenerate j.
Proof. exact src_is_degenerate_eq. Qed.
Theorem C07_src_is_skeleton_is_model : forall t, src_ThickSegment_is_skeleton t = is_skeleton t.
Proof. exact src_is_skeleton_eq. Qed.
Theorem C07_src_segment_edges_is_model : forall t, src_ThickSegment_edges t = ts_edges t.
Proof. exact src_ts_edges_eq. Qed.
Theorem C07_src_edges_bounding_box_is_model : forall t, src_ThickSegment_edges_bounding_box t = edges_bounding_box t.
Proof. exact src_edges_bounding_box_eq. Qed.

Example C07_src_linejoin_nonvacuous :
  src_intersections (L (P 0 (-1)) (P 10 (-1))) (L (P 0 1) (P 10 1)) (L (P 9 0) (P 9 10)) (L (P 11 0) (P 11 10))
  = Some (P 9 (-1), SLeft, P 11 1).
Proof. vm_compute. reflexivity. Qed.
