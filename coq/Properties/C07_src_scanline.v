(* C07, translator tie (scanline part): src/primitives/common/scanline.rs (new_empty, is_empty, extend, touches, try_extend,
   to_rectangle), regenerated from the source on every run by translate/r2c (coq/Gen/SrcScanline.v), equals the scanline
   functions of Model/Join.v.  sl_of converts the generated Record { y; x : start * end } into the model's SL y x0 x1.
   `&mut self` methods: src_m self args = new self (paired with the result, if any).  Statements only. *)
From EG Require Import Base.Prelude Base.Casts Model.Geometry Model.Line Model.Thickline Model.Join.
From EG Require Import Gen.SrcGeometry Gen.SrcJoin Gen.SrcScanline Proofs.SrcScanline.

Theorem C07_src_scanline_new_empty_is_model : forall y, sl_of (src_Scanline_new_empty y) = Join.sl_new_empty y.
Proof. exact src_sl_new_empty_eq. Qed.
Theorem C07_src_scanline_is_empty_is_model : forall s, src_Scanline_is_empty s = Join.sl_is_empty (sl_of s).
Proof. exact src_sl_is_empty_eq. Qed.
Theorem C07_src_scanline_extend_is_model : forall s x, sl_of (src_Scanline_extend s x) = Join.sl_extend (sl_of s) x.
Proof. exact src_sl_extend_eq. Qed.
Theorem C07_src_scanline_touches_is_model : forall s o, src_Scanline_touches s o = Join.sl_touches (sl_of s) (sl_of o).
Proof. exact src_sl_touches_eq. Qed.
Theorem C07_src_scanline_try_extend_is_model : forall s o,
  (snd (src_Scanline_try_extend s o), sl_of (fst (src_Scanline_try_extend s o))) = Join.sl_try_extend (sl_of s) (sl_of o).
Proof. exact src_sl_try_extend_eq. Qed.
Theorem C07_src_scanline_to_rectangle_is_model : forall s,
  snd (Scanline_x s) - fst (Scanline_x s) <= u32_max ->
  src_Scanline_to_rectangle s = Join.sl_to_rectangle (sl_of s).
Proof. exact src_sl_to_rectangle_eq. Qed.

Example C07_src_scanline_nonvacuous :
  sl_of (src_Scanline_extend (src_Scanline_extend (src_Scanline_new_empty 3) 5) 9) = Join.SL 3 5 10 /\
  src_Scanline_touches (Build_Scanline 3 (5, 10)) (Build_Scanline 3 (10, 12)) = true.
Proof. split; vm_compute; reflexivity. Qed.
