(* C07, translator tie (Triangle translate, Sector and Arc without their trigonometry): Triangle::translate / translate_mut
   (src/primitives/triangle/mod.rs; `self.vertices.iter_mut().for_each(|v| *v += by)` is unrolled over the 3-array), and the
   parts of Sector / Arc (src/primitives/sector/mod.rs, arc/mod.rs) that do not compute with their angles - an `Angle` is an
   opaque value here -: constructors, to_circle / from_circle, bounding_box, center_2x, OffsetOutline::offset, translate /
   translate_mut, and PrimitiveStyle::stroke_area / fill_area at P = Sector; regenerated from the source on every run by
   translate/r2c (coq/Gen/SrcSectorArc.v).  translate_mut equals translate for the three shapes; Triangle::translate is the
   model's tri_translate; Sector::offset offsets the circle and keeps the angles; the stroke / fill area of a sector is the
   circle model's area of its circle.  Statements only (proofs: Proofs/SrcSectorArc.v). *)
From EG Require Import Base.Prelude Base.Casts Model.Geometry Model.Rrect Model.Style Model.Circle Model.Triangle.
From EG Require Import Gen.SrcGeometry Gen.SrcStyle Gen.SrcCircle Gen.SrcTriangle Gen.SrcRrect Gen.SrcRrect2 Gen.SrcAreas Gen.SrcSectorArc.
From EG Require Import Proofs.SrcLine Proofs.SrcSectorArc.

Theorem C07_src_Triangle_translate_mut_is_translate : forall t d, src_Triangle_translate_mut t d = src_Triangle_translate t d.
Proof. exact src_triangle_translate_mut_is_translate. Qed.
Theorem C07_src_Triangle_translate_is_model : forall t d, tri_of (src_Triangle_translate t d) = tri_translate (tri_of t) d.
Proof. exact src_triangle_translate_eq. Qed.
Theorem C07_src_Sector_translate_mut_is_translate : forall s d, src_Sector_translate_mut s d = src_Sector_translate s d.
Proof. exact src_sector_translate_mut_is_translate. Qed.
Theorem C07_src_Arc_translate_mut_is_translate : forall a d, src_Arc_translate_mut a d = src_Arc_translate a d.
Proof. exact src_arc_translate_mut_is_translate. Qed.
(* round 5: constructors / accessors of Sector and Arc against the circle they are built on, and translate in closed form
   (Sectormodel.se_translate / ar_translate: the top-left corner moves, diameter and angles are kept) *)
Theorem C07_src_Sector_new_is_model : forall t d a w, src_Sector_new t d a w = Build_Sector t d a w.
Proof. exact src_sector_new_eq. Qed.
Theorem C07_src_Sector_with_center_is_model : forall c d a w, 0 <= d <= u32_max ->
  src_Sector_with_center c d a w = Build_Sector (tl (with_center c (S d d))) d a w.
Proof. exact src_sector_with_center_eq. Qed.
Theorem C07_src_Sector_bounding_box_is_model : forall s, src_Sector_bounding_box s = circle_bbox (src_Sector_to_circle s).
Proof. exact src_sector_bounding_box_eq. Qed.
Theorem C07_src_Sector_center_is_model : forall s, 0 <= Sector_diameter s <= u32_max -> src_Sector_center s = circle_center (src_Sector_to_circle s).
Proof. exact src_sector_center_eq. Qed.
Theorem C07_src_Sector_center_2x_is_model : forall s, 0 <= Sector_diameter s <= i32_max -> src_Sector_center_2x s = circle_center_2x (src_Sector_to_circle s).
Proof. exact src_sector_center_2x_eq. Qed.
Theorem C07_src_Sector_translate_is_model : forall s d,
  src_Sector_translate s d = Build_Sector (padd (Sector_top_left s) d) (Sector_diameter s) (Sector_angle_start s) (Sector_angle_sweep s).
Proof. exact src_sector_translate_eq. Qed.
Theorem C07_src_Arc_new_is_model : forall t d a w, src_Arc_new t d a w = Build_Arc t d a w.
Proof. exact src_arc_new_eq. Qed.
Theorem C07_src_Arc_from_circle_is_model : forall c a w, src_Arc_from_circle c a w = Build_Arc (c_tl c) (c_d c) a w.
Proof. exact src_arc_from_circle_eq. Qed.
Theorem C07_src_Arc_to_circle_is_model : forall a, src_Arc_to_circle a = Circ (Arc_top_left a) (Arc_diameter a).
Proof. exact src_arc_to_circle_eq. Qed.
Theorem C07_src_Arc_bounding_box_is_model : forall a, src_Arc_bounding_box a = circle_bbox (src_Arc_to_circle a).
Proof. exact src_arc_bounding_box_eq. Qed.
Theorem C07_src_Arc_translate_is_model : forall a d,
  src_Arc_translate a d = Build_Arc (padd (Arc_top_left a) d) (Arc_diameter a) (Arc_angle_start a) (Arc_angle_sweep a).
Proof. exact src_arc_translate_eq. Qed.

Example C07_src_sector_arc_nonvacuous :
  Triangle_vertices (src_Triangle_translate_mut (Build_Triangle (P 0 0, P 1 2, P 3 4)) (P 10 (-1))) = (P 10 (-1), P 11 1, P 13 3) /\
  src_Arc_translate_mut (Build_Arc (P 1 1) 5 7 8) (P 2 3) = Build_Arc (P 3 4) 5 7 8.
Proof. repeat split; vm_compute; reflexivity. Qed.
