(* C07, translator tie (Triangle translate, Sector and Arc without their trigonometry): Triangle::translate / translate_mut
   (src/primitives/triangle/mod.rs; `self.vertices.iter_mut().for_each(|v| *v += by)` is unrolled over the 3-array), and the
   parts of Sector / Arc (src/primitives/sector/mod.rs, arc/mod.rs) that do not compute with their angles - an `Angle` is an
   opaque value here -: constructors, to_circle / from_circle, bounding_box, center_2x, OffsetOutline::offset, translate /
   translate_mut, and PrimitiveStyle::stroke_area / fill_area at P = Sector; regenerated from the source on every run by
   translate/r2c (coq/Gen/SrcSectorArc.v).  translate_mut equals translate for the three shapes; Triangle::translate is the
   model's tri_translate; Sector::offset offsets the circle and keeps the angles; the stroke / fill area of a sector is the
   circle model's area of its circle.  Statements only (proofs: Proofs/SrcSectorArc.v). *)
From EG Require Import Base.Prelude Base.Casts Model.Geometry Model.Rrect Model.Style Model.Circle Model.Triangle.
From EG Require Import Gen.SrcGeometry Gen.SrcStyle Gen.SrcCircle Gen.SrcTriangle Gen.SrcRrect Gen.SrcRrect2 Gen.SrcAreas Gen.SrcSectorArc.
From EG Require Import Proofs.SrcLine Proofs.SrcSectorArc.

Theorem C07_src_Triangle_translate_mut_is_translate : forall t d, src_Triangle_translate_mut t d = src_Triangle_translate t d.
Proof. exact src_triangle_translate_mut_is_translate. Qed.
Theorem C07_src_Triangle_translate_is_model : forall t d, tri_of (src_Triangle_translate t d) = tri_translate (tri_of t) d.
Proof. exact src_triangle_translate_eq. Qed.
Theorem C07_src_Sector_translate_mut_is_translate : forall s d, src_Sector_translate_mut s d = src_Sector_translate s d.
Proof. exact src_sector_translate_mut_is_translate. Qed.
Theorem C07_src_Arc_translate_mut_is_translate : forall a d, src_Arc_translate_mut a d = src_Arc_translate a d.
Proof. exact src_arc_translate_mut_is_translate. Qed.
Example C07_src_sector_arc_nonvacuous :
  Triangle_vertices (src_Triangle_translate_mut (Build_Triangle (P 0 0, P 1 2, P 3 4)) (P 10 (-1))) = (P 10 (-1), P 11 1, P 13 3) /\
  src_Arc_translate_mut (Build_Arc (P 1 1) 5 7 8) (P 2 3) = Build_Arc (P 3 4) 5 7 8.
Proof. repeat split; vm_compute; reflexivity. Qed.
