(* C07, translator tie (thick segment iterators): ThickSegmentIter::new / next (src/primitives/common/thick_segment_iter.rs) and
   ClosedThickSegmentIter::new / next (closed_thick_segment_iter.rs), regenerated from the source on every run by translate/r2c
   (coq/Gen/SrcSegIter.v).  `points.windows(3)` is the part of the slice not yet passed; the iterators are fuelled (they call
   LineJoin::start / end / from_points, i.e. Line::extents).  Driving the generated `next` from the generated `new` until its
   first None (src_tsi_drive / src_ctsi_drive, Proofs/SrcSegIter.v) yields exactly the list of segments of the model
   (Join.thick_segment_iter / closed_thick_segment_iter), whenever the model yields one and the fuel F covers the extents of
   the lines between the points (fuel_ok).  ClosedThickSegmentIter::new can also panic (`points[1]` on a one-point slice,
   `last().unwrap()`): its None is fuel exhausted or that panic; the one-point case is None for every fuel.  Statements only (proofs: Proofs/SrcSegIter.v). *)
From EG Require Import Base.Prelude Base.Casts Model.Geometry Model.Style Model.Line Model.Thickline Model.Join.
From EG Require Import Gen.SrcGeometry Gen.SrcStyle Gen.SrcCircle Gen.SrcJoin Gen.SrcLine Gen.SrcThick Gen.SrcLineJoin Gen.SrcLineJoin2 Gen.SrcSegIter.
From EG Require Import Proofs.SrcLineJoin2 Proofs.SrcSegIter Proofs.SrcSegIterTotal.

Theorem C07_src_thick_segment_iter_run : forall F pts w so segs,
  thick_segment_iter pts w = Some segs -> fuel_ok pts w F ->
  exists s0, src_ThickSegmentIter_new F pts w so = Some s0 /\
             src_tsi_drive F (Datatypes.S (Datatypes.S (length pts))) s0 = Some segs.
Proof. exact src_thick_segment_iter_run. Qed.

Theorem C07_src_closed_thick_segment_iter_run : forall F pts w so segs,
  closed_thick_segment_iter pts w so = Some segs -> fuel_ok pts w F ->
  exists s0 n, (n <= length pts + 4)%nat /\ src_ClosedThickSegmentIter_new F pts w so = Some s0 /\ src_ctsi_drive F n s0 = Some segs.
Proof. exact src_closed_thick_segment_iter_run. Qed.

(* the panic of `points[1]` on a one-point slice (the model's None): None whatever the fuel *)
Theorem C07_src_closed_new_single_point_panics : forall F a w so,
  src_ClosedThickSegmentIter_new F [a] w so = None /\ closed_thick_segment_iter [a] w so = None.
Proof. intros F a w so. split; reflexivity. Qed.

(* round 6: the other direction.  The models never answer None for widths up to 100000 (except the one-point slice of the closed
   iterator, above), so the generated iterators driven from the generated `new` yield exactly the model's list *)
Theorem C07_src_thick_segment_iter_total : forall F pts w so, 0 <= w <= 100000 -> fuel_ok pts w F ->
  exists segs s0, thick_segment_iter pts w = Some segs /\ src_ThickSegmentIter_new F pts w so = Some s0 /\
                  src_tsi_drive F (Datatypes.S (Datatypes.S (length pts))) s0 = Some segs.
Proof. exact src_thick_segment_iter_total. Qed.
Theorem C07_src_closed_thick_segment_iter_total : forall F pts w so, 0 <= w <= 100000 -> length pts <> 1%nat -> fuel_ok pts w F ->
  exists segs s0 n, closed_thick_segment_iter pts w so = Some segs /\ (n <= length pts + 4)%nat /\
                    src_ClosedThickSegmentIter_new F pts w so = Some s0 /\ src_ctsi_drive F n s0 = Some segs.
Proof. exact src_closed_thick_segment_iter_total. Qed.

Example C07_src_segiter_nonvacuous :
  (exists s0, src_ThickSegmentIter_new 50 [P 0 0; P 10 0; P 10 10] 3 SOLeft = Some s0 /\
              option_map (@length _) (src_tsi_drive 50 5 s0) = Some 2%nat /\
              src_tsi_drive 50 5 s0 = thick_segment_iter [P 0 0; P 10 0; P 10 10] 3) /\
  (exists s0, src_ClosedThickSegmentIter_new 50 [P 0 0; P 10 0; P 10 10] 3 SONone = Some s0 /\
              src_ctsi_drive 50 7 s0 = closed_thick_segment_iter [P 0 0; P 10 0; P 10 10] 3 SONone /\
              option_map (@length _) (src_ctsi_drive 50 7 s0) = Some 3%nat).
Proof. split; eexists; (split; [vm_compute; reflexivity|]); split; vm_compute; reflexivity. Qed.
