(* C07, translator tie (Transform impls): for every Transform impl whose two halves are inside the subset - Rectangle, Circle,
   Ellipse, Line, RoundedRectangle, Polyline (src/primitives/*/mod.rs) - the in-place half `translate_mut(&mut self, by) ->
   &mut Self` (the generated definition returns the new self) equals `translate(&self, by)`; both are regenerated from the
   source on every run by translate/r2c (coq/Gen/SrcTraitCopies.v and the modules of the shapes).
   Not covered: Triangle (`self.vertices.iter_mut().for_each(..)`), Sector / Arc (f32 angle fields), Styled.
   Statements only (proofs: Proofs/SrcTraitCopies.v). *)
From EG Require Import Base.Prelude Base.Casts Model.Geometry Model.Rrect Model.Circle Model.Ellipse Model.Line.
From EG Require Import Gen.SrcGeometry Gen.SrcCircle Gen.SrcLine Gen.SrcRrect Gen.SrcRrect2 Gen.SrcTraitCopies Proofs.SrcTraitCopies.

Theorem C07_src_Rectangle_translate_mut_is_translate : forall r d, src_Rectangle_trait_translate_mut r d = src_Rectangle_translate r d.
Proof. exact src_rect_translate_mut_is_translate. Qed.
Theorem C07_src_Circle_translate_mut_is_translate : forall c d, src_Circle_translate_mut c d = src_Circle_translate c d.
Proof. exact src_circle_translate_mut_is_translate. Qed.
Theorem C07_src_Ellipse_translate_mut_is_translate : forall e d, src_Ellipse_translate_mut e d = src_Ellipse_translate e d.
Proof. exact src_ellipse_translate_mut_is_translate. Qed.
Theorem C07_src_Line_translate_mut_is_translate : forall l d, src_Line_translate_mut l d = src_Line_translate l d.
Proof. exact src_line_translate_mut_is_translate. Qed.
Theorem C07_src_RoundedRectangle_translate_mut_is_translate : forall r d, src_RoundedRectangle_translate_mut r d = src_RoundedRectangle_translate r d.
Proof. exact src_rrect_translate_mut_is_translate. Qed.
Theorem C07_src_Polyline_translate_mut_is_translate : forall p d, src_Polyline_translate_mut p d = src_Polyline_translate p d.
Proof. exact src_polyline_translate_mut_is_translate. Qed.

(* round 5: the by-value halves themselves: the top-left corner / the translate offset moves by `by`, the rest is kept
   (Rectangle: C16_src_trait_translate_is_model; Line: C07_src; RoundedRectangle: C05_src_rrect_translate_is_model;
   Polyline: Polyline.polyline_translate on the (translate, vertices) record) *)
Theorem C07_src_Circle_translate_is_model : forall c d, src_Circle_translate c d = Circ (padd (c_tl c) d) (c_d c).
Proof. exact src_circle_translate_eq. Qed.
Theorem C07_src_Ellipse_translate_is_model : forall e d, src_Ellipse_translate e d = Ell (padd (e_tl e) d) (e_sz e).
Proof. exact src_ellipse_translate_eq. Qed.
Theorem C07_src_Polyline_translate_is_model : forall p d,
  src_Polyline_translate p d = Build_Polyline (padd (Polyline_translate p) d) (Polyline_vertices p).
Proof. exact src_polyline_translate_eq. Qed.

Example C07_src_translate_mut_nonvacuous :
  src_Line_translate_mut (L (P 1 2) (P 3 4)) (P 10 20) = L (P 11 22) (P 13 24) /\
  src_Circle_translate_mut (Circ (P 1 2) 5) (P (-1) 1) = Circ (P 0 3) 5.
Proof. split; vm_compute; reflexivity. Qed.
