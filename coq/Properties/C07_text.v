(* C07 (text clause) - Text rendering commutes with translation: the pixel map of text.translate(d) is the
   pixel map of text shifted by d, the returned next position and the bounding box shift by d.
   (Transform::translate / translate_mut of Text add d to `position` only: src/text/text.rs:92-105.)
   Statements only; proofs in Proofs/Textbox.v. *)
From EG Require Import Base.Prelude Model.Geometry Proofs.Geometry Model.Fontmodel Proofs.Fontmodel
  Model.Textmodel Proofs.Textmodel Proofs.Textbox.

Theorem C07_text_draw_string_translate : forall F s l p b d q,
  font_ok (mf_geom F) -> draw_ok (mf_geom F) p (length l) -> draw_ok (mf_geom F) (padd p d) (length l) ->
  index_ok F l ->
  render (fst (draw_string F s l (padd p d) b)) (padd q d) = render (fst (draw_string F s l p b)) q /\
  snd (draw_string F s l (padd p d) b) = padd (snd (draw_string F s l p b)) d.
Proof. exact draw_string_translate. Qed.

Theorem C07_text_draw_translate : forall F s ts pos d text q,
  font_ok (mf_geom F) ->
  text_in_range F s ts pos text -> text_in_range F s ts (padd pos d) text ->
  render (fst (text_draw F s ts (padd pos d) text)) (padd q d) = render (fst (text_draw F s ts pos text)) q /\
  snd (text_draw F s ts (padd pos d) text) = padd (snd (text_draw F s ts pos text)) d.
Proof. exact text_draw_translate. Qed.

Theorem C07_text_lines_translate : forall f s ts pos d text,
  text_lines f s ts (padd pos d) text = map (fun lp => (fst lp, padd (snd lp) d)) (text_lines f s ts pos text).
Proof. exact text_lines_translate. Qed.

(* the bounding box shifts too - also the zero-sized box of an empty text, which sits at `position` *)
Theorem C07_text_bbox_translate : forall f s ts pos d text,
  text_bbox f s ts (padd pos d) text = translate_rect (text_bbox f s ts pos text) d.
Proof. exact text_bbox_translate. Qed.

Example C07_text_example :
  let F := MFont (Font 8 6 4 3 1 2 (Deco 4 1) (Deco 1 1)) (fun c => str_index [0; 97; 100] 1 c) (fun x y => Z.even (x + y)) in
  let s := CStyle (Some 7) (Some 9) DTextColor DNone in
  let ts := TStyle ARight BMiddle (LHPixels 4) in
  render (fst (text_draw F s ts (padd (P 10 20) (P (-25) 7)) [97; 10; 98; 99])) (padd (P 7 24) (P (-25) 7)) = Some 7 /\
  render (fst (text_draw F s ts (P 10 20) [97; 10; 98; 99])) (P 7 24) = Some 7 /\
  text_bbox (mf_geom F) s ts (P 10 20) [97; 10; 98; 99] = R (P 2 19) (S 9 9).
Proof. cbn zeta. repeat split; vm_compute; reflexivity. Qed.
