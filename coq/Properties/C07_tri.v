(* C07, triangle / polyline part - rendering commutes with translation.
   Statements only; proofs in Proofs/Triangle.v, Proofs/Polyline.v, Proofs/Tristyled.v.  Full for Triangle::points(),
   contains(), bounding_box(), the styled triangle with stroke width 0, Polyline::points() / thin styled polylines /
   bounding_box(); thick strokes are PARTIAL (join computation: Properties/C07_join.v of builder "join"; search p_translate). *)
From EG Require Import Base.Prelude Model.Geometry Model.Line Model.Style Model.Polyline Model.Triangle Model.Tristyled
  Proofs.Polyline Proofs.Triangle Proofs.Tristyled.

Theorem C07_tri_points_translate : forall t d, tri_ok t -> tri_ok (tri_translate t d) ->
  tri_points (tri_translate t d) = map (fun p => padd p d) (tri_points t).
Proof. exact tri_points_translate. Qed.

Theorem C07_tri_contains_translate : forall t d p, tri_contains (tri_translate t d) (padd p d) = tri_contains t p.
Proof. exact tri_contains_translate. Qed.

Theorem C07_tri_bbox_translate : forall t d, tri_bounding_box (tri_translate t d) = translate_rect (tri_bounding_box t) d.
Proof. exact tri_bounding_box_translate. Qed.

(* shift_px d (p, c) = (p + d, c) *)
Theorem C07_tri_styled_w0_translate : forall st t d, tri_ok t -> tri_ok (tri_translate t d) ->
  tri_styled_pixels_w0 st (tri_translate t d) = map (shift_px d) (tri_styled_pixels_w0 st t).
Proof. exact tri_w0_translate. Qed.

Theorem C07_tri_polyline_points_translate : forall pl d,
  polyline_points (polyline_translate pl d) = map (fun p => padd p d) (polyline_points pl).
Proof. exact polyline_translate_points. Qed.

(* the two ways of moving a polyline: the translate field and moved vertices *)
Theorem C07_tri_polyline_translate_field : forall tr vs,
  polyline_points (PL tr vs) = polyline_points (PL (P 0 0) (shift tr vs)).
Proof. exact polyline_translate_field. Qed.

Theorem C07_tri_polyline_thin_translate : forall st pl d,
  poly_styled_pixels_thin st (polyline_translate pl d) = map (shift_px d) (poly_styled_pixels_thin st pl).
Proof. exact poly_thin_translate. Qed.

(* non-empty boxes only: with fewer than two vertices the box has size zero (and ignores `translate`, polyline/mod.rs:93) *)
Theorem C07_tri_polyline_bbox_translate : forall pl d,
  (2 <= length (pl_vertices pl))%nat ->
  Forall (fun v => ppoint_ok (padd v (pl_translate pl)) /\ ppoint_ok (padd v (padd (pl_translate pl) d))) (pl_vertices pl) ->
  polyline_bounding_box (polyline_translate pl d) = translate_rect (polyline_bounding_box pl) d.
Proof. exact polyline_bounding_box_translate. Qed.

Example C07_tri_example :
  let t := T (P 0 0) (P 5 2) (P 1 4) in
  tri_ok t /\ tri_ok (tri_translate t (P (-7) 3)) /\
  tri_points (tri_translate t (P (-7) 3)) = map (fun p => padd p (P (-7) 3)) (tri_points t) /\
  hd_error (tri_points (tri_translate t (P (-7) 3))) = Some (P (-7) 3).
Proof. cbv zeta. repeat split; try (vm_compute; reflexivity); unfold tpoint_ok, tbound; cbn; lia. Qed.
